/-
  Python semantics used by the modelled code (core Lean only, no imports):
  exceptions as `Except Err`, list indexing with negative wrap-around, floor division,
  stable sort, insertion-ordered dict, `int()` / `str()` of integers, `str.isspace`.
-/
namespace AgpTpf

/-- Text inside the model is a list of code points (kernel-reducible, structural). -/
abbrev Str := List Char

/-- Exception classes the modelled code can raise.  Messages are never modelled. -/
inductive Err where
  | value | index | key | type | attribute | tagging | chrNamer | zeroDiv | notImpl | stopIter
  | fileExists | usage | other
  deriving DecidableEq, Repr, Inhabited

def Err.name : Err → String
  | .value => "ValueError" | .index => "IndexError" | .key => "KeyError" | .type => "TypeError"
  | .attribute => "AttributeError" | .tagging => "TaggingError" | .chrNamer => "ChrNamerError"
  | .zeroDiv => "ZeroDivisionError" | .notImpl => "NotImplementedError" | .stopIter => "StopIteration"
  | .fileExists => "FileExistsError" | .usage => "IndexUsageError" | .other => "Other"

abbrev R := Except Err

/-- `l[i]` with Python semantics: negative indices count from the end, out of range raises. -/
def pyGet {α} (l : List α) (i : Int) : R α :=
  let n : Int := l.length
  let j := if i < 0 then i + n else i
  if j < 0 ∨ n ≤ j then .error .index
  else match l[j.toNat]? with
    | some x => .ok x
    | none => .error .index

/-- Python `a // b` for `b ≠ 0` is floor division = `Int.fdiv`; `a % b` = `Int.fmod`. -/
def pyDiv (a b : Int) : Int := Int.fdiv a b
def pyMod (a b : Int) : Int := Int.fmod a b

def sumInts : List Int → Int
  | [] => 0
  | x :: xs => x + sumInts xs

/-! ### stable sort (what `sorted` / `list.sort` guarantee) -/

/-- insert `x` in front of the first `y` with `le x y`. -/
def insertBy {α} (le : α → α → Bool) (x : α) : List α → List α
  | [] => [x]
  | y :: ys => if le x y then x :: y :: ys else y :: insertBy le x ys

/-- stable insertion sort: equal elements keep their original order. -/
def stableSort {α} (le : α → α → Bool) : List α → List α
  | [] => []
  | x :: xs => insertBy le x (stableSort le xs)

/-- `sorted(l, key=k)` for integer keys. -/
def sortByIntKey {α} (k : α → Int) (l : List α) : List α := stableSort (fun a b => k a ≤ k b) l
/-- `sorted(l, key=k, reverse=True)`: descending, still stable. -/
def sortByIntKeyDesc {α} (k : α → Int) (l : List α) : List α := stableSort (fun a b => k a ≥ k b) l

/-! ### insertion-ordered dict -/

def dGet? {κ ν} [DecidableEq κ] : List (κ × ν) → κ → Option ν
  | [], _ => none
  | (k', v) :: r, k => if k' = k then some v else dGet? r k

/-- `d[k] = v`: overwrite keeps the position, a new key goes to the end. -/
def dSet {κ ν} [DecidableEq κ] : List (κ × ν) → κ → ν → List (κ × ν)
  | [], k, v => [(k, v)]
  | (k', v') :: r, k, v => if k' = k then (k', v) :: r else (k', v') :: dSet r k v

def dHas {κ ν} [DecidableEq κ] (d : List (κ × ν)) (k : κ) : Bool := (dGet? d k).isSome

def dDel {κ ν} [DecidableEq κ] : List (κ × ν) → κ → List (κ × ν)
  | [], _ => []
  | (k', v') :: r, k => if k' = k then r else (k', v') :: dDel r k

/-- `d.setdefault(k, v)`: returns the dict and the value now stored under `k`. -/
def dSetDefault {κ ν} [DecidableEq κ] (d : List (κ × ν)) (k : κ) (v : ν) : List (κ × ν) × ν :=
  match dGet? d k with
  | some w => (d, w)
  | none => (d ++ [(k, v)], v)

/-- set as duplicate-free list in first-insertion order. -/
def sAdd {α} [DecidableEq α] (s : List α) (x : α) : List α := if x ∈ s then s else s ++ [x]
def sUnion {α} [DecidableEq α] (s t : List α) : List α := t.foldl sAdd s
def sDiff {α} [DecidableEq α] (s t : List α) : List α := s.filter (fun x => !(t.contains x))
def sInter {α} [DecidableEq α] (s t : List α) : List α := s.filter (fun x => t.contains x)

/-! ### characters -/

/-- `str.isspace` / regex `\s` on `str` per code point (checked exhaustively against CPython by the harness). -/
def isSpace (c : Char) : Bool :=
  let n := c.toNat
  (9 ≤ n && n ≤ 13) || (28 ≤ n && n ≤ 32) || n == 0x85 || n == 0xA0 || n == 0x1680 ||
  (0x2000 ≤ n && n ≤ 0x200A) || n == 0x2028 || n == 0x2029 || n == 0x202F || n == 0x205F || n == 0x3000

def isDigit (c : Char) : Bool := '0' ≤ c && c ≤ '9'
def isUpper (c : Char) : Bool := 'A' ≤ c && c ≤ 'Z'
def isLower (c : Char) : Bool := 'a' ≤ c && c ≤ 'z'
def isAlpha (c : Char) : Bool := isUpper c || isLower c
def isAscii (c : Char) : Bool := c.toNat < 128

def toLowerAscii (c : Char) : Char := if isUpper c then Char.ofNat (c.toNat + 32) else c
def toUpperAscii (c : Char) : Char := if isLower c then Char.ofNat (c.toNat - 32) else c

/-- `str.lower()` restricted to ASCII (the harness keeps names ASCII where case folding matters). -/
def lowerStr (s : Str) : Str := s.map toLowerAscii

def rstripBy (p : Char → Bool) (s : Str) : Str := (s.reverse.dropWhile p).reverse
def lstripBy (p : Char → Bool) (s : Str) : Str := s.dropWhile p

/-- `s.split(sep)` for a single separator character: always at least one field. -/
def splitOnChar (sep : Char) : Str → List Str
  | [] => [[]]
  | c :: cs =>
    if c = sep then [] :: splitOnChar sep cs
    else match splitOnChar sep cs with
      | [] => [[c]]
      | f :: fs => (c :: f) :: fs

def joinWith (sep : Char) : List Str → Str
  | [] => []
  | [f] => f
  | f :: g :: fs => f ++ sep :: joinWith sep (g :: fs)

def startsWith (p s : Str) : Bool := p.isPrefixOf s

/-! ### decimal numbers -/

def natToStr (n : Nat) : Str := Nat.toDigits 10 n
def intToStr (i : Int) : Str :=
  match i with
  | .ofNat n => natToStr n
  | .negSucc n => '-' :: natToStr (n + 1)

def digitVal (c : Char) : Nat := c.toNat - '0'.toNat

/-- value of a string of ASCII digits, most significant first (accumulator form). -/
def digitsVal (acc : Nat) : Str → Nat
  | [] => acc
  | c :: cs => digitsVal (acc * 10 + digitVal c) cs

/-- digit groups separated by single underscores: `1_000`. Returns the digits with underscores removed. -/
def stripUnderscores : Str → Option Str
  | [] => none
  | c :: cs =>
    if !isDigit c then none
    else
      let rec go (prevDigit : Bool) (acc : Str) : Str → Option Str
        | [] => if prevDigit then some acc.reverse else none
        | d :: ds =>
          if isDigit d then go true (d :: acc) ds
          else if d = '_' ∧ prevDigit then go false acc ds
          else none
      go true [c] cs

/-- `int(s)` for a `str`: surrounding whitespace, optional sign, ASCII digits with single underscores.
    (Unicode decimal digits are outside the modelled domain.) -/
def pyInt (s : Str) : R Int :=
  let t := rstripBy isSpace (lstripBy isSpace s)
  let (neg, body) := match t with
    | '-' :: r => (true, r)
    | '+' :: r => (false, r)
    | r => (false, r)
  match stripUnderscores body with
  | none => .error .value
  | some ds => let v : Int := digitsVal 0 ds; .ok (if neg then -v else v)

end AgpTpf
