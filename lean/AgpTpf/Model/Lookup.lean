/-
  IndexedAssembly.add_scaffold / find_overlaps (indexed_assembly.py) and OverlapResult (overlap_result.py)
-/
import AgpTpf.Model.Basic
import AgpTpf.Gen.Remap
namespace AgpTpf

/-- cumulative end position of every row (`add_scaffold`). -/
def cumEnds (acc : Int) : List Row → List Int
  | [] => []
  | r :: rs => (acc + r.length) :: cumEnds (acc + r.length) rs

def buildIndex (rows : List Row) : List Int := cumEnds 0 rows

/-- `idx[k]` for an in-range natural `k` (the code only reads in-range positions here). -/
def idxAt (idx : List Int) (k : Nat) : Int := idx.getD k 0
def rowStart (idx : List Int) (k : Nat) : Int := if k = 0 then 1 else 1 + idxAt idx (k - 1)

/-- the `while a < z` binary search: some overlapping row, or none. -/
def bsearch (idx : List Int) (bs be : Int) (a z : Nat) : Option Nat :=
  if h : a < z then
    let m := a + (z - a) / 2
    if idxAt idx m < bs then bsearch idx bs be (m + 1) z
    else if rowStart idx m > be then bsearch idx bs be a m
    else some m
  else none
termination_by z - a
decreasing_by all_goals omega

/-- `for i in range(ovr-1, -1, -1): if idx[i] < bait_start: break; i_ovr = i` — `k` rows remain to the left. -/
def extendLeft (idx : List Int) (bs : Int) : Nat → Nat → Nat
  | 0, cur => cur
  | k + 1, cur => if idxAt idx k < bs then cur else extendLeft idx bs k k

/-- `for j in range(ovr+1, len(idx))`: `fuel` rows remain to the right of `cur`. -/
def extendRight (idx : List Int) (be : Int) : Nat → Nat → Nat
  | 0, cur => cur
  | fuel + 1, cur =>
    let j := cur + 1
    if rowStart idx j > be then cur else extendRight idx be fuel j

/-- `while i <= j and isinstance(rows[i], Gap): i += 1` (Python indexing kept: an out-of-range read would raise) -/
def skipGapsRight (rows : List Row) : Nat → Int → Int → R Int
  | 0, _, _ => .error .index
  | fuel + 1, i, j =>
    if i ≤ j then do
      let r ← pyGet rows i
      if r.isGap then skipGapsRight rows fuel (i + 1) j else pure i
    else pure i

/-- `while j >= i and isinstance(rows[j], Gap): j -= 1` -/
def skipGapsLeft (rows : List Row) : Nat → Int → Int → R Int
  | 0, _, _ => .error .index
  | fuel + 1, i, j =>
    if j ≥ i then do
      let r ← pyGet rows j
      if r.isGap then skipGapsLeft rows fuel i (j - 1) else pure j
    else pure j

/-- mutable `OverlapResult`: the bait, the covered span, the rows, and the labels put on it. -/
structure OverlapResult where
  bait : Fragment
  start : Int
  stop : Int
  rows : List Row
  name : Str := []
  tag : Option Str := none
  haplotype : Option Str := none
  rank : Int := 0
  originalName : Option Str := none
  originalTags : Option (List Str) := none
  deriving DecidableEq, Repr, Inhabited

def pySlice {α} (l : List α) (i j : Int) : List α :=
  -- `l[i:j]` for `0 ≤ i`, any `j ≥ 0`
  (l.drop i.toNat).take (j.toNat - i.toNat)

/-- `find_overlaps` on one scaffold's rows (the scaffold lookup by name is done by the caller).
    `rows = []` raises ValueError as in the source. -/
def findOverlaps (rows : List Row) (bait : Fragment) : R (Option OverlapResult) :=
  if rows.isEmpty then .error .value
  else
    let idx := buildIndex rows
    match bsearch idx bait.start bait.stop 0 idx.length with
    | none => .ok none
    | some ovr => do
      let iOvr := extendLeft idx bait.start ovr ovr
      let jOvr := extendRight idx bait.stop (idx.length - (ovr + 1)) ovr
      -- each loop takes at most len(rows)+1 steps
      let i ← skipGapsRight rows (rows.length + 2) iOvr jOvr
      let j ← skipGapsLeft rows (rows.length + 2) i jOvr
      if ¬ (i ≤ j) then pure none
      else
        let ovl := pySlice rows i (j + 1)
        let st := if i = 0 then 1 else 1 + idxAt idx (i - 1).toNat
        let en ← pyGet idx j
        pure (some { bait, start := st, stop := en, rows := ovl,
                     name := "matches".toList })  -- display name; always overwritten by label_scaffold

namespace OverlapResult
def length (o : OverlapResult) : Int := o.stop - o.start + 1
def startOverhang (o : OverlapResult) : Int := o.bait.start - o.start
def endOverhang (o : OverlapResult) : Int := o.stop - o.bait.stop

def startRowBaitOverlap (o : OverlapResult) : R Int := do
  let r0 ← pyGet o.rows 0
  let s := max o.bait.start o.start
  let e := min o.bait.stop (o.start + r0.length - 1)
  pure (if e < s then 0 else e - s + 1)

def endRowBaitOverlap (o : OverlapResult) : R Int := do
  let rl ← pyGet o.rows (-1)
  let s := max o.bait.start (o.stop - rl.length + 1)
  let e := min o.bait.stop o.stop
  pure (if e < s then 0 else e - s + 1)

def popLeadingGaps : List Row → Int → List Row × Int
  | .gap g :: r, st => popLeadingGaps r (st + g.length)
  | rows, st => (rows, st)

/-- `discard_start` -/
def discardStart (o : OverlapResult) : R OverlapResult :=
  match o.rows with
  | [] => .error .index
  | d :: r =>
    let (rows, st) := popLeadingGaps r (o.start + d.length)
    .ok { o with rows, start := st }

/-- `discard_end`, on the reversed list. -/
def discardEnd (o : OverlapResult) : R OverlapResult :=
  match o.rows.reverse with
  | [] => .error .index
  | d :: r =>
    let (rrows, shrink) := popLeadingGaps r d.length
    .ok { o with rows := rrows.reverse, stop := o.stop - shrink }

def leadingGapLength : List Row → Int
  | .gap g :: r => g.length + leadingGapLength r
  | _ => 0

def overhangIfStartRemoved (o : OverlapResult) : R Int :=
  match o.rows with
  | [] => .error .index
  | d :: r => .ok (o.bait.start - (o.start + d.length + leadingGapLength r))

def overhangIfEndRemoved (o : OverlapResult) : R Int :=
  match o.rows.reverse with
  | [] => .error .index
  | d :: r => .ok ((o.stop - d.length - leadingGapLength r) - o.bait.stop)

/-- `trim_large_overhangs` -/
def trimLargeOverhangs (o : OverlapResult) (err : Int) : R OverlapResult :=
  if o.rows.length = 1 ∧ o.bait.length > err then .ok o
  else do
    let (o1, discarded) ←
      if o.startOverhang > err then do
        let ov ← o.startRowBaitOverlap
        if ov < err then do let o' ← o.discardStart; pure (o', true) else pure (o, false)
      else pure (o, false)
    if discarded ∧ o1.rows.isEmpty then pure o1   -- "return if we removed the only row"
    else if o1.endOverhang > err then do
      let ov ← o1.endRowBaitOverlap
      if ov < err then o1.discardEnd else pure o1
    else pure o1

def rowIs (r : Row) (f : Fragment) : Bool :=
  match r with
  | .frag g => g.oid == f.oid
  | .gap _ => false

def firstIs (o : OverlapResult) (f : Fragment) : R Bool := do let r ← pyGet o.rows 0; pure (rowIs r f)
def lastIs (o : OverlapResult) (f : Fragment) : R Bool := do let r ← pyGet o.rows (-1); pure (rowIs r f)

/-- `fragment_start_if_trimmed` -/
def fragmentStartIfTrimmed (o : OverlapResult) (f : Fragment) : R Int :=
  if f.strand = 1 then do
    if (← o.firstIs f) then pure (f.start + o.startOverhang) else pure f.start
  else do
    if (← o.lastIs f) then pure (f.start + o.endOverhang) else pure f.start

def setLast {α} (l : List α) (x : α) : List α :=
  match l.reverse with
  | [] => []
  | _ :: r => (x :: r).reverse

/-- `trim_fragment(trim, keep_start, keep_end)`; `newOid` is the identity of the Fragment it creates.
    Returns the updated result and the new fragment. -/
def trimFragment (o : OverlapResult) (trim : Fragment) (keepStart keepEnd : Bool) (newOid : Nat) :
    R (OverlapResult × Fragment) := do
  let atStart ← o.firstIs trim
  -- start side
  let (s1, e1, ost) :=
    if atStart then
      let ovr := o.startOverhang
      if ovr > 0 ∧ ¬ keepStart then
        if trim.strand = 1 then (trim.start + ovr, trim.stop, o.start + ovr)
        else (trim.start, trim.stop - ovr, o.start + ovr)
      else (trim.start, trim.stop, o.start)
    else (trim.start, trim.stop, o.start)
  let o1 := { o with start := ost }
  let atEnd ← o1.lastIs trim
  let (s2, e2, oen) :=
    if atEnd then
      let ovr := o1.endOverhang
      if ovr > 0 ∧ ¬ keepEnd then
        if trim.strand = 1 then (s1, e1 - ovr, o1.stop - ovr)
        else (s1 + ovr, e1, o1.stop - ovr)
      else (s1, e1, o1.stop)
    else (s1, e1, o1.stop)
  if ¬ atStart ∧ ¬ atEnd then .error .value
  else do
    let baitTags := o.bait.tags.filter (fun t => t ≠ Gen.paintedTag)
    let new ← mkFragment newOid trim.name s2 e2 trim.strand (Gen.cutTag :: baitTags)
    -- `idx` is -1 when the fragment is the last row (also when it is both first and last), else 0
    let rows := if atEnd then setLast o1.rows (.frag new) else
      match o1.rows with
      | [] => []
      | _ :: r => .frag new :: r
    pure ({ o1 with stop := oen, rows }, new)

/-- `to_scaffold`: rows, reversed (order and strands) for a minus-strand bait. -/
def toScaffoldRows (o : OverlapResult) : List Row :=
  if o.bait.strand = -1 then (o.rows.reverse).map Row.reverse else o.rows

end OverlapResult

/-- the operations C18 quantifies over -/
inductive OvOp where
  | discardStart | discardEnd
  | trimLarge (err : Int)
  | trimFirst (keepStart keepEnd : Bool)   -- trim_fragment(rows[0], …)
  | trimLast (keepStart keepEnd : Bool)    -- trim_fragment(rows[-1], …)
  deriving DecidableEq, Repr

def applyOp (o : OverlapResult) (op : OvOp) (newOid : Nat) : R OverlapResult :=
  match op with
  | .discardStart => o.discardStart
  | .discardEnd => o.discardEnd
  | .trimLarge e => o.trimLargeOverhangs e
  | .trimFirst ks ke => do
    match (← pyGet o.rows 0) with
    | .frag f => let (o', _) ← o.trimFragment f ks ke newOid; pure o'
    | .gap _ => .error .attribute
  | .trimLast ks ke => do
    match (← pyGet o.rows (-1)) with
    | .frag f => let (o', _) ← o.trimFragment f ks ke newOid; pure o'
    | .gap _ => .error .attribute

end AgpTpf
