/-
  The output-file plan of `pretext-to-asm` (scripts/pretext_to_asm.py): which files one run opens for writing, in which
  order and under which names (C16), what `write_info_yaml` dumps (C11) and the data rows of the chromosome report (C10).

  Everything works on file NAMES (the final path component, a `Str` without '/'); the directory of the output file is
  passed through unchanged by the code (`file.parent`, `out_dir / …`, `with_suffix`, `with_name` all keep it).
  Domain restrictions (outside them the model says nothing):
    * ASCII only where case or character classes matter: `re.IGNORECASE`, `\w`, `\d`, `str.lower()` are modelled for
      ASCII (Python's `\w`/`\d` on `str` also accept non-ASCII word characters / digits, IGNORECASE also folds
      e.g. 'ſ' to 's');
    * assembly keys contain no '/' (a key with '/' would make `out_dir / f"{asm.name}…"` descend into a sub-directory
      and `with_suffix` then works on the last component only).
-/
import AgpTpf.Model.Cli
import AgpTpf.Model.Outputs
namespace AgpTpf

/-! ### pathlib (Python 3.12 `PurePath`) on a file name -/

/-- `PurePath.suffix`: `i = name.rfind('.')`; `name[i:] if 0 < i < len(name) - 1 else ''`.
    `after` = the characters behind the last '.', (the whole name when there is no '.': then the test fails). -/
def pathSuffix (name : Str) : Str :=
  let after := (name.reverse.takeWhile (· ≠ '.')).reverse
  if after ≠ [] ∧ after.length + 1 < name.length then '.' :: after else []

/-- `PurePath.stem`: `name[:i] if 0 < i < len(name) - 1 else name` -/
def pathStem (name : Str) : Str := name.take (name.length - (pathSuffix name).length)

/-- `PurePath.with_suffix(suffix)` applied to a path whose final component is `name`:
    ValueError for a suffix containing '/', for a non-empty suffix that does not start with '.', for the suffix "."
    and for an empty name; otherwise `name + suffix` / `name[:-len(old_suffix)] + suffix`. -/
def withSuffix (name suffix : Str) : R Str :=
  if suffix.contains '/' then .error .value
  else if (!suffix.isEmpty && !startsWith ['.'] suffix) || suffix == ['.'] then .error .value
  else if name.isEmpty then .error .value
  else
    let old := pathSuffix name
    if old.isEmpty then .ok (name ++ suffix) else .ok (name.take (name.length - old.length) ++ suffix)

/-- `PurePath.with_name(new)`: ValueError for an empty old name, and for a new name that is empty, contains '/' or is "." -/
def withName (name new : Str) : R Str :=
  if name.isEmpty then .error .value
  else if new.isEmpty || new.contains '/' || new == ['.'] then .error .value
  else .ok new

/-! ### `format_from_file_extn` (parser.py) -/

inductive Fmt where | AGP | TPF | FASTA
  deriving DecidableEq, Repr, Inhabited

/-- the format string as the code holds it (`"AGP"`, `"TPF"`, `"FASTA"`) -/
def Fmt.name : Fmt → Str
  | .AGP => ['A', 'G', 'P'] | .TPF => ['T', 'P', 'F'] | .FASTA => ['F', 'A', 'S', 'T', 'A']

/-- regex `\w` restricted to ASCII -/
def isWordChar (c : Char) : Bool := isAlpha c || isDigit c || c == '_'

/-- `\w*$` : word characters up to the end of the string, or up to a final newline (`$` also matches there) -/
def reWordsToEnd (t : Str) : Bool :=
  match t.dropWhile isWordChar with
  | [] => true
  | ['\n'] => true
  | _ => false

/-- `format_from_file_extn(pth, default)` as a function of `pth.suffix`:
    `re.match(r"\.(agp|tpf|fa(?:sta)?)\w*$", suffix, flags=re.IGNORECASE)`; group 1 upper-cased, `FA…` ↦ `FASTA`.
    (`fa(?:sta)?\w*` accepts exactly what `fa\w*` accepts.) -/
def formatFromExt (suffix : Str) (default : Option Fmt) : Option Fmt :=
  match suffix with
  | '.' :: rest =>
    let lc := lowerStr rest
    if startsWith ['a', 'g', 'p'] lc && reWordsToEnd (rest.drop 3) then some .AGP
    else if startsWith ['t', 'p', 'f'] lc && reWordsToEnd (rest.drop 3) then some .TPF
    else if startsWith ['f', 'a'] lc && reWordsToEnd (rest.drop 2) then some .FASTA
    else default
  | _ => default

/-! ### `parse_output_file` -/

/-- `re.search(r"\.(\d+)$", s)` → group 1: the maximal run of ASCII digits at the end of `s` (or before a final
    newline), if it is non-empty and preceded by '.' -/
def versionSuffix (s : Str) : Option Str :=
  let r := match s.reverse with
    | '\n' :: t => t
    | t => t
  let digs := (r.takeWhile isDigit).reverse
  match r.dropWhile isDigit with
  | '.' :: _ => if digs.isEmpty then none else some digs
  | _ => none

/-- `parse_output_file(file)` → `(out_fmt, out_root, version, sfx)` (the second component `file.parent` is not modelled).
    `format_from_file_extn(file)` returning `None` makes `out_fmt.lower()` raise AttributeError. -/
def parseOutputFile (name : Str) : R (Fmt × Str × Str × Str) :=
  match formatFromExt (pathSuffix name) none with
  | none => .error .attribute
  | some fmt =>
    let sfx0 := '.' :: lowerStr fmt.name                                  -- f".{out_fmt.lower()}"
    let (outRoot, sfx) :=
      if startsWith (lowerStr (pathSuffix name)) sfx0 then (pathStem name, pathSuffix name)   -- sfx.startswith(file.suffix.lower())
      else (name, sfx0)
    match versionSuffix outRoot with
    | some v => .ok (fmt, pathStem outRoot, v, sfx)                       -- Path(out_root).stem
    | none => .ok (fmt, outRoot, ['1'], sfx)

/-! ### names of the side files -/

/-- `setup_logging`: `output_file.with_suffix(".log")` -/
def logFileName (outName : Str) : R Str := withSuffix outName ['.', 'l', 'o', 'g']

/-- `write_info_yaml`: `output_file.with_name(output_file.stem + ".info.yaml")` -/
def infoYamlName (outName : Str) : R Str := withName outName (pathStem outName ++ ".info.yaml".toList)

/-- `write_chr_report_csv`: `output_file.with_suffix(".chr_report.csv")` -/
def chrReportName (outName : Str) : R Str := withSuffix outName ".chr_report.csv".toList

/-- `write_assembly`, FASTA output: `output_file.with_suffix(".agp")` -/
def agpBesideName (faName : Str) : R Str := withSuffix faName ['.', 'a', 'g', 'p']

/-- `write_chr_csv_files`: `f"{asm.name}.chromosome.list.csv"` -/
def chrListName (a : NamedAsm) : Str := a.name ++ ".chromosome.list.csv".toList

/-! ### `chromosomes_report_csv` (assembly_stats.py): the data rows -/

/-- one data row (the CSV columns in order; `localised` is written as the text `true` / `false`) -/
structure ReportRow where
  assembly : Str
  seqName : Str
  chromosome : Str
  localised : Bool
  pretextScaffold : Option Str
  length : Int
  lengthMinusGaps : Int
  deriving DecidableEq, Repr

/-- the `for scffld in asm.scaffolds` loop of `chromosomes_report_csv` with its fresh `orig_chr_name` dict -/
def chromosomesReportAsm (prefix_ hap : Str) (scs : List Scaffold) : List ReportRow :=
  (scs.foldl (fun (acc : List ReportRow × List (Option Str × Str)) s =>
    let (out, seen) := acc
    if s.rank = (1 : Int) ∨ s.rank = (2 : Int) then
      match (if truthy s.originalName then dGet? seen s.originalName else none) with
      | some cn => (out ++ [{ assembly := hap, seqName := s.name, chromosome := cn, localised := false,
                              pretextScaffold := s.originalName, length := s.length, lengthMinusGaps := s.fragmentsLength }], seen)
      | none =>
        let cn := replaceFirst prefix_ [] s.name
        (out ++ [{ assembly := hap, seqName := s.name, chromosome := cn, localised := true,
                   pretextScaffold := s.originalName, length := s.length, lengthMinusGaps := s.fragmentsLength }],
         dSet seen s.originalName cn)
    else acc) ([], [])).1

/-- `hap` label: the dict key, `"Primary"` when falsy (`None` or `""`) -/
def reportLabel (key : Option Str) : Str := if truthy key then key.getD [] else sPrimary

/-- `chromosomes_report_csv(hap_asm)`: the rows after the header (the function returns `None` iff there is none) -/
def chromosomesReport (prefix_ : Str) (asms : List NamedAsm) : List ReportRow :=
  asms.flatMap (fun a => chromosomesReportAsm prefix_ (reportLabel a.key) a.scaffolds)

/-! ### `write_info_yaml` -/

structure InfoRecord where
  assemblies : List (Str × Int × Int)     -- `stats.per_assembly_stats`: name ↦ (manual_breaks, manual_joins)
  manualBreaks : Option Int               -- present iff `len(asm_stats) > 1`
  manualJoins : Option Int
  haplotigRemovals : Int
  deriving Repr, DecidableEq

/-- `write_info_yaml`'s `info` dict.  `out_assemblies` is the dict BEFORE renaming; `Assembly` defines neither
    `__bool__` nor `__len__`, so `if h_asm := out_assemblies.get("Haplotig")` is true whenever the key is present. -/
def infoRecord (stats : Stats) (outs : List OutAsm) : InfoRecord :=
  let many := decide (stats.perAssembly.length > 1)
  { assemblies := stats.perAssembly
    manualBreaks := if many then some stats.breaks else none
    manualJoins := if many then some stats.joins else none
    haplotigRemovals :=
      match outs.find? (fun a => a.key = some sHaplotig) with
      | some h => (h.scaffolds.length : Int)
      | none => 0 }

/-! ### the plan -/

/-- `ret_asm[key] = asm` for every assembly in turn: a later assembly with the same key REPLACES the earlier one
    (at the earlier one's position).  `nameAssemblies` returns the assignments as a list; this is the dict. -/
def namedDict (l : List NamedAsm) : List NamedAsm :=
  (l.foldl (fun (d : List (Option Str × NamedAsm)) n => dSet d n.key n) []).map (·.2)

/-- `write_assemblies` / `write_assembly`: per assembly the file `{asm.name}{.curated}{suffix}` and, for FASTA,
    right after it `output_file.with_suffix(".agp")` -/
def assemblyFiles (fmt : Fmt) (suffix : Str) : List NamedAsm → R (List Str)
  | [] => .ok []
  | a :: rest => do
    let f := outputFileName a suffix
    let own ← if fmt = .FASTA then do let g ← agpBesideName f; pure [f, g] else pure [f]
    let more ← assemblyFiles fmt suffix rest
    pure (own ++ more)

/-- `write_chr_csv_files`: curated assemblies whose `chromosome_name_csv` is not `None` -/
def chrListFiles (prefix_ : Str) (named : List NamedAsm) : List Str :=
  named.filterMap (fun a =>
    if a.curated ∧ ¬ (chromosomeNameCsv prefix_ a.scaffolds).isEmpty then some (chrListName a) else none)

/-- the file names one run with `--output` opens for writing, in the order the code opens them
    (`setup_logging`, `write_info_yaml`, `write_assemblies`, `write_chr_csv_files`, `write_chr_report_csv`).
    `named` = the dict returned by `name_assemblies`; `fmt`, `suffix` from `parse_output_file`. -/
def outputPlan (outName : Str) (writeLog : Bool) (named : List NamedAsm) (fmt : Fmt) (suffix : Str) (prefix_ : Str) :
    R (List Str) := do
  let log ← if writeLog then do let l ← logFileName outName; pure [l] else pure []
  let yaml ← infoYamlName outName
  let asmFiles ← assemblyFiles fmt suffix named
  let chr := chrListFiles prefix_ named
  let report ← if (chromosomesReport prefix_ named).isEmpty then pure [] else do let r ← chrReportName outName; pure [r]
  pure (log ++ [yaml] ++ asmFiles ++ chr ++ report)

/-- the whole of `cli()` behind `if output_file:` as far as file names go (the remap has succeeded and returned
    `outs`; FASTA output needs FASTA input, else the run exits after opening the first assembly file — not modelled).
    Which files have already been opened when an error is raised is not modelled either: the log is opened first of
    all (before the inputs are even read), the info yaml after `parse_output_file` and before `name_assemblies`. -/
def cliOutputPlan (outName : Str) (writeLog : Bool) (outs : List OutAsm) (prefix_ : Str) : R (List Str) := do
  let _ ← if writeLog then do let l ← logFileName outName; pure [l] else pure []   -- `setup_logging` runs first
  let (fmt, root, version, suffix) ← parseOutputFile outName
  let _ ← infoYamlName outName
  let named ← nameAssemblies outs root version
  outputPlan outName writeLog (namedDict named) fmt suffix prefix_

/-- the run as seen by the file system (C16): the planned files opened one after the other -/
def runPlan (clobber : Bool) (fs : Outputs.FS) (plan : List Str) : Outputs.RunResult := Outputs.runOutputs clobber fs plan

/-! ### `AssemblyStats.log_curation_stats` (assembly_stats.py): the line every run logs (C11 observes it) -/

/-- `f"Curation made {cuts} {cut_plural}, {breaks} {break_plural} and {joins} {join_plural}"` -/
def curationLogLine (st : Stats) : Str :=
  "Curation made ".toList ++ intToStr st.cuts ++ [' '] ++
    (if st.cuts = 1 then "cut in a contig".toList else "cuts in contigs".toList) ++ ", ".toList ++
    intToStr st.breaks ++ [' '] ++ (if st.breaks = 1 then "break at a gap".toList else "breaks at gaps".toList) ++
    " and ".toList ++ intToStr st.joins ++ [' '] ++ (if st.joins = 1 then "join".toList else "joins".toList)

/-! ### TESTS: literal inputs run through the real Python (3.12.1, `/venv/bin/python`); each comment is the
    expression evaluated there.  (The real tie to the code is the differential harness; these only pin the functions.) -/
section Tests

/-- only so that the tests below can be closed by `decide` -/
private instance instDecEqExceptTests {ε α} [DecidableEq ε] [DecidableEq α] : DecidableEq (Except ε α) := fun a b =>
  match a, b with
  | .ok x, .ok y => if h : x = y then isTrue (by rw [h]) else isFalse (fun e => h (by cases e; rfl))
  | .error x, .error y => if h : x = y then isTrue (by rw [h]) else isFalse (fun e => h (by cases e; rfl))
  | .ok _, .error _ => isFalse (fun e => by cases e)
  | .error _, .ok _ => isFalse (fun e => by cases e)

-- [(Path(n).suffix, Path(n).stem) for n in ("x.2.fa", ".fa", "x.", "..fa")]
--   == [('.fa', 'x.2'), ('', '.fa'), ('', 'x.'), ('.fa', '.')]
example : (pathSuffix "x.2.fa".toList, pathStem "x.2.fa".toList) = (".fa".toList, "x.2".toList) := by decide
example : (pathSuffix ".fa".toList, pathStem ".fa".toList) = ([], ".fa".toList) := by decide
example : (pathSuffix "x.".toList, pathStem "x.".toList) = ([], "x.".toList) := by decide
example : (pathSuffix "..fa".toList, pathStem "..fa".toList) = (".fa".toList, ".".toList) := by decide

-- Path("x.2.fa").with_suffix(".log").name == 'x.2.log';  Path("x").with_suffix(".log").name == 'x.log'
-- Path("").with_suffix(".log"), Path("x.fa").with_suffix("log"), .with_suffix("."), .with_suffix(".a/b"): ValueError
-- Path("x.fa").with_suffix("").name == 'x'
example : withSuffix "x.2.fa".toList ".log".toList = .ok "x.2.log".toList := by decide
example : withSuffix "x".toList ".log".toList = .ok "x.log".toList := by decide
example : withSuffix [] ".log".toList = .error .value := by decide
example : withSuffix "x.fa".toList "log".toList = .error .value ∧ withSuffix "x.fa".toList ".".toList = .error .value ∧
    withSuffix "x.fa".toList ".a/b".toList = .error .value ∧ withSuffix "x.fa".toList [] = .ok "x".toList := by decide
-- Path("x.fa").with_name("y.z").name == 'y.z';  Path("").with_name("y"), Path("x").with_name(""), .with_name("."), .with_name("a/b"): ValueError
example : withName "x.fa".toList "y.z".toList = .ok "y.z".toList ∧ withName [] "y".toList = .error .value ∧
    withName "x".toList [] = .error .value ∧ withName "x".toList ".".toList = .error .value ∧
    withName "x".toList "a/b".toList = .error .value := by decide

-- [format_from_file_extn(Path("x" + e)) for e in (".fab", ".FA", ".fasta", ".fa-1", ".fa\n", ".agpx", ".Tpf_9", ".gz", ".f")]
--   == ['FASTA', 'FASTA', 'FASTA', None, 'FASTA', 'AGP', 'TPF', None, None];  format_from_file_extn(Path("x.gz"), "TPF") == 'TPF'
example : [".fab", ".FA", ".fasta", ".fa-1", ".fa\n", ".agpx", ".Tpf_9", ".gz", ".f"].map (fun e => formatFromExt e.toList none) =
    [some .FASTA, some .FASTA, some .FASTA, none, some .FASTA, some .AGP, some .TPF, none, none] := by decide
example : formatFromExt ".gz".toList (some .TPF) = some .TPF := by decide

-- from tola.assembly.scripts.pretext_to_asm import parse_output_file as f; r = f(Path("d/x.2.fa")); (r[0], r[2], r[3], r[4])
--   x.2.fa → ('FASTA','x','2','.fa')   x.1.fab → ('FASTA','x.1.fab','1','.fasta')   x.AGP → ('AGP','x','1','.AGP')
--   "x.3\n.fa" → ('FASTA','x','3','.fa')   ..1.fa → ('FASTA','.','1','.fa')   x.01.tpf → ('TPF','x','01','.tpf')
--   x.tpf.gz, .fa, x : AttributeError
example : parseOutputFile "x.2.fa".toList = .ok (.FASTA, "x".toList, "2".toList, ".fa".toList) := by decide
example : parseOutputFile "x.1.fab".toList = .ok (.FASTA, "x.1.fab".toList, "1".toList, ".fasta".toList) := by decide
example : parseOutputFile "x.AGP".toList = .ok (.AGP, "x".toList, "1".toList, ".AGP".toList) := by decide
example : parseOutputFile "x.3\n.fa".toList = .ok (.FASTA, "x".toList, "3".toList, ".fa".toList) := by decide
example : parseOutputFile "..1.fa".toList = .ok (.FASTA, ".".toList, "1".toList, ".fa".toList) := by decide
example : parseOutputFile "x.01.tpf".toList = .ok (.TPF, "x".toList, "01".toList, ".tpf".toList) := by decide
example : parseOutputFile "x.tpf.gz".toList = .error .attribute := by decide
example : parseOutputFile ".fa".toList = .error .attribute := by decide
example : parseOutputFile "x".toList = .error .attribute := by decide

-- o = Path("d/x.2.fa"); (o.with_suffix(".log").name, o.with_name(o.stem + ".info.yaml").name, o.with_suffix(".chr_report.csv").name)
--   == ('x.2.log', 'x.2.info.yaml', 'x.2.chr_report.csv');  Path("d/x.2.primary.curated.fa").with_suffix(".agp").name == 'x.2.primary.curated.agp'
example : logFileName "x.2.fa".toList = .ok "x.2.log".toList ∧ infoYamlName "x.2.fa".toList = .ok "x.2.info.yaml".toList ∧
    chrReportName "x.2.fa".toList = .ok "x.2.chr_report.csv".toList ∧
    agpBesideName "x.2.primary.curated.fa".toList = .ok "x.2.primary.curated.agp".toList := by decide

/-- test scaffold: one contig `c:1-L`, optionally a gap `g` and a second contig `e:1-5` -/
private def tsc (n : String) (rank : Int) (orig : String) (L : Int) (g : Int := 0) : Scaffold :=
  { name := n.toList, rank := rank, originalName := some orig.toList,
    rows := Row.frag { name := ['c'], start := 1, stop := L, strand := 1 } ::
      (if g = 0 then [] else [Row.gap { length := g, gapType := "scaffold".toList },
                              Row.frag { name := ['e'], start := 1, stop := 5, strand := 1 }]) }

/- /verif/lean/tasks/w5cli/ex1_keep.py (the real `setup_logging`, `parse_output_file`, `write_info_yaml`, `name_assemblies`,
   `write_assemblies`, `write_chr_csv_files`, `write_chr_report_csv` with `get_output_filehandle` recording the names), first call:
   output `d/x.2.fa`, `{None: curated [SUPER_1 (rank 1, Sc1, 30+gap 10+5), SUPER_1_unloc_1 (rank 1, Sc1, 8), scaffold_7 (rank 3, Sc9, 4)],
   "Haplotig": [H_1, H_2]}`  →
   ['x.2.log', 'x.2.info.yaml', 'x.2.primary.curated.fa', 'x.2.primary.curated.agp', 'x.2.additional_haplotigs.curated.fa',
    'x.2.additional_haplotigs.curated.agp', 'x.2.primary.chromosome.list.csv', 'x.2.chr_report.csv']
   info = {'assemblies': {'Primary': {'manual_breaks': 1, 'manual_joins': 2}}, 'manual_haplotig_removals': 2}
   report rows: "Primary","SUPER_1","1","true","Sc1",45,35 / "Primary","SUPER_1_unloc_1","1","false","Sc1",8,8 -/
private def tOuts1 : List OutAsm :=
  [{ key := none, curated := true, scaffolds := [tsc "SUPER_1" 1 "Sc1" 30 10, tsc "SUPER_1_unloc_1" 1 "Sc1" 8, tsc "scaffold_7" 3 "Sc9" 4] },
   { key := some sHaplotig, curated := false, scaffolds := [tsc "H_1" 3 "Sc2" 6, tsc "H_2" 3 "Sc3" 5] }]
example : cliOutputPlan "x.2.fa".toList true tOuts1 "SUPER_".toList =
    .ok ["x.2.log".toList, "x.2.info.yaml".toList, "x.2.primary.curated.fa".toList, "x.2.primary.curated.agp".toList,
         "x.2.additional_haplotigs.curated.fa".toList, "x.2.additional_haplotigs.curated.agp".toList,
         "x.2.primary.chromosome.list.csv".toList, "x.2.chr_report.csv".toList] := by decide
example : infoRecord { breaks := 7, joins := 9, perAssembly := [(sPrimary, 1, 2)] } tOuts1 =
    { assemblies := [(sPrimary, 1, 2)], manualBreaks := none, manualJoins := none, haplotigRemovals := 2 } := by decide
example : (nameAssemblies tOuts1 ['x'] ['2']).map (fun l => chromosomesReport "SUPER_".toList (namedDict l)) =
    .ok [{ assembly := sPrimary, seqName := "SUPER_1".toList, chromosome := ['1'], localised := true,
           pretextScaffold := some "Sc1".toList, length := 45, lengthMinusGaps := 35 },
         { assembly := sPrimary, seqName := "SUPER_1_unloc_1".toList, chromosome := ['1'], localised := false,
           pretextScaffold := some "Sc1".toList, length := 8, lengthMinusGaps := 8 }] := by decide

/- second call: output `d/y.tpf`, --no-write-log, `{"Hap1": curated [SUPER_X (rank 2, Sc1, 30)], "Hap2": curated [SUPER_1, SUPER_2 (rank 1, "", 20/10)],
   "Contaminant": [scaffold_3 (rank 3)]}`  →
   ['y.info.yaml', 'y.hap1.1.primary.curated.tpf', 'y.hap2.1.primary.curated.tpf', 'y.1.contaminants.tpf',
    'y.hap1.1.primary.chromosome.list.csv', 'y.hap2.1.primary.chromosome.list.csv', 'y.chr_report.csv']
   info = {'assemblies': {'Hap1': {…1, 2}, 'Hap2': {…3, 4}}, 'manual_breaks': 7, 'manual_joins': 9, 'manual_haplotig_removals': 0}
   report rows: "Hap1","SUPER_X","X","true","Sc1",30,30 / "Hap2","SUPER_1","1","true","",20,20 / "Hap2","SUPER_2","2","true","",10,10 -/
private def tOuts2 : List OutAsm :=
  [{ key := some "Hap1".toList, curated := true, scaffolds := [tsc "SUPER_X" 2 "Sc1" 30] },
   { key := some "Hap2".toList, curated := true, scaffolds := [tsc "SUPER_1" 1 "" 20, tsc "SUPER_2" 1 "" 10] },
   { key := some sContaminant, curated := false, scaffolds := [tsc "scaffold_3" 3 "Sc4" 3] }]
example : cliOutputPlan "y.tpf".toList false tOuts2 "SUPER_".toList =
    .ok ["y.info.yaml".toList, "y.hap1.1.primary.curated.tpf".toList, "y.hap2.1.primary.curated.tpf".toList,
         "y.1.contaminants.tpf".toList, "y.hap1.1.primary.chromosome.list.csv".toList,
         "y.hap2.1.primary.chromosome.list.csv".toList, "y.chr_report.csv".toList] := by decide
example : infoRecord { breaks := 7, joins := 9, perAssembly := [("Hap1".toList, 1, 2), ("Hap2".toList, 3, 4)] } tOuts2 =
    { assemblies := [("Hap1".toList, 1, 2), ("Hap2".toList, 3, 4)], manualBreaks := some 7, manualJoins := some 9,
      haplotigRemovals := 0 } := by decide
example : (nameAssemblies tOuts2 ['y'] ['1']).map (fun l => chromosomesReport "SUPER_".toList (namedDict l)) =
    .ok [{ assembly := "Hap1".toList, seqName := "SUPER_X".toList, chromosome := ['X'], localised := true,
           pretextScaffold := some "Sc1".toList, length := 30, lengthMinusGaps := 30 },
         { assembly := "Hap2".toList, seqName := "SUPER_1".toList, chromosome := ['1'], localised := true,
           pretextScaffold := some [], length := 20, lengthMinusGaps := 20 },
         { assembly := "Hap2".toList, seqName := "SUPER_2".toList, chromosome := ['2'], localised := true,
           pretextScaffold := some [], length := 10, lengthMinusGaps := 10 }] := by decide

/- /verif/lean/tasks/w5cli/cex.py: `name_assemblies({None: P, "additional_haplotigs": A (curated), "Haplotig": H}, "x", "1")` returns a dict
   with keys `[None, 'additional_haplotigs']` and names `['x.1.primary', 'x.1.additional_haplotigs']` (A is gone);
   the real CLI run /verif/lean/tasks/w5cli/e2e (`-p ptx2.agp -o out.agp`) creates out.info.yaml, out.1.primary.curated.agp,
   out.1.additional_haplotigs.curated.agp (holding only the Haplotig scaffold), the chromosome list, the report, the log -/
private def tOuts3 : List OutAsm :=
  [{ key := none, curated := true, scaffolds := [tsc "SUPER_1" 1 "Scaffold_1" 10] },
   { key := some "additional_haplotigs".toList, curated := true, scaffolds := [tsc "A" 3 "Scaffold_2" 8] },
   { key := some sHaplotig, curated := false, scaffolds := [tsc "H_1" 3 "Scaffold_3" 6] }]
example : (nameAssemblies tOuts3 ['x'] ['1']).map (fun l => (namedDict l).map (fun n => (n.key, n.name, n.scaffolds.map (·.name)))) =
    .ok [(none, "x.1.primary".toList, ["SUPER_1".toList]),
         (some "additional_haplotigs".toList, "x.1.additional_haplotigs".toList, ["H_1".toList])] := by decide
example : cliOutputPlan "out.agp".toList true tOuts3 "SUPER_".toList =
    .ok ["out.log".toList, "out.info.yaml".toList, "out.1.primary.curated.agp".toList,
         "out.1.additional_haplotigs.curated.agp".toList, "out.1.primary.chromosome.list.csv".toList,
         "out.chr_report.csv".toList] := by decide

-- re.search(r"\.(\d+)$", s): "x.12" → '12', "x.3\n" → '3', "x.3\n\n" → None, "x.1a" → None, "12" → None, ".7" → '7'
example : ["x.12", "x.3\n", "x.3\n\n", "x.1a", "12", ".7"].map (fun s => versionSuffix s.toList) =
    [some "12".toList, some ['3'], none, none, none, some ['7']] := by decide

end Tests

end AgpTpf
