/-
  C15 — the FASTA index cache protocol (`FastaIndex.auto_load`, fasta/index.py) as a state machine over
  a file system, a clock and any number of processes, at file-operation granularity.
  Contents are abstract: a FASTA content is a number; a cache file remembers which content it renders and how
  many of its `total` flushed chunks are present.
-/
namespace AgpTpf.Cache

structure FileV where
  src : Nat          -- the FASTA content this file renders
  written : Nat      -- flushed chunks present
  total : Nat        -- chunks of the complete rendering
  mtime : Nat
  deriving DecidableEq, Repr, Inhabited

def FileV.complete (f : FileV) : Bool := f.written == f.total

inductive Res where
  | loaded (fai agp : FileV)       -- index/assembly taken from the cache files as they were when opened
  | indexed (c : Nat)              -- built in memory from FASTA content `c`
  | failed                         -- an exception reached the caller ("fails loudly")
  deriving DecidableEq, Repr, Inhabited

/-- program counter of one `auto_load()` call -/
inductive PC where
  | start
  | statted (m : Nat)              -- fasta mtime read
  | faiOk (m : Nat)                -- .fai exists and is strictly newer
  | bothOk                         -- .agp too: will load
  | loadedFai (snap : FileV)
  | index0                         -- decided to (re)build: next op reads the FASTA
  | readFasta (c : Nat)
  | writingFai (c k t : Nat)       -- k chunks flushed; t = time of the last write (mtime of the file being written)
  | faiClosed (c t : Nat)          -- written completely (atomic: not yet moved into place)
  | faiDone (c : Nat)
  | writingAgp (c k t : Nat)
  | agpClosed (c t : Nat)
  | done (r : Res) (atContent : Nat)
  | crashed
  deriving DecidableEq, Repr, Inhabited

def PC.idle : PC → Bool
  | .start | .done _ _ | .crashed => true
  | _ => false

structure State where
  atomic : Bool                    -- protocol: write a temp file and `os.replace` it (true) or write in place (false)
  faiTotal : Nat                   -- flush boundaries inside one complete .fai / .agp write
  agpTotal : Nat
  clock : Nat := 1
  fastaContent : Nat := 0
  fastaMtime : Nat := 0
  fai : Option FileV := none
  agp : Option FileV := none
  procs : List PC := []
  deriving Repr

inductive Op where
  | tick                           -- time passes
  | rewriteFasta                   -- new content, mtime := now (only while no process is inside auto_load)
  | deleteFai | deleteAgp
  | step (p : Nat)                 -- process p performs its next file operation
  | crash (p : Nat)                -- process p dies; whatever it has written so far stays
  | spawn                          -- a new process is about to call auto_load
  deriving DecidableEq, Repr

def newer (f : Option FileV) (m : Nat) : Bool :=
  match f with
  | some v => decide (v.mtime > m)
  | none => false

/-- one file operation of process `p` -/
def stepProc (s : State) (pc : PC) : State × PC :=
  match pc with
  | .start => (s, .statted s.fastaMtime)
  | .statted m => (s, if newer s.fai m then .faiOk m else .index0)
  | .faiOk m => (s, if newer s.agp m then .bothOk else .index0)
  | .bothOk =>
    match s.fai with
    | some v => (s, .loadedFai v)
    | none => (s, .done .failed s.fastaContent)
  | .loadedFai snap =>
    match s.agp with
    | some v => (s, .done (.loaded snap v) s.fastaContent)
    | none => (s, .done .failed s.fastaContent)
  | .index0 => (s, .readFasta s.fastaContent)
  | .readFasta c =>
    -- open for writing: in place this truncates the final file now
    if s.atomic then (s, .writingFai c 0 s.clock)
    else ({ s with fai := some { src := c, written := 0, total := s.faiTotal, mtime := s.clock } }, .writingFai c 0 s.clock)
  | .writingFai c k t =>
    if k < s.faiTotal then
      if s.atomic then (s, .writingFai c (k + 1) s.clock)
      else ({ s with fai := some { src := c, written := k + 1, total := s.faiTotal, mtime := s.clock } }, .writingFai c (k + 1) s.clock)
    else  -- close(): flushes what is still buffered, so the file's mtime becomes "now"
      if s.atomic then (s, .faiClosed c s.clock)
      else ({ s with fai := some { src := c, written := s.faiTotal, total := s.faiTotal, mtime := s.clock } }, .faiDone c)
  | .faiClosed c t =>   -- atomic only: os.replace(tmp, fai); the file keeps the mtime of its last write
    ({ s with fai := some { src := c, written := s.faiTotal, total := s.faiTotal, mtime := t } }, .faiDone c)
  | .faiDone c =>
    if s.atomic then (s, .writingAgp c 0 s.clock)
    else ({ s with agp := some { src := c, written := 0, total := s.agpTotal, mtime := s.clock } }, .writingAgp c 0 s.clock)
  | .writingAgp c k t =>
    if k < s.agpTotal then
      if s.atomic then (s, .writingAgp c (k + 1) s.clock)
      else ({ s with agp := some { src := c, written := k + 1, total := s.agpTotal, mtime := s.clock } }, .writingAgp c (k + 1) s.clock)
    else
      if s.atomic then (s, .agpClosed c s.clock)
      else ({ s with agp := some { src := c, written := s.agpTotal, total := s.agpTotal, mtime := s.clock } }, .done (.indexed c) s.fastaContent)
  | .agpClosed c t =>
    ({ s with agp := some { src := c, written := s.agpTotal, total := s.agpTotal, mtime := t } },
     .done (.indexed c) s.fastaContent)
  | .done r c => (s, .done r c)
  | .crashed => (s, .crashed)

/-- environment and scheduler steps; a disabled step leaves the state unchanged -/
def applyOp (s : State) : Op → State
  | .tick => { s with clock := s.clock + 1 }
  | .rewriteFasta =>
    if s.procs.all PC.idle then { s with fastaContent := s.fastaContent + 1, fastaMtime := s.clock } else s
  | .deleteFai => { s with fai := none }
  | .deleteAgp => { s with agp := none }
  | .spawn => { s with procs := s.procs ++ [.start] }
  | .crash p =>
    match s.procs[p]? with
    | some pc => if pc.idle then s else { s with procs := s.procs.set p .crashed }
    | none => s
  | .step p =>
    match s.procs[p]? with
    | some pc => let (s', pc') := stepProc s pc; { s' with procs := s'.procs.set p pc' }
    | none => s

def run (s : State) (ops : List Op) : State := ops.foldl applyOp s

def init (atomic : Bool) (faiTotal agpTotal : Nat) : State :=
  { atomic := atomic, faiTotal := faiTotal, agpTotal := agpTotal }

/-- label of the file operation a process performs next (for the correspondence with the real op trace) -/
def opLabel (s : State) : PC → String
  | .start => "stat fasta"
  | .statted _ => "check fai"
  | .faiOk _ => "check agp"
  | .bothOk => "read fai"
  | .loadedFai _ => "read agp"
  | .index0 => "read fasta"
  | .readFasta _ => "open-w fai"
  | .writingFai _ k _ => if k < s.faiTotal then "write fai" else "close fai"
  | .faiClosed _ _ => "replace fai"
  | .faiDone _ => "open-w agp"
  | .writingAgp _ k _ => if k < s.agpTotal then "write agp" else "close agp"
  | .agpClosed _ _ => "replace agp"
  | .done _ _ => "none"
  | .crashed => "none"

/-- what the property demands of a finished `auto_load`: failure, or exactly the rendering of the content that
    was current when it returned -/
def goodResult : PC → Bool
  | .done (.loaded a b) c => a.complete && b.complete && a.src == c && b.src == c
  | .done (.indexed c') c => c' == c
  | _ => true

def safe (s : State) : Bool := s.procs.all goodResult

end AgpTpf.Cache
