/-
  The `asm-format` command (scripts/asm_format.py): `cli`, `process_fh`, `report_overlaps`, and
  `Assembly.find_overlapping_fragments` / `all_vs_all_fragments` (assembly.py) with the scaffold each fragment sits in.

  What one run is, for the model:
    * input files are given by NAME (final path component, all in one directory — as in Model/CliPlan.lean) and CONTENT.
      `asmFormat` takes the content as the list of lines file iteration yields (the convention of Model/Text.lean);
      `asmFormatText` takes the text of the file and splits it the way Python does: files named on the command line
      are opened with `pth.open("r")` = universal newlines (`"\r\n"` and a lone `"\r"` become `"\n"`), `sys.stdin`
      on POSIX is opened with `newline="\n"` (no translation) — `fileLines` / `stdinLines`.
    * the result is what the run leaves behind: the text written to the output handle (the `--output-file`, or
      STDOUT), the calls of `report_overlaps` (STDERR), and the exception that ended the run, if any.
  Order of events in `cli` that the model keeps:
    1. the output file is opened with mode "w" BEFORE any input is looked at: it exists (empty) even when the very
       first input fails, and an input file that IS the output file is read after the truncation, i.e. as empty
       (`asm-format x.agp -o x.agp` leaves an empty `x.agp`, exit status 0);
    2. an output file with a FASTA extension (and no `--format`) makes `output_format = "FASTA"`; nothing complains
       until the end of the first `process_fh`, i.e. after the first input has been parsed (a parse error wins) and
       after its overlap report has been printed;
    3. input files are processed in order into the ONE output handle; the first exception ends the run, what was
       written for the earlier files stays (the handle is flushed when the interpreter exits);
    4. with input files every exception of `process_fh` is re-raised as `ValueError("Error processing file …")`;
       for STDIN the original exception propagates.
  Outside the model (domain restrictions):
    * `--format STR` / `REPR` write `str(asm)` / `repr(asm)`; these renderings are not modelled, the model writes the
      fixed markers `strMarker` / `reprMarker` in their place;
    * click's own argument checks (`exists=True`, `dir_okay=False`, `Choice`): `--input-format` can only be AGP or TPF
      (`some .FASTA` cannot come from the command line; the model then does what `process_fh` would do with it);
    * OS errors, text encoding (files are code-point lists); file-name extensions outside ASCII (`formatFromExt`,
      see the domain note of Model/CliPlan.lean);
    * an input file equal to the output file that is NOT the first input: the model reads it as empty, which is what
      happens as long as less than one io buffer (8 KiB) has been written before it is opened; beyond that the real
      run reads back its own flushed output (observed: 600 lines written, 493 of them read back and written again);
    * two different names for the same file (symlinks, `./x` vs `x`).
-/
import AgpTpf.Model.Text
import AgpTpf.Model.CliPlan
namespace AgpTpf

/-! ### the two format decisions of `cli` -/

/-- `--format` choices (`click.Choice(["AGP", "TPF", "STR", "REPR"], case_sensitive=False)`: whatever the spelling on
    the command line, the callback receives the listed upper-case string) -/
inductive OutFmt where | AGP | TPF | STR | REPR
  deriving DecidableEq, Repr, Inhabited

/-- the value of `in_fmt` for one input: `--input-format` if given, else for a file
    `format_from_file_extn(pth, default="AGP")`, for STDIN (`fileName = none`) `"AGP"` -/
def inFmtSel (inputFormatOpt : Option Fmt) (fileName : Option Str) : Fmt :=
  match inputFormatOpt with
  | some f => f
  | none =>
    match fileName with
    | some n =>
      match formatFromExt (pathSuffix n) (some .AGP) with
      | some f => f
      | none => .AGP
    | none => .AGP

/-- …as `process_fh` accepts it: `"FASTA"` (a `.fa…` extension) is `ValueError("Unknown input format")`, raised
    first thing in `process_fh`, nothing is read or written for that file -/
def inFmtOf (inputFormatOpt : Option Fmt) (fileName : Option Str) : R Fmt :=
  match inFmtSel inputFormatOpt fileName with
  | .FASTA => .error .value
  | f => .ok f

/-- the value of `output_format` after the prologue of `cli`: `--format` if given; else, with an output file,
    `format_from_file_extn(output_file)` (`None` → `"AGP"`); else `"AGP"`.
    `none` stands for the string `"FASTA"`, which no branch of `process_fh` knows. -/
def outFmtSel (formatOpt : Option OutFmt) (outputFile : Option Str) : Option OutFmt :=
  match formatOpt with
  | some f => some f
  | none =>
    match outputFile with
    | none => some .AGP
    | some n =>
      match formatFromExt (pathSuffix n) none with
      | none => some .AGP
      | some .AGP => some .AGP
      | some .TPF => some .TPF
      | some .FASTA => none

/-- …as `process_fh` accepts it: `"FASTA"` is `ValueError("Unknown output format")` — raised LATE, see `writeFh` -/
def outFmtOf (formatOpt : Option OutFmt) (outputFile : Option Str) : R OutFmt :=
  match outFmtSel formatOpt outputFile with
  | some f => .ok f
  | none => .error .value

/-! ### `find_overlapping_fragments` with the scaffolds -/

/-- one reported pair `((f1, s1), (f2, s2))`; of the scaffolds only the name is used (`report_overlaps`) -/
structure OvPair where
  f1 : Fragment
  s1 : Str
  f2 : Fragment
  s2 : Str
  deriving DecidableEq, Repr, Inhabited

/-- `all_vs_all_fragments`: `frags.extend((x, scffld) for x in scffld.fragments())` over the scaffolds -/
def Assembly.fragmentsWithScaffold (a : Assembly) : List (Fragment × Str) :=
  a.scaffolds.flatMap (fun s => s.fragments.map (fun f => (f, s.name)))

/-- the double loop `for i in range(lgth): for j in range(i + 1, lgth)` with `detect_overlap`:
    `overlappingPairs` (Model/Basic.lean) carrying the scaffold names along -/
def overlappingPairsNamed : List (Fragment × Str) → List OvPair
  | [] => []
  | f :: r => ((r.filter (fun g => f.1.overlaps g.1)).map (fun g => ({ f1 := f.1, s1 := f.2, f2 := g.1, s2 := g.2 } : OvPair))) ++ overlappingPairsNamed r

/-- `asm.find_overlapping_fragments()`; `[]` stands for Python's `None` (`over_pairs if over_pairs else None`) -/
def findOverlappingFragments (a : Assembly) : List OvPair := overlappingPairsNamed a.fragmentsWithScaffold

/-! ### `report_overlaps`: the text on STDERR -/

/-- `Fragment.strand_str`: `(".", "+", "-")[strand]` -/
def fragmentStrandStr (f : Fragment) : R Str := pyGet [['.'], ['+'], ['-']] f.strand

/-- `Fragment.__str__`: `f"{name}:{start}-{end}({strand_str})"` + `" " + " ".join(tags)` if there are tags -/
def fragmentStr (f : Fragment) : R Str := do
  let ss ← fragmentStrandStr f
  pure (f.name ++ [':'] ++ intToStr f.start ++ ['-'] ++ intToStr f.stop ++ ['('] ++ ss ++ [')'] ++
    (if f.tags.isEmpty then [] else ' ' :: joinWith ' ' f.tags))

/-- one `click.echo(f"\nOverlap:\n{s1.name} {f1}\n{s2.name} {f2}", err=True)` -/
def overlapText (p : OvPair) : R Str := do
  let t1 ← fragmentStr p.f1
  let t2 ← fragmentStr p.f2
  pure ("\nOverlap:\n".toList ++ p.s1 ++ [' '] ++ t1 ++ ['\n'] ++ p.s2 ++ [' '] ++ t2 ++ ['\n'])

/-- `report_overlaps(asm_name, pairs)` (called only for a non-empty list) -/
def reportOverlapsText (asmName : Str) (pairs : List OvPair) : R Str := do
  let ts ← pairs.mapM overlapText
  pure ("\nOverlaps detected in assembly '".toList ++ asmName ++ "'\n".toList ++ ts.flatten)

/-! ### `process_fh` -/

/-- placeholders for `str(asm)` / `repr(asm)` (not modelled) -/
def strMarker : Str := "<str(asm)>".toList
def reprMarker : Str := "<repr(asm)>".toList

/-- the first `if` of `process_fh`: `parse_agp(in_fh, asm_name)` / `parse_tpf(in_fh, asm_name)` /
    `ValueError("Unknown input format")` -/
def parseFh (inFmt : Fmt) (asmName : Str) (lines : List Str) : R Assembly :=
  match inFmt with
  | .AGP => do let a ← parseAgp lines; pure { a with name := asmName }
  | .TPF => do let a ← parseTpf lines; pure { a with name := asmName }
  | .FASTA => .error .value

/-- the last `if` of `process_fh`: the text written to `out_fh`.  `format_agp` / `format_tpf` write line by line;
    the model gives the whole text or the exception (after `parseFh` they cannot raise: `AsmFormat.writeFh_parsed_ok`).
    `outFmt = none` is the string `"FASTA"`: `ValueError("Unknown output format")`. -/
def writeFh (a : Assembly) (outFmt : Option OutFmt) : R Str :=
  match outFmt with
  | some .AGP => do let ls ← formatAgp a; pure ls.flatten
  | some .TPF => do let ls ← formatTpf a; pure ls.flatten
  | some .STR => .ok strMarker
  | some .REPR => .ok reprMarker
  | none => .error .value

/-- `process_fh(in_fh, in_fmt, asm_name, out_fh, out_fmt, qc_overlaps)`: the text written and the pairs handed to
    `report_overlaps` (`[]`: no call).  On an exception nothing has been written for this input. -/
def processFh (inFmt : Fmt) (asmName : Str) (lines : List Str) (outFmt : Option OutFmt) (qc : Bool) :
    R (Str × List OvPair) := do
  let asm ← parseFh inFmt asmName lines
  let pairs := if qc then findOverlappingFragments asm else []
  let text ← writeFh asm outFmt
  pure (text, pairs)

/-- what `report_overlaps` has already printed when `process_fh` raises: the report comes before the output format
    is looked at, so only an unknown OUTPUT format can fail after a report -/
def reportBeforeFailure (inFmt : Fmt) (asmName : Str) (lines : List Str) (qc : Bool) : List OvPair :=
  match parseFh inFmt asmName lines with
  | .ok asm => if qc then findOverlappingFragments asm else []
  | .error _ => []

/-! ### `cli` -/

structure AsmFormatOpts where
  inputFormat : Option Fmt := none      -- `--input-format` / `-i`
  outputFile : Option Str := none       -- `--output-file` / `-o` (name)
  format : Option OutFmt := none        -- `--format` / `-f`
  name : Option Str := none             -- `--name` / `-n`
  qcOverlaps : Bool := false            -- `--qc-overlaps`
  deriving DecidableEq, Repr, Inhabited

structure AsmFormatResult where
  /-- everything written to the output handle, in order (for `--output-file`: the new content of that file) -/
  written : Str := []
  /-- the calls `report_overlaps(asm_name, pairs)`, in order -/
  reports : List (Str × List OvPair) := []
  /-- the exception the run ended with -/
  error : Option Err := none
  deriving DecidableEq, Repr, Inhabited

def AsmFormatResult.addReport (r : AsmFormatResult) (asmName : Str) (pairs : List OvPair) : AsmFormatResult :=
  if pairs.isEmpty then r else { r with reports := r.reports ++ [(asmName, pairs)] }

/-- `asm_name = assembly_name if assembly_name else pth.stem` (an empty `--name ""` is falsy) -/
def asmNameOf (nameOpt : Option Str) (fileName : Str) : Str :=
  if truthy nameOpt then nameOpt.getD [] else pathStem fileName

/-- the `for pth in input_files` loop; `acc` = what has happened so far -/
def asmFormatLoop (o : AsmFormatOpts) (outFmt : Option OutFmt) :
    List (Str × List Str) → AsmFormatResult → AsmFormatResult
  | [], acc => acc
  | (fileName, lines) :: rest, acc =>
    let inFmt := inFmtSel o.inputFormat (some fileName)
    let asmName := asmNameOf o.name fileName
    -- the output file has been truncated before this file is opened
    let lines := if o.outputFile = some fileName then [] else lines
    match processFh inFmt asmName lines outFmt o.qcOverlaps with
    | .ok (text, pairs) =>
      asmFormatLoop o outFmt rest ({ acc with written := acc.written ++ text }.addReport asmName pairs)
    | .error _ =>
      -- `except Exception as e: raise ValueError(msg) from e`
      { (acc.addReport asmName (reportBeforeFailure inFmt asmName lines o.qcOverlaps)) with error := some .value }

/-- `cli(input_files, input_format, output_file, output_format, assembly_name, qc_overlaps)`;
    `files` = the input files (name, lines) in command-line order, `stdin` = the lines of STDIN (read only when no
    file is given). -/
def asmFormat (o : AsmFormatOpts) (files : List (Str × List Str)) (stdin : List Str) : AsmFormatResult :=
  let outFmt := outFmtSel o.format o.outputFile
  match files with
  | _ :: _ => asmFormatLoop o outFmt files {}
  | [] =>
    let inFmt := match o.inputFormat with | some f => f | none => .AGP
    let asmName := if truthy o.name then o.name.getD [] else "stdin".toList
    match processFh inFmt asmName stdin outFmt o.qcOverlaps with
    | .ok (text, pairs) => ({ written := text } : AsmFormatResult).addReport asmName pairs
    | .error e => { (({} : AsmFormatResult).addReport asmName (reportBeforeFailure inFmt asmName stdin o.qcOverlaps)) with
                    error := some e }

/-! ### from file content to lines -/

/-- text mode with `newline=None` (what `pth.open("r")` gives): `"\r\n"` → `"\n"`, a lone `"\r"` → `"\n"` -/
def universalNewlinesGo : Bool → Str → Str
  | _, [] => []
  | afterCR, c :: cs =>
    if c = '\r' then '\n' :: universalNewlinesGo true cs          -- every "\r" gives a "\n" …
    else if c = '\n' ∧ afterCR = true then universalNewlinesGo false cs   -- … and a "\n" right behind it is swallowed
    else c :: universalNewlinesGo false cs
def universalNewlines (s : Str) : Str := universalNewlinesGo false s

/-- the lines iteration over an input FILE yields -/
def fileLines (content : Str) : List Str := pyLines (universalNewlines content)

/-- the lines iteration over `sys.stdin` yields (POSIX: `newline="\n"`, only `"\n"` ends a line, `"\r"` stays) -/
def stdinLines (content : Str) : List Str := pyLines content

/-- `asmFormat` on file contents -/
def asmFormatText (o : AsmFormatOpts) (files : List (Str × Str)) (stdin : Str) : AsmFormatResult :=
  asmFormat o (files.map (fun f => (f.1, fileLines f.2))) (stdinLines stdin)

/-! ### TESTS: literal inputs run through the real command (`/venv/bin/asm-format`, Python 3.12.1, click 8.x, in a
    scratch directory); the comment in front of each example is the command line and what it did.
    Files used:
      a.agp   = AGP1 below          c.txt = d.fa = the same text
      b.tpf   = TPF1 below
      bad.agp = "s1\t1\t5\t1\tW\tc\t1\t5\n"          (8 columns)
      cr.agp  = "s1\t1\t5\t1\tW\tc\rd\t1\t5\t+\r\ns1\t6\t9\t2\tW\te\t1\t4\t-\r" -/
section Tests

/-- only so that the tests below can be closed by `decide` -/
private instance instDecEqExceptAsmFormatTests {ε α} [DecidableEq ε] [DecidableEq α] : DecidableEq (Except ε α) := fun a b =>
  match a, b with
  | .ok x, .ok y => if h : x = y then isTrue (by rw [h]) else isFalse (fun e => h (by cases e; rfl))
  | .error x, .error y => if h : x = y then isTrue (by rw [h]) else isFalse (fun e => h (by cases e; rfl))
  | .ok _, .error _ => isFalse (fun e => by cases e)
  | .error _, .ok _ => isFalse (fun e => by cases e)

private def AGP1 : List Str :=
  ["s1\t1\t5\t1\tW\tc\t1\t5\t+\ts1\n".toList, "s1\t6\t8\t2\tU\t3\tscaffold\tyes\tproximity_ligation\n".toList,
   "s1\t9\t12\t3\tW\tc\t4\t7\t-\n".toList, "s2\t1\t3\t1\tW\tc\t5\t7\t?\n".toList]
private def TPF1 : List Str :=
  ["?\tc:1-5\ts1\tPLUS\n".toList, "GAP\tTYPE-2\t3\n".toList, "?\tc:4-7\ts1\tMINUS\n".toList]
/-- `asm-format a.agp -f tpf` printed this -/
private def AGP1asTpf : Str :=
  "?\tc:1-5\ts1\tPLUS\nGAP\tTYPE-2\t3\n?\tc:4-7\ts1\tMINUS\n?\tc:5-7\ts2\tUNKNOWN\n".toList
/-- `asm-format b.tpf` printed this -/
private def TPF1asAgp : Str :=
  "s1\t1\t5\t1\tW\tc\t1\t5\t+\ns1\t6\t8\t2\tU\t3\tscaffold\tyes\tproximity_ligation\ns1\t9\t12\t3\tW\tc\t4\t7\t-\n".toList
private def BAD : List Str := ["s1\t1\t5\t1\tW\tc\t1\t5\n".toList]

private def fA : Fragment := { oid := 0, name := ['c'], start := 1, stop := 5, strand := 1, tags := [['s', '1']] }
private def fB : Fragment := { oid := 1, name := ['c'], start := 4, stop := 7, strand := -1 }
private def fC : Fragment := { oid := 2, name := ['c'], start := 5, stop := 7, strand := 0 }
private def PAIRS1 : List OvPair :=
  [⟨fA, "s1".toList, fB, "s1".toList⟩, ⟨fA, "s1".toList, fC, "s2".toList⟩, ⟨fB, "s1".toList, fC, "s2".toList⟩]

-- in_fmt:  `asm-format c.txt` parses AGP;  `asm-format b.tpf` parses TPF;  `asm-format d.fa`:
--   ValueError("Error processing file 'd.fa'") from ValueError("Unknown input format: 'FASTA'");
--   `asm-format d.fa -i agp` and `asm-format c.txt -i Tpf` use the option (the latter: "Wrong field count 10");
--   `asm-format < a.agp` parses AGP;  `-i fasta` is rejected by click (exit 2)
example : inFmtOf none (some "c.txt".toList) = .ok .AGP ∧ inFmtOf none (some "b.tpf".toList) = .ok .TPF ∧
    inFmtOf none (some "d.fa".toList) = .error .value ∧ inFmtOf (some .AGP) (some "d.fa".toList) = .ok .AGP ∧
    inFmtOf (some .TPF) (some "c.txt".toList) = .ok .TPF ∧ inFmtOf none none = .ok .AGP ∧
    inFmtOf none (some "x.AGPx".toList) = .ok .AGP ∧ inFmtOf none (some "x.tpf.gz".toList) = .ok .AGP := by decide

-- out_fmt:  `asm-format a.agp -o o.tpf` wrote TPF;  `-o o.agp`, `-o o.txt`, `-o o`, `-o o.AGPx`, `-o o.tpf.gz` wrote AGP;
--   `-o o.fa`, `-o o.fasta`: ValueError(…) from ValueError("Unknown output format: 'FASTA'"), `o.fa` left EMPTY;
--   `-o o2.fa -f tpf` wrote TPF into `o2.fa`;  no `-o`: AGP
example : outFmtOf none (some "o.tpf".toList) = .ok .TPF ∧ outFmtOf none (some "o.agp".toList) = .ok .AGP ∧
    outFmtOf none (some "o.txt".toList) = .ok .AGP ∧ outFmtOf none (some "o".toList) = .ok .AGP ∧
    outFmtOf none (some "o.AGPx".toList) = .ok .AGP ∧ outFmtOf none (some "o.tpf.gz".toList) = .ok .AGP ∧
    outFmtOf none (some "o.fa".toList) = .error .value ∧ outFmtOf none (some "o.fasta".toList) = .error .value ∧
    outFmtOf (some .TPF) (some "o2.fa".toList) = .ok .TPF ∧ outFmtOf none none = .ok .AGP ∧
    outFmtOf (some .STR) none = .ok .STR := by decide

-- `asm-format a.agp` prints a.agp unchanged;  `asm-format a.agp -f tpf` prints AGP1asTpf;
-- `asm-format a.agp --qc-overlaps` prints a.agp and reports three pairs (STDERR below)
example : processFh .AGP ['a'] AGP1 (some .AGP) false = .ok (AGP1.flatten, []) := by decide +kernel
example : processFh .AGP ['a'] AGP1 (some .TPF) false = .ok (AGP1asTpf, []) := by decide +kernel
example : processFh .AGP ['a'] AGP1 (some .AGP) true = .ok (AGP1.flatten, PAIRS1) := by decide +kernel
-- `asm-format b.tpf` prints TPF1asAgp (`--qc-overlaps` reports the one pair: "s1 c:1-5(+)" / "s1 c:4-7(-)");
-- `asm-format b.tpf -i AGP`: ValueError(…) from IndexError
example : processFh .TPF ['b'] TPF1 (some .AGP) false = .ok (TPF1asAgp, []) := by decide +kernel
example : processFh .TPF ['b'] TPF1 (some .AGP) true = .ok (TPF1asAgp, [⟨{ fA with tags := [] }, "s1".toList, fB, "s1".toList⟩]) := by
  decide +kernel
example : processFh .AGP ['b'] TPF1 (some .AGP) false = .error .index := by decide +kernel
-- `asm-format -i tpf < a.agp`: ValueError("Wrong field count 10; 4 expected …")
example : processFh .TPF "stdin".toList AGP1 (some .AGP) false = .error .value := by decide +kernel

-- STDERR of `asm-format a.agp --qc-overlaps`:
example : reportOverlapsText ['a'] PAIRS1 =
    .ok ("\nOverlaps detected in assembly 'a'\n" ++
         "\nOverlap:\ns1 c:1-5(+) s1\ns1 c:4-7(-)\n" ++
         "\nOverlap:\ns1 c:1-5(+) s1\ns2 c:5-7(.)\n" ++
         "\nOverlap:\ns1 c:4-7(-)\ns2 c:5-7(.)\n").toList := by decide +kernel

-- `asm-format a.agp b.tpf` prints a.agp followed by TPF1asAgp
example : asmFormat {} [("a.agp".toList, AGP1), ("b.tpf".toList, TPF1)] [] =
    { written := AGP1.flatten ++ TPF1asAgp } := by decide +kernel
-- `asm-format a.agp bad.agp b.tpf -o m.agp`: ValueError("Error processing file 'bad.agp'") from IndexError;
--   m.agp holds the output for a.agp only
example : asmFormat { outputFile := some "m.agp".toList } [("a.agp".toList, AGP1), ("bad.agp".toList, BAD), ("b.tpf".toList, TPF1)] [] =
    { written := AGP1.flatten, error := some .value } := by decide +kernel
-- `asm-format < bad.agp`: IndexError (not wrapped);  `asm-format -o o3.fa < a.agp`: ValueError("Unknown output format"), o3.fa empty;
-- `asm-format -o o4.fa < bad.agp`: IndexError (the parse error comes first)
example : asmFormat {} [] BAD = { error := some .index } := by decide +kernel
example : asmFormat { outputFile := some "o3.fa".toList } [] AGP1 = { error := some .value } := by decide +kernel
example : asmFormat { outputFile := some "o4.fa".toList } [] BAD = { error := some .index } := by decide +kernel
-- `asm-format a.agp -o o5.fa --qc-overlaps`: the overlap report for 'a' IS printed, then ValueError; o5.fa empty
example : asmFormat { outputFile := some "o5.fa".toList, qcOverlaps := true } [("a.agp".toList, AGP1)] [] =
    { reports := [(['a'], PAIRS1)], error := some .value } := by decide +kernel
-- `asm-format ip.agp -o ip.agp` (ip.agp = a.agp): exit 0, ip.agp is EMPTY afterwards;
-- `asm-format a.agp ip.agp -o ip.agp`: ip.agp holds the output for a.agp only
example : asmFormat { outputFile := some "ip.agp".toList } [("ip.agp".toList, AGP1)] [] = {} := by decide +kernel
example : asmFormat { outputFile := some "ip.agp".toList } [("a.agp".toList, AGP1), ("ip.agp".toList, AGP1)] [] =
    { written := AGP1.flatten } := by decide +kernel
-- assembly name: `asm-format a.agp --qc-overlaps` says 'a', `-n X` says 'X', `-n ""` says 'a', STDIN says 'stdin'
example : asmNameOf none "a.agp".toList = ['a'] ∧ asmNameOf (some ['X']) "a.agp".toList = ['X'] ∧
    asmNameOf (some []) "a.agp".toList = ['a'] := by decide
example : (asmFormat { qcOverlaps := true } [] AGP1).reports = [("stdin".toList, PAIRS1)] := by decide +kernel
-- `--format str`: the placeholder
example : (asmFormat { format := some .STR } [("a.agp".toList, AGP1)] []).written = strMarker := by decide +kernel

-- universal newlines: `asm-format cr.agp` fails (the line is cut at the "\r" inside the name: IndexError, wrapped),
--   `asm-format < cr.agp` prints "s1\t1\t5\t1\tW\tc\rd\t1\t5\t+\ns1\t6\t9\t2\tW\te\t1\t4\t-\n"
private def CR : Str := "s1\t1\t5\t1\tW\tc\rd\t1\t5\t+\r\ns1\t6\t9\t2\tW\te\t1\t4\t-\r".toList
example : fileLines CR = ["s1\t1\t5\t1\tW\tc\n".toList, "d\t1\t5\t+\n".toList, "s1\t6\t9\t2\tW\te\t1\t4\t-\n".toList] := by decide +kernel
example : asmFormatText {} [("cr.agp".toList, CR)] [] = { error := some .value } := by decide +kernel
example : asmFormatText {} [] CR =
    { written := "s1\t1\t5\t1\tW\tc\rd\t1\t5\t+\ns1\t6\t9\t2\tW\te\t1\t4\t-\n".toList } := by decide +kernel

end Tests

end AgpTpf
