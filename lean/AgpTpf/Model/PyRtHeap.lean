/-
  Run-time support for T1c kernels that work on SHARED MUTABLE OverlapResult objects (the overhang resolver, the cutter):
  a Python reference to an OverlapResult is an index into the store of results (`Build.store` of `Model/Remap.lean`), exactly the
  convention of the hand-written model.  Part of the trusted base with `Model/PyRt.lean` and the translator.
-/
import AgpTpf.Model.PyRt
import AgpTpf.Model.Remap
namespace AgpTpf.PyRt
open AgpTpf

/-- write an updated OverlapResult back to the place a reference points at -/
def updRes (store : List Res) (sid : Nat) (o : OverlapResult) : List Res :=
  AgpTpf.setAt store sid { (store.getD sid default) with o := o }

/-- `sorted(xs, key=k)` when computing the key may raise: all keys first (in list order), then a stable sort by key -/
def sortedByM {α : Type} (k : α → R Int) (xs : List α) : R (List α) :=
  (xs.mapM (fun x => (k x).map (fun d => (d, x)))).map (fun keyed => (stableSort (fun (a b : Int × α) => decide (a.1 ≤ b.1)) keyed).map (·.2))

/-- `a, b = xs` for a list: exactly two elements, ValueError otherwise -/
def unpack2 {α : Type} : List α → R (α × α)
  | [a, b] => .ok (a, b)
  | _ => .error .value

/-- `Scaffold.idx_fragments()`: the (index, Fragment) pairs of the Fragment rows -/
def idxFragmentsFrom (k : Int) : List Row → List (Int × Fragment)
  | [] => []
  | .frag f :: r => (k, f) :: idxFragmentsFrom (k + 1) r
  | .gap _ :: r => idxFragmentsFrom (k + 1) r
def idxFragments (rows : List Row) : List (Int × Fragment) := idxFragmentsFrom 0 rows

/-- the left-over Scaffold objects created by `add_missing_scaffolds_from_input` live in an arena, each with its dynamically added attribute
    `input_predecessor` (None until set) -/
abbrev Leftover := Scaffold × Option (Row × List Row)
def loGet (heap : List Leftover) (r : Nat) : Leftover := heap.getD r (({ name := [] } : Scaffold), none)
def loSet (heap : List Leftover) (r : Nat) (f : Scaffold → Scaffold) : List Leftover :=
  match heap[r]? with
  | some x => heap.set r (f x.1, x.2)
  | none => heap
def loSetPred (heap : List Leftover) (r : Nat) (p : Option (Row × List Row)) : List Leftover :=
  match heap[r]? with
  | some x => heap.set r (x.1, p)
  | none => heap

/-- an element of `BuildAssembly.scaffolds`: a reference to an OverlapResult in the store or to a left-over Scaffold object -/
inductive BuiltRef where
  | res (sid : Nat)
  | lo (r : Nat)
  deriving DecidableEq, Repr

/-- the Scaffold attributes both classes have (`name`, `rows`, `tag`, `haplotype`, `rank`, `original_name`, `original_tags`), read through a reference -/
def brefView (store : List Res) (heap : List Leftover) : BuiltRef → Scaffold
  | .res sid => let o := getRes store sid
    { name := o.name, rows := o.rows, tag := o.tag, haplotype := o.haplotype, rank := o.rank, originalName := o.originalName, originalTags := o.originalTags }
  | .lo r => (loGet heap r).1

/-- the Scaffold objects `scaffolds_fused_by_name` builds live in an arena -/
def bsGet (heap : List Scaffold) (r : Nat) : Scaffold := heap.getD r { name := [] }
def bsSet (heap : List Scaffold) (r : Nat) (f : Scaffold → Scaffold) : List Scaffold :=
  match heap[r]? with
  | some x => heap.set r (f x)
  | none => heap
/-- `d.setdefault(key, new_object)`: the reference stored under `key` — a new object is allocated at the end of the arena when the key is new -/
def bsSetDefault {κ : Type} [DecidableEq κ] (d : List (κ × Nat)) (heap : List Scaffold) (k : κ) (v : Scaffold) : List (κ × Nat) × List Scaffold × Nat :=
  match dGet? d k with
  | some r => (d, heap, r)
  | none => (d ++ [(k, heap.length)], heap ++ [v], heap.length)

/-- `BuildAssembly.add_scaffold(result)`: the result now belongs to the assembly being built (the model's `Res.added`) -/
def markAdded (store : List Res) (sid : Nat) : List Res :=
  AgpTpf.setAt store sid { (store.getD sid default) with added := true }

/-- FoundFragment objects (the model's `Found`: the fragment and the list of references to the OverlapResults that hold it) live in an arena;
    a reference is an index into it -/
def getFound (heap : List Found) (r : Nat) : Found := heap.getD r { fragment := default, scaffolds := [] }

/-- `fnd.add_scaffold(s)` through a reference -/
def foundAdd (heap : List Found) (r : Nat) (s : Nat) : List Found :=
  match heap[r]? with
  | some f => heap.set r { f with scaffolds := f.scaffolds ++ [s] }
  | none => heap

/-- `fnd.remove_scaffold(s)` = `list.remove`: the first equal element goes, ValueError when there is none -/
def foundRemove (heap : List Found) (r : Nat) (s : Nat) : R (List Found) :=
  match removeFirst (getFound heap r).scaffolds s with
  | some rest => .ok (match heap[r]? with | some f => heap.set r { f with scaffolds := rest } | none => heap)
  | none => .error .value

/-- `del d[k]`: KeyError when the key is absent -/
def dictDel {κ ν : Type} [DecidableEq κ] (d : List (κ × ν)) (k : κ) : R (List (κ × ν)) :=
  if dHas d k then .ok (dDel d k) else .error .key

/-- `ScaffoldNamer` as the Python object has it (`__init__` of build_utils.py): every attribute with the Python type it can hold
    (`None` = `none`).  References to OverlapResults are store indices.  The hand-written model's `Namer` stores some of these differently
    (a rank that is never None as `Int`, counters as `Nat`); the tie theorems relate the two. -/
structure SrcNamer where
  autosome_prefix : Str
  current_scaffold_name : Option Str := none
  current_rank : Option Int := none
  current_haplotype : Option Str := none
  haplotig_n : Int := 0
  haplotig_scaffolds : List Nat := []
  primary_haplotype : Option Str := none
  target_tags : Bool := false
  unloc_n : Int := 0
  unloc_scaffolds : List Nat := []
  haplotype_lc_dict : List (Str × Str) := []
  deriving Repr, DecidableEq

/-- Python truthiness of a `str`-or-None value: None and "" are false -/
def strTruthy : Option Str → Bool
  | some (_ :: _) => true
  | _ => false

/-- `str(x)` / f-string rendering of a `str`-or-None value (`None` prints as "None") -/
def optStrText : Option Str → Str
  | some s => s
  | none => "None".toList

/-- writes of the labelling attributes of an OverlapResult reached through a reference -/
def setLabel (store : List Res) (sid : Nat) (f : OverlapResult → OverlapResult) : List Res :=
  updRes store sid (f (getRes store sid))

/-- one element of a natural-sort key: a number (odd positions of `re.split`'s result) or a text (even positions) -/
inductive KeyTok where
  | num (v : Int)
  | txt (s : Str)
  deriving DecidableEq, Repr

/-- `re.split(r"(IV|I{1,3}|\d+)", name)` as the flat list Python returns: text, match, text, match, …, text — from the model's tokeniser `natTokens` -/
def natSplitList (name : Str) : List Str :=
  let t := natTokens name
  t.first :: t.rest.flatMap (fun p => [p.1, p.2])

end AgpTpf.PyRt
