/-
  Run-time support for T1c kernels that work on SHARED MUTABLE OverlapResult objects (the overhang resolver, the cutter):
  a Python reference to an OverlapResult is an index into the store of results (`Build.store` of `Model/Remap.lean`), exactly the
  convention of the hand-written model.  Part of the trusted base with `Model/PyRt.lean` and the translator.
-/
import AgpTpf.Model.PyRt
import AgpTpf.Model.Remap
namespace AgpTpf.PyRt
open AgpTpf

/-- write an updated OverlapResult back to the place a reference points at -/
def updRes (store : List Res) (sid : Nat) (o : OverlapResult) : List Res :=
  AgpTpf.setAt store sid { (store.getD sid default) with o := o }

/-- `sorted(xs, key=k)` when computing the key may raise: all keys first (in list order), then a stable sort by key -/
def sortedByM {α : Type} (k : α → R Int) (xs : List α) : R (List α) :=
  (xs.mapM (fun x => (k x).map (fun d => (d, x)))).map (fun keyed => (stableSort (fun (a b : Int × α) => decide (a.1 ≤ b.1)) keyed).map (·.2))

/-- `a, b = xs` for a list: exactly two elements, ValueError otherwise -/
def unpack2 {α : Type} : List α → R (α × α)
  | [a, b] => .ok (a, b)
  | _ => .error .value

/-- FoundFragment objects (the model's `Found`: the fragment and the list of references to the OverlapResults that hold it) live in an arena;
    a reference is an index into it -/
def getFound (heap : List Found) (r : Nat) : Found := heap.getD r { fragment := default, scaffolds := [] }

/-- `fnd.add_scaffold(s)` through a reference -/
def foundAdd (heap : List Found) (r : Nat) (s : Nat) : List Found :=
  match heap[r]? with
  | some f => heap.set r { f with scaffolds := f.scaffolds ++ [s] }
  | none => heap

/-- `fnd.remove_scaffold(s)` = `list.remove`: the first equal element goes, ValueError when there is none -/
def foundRemove (heap : List Found) (r : Nat) (s : Nat) : R (List Found) :=
  match removeFirst (getFound heap r).scaffolds s with
  | some rest => .ok (match heap[r]? with | some f => heap.set r { f with scaffolds := rest } | none => heap)
  | none => .error .value

/-- `del d[k]`: KeyError when the key is absent -/
def dictDel {κ ν : Type} [DecidableEq κ] (d : List (κ × ν)) (k : κ) : R (List (κ × ν)) :=
  if dHas d k then .ok (dDel d k) else .error .key

end AgpTpf.PyRt
