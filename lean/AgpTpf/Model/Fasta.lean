/-
  FASTA indexer, random access, chunk iterators, stream writer, complement  (fasta/index.py, stream.py, simple.py)
  Bytes are naturals < 256.
-/
import AgpTpf.Model.Basic
import AgpTpf.Gen.Fasta
namespace AgpTpf

abbrev Bytes := List Nat

theorem fastaRunRegex_expected : Gen.fastaRunRegex = "[ACGTacgt]+" := rfl

/-- binary-mode file iteration: split after every LF (10). -/
def bLines : Bytes → List Bytes
  | [] => []
  | c :: cs =>
    if c = 10 then [c] :: bLines cs
    else match bLines cs with
      | [] => [[c]]
      | l :: ls => (c :: l) :: ls

/-- `IUPAC_COMPLEMENT` as `bytes.maketrans` builds it: a 256-entry table. -/
def comp (b : Nat) : Nat := Gen.complementTable.getD b b
def reverseComplement (s : Bytes) : Bytes := s.reverse.map comp

def isACGT (b : Nat) : Bool := b = 65 || b = 67 || b = 71 || b = 84 || b = 97 || b = 99 || b = 103 || b = 116
/-- bytes.split() whitespace -/
def isBSpace (b : Nat) : Bool := b = 32 || (9 ≤ b && b ≤ 13)

structure FastaInfo where
  length : Int
  fileOffset : Int
  rpl : Int
  mll : Int
  deriving DecidableEq, Repr, Inhabited

def bytesToStr (b : Bytes) : R Str :=
  if b.all (· < 128) then .ok (b.map Char.ofNat) else .error .other
def strToBytes (s : Str) : Bytes := s.map Char.toNat

/-- maximal runs of ACGTacgt as half-open offsets `(start, end)` relative to `off`. -/
def acgtRuns : Nat → Option Nat → Bytes → List (Nat × Nat)
  | pos, some st, [] => [(st, pos)]
  | _, none, [] => []
  | pos, cur, b :: bs =>
    if isACGT b then
      match cur with
      | some st => acgtRuns (pos + 1) (some st) bs
      | none => acgtRuns (pos + 1) (some pos) bs
    else
      match cur with
      | some st => (st, pos) :: acgtRuns (pos + 1) none bs
      | none => acgtRuns (pos + 1) none bs

structure IdxState where
  name : Option Str := none
  seqLength : Int := 0
  fileOffset : Int := 0
  rpl : Option Int := none            -- `None` before the first header, then an int
  regionStart : Int := 0
  regionEnd : Option Int := none
  seqRegions : List (Int × Int) := []
  lineEndBytes : Int := 0
  buffer : Bytes := []
  idx : List (Str × FastaInfo) := []
  scaffolds : List Scaffold := []
  pos : Int := 0                      -- fh.tell() after the current line
  nextOid : Nat := 0
  maxBuffered : Nat := 0              -- observation for C13
  deriving Repr

/-- the loop body of `process_seq_buffer` for one run. -/
def mergeRun (seqLength : Int) (st : Int × Option Int × List (Int × Int)) (run : Nat × Nat) :
    Int × Option Int × List (Int × Int) :=
  let (rs, re, regs) := st
  let s : Int := seqLength + run.1
  let e : Int := seqLength + run.2
  if re = some s then (rs, some e, regs)
  else
    let regs := match re with
      | some r => if r ≠ 0 then regs ++ [(rs, r)] else regs
      | none => regs
    (s, some e, regs)

def processSeqBuffer (st : IdxState) : IdxState :=
  let runs := acgtRuns 0 none st.buffer
  let (rs, re, regs) := runs.foldl (mergeRun st.seqLength) (st.regionStart, st.regionEnd, st.seqRegions)
  { st with regionStart := rs, regionEnd := re, seqRegions := regs,
            seqLength := st.seqLength + st.buffer.length, buffer := [] }

/-- rows from the run list (`store_info`) -/
def regionRows (name : Str) : Nat → Int → List (Int × Int) → List Row × Nat × Int
  | oid, prevEnd, [] => ([], oid, prevEnd)
  | oid, prevEnd, (s, e) :: rest =>
    let gapRows := if s ≠ prevEnd then [Row.gap { length := s - prevEnd, gapType := Gen.fastaGapType }] else []
    let frag : Fragment := { oid := oid, name := name, start := s + 1, stop := e, strand := 1, tags := [] }
    let (rows, oid', last) := regionRows name (oid + 1) e rest
    (gapRows ++ [Row.frag frag] ++ rows, oid', last)

def storeInfo (st0 : IdxState) : R IdxState := do
  let st := processSeqBuffer st0
  let regs := match st.regionEnd with
    | some r => if r ≠ 0 then st.seqRegions ++ [(st.regionStart, r)] else st.seqRegions
    | none => st.seqRegions
  let name := st.name.getD []
  if dHas st.idx name then throw .value
  let rpl := st.rpl.getD 0
  let info : FastaInfo := { length := st.seqLength, fileOffset := st.fileOffset, rpl := rpl, mll := rpl + st.lineEndBytes }
  let (rows, oid, lastEnd) := regionRows name st.nextOid 0 regs
  let rem := st.seqLength - lastEnd
  let rows := if rem ≠ 0 then rows ++ [Row.gap { length := rem, gapType := Gen.fastaGapType }] else rows
  pure { st with seqRegions := regs, idx := st.idx ++ [(name, info)],
                 scaffolds := st.scaffolds ++ [{ name := name, rows := rows }], nextOid := oid }

def indexLine (bs : Int) (st : IdxState) (line : Bytes) : R IdxState := do
  let st := { st with pos := st.pos + line.length }
  let b0 ← pyGet line 0
  if b0 = 62 then do
    let st ← if st.name.isSome then storeInfo st else pure st
    let tok := ((line.drop 1).dropWhile isBSpace).takeWhile (fun b => !isBSpace b)
    if tok.isEmpty then throw .index
    let name ← bytesToStr tok
    let b2 ← pyGet line (-2)
    pure { st with name := some name, seqLength := 0, rpl := some 0, regionStart := 0, regionEnd := none,
                   seqRegions := [], fileOffset := st.pos, lineEndBytes := if b2 = 13 then 2 else 1 }
  else do
    -- the last line of the file may have no line ending: slice only when the line ends with LF
    let keep := if line.getLast? = some 10 then line.take (line.length - st.lineEndBytes.toNat) else line
    let st ← match st.rpl with
      | none =>
        -- no header seen yet: `line_end_bytes` is None. A terminated line is sliced with `-None` (TypeError); an
        -- unterminated one (necessarily the last line) is taken whole and `residues_per_line` becomes its length.
        if line.getLast? = some 10 then throw .type
        else pure { st with rpl := some (keep.length : Int) }
      | some r => pure (if r = 0 then { st with rpl := some (keep.length : Int) } else st)
    let st := { st with buffer := st.buffer ++ keep }
    let st := { st with maxBuffered := max st.maxBuffered st.buffer.length }
    if (st.buffer.length : Int) > bs then
      -- process_seq_buffer() before any header adds to `seq_length = None`: TypeError
      if st.name.isNone then throw .type else pure (processSeqBuffer st)
    else pure st

def indexFasta (lines : List Bytes) (bs : Int) : R IdxState := do
  let st ← lines.foldlM (indexLine bs) {}
  let st ← if st.name.isSome then storeInfo st else pure st
  if st.idx.isEmpty then throw .value else pure st

/-! ### random access -/

/-- `fh.read(n)` at absolute position `pos` (`n < 0` reads to EOF). -/
def readAt (file : Bytes) (pos n : Int) : Bytes :=
  if n < 0 then file.drop pos.toNat else (file.drop pos.toNat).take n.toNat

structure ReadLog where
  data : Bytes := []
  reads : List Int := []      -- sizes requested, for the memory-bound tie

/-- whole middle lines: `cnt` times read(rpl); seek(leb, 1) -/
def readWholeLines (file : Bytes) (rpl leb : Int) : Nat → Int → ReadLog → Int × ReadLog
  | 0, pos, acc => (pos, acc)
  | k + 1, pos, acc =>
    let d := readAt file pos rpl
    readWholeLines file rpl leb k (pos + d.length + leb) { data := acc.data ++ d, reads := acc.reads ++ [rpl] }

/-- the whole middle lines as `sequence_bytes` runs them: `fh.seek(leb, 1)` with a negative target raises OSError (CPython), at
    every pass.  `= .ok (readWholeLines …)` whenever `0 ≤ leb` and `0 ≤ pos` (`Proofs/SeekChk.lean`); `readWholeLines` above is the
    unchecked recursion, kept as the specification function of the proofs. -/
def readWholeLinesChk (file : Bytes) (rpl leb : Int) : Nat → Int → ReadLog → R (Int × ReadLog)
  | 0, pos, acc => .ok (pos, acc)
  | k + 1, pos, acc =>
    let d := readAt file pos rpl
    if pos + d.length + leb < 0 then .error .other
    else readWholeLinesChk file rpl leb k (pos + d.length + leb) { data := acc.data ++ d, reads := acc.reads ++ [rpl] }

def sequenceBytes (file : Bytes) (info : FastaInfo) (start1 stop : Int) : R ReadLog := do
  let start := start1 - 1
  let rpl := info.rpl
  let mll := info.mll
  let leb := mll - rpl
  if rpl = 0 then throw .zeroDiv
  let frstLine := pyDiv start rpl
  let lastLine := pyDiv (stop - 1) rpl
  let frstOffset := pyMod start rpl
  let lastOffset := pyMod stop rpl
  let pos0 := info.fileOffset + frstOffset + mll * frstLine
  if pos0 < 0 then throw .other
  if frstLine = lastLine then
    pure { data := readAt file pos0 (stop - start), reads := [stop - start] }
  else do
    let d1 := readAt file pos0 (rpl - frstOffset)
    let pos1 := pos0 + d1.length + leb
    if pos1 < 0 then throw .other
    let lastWhole := if lastOffset = 0 then lastLine else lastLine - 1
    let (pos2, log) ← readWholeLinesChk file rpl leb (lastWhole - frstLine).toNat pos1
      { data := d1, reads := [rpl - frstOffset] }
    if lastOffset ≠ 0 then
      pure { data := log.data ++ readAt file pos2 lastOffset, reads := log.reads ++ [lastOffset] }
    else pure log

/-- chunk bounds of `fwd_chunks`: `(chunk_start, chunk_end)` for i = 0 … count-1 -/
def chunkBounds (start stop bs : Int) (i : Nat) : Int × Int :=
  let cs := start + (i : Int) * bs
  (cs, min stop (cs + bs - 1))

def fwdChunkList (start stop bs : Int) : List (Int × Int) :=
  let count := 1 + pyDiv (stop - start) bs
  (List.range count.toNat).map (chunkBounds start stop bs)

def revChunkList (start stop bs : Int) : List (Int × Int) :=
  let count := pyDiv (stop - start) bs
  -- range(count, -1, -1)
  if count < 0 then [] else ((List.range (count.toNat + 1)).reverse).map (chunkBounds start stop bs)

def gapChunkList (length bs : Int) : List Int :=
  let count := 1 + pyDiv length bs
  (List.range count.toNat).map (fun (i : Nat) => let cs : Int := (i : Int) * bs; let ce := min length (cs + bs); max 0 (ce - cs))

/-- the `while True: chunk.read(want)` loop for one chunk. Returns written bytes and new `want`. -/
def writeChunk (w : Int) : Nat → Int → Bytes → Bytes × Int
  | 0, want, _ => ([], want)
  | fuel + 1, want, chunk =>
    let seq := if want < 0 then chunk else chunk.take want.toNat
    if seq.isEmpty then ([], want)
    else
      let want' := want - seq.length
      let (nl, want'') := if want' = 0 then ([10], w) else ([], want')
      let (rest, wantF) := writeChunk w fuel want'' (chunk.drop seq.length)
      (seq ++ nl ++ rest, wantF)

structure StreamLog where
  out : Bytes := []
  want : Int
  chunkSizes : List Nat := []   -- length of every BytesIO chunk produced (C13)
  reads : List Int := []        -- every read(n) request against the FASTA file (C13)

def getInfo (idx : List (Str × FastaInfo)) (name : Str) : R FastaInfo :=
  match dGet? idx name with
  | some i => .ok i
  | none => .error .value

def streamRow (file : Bytes) (idx : List (Str × FastaInfo)) (bs w : Int) (log : StreamLog) (row : Row) : R StreamLog :=
  match row with
  | .gap g =>
    let chunks := gapChunkList g.length bs
    pure (chunks.foldl (fun (lg : StreamLog) n =>
      let chunk := List.replicate n.toNat (Gen.gapCharacter.headD 78)
      let (o, want) := writeChunk w (chunk.length + 1) lg.want chunk
      { lg with out := lg.out ++ o, want := want, chunkSizes := lg.chunkSizes ++ [chunk.length] }) log)
  | .frag f => do
    let info ← getInfo idx f.name
    let bounds := if f.strand = -1 then revChunkList f.start f.stop bs else fwdChunkList f.start f.stop bs
    bounds.foldlM (fun (lg : StreamLog) (b : Int × Int) => do
      let rl ← sequenceBytes file info b.1 b.2
      let chunk := if f.strand = -1 then reverseComplement rl.data else rl.data
      let (o, want) := writeChunk w (chunk.length + 1) lg.want chunk
      pure { lg with out := lg.out ++ o, want := want, chunkSizes := lg.chunkSizes ++ [chunk.length],
                     reads := lg.reads ++ rl.reads }) log

/-- `FastaStream.write_scaffold` -/
def streamScaffold (file : Bytes) (idx : List (Str × FastaInfo)) (bs w : Int) (sc : Scaffold) : R StreamLog := do
  let hdr := [62] ++ strToBytes sc.name ++ [10]
  let log ← sc.rows.foldlM (streamRow file idx bs w) { out := hdr, want := w }
  pure (if log.want ≠ w then { log with out := log.out ++ [10] } else log)

def streamAssembly (file : Bytes) (idx : List (Str × FastaInfo)) (bs w : Int) (scs : List Scaffold) : R StreamLog :=
  scs.foldlM (fun (acc : StreamLog) sc => do
    let lg ← streamScaffold file idx bs w sc
    pure { out := acc.out ++ lg.out, want := w, chunkSizes := acc.chunkSizes ++ lg.chunkSizes, reads := acc.reads ++ lg.reads })
    { want := w }

end AgpTpf
