/-
  Run-time support for the T1c kernels of PHASE 2 of the remap (build_utils.ChrGroup / ChrNamer, Assembly.smart_sort_scaffolds,
  BuildAssembly.assemblies_with_scaffolds_fused).  Python objects that are shared and mutated live in arenas, a reference is an index:

    heap_b : List Scaffold   the fused Scaffold objects (`scaffolds_fused_by_name`), already used by `PyRt.bsGet / bsSet`
    heap_g : List GData      ChrGroup objects (their only attribute is `data`)
    heap_a : List AsmObj     the output Assembly objects (name, curated, list of REFERENCES to scaffolds)

  Part of the trusted base with `Model/PyRt.lean`, `Model/PyRtHeap.lean` and the translator: this file is the SEMANTICS of the Python
  operations the generated code names.  Core Lean only; everything is structural and reduces in the kernel.
-/
import AgpTpf.Model.PyRtHeap
namespace AgpTpf.PyRt
open AgpTpf

/-- `ChrGroup.data[hap]`: original (Pretext) scaffold name → the scaffolds under it, in insertion order.  The key is what
    `Scaffold.original_name` holds, which may be None. -/
abbrev HapSet := List (Option Str × List Nat)
/-- `ChrGroup.data`: haplotype → HapSet, in insertion order -/
abbrev GData := List (Str × HapSet)

def gGet (heap : List GData) (r : Nat) : GData := heap.getD r []
def gSet (heap : List GData) (r : Nat) (d : GData) : List GData :=
  match heap[r]? with
  | some _ => heap.set r d
  | none => heap

/-- an output `Assembly` object of phase 2: its scaffolds are references into `heap_b` (their names are still going to change) -/
structure AsmObj where
  name : Str
  curated : Bool := false
  scaffolds : List Nat := []
  deriving Repr, DecidableEq

def aGet (heap : List AsmObj) (r : Nat) : AsmObj := heap.getD r { name := [] }
def aSet (heap : List AsmObj) (r : Nat) (f : AsmObj → AsmObj) : List AsmObj :=
  match heap[r]? with
  | some x => heap.set r (f x)
  | none => heap

/-- `d.setdefault(key, new_object)` for a dictionary of references: the reference stored under `key`; when the key is new the object is
    allocated at the end of the arena (the constructor call that builds `v` has no side effect, so building it eagerly, as Python does, and
    dropping it is not observable) -/
def refSetDefault {κ α : Type} [DecidableEq κ] (d : List (κ × Nat)) (heap : List α) (k : κ) (v : α) : List (κ × Nat) × List α × Nat :=
  match dGet? d k with
  | some r => (d, heap, r)
  | none => (d ++ [(k, heap.length)], heap ++ [v], heap.length)

/-- `first, *rest = xs`: ValueError when there is nothing to unpack -/
def unpackHead {α : Type} : List α → R (α × List α)
  | [] => .error .value
  | x :: xs => .ok (x, xs)

/-- `max(xs)` of a non-empty sequence of ints: ValueError on the empty sequence -/
def maxList : List Int → R Int
  | [] => .error .value
  | x :: xs => .ok (xs.foldl max x)

/-- `chr(i)`: ValueError outside `range(0x110000)`.  (Lean's `Char` has no surrogates: `Char.ofNat` maps them to NUL; the translated code
    only calls `chr` on `ord("A") + k`.) -/
def chr (i : Int) : R Str :=
  if 0 ≤ i ∧ i < 0x110000 then .ok [Char.ofNat i.toNat] else .error .value

/-- an argument that must not be None where the callee needs a `str` (`s.replace(None, …)`): TypeError -/
def needArg {α : Type} : Option α → R α
  | some x => .ok x
  | none => .error .type

/-- `s.replace(old, new)`: every non-overlapping occurrence, left to right; an empty `old` matches between all characters -/
def strReplace (s old new : Str) : Str :=
  if old.isEmpty then new ++ s.flatMap (fun c => c :: new) else replaceAll old new (s.length + 1) s

/-- `self.data.get(hap).setdefault(orig, []).append(ref)`: the inner dictionary and the list are reached by reference, so the append is
    seen through `self.data`; `get` returning None makes `.setdefault` raise AttributeError -/
def gdataAppend (data : GData) (hap : Str) (orig : Option Str) (ref : Nat) : R GData :=
  match dGet? data hap with
  | none => .error .attribute
  | some hs => .ok (dSet data hap (dSet hs orig (((dGet? hs orig).getD []) ++ [ref])))

/-- `xs.sort(key=k, reverse=True)` for integer keys that may raise: all keys first (in list order), then a stable descending sort
    (Python's reverse sort keeps the original order of equal keys) -/
def sortedByMDesc {α : Type} (k : α → R Int) (xs : List α) : R (List α) :=
  (xs.mapM (fun x => (k x).map (fun d => (d, x)))).map (fun keyed => (stableSort (fun (a b : Int × α) => decide (a.1 ≥ b.1)) keyed).map (·.2))

/-! ### sort keys `(rank, natural_key)`: Python compares tuples element by element — the first pair that is not `==` decides by `<`,
    and `<` between an `int` and a `str` raises TypeError -/

/-- code-point order on text (`str.__lt__`) -/
def strLt (a b : Str) : Bool := strLe a b && !(a == b)

/-- `a < b` for two key tokens; `none` = TypeError (an int meets a str) -/
def KeyTok.lt? : KeyTok → KeyTok → Option Bool
  | .num a, .num b => some (decide (a < b))
  | .txt a, .txt b => some (strLt a b)
  | _, _ => none

/-- `a < b` for two token tuples -/
def keyToksLt? : List KeyTok → List KeyTok → Option Bool
  | [], [] => some false
  | [], _ :: _ => some true
  | _ :: _, [] => some false
  | a :: as, b :: bs => if a = b then keyToksLt? as bs else KeyTok.lt? a b

/-- `a < b` for `(rank, tokens)` -/
def smartKeyLt? (a b : Int × List KeyTok) : Option Bool :=
  if a.1 = b.1 then keyToksLt? a.2 b.2 else some (decide (a.1 < b.1))

/-- `xs.sort(key=k)` for keys whose comparison may raise: all keys are computed first, in list order (any failure aborts, the list is
    unchanged).  WHICH pairs `list.sort` compares is an implementation detail of timsort; this definition reports TypeError as soon as SOME
    pair of keys present is incomparable (an over-approximation of the error case, stated in DESIGN.md) and otherwise returns the stable
    sort (`x` goes in front of the first `y` that is not `< x`: equal keys keep their order).  The tie theorem shows the error case cannot arise for the keys `name_natural_key` produces (texts and numbers alternate). -/
def sortedByKeyLt? {α κ : Type} (lt? : κ → κ → Option Bool) (k : α → R κ) (xs : List α) : R (List α) :=
  (xs.mapM (fun x => (k x).map (fun d => (d, x)))) >>= fun keyed =>
    if keyed.all (fun a => keyed.all (fun b => (lt? a.1 b.1).isSome)) then
      .ok ((stableSort (fun (a b : κ × α) => !((lt? b.1 a.1).getD false)) keyed).map (·.2))
    else .error .type

/-- the `{key: Assembly}` dictionary of references as the dictionary of Assembly VALUES the statistics read (a snapshot) -/
def asmDictView {κ : Type} (heap_a : List AsmObj) (heap_b : List Scaffold) (d : List (κ × Nat)) : List (κ × Assembly) :=
  d.map (fun kv =>
    let a := aGet heap_a kv.2
    (kv.1, ({ name := a.name, curated := a.curated, scaffolds := a.scaffolds.map (bsGet heap_b) } : Assembly)))

end AgpTpf.PyRt
