/-
  Values: Fragment, Gap, Row, Scaffold, Assembly  (fragment.py, gap.py, scaffold.py, assembly.py)
-/
import AgpTpf.Model.Py
namespace AgpTpf

/-- `Fragment`.  `oid` models Python object identity (`is`): every constructed object gets a
    distinct id; it takes no part in `__eq__`. -/
structure Fragment where
  oid : Nat := 0
  name : Str
  start : Int
  stop : Int          -- Python attribute `end`
  strand : Int
  tags : List Str := []
  deriving DecidableEq, Repr, Inhabited

/-- `Fragment.__init__` checks. -/
def mkFragment (oid : Nat) (name : Str) (start stop strand : Int) (tags : List Str) : R Fragment :=
  if ¬ (strand = 0 ∨ strand = 1 ∨ strand = -1) then .error .value
  else if start > stop then .error .value
  else .ok { oid, name, start, stop, strand, tags }

structure Gap where
  length : Int
  gapType : Str
  deriving DecidableEq, Repr, Inhabited

inductive Row where
  | frag (f : Fragment)
  | gap (g : Gap)
  deriving DecidableEq, Repr, Inhabited

namespace Fragment
def length (f : Fragment) : Int := f.stop - f.start + 1
def keyTuple (f : Fragment) : Str × Int × Int := (f.name, f.start, f.stop)
/-- value equality (`__eq__`): everything but identity. -/
def valEq (a b : Fragment) : Bool :=
  a.name == b.name && a.start == b.start && a.stop == b.stop && a.strand == b.strand && a.tags == b.tags

def overlaps (a b : Fragment) : Bool :=
  if a.name ≠ b.name then false else decide (a.stop ≥ b.start ∧ a.start ≤ b.stop)

def overlapLength (a b : Fragment) : Option Int :=
  if a.name ≠ b.name then none
  else
    let s := max a.start b.start
    let e := min a.stop b.stop
    if s > e then none else some (e - s + 1)

def abuts (a b : Fragment) : Bool :=
  if a.name ≠ b.name then false else decide (a.stop + 1 = b.start ∨ b.stop + 1 = a.start)

def gapBetween (a b : Fragment) : Option Int :=
  if a.name ≠ b.name then none
  else
    let gs := min a.stop b.stop
    let ge := max a.start b.start
    if gs < ge then some (ge - gs - 1) else none

def reverse (f : Fragment) : Fragment := { f with strand := -1 * f.strand }
def rename (f : Fragment) (n : Str) : Fragment := { f with name := n }
end Fragment

/-- strict code-point lexicographic order on text (Python `str.__lt__`) -/
def strLt : Str → Str → Bool
  | [], [] => false
  | [], _ :: _ => true
  | _ :: _, [] => false
  | a :: as, b :: bs => if a.toNat < b.toNat then true else if a.toNat > b.toNat then false else strLt as bs

/-- one cell of a junction tuple: a contig name or a coordinate. -/
inductive JCell where
  | s (x : Str)
  | i (x : Int)
  deriving DecidableEq, Repr, Inhabited

abbrev Junction := JCell × JCell × JCell × JCell

/-- `(name, coord) ≤ (name', coord')` as Python compares tuples of `(str, int)` -/
def endLe (a b : Str × Int) : Bool :=
  if a.1 = b.1 then decide (a.2 ≤ b.2) else strLt a.1 b.1

/-- `Fragment.junction_tuple`, as in the source: the two mixed-strand cases order the two contig ends
    (`sorted(...)`, resp. `sorted(..., reverse=True)`; Python's sort is stable, so ties keep the given order). -/
def junctionTuple (a b : Fragment) : R Junction :=
  if a.strand = 1 then
    if b.strand = 1 then .ok (.s a.name, .i a.stop, .s b.name, .i b.start)
    else if b.strand = -1 then
      let x := (a.name, a.stop); let y := (b.name, b.stop)
      let (p, q) := if endLe x y then (x, y) else (y, x)
      .ok (.s p.1, .i p.2, .i q.2, .s q.1)
    else .error .value
  else if a.strand = -1 then
    if b.strand = 1 then
      let x := (a.name, a.start); let y := (b.name, b.start)
      -- reverse=True: descending, equal elements keep their order
      let (p, q) := if endLe y x then (x, y) else (y, x)
      .ok (.i p.2, .s p.1, .s q.1, .i q.2)
    else if b.strand = -1 then .ok (.s b.name, .i b.stop, .s a.name, .i a.start)
    else .error .value
  else .error .value

namespace Row
def length : Row → Int
  | .frag f => f.length
  | .gap g => g.length
def isGap : Row → Bool
  | .gap _ => true
  | .frag _ => false
def isFrag (r : Row) : Bool := !r.isGap
def reverse : Row → Row
  | .frag f => .frag f.reverse
  | .gap g => .gap g
end Row

def rowsLength (rows : List Row) : Int := sumInts (rows.map Row.length)

def fragmentsOf : List Row → List Fragment
  | [] => []
  | .frag f :: r => f :: fragmentsOf r
  | .gap _ :: r => fragmentsOf r

structure Scaffold where
  name : Str
  rows : List Row := []
  tag : Option Str := none
  haplotype : Option Str := none
  rank : Int := 0
  originalName : Option Str := none
  originalTags : Option (List Str) := none
  deriving DecidableEq, Repr, Inhabited

namespace Scaffold
def length (s : Scaffold) : Int := rowsLength s.rows
def fragments (s : Scaffold) : List Fragment := fragmentsOf s.rows
def fragmentsLength (s : Scaffold) : Int := sumInts (s.fragments.map Fragment.length)

/-- `fragment_tags()`: a set; modelled duplicate-free in first-occurrence order. -/
def fragmentTags (s : Scaffold) : List Str :=
  s.fragments.foldl (fun acc f => (f.tags.filter (fun t => !t.isEmpty)).foldl sAdd acc) []   -- `if t:` — an empty column is not a tag

/-- `Scaffold.reverse`: a new scaffold that keeps only name, original_name, original_tags. -/
def reverse (s : Scaffold) : Scaffold :=
  { name := s.name, rows := (s.rows.reverse).map Row.reverse,
    originalName := s.originalName, originalTags := s.originalTags }

/-- `append_scaffold(othr, gap)`; `gap` is falsy only when `None`. -/
def appendRows (rows : List Row) (othr : List Row) (gap : Option Gap) : List Row :=
  match gap with
  | some g => if rows.isEmpty then othr else rows ++ [Row.gap g] ++ othr
  | none => rows ++ othr
end Scaffold

/-- junctions between consecutive fragments (gaps skipped); first error wins, as in Python. -/
def junctionsOfFrags : List Fragment → R (List Junction)
  | [] => .ok []
  | [_] => .ok []
  | a :: b :: r => do
    let j ← junctionTuple a b
    let js ← junctionsOfFrags (b :: r)
    pure (j :: js)

def Scaffold.junctionSet (s : Scaffold) : R (List Junction) := do
  let js ← junctionsOfFrags s.fragments
  pure (js.foldl sAdd [])

structure Assembly where
  name : Str := []
  header : List Str := []
  scaffolds : List Scaffold := []
  curated : Bool := false
  deriving DecidableEq, Repr, Inhabited

def Assembly.junctionSet (a : Assembly) : R (List Junction) :=
  a.scaffolds.foldlM (fun acc s => do let js ← s.junctionSet; pure (sUnion acc js)) []

def Assembly.allFragments (a : Assembly) : List Fragment := a.scaffolds.flatMap Scaffold.fragments

/-- `all_vs_all_fragments` + `find_overlapping_fragments`: index pairs `(i, j)`, `i < j`, in scan order. -/
def overlappingPairs (frags : List Fragment) : List (Fragment × Fragment) :=
  match frags with
  | [] => []
  | f :: r => ((r.filter (fun g => f.overlaps g)).map (fun g => (f, g))) ++ overlappingPairs r

end AgpTpf
