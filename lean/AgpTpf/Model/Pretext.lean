/-
  The PretextView model — SPEC SIDE (not a model of code in /repo/src/tola).

  "Every edit script PretextView can produce", as a Lean object (DESIGN.md §5, "the PretextView model").
  Python twin (the generator that plays PretextView in the harness): `/verif/harness/remap_lib.py::pretext_script`,
  `null_script`.  The definitions below follow that generator line by line:

    bpt = Fraction(bpt_s)                                  texel size β = p/q ≥ 1   (`q ≥ 1`, `p ≥ q`)
    T = floor(L / bpt)  or  ceil(L / bpt)                  `floorT`, `ceilT`
    if T == 0: scaffold absent, or T = 1                   `ScafScript.present = false`, resp. `T = 1`
    cuts = [0, t₁, …, T],  t_{i+1} ≥ t_i + 2, t_i + 2 ≤ T  `ScafScript.cuts` (the interior ones), `stepsOk`
    pieces (name, floor(a·bpt) + 1, floor(b·bpt))          `spansFrom`, `coord`
    rng.shuffle(pieces); groups of consecutive pieces      `Script.groups` (any permutation, any grouping: `isPerm`)
    jgap(100) between the pieces of a group                `Script.gap` (default `pretextGap`)
    strand ±1 per piece; ["Painted"] per group             `Placed.minus`, `Group.painted`
    jscaffold(f"Scaffold_{n}", rows), n = 1, 2, …          `scaffoldName`

  Remarks.
  * The generator allows ONE piece of a single texel when `T = 1` (`cuts = [0, 1]`); so does `ScafScript.wf`.  With at
    least one interior cut every piece is at least two texels long.
  * The generator's `max_group`, probabilities and random source are parameters of the GENERATOR, not of PretextView: a
    script here may group any number of pieces.
  * The separator row is a field so that maps written with another gap can be expressed; the remapper ignores gap rows of
    the Pretext map (`Scaffold.fragments`).
  Everything is executable and reduces under `decide`.
-/
import AgpTpf.Model.Remap
namespace AgpTpf.Pretext
open AgpTpf

/-! ### texel arithmetic: β = p/q -/

/-- `⌊t·β⌋` — the base-pair coordinate of the end of texel `t` -/
def coord (p q t : Nat) : Nat := t * p / q

/-- `1 + ⌊β⌋` — the error length the remapper derives from the map's header -/
def errLen (p q : Nat) : Nat := 1 + p / q

/-- `⌊L/β⌋` -/
def floorT (p q L : Nat) : Nat := L * q / p

/-- `⌈L/β⌉` -/
def ceilT (p q L : Nat) : Nat := (L * q + p - 1) / p

/-! ### one input scaffold -/

/-- what the script does to one input scaffold: absent (only sub-texel scaffolds), or `T` texels cut at the interior
    texel indices `cuts` (ascending; `0` and `T` are not listed) -/
structure ScafScript where
  present : Bool := true
  T : Nat := 0
  cuts : List Nat := []
  deriving DecidableEq, Repr, Inhabited

/-- `a + 2 ≤ b₁`, `b₁ + 2 ≤ b₂`, … : consecutive cut indices are at least two texels apart -/
def stepsOk (a : Nat) : List Nat → Bool
  | [] => true
  | b :: r => decide (a + 2 ≤ b) && stepsOk b r

/-- the generator's rule for a scaffold of `L` bp.  Present: `T ∈ {⌊L/β⌋, ⌈L/β⌉}`, or `T = 1` when `⌊L/β⌋ = 0`; `T ≥ 1`;
    no interior cut (one piece, possibly of a single texel), or `0 < t₁ < … < T` with all steps ≥ 2.
    Absent: only when `⌊L/β⌋ = 0`. -/
def ScafScript.wf (p q L : Nat) (c : ScafScript) : Bool :=
  if c.present then
    (c.T == floorT p q L || c.T == ceilT p q L || (floorT p q L == 0 && c.T == 1)) && decide (1 ≤ c.T) &&
    (c.cuts.isEmpty || stepsOk 0 (c.cuts ++ [c.T]))
  else floorT p q L == 0 && c.cuts.isEmpty

/-- pieces `[⌊a·β⌋ + 1, ⌊b·β⌋]` for consecutive cut indices `a, b`, starting from cut index `a` -/
def spansFrom (p q a : Nat) : List Nat → List (Nat × Nat)
  | [] => []
  | b :: r => (coord p q a + 1, coord p q b) :: spansFrom p q b r

/-- the pieces of the scaffold, in scaffold order, as closed intervals of scaffold coordinates -/
def ScafScript.spans (p q : Nat) (c : ScafScript) : List (Nat × Nat) :=
  if c.present then spansFrom p q 0 (c.cuts ++ [c.T]) else []

/-! ### the whole script -/

/-- one piece placed in the map: piece number `k` of input scaffold number `sc`, reversed or not -/
structure Placed where
  sc : Nat
  k : Nat
  minus : Bool := false
  deriving DecidableEq, Repr, Inhabited

/-- one Pretext scaffold: its pieces in order, painted or not -/
structure Group where
  items : List Placed
  painted : Bool := false
  deriving DecidableEq, Repr, Inhabited

/-- the 100 bp separator PretextView's AGP export writes between the pieces of a scaffold -/
def pretextGap : Gap := { length := 100, gapType := ['s','c','a','f','f','o','l','d'] }

structure Script where
  p : Nat
  q : Nat
  scafs : List ScafScript          -- one per input scaffold, in input order
  groups : List Group              -- the Pretext scaffolds `Scaffold_1`, `Scaffold_2`, …
  gap : Gap := pretextGap
  deriving DecidableEq, Repr, Inhabited

/-- identifiers `(scaffold number, piece number)` of all pieces the cuts produce -/
def pieceIds (p q : Nat) (scafs : List ScafScript) : List (Nat × Nat) :=
  scafs.zipIdx.flatMap (fun x => (List.range (x.1.spans p q).length).map (fun k => (x.2, k)))

def Script.ids (s : Script) : List (Nat × Nat) := pieceIds s.p s.q s.scafs

/-- the placed pieces, in map order -/
def Script.placed (s : Script) : List Placed := s.groups.flatMap (·.items)

/-- length of an input scaffold as the script sees it -/
def scafLen (sc : Scaffold) : Nat := sc.length.toNat

/-- **well-formed script for `input`**: `β = p/q ≥ 1`; one `ScafScript` per input scaffold, each obeying the generator's
    rule; no empty Pretext scaffold; the placed pieces are a permutation of all pieces (each piece exactly once). -/
def wfScript (input : List Scaffold) (s : Script) : Bool :=
  decide (1 ≤ s.q) && decide (s.q ≤ s.p) && s.scafs.length == input.length &&
  (input.zip s.scafs).all (fun x => x.2.wf s.p s.q (scafLen x.1)) &&
  s.groups.all (fun g => !g.items.isEmpty) &&
  (s.placed.map (fun x => (x.sc, x.k))).isPerm s.ids

/-! ### the AGP the remapper sees -/

def sScaffold_ : Str := ['S','c','a','f','f','o','l','d','_']

/-- `Scaffold_<n>` -/
def scaffoldName (n : Nat) : Str := sScaffold_ ++ natToStr n

/-- the Pretext fragment row of a placed piece (`none` for an identifier that names no piece — never in a well-formed
    script) -/
def pieceFrag (input : List Scaffold) (s : Script) (painted : Bool) (x : Placed) : Option Fragment :=
  match input[x.sc]?, s.scafs[x.sc]? with
  | some sc, some c =>
    match (c.spans s.p s.q)[x.k]? with
    | some ab =>
      some { oid := 0, name := sc.name, start := (ab.1 : Int), stop := (ab.2 : Int),
             strand := if x.minus then -1 else 1, tags := if painted then [sPainted] else [] }
    | none => none
  | _, _ => none

/-- fragment rows separated by the gap row -/
def joinRows (gap : Gap) : List Fragment → List Row
  | [] => []
  | [f] => [.frag f]
  | f :: g :: r => .frag f :: .gap gap :: joinRows gap (g :: r)

def groupFrags (input : List Scaffold) (s : Script) (g : Group) : List Fragment :=
  g.items.filterMap (pieceFrag input s g.painted)

/-- **the Pretext map of a script**: one scaffold `Scaffold_<n>` per group, `n = 1, 2, …` -/
def ptxOf (input : List Scaffold) (s : Script) : List Scaffold :=
  s.groups.zipIdx.map (fun x =>
    ({ name := scaffoldName (x.2 + 1), rows := joinRows s.gap (groupFrags input s x.1) } : Scaffold))

/-! ### the null script: no cuts, identity permutation, forward, one piece per Pretext scaffold -/

/-- `Ts[i] = some T`: input scaffold `i` is shown whole with `T` texels; `none`: it is absent -/
def nullScafs (Ts : List (Option Nat)) : List ScafScript :=
  Ts.map (fun t => match t with
    | some T => { present := true, T := T, cuts := [] }
    | none => { present := false, T := 0, cuts := [] })

/-- indices of the present scaffolds, ascending -/
def presentIdx (Ts : List (Option Nat)) : List Nat :=
  Ts.zipIdx.filterMap (fun x => if x.1.isSome then some x.2 else none)

/-- `null_script` of the harness -/
def nullScript (p q : Nat) (Ts : List (Option Nat)) (painted : Bool) : Script :=
  { p := p, q := q, scafs := nullScafs Ts,
    groups := (presentIdx Ts).map (fun i => { items := [{ sc := i, k := 0, minus := false }], painted := painted }) }

end AgpTpf.Pretext
