/-
  CLI glue of pretext-to-asm that the properties name explicitly: `name_assemblies` / `merge_assemblies`
  (assembly key → output file name, C09) and `write_assemblies`' file stem, plus the `.fai` row writer/reader
  (`FastaInfo.fai_row`, `FastaIndex.load_index`) used for warm = cold (C15/C17).
-/
import AgpTpf.Model.Remap
import AgpTpf.Model.Fasta
import AgpTpf.Gen.Cli
namespace AgpTpf

structure NamedAsm where
  key : Option Str          -- key in the returned dict (`None` stays `None`)
  name : Str                -- `asm.name` after renaming
  curated : Bool
  scaffolds : List Scaffold
  deriving Repr, DecidableEq

def dotJoin (parts : List Str) : Str := joinWith '.' parts

/-- `name_assemblies(asm_dict, root, version)`; keys that are `None` where the code calls `.lower()` raise AttributeError -/
def nameAssemblies (asms : List OutAsm) (root version : Str) : R (List NamedAsm) :=
  let hasKey (k : Option Str) := asms.any (fun a => a.key = k)
  let lowerS (k : Option Str) : R Str := match k with
    | some s => .ok (lowerStr s ++ ['s'])
    | none => .error .attribute
  if hasKey (some sPrimary) then do
    let named ← asms.filterMapM (fun a => do
      if a.key = some sPrimary then
        pure (some ({ key := a.key, name := dotJoin [root, version, "primary".toList], curated := a.curated, scaffolds := a.scaffolds } : NamedAsm))
      else if a.curated then pure none
      else do
        let suffix ← lowerS a.key
        pure (some { key := a.key, name := dotJoin [root, version, suffix], curated := a.curated, scaffolds := a.scaffolds }))
    let others := asms.filter (fun a => a.key ≠ some sPrimary ∧ a.curated)
    if others.isEmpty then pure named
    else pure (named ++ [{ key := some "all_haplotigs".toList, name := dotJoin [root, version, "all_haplotigs".toList], curated := true,
                           scaffolds := others.flatMap (·.scaffolds) }])
  else if hasKey none then
    asms.mapM (fun a =>
      match a.key with
      | none => pure { key := none, name := dotJoin [root, version, "primary".toList], curated := a.curated, scaffolds := a.scaffolds }
      | some k =>
        if k = sHaplotig then
          pure { key := some "additional_haplotigs".toList, name := dotJoin [root, version, "additional_haplotigs".toList], curated := true,
                 scaffolds := a.scaffolds }
        else pure { key := a.key, name := dotJoin [root, version, lowerStr k ++ ['s']], curated := a.curated, scaffolds := a.scaffolds })
  else
    asms.mapM (fun a =>
      match a.key with
      | none => .error .attribute
      | some k =>
        if a.curated then pure { key := a.key, name := dotJoin [root, lowerStr k, version, "primary".toList], curated := true, scaffolds := a.scaffolds }
        else pure { key := a.key, name := dotJoin [root, version, lowerStr k ++ ['s']], curated := false, scaffolds := a.scaffolds })

/-- file name written by `write_assemblies`: `{asm.name}{".curated" if curated}{suffix}` -/
def outputFileName (a : NamedAsm) (suffix : Str) : Str :=
  a.name ++ (if a.curated then ".curated".toList else []) ++ suffix

/-- `FastaInfo.fai_row(name)` -/
def faiRow (e : Str × FastaInfo) : Str :=
  joinWith '\t' [e.1, intToStr e.2.length, intToStr e.2.fileOffset, intToStr e.2.rpl, intToStr e.2.mll] ++ ['\n']

/-- `line.split()` — whitespace-separated words -/
def splitWords : Str → List Str
  | [] => []
  | s =>
    let t := s.dropWhile isSpace
    if t.isEmpty then [] else
      let w := t.takeWhile (fun c => !isSpace c)
      let rest := t.dropWhile (fun c => !isSpace c)
      if h : rest.length < s.length then w :: splitWords rest else [w]
termination_by s => s.length

/-- `line.rstrip("\n").split("\t")` — how `load_index` breaks a `.fai` line into columns since fix f770cde
    (`Gen.faiLineSplitExpr` is the expression in the source; `splitWords` above is what it was before) -/
def splitFaiLine (line : Str) : List Str := splitOnChar '\t' (rstripBy (· == '\n') line)

/-- one line of `load_index`: exactly five tab-separated fields, the last four integers (`ValueError` otherwise) -/
def loadIndexLine (line : Str) : R (Str × FastaInfo) :=
  match splitFaiLine line with
  | [n, a, b, c, d] => do
    let l ← pyInt a; let o ← pyInt b; let r ← pyInt c; let m ← pyInt d
    pure (n, { length := l, fileOffset := o, rpl := r, mll := m })
  | _ => .error .value

/-- `load_index`: a dict, later duplicates overwrite -/
def loadIndex (lines : List Str) : R (List (Str × FastaInfo)) :=
  lines.foldlM (fun acc l => do let e ← loadIndexLine l; pure (dSet acc e.1 e.2)) []

end AgpTpf
