/-
  Run-time support (T1c) for the report kernels: text operations the generated code of `Gen/Imp3.lean` names.  Trusted base, with the other
  `Model/PyRt*.lean` files and the translator.  Core Lean only.
-/
import AgpTpf.Model.PyRtPhase2
namespace AgpTpf.PyRt
open AgpTpf

/-- `s.replace(old, new, 1)`: the first occurrence only; an empty `old` matches at the very start -/
def strReplace1 (s old new : Str) : Str :=
  if old.isEmpty then new ++ s else replaceFirst old new s

/-- `next(it)` for an iterator over a list, as the list of the items still to come: `none` = StopIteration -/
def iterNext {α : Type} : List α → Option (α × List α)
  | [] => none
  | x :: xs => some (x, xs)

/-- `re.match(r"([A-Za-z]+\d+)_", name)` → group 1 (ASCII letters, then digits, then an underscore; both runs are maximal, so no
    backtracking can succeed where this fails) -/
def asmPrefixMatch (name : Str) : Option Str :=
  let l := name.takeWhile isAlpha
  let r1 := name.dropWhile isAlpha
  let d := r1.takeWhile isDigit
  match r1.dropWhile isDigit with
  | '_' :: _ => if l.isEmpty ∨ d.isEmpty then none else some (l ++ d)
  | _ => none

/-- a binary file opened for reading: its bytes and the position.  `seek` to a negative position raises OSError (`Err.other`). -/
structure BinFile where
  data : List Nat
  pos : Nat := 0
  deriving Repr, DecidableEq

def BinFile.seek (f : BinFile) (p : Int) : R BinFile := if p < 0 then .error .other else .ok { f with pos := p.toNat }
/-- `fh.seek(d, 1)`: relative to the current position -/
def BinFile.seekRel (f : BinFile) (d : Int) : R BinFile := BinFile.seek f ((f.pos : Int) + d)
/-- `fh.read(n)`: at most `n` bytes from the position (`n < 0`: to the end), the position moves behind them -/
def BinFile.read (f : BinFile) (n : Int) : List Nat × BinFile :=
  let out := if n < 0 then f.data.drop f.pos else (f.data.drop f.pos).take n.toNat
  (out, { f with pos := f.pos + out.length })

/-- `a, b, …  = xs` with `n` names: ValueError unless `xs` has exactly `n` items -/
def unpackN {α : Type} (n : Nat) (xs : List α) : R (List α) := if xs.length = n then .ok xs else .error .value

end AgpTpf.PyRt
