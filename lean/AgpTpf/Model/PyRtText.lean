/-
  Run-time support (T1c) for the report kernels: text operations the generated code of `Gen/Imp3.lean` names.  Trusted base, with the other
  `Model/PyRt*.lean` files and the translator.  Core Lean only.
-/
import AgpTpf.Model.PyRtPhase2
namespace AgpTpf.PyRt
open AgpTpf

/-- `s.replace(old, new, 1)`: the first occurrence only; an empty `old` matches at the very start -/
def strReplace1 (s old new : Str) : Str :=
  if old.isEmpty then new ++ s else replaceFirst old new s

/-- `next(it)` for an iterator over a list, as the list of the items still to come: `none` = StopIteration -/
def iterNext {α : Type} : List α → Option (α × List α)
  | [] => none
  | x :: xs => some (x, xs)

/-- `re.match(r"([A-Za-z]+\d+)_", name)` → group 1 (ASCII letters, then digits, then an underscore; both runs are maximal, so no
    backtracking can succeed where this fails) -/
def asmPrefixMatch (name : Str) : Option Str :=
  let l := name.takeWhile isAlpha
  let r1 := name.dropWhile isAlpha
  let d := r1.takeWhile isDigit
  match r1.dropWhile isDigit with
  | '_' :: _ => if l.isEmpty ∨ d.isEmpty then none else some (l ++ d)
  | _ => none

end AgpTpf.PyRt
