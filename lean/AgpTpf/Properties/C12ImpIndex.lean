/-
  C12 / T1c — the model's `buildIndex` IS the index the source's `IndexedAssembly.add_scaffold`
  (assembly/indexed_assembly.py) stores, as translated by `harness/translate_imp.py` into
  `Gen.Imp.IndexedAssembly_add_scaffold`.  Loop lemmas: Proofs/ImpSmall.lean.
-/
import AgpTpf.Gen.Imp
import AgpTpf.Proofs.ImpSmall
namespace AgpTpf.C12
open AgpTpf

/-- `add_scaffold` stores, under the scaffold's name, the scaffold and the cumulative-end index the model calls `buildIndex`; a name that is
    already present raises ValueError -/
theorem add_scaffold_is_source (d : List (Str × Scaffold)) (ix : List (Str × List Int)) (sc : Scaffold) :
    Gen.Imp.IndexedAssembly_add_scaffold d ix sc =
      if (dGet? d sc.name).isSome then .error .value else .ok (dSet d sc.name sc, dSet ix sc.name (buildIndex sc.rows)) := by
  unfold Gen.Imp.IndexedAssembly_add_scaffold
  split
  · rfl
  · dsimp only
    rw [ImpSmall.forIn_pure ImpSmall.idxStep, ImpSmall.foldl_idxStep]
    · simp [bind, Except.bind, buildIndex]
    · intro row s; rfl

/-- the generated function runs: two fragments and a gap are indexed by their cumulative ends … -/
example :
    Gen.Imp.IndexedAssembly_add_scaffold [] []
      { name := ['s'], rows := [.frag { name := ['c'], start := 1, stop := 5, strand := 1 }, .gap { length := 200, gapType := ['s'] },
                               .frag { name := ['d'], start := 11, stop := 20, strand := -1 }] }
    = .ok ([(['s'], { name := ['s'], rows := [.frag { name := ['c'], start := 1, stop := 5, strand := 1 },
                                            .gap { length := 200, gapType := ['s'] },
                                            .frag { name := ['d'], start := 11, stop := 20, strand := -1 }] })],
           [(['s'], [5, 205, 215])]) := by rfl

/-- … and a second scaffold of the same name is refused -/
example :
    Gen.Imp.IndexedAssembly_add_scaffold [(['s'], { name := ['s'] })] [(['s'], [])] { name := ['s'] } = .error .value := by rfl

end AgpTpf.C12
