/-
  C13 / C03 / C14 over the SOURCE (T1c): the chunk iterators of `fasta/index.py` (`get_gap_iter`, `fwd_chunks`, `rev_chunks`,
  `get_info`, `get_sequence_iter`) and `fasta/simple.py` (`reverse_complement`, `revcomp_bytes_io`), as translated from the current
  /repo source (`Gen.Imp.*`; a generator is translated to the LIST of values it yields), ARE the model's `gapChunkList` /
  `fwdChunkList` / `revChunkList` / `getInfo` / `reverseComplement` — and `FastaStream.write_scaffold`, as translated, run with these
  translated iterators, writes the model's bytes (`write_scaffold_with_source_iterators`).

  About `buffer_size`.  Items 3–6 carry `1 ≤ bs` as the task states them.  The equalities themselves hold for every `bs ≠ 0`
  (the `…_any_bs` theorems, from which the stated ones follow): there translated source and model do the same integer arithmetic.
  What `1 ≤ bs` excludes:
    * `bs = 0`: Python raises `ZeroDivisionError` (`length // max_length`, `(end - start) // max_length`), and so does the translated
      source: a `//` with a non-literal divisor is translated to the CHECKED `PyRt.floorDiv` (the `…_zero_buffer` theorems:
      `.error .zeroDiv`, before anything is yielded).  The MODEL does not: it divides with the total `pyDiv` (`pyDiv _ 0 = 0`,
      `Int.fdiv`) and yields one chunk instead (an empty one for a gap; `sequence_bytes(info, start, start - 1)` for a fragment).
      So at `bs = 0` source and model DIFFER (examples below), every equality with the model in this file carries `bs ≠ 0`
      (or `1 ≤ bs`), and the model's `streamScaffold` says nothing about what Python does with `buffer_size = 0`.
    * `bs < 0`: no exception in Python; both sides follow Python: `1 + length // bs ≤ 0` chunks for a gap longer than `-bs`
      (the gap silently vanishes from the output), see the examples.
-/
import AgpTpf.Proofs.ImpFasta
import AgpTpf.Properties.C03Imp
import AgpTpf.Proofs.C03Example
namespace AgpTpf.C13
open AgpTpf

/-! ## 1. `reverse_complement`, `revcomp_bytes_io` -/

theorem reverse_complement_is_source (s : Bytes) : Gen.Imp.reverse_complement_imp s = .ok (reverseComplement s) := rfl

example : Gen.Imp.reverse_complement_imp [65, 67, 103, 78, 45] = .ok [45, 78, 99, 71, 84] := by rfl

/-- `revcomp_bytes_io(seq)`: a NEW `BytesIO` (cursor 0) holding the reverse complement of `seq.getvalue()` — the whole contents,
    wherever the cursor of `seq` stands -/
theorem revcomp_bytes_io_is_source (c : PyRt.BytesIO) :
    Gen.Imp.revcomp_bytes_io_imp c reverseComplement = .ok { data := reverseComplement c.data, pos := 0 } := rfl

example : Gen.Imp.revcomp_bytes_io_imp { data := [65, 67, 103, 78], pos := 4 } reverseComplement
    = .ok { data := [78, 99, 71, 84], pos := 0 } := by rfl

/-! ## 2. `get_info` -/

/-- `self.index.get(name)`, `ValueError` when absent (`if not info`: a `FastaInfo` object is always truthy) -/
theorem get_info_is_source (idx : List (Str × FastaInfo)) (name : Str) :
    Gen.Imp.FastaIndex_get_info name idx = getInfo idx name := by
  unfold Gen.Imp.FastaIndex_get_info getInfo
  cases dGet? idx name <;> rfl

example : Gen.Imp.FastaIndex_get_info "b".toList
    [("a".toList, { length := 8, fileOffset := 3, rpl := 6, mll := 7 }),
     ("b".toList, { length := 2, fileOffset := 16, rpl := 2, mll := 3 })]
    = .ok { length := 2, fileOffset := 16, rpl := 2, mll := 3 } := by rfl
example : Gen.Imp.FastaIndex_get_info "zz".toList [("a".toList, { length := 8, fileOffset := 3, rpl := 6, mll := 7 })]
    = .error .value := by rfl

/-! ## 3. `get_gap_iter` -/

/-- for every `buffer_size` but 0 (see the header for `bs ≤ 0`) -/
theorem get_gap_iter_is_source_any_bs (g : Gap) (c : Nat) (bs : Int) (hbs : bs ≠ 0) :
    Gen.Imp.FastaIndex_get_gap_iter_imp g [c] bs = .ok (C03.modelGapIter bs (.gap g) [c]) := by
  unfold Gen.Imp.FastaIndex_get_gap_iter_imp C03.modelGapIter gapChunkList
  dsimp only
  simp only [PyRt.floorDiv, if_neg hbs, ImpFasta.R_ok_bind]
  rw [ImpFasta.rangeUp_zero, List.map_map, ← ImpFasta.mapM_ok]
  apply ImpFasta.generator_eq_mapM
  · first | rfl | (congr 1; omega)
  · intro k _ acc
    simp only [Function.comp, List.headD_cons]
    exact ImpFasta.yield_gap_congr acc c (by omega)
  · intro ys; rfl

/-- `buffer_size = 0`: `ZeroDivisionError` (`length // max_length`), as in Python, before the first chunk -/
theorem get_gap_iter_zero_buffer (g : Gap) (c : Nat) :
    Gen.Imp.FastaIndex_get_gap_iter_imp g [c] 0 = .error .zeroDiv := by
  unfold Gen.Imp.FastaIndex_get_gap_iter_imp
  simp only [PyRt.floorDiv, if_true]
  rfl

/-- `get_gap_iter(gap, gap_character)` with a ONE-byte gap character (what `FastaStream` passes: `b"N"`) yields the model's chunks:
    one `BytesIO` of `n` copies of the character per entry `n` of `gapChunkList gap.length buffer_size`; it never raises
    (for `buffer_size = 0` it does: `get_gap_iter_zero_buffer`).
    * A gap character of another length is where source and model part (the model replicates the FIRST byte, `b"N"` if there is
      none; the source repeats the whole byte string): see the two examples below.  `FastaStream.gap_character` is a class
      attribute fixed to `b"N"`, so `write_scaffold` never gets there. -/
theorem get_gap_iter_is_source (g : Gap) (c : Nat) (bs : Int) (hbs : 1 ≤ bs) :
    Gen.Imp.FastaIndex_get_gap_iter_imp g [c] bs = .ok (C03.modelGapIter bs (.gap g) [c]) :=
  get_gap_iter_is_source_any_bs g c bs (by omega)

example : Gen.Imp.FastaIndex_get_gap_iter_imp { length := 5, gapType := "scaffold".toList } [78] 3
    = .ok [{ data := [78, 78, 78] }, { data := [78, 78] }] := by rfl
/-- a gap whose length is a multiple of `buffer_size` ends in an EMPTY chunk (source and model alike) -/
example : Gen.Imp.FastaIndex_get_gap_iter_imp { length := 6, gapType := "scaffold".toList } [78] 3
    = .ok [{ data := [78, 78, 78] }, { data := [78, 78, 78] }, { data := [] }] := by rfl
/-- gap character of length 2 / 0: the source repeats the string, the model its first byte / `N` (FALSE without `[c]`) -/
example : Gen.Imp.FastaIndex_get_gap_iter_imp { length := 2, gapType := "scaffold".toList } [78, 45] 3
      = .ok [{ data := [78, 45, 78, 45] }]
    ∧ C03.modelGapIter 3 (.gap { length := 2, gapType := "scaffold".toList }) [78, 45] = [{ data := [78, 78] }] := ⟨rfl, by decide +kernel⟩
example : Gen.Imp.FastaIndex_get_gap_iter_imp { length := 2, gapType := "scaffold".toList } [] 3 = .ok [{ data := [] }]
    ∧ C03.modelGapIter 3 (.gap { length := 2, gapType := "scaffold".toList }) [] = [{ data := [78, 78] }] := ⟨rfl, by decide +kernel⟩
/-- `bs = 0`: `ZeroDivisionError` in the source (as Python), one empty chunk in the model — they DIFFER (FALSE without `bs ≠ 0`);
    `bs = -3`: no chunk at all on both sides (as Python) -/
example : Gen.Imp.FastaIndex_get_gap_iter_imp { length := 5, gapType := "scaffold".toList } [78] 0 = .error .zeroDiv
    ∧ C03.modelGapIter 0 (.gap { length := 5, gapType := "scaffold".toList }) [78] = [{ data := [] }] := ⟨rfl, by decide +kernel⟩
example : Gen.Imp.FastaIndex_get_gap_iter_imp { length := 5, gapType := "scaffold".toList } [78] (-3) = .ok []
    ∧ C03.modelGapIter (-3) (.gap { length := 5, gapType := "scaffold".toList }) [78] = [] := ⟨rfl, by decide +kernel⟩

/-! ## 4. `fwd_chunks`, `rev_chunks` -/

/-- `fwd_chunks` for ANY `self.sequence_bytes`: one call per entry `(chunk_start, chunk_end)` of the model's `fwdChunkList`, in that
    order, results yielded as they are; the first call that raises is the exception (a generator: the chunks before it have been
    handed out, but the list — and the `for` loop consuming it — has no result).  For every `buffer_size` but 0. -/
theorem fwd_chunks_is_source_any_bs (info : FastaInfo) (start stop bs : Int) (sb : FastaInfo → Int → Int → R PyRt.BytesIO)
    (hbs : bs ≠ 0) :
    Gen.Imp.FastaIndex_fwd_chunks_imp info start stop bs sb = (fwdChunkList start stop bs).mapM (fun b => sb info b.1 b.2) := by
  unfold Gen.Imp.FastaIndex_fwd_chunks_imp fwdChunkList
  dsimp only
  simp only [PyRt.floorDiv, if_neg hbs, ImpFasta.R_ok_bind]
  rw [ImpFasta.rangeUp_zero, ImpFasta.mapM_map]
  apply ImpFasta.generator_eq_mapM
  · first | rfl | (congr 1; omega)
  · intro k _ acc
    refine ImpFasta.yield_call_congr (sb info) (fun y => PyRt.Ctl.next (acc ++ [y])) ?_ ?_ <;> simp only [chunkBounds] <;> omega
  · intro ys; rfl

/-- `buffer_size = 0`: `ZeroDivisionError` (`(end - start) // max_length`), as in Python, before `sequence_bytes` is called at all -/
theorem fwd_chunks_zero_buffer (info : FastaInfo) (start stop : Int) (sb : FastaInfo → Int → Int → R PyRt.BytesIO) :
    Gen.Imp.FastaIndex_fwd_chunks_imp info start stop 0 sb = .error .zeroDiv := by
  unfold Gen.Imp.FastaIndex_fwd_chunks_imp
  simp only [PyRt.floorDiv, if_true]
  rfl

/-- `rev_chunks` for ANY `self.sequence_bytes` and `revcomp_bytes_io`: one call per entry of `revChunkList` (last chunk first),
    each result passed through `revcomp_bytes_io`.  For every `buffer_size` but 0. -/
theorem rev_chunks_is_source_any_bs (info : FastaInfo) (start stop bs : Int) (sb : FastaInfo → Int → Int → R PyRt.BytesIO)
    (rc : PyRt.BytesIO → PyRt.BytesIO) (hbs : bs ≠ 0) :
    Gen.Imp.FastaIndex_rev_chunks_imp info start stop bs sb rc =
      (revChunkList start stop bs).mapM (fun b => (sb info b.1 b.2).map rc) := by
  unfold Gen.Imp.FastaIndex_rev_chunks_imp revChunkList
  dsimp only
  simp only [PyRt.floorDiv, if_neg hbs, ImpFasta.R_ok_bind]
  rw [ImpFasta.rangeDown_neg_one]
  split
  · rfl
  · rw [ImpFasta.mapM_map]
    apply ImpFasta.generator_eq_mapM
    · rfl
    · intro k _ acc
      refine ImpFasta.yield_call_congr' (sb info) rc (fun y => PyRt.Ctl.next (acc ++ [y])) ?_ ?_
        <;> simp only [chunkBounds] <;> omega
    · intro ys; rfl

/-- `buffer_size = 0`: `ZeroDivisionError`, as in Python, before `sequence_bytes` is called at all -/
theorem rev_chunks_zero_buffer (info : FastaInfo) (start stop : Int) (sb : FastaInfo → Int → Int → R PyRt.BytesIO)
    (rc : PyRt.BytesIO → PyRt.BytesIO) :
    Gen.Imp.FastaIndex_rev_chunks_imp info start stop 0 sb rc = .error .zeroDiv := by
  unfold Gen.Imp.FastaIndex_rev_chunks_imp
  simp only [PyRt.floorDiv, if_true]
  rfl

/-- `self.sequence_bytes` as the model has it (`sequenceBytes`: same bytes, same exception), returning a `BytesIO` whose cursor
    stands at `p data`.  In Python the object was only written to, so its cursor is at the end (`p = List.length`); nothing below
    depends on `p` — `write_scaffold` does `chunk.seek(0)`, `revcomp_bytes_io` uses `getvalue()`. -/
def srcSequenceBytes (file : Bytes) (p : Bytes → Nat) : FastaInfo → Int → Int → R PyRt.BytesIO :=
  fun info s e => (sequenceBytes file info s e).map (fun rl => ({ data := rl.data, pos := p rl.data } : PyRt.BytesIO))

/-- a translated function that cannot fail, used where the caller's parameter is a plain function -/
def okOr {α : Type} (d : α) : R α → α
  | .ok a => a
  | .error _ => d

/-- `reverse_complement` / `revcomp_bytes_io` as TRANSLATED, plugged into each other (both are always `.ok`: item 1) -/
def srcReverseComplement (s : Bytes) : Bytes := okOr s (Gen.Imp.reverse_complement_imp s)
def srcRevcompBytesIO (c : PyRt.BytesIO) : PyRt.BytesIO := okOr c (Gen.Imp.revcomp_bytes_io_imp c srcReverseComplement)

theorem srcReverseComplement_eq : srcReverseComplement = reverseComplement := rfl
theorem srcRevcompBytesIO_eq (c : PyRt.BytesIO) : srcRevcompBytesIO c = { data := reverseComplement c.data, pos := 0 } := rfl

/-- `fwd_chunks` over the model's `sequence_bytes`: the requests are `fwdChunkList`, the results the bytes read (cursor `p`) -/
theorem fwd_chunks_is_source (file : Bytes) (p : Bytes → Nat) (info : FastaInfo) (start stop bs : Int) (hbs : 1 ≤ bs) :
    Gen.Imp.FastaIndex_fwd_chunks_imp info start stop bs (srcSequenceBytes file p) =
      (fwdChunkList start stop bs).mapM (fun b =>
        (sequenceBytes file info b.1 b.2).map (fun rl => ({ data := rl.data, pos := p rl.data } : PyRt.BytesIO))) :=
  fwd_chunks_is_source_any_bs info start stop bs _ (by omega)

/-- `rev_chunks` over the model's `sequence_bytes` and the translated `revcomp_bytes_io` ∘ `reverse_complement`: the requests are
    `revChunkList`, the results the reverse complement of the bytes read, in fresh `BytesIO`s (cursor 0 whatever `p`) -/
theorem rev_chunks_is_source (file : Bytes) (p : Bytes → Nat) (info : FastaInfo) (start stop bs : Int) (hbs : 1 ≤ bs) :
    Gen.Imp.FastaIndex_rev_chunks_imp info start stop bs (srcSequenceBytes file p) srcRevcompBytesIO =
      (revChunkList start stop bs).mapM (fun b =>
        (sequenceBytes file info b.1 b.2).map (fun rl => ({ data := reverseComplement rl.data, pos := 0 } : PyRt.BytesIO))) := by
  rw [rev_chunks_is_source_any_bs _ _ _ _ _ _ (by omega)]
  apply ImpFasta.mapM_congr
  intro b _
  simp only [srcSequenceBytes]
  cases sequenceBytes file info b.1 b.2 <;> rfl

/-! Examples: the file `>a\nACGTNN\nAC\n` (index entry: offset 3, 6 residues per line, 7 bytes per line), `buffer_size = 3`,
    residues 3..8 = `GTNNAC`; cursor at the end of each `sequence_bytes` result, as in Python. -/

example : Gen.Imp.FastaIndex_fwd_chunks_imp { length := 8, fileOffset := 3, rpl := 6, mll := 7 } 3 8 3
    (srcSequenceBytes [62, 97, 10, 65, 67, 71, 84, 78, 78, 10, 65, 67, 10] List.length)
    = .ok [{ data := [71, 84, 78], pos := 3 }, { data := [78, 65, 67], pos := 3 }] := by rfl
example : Gen.Imp.FastaIndex_rev_chunks_imp { length := 8, fileOffset := 3, rpl := 6, mll := 7 } 3 8 3
    (srcSequenceBytes [62, 97, 10, 65, 67, 71, 84, 78, 78, 10, 65, 67, 10] List.length) srcRevcompBytesIO
    = .ok [{ data := [71, 84, 78], pos := 0 }, { data := [78, 65, 67], pos := 0 }] := by rfl
/-- the requests: with a `sequence_bytes` that records its arguments in the result -/
example : Gen.Imp.FastaIndex_fwd_chunks_imp default 3 8 3 (fun _ s e => .ok { data := [s.toNat, e.toNat] })
    = .ok [{ data := [3, 5] }, { data := [6, 8] }] := by rfl
example : Gen.Imp.FastaIndex_rev_chunks_imp default 3 9 3 (fun _ s e => .ok { data := [s.toNat, e.toNat] }) id
    = .ok [{ data := [9, 9] }, { data := [6, 8] }, { data := [3, 5] }] := by rfl
/-- an exception of `sequence_bytes` (`rpl = 0`: `ZeroDivisionError`) is the result -/
example : Gen.Imp.FastaIndex_fwd_chunks_imp { length := 8, fileOffset := 3, rpl := 0, mll := 7 } 3 8 3
    (srcSequenceBytes [62, 97, 10, 65, 67, 71, 84, 78, 78, 10, 65, 67, 10] List.length) = .error .zeroDiv := by rfl
/-- `bs = 0`: `ZeroDivisionError` in the source (as Python) although `sequence_bytes` would succeed; the model's request lists
    hold the one request `(start, start - 1)` — they DIFFER (FALSE without `bs ≠ 0`); `bs = -3` (a `bs ≠ 0`): equal, no request -/
example : Gen.Imp.FastaIndex_fwd_chunks_imp default 3 8 0 (fun _ s e => .ok { data := [s.toNat, e.toNat] }) = .error .zeroDiv
    ∧ Gen.Imp.FastaIndex_rev_chunks_imp default 3 8 0 (fun _ s e => .ok { data := [s.toNat, e.toNat] }) id = .error .zeroDiv
    ∧ fwdChunkList 3 8 0 = [(3, 2)] ∧ revChunkList 3 8 0 = [(3, 2)] := ⟨rfl, rfl, by decide +kernel, by decide +kernel⟩
example : Gen.Imp.FastaIndex_fwd_chunks_imp default 3 8 (-3) (fun _ s e => .ok { data := [s.toNat, e.toNat] }) = .ok []
    ∧ fwdChunkList 3 8 (-3) = [] := ⟨rfl, by decide +kernel⟩

/-! ## 5. `get_sequence_iter`: the composition of the translated pieces -/

/-- `fai.get_sequence_iter(row)` built from TRANSLATED functions only: the translated `get_sequence_iter`, whose `self.get_info`,
    `self.rev_chunks`, `self.fwd_chunks` are the translated ones, whose `revcomp_bytes_io` / `reverse_complement` are the
    translated ones; `self.sequence_bytes` is the model's (tied to the source's seek/read plan by `Kernels.sequence_bytes_plan_eq`).
    On a Gap row (never passed by `write_scaffold`, which tests `isinstance(row, Gap)`): `AttributeError` (`frag.name`), which is
    also what `C03.modelSeqIter` says. -/
def srcSeqIter (file : Bytes) (idx : List (Str × FastaInfo)) (bs : Int) (p : Bytes → Nat) (row : Row) : R (List PyRt.BytesIO) :=
  match row with
  | .frag f =>
    Gen.Imp.FastaIndex_get_sequence_iter f (fun name => Gen.Imp.FastaIndex_get_info name idx)
      (fun info s e => Gen.Imp.FastaIndex_rev_chunks_imp info s e bs (srcSequenceBytes file p) srcRevcompBytesIO)
      (fun info s e => Gen.Imp.FastaIndex_fwd_chunks_imp info s e bs (srcSequenceBytes file p))
  | .gap _ => .error .attribute

/-- `fai.get_gap_iter(row, gap_character)` from the translated `get_gap_iter` (which never raises for `bs ≠ 0`: item 3).  On a
    Fragment row (never passed by `write_scaffold`): no chunks, as `C03.modelGapIter` — Python would go on with `frag.length`; the
    value is irrelevant for every statement below, the writer does not call it.
    `bs = 0`: the translated `get_gap_iter` raises `ZeroDivisionError` (`get_gap_iter_zero_buffer`); the translated writer takes
    its gap iterator as a TOTAL function (`Row → List Nat → List BytesIO`), so that exception cannot be passed on here (`okOr`
    gives no chunks).  Every statement below about `srcGapIter` therefore carries `bs ≠ 0` (or `1 ≤ bs`). -/
def srcGapIter (bs : Int) (row : Row) (gc : List Nat) : List PyRt.BytesIO :=
  match row with
  | .gap g => okOr [] (Gen.Imp.FastaIndex_get_gap_iter_imp g gc bs)
  | .frag _ => []

/-- for every `buffer_size` but 0 and every cursor convention `p`: same exception, same chunk CONTENTS in the same order.
    FALSE for `bs = 0` (example below): the source raises `ZeroDivisionError`, the model yields one chunk. -/
theorem get_sequence_iter_is_source_any_bs (file : Bytes) (idx : List (Str × FastaInfo)) (bs : Int) (p : Bytes → Nat)
    (f : Fragment) (hbs : bs ≠ 0) :
    (srcSeqIter file idx bs p (.frag f)).map (List.map (·.data))
      = (C03.modelSeqIter file idx bs (.frag f)).map (List.map (·.data)) := by
  have hfwd := fun info s e sb => fwd_chunks_is_source_any_bs info s e bs sb hbs
  have hrev := fun info s e sb rc => rev_chunks_is_source_any_bs info s e bs sb rc hbs
  simp only [srcSeqIter, Gen.Imp.FastaIndex_get_sequence_iter, C03.modelSeqIter, PyRt.asFrag, get_info_is_source,
    hfwd, hrev, ImpFasta.R_ok_bind, ImpFasta.R_bind_ok]
  cases getInfo idx f.name with
  | error e => rfl
  | ok info =>
    simp only [ImpFasta.R_ok_bind]
    by_cases hs : f.strand = -1
    · simp only [hs, decide_true, if_true]
      rw [ImpFasta.mapM_map_post, ImpFasta.mapM_map_post]
      apply ImpFasta.mapM_congr
      intro b _
      simp only [srcSequenceBytes]
      cases sequenceBytes file info b.1 b.2 <;> rfl
    · simp only [hs, decide_false, if_false, Bool.false_eq_true]
      rw [ImpFasta.mapM_map_post, ImpFasta.mapM_map_post]
      apply ImpFasta.mapM_congr
      intro b _
      simp only [srcSequenceBytes]
      cases sequenceBytes file info b.1 b.2 <;> rfl

/-- **`get_sequence_iter` as composed from the translated source = the model's `modelSeqIter`**, on the contents of the chunks.
    Equality of the `BytesIO` objects themselves is FALSE for the cursor Python leaves (`p = List.length`) on the forward strand:
    `sequence_bytes` returns a `BytesIO` it has just written (cursor at the end), `modelSeqIter` builds `{ data := …, pos := 0 }`
    (example below); on the minus strand `revcomp_bytes_io` makes fresh objects with cursor 0 and the objects are equal.
    The consumer (`write_scaffold`) seeks to 0 first: `write_scaffold_with_source_iterators`. -/
theorem get_sequence_iter_is_source (file : Bytes) (idx : List (Str × FastaInfo)) (bs : Int) (p : Bytes → Nat)
    (f : Fragment) (hbs : 1 ≤ bs) :
    (srcSeqIter file idx bs p (.frag f)).map (List.map (·.data))
      = (C03.modelSeqIter file idx bs (.frag f)).map (List.map (·.data)) :=
  get_sequence_iter_is_source_any_bs file idx bs p f (by omega)

/-- with cursor 0 (the model's convention) the two iterators are EQUAL, on every row — for every `buffer_size` but 0 -/
theorem get_sequence_iter_is_source_pos0 (file : Bytes) (idx : List (Str × FastaInfo)) (bs : Int) (row : Row) (hbs : bs ≠ 0) :
    srcSeqIter file idx bs (fun _ => 0) row = C03.modelSeqIter file idx bs row := by
  cases row with
  | gap g => rfl
  | frag f =>
    have hfwd := fun info s e sb => fwd_chunks_is_source_any_bs info s e bs sb hbs
    have hrev := fun info s e sb rc => rev_chunks_is_source_any_bs info s e bs sb rc hbs
    simp only [srcSeqIter, Gen.Imp.FastaIndex_get_sequence_iter, C03.modelSeqIter, PyRt.asFrag, get_info_is_source,
      hfwd, hrev, ImpFasta.R_ok_bind, ImpFasta.R_bind_ok]
    cases getInfo idx f.name with
    | error e => rfl
    | ok info =>
      simp only [ImpFasta.R_ok_bind]
      by_cases hs : f.strand = -1
      · simp only [hs, decide_true, if_true]
        apply ImpFasta.mapM_congr
        intro b _
        simp only [srcSequenceBytes]
        cases sequenceBytes file info b.1 b.2 <;> rfl
      · simp only [hs, decide_false, if_false, Bool.false_eq_true]
        apply ImpFasta.mapM_congr
        intro b _
        simp only [srcSequenceBytes]
        cases sequenceBytes file info b.1 b.2 <;> rfl

/-- the composition, run: minus strand (objects equal to the model's), forward strand (cursor at the end: contents equal, objects not) -/
example : srcSeqIter [62, 97, 10, 65, 67, 71, 84, 78, 78, 10, 65, 67, 10]
    [("a".toList, { length := 8, fileOffset := 3, rpl := 6, mll := 7 })] 3 List.length
    (.frag { oid := 1, name := "a".toList, start := 3, stop := 8, strand := -1, tags := [] })
    = .ok [{ data := [71, 84, 78] }, { data := [78, 65, 67] }] := by rfl
example : srcSeqIter [62, 97, 10, 65, 67, 71, 84, 78, 78, 10, 65, 67, 10]
      [("a".toList, { length := 8, fileOffset := 3, rpl := 6, mll := 7 })] 3 List.length
      (.frag { oid := 0, name := "a".toList, start := 1, stop := 4, strand := 1, tags := [] })
      = .ok [{ data := [65, 67, 71], pos := 3 }, { data := [84], pos := 1 }]
    ∧ C03.modelSeqIter [62, 97, 10, 65, 67, 71, 84, 78, 78, 10, 65, 67, 10]
      [("a".toList, { length := 8, fileOffset := 3, rpl := 6, mll := 7 })] 3
      (.frag { oid := 0, name := "a".toList, start := 1, stop := 4, strand := 1, tags := [] })
      = .ok [{ data := [65, 67, 71], pos := 0 }, { data := [84], pos := 0 }] := ⟨rfl, rfl⟩
example : srcSeqIter [] [] 3 List.length
    (.frag { oid := 0, name := "zz".toList, start := 1, stop := 4, strand := 1, tags := [] }) = .error .value := by rfl
/-- `bs = 0`: the source raises `ZeroDivisionError` (as Python), the model reads residues 1..0 with `sequence_bytes` and yields what
    that returns (here the whole first line) — the two theorems above are FALSE without `bs ≠ 0` -/
example : srcSeqIter [62, 97, 10, 65, 67, 71, 84, 78, 78, 10, 65, 67, 10]
      [("a".toList, { length := 8, fileOffset := 3, rpl := 6, mll := 7 })] 0 (fun _ => 0)
      (.frag { oid := 0, name := "a".toList, start := 1, stop := 4, strand := 1, tags := [] }) = .error .zeroDiv
    ∧ C03.modelSeqIter [62, 97, 10, 65, 67, 71, 84, 78, 78, 10, 65, 67, 10]
      [("a".toList, { length := 8, fileOffset := 3, rpl := 6, mll := 7 })] 0
      (.frag { oid := 0, name := "a".toList, start := 1, stop := 4, strand := 1, tags := [] })
      = .ok [{ data := [65, 67, 71, 84, 78, 78], pos := 0 }] := ⟨rfl, rfl⟩

/-! ## 6. end to end -/

/-- the source's gap iterator, on the gap character `write_scaffold` passes, is the model's on every row (`bs ≠ 0`; for `bs = 0`
    see `srcGapIter`: no chunks, the model one empty chunk) -/
theorem srcGapIter_eq (bs : Int) (row : Row) (hbs : bs ≠ 0) :
    srcGapIter bs row Gen.gapCharacter = C03.modelGapIter bs row Gen.gapCharacter := by
  cases row with
  | frag f => rfl
  | gap g =>
    simp only [srcGapIter, show Gen.gapCharacter = [78] from rfl, get_gap_iter_is_source_any_bs g 78 bs hbs, okOr]

/-- for every `buffer_size` but 0 (FALSE for `bs = 0`, example below: the source's `get_sequence_iter` raises
    `ZeroDivisionError` on the first Fragment row, the model writes a file) -/
theorem write_scaffold_with_source_iterators_any_bs (file : Bytes) (idx : List (Str × FastaInfo)) (bs w : Int) (p : Bytes → Nat)
    (sc : Scaffold) (fuel : Nat) (hbs : bs ≠ 0)
    (hfuel : ∀ row ∈ sc.rows,
      (∀ c ∈ C03.modelGapIter bs row Gen.gapCharacter, c.data.length < fuel) ∧
      (∀ cs, C03.modelSeqIter file idx bs row = .ok cs → ∀ c ∈ cs, c.data.length < fuel)) :
    Gen.Imp.FastaStream_write_scaffold fuel sc w Gen.gapCharacter (srcGapIter bs) (srcSeqIter file idx bs p)
      = (streamScaffold file idx bs w sc).map (·.out) := by
  rw [← C03.write_scaffold_is_source file idx bs w sc fuel hfuel]
  apply ImpFasta.write_scaffold_data_congr
  · intro row _
    cases row with
    | gap g => simp only [ImpStream.rowChunks, Row.isGap, if_true, srcGapIter_eq bs _ hbs]
    | frag f =>
      simp only [ImpStream.rowChunks, Row.isGap, Bool.false_eq_true, if_false, ImpFasta.dataOf]
      exact get_sequence_iter_is_source_any_bs file idx bs p f hbs
  · intro row hrow cs hcs
    cases row with
    | gap g =>
      simp only [ImpStream.rowChunks, Row.isGap, if_true, Except.ok.injEq] at hcs
      subst hcs
      exact (hfuel _ hrow).1
    | frag f =>
      simp only [ImpStream.rowChunks, Row.isGap, Bool.false_eq_true, if_false] at hcs
      exact (hfuel _ hrow).2 cs hcs

/-- **The source's `write_scaffold` with the source's own chunk iterators writes the model's bytes** — same bytes, same exception —
    for every `file`, index, `buffer_size ≥ 1`, `line_length` (also `≤ 0`), scaffold, and wherever `sequence_bytes` leaves the
    cursor of the `BytesIO` it returns (`p`; Python: at the end).  `srcGapIter` / `srcSeqIter` are built from TRANSLATED functions
    only (plus the model's `sequenceBytes` for `self.sequence_bytes`, tied to the source in `Kernels.sequence_bytes_plan_eq`).
    `hfuel`, as in `C03.write_scaffold_is_source`: the `while True` loop of the writer gets more passes than the longest chunk has
    bytes (see there why it is needed and tight); `write_scaffold_with_source_iterators_of_rowOK` below replaces it by
    `buffer_size < fuel` for well-formed input. -/
theorem write_scaffold_with_source_iterators (file : Bytes) (idx : List (Str × FastaInfo)) (bs w : Int) (p : Bytes → Nat)
    (sc : Scaffold) (fuel : Nat) (hbs : 1 ≤ bs)
    (hfuel : ∀ row ∈ sc.rows,
      (∀ c ∈ C03.modelGapIter bs row Gen.gapCharacter, c.data.length < fuel) ∧
      (∀ cs, C03.modelSeqIter file idx bs row = .ok cs → ∀ c ∈ cs, c.data.length < fuel)) :
    Gen.Imp.FastaStream_write_scaffold fuel sc w Gen.gapCharacter (srcGapIter bs) (srcSeqIter file idx bs p)
      = (streamScaffold file idx bs w sc).map (·.out) :=
  write_scaffold_with_source_iterators_any_bs file idx bs w p sc fuel (by omega) hfuel

/-- the translated writer over the translated iterators, run: `>a\nACGTNN\nAC\n`; scaffold `s1` = a[1..4] forward, a gap of 5,
    a[3..8] on the minus strand; `buffer_size = 3`, line length 4, fuel 4, cursors where Python leaves them -/
example : Gen.Imp.FastaStream_write_scaffold 4
    { name := "s1".toList, rows := [
      .frag { oid := 0, name := "a".toList, start := 1, stop := 4, strand := 1, tags := [] },
      .gap { length := 5, gapType := "scaffold".toList },
      .frag { oid := 1, name := "a".toList, start := 3, stop := 8, strand := -1, tags := [] }] }
    4 Gen.gapCharacter (srcGapIter 3)
    (srcSeqIter [62, 97, 10, 65, 67, 71, 84, 78, 78, 10, 65, 67, 10]
      [("a".toList, { length := 8, fileOffset := 3, rpl := 6, mll := 7 })] 3 List.length)
    = .ok (strToBytes ">s1\nACGT\nNNNN\nNGTN\nNAC\n".toList) := by rfl

/-- `buffer_size = 0` (excluded above): the translated writer over the translated iterators ends in `ZeroDivisionError` on the
    first Fragment row, as Python does; the model (`streamScaffold`, total `pyDiv`) writes a file — FALSE without `bs ≠ 0` -/
example : Gen.Imp.FastaStream_write_scaffold 7
      { name := "s1".toList, rows := [
        .frag { oid := 0, name := "a".toList, start := 1, stop := 4, strand := 1, tags := [] },
        .gap { length := 5, gapType := "scaffold".toList }] }
      4 Gen.gapCharacter (srcGapIter 0)
      (srcSeqIter [62, 97, 10, 65, 67, 71, 84, 78, 78, 10, 65, 67, 10]
        [("a".toList, { length := 8, fileOffset := 3, rpl := 6, mll := 7 })] 0 List.length)
      = .error .zeroDiv
    ∧ (streamScaffold [62, 97, 10, 65, 67, 71, 84, 78, 78, 10, 65, 67, 10]
        [("a".toList, { length := 8, fileOffset := 3, rpl := 6, mll := 7 })] 0 4
        { name := "s1".toList, rows := [
          .frag { oid := 0, name := "a".toList, start := 1, stop := 4, strand := 1, tags := [] },
          .gap { length := 5, gapType := "scaffold".toList }] }).map (·.out)
      = .ok (strToBytes ">s1\nACGT\nNN\n".toList) := ⟨rfl, rfl⟩

/-- `hfuel` is satisfiable there (all chunks have at most 3 bytes) -/
example : ∀ row ∈ [Row.frag { oid := 0, name := "a".toList, start := 1, stop := 4, strand := 1, tags := [] },
      Row.gap { length := 5, gapType := "scaffold".toList },
      Row.frag { oid := 1, name := "a".toList, start := 3, stop := 8, strand := -1, tags := [] }],
    (∀ c ∈ C03.modelGapIter 3 row Gen.gapCharacter, c.data.length < 4) ∧
    (∀ cs, C03.modelSeqIter [62, 97, 10, 65, 67, 71, 84, 78, 78, 10, 65, 67, 10]
        [("a".toList, { length := 8, fileOffset := 3, rpl := 6, mll := 7 })] 3 row = .ok cs → ∀ c ∈ cs, c.data.length < 4) := by
  intro row hrow
  simp only [List.mem_cons, List.not_mem_nil, or_false] at hrow
  rcases hrow with rfl | rfl | rfl
  · refine ⟨by decide +kernel, fun cs h => ?_⟩
    have h' : C03.modelSeqIter [62, 97, 10, 65, 67, 71, 84, 78, 78, 10, 65, 67, 10]
        [("a".toList, { length := 8, fileOffset := 3, rpl := 6, mll := 7 })] 3
        (.frag { oid := 0, name := "a".toList, start := 1, stop := 4, strand := 1, tags := [] })
        = .ok [{ data := [65, 67, 71] }, { data := [84] }] := by rfl
    rw [h'] at h; cases h; decide
  · exact ⟨by decide +kernel, fun cs h => by cases h⟩
  · refine ⟨by decide +kernel, fun cs h => ?_⟩
    have h' : C03.modelSeqIter [62, 97, 10, 65, 67, 71, 84, 78, 78, 10, 65, 67, 10]
        [("a".toList, { length := 8, fileOffset := 3, rpl := 6, mll := 7 })] 3
        (.frag { oid := 1, name := "a".toList, start := 3, stop := 8, strand := -1, tags := [] })
        = .ok [{ data := [71, 84, 78] }, { data := [78, 65, 67] }] := by rfl
    rw [h'] at h; cases h; decide

/-- **Well-formed input: `buffer_size < fuel` is enough.**  When every fragment row of the scaffold names an index entry that lays
    its residues out in `file` and lies within them (`StreamProofs.RowOK`, the hypothesis of `C13.stream_memory_bound`; gap rows of
    any length are OK), every chunk either iterator yields has at most `buffer_size` bytes, so any fuel above `buffer_size` will do.
    Here `1 ≤ bs` is used. -/
theorem write_scaffold_with_source_iterators_of_rowOK (file : Bytes) (idx : List (Str × FastaInfo)) (resOf : Str → Bytes)
    (bs w : Int) (p : Bytes → Nat) (sc : Scaffold) (fuel : Nat) (hbs : 1 ≤ bs)
    (hok : ∀ r ∈ sc.rows, StreamProofs.RowOK file idx resOf r) (hfuel : bs.toNat < fuel) :
    Gen.Imp.FastaStream_write_scaffold fuel sc w Gen.gapCharacter (srcGapIter bs) (srcSeqIter file idx bs p)
      = (streamScaffold file idx bs w sc).map (·.out) := by
  apply write_scaffold_with_source_iterators_any_bs (hbs := by omega)
  intro row hrow
  constructor
  · intro c hc
    have hg : C03.modelGapIter bs row Gen.gapCharacter = ImpStream.gapIter bs row Gen.gapCharacter := by cases row <;> rfl
    rw [hg] at hc
    exact Nat.lt_of_le_of_lt (ImpStream.gapIter_length_le bs row _ c hc) hfuel
  · intro cs hcs c hc
    cases row with
    | gap g => cases hcs
    | frag f =>
      have hs : C03.modelSeqIter file idx bs (.frag f) = ImpStream.seqIter file idx bs (.frag f) := rfl
      rw [hs] at hcs
      exact Nat.lt_of_le_of_lt (ImpFasta.seqIter_chunk_le hbs file idx resOf f (hok _ hrow) cs hcs c hc) hfuel

/-- the hypotheses are satisfiable: the fixture of `Proofs/C03Example.lean` (`x:1-4(+) gap(2) x:6-10(-)` over a 3-line record),
    `buffer_size = 3`, fuel 4; and the translated writer over the translated iterators run on it -/
example : (∀ r ∈ StreamExample.exScaffold.rows,
    StreamProofs.RowOK StreamExample.exFile StreamExample.exIdx StreamExample.exResOf r) ∧ (3 : Int).toNat < 4 :=
  ⟨StreamExample.exRowsOK, by decide⟩
example : Gen.Imp.FastaStream_write_scaffold 4 StreamExample.exScaffold 4 Gen.gapCharacter (srcGapIter 3)
    (srcSeqIter StreamExample.exFile StreamExample.exIdx 3 List.length)
    = .ok (strToBytes ">s\nAACC\nNNTA\nACN\n".toList) := by rfl

end AgpTpf.C13
