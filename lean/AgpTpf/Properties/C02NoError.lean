/-
  C02, first clause — "remapping completes without error" — for every PretextView edit script:
  `remap_to_input_assembly` NEVER RAISES (N2), and in particular the cut QC never fails (N1).

  Python: `BuildAssembly.remap_to_input_assembly`, `find_assembly_overlaps`, `discard_overhanging_fragments`,
  `cut_remaining_overlaps` / `cut_fragments` / `qc_sub_fragments`, `add_missing_scaffolds_from_input` (build_assembly.py),
  `OverlapResult.trim_fragment`, `fragment_start_if_trimmed`, `trim_large_overhangs` (overlap_result.py),
  `OverhangResolver.make_fixes`, `OverhangPremise.improves`, `ScaffoldNamer.make_scaffold_name / label_scaffold`
  (build_utils.py), `IndexedAssembly.find_overlaps` (indexed_assembly.py).  Spec side: `Model/Pretext.lean`.
  Helpers (all new): `Proofs/C02NTrim` (`trim_fragment` forwards, any flags / strand / tags), `C02NCut` (`VisitOK` ⇒
  `cut_fragments` succeeds), `C02NSolo` (a piece inside one contig keeps it), `C02NGeo` (one holder), `C02NHold`
  (`Tiling`, holders are consecutive), `C02NPipe` (the invariants after lookup + resolver), `C02NSeq` (the whole cutting
  loop), `C02NScript` (scripts are tilings), `C02NRes` (the resolver never raises; fuel), `C02NFront` (lookup stage,
  `add_missing`), `C02NMain` (assembly).

  PROVED, all at full strength for the stated hypotheses (no `_partial` theorem in this file):

    N1a `holders_are_consecutive`      ANY map whose pieces tile the input scaffolds (`Tiling`: valid, pairwise disjoint,
                                       no hole between two pieces of one scaffold, a piece between two others has ≥ err
                                       bases), ANY state reached by `find_assembly_overlaps` and then
                                       `discard_overhanging_fragments` (any fuel): for every contig still in `multi` the
                                       holders, in the order `cut_fragments` visits them, own ABUTTING stretches of the
                                       contig (`VisitOK`): the contig is the low-side row of every holder but the first and
                                       the high-side row of every holder but the last, each overhang is exactly the distance
                                       to the bait.  (Why: a piece lying wholly inside the contig has a one-row result that
                                       neither `trim_large_overhangs` nor the resolver ever touches — `Solo` — so between two
                                       holders every piece is a holder.  An END holder may be dropped by the resolver; the
                                       next holder then keeps the contig's first / last base: `keep_start` / `keep_end`.)
    N1b `cut_qc_passes_for_tiling`     … hence `cut_fragments` succeeds on each of them: `qc_sub_fragments` passes.
                                       Any number of holders, forward and reverse contigs, painted or not.
    N1c `cut_remaining_ok_for_tiling`  … and the WHOLE loop `cut_remaining_overlaps` succeeds (cutting one contig leaves
                                       the holders of every other contig ready).
    T   `script_map_is_tiling`         the map of every well-formed script (`wfScript`) over an input with pairwise
                                       different scaffold names is a `Tiling` at `errLen = 1 + ⌊bp per texel⌋`.
    R   `discard_overhanging_never_raises`   under the registry invariant `Mid` (C01) no round of the resolver raises
                                       (`Premise.apply` on an empty result, `removeFirst` failing: excluded), every
                                       productive round removes a row, so any fuel above `totalRows` — in particular the
                                       pipeline's `totalRows + 2` — suffices.
    L   `find_assembly_overlaps_never_raises`, `add_missing_never_raises`   the stages around it.
    N2g `remap_to_input_ok_for_tiling` `remap_to_input_assembly` returns for ANY tiling map whose Pretext scaffolds begin
                                       with a fragment row, name input scaffolds and carry no tag but `Painted`.
    N2  `script_remap_to_input_ok`     **for every well-formed script over a well-formed input `remap_to_input_assembly`
                                       returns a build** — painted or not, any haplotype-shaped names, any texel size.
        `script_cut_stage_never_fails` the states between: after lookup and resolver every shared contig is `VisitOK`.

  NOT PROVED: N3 `script_remap_ok` (that `assemblies_with_scaffolds_fused` does not raise after N2) — see the end of the
  file for the statement and what is missing.

  HYPOTHESES of N2 (all decidable; discharged by `decide` in the example): `wfScript input s`; `WFInput input` (scaffold
  names, Fragment objects, contig keys pairwise different, contigs disjoint and ≥ 1 bp); no gap row of negative length;
  contigs forward or reverse; every input scaffold has at least one row (`find_overlaps` raises "Scaffold is empty" by
  design; an AGP file cannot produce one); input contigs carry no tags (`make_scaffold_name` on a left-over scaffold).

  FINDINGS.  No statement was found false; no well-formed script on a well-formed input makes the real code raise
  (searched with the real Python code before proving: 600 000 random dense-cut scripts — texel sizes 1, 1.01, 1.25, 1.5,
  1.99, 2, 7/3, 2.5, 3, 4, 10, 10.75; contigs of 1 … 40·err bases, both strands, 0-length gaps, up to 3 scaffolds, painted
  and unpainted, pieces shuffled / reversed / regrouped — plus an exhaustive enumeration of ALL cut sets (T ≤ 16) of 1 600
  three-contig scaffolds at texel sizes 1, 1.5, 2, 3: 245 000 scripts × 2 piece orders; 0 errors of any kind).
  The hypothesis "a piece between two others has ≥ err bases" is necessary (C02Core F-K4: a shorter middle piece is
  emptied by `trim_large_overhangs` and the QC raises); PretextView pieces of a cut scaffold have ≥ 2 texels ≥ err bases.
  Side remarks (designed validation, not defects of the remapping): an input scaffold without rows makes `find_overlaps`
  raise; for PAINTED scripts over an input whose scaffold names are shaped `<hap>_…_<digits>` with ≥ 2 different `<hap>`,
  `assemblies_with_scaffolds_fused` raises `ChrNamerError` (`ChrNamer.check_groups`) when the painted scaffolds come in a
  haplotype order such as A, A, B or A, B, C, B (A, B, B and A, B, A, B are accepted) — `painted_two_haplotypes_raises`
  below, confirmed on the real code — so the literal "for EVERY edit script … remapping completes without error" needs
  "unpainted, or a single haplotype" for the last stage (N3).
-/
import AgpTpf.Proofs.C02NMain
namespace AgpTpf.C02
open AgpTpf AgpTpf.Pretext OverlapResult
open AgpTpf.C01 (WFInput inputFrags)

/-! ## the notions, spelled out -/

/-- `Tiling err ptx` (`Proofs/C02NHold.lean`); `ptxFrags ptx` = all Pretext fragment rows of the map -/
theorem tiling_iff (err : Int) (ptx : List Scaffold) :
    Tiling err ptx ↔
      (∀ p ∈ ptxFrags ptx, p.start ≤ p.stop) ∧
      (ptxFrags ptx).Pairwise (fun p q => p.name = q.name → p.stop < q.start ∨ q.stop < p.start) ∧
      (∀ p ∈ ptxFrags ptx, ∀ q ∈ ptxFrags ptx, p.name = q.name → ∀ x, p.stop < x → x < q.start →
        ∃ m ∈ ptxFrags ptx, m.name = p.name ∧ m.start ≤ x ∧ x ≤ m.stop) ∧
      (∀ m ∈ ptxFrags ptx, (∃ p ∈ ptxFrags ptx, p.name = m.name ∧ p.stop < m.start) →
        (∃ q ∈ ptxFrags ptx, q.name = m.name ∧ m.stop < q.start) → err ≤ m.length) :=
  ⟨fun h => ⟨h.valid, h.disjoint, h.convex, h.long⟩, fun ⟨a, b, c, d⟩ => ⟨a, b, c, d⟩⟩

theorem ptxFrags_def (ptx : List Scaffold) : ptxFrags ptx = ptx.flatMap Scaffold.fragments := rfl

/-- `VisitOK b fnd V lo hi` (`Proofs/C02NCut.lean`).  `a` / `c` = the contig is the first / last row of the holder's
    result; low side = first row and start overhang for a forward contig, last row and end overhang for a reverse one
    (`lowB`, `ovLow`; `highB`, `ovHigh` mirrored). -/
theorem visitOK_iff (b : Build) (fnd : Found) (V : List Nat) (lo hi : Nat → Int) :
    VisitOK b fnd V lo hi ↔
      V.Perm fnd.scaffolds ∧ V ≠ [] ∧ (fnd.fragment.strand = 1 ∨ fnd.fragment.strand = -1) ∧
      fnd.fragment.start ≤ fnd.fragment.stop ∧
      (∀ j, j < V.length → lo j ≤ hi j ∧ fnd.fragment.start ≤ hi j ∧ lo j ≤ fnd.fragment.stop) ∧
      (∀ j, j + 1 < V.length → hi j + 1 = lo (j + 1)) ∧
      ∀ j (h : j < V.length), ∃ a c,
        firstIs (getRes b.store V[j]) fnd.fragment = .ok a ∧ lastIs (getRes b.store V[j]) fnd.fragment = .ok c ∧
        (a = true ∨ c = true) ∧
        (lowB fnd.fragment a c = true → ovLow (getRes b.store V[j]) fnd.fragment = lo j - fnd.fragment.start) ∧
        (highB fnd.fragment a c = true → ovHigh (getRes b.store V[j]) fnd.fragment = fnd.fragment.stop - hi j) ∧
        (0 < j → lowB fnd.fragment a c = true) ∧ (j + 1 < V.length → highB fnd.fragment a c = true) :=
  ⟨fun h => ⟨h.perm, h.ne, h.strand, h.valid, h.geo, h.abut, h.res⟩,
   fun ⟨a, b, c, d, e, f, g⟩ => ⟨a, b, c, d, e, f, g⟩⟩

theorem low_high_def (F : Fragment) (o : OverlapResult) (a c : Bool) :
    lowB F a c = (if F.strand = 1 then a else c) ∧ highB F a c = (if F.strand = 1 then c else a) ∧
    ovLow o F = (if F.strand = 1 then o.startOverhang else o.endOverhang) ∧
    ovHigh o F = (if F.strand = 1 then o.endOverhang else o.startOverhang) := ⟨rfl, rfl, rfl, rfl⟩

/-! ## N1 — any tiling map -/

/-- **N1a — the holders of a shared contig are consecutive pieces.**  `input` well-formed (`WFInput`: scaffold names,
    Fragment objects and contig keys pairwise different, contigs disjoint and ≥ 1 bp), no gap of negative length, contigs
    forward or reverse; `ptx` a `Tiling` at `err ≥ 0`; `b1` what `find_assembly_overlaps` returns on the fresh build, `b2`
    what `discard_overhanging_fragments` (any fuel) returns on `b1`.  Then every key still in `multi` has a holder list
    satisfying `VisitOK`. -/
theorem holders_are_consecutive (input ptx : List Scaffold) (prefix_ : Str) (joinGap : Option Gap) (err : Int)
    (hwf : WFInput input) (hnn : InputNonNeg input) (hstr : ∀ f ∈ inputFrags input, f.strand = 1 ∨ f.strand = -1)
    (herr : 0 ≤ err) (hT : Tiling err ptx) (b1 b2 : Build) (fuel : Nat)
    (h1 : findAssemblyOverlaps input ptx (C09.startBuild input prefix_ joinGap err) = .ok b1)
    (h2 : discardOverhanging fuel b1 = .ok b2) :
    ∀ k ∈ b2.multi, ∀ fnd, dGet? b2.found k = some fnd → ∃ V lo hi, VisitOK b2 fnd V lo hi := by
  intro k hk fnd hf
  have hctx := holdCtx_after_resolver input ptx prefix_ joinGap err hwf hnn hstr herr hT b1 b2 fuel h1 h2
  obtain ⟨sc, X, Y, hH⟩ := hctx.holderSet hk hf
  exact hH.visit

/-- the fresh build is the one `remap_to_input_assembly` starts from -/
theorem start_build_def (input : List Scaffold) (prefix_ : Str) (joinGap : Option Gap) (err : Int) :
    C09.startBuild input prefix_ joinGap err =
      { namer := { autosomePrefix := prefix_ },
        nextOid := (input.flatMap Scaffold.fragments).foldl (fun m f => max m (f.oid + 1)) 0,
        joinGap := joinGap, err := err } := rfl

/-- **`VisitOK` ⇒ `cut_fragments` succeeds** (the QC passes), for any build -/
theorem cut_fragments_ok_of_visit {b : Build} {fnd : Found} {V : List Nat} {lo hi : Nat → Int}
    (h : VisitOK b fnd V lo hi) : ∃ b', cutFragments b fnd = .ok b' ∧ b'.cuts = b.cuts + ((V.length : Int) - 1) :=
  ⟨_, (cut_ok_of_visit h).1, rfl⟩

/-- **N1b — the cut QC passes for every contig left in `multi`.** -/
theorem cut_qc_passes_for_tiling (input ptx : List Scaffold) (prefix_ : Str) (joinGap : Option Gap) (err : Int)
    (hwf : WFInput input) (hnn : InputNonNeg input) (hstr : ∀ f ∈ inputFrags input, f.strand = 1 ∨ f.strand = -1)
    (herr : 0 ≤ err) (hT : Tiling err ptx) (b1 b2 : Build) (fuel : Nat)
    (h1 : findAssemblyOverlaps input ptx (C09.startBuild input prefix_ joinGap err) = .ok b1)
    (h2 : discardOverhanging fuel b1 = .ok b2) :
    ∀ k ∈ b2.multi, ∀ fnd, dGet? b2.found k = some fnd → ∃ b', cutFragments b2 fnd = .ok b' := by
  intro k hk fnd hf
  obtain ⟨V, lo, hi, hV⟩ :=
    holders_are_consecutive input ptx prefix_ joinGap err hwf hnn hstr herr hT b1 b2 fuel h1 h2 k hk fnd hf
  exact ⟨_, (cut_ok_of_visit hV).1⟩

/-- **N1c — the whole loop `cut_remaining_overlaps` succeeds.** -/
theorem cut_remaining_ok_for_tiling (input ptx : List Scaffold) (prefix_ : Str) (joinGap : Option Gap) (err : Int)
    (hwf : WFInput input) (hnn : InputNonNeg input) (hstr : ∀ f ∈ inputFrags input, f.strand = 1 ∨ f.strand = -1)
    (herr : 0 ≤ err) (hT : Tiling err ptx) (b1 b2 : Build) (fuel : Nat)
    (h1 : findAssemblyOverlaps input ptx (C09.startBuild input prefix_ joinGap err) = .ok b1)
    (h2 : discardOverhanging fuel b1 = .ok b2) :
    ∃ b3, cutRemaining b2 = .ok b3 := by
  have hctx := holdCtx_after_resolver input ptx prefix_ joinGap err hwf hnn hstr herr hT b1 b2 fuel h1 h2
  apply cutRemaining_ok hctx
  have hn1 := C01.findAssemblyOverlaps_nextOid input ptx _ b1 h1
  obtain ⟨hm1, _⟩ := C01.reg_after_find_aux input ptx _ b1 ⟨rfl, rfl, rfl⟩ h1
  obtain ⟨_, _, hn2, _⟩ := C01.discardOverhanging_mid input hwf fuel b1 b2 hm1 h2
  intro f hf
  rw [hn2, hn1]
  exact (C07.inputOK_of_nodup input hwf.2.1).lt f hf

/-! ## T — scripts are tilings -/

/-- **T.**  The map of a well-formed script tiles the input scaffolds, at the error length the remapper derives from the
    map's header (`errLen p q = 1 + ⌊p/q⌋`, `err_len_of_header_text`). -/
theorem script_map_is_tiling {input : List Scaffold} {s : Script} (hw : wfScript input s = true)
    (hn : (input.map (·.name)).Nodup) : Tiling (errLen s.p s.q : Int) (ptxOf input s) :=
  script_is_tiling hw hn

/-! ## R, L — the other stages -/

/-- **R — `discard_overhanging_fragments` never raises** (and terminates within its fuel): `Mid input b` is C01's registry
    invariant, which `find_assembly_overlaps` establishes (`C01.reg_after_find`) and every round keeps. -/
theorem discard_overhanging_never_raises {input : List Scaffold} (hwf : WFInput input) (fuel : Nat) (b : Build)
    (hm : C01.Mid input b) (hfuel : totalRows b.store < fuel) : ∃ b', discardOverhanging fuel b = .ok b' :=
  discardOverhanging_ok hwf fuel b hm hfuel

/-- one round: it returns; a productive round removes at least one row from the store -/
theorem resolver_round_never_raises {input : List Scaffold} (hwf : WFInput input) {b : Build} (hm : C01.Mid input b) :
    ∃ r, resolverRound b = .ok r ∧ ∀ b', r = some b' → totalRows b'.store < totalRows b.store :=
  resolverRound_ok hwf hm

theorem ptxScafOk_iff (input : List Scaffold) (S : Scaffold) :
    PtxScafOk input S ↔
      (∃ f t, S.rows = .frag f :: t) ∧
      ((∀ p ∈ S.fragments, p.tags = []) ∨ (S.fragments ≠ [] ∧ ∀ p ∈ S.fragments, p.tags = [sPainted])) ∧
      (∀ p ∈ S.fragments, ∃ sc ∈ input, sc.name = p.name) :=
  ⟨fun h => ⟨h.head, h.tags, h.names⟩, fun ⟨a, b, c⟩ => ⟨a, b, c⟩⟩

/-- **L — the lookup stage never raises** on a map whose scaffolds begin with a fragment row, whose pieces name input
    scaffolds (with at least one row each) and carry no tag, or all just `Painted` -/
theorem find_assembly_overlaps_never_raises {input : List Scaffold} (hn : (input.map (·.name)).Nodup)
    (hnn : InputNonNeg input) (hrows : ∀ sc ∈ input, sc.rows ≠ []) (ptx : List Scaffold)
    (hp : ∀ S ∈ ptx, PtxScafOk input S) (b : Build) : ∃ b', findAssemblyOverlaps input ptx b = .ok b' :=
  findAssemblyOverlaps_ok hn hnn hrows ptx hp b

/-- **L — `add_missing_scaffolds_from_input` never raises** with a join gap and an untagged input -/
theorem add_missing_never_raises (g : Gap) (input : List Scaffold) (b : Build) (hj : b.joinGap = some g)
    (hut : ∀ sc ∈ input, ∀ f ∈ sc.fragments, f.tags = []) : ∃ b', addMissing input b = .ok b' := by
  rw [C08.addMissing_eq]; exact addMissing_ok g input b hj hut

/-! ## N2 — `remap_to_input_assembly` never raises -/

/-- **N2, any tiling map.** -/
theorem remap_to_input_ok_for_tiling (input ptx : List Scaffold) (prefix_ : Str) (jg : Gap) (err : Int)
    (hwf : WFInput input) (hnn : InputNonNeg input) (hstr : ∀ f ∈ inputFrags input, f.strand = 1 ∨ f.strand = -1)
    (hrows : ∀ sc ∈ input, sc.rows ≠ []) (hut : ∀ sc ∈ input, ∀ f ∈ sc.fragments, f.tags = [])
    (herr : 0 ≤ err) (hT : Tiling err ptx) (hp : ∀ S ∈ ptx, PtxScafOk input S) :
    ∃ b, remapToInput input ptx prefix_ (some jg) err = .ok b :=
  remapToInput_ok_of_tiling input ptx prefix_ jg err hwf hnn hstr hrows hut herr hT hp

/-- **N2 — for every PretextView script `remap_to_input_assembly` returns a build.** -/
theorem script_remap_to_input_ok {input : List Scaffold} {s : Script} (hw : wfScript input s = true)
    (hwf : WFInput input) (hnn : InputNonNeg input) (hstr : ∀ f ∈ inputFrags input, f.strand = 1 ∨ f.strand = -1)
    (hrows : ∀ sc ∈ input, sc.rows ≠ []) (hut : ∀ sc ∈ input, ∀ f ∈ sc.fragments, f.tags = [])
    (prefix_ : Str) (jg : Gap) :
    ∃ b, remapToInput input (ptxOf input s) prefix_ (some jg) (errLen s.p s.q : Int) = .ok b :=
  remapToInput_ok_of_tiling input _ prefix_ jg _ hwf hnn hstr hrows hut (by omega) (script_map_is_tiling hw hwf.1)
    (script_ptx_ok (wfScript_spec hw))

/-- the states in between: whenever the lookup stage and the resolver loop have returned `b1`, `b2` (they do, by `L` and
    `R`), every contig still shared is `VisitOK` in `b2` and `cut_remaining_overlaps` returns. -/
theorem script_cut_stage_never_fails {input : List Scaffold} {s : Script} (hw : wfScript input s = true)
    (hwf : WFInput input) (hnn : InputNonNeg input) (hstr : ∀ f ∈ inputFrags input, f.strand = 1 ∨ f.strand = -1)
    (prefix_ : Str) (joinGap : Option Gap) (b1 b2 : Build)
    (h1 : findAssemblyOverlaps input (ptxOf input s)
        (C09.startBuild input prefix_ joinGap (errLen s.p s.q : Int)) = .ok b1)
    (h2 : discardOverhanging (totalRows b1.store + 2) b1 = .ok b2) :
    (∀ k ∈ b2.multi, ∀ fnd, dGet? b2.found k = some fnd → ∃ V lo hi, VisitOK b2 fnd V lo hi) ∧
    ∃ b3, cutRemaining b2 = .ok b3 :=
  ⟨holders_are_consecutive input _ prefix_ joinGap _ hwf hnn hstr (by omega) (script_map_is_tiling hw hwf.1) b1 b2 _ h1 h2,
   cut_remaining_ok_for_tiling input _ prefix_ joinGap _ hwf hnn hstr (by omega) (script_map_is_tiling hw hwf.1) b1 b2 _ h1 h2⟩

/-! ## N3 — not proved

    STATEMENT (`script_remap_ok`):  hypotheses of N2, and all groups unpainted (or all painted and the input scaffold names
    yield a single haplotype) ⇒ `∃ outs stats, remap input (ptxOf input s) prefix_ (some jg) (errLen s.p s.q) = .ok (outs, stats)`.
    By N2 it remains to show that `assemblies_with_scaffolds_fused` returns on the build of N2:
    (1) unpainted ⇒ every stored result and every left-over has rank 3 (`make_scaffold_name` without tags), so `haps = []`
        and `ChrNamer` is not entered; painted + single haplotype ⇒ `build_groups` makes one group per original name and
        `check_groups` finds no error (for ≥ 2 haplotypes it legitimately may: see FINDINGS);
    (2) `smart_sort_scaffolds`: `name_natural_key` never raises on the names produced (`int()` of a digit run / the
        nematode table);
    (3) `make_stats`: `junction_tuple` needs strands ±1 on input and output fragments (cut pieces keep the strand of
        their contig, `to_scaffold` negates it).
    None of (1)–(3) has a forward ("it returns") lemma in the project yet; all existing lemmas about
    `assembliesFused` assume it returned. -/

/-! ## non-vacuity -/

private def g10 : Gap := { length := 10, gapType := "scaffold".toList }
private def jg : Gap := { length := 200, gapType := "scaffold".toList }
private def f1 : Fragment := { oid := 1, name := "ctgF".toList, start := 1, stop := 100, strand := 1 }
private def f2 : Fragment := { oid := 2, name := "ctgG".toList, start := 1, stop := 60, strand := -1 }
/-- 170 bp: F 1-100 (forward), gap, G 111-170 (reverse) -/
private def sN : Scaffold := { name := "scaffold_1".toList, rows := [.frag f1, .gap g10, .frag f2] }
/-- texel 8 bp (`errLen = 9`), 21 texels (floor: 168), cut after texels 3, 6, 17: pieces `[1,24]`, `[25,48]`, `[49,136]`,
    `[137,168]`.  F is held by THREE pieces (the middle one lies wholly inside it), the reverse contig G by two; the pieces
    are shuffled, two of them reversed, and regrouped into two Pretext scaffolds. -/
private def scrN : Script :=
  { p := 8, q := 1, scafs := [{ T := 21, cuts := [3, 6, 17] }],
    groups := [{ items := [{ sc := 0, k := 2, minus := true }, { sc := 0, k := 0 }] },
               { items := [{ sc := 0, k := 3 }, { sc := 0, k := 1, minus := true }], painted := true }] }

example : wfScript [sN] scrN = true := by decide
example : WFInput [sN] ∧ InputNonNeg [sN] ∧ ∀ f ∈ inputFrags [sN], f.strand = 1 ∨ f.strand = -1 := by
  refine ⟨by decide, by decide, by decide⟩
example : (scrN.scafs.map (fun c => c.spans 8 1)) = [[(1, 24), (25, 48), (49, 136), (137, 168)]] := by decide
/-- `T` gives the tiling; its clauses can be read off the four pieces -/
example : Tiling 9 (ptxOf [sN] scrN) := script_map_is_tiling (s := scrN) (by decide) (by decide)

set_option synthInstance.maxSize 1024 in
/-- the pipeline evaluated by the kernel, independently of the theorems: it completes with 3 cuts (F into three, G into
    two) -/
private theorem evalN : (remapToInput [sN] (ptxOf [sN] scrN) "SUPER_".toList (some jg) 9).toOption.map (·.cuts) = some 3 := by
  decide +kernel

/-- N2 applied: all its hypotheses are decided -/
example : ∃ b, remapToInput [sN] (ptxOf [sN] scrN) "SUPER_".toList (some jg) (errLen scrN.p scrN.q : Int) = .ok b :=
  script_remap_to_input_ok (s := scrN) (by decide) (by decide) (by decide) (by decide) (by decide) (by decide) _ jg

/-- the hypotheses `h1`, `h2` of `script_cut_stage_never_fails` are satisfiable -/
example : ∃ b1 b2 b3, findAssemblyOverlaps [sN] (ptxOf [sN] scrN) (C09.startBuild [sN] "SUPER_".toList (some jg) 9) = .ok b1 ∧
    discardOverhanging (totalRows b1.store + 2) b1 = .ok b2 ∧ cutRemaining b2 = .ok b3 := by
  have hv := evalN
  cases hr : remapToInput [sN] (ptxOf [sN] scrN) "SUPER_".toList (some jg) 9 with
  | error e => rw [hr] at hv; simp [Except.toOption] at hv
  | ok b =>
    obtain ⟨b1, b2, b3, h1, h2, h3, _⟩ := C09.remapToInput_stages _ _ _ _ _ b hr
    obtain ⟨_, b3', h3'⟩ := script_cut_stage_never_fails (s := scrN) (by decide) (by decide) (by decide) (by decide)
      "SUPER_".toList (some jg) b1 b2 h1 h2
    exact ⟨b1, b2, b3', h1, h2, h3'⟩

/-- `remap` as a whole completes on this script too -/
example : (remap [sN] (ptxOf [sN] scrN) "SUPER_".toList (some jg) 9).toOption.map (fun r => r.2.cuts) = some 3 := by
  decide +kernel

/-! ### the ChrNamer validation: a painted well-formed script that `remap` rejects (by design) -/

private def hA1 : Scaffold := { name := "A_x_1".toList, rows := [.frag { oid := 1, name := "c1".toList, start := 1, stop := 100, strand := 1 }] }
private def hA2 : Scaffold := { name := "A_x_2".toList, rows := [.frag { oid := 2, name := "c2".toList, start := 1, stop := 100, strand := 1 }] }
private def hB1 : Scaffold := { name := "B_x_1".toList, rows := [.frag { oid := 3, name := "c3".toList, start := 1, stop := 100, strand := 1 }] }
/-- three whole scaffolds (10 texels of 10 bp each), uncut, each painted as its own Pretext scaffold, in input order -/
private def scrH : Script :=
  { p := 10, q := 1, scafs := [{ T := 10 }, { T := 10 }, { T := 10 }],
    groups := [{ items := [{ sc := 0, k := 0 }], painted := true }, { items := [{ sc := 1, k := 0 }], painted := true },
               { items := [{ sc := 2, k := 0 }], painted := true }] }

set_option synthInstance.maxSize 1024 in
/-- **by design**: haplotypes `A`, `A`, `B` (taken from the input scaffold names) — `remap_to_input_assembly` returns (N2),
    then `ChrNamer.check_groups` rejects the map (two names in the first haplotype's set of one chromosome group).
    The real code raises `ChrNamerError` on the same input. -/
theorem painted_two_haplotypes_raises :
    wfScript [hA1, hA2, hB1] scrH = true ∧
    (remapToInput [hA1, hA2, hB1] (ptxOf [hA1, hA2, hB1] scrH) "SUPER_".toList (some jg) 11).toOption.isSome = true ∧
    remap [hA1, hA2, hB1] (ptxOf [hA1, hA2, hB1] scrH) "SUPER_".toList (some jg) 11 = .error .chrNamer := by
  refine ⟨by decide, by decide +kernel, by decide +kernel⟩

/-- not a tiling: a hole between two pieces (`convex` fails) — the map `[1,24]`, `[49,120]` of the same scaffold -/
example : ¬ Tiling 9 [{ name := "P".toList, rows :=
    [.frag { name := sN.name, start := 1, stop := 24, strand := 1 },
     .frag { name := sN.name, start := 49, stop := 120, strand := 1 }] }] := by
  intro h
  obtain ⟨m, hm, _, h1, h2⟩ := h.convex { name := sN.name, start := 1, stop := 24, strand := 1 } (by decide)
    { name := sN.name, start := 49, stop := 120, strand := 1 } (by decide) rfl 30 (by decide) (by decide)
  have : m = { name := sN.name, start := 1, stop := 24, strand := 1 } ∨
      m = { name := sN.name, start := 49, stop := 120, strand := 1 } := by
    simpa [ptxFrags, Scaffold.fragments, fragmentsOf] using hm
  rcases this with rfl | rfl
  · exact absurd h2 (by decide)
  · exact absurd h1 (by decide)

end AgpTpf.C02
