/-
  C12 / T1c — the model's `findOverlaps` IS the source's `IndexedAssembly.find_overlaps` as translated
  (`Gen.Imp.IndexedAssembly_find_overlaps`).  Helper lemmas: AgpTpf/Proofs/ImpLookup.lean.
-/
import AgpTpf.Proofs.ImpLookup
import AgpTpf.Properties.C12
namespace AgpTpf.C12
open AgpTpf

set_option linter.unusedSimpArgs false in  -- the final test is given to `simp` in every spelling on purpose
/-- the model's `findOverlaps` IS the source's `find_overlaps`, on the scaffold the name lookup returns and the index
    `add_scaffold` built — same result, same exception, for every scaffold (empty ones included), every bait and every
    `fuel > len(rows) + 1`. -/
theorem find_overlaps_is_source (sc : Scaffold) (bait : Fragment) (fuel : Nat) (hfuel : sc.rows.length + 1 < fuel)
    (byName : Str → R Scaffold) (hby : byName bait.name = .ok sc)
    (index : Str → List Int) (hidx : index bait.name = buildIndex sc.rows) :
    Gen.Imp.IndexedAssembly_find_overlaps fuel bait byName index = findOverlaps sc.rows bait := by
  unfold Gen.Imp.IndexedAssembly_find_overlaps findOverlaps
  rw [hby, hidx]
  -- `-zeta`: the source's local assignments stay `let`s, so that the search body's `m = …` can be named below
  simp -zeta only [bind, Except.bind]
  extract_lets
  have hlen : (buildIndex sc.rows).length = sc.rows.length := buildIndex_length _
  by_cases hemp : sc.rows = []
  · simp +zetaDelta [hemp]
  · have hne : sc.rows.isEmpty = false := by simpa using hemp
    have hne2 : (buildIndex sc.rows).isEmpty = false := by
      rw [List.isEmpty_eq_false_iff]; intro h; rw [h] at hlen; exact hemp (List.eq_nil_of_length_eq_zero hlen.symm)
    simp -zeta +zetaDelta only [hne, hne2, Bool.not_false, Bool.not_true, Bool.false_eq_true, if_false]
    generalize hI : buildIndex sc.rows = idx at *
    -- the search loop carries `a`, `z`, `ovr`, packed in the translator's canonical order (by type, then by name: `ovr : Option Int`
    -- first, then `a`, `z : Int`); the other orders (all by name; the order of assignment in the source) are tried too, so that the
    -- proof does not depend on which it is
    first
      | rw [ImpLookup.whileLoop_bsearch (fun a z o => (o, a, z)) idx bait.start bait.stop _ _ ?hc ?hb fuel 0 idx.length
              (Nat.le_refl _) (by omega) _ ?hs]
      | rw [ImpLookup.whileLoop_bsearch (fun a z o => (a, o, z)) idx bait.start bait.stop _ _ ?hc ?hb fuel 0 idx.length
              (Nat.le_refl _) (by omega) _ ?hs]
      | rw [ImpLookup.whileLoop_bsearch (fun a z o => (a, z, o)) idx bait.start bait.stop _ _ ?hc ?hb fuel 0 idx.length
              (Nat.le_refl _) (by omega) _ ?hs]
    case hs => rfl
    case hc => intro a z o; simp
    case hb =>
      intro a z o h1 h2
      -- name the midpoint `m` of the source and show by `omega` that it is the model's, however its arithmetic is written
      dsimp -zeta only
      extract_lets +onlyGivenNames m
      have hm : m = ((a + (z - a) / 2 : Nat) : Int) := by
        simp only [m, ImpLookup.pyDiv_two_ediv]; omega
      clear_value m
      subst hm
      unfold ImpLookup.bsStep
      have hml : a + (z - a) / 2 < idx.length := by omega
      generalize a + (z - a) / 2 = m at *
      simp only [ImpLookup.pyGet_idxAt idx m hml]
      by_cases hm0 : m = 0
      · subst hm0
        simp [rowStart]
        grind
      · have hm0' : ¬ ((m : Int) = 0) := by omega
        simp [hm0, rowStart, ImpLookup.pyGet_pred idx m hm0 (by omega)]
        grind
    have hb3 := bsearch_some idx bait.start bait.stop 0 idx.length
    cases hbs : bsearch idx bait.start bait.stop 0 idx.length with
    | none => rfl
    | some o =>
      obtain ⟨-, holt, -, -⟩ := hb3 o hbs
      simp only [Option.map_some, Int.ofNat_eq_natCast]
      have hL := (extendLeft_spec idx bait.start o).1
      have hR := extendRight_spec idx bait.stop (idx.length - (o + 1)) o
      rw [ImpLookup.forIn_extendLeft idx bait.start _ ?hbl o o (by omega) _ ?hxs _ ?hs]
      case hxs => rfl
      case hs => rfl
      case hbl =>
        intro i cur hi
        rw [ImpLookup.pyGet_idxAt idx i hi]
        simp only [decide_eq_true_eq]
        grind
      simp only []
      rw [ImpLookup.forIn_extendRight idx bait.stop _ ?hbr o _ ?hxs _ ?hs]
      case hxs => rfl
      case hs => rfl
      case hbr =>
        intro j cur hj0 hj
        have hj0' : ¬ ((j : Int) = 0) := by omega
        simp only [hj0', decide_false, ImpLookup.pyGet_pred idx j (by omega) (by omega), rowStart,
          decide_eq_true_eq]
        grind
      simp only []
      generalize extendLeft idx bait.start o o = iO at *
      generalize extendRight idx bait.stop (idx.length - (o + 1)) o = jO at *
      obtain ⟨i', hi', hi1, hi2, -, -⟩ :=
        skipGapsRight_spec sc.rows (sc.rows.length + 2) iO jO (by omega) (by omega) (by omega)
      rw [ImpLookup.whileLoop_skipRight sc.rows jO _ _ ?hc ?hb (sc.rows.length + 2) fuel iO (by omega) (by omega)]
      case hc =>
        intro i
        by_cases h : i ≤ (jO : Int) <;> simp [h] <;> cases pyGet sc.rows i <;> rfl
      case hb => intro i; simp <;> omega
      rw [hi']
      simp only [Except.map]
      obtain ⟨j', hj', hj1, hj2, -, -⟩ :=
        skipGapsLeft_spec sc.rows (sc.rows.length + 2) i' (jO : Int) (by omega) (by omega) (by omega)
      rw [ImpLookup.whileLoop_skipLeft sc.rows i' _ _ ?hc ?hb (sc.rows.length + 2) fuel jO (by omega) (by omega)]
      case hc =>
        intro j
        by_cases h : j ≥ (i' : Int) <;> simp [h] <;> cases pyGet sc.rows j <;> rfl
      case hb => intro j; simp <;> omega
      rw [hj']
      simp only [Except.map]
      -- the final test, whichever way the source spells it (`not i <= j`, `i > j`, `j < i`): `simp` gets the fact in every form
      by_cases hij : (i' : Int) ≤ j'
      · have hgt : ¬ ((i' : Int) > j') := by omega
        have hlt : ¬ (j' < (i' : Int)) := by omega
        have hge : j' ≥ (i' : Int) := hij
        rw [ImpLookup.slice_eq_pySlice sc.rows i' (j' + 1) (by omega) (by omega)]
        have e : ((i' : Int) - 1).toNat = i' - 1 := by omega
        by_cases hi0 : i' = 0
        · have hz : (i' : Int) = 0 := by omega
          simp [hij, hgt, hlt, hge, hi0, hz]
          cases pyGet idx j' <;> rfl
        · have hi0' : ¬ ((i' : Int) = 0) := by omega
          simp [hij, hgt, hlt, hge, hi0, hi0', e, ImpLookup.pyGet_pred idx i' hi0 (by omega)]
          cases pyGet idx j' <;> rfl
      · have hgt : (i' : Int) > j' := by omega
        have hlt : j' < (i' : Int) := by omega
        have hge : ¬ (j' ≥ (i' : Int)) := hij
        simp [hij, hgt, hlt, hge]
        try rfl

/-- the demo scaffold of `Properties/C12.lean` as the assembly sees it: looked up by name, with the index `add_scaffold` built -/
def demoByName : Str → R Scaffold := fun n => if n = "s".toList then .ok { name := "s".toList, rows := demo } else .error .key
def demoIndex : Str → List Int := fun n => if n = "s".toList then buildIndex demo else []

-- hypotheses are satisfiable
example : demo.length + 1 < 10 ∧ demoByName (q 17 40).name = .ok { name := "s".toList, rows := demo } ∧
    demoIndex (q 17 40).name = buildIndex demo := ⟨by decide, rfl, rfl⟩
-- the translated source, evaluated independently of the theorem
example : Gen.Imp.IndexedAssembly_find_overlaps 10 (q 17 40) demoByName demoIndex =
    .ok (some { bait := q 17 40, start := 21, stop := 26, rows := [fr "B" 1, gp 0, fr "C" 5],
                name := "matches".toList }) := by decide +kernel
example : Gen.Imp.IndexedAssembly_find_overlaps 10 (q 15 21) demoByName demoIndex = findOverlaps demo (q 15 21) := by
  decide +kernel
example : Gen.Imp.IndexedAssembly_find_overlaps 10 (q 16 20) demoByName demoIndex = .ok none := by decide +kernel
-- an empty scaffold raises ValueError on both sides (inside the theorem: no non-emptiness hypothesis)
example : Gen.Imp.IndexedAssembly_find_overlaps 3 (q 1 2) (fun _ => .ok { name := "s".toList, rows := [] }) (fun _ => []) =
    .error .value := by decide +kernel
-- with too little fuel the translated loop reports `Err.other` (why the theorem asks for `len(rows) + 1 < fuel`)
example : Gen.Imp.IndexedAssembly_find_overlaps 2 (q 17 40) demoByName demoIndex = .error .other := by decide +kernel

/-- … and a failing name lookup fails the same way -/
theorem find_overlaps_unknown_scaffold (bait : Fragment) (fuel : Nat) (byName : Str → R Scaffold) (e : Err)
    (hby : byName bait.name = .error e) (index : Str → List Int) :
    Gen.Imp.IndexedAssembly_find_overlaps fuel bait byName index = .error e := by
  unfold Gen.Imp.IndexedAssembly_find_overlaps
  rw [hby]
  rfl

example : demoByName ({ q 1 6 with name := "nosuch".toList }).name = .error .key := rfl
example : Gen.Imp.IndexedAssembly_find_overlaps 10 { q 1 6 with name := "nosuch".toList } demoByName demoIndex =
    .error .key := by decide +kernel

/-- the SOURCE's lookup equals the brute-force scan of the scaffold (`find_overlaps_spec_strong` carried over to the
    translated source): for every non-empty scaffold with non-negative row lengths and every bait it does not raise and
    returns exactly `bruteForce`. -/
theorem source_find_overlaps_is_brute_force (sc : Scaffold) (bait : Fragment) (fuel : Nat)
    (hfuel : sc.rows.length + 1 < fuel)
    (byName : Str → R Scaffold) (hby : byName bait.name = .ok sc)
    (index : Str → List Int) (hidx : index bait.name = buildIndex sc.rows)
    (hne : sc.rows ≠ []) (hlen : ∀ r ∈ sc.rows, 0 ≤ r.length) :
    Gen.Imp.IndexedAssembly_find_overlaps fuel bait byName index = .ok (bruteForce sc.rows bait) := by
  rw [find_overlaps_is_source sc bait fuel hfuel byName hby index hidx]
  exact find_overlaps_spec_strong sc.rows bait hne hlen

example : demo ≠ [] ∧ (∀ r ∈ demo, 0 ≤ r.length) := by decide
example : Gen.Imp.IndexedAssembly_find_overlaps 10 (q 1 6) demoByName demoIndex = .ok (bruteForce demo (q 1 6)) := by
  decide +kernel

end AgpTpf.C12
