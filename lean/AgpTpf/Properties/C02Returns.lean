/-
  C02, first clause, LAST STAGE — `remap` RETURNS for every well-formed PretextView script (task W8-C02RET).

  `C02NoError.lean` (N2) proved that `remap_to_input_assembly` never raises on a well-formed script.  This file adds the
  missing FORWARD lemmas for `assemblies_with_scaffolds_fused` and composes them.

  Python: `BuildAssembly.assemblies_with_scaffolds_fused`, `scaffolds_fused_by_name` (build_assembly.py),
  `ChrNamer.build_groups / check_groups / name_chromosomes` (build_utils.py), `Assembly.smart_sort_scaffolds`
  (assembly.py), `AssemblyStats.make_stats`, `Scaffold.junction_set`, `Fragment.junction_tuple` (assembly_stats.py,
  scaffold.py, fragment.py), `ScaffoldNamer.make_scaffold_name / label_scaffold`.
  Helpers (all new): `Proofs/C02RTail` (split loop / `name_chromosomes` keep `rows`; the sort + statistics tail returns
  when all strands are ±1; `haplotypes_seen` of the split loop), `C02RStrand` (T3), `C02RLabel` (label fields of the
  stored results of a map of untagged / `Painted` scaffolds), `C02RMain` (labels of fused scaffolds; scripts).

  `assemblies_with_scaffolds_fused` can raise only at (1) `build_groups` (an `original_name` missing), (2) `check_groups`
  (`ChrNamerError`), (3) `length_of_first_haplotype` (same shapes as 2), (4) `smart_sort_scaffolds` (total: C20),
  (5) `make_stats` (a strand ∉ {1, −1} next to another fragment).

  PROVED, all at full strength for the stated hypotheses (no `_partial` theorem in this file):

    T1  `assemblies_fused_returns_unranked`          ANY build: no fused scaffold of rank 1 (so `haplotypes_seen = []`,
                                                     `ChrNamer` is skipped) and all strands of fused and input fragments ±1
                                                     ⇒ `assemblies_with_scaffolds_fused` returns.
    T2  `assemblies_fused_returns_single_haplotype`  ANY build: all rank-1 fused scaffolds have ONE `ChrNamer` key
                                                     `pyStrOpt (routeKey tag haplotype)` and a non-empty `original_name`
                                                     (T1 is the case "no rank-1 scaffold"), strands ±1 ⇒ it returns.
        `assemblies_fused_missing_original_name_raises`   the hypothesis on `original_name` is necessary: one haplotype
                                                     key and a rank-1 scaffold without `original_name` ⇒ `ValueError`.
    T3  `fused_fragment_origin`                      ANY build: a fragment row of a fused scaffold is a row of
                                                     `to_scaffold()` of an added, non-empty stored result or of a left-over;
        `fused_fragments_strands`                    the build of `remap_to_input_assembly` on a well-formed input: every
                                                     fragment of every fused scaffold lies inside an input fragment of
                                                     the same contig, with that fragment's strand or its negation —
                                                     hence strand ±1 when the input has.
    L   `stored_result_labels`                       ANY map whose Pretext scaffolds carry no tag, or just `Painted`
                                                     (`plainScaffold_iff`): every stored result is untagged and has a
                                                     non-empty `original_name`; rank 3 if no scaffold is painted;
                                                     haplotype `h0` if every first row names a scaffold whose name
                                                     yields `h0` (`none`: no haplotype shape).
    T4  **`script_remap_ok`**                        `wfScript`, the input hypotheses of N2, join gap configured, and
                                                     EITHER no group painted OR no input scaffold NAME of the shape
                                                     `<hap>_…_<digits>` (then painted, unpainted and MIXED maps: T5 is
                                                     included) ⇒ `remap input (ptxOf input s) prefix (some jg) errLen`
                                                     returns.
    T4' `script_remap_ok_uniform`                    more generally: … OR all input scaffold names yield ONE haplotype
                                                     `h0` (`hapPrefixOfName sc.name = h0` for all; `h0 = none` is T4,
                                                     `h0 = some "HAP1"` a single named haplotype) — sharp: one name with
                                                     and two without haplotype shape can raise
                                                     (`painted_none_none_hap_raises`).
        `tiling_remap_ok`                            the same for ANY tiling map of plain scaffolds (not only scripts).
    D   `script_ptx_disjoint`                        the pieces of a well-formed script are pairwise disjoint.
    C   **`script_c02`**                             the first clause of C02 with hypotheses on input and script only
                                                     (those of T4'):
                                                     `remap` completes, AND K2 (`remap_keeps_core`), K3
                                                     (`remap_core_in_one_scaffold`), O2 (`remap_pretext_order`), K4
                                                     (`deep_cut_exact_any_map`) hold of its result.

  FINDINGS.  No statement was found false of the model.
    F1  The hypothesis of the painted case is about input SCAFFOLD names only.  Left-over scaffolds take their haplotype
        from the first CONTIG name (`make_scaffold_name` on the left-over's rows: `first_row.name` is a contig there), so
        a haplotype-shaped contig name sends a left-over to another assembly — but left-overs have rank 3 and never reach
        `ChrNamer`, so this cannot make `remap` raise (checked on the real code: 6 000 random scripts, mixed painting,
        haplotype-shaped contig names, 0 errors).
    F1' A map mixing scaffold names with and without the haplotype shape is rejected by `check_groups` just like two
        haplotypes are (haplotype keys `None`, `None`, `B`): `painted_none_none_hap_raises`; by design — the real code
        raises `ChrNamerError` on that very input, and on 41 of about 1 300 random painted scripts over such inputs; none
        over inputs whose names all carry one haplotype.  (On the real code this also holds when the spellings differ
        in case only — `HAP1`, `Hap1`: the namer registers the first spelling; T4' is proved for equal spellings.)
    F2  Unpainted maps never raise whatever the names (rank 3 everywhere: `ChrNamer` is not entered), e.g. the input of
        `painted_two_haplotypes_raises` with the paint removed: `unpainted_two_haplotypes_returns`.
-/
import AgpTpf.Proofs.C02RMain
import AgpTpf.Properties.C02NoError
import AgpTpf.Properties.C02Order
import AgpTpf.Properties.C10
namespace AgpTpf.C02
open AgpTpf AgpTpf.Pretext OverlapResult
open AgpTpf.C01 (WFInput inputFrags)
open AgpTpf.C09 (routeKey)

/-! ## T1, T2 — any build -/

/-- **T2.**  If all fused scaffolds of rank 1 — the ones handed to `ChrNamer` — have the same key
    `h = str(tag or haplotype or None)` and each has a non-empty `original_name`, and every fragment of every fused
    scaffold and of the input has strand ±1, then `assemblies_with_scaffolds_fused` returns. -/
theorem assemblies_fused_returns_single_haplotype (input : List Scaffold) (b : Build) (h : Str)
    (hk : ∀ s ∈ fuseByName b, s.rank = 1 →
      pyStrOpt (routeKey s.tag s.haplotype) = h ∧ truthy s.originalName = true)
    (hfs : ∀ s ∈ fuseByName b, ∀ f ∈ s.fragments, f.strand = 1 ∨ f.strand = -1)
    (hin : ∀ sc ∈ input, ∀ f ∈ sc.fragments, f.strand = 1 ∨ f.strand = -1) :
    ∃ outs stats, assembliesFused input b = .ok (outs, stats) :=
  C02R.assembliesFused_ok_single input b h hk
    (fun s hs f hf => hfs s hs f ((C02R.mem_fragments_iff s f).2 hf))
    (fun sc hsc f hf => hin sc hsc f ((C02R.mem_fragments_iff sc f).2 hf))

/-- **T1.**  No fused scaffold of rank 1, all strands ±1 ⇒ `assemblies_with_scaffolds_fused` returns. -/
theorem assemblies_fused_returns_unranked (input : List Scaffold) (b : Build)
    (hrank : ∀ s ∈ fuseByName b, s.rank ≠ 1)
    (hfs : ∀ s ∈ fuseByName b, ∀ f ∈ s.fragments, f.strand = 1 ∨ f.strand = -1)
    (hin : ∀ sc ∈ input, ∀ f ∈ sc.fragments, f.strand = 1 ∨ f.strand = -1) :
    ∃ outs stats, assembliesFused input b = .ok (outs, stats) :=
  assemblies_fused_returns_single_haplotype input b [] (fun s hs hr => absurd hr (hrank s hs)) hfs hin

/-- `routeKey` (C09) is the key the split loop computes: the tag if truthy, else the haplotype if truthy, else `None` -/
theorem routeKey_def (tag hap : Option Str) :
    routeKey tag hap = if truthy tag then tag else if truthy hap then hap else none := rfl

/-- the hypothesis on `original_name` cannot be dropped: with one haplotype key, a rank-1 fused scaffold without
    `original_name` makes `build_groups` raise `ValueError` -/
theorem assemblies_fused_missing_original_name_raises (input : List Scaffold) (b : Build) (h : Str)
    (hk : ∀ s ∈ fuseByName b, s.rank = 1 → pyStrOpt (routeKey s.tag s.haplotype) = h)
    (hbad : ∃ s ∈ fuseByName b, s.rank = 1 ∧ truthy s.originalName = false) :
    assembliesFused input b = .error .value := by
  rw [C09.assembliesFused_eq]
  generalize hst : C09.splitLoop b.namer.autosomePrefix (fuseByName b) = st
  obtain ⟨asms, entries, haps, fs⟩ := st
  obtain ⟨s, hs, hr, hbad⟩ := hbad
  obtain ⟨j, hj, rfl⟩ := List.mem_iff_getElem.1 hs
  have hgd : (fuseByName b).getD j default = (fuseByName b)[j] := by
    rw [List.getD_eq_getElem?_getD, List.getElem?_eq_getElem hj]; rfl
  have hent : (h, j) ∈ entries := by
    have : (h, j) ∈ (C09.splitLoop b.namer.autosomePrefix (fuseByName b)).2.1 := by
      rw [C10U.mem_entries]
      refine ⟨hj, by rw [hgd]; exact hr, ?_⟩
      rw [hgd, C09.asmKey_fst]; exact (hk _ hs hr).symm
    rw [hst] at this; exact this
  have hsingle := C02R.splitLoop_haps_single b.namer.autosomePrefix (fuseByName b) h hk
  rw [hst] at hsingle
  rcases hsingle with ⟨e1, _⟩ | ⟨_, e2⟩
  · simp only at e1; rw [e1] at hent; cases hent
  · simp only at e2; subst e2
    have hall : ∀ e ∈ entries, e.1 = h := by
      intro e he
      have he' : e ∈ (C09.splitLoop b.namer.autosomePrefix (fuseByName b)).2.1 := by rw [hst]; exact he
      obtain ⟨hlt, hr', hk'⟩ := (C10U.mem_entries _ _ e).1 he'
      have hm : (fuseByName b).getD e.2 default ∈ fuseByName b := by
        rw [List.getD_eq_getElem?_getD, List.getElem?_eq_getElem hlt]; exact List.getElem_mem hlt
      rw [hk', C09.asmKey_fst]; exact hk _ hm hr'
    have hfalse : ∃ e ∈ entries, truthy (fs.getD e.2 default).originalName = false := by
      refine ⟨(h, j), hent, ?_⟩
      have hg := (C10U.splitLoop_spec b.namer.autosomePrefix (fuseByName b)).1 j
      rw [hst] at hg
      simp only at hg
      rw [hg, (C10U.pfx_fields _ _).2.2.2.1, hgd]
      exact hbad
    rw [C10.finishAssemblies_eq_name]
    have hne : ¬ ([h] : List Str).isEmpty = true := by simp
    rw [if_neg hne]
    unfold C10.nameChromosomes
    rw [(C10.build_groups_single fs h entries (fun e => by rw [e] at hent; cases hent) hall).2 hfalse]
    rfl

/-! ### T1 / T2, non-vacuity: C02Order's build (two scaffolds of rank 0) and a painted variant (rank 1, key "None") -/

private def rjg : Gap := { length := 200, gapType := "scaffold".toList }
private def rfa : Fragment := { oid := 1, name := ['a'], start := 1, stop := 10, strand := 1 }
private def rfb : Fragment := { oid := 2, name := ['b'], start := 1, stop := 20, strand := -1 }
private def rfc : Fragment := { oid := 3, name := ['c'], start := 1, stop := 5, strand := 1 }
private def rbx (rank : Int) (orig : Bool) : Build :=
  { namer := { autosomePrefix := "SUPER_".toList }, nextOid := 5, joinGap := some rjg, err := 1,
    store := [ { o := { bait := { rfa with strand := -1 }, start := 1, stop := 10, rows := [.frag rfa], name := ['S'],
                        rank := rank, originalName := if orig then some ['S'] else none }, added := true },
               { o := { bait := rfb, start := 1, stop := 20, rows := [.frag rfb], name := ['T'],
                        rank := rank, originalName := if orig then some ['T'] else none }, added := true } ],
    extra := [ ({ name := ['S'], rows := [.frag rfc], rank := 3 }, none) ] }
private def rinp : List Scaffold := [{ name := ['i'], rows := [.frag rfa, .gap rjg, .frag rfb, .frag rfc] }]

example : ∃ outs stats, assembliesFused rinp (rbx 3 false) = .ok (outs, stats) :=
  assemblies_fused_returns_unranked rinp (rbx 3 false) (by decide) (by decide) (by decide)
example : ∃ outs stats, assembliesFused rinp (rbx 1 true) = .ok (outs, stats) :=
  assemblies_fused_returns_single_haplotype rinp (rbx 1 true) sNone (by decide) (by decide) (by decide)
/-- … and the kernel's view of the second one: the two painted scaffolds are numbered by size (`T`, 20 bp, before `S`,
    15 bp with its left-over) -/
example : (assembliesFused rinp (rbx 1 true)).toOption.map
      (fun r => r.1.map (fun a => (a.key, a.scaffolds.map (·.name)))) =
    some [(none, ["SUPER_1".toList, "SUPER_2".toList])] := by decide +kernel
example : assembliesFused rinp (rbx 1 false) = .error .value :=
  assemblies_fused_missing_original_name_raises rinp (rbx 1 false) sNone (by decide) (by decide)

/-! ## T3 — the fragments of the fused scaffolds -/

/-- **T3, structural (ANY build).**  A fragment row of a fused scaffold is a row of `to_scaffold()` of an added,
    non-empty stored result, or a row of a left-over scaffold (separators are gap rows). -/
theorem fused_fragment_origin (b : Build) : ∀ s ∈ fuseByName b, ∀ f, Row.frag f ∈ s.rows →
    (∃ r ∈ b.store, r.added = true ∧ r.o.rows ≠ [] ∧ Row.frag f ∈ r.o.toScaffoldRows) ∨
    (∃ e ∈ b.extra, Row.frag f ∈ e.1.rows) :=
  C02R.fused_fragment_origin b

/-- `to_scaffold()` keeps a fragment row or negates its strand -/
theorem to_scaffold_fragment (o : OverlapResult) (f : Fragment) (h : Row.frag f ∈ o.toScaffoldRows) :
    Row.frag f ∈ o.rows ∨ ∃ g, Row.frag g ∈ o.rows ∧ f = g.reverse :=
  C02R.frag_of_toScaffoldRows o f h

/-- **T3.**  `input` well-formed, `b` the build `remap_to_input_assembly` returned (ANY map).  Every fragment `f` of every
    fused scaffold lies inside an input fragment `F` of the same contig and has `F`'s strand or its negation (rows of
    results are source rows, terminal ones re-created by `trim_fragment` with the same strand; `to_scaffold` negates the
    strands of a minus piece); hence strand ±1 when the input has. -/
theorem fused_fragments_strands (input ptx : List Scaffold) (prefix_ : Str) (joinGap : Option Gap) (err : Int) (b : Build)
    (hwf : WFInput input) (h : remapToInput input ptx prefix_ joinGap err = .ok b) :
    (∀ s ∈ fuseByName b, ∀ f ∈ s.fragments, ∃ F ∈ inputFrags input, f.name = F.name ∧ F.start ≤ f.start ∧
      f.stop ≤ F.stop ∧ f.start ≤ f.stop ∧ (f.strand = F.strand ∨ f.strand = -1 * F.strand)) ∧
    ((∀ f ∈ inputFrags input, f.strand = 1 ∨ f.strand = -1) →
      ∀ s ∈ fuseByName b, ∀ f ∈ s.fragments, f.strand = 1 ∨ f.strand = -1) := by
  have key := C02R.fused_fromInput input ptx prefix_ joinGap err b hwf h
  refine ⟨fun s hs f hf => key s hs f ((C02R.mem_fragments_iff s f).1 hf), ?_⟩
  intro hstr s hs f hf
  exact C02R.strOK_of_fromInput input s.rows hstr (key s hs) f ((C02R.mem_fragments_iff s f).1 hf)

/-! ## L — the labels of the stored results -/

/-- `C02R.ScOK unp hp S` (`Proofs/C02RLabel.lean`): a Pretext scaffold with a name, whose tag set is empty or
    `{Painted}` (empty when `unp`), whose fragments carry no tag or just `Painted`, and whose first row is a fragment —
    naming, when `hp = some h0`, something whose name yields the haplotype `h0` (`h0 = none`: not of the haplotype shape
    `<hap>_…_<digits>`) -/
theorem plainScaffold_iff (unp : Bool) (hp : Option (Option Str)) (S : Scaffold) :
    C02R.ScOK unp hp S ↔
      S.name ≠ [] ∧ (S.fragmentTags = [] ∨ S.fragmentTags = [sPainted]) ∧ (unp = true → S.fragmentTags = []) ∧
      (∀ p ∈ S.fragments, p.tags = [] ∨ p.tags = [sPainted]) ∧
      ∃ nm, firstRowName S.rows = .ok nm ∧ (∀ h0, hp = some h0 → hapPrefixOfName nm = h0) :=
  ⟨fun h => ⟨h.name, h.stags, h.unp, h.ptags, h.first⟩, fun ⟨a, b, c, d, e⟩ => ⟨a, b, c, d, e⟩⟩

/-- **L.**  ANY map of plain scaffolds for which `remap_to_input_assembly` returns `b`: every stored result has no tag
    and a non-empty `original_name`; its rank is 3 when no scaffold is painted (`unp`); its haplotype is `h0` when every
    first row's name yields `h0` (`hp = some h0`). -/
theorem stored_result_labels (unp : Bool) (hp : Option (Option Str)) (input ptx : List Scaffold) (prefix_ : Str)
    (joinGap : Option Gap) (err : Int) (b : Build) (hsc : ∀ S ∈ ptx, C02R.ScOK unp hp S)
    (h : remapToInput input ptx prefix_ joinGap err = .ok b) :
    ∀ r ∈ b.store, r.o.tag = none ∧ truthy r.o.originalName = true ∧ (unp = true → r.o.rank = 3) ∧
      (∀ h0, hp = some h0 → r.o.haplotype = h0) :=
  fun r hr => (C02R.labOK_iff unp hp r).1 (C02R.remapToInput_labOK unp hp input ptx prefix_ joinGap err b hsc h r hr)

/-! ## T4 — `remap` returns -/

/-- **T4 for any tiling map of plain scaffolds** (hypotheses of N2g `remap_to_input_ok_for_tiling`, plus: every Pretext
    scaffold is plain, and either none is painted or all first rows name scaffolds of one haplotype `h0`). -/
theorem tiling_remap_ok (input ptx : List Scaffold) (prefix_ : Str) (jg : Gap) (err : Int)
    (hwf : WFInput input) (hnn : InputNonNeg input) (hstr : ∀ f ∈ inputFrags input, f.strand = 1 ∨ f.strand = -1)
    (hrows : ∀ sc ∈ input, sc.rows ≠ []) (hut : ∀ sc ∈ input, ∀ f ∈ sc.fragments, f.tags = [])
    (herr : 0 ≤ err) (hT : Tiling err ptx) (hp : ∀ S ∈ ptx, PtxScafOk input S)
    (unp : Bool) (hap : Option (Option Str)) (hmode : unp = true ∨ ∃ h0, hap = some h0)
    (hplain : ∀ S ∈ ptx, C02R.ScOK unp hap S) :
    ∃ outs stats, remap input ptx prefix_ (some jg) err = .ok (outs, stats) := by
  obtain ⟨b, hb⟩ := remap_to_input_ok_for_tiling input ptx prefix_ jg err hwf hnn hstr hrows hut herr hT hp
  obtain ⟨outs, stats, hres⟩ := C02R.assembliesFused_ok_of_remapToInput input ptx prefix_ (some jg) err b unp hap hmode
    hwf hstr hplain hb
  exact ⟨outs, stats, C02R.remap_eq_of input ptx prefix_ (some jg) err b _ hb hres⟩

/-- **T4' — `remap` returns for every well-formed script, one haplotype.**  As T4 below, with the second alternative
    generalised: ALL input scaffold names yield the same haplotype `h0` (`hapPrefixOfName sc.name = h0`: all without the
    shape `<hap>_…_<digits>`, or all with the same `<hap>`). -/
theorem script_remap_ok_uniform {input : List Scaffold} {s : Script} (hw : wfScript input s = true)
    (hwf : WFInput input) (hnn : InputNonNeg input) (hstr : ∀ f ∈ inputFrags input, f.strand = 1 ∨ f.strand = -1)
    (hrows : ∀ sc ∈ input, sc.rows ≠ []) (hut : ∀ sc ∈ input, ∀ f ∈ sc.fragments, f.tags = [])
    (hmode : (∀ g ∈ s.groups, g.painted = false) ∨ ∃ h0, ∀ sc ∈ input, hapPrefixOfName sc.name = h0)
    (prefix_ : Str) (jg : Gap) :
    ∃ outs stats, remap input (ptxOf input s) prefix_ (some jg) (errLen s.p s.q : Int) = .ok (outs, stats) := by
  have hW := wfScript_spec hw
  rcases hmode with hu | ⟨h0, hn⟩
  · exact tiling_remap_ok input _ prefix_ jg _ hwf hnn hstr hrows hut (by omega) (script_map_is_tiling hw hwf.1)
      (script_ptx_ok hW) true none (Or.inl rfl)
      (C02R.script_scOK hW true none (fun _ => hu) (fun _ h => by cases h))
  · exact tiling_remap_ok input _ prefix_ jg _ hwf hnn hstr hrows hut (by omega) (script_map_is_tiling hw hwf.1)
      (script_ptx_ok hW) false (some h0) (Or.inr ⟨h0, rfl⟩)
      (C02R.script_scOK hW false (some h0) (fun h => by cases h) (fun h1 e => by cases e; exact hn))

/-- **T4 — for every well-formed PretextView script `remap` RETURNS.**  `wfScript input s`; the input hypotheses of N2
    (`WFInput`, no gap of negative length, contigs forward or reverse, every scaffold has a row, contigs untagged); a join
    gap; and EITHER no group of the script is painted, OR no input scaffold name has the haplotype shape
    `<hap>_…_<digits>` (`hapPrefixOfName = none`: a single, empty haplotype) — then groups may be painted, unpainted, or
    mixed (T5).  Any texel size, any cuts, any order / orientation / grouping of the pieces. -/
theorem script_remap_ok {input : List Scaffold} {s : Script} (hw : wfScript input s = true)
    (hwf : WFInput input) (hnn : InputNonNeg input) (hstr : ∀ f ∈ inputFrags input, f.strand = 1 ∨ f.strand = -1)
    (hrows : ∀ sc ∈ input, sc.rows ≠ []) (hut : ∀ sc ∈ input, ∀ f ∈ sc.fragments, f.tags = [])
    (hmode : (∀ g ∈ s.groups, g.painted = false) ∨ (∀ sc ∈ input, hapPrefixOfName sc.name = none))
    (prefix_ : Str) (jg : Gap) :
    ∃ outs stats, remap input (ptxOf input s) prefix_ (some jg) (errLen s.p s.q : Int) = .ok (outs, stats) :=
  script_remap_ok_uniform hw hwf hnn hstr hrows hut (hmode.imp id (fun h => ⟨none, h⟩)) prefix_ jg

/-! ## D — the pieces of a script are disjoint -/

/-- **D.**  The pieces of a well-formed script over an input with pairwise different scaffold names are pairwise
    disjoint (the `disjoint` clause of `script_map_is_tiling`, itself from `script_pieces_tile`). -/
theorem script_ptx_disjoint {input : List Scaffold} {s : Script} (hw : wfScript input s = true)
    (hn : (input.map (·.name)).Nodup) : PtxDisjoint (ptxOf input s) :=
  (script_map_is_tiling hw hn).disjoint

/-! ## C — the first clause of C02, hypotheses on the input and the script only -/

/-- **C02, first clause.**  For every well-formed script `s` over a well-formed input (hypotheses of T4'), with
    `ptx = ptxOf input s` and `err = errLen s.p s.q = 1 + ⌊bp per texel⌋`:
    `remap` COMPLETES with some `(outs, stats)`, `remap_to_input_assembly` having returned `b`, and
    * K2 (`remap_keeps_core`): the `sid`-th stored result belongs to the `sid`-th piece; it satisfies `KInv` (a contiguous
      run of the input scaffold's rows, only terminal fragments shortened, ends on a row boundary or at the bait
      coordinate); every contig base in the core `[start + 3·err, stop − 3·err]` of the piece is inside the result, and
      every contig row with a base in the core is still a row of it (`RowKept`);
    * K3 (`remap_core_in_one_scaffold`): a piece whose core holds a contig base is written as ONE contiguous block of rows
      of ONE scaffold of the output assembly `routeKey tag haplotype`, oriented by the piece's strand, and no other place
      of the output holds sequence of it;
    * O2 (`remap_pretext_order`): output keys are pairwise different, and two pieces `i < j` (Pretext order) with the same
      destination key lie in one output scaffold, all rows of `i` before all rows of `j`;
    * K4 (`deep_cut_exact_any_map`): a cut deeper than `3·err` inside a contig, between two pieces of at least `err`
      bases, splits the contig exactly at the designated coordinate. -/
theorem script_c02 {input : List Scaffold} {s : Script} (hw : wfScript input s = true)
    (hwf : WFInput input) (hnn : InputNonNeg input) (hstr : ∀ f ∈ inputFrags input, f.strand = 1 ∨ f.strand = -1)
    (hrows : ∀ sc ∈ input, sc.rows ≠ []) (hut : ∀ sc ∈ input, ∀ f ∈ sc.fragments, f.tags = [])
    (hmode : (∀ g ∈ s.groups, g.painted = false) ∨ ∃ h0, ∀ sc ∈ input, hapPrefixOfName sc.name = h0)
    (prefix_ : Str) (jg : Gap) :
    ∃ outs stats b,
      remap input (ptxOf input s) prefix_ (some jg) (errLen s.p s.q : Int) = .ok (outs, stats) ∧
      remapToInput input (ptxOf input s) prefix_ (some jg) (errLen s.p s.q : Int) = .ok b ∧
      -- K2
      (b.store.length = (C09.pieces input false (ptxOf input s)).length ∧
       ∀ (sid : Nat) (c : Bool × Scaffold × Fragment), (C09.pieces input false (ptxOf input s))[sid]? = some c →
        ∃ r sc o0, b.store[sid]? = some r ∧ r.o.bait = c.2.2 ∧
          sc ∈ input ∧ sc.name = c.2.2.name ∧ findOverlaps sc.rows c.2.2 = .ok (some o0) ∧
          KInv sc.rows (3 * (errLen s.p s.q : Int)) o0.start o0.stop c.2.2 r.o ∧
          (∀ x, ContigAt sc.rows x → c.2.2.start + 3 * (errLen s.p s.q : Int) ≤ x →
            x ≤ c.2.2.stop - 3 * (errLen s.p s.q : Int) → r.o.start ≤ x ∧ x ≤ r.o.stop) ∧
          (∀ (X Y : List Row) (f : Fragment) (x : Int), sc.rows = X ++ .frag f :: Y →
            rowsLength X < x → x ≤ rowsLength X + f.length → c.2.2.start + 3 * (errLen s.p s.q : Int) ≤ x →
            x ≤ c.2.2.stop - 3 * (errLen s.p s.q : Int) →
            ∃ L row R dl dr, RowKept r.o f (rowsLength X) L row R dl dr)) ∧
      -- K3
      (∀ (sid : Nat) (c : Bool × Scaffold × Fragment), (C09.pieces input false (ptxOf input s))[sid]? = some c →
        ∃ r sc, b.store[sid]? = some r ∧ r.o.bait = c.2.2 ∧ sc ∈ input ∧ sc.name = c.2.2.name ∧
          ∀ x, ContigAt sc.rows x → c.2.2.start + 3 * (errLen s.p s.q : Int) ≤ x →
            x ≤ c.2.2.stop - 3 * (errLen s.p s.q : Int) →
            r.o.rows ≠ [] ∧ r.added = true ∧
            ∃ a ∈ outs, a.key = routeKey r.o.tag r.o.haplotype ∧
              ∃ sf ∈ a.scaffolds, sf.tag = r.o.tag ∧ sf.haplotype = r.o.haplotype ∧ r.o.toScaffoldRows <:+: sf.rows ∧
                ((c.2.2.strand = 1 ∨ c.2.2.strand = -1) →
                  r.o.toScaffoldRows =
                    (if c.2.2.strand = -1 then r.o.rows.reverse else r.o.rows).map (orientRow c.2.2.strand)) ∧
                (∀ a' ∈ outs, ∀ s' ∈ a'.scaffolds, ∀ g f', Row.frag g ∈ r.o.toScaffoldRows → Row.frag f' ∈ s'.rows →
                  f'.name = g.name → (∃ y, g.start ≤ y ∧ y ≤ g.stop ∧ f'.start ≤ y ∧ y ≤ f'.stop) →
                  a' = a ∧ s' = sf)) ∧
      -- O2
      ((outs.map (·.key)).Nodup ∧
       ∀ (i j : Nat) (ri rj : Res), i < j → b.store[i]? = some ri → b.store[j]? = some rj →
        ri.added = true → ri.o.rows ≠ [] → rj.added = true → rj.o.rows ≠ [] →
        (ri.o.tag, ri.o.haplotype, ri.o.name) = (rj.o.tag, rj.o.haplotype, rj.o.name) →
        ∃ s0 ∈ fuseByName b, C09.triple s0 = (ri.o.tag, ri.o.haplotype, ri.o.name) ∧
          (∀ s1 ∈ fuseByName b, C09.triple s1 = (ri.o.tag, ri.o.haplotype, ri.o.name) → s1 = s0) ∧
          ∃ a ∈ outs, a.key = routeKey ri.o.tag ri.o.haplotype ∧
            ∃ sf ∈ a.scaffolds, C09.noName sf = C09.noName s0 ∧ sf.tag = ri.o.tag ∧ sf.haplotype = ri.o.haplotype ∧
              ∃ A B C, sf.rows = A ++ ri.o.toScaffoldRows ++ B ++ rj.o.toScaffoldRows ++ C) ∧
      -- K4
      (∀ (i j : Nat) (r1 r2 : Res) (c : Int) (sc : Scaffold) (X Y : List Row) (f : Fragment),
        i ≠ j → b.store[i]? = some r1 → b.store[j]? = some r2 → r1.o.bait.stop = c → r2.o.bait.start = c + 1 →
        sc ∈ input → sc.name = r1.o.bait.name → sc.name = r2.o.bait.name → sc.rows = X ++ .frag f :: Y →
        rowsLength X + 1 + 3 * (errLen s.p s.q : Int) < c → c < rowsLength X + f.length - 3 * (errLen s.p s.q : Int) →
        r1.o.bait.start ≤ c → r1.o.bait.start + (errLen s.p s.q : Int) ≤ c + 1 → c + 1 ≤ r2.o.bait.stop →
        c + (errLen s.p s.q : Int) ≤ r2.o.bait.stop →
        ∃ L g1 g2 R, r1.o.rows = L ++ [.frag g1] ∧ r2.o.rows = .frag g2 :: R ∧ r1.o.stop = c ∧ r2.o.start = c + 1 ∧
          g1.name = f.name ∧ g2.name = f.name ∧ g1.strand = f.strand ∧ g2.strand = f.strand ∧
          (if f.strand = 1 then g1.stop = f.stop - (rowsLength X + f.length - c) ∧ g2.start = g1.stop + 1
           else g1.start = f.start + (rowsLength X + f.length - c) ∧ g2.stop + 1 = g1.start)) := by
  obtain ⟨outs, stats, hres⟩ := script_remap_ok_uniform hw hwf hnn hstr hrows hut hmode prefix_ jg
  have hdis := script_ptx_disjoint hw hwf.1
  have herr : (0 : Int) ≤ (errLen s.p s.q : Int) := by omega
  obtain ⟨b, hb, _⟩ := C09.remap_split _ _ _ _ _ outs stats hres
  refine ⟨outs, stats, b, hres, hb, ?_, ?_, ?_, ?_⟩
  · exact remap_keeps_core input _ prefix_ (some jg) _ b hwf hnn hdis herr hb
  · obtain ⟨b', hb', h3⟩ := remap_core_in_one_scaffold input _ prefix_ (some jg) _ outs stats hwf hnn hdis herr hres
    have e : b' = b := Except.ok.inj (hb'.symm.trans hb)
    subst e
    exact h3
  · obtain ⟨b', hb', hnd, hord⟩ := remap_pretext_order input _ prefix_ (some jg) _ outs stats hres
    have e : b' = b := Except.ok.inj (hb'.symm.trans hb)
    subst e
    exact ⟨hnd, hord⟩
  · intro i j r1 r2 c sc X Y f hne hi hj hc1 hc2 hsc hn1 hn2 hs hd1 hd2 hp1 hl1 hp2 hl2
    exact deep_cut_exact_any_map input _ prefix_ (some jg) _ b hwf hnn hdis herr hb hne hi hj hc1 hc2 hsc hn1 hn2 hs
      hd1 hd2 hp1 hl1 hp2 hl2

/-! ## non-vacuity: the 170 bp example of `C02NoError.lean`, unpainted / painted / mixed -/

private def g10 : Gap := { length := 10, gapType := "scaffold".toList }
private def jg : Gap := { length := 200, gapType := "scaffold".toList }
private def f1 : Fragment := { oid := 1, name := "ctgF".toList, start := 1, stop := 100, strand := 1 }
private def f2 : Fragment := { oid := 2, name := "ctgG".toList, start := 1, stop := 60, strand := -1 }
/-- 170 bp: F 1-100 (forward), gap, G 111-170 (reverse) -/
private def sN : Scaffold := { name := "scaffold_1".toList, rows := [.frag f1, .gap g10, .frag f2] }
/-- texel 8 bp (`errLen = 9`), 21 texels, cut after texels 3, 6, 17: pieces `[1,24]`, `[25,48]`, `[49,136]`, `[137,168]`;
    shuffled, two reversed, regrouped into two Pretext scaffolds; `pa`, `pb` = the groups are painted -/
private def scr (pa pb : Bool) : Script :=
  { p := 8, q := 1, scafs := [{ T := 21, cuts := [3, 6, 17] }],
    groups := [{ items := [{ sc := 0, k := 2, minus := true }, { sc := 0, k := 0 }], painted := pa },
               { items := [{ sc := 0, k := 3 }, { sc := 0, k := 1, minus := true }], painted := pb }] }

example : ∀ pa pb, wfScript [sN] (scr pa pb) = true := by decide
example : WFInput [sN] ∧ InputNonNeg [sN] ∧ (∀ f ∈ inputFrags [sN], f.strand = 1 ∨ f.strand = -1) ∧
    (∀ sc ∈ [sN], sc.rows ≠ []) ∧ (∀ sc ∈ [sN], ∀ f ∈ sc.fragments, f.tags = []) ∧
    (∀ sc ∈ [sN], hapPrefixOfName sc.name = none) := by
  refine ⟨by decide, by decide, by decide, by decide, by decide, by decide⟩

/-- T4 instantiated, unpainted: first alternative of `hmode` -/
example : ∃ outs stats, remap [sN] (ptxOf [sN] (scr false false)) "SUPER_".toList (some jg)
    (errLen (scr false false).p (scr false false).q : Int) = .ok (outs, stats) :=
  script_remap_ok (s := scr false false) (by decide) (by decide) (by decide) (by decide) (by decide) (by decide)
    (Or.inl (by decide)) _ jg

/-- T4 instantiated, painted / mixed: second alternative (`scaffold_1` is not haplotype-shaped) -/
example : ∀ pa pb, ∃ outs stats, remap [sN] (ptxOf [sN] (scr pa pb)) "SUPER_".toList (some jg)
    (errLen (scr pa pb).p (scr pa pb).q : Int) = .ok (outs, stats) :=
  fun pa pb => script_remap_ok (s := scr pa pb) (by revert pa pb; decide) (by decide) (by decide) (by decide) (by decide)
    (by decide) (Or.inr (by decide)) _ jg

set_option synthInstance.maxSize 1024 in
/-- the kernel's view, independently of the theorems: unpainted — the two Pretext scaffolds become `scaffold_1` (both
    first rows name it: fused), 3 cuts; painted — two chromosomes `SUPER_1`, `SUPER_2` -/
private theorem evalR :
    (remap [sN] (ptxOf [sN] (scr false false)) "SUPER_".toList (some jg) 9).toOption.map
        (fun r => (r.1.map (fun a => (a.key, a.scaffolds.map (·.name))), r.2.cuts)) =
      some ([(none, ["scaffold_1".toList])], 3) ∧
    (remap [sN] (ptxOf [sN] (scr true true)) "SUPER_".toList (some jg) 9).toOption.map
        (fun r => (r.1.map (fun a => (a.key, a.scaffolds.map (·.name))), r.2.cuts)) =
      some ([(none, ["SUPER_1".toList, "SUPER_2".toList])], 3) ∧
    (remap [sN] (ptxOf [sN] (scr true false)) "SUPER_".toList (some jg) 9).toOption.map
        (fun r => (r.1.map (fun a => (a.key, a.scaffolds.map (·.name))), r.2.cuts)) =
      some ([(none, ["SUPER_1".toList, "scaffold_1".toList])], 3) := by
  refine ⟨by decide +kernel, by decide +kernel, by decide +kernel⟩

/-- `script_c02` instantiated (painted): its K2 clause gives the four stored results, one per piece -/
example : ∃ outs stats b, remap [sN] (ptxOf [sN] (scr true true)) "SUPER_".toList (some jg) 9 = .ok (outs, stats) ∧
    remapToInput [sN] (ptxOf [sN] (scr true true)) "SUPER_".toList (some jg) 9 = .ok b ∧
    b.store.length = (C09.pieces [sN] false (ptxOf [sN] (scr true true))).length ∧ (outs.map (·.key)).Nodup := by
  obtain ⟨outs, stats, b, h1, h2, ⟨k2, _⟩, _, ⟨o2, _⟩, _⟩ :=
    script_c02 (input := [sN]) (s := scr true true) (by decide) (by decide) (by decide) (by decide) (by decide) (by decide)
      (Or.inr ⟨none, by decide⟩) "SUPER_".toList jg
  exact ⟨outs, stats, b, h1, h2, k2, o2⟩

/-- T3 on this example: the build exists (N2) and all its fused fragments have strand ±1 -/
example : ∃ b, remapToInput [sN] (ptxOf [sN] (scr true false)) "SUPER_".toList (some jg) 9 = .ok b ∧
    ∀ s ∈ fuseByName b, ∀ f ∈ s.fragments, f.strand = 1 ∨ f.strand = -1 := by
  obtain ⟨b, hb⟩ := script_remap_to_input_ok (input := [sN]) (s := scr true false) (by decide) (by decide) (by decide) (by decide)
    (by decide) (by decide) "SUPER_".toList jg
  exact ⟨b, hb, (fused_fragments_strands [sN] _ _ _ _ b (by decide) hb).2 (by decide)⟩

/-- L on this example (mixed painting, `nohap`) -/
example : ∃ b, remapToInput [sN] (ptxOf [sN] (scr true false)) "SUPER_".toList (some jg) 9 = .ok b ∧
    ∀ r ∈ b.store, r.o.tag = none ∧ truthy r.o.originalName = true ∧ r.o.haplotype = none := by
  obtain ⟨b, hb⟩ := script_remap_to_input_ok (input := [sN]) (s := scr true false) (by decide) (by decide) (by decide) (by decide)
    (by decide) (by decide) "SUPER_".toList jg
  refine ⟨b, hb, fun r hr => ?_⟩
  obtain ⟨a1, a2, _, a4⟩ := stored_result_labels false (some none) [sN] _ _ _ _ b
    (C02R.script_scOK (wfScript_spec (input := [sN]) (s := scr true false) (by decide)) false (some none)
      (fun h => by cases h) (fun h0 e => by cases e; decide)) hb r hr
  exact ⟨a1, a2, a4 none rfl⟩

/-! ### F2: the input of `painted_two_haplotypes_raises`, unpainted -/

private def hA1 : Scaffold := { name := "A_x_1".toList, rows := [.frag { oid := 1, name := "c1".toList, start := 1, stop := 100, strand := 1 }] }
private def hA2 : Scaffold := { name := "A_x_2".toList, rows := [.frag { oid := 2, name := "c2".toList, start := 1, stop := 100, strand := 1 }] }
private def hB1 : Scaffold := { name := "B_x_1".toList, rows := [.frag { oid := 3, name := "c3".toList, start := 1, stop := 100, strand := 1 }] }
private def scrHU : Script :=
  { p := 10, q := 1, scafs := [{ T := 10 }, { T := 10 }, { T := 10 }],
    groups := [{ items := [{ sc := 0, k := 0 }] }, { items := [{ sc := 1, k := 0 }] }, { items := [{ sc := 2, k := 0 }] }] }

/-- haplotype-shaped names `A_x_1`, `A_x_2`, `B_x_1` (the painted map of these raises `ChrNamerError`): unpainted, `remap`
    returns — by T4's first alternative; the second one is not available -/
theorem unpainted_two_haplotypes_returns :
    (∃ sc ∈ [hA1, hA2, hB1], hapPrefixOfName sc.name ≠ none) ∧
    ∃ outs stats, remap [hA1, hA2, hB1] (ptxOf [hA1, hA2, hB1] scrHU) "SUPER_".toList (some jg)
      (errLen scrHU.p scrHU.q : Int) = .ok (outs, stats) :=
  ⟨by decide, script_remap_ok (s := scrHU) (by decide) (by decide) (by decide) (by decide) (by decide) (by decide)
    (Or.inl (by decide)) _ jg⟩

/-! ### T4': one named haplotype; and F1': names with and without the haplotype shape -/

private def hS1 : Scaffold := { name := "s_1".toList, rows := [.frag { oid := 1, name := "c1".toList, start := 1, stop := 100, strand := 1 }] }
private def hS2 : Scaffold := { name := "s_2".toList, rows := [.frag { oid := 2, name := "c2".toList, start := 1, stop := 100, strand := 1 }] }
/-- three whole scaffolds (10 texels of 10 bp each), uncut, each painted as its own Pretext scaffold, in input order -/
private def scrHP : Script :=
  { p := 10, q := 1, scafs := [{ T := 10 }, { T := 10 }, { T := 10 }],
    groups := [{ items := [{ sc := 0, k := 0 }], painted := true }, { items := [{ sc := 1, k := 0 }], painted := true },
               { items := [{ sc := 2, k := 0 }], painted := true }] }

private def scrHP2 : Script :=
  { p := 10, q := 1, scafs := [{ T := 10 }, { T := 10 }],
    groups := [{ items := [{ sc := 0, k := 0 }], painted := true }, { items := [{ sc := 1, k := 0 }], painted := true }] }

/-- all names of haplotype `A`: painted, `remap` returns (T4' with `h0 = some "A"`) -/
example : ∃ outs stats, remap [hA1, hA2] (ptxOf [hA1, hA2] scrHP2) "SUPER_".toList (some jg) 11 = .ok (outs, stats) :=
  script_remap_ok_uniform (input := [hA1, hA2]) (s := scrHP2)
    (by decide) (by decide) (by decide) (by decide) (by decide) (by decide) (Or.inr ⟨some ['A'], by decide⟩) _ jg

set_option synthInstance.maxSize 1024 in
/-- … the two chromosomes go to the assembly keyed `A` -/
example : (remap [hA1, hA2] (ptxOf [hA1, hA2] scrHP2) "SUPER_".toList (some jg) 11).toOption.map
      (fun r => r.1.map (fun a => (a.key, a.scaffolds.map (·.name)))) =
    some [(some ['A'], ["SUPER_1".toList, "SUPER_2".toList])] := by decide +kernel

set_option synthInstance.maxSize 1024 in
/-- **F1', by design**: two names without and one with the haplotype shape, painted in this order: haplotype keys `None`,
    `None`, `B` — `check_groups` rejects the map exactly as it rejects `A`, `A`, `B`.  So "all names yield ONE haplotype"
    cannot be weakened to "at most one named haplotype". -/
theorem painted_none_none_hap_raises :
    wfScript [hS1, hS2, hB1] scrHP = true ∧
    (∀ sc ∈ [hS1, hS2], hapPrefixOfName sc.name = none) ∧ hapPrefixOfName hB1.name = some ['B'] ∧
    remap [hS1, hS2, hB1] (ptxOf [hS1, hS2, hB1] scrHP) "SUPER_".toList (some jg) 11 = .error .chrNamer := by
  refine ⟨by decide, by decide, by decide, by decide +kernel⟩

end AgpTpf.C02
