/-
  C03 over the SOURCE (T1c), the whole file: `FastaStream.write_assembly` as translated from the current /repo/src/tola/fasta/stream.py
  (`Gen.Imp.FastaStream_write_assembly`: a `for` loop over `assembly.scaffolds` calling the translated `write_scaffold`) IS the model's
  `streamAssembly`, and therefore the bytes the SOURCE writes are the output AGP applied to the input FASTA.

  1. `write_assembly_is_source` — with the model's chunk iterators: NO hypothesis but the fuel bound of `write_scaffold_is_source`, for
     every file, index, `buffer_size`, `line_length` (also `≤ 0`), assembly.  Model and source do NOT differ on how a record starts:
     the source sets `want = line_length` at the top of every `write_scaffold`; the model's `streamScaffold` takes no log and starts from
     `{ out := header, want := w }`, and `streamAssembly` only appends its `out` (the `want := w` it stores in the accumulator is never
     read).  Nothing carries over from one record to the next on either side.
  2. `write_assembly_with_source_iterators` — the same with the source's own translated iterators (`C13.srcGapIter`, `C13.srcSeqIter`),
     under `1 ≤ bs` (true for `bs ≠ 0`: `…_any_bs`; FALSE at `bs = 0`, example below, as for one scaffold);
     `write_assembly_all_source` — also `self.sequence_bytes` is the TRANSLATED one (`C14.sequence_bytes_source_full`), wherever the
     shared file handle stands when it is called: every function on the way from `write_assembly` to `fh.read` is the translated source.
  3. `source_fasta_file_is_agp_applied` — C03 for the source: on well-formed input the translated `write_assembly` returns `.ok` of the
     records of the scaffolds, in order: `>name\n` + the rows applied to the input FASTA, wrapped at `line_length`.
  On an exception (a scaffold naming a missing sequence: `ValueError`) both sides have that exception as the result, decided by the FIRST
  failing scaffold; the records written to the file before it are not part of an `Except` result on either side.
  Helper lemmas: `Proofs/ImpWriteAsm.lean`.
-/
import AgpTpf.Proofs.ImpWriteAsm
import AgpTpf.Properties.C03Imp
import AgpTpf.Properties.C13Imp
import AgpTpf.Properties.C14ImpSeqBytes
import AgpTpf.Properties.C03Source
namespace AgpTpf.C03
open AgpTpf AgpTpf.WrapProofs AgpTpf.StreamProofs

/-! ## 1. with the model's iterators -/

/-- **`FastaStream.write_assembly`, as translated, returns what the model's `streamAssembly` writes** — same bytes, same exception
    (that of the first scaffold whose record fails) — for EVERY `file`, index, `buffer_size`, `line_length` and assembly, for every fuel
    of the `while True` loop of `write_scaffold` above the length of every chunk the iterators yield for the rows of the scaffolds
    (`hfuel`: the hypothesis of `write_scaffold_is_source` for every scaffold; see there why it is needed and tight). -/
theorem write_assembly_is_source (file : Bytes) (idx : List (Str × FastaInfo)) (bs w : Int) (a : Assembly) (fuel : Nat)
    (hfuel : ∀ sc ∈ a.scaffolds, ∀ row ∈ sc.rows,
      (∀ c ∈ modelGapIter bs row Gen.gapCharacter, c.data.length < fuel) ∧
      (∀ cs, modelSeqIter file idx bs row = .ok cs → ∀ c ∈ cs, c.data.length < fuel)) :
    Gen.Imp.FastaStream_write_assembly fuel a (modelGapIter bs) (modelSeqIter file idx bs) w Gen.gapCharacter
      = (streamAssembly file idx bs w a.scaffolds).map (·.out) := by
  rw [ImpWriteAsm.write_assembly_eq_mapM, ImpWriteAsm.streamAssembly_out]
  exact ImpWriteAsm.mapM_flatten_congr _ _ _ (fun sc hsc => write_scaffold_is_source file idx bs w sc fuel (hfuel sc hsc))

/-! Examples: the file `>a\nACGT\nNNAC\nGT\n>b\nTTTT\n` (`C14.seqFile`; `a`: offset 3, `b`: offset 19, 4 residues per line, 5 bytes per
    line); `buffer_size = 3`, line length 4, fuel 4.  Scaffold `s1` = a[1..4] forward, a gap of 5, a[3..10] on the minus strand
    (`GTNNACGT` → `ACGTNNAC`); scaffold `s2` = b[1..4] forward, a[9..10] forward. -/

def asmIdx : List (Str × FastaInfo) := [("a".toList, C14.seqInfoA), ("b".toList, C14.seqInfoB)]
def asmS1 : Scaffold := { name := "s1".toList, rows := [
  .frag { oid := 0, name := "a".toList, start := 1, stop := 4, strand := 1, tags := [] },
  .gap { length := 5, gapType := "scaffold".toList },
  .frag { oid := 1, name := "a".toList, start := 3, stop := 10, strand := -1, tags := [] }] }
def asmS2 : Scaffold := { name := "s2".toList, rows := [
  .frag { oid := 2, name := "b".toList, start := 1, stop := 4, strand := 1, tags := [] },
  .frag { oid := 3, name := "a".toList, start := 9, stop := 10, strand := 1, tags := [] }] }
/-- a scaffold naming a sequence that is not in the index -/
def asmBad : Scaffold := { name := "s3".toList, rows := [
  .gap { length := 2, gapType := "scaffold".toList },
  .frag { oid := 4, name := "zz".toList, start := 1, stop := 4, strand := 1, tags := [] }] }

/-- the translated source, run -/
example : Gen.Imp.FastaStream_write_assembly 4 { name := "asm".toList, scaffolds := [asmS1, asmS2] }
    (modelGapIter 3) (modelSeqIter C14.seqFile asmIdx 3) 4 Gen.gapCharacter
    = .ok (strToBytes ">s1\nACGT\nNNNN\nNACG\nTNNA\nC\n>s2\nTTTT\nGT\n".toList) := by rfl
/-- and the model -/
example : (streamAssembly C14.seqFile asmIdx 3 4 [asmS1, asmS2]).map (·.out)
    = .ok (strToBytes ">s1\nACGT\nNNNN\nNACG\nTNNA\nC\n>s2\nTTTT\nGT\n".toList) := by rfl

/-- `hfuel` is satisfiable there (every chunk has at most 3 bytes) -/
example : ∀ sc ∈ [asmS1, asmS2], ∀ row ∈ sc.rows,
    (∀ c ∈ modelGapIter 3 row Gen.gapCharacter, c.data.length < 4) ∧
    (∀ cs, modelSeqIter C14.seqFile asmIdx 3 row = .ok cs → ∀ c ∈ cs, c.data.length < 4) := by
  have key : ∀ (row : Row) (cs0 : List PyRt.BytesIO), modelSeqIter C14.seqFile asmIdx 3 row = .ok cs0 →
      (∀ c ∈ cs0, c.data.length < 4) → ∀ cs, modelSeqIter C14.seqFile asmIdx 3 row = .ok cs → ∀ c ∈ cs, c.data.length < 4 := by
    intro row cs0 h0 hl cs h
    rw [h0] at h; cases h; exact hl
  intro sc hsc row hrow
  simp only [List.mem_cons, List.not_mem_nil, or_false] at hsc
  rcases hsc with rfl | rfl
  · simp only [asmS1, List.mem_cons, List.not_mem_nil, or_false] at hrow
    rcases hrow with rfl | rfl | rfl
    · exact ⟨by decide +kernel, key _ [{ data := [65, 67, 71] }, { data := [84] }] (by rfl) (by decide)⟩
    · exact ⟨by decide +kernel, fun cs h => by cases h⟩
    · exact ⟨by decide +kernel,
        key _ [{ data := [65, 67] }, { data := [71, 84, 78] }, { data := [78, 65, 67] }] (by rfl) (by decide)⟩
  · simp only [asmS2, List.mem_cons, List.not_mem_nil, or_false] at hrow
    rcases hrow with rfl | rfl
    · exact ⟨by decide +kernel, key _ [{ data := [84, 84, 84] }, { data := [84] }] (by rfl) (by decide)⟩
    · exact ⟨by decide +kernel, key _ [{ data := [71, 84] }] (by rfl) (by decide)⟩

/-- the second scaffold names a missing sequence: `ValueError` on both sides (after the first record, and the gap of the second, went
    to the file); it is the FIRST failing scaffold that decides — the third one would be fine -/
example : Gen.Imp.FastaStream_write_assembly 4 { name := "asm".toList, scaffolds := [asmS1, asmBad, asmS2] }
      (modelGapIter 3) (modelSeqIter C14.seqFile asmIdx 3) 4 Gen.gapCharacter = .error .value
    ∧ (streamAssembly C14.seqFile asmIdx 3 4 [asmS1, asmBad, asmS2]).map (·.out) = .error .value := ⟨by rfl, by rfl⟩

/-- every record starts a fresh line: at line length 3 the first record (4 + 5 + 8 = 17 residues) ends in the incomplete line `AC`
    (`want = 1` when `write_scaffold` returns); the closing LF is written and the next record starts with `want = line_length` again -/
example : Gen.Imp.FastaStream_write_assembly 4 { name := "asm".toList, scaffolds := [asmS1, asmS2] }
    (modelGapIter 3) (modelSeqIter C14.seqFile asmIdx 3) 3 Gen.gapCharacter
    = .ok (strToBytes ">s1\nACG\nTNN\nNNN\nACG\nTNN\nAC\n>s2\nTTT\nTGT\n".toList) := by rfl

/-- no scaffolds: nothing is written -/
example : Gen.Imp.FastaStream_write_assembly 0 { name := "asm".toList } (modelGapIter 3) (modelSeqIter [] [] 3) 4 Gen.gapCharacter
    = .ok [] := by rfl

/-! ## 2. with the source's own iterators -/

/-- for every `buffer_size` but 0 (FALSE for `bs = 0`, example below) and wherever `sequence_bytes` leaves the cursor of the
    `BytesIO` it returns (`p`) -/
theorem write_assembly_with_source_iterators_any_bs (file : Bytes) (idx : List (Str × FastaInfo)) (bs w : Int) (p : Bytes → Nat)
    (a : Assembly) (fuel : Nat) (hbs : bs ≠ 0)
    (hfuel : ∀ sc ∈ a.scaffolds, ∀ row ∈ sc.rows,
      (∀ c ∈ modelGapIter bs row Gen.gapCharacter, c.data.length < fuel) ∧
      (∀ cs, modelSeqIter file idx bs row = .ok cs → ∀ c ∈ cs, c.data.length < fuel)) :
    Gen.Imp.FastaStream_write_assembly fuel a (C13.srcGapIter bs) (C13.srcSeqIter file idx bs p) w Gen.gapCharacter
      = (streamAssembly file idx bs w a.scaffolds).map (·.out) := by
  rw [ImpWriteAsm.write_assembly_eq_mapM, ImpWriteAsm.streamAssembly_out]
  exact ImpWriteAsm.mapM_flatten_congr _ _ _
    (fun sc hsc => C13.write_scaffold_with_source_iterators_any_bs file idx bs w p sc fuel hbs (hfuel sc hsc))

/-- **The source's `write_assembly` over the source's own chunk iterators writes the model's bytes** — same bytes, same exception — for
    every `file`, index, `buffer_size ≥ 1`, `line_length` (also `≤ 0`) and assembly.  `C13.srcGapIter` / `C13.srcSeqIter` are built from
    the TRANSLATED `get_gap_iter`, `get_sequence_iter`, `get_info`, `fwd_chunks`, `rev_chunks`, `revcomp_bytes_io`, `reverse_complement`
    (and the model's `sequenceBytes`; `write_assembly_all_source` below plugs in the translated `sequence_bytes` as well). -/
theorem write_assembly_with_source_iterators (file : Bytes) (idx : List (Str × FastaInfo)) (bs w : Int) (p : Bytes → Nat)
    (a : Assembly) (fuel : Nat) (hbs : 1 ≤ bs)
    (hfuel : ∀ sc ∈ a.scaffolds, ∀ row ∈ sc.rows,
      (∀ c ∈ modelGapIter bs row Gen.gapCharacter, c.data.length < fuel) ∧
      (∀ cs, modelSeqIter file idx bs row = .ok cs → ∀ c ∈ cs, c.data.length < fuel)) :
    Gen.Imp.FastaStream_write_assembly fuel a (C13.srcGapIter bs) (C13.srcSeqIter file idx bs p) w Gen.gapCharacter
      = (streamAssembly file idx bs w a.scaffolds).map (·.out) :=
  write_assembly_with_source_iterators_any_bs file idx bs w p a fuel (by omega) hfuel

/-- the translated writer over the translated iterators, run (cursors where Python leaves them), and the missing sequence -/
example : Gen.Imp.FastaStream_write_assembly 4 { name := "asm".toList, scaffolds := [asmS1, asmS2] }
    (C13.srcGapIter 3) (C13.srcSeqIter C14.seqFile asmIdx 3 List.length) 4 Gen.gapCharacter
    = .ok (strToBytes ">s1\nACGT\nNNNN\nNACG\nTNNA\nC\n>s2\nTTTT\nGT\n".toList) := by rfl
example : Gen.Imp.FastaStream_write_assembly 4 { name := "asm".toList, scaffolds := [asmS1, asmBad, asmS2] }
    (C13.srcGapIter 3) (C13.srcSeqIter C14.seqFile asmIdx 3 List.length) 4 Gen.gapCharacter = .error .value := by rfl

/-- `buffer_size = 0` (excluded above): the translated source ends in `ZeroDivisionError` on the first Fragment row, as Python does;
    the model (total `pyDiv`) writes a file — the tie with the source's iterators is FALSE without `bs ≠ 0`, exactly as for one
    scaffold (`C13Imp`); with the MODEL's iterators (`write_assembly_is_source`) there is no such hypothesis -/
example : Gen.Imp.FastaStream_write_assembly 9 { name := "asm".toList, scaffolds := [asmS2] }
      (C13.srcGapIter 0) (C13.srcSeqIter C14.seqFile asmIdx 0 List.length) 4 Gen.gapCharacter = .error .zeroDiv
    ∧ (streamAssembly C14.seqFile asmIdx 0 4 [asmS2]).map (·.out) = .ok (strToBytes ">s2\nTTTT\nGT\n>\n".toList) := ⟨by rfl, by rfl⟩

/-- **well-formed input: `buffer_size < fuel` is enough** (`StreamProofs.RowOK`: every fragment row names an index entry that lays its
    residues out in `file` and lies within them; gap rows of any length) -/
theorem write_assembly_with_source_iterators_of_rowOK (file : Bytes) (idx : List (Str × FastaInfo)) (resOf : Str → Bytes)
    (bs w : Int) (p : Bytes → Nat) (a : Assembly) (fuel : Nat) (hbs : 1 ≤ bs)
    (hok : ∀ sc ∈ a.scaffolds, ∀ r ∈ sc.rows, RowOK file idx resOf r) (hfuel : bs.toNat < fuel) :
    Gen.Imp.FastaStream_write_assembly fuel a (C13.srcGapIter bs) (C13.srcSeqIter file idx bs p) w Gen.gapCharacter
      = (streamAssembly file idx bs w a.scaffolds).map (·.out) := by
  rw [ImpWriteAsm.write_assembly_eq_mapM, ImpWriteAsm.streamAssembly_out]
  exact ImpWriteAsm.mapM_flatten_congr _ _ _
    (fun sc hsc => C13.write_scaffold_with_source_iterators_of_rowOK file idx resOf bs w p sc fuel hbs (hok sc hsc) hfuel)

/-! ### `self.sequence_bytes` translated as well -/

/-- `self.sequence_bytes` as TRANSLATED (`Gen.Imp.FastaIndex_sequence_bytes_imp`, over the file handle `self.fh` = bytes + cursor),
    called with the handle at position `pos info start end` — ANY position: in Python the handle is shared and stands where the
    previous call left it; the first operation of `sequence_bytes` is an absolute `seek`, so the position does not matter
    (`srcSequenceBytesT_eq`: the right-hand side does not mention `pos`).  The result is the `BytesIO` (cursor at its end). -/
def srcSequenceBytesT (file : Bytes) (pos : FastaInfo → Int → Int → Nat) : FastaInfo → Int → Int → R PyRt.BytesIO :=
  fun info s e => (Gen.Imp.FastaIndex_sequence_bytes_imp { data := file, pos := pos info s e } info s e).map (·.2)

theorem srcSequenceBytesT_eq (file : Bytes) (pos : FastaInfo → Int → Int → Nat) :
    srcSequenceBytesT file pos = C13.srcSequenceBytes file List.length := by
  funext info s e
  simp only [srcSequenceBytesT, C13.srcSequenceBytes, C14.sequence_bytes_source_full]
  cases sequenceBytes file info s e <;> rfl

/-- `fai.get_sequence_iter(row)` from TRANSLATED functions only: `C13.srcSeqIter` with the translated `sequence_bytes` -/
def srcSeqIterT (file : Bytes) (idx : List (Str × FastaInfo)) (bs : Int) (pos : FastaInfo → Int → Int → Nat) (row : Row) :
    R (List PyRt.BytesIO) :=
  match row with
  | .frag f =>
    Gen.Imp.FastaIndex_get_sequence_iter f (fun name => Gen.Imp.FastaIndex_get_info name idx)
      (fun info s e => Gen.Imp.FastaIndex_rev_chunks_imp info s e bs (srcSequenceBytesT file pos) C13.srcRevcompBytesIO)
      (fun info s e => Gen.Imp.FastaIndex_fwd_chunks_imp info s e bs (srcSequenceBytesT file pos))
  | .gap _ => .error .attribute

theorem srcSeqIterT_eq (file : Bytes) (idx : List (Str × FastaInfo)) (bs : Int) (pos : FastaInfo → Int → Int → Nat) :
    srcSeqIterT file idx bs pos = C13.srcSeqIter file idx bs List.length := by
  funext row
  cases row <;> simp only [srcSeqIterT, C13.srcSeqIter, srcSequenceBytesT_eq]

/-- **Every function between `write_assembly` and `fh.read` is the translated source, and the bytes are the model's**:
    `write_assembly` → `write_scaffold` → `get_gap_iter` / `get_sequence_iter` → `get_info`, `fwd_chunks` / `rev_chunks`
    (→ `revcomp_bytes_io` → `reverse_complement`) → `sequence_bytes` on a file handle standing anywhere.  `1 ≤ bs` as above. -/
theorem write_assembly_all_source (file : Bytes) (idx : List (Str × FastaInfo)) (bs w : Int) (pos : FastaInfo → Int → Int → Nat)
    (a : Assembly) (fuel : Nat) (hbs : 1 ≤ bs)
    (hfuel : ∀ sc ∈ a.scaffolds, ∀ row ∈ sc.rows,
      (∀ c ∈ modelGapIter bs row Gen.gapCharacter, c.data.length < fuel) ∧
      (∀ cs, modelSeqIter file idx bs row = .ok cs → ∀ c ∈ cs, c.data.length < fuel)) :
    Gen.Imp.FastaStream_write_assembly fuel a (C13.srcGapIter bs) (srcSeqIterT file idx bs pos) w Gen.gapCharacter
      = (streamAssembly file idx bs w a.scaffolds).map (·.out) := by
  rw [srcSeqIterT_eq]
  exact write_assembly_with_source_iterators file idx bs w _ a fuel hbs hfuel

/-- run, with the handle parked at byte 7 before every call -/
example : Gen.Imp.FastaStream_write_assembly 4 { name := "asm".toList, scaffolds := [asmS1, asmS2] }
    (C13.srcGapIter 3) (srcSeqIterT C14.seqFile asmIdx 3 (fun _ _ _ => 7)) 4 Gen.gapCharacter
    = .ok (strToBytes ">s1\nACGT\nNNNN\nNACG\nTNNA\nC\n>s2\nTTTT\nGT\n".toList) := by rfl

/-! ## 3. C03 for the source -/

/-- **C03 over the source.**  For every `buffer_size ≥ 1`, `line_length ≥ 1`, every fuel above `buffer_size`, every assembly all of whose
    fragment rows name an index entry that lays its residues out in the input FASTA `file` and lie within them (`RowOK`; `resOf name`
    = the residues of input record `name`): the translated `FastaStream.write_assembly`, over the translated iterators and the
    translated `sequence_bytes`, does NOT raise and returns exactly the records of the scaffolds, in scaffold order, one per scaffold,
    nothing else — each record `>name\n` followed by the rows of the output AGP applied to the input FASTA (`rowsBody`: the addressed
    residues, reverse-complemented on the minus strand, every gap as that many `N`) cut into lines of `line_length` bytes
    (the last one 1..`line_length`), each ended by LF. -/
theorem source_fasta_file_is_agp_applied {bs w : Int} (hbs : 1 ≤ bs) (hw : 1 ≤ w) (file : Bytes)
    (idx : List (Str × FastaInfo)) (resOf : Str → Bytes) (pos : FastaInfo → Int → Int → Nat) (a : Assembly) (fuel : Nat)
    (hfuel : bs.toNat < fuel) (hok : ∀ sc ∈ a.scaffolds, ∀ r ∈ sc.rows, RowOK file idx resOf r) :
    Gen.Imp.FastaStream_write_assembly fuel a (C13.srcGapIter bs) (srcSeqIterT file idx bs pos) w Gen.gapCharacter
      = .ok (a.scaffolds.map (fun sc => [62] ++ strToBytes sc.name ++ [10]
              ++ ((linesOf w.toNat (rowsBody resOf sc.rows)).map (· ++ [10])).flatten)).flatten := by
  rw [srcSeqIterT_eq, write_assembly_with_source_iterators_of_rowOK file idx resOf bs w _ a fuel hbs hok hfuel]
  obtain ⟨lg, h1, h2⟩ := fasta_file_is_agp_applied hbs hw file idx resOf a.scaffolds hok
  rw [h1]
  simp only [Except.map, h2]
  congr 3
  funext sc
  rw [recordBytes]
  have : w = ((w.toNat : Nat) : Int) := by omega
  rw [this, wrapBody_eq_lines w.toNat (by omega), Int.toNat_natCast]

/-- the same in the vocabulary of `Properties/C03.lean` (`recordBytes w name body` = header line + `wrapBody w body`), with the
    iterators of `C13Imp` (the model's `sequenceBytes` for `self.sequence_bytes`, any cursor convention `p`) -/
theorem source_fasta_file_is_agp_applied_records {bs w : Int} (hbs : 1 ≤ bs) (hw : 1 ≤ w) (file : Bytes)
    (idx : List (Str × FastaInfo)) (resOf : Str → Bytes) (p : Bytes → Nat) (a : Assembly) (fuel : Nat)
    (hfuel : bs.toNat < fuel) (hok : ∀ sc ∈ a.scaffolds, ∀ r ∈ sc.rows, RowOK file idx resOf r) :
    Gen.Imp.FastaStream_write_assembly fuel a (C13.srcGapIter bs) (C13.srcSeqIter file idx bs p) w Gen.gapCharacter
      = .ok (a.scaffolds.map (fun sc => recordBytes w sc.name (rowsBody resOf sc.rows))).flatten := by
  rw [write_assembly_with_source_iterators_of_rowOK file idx resOf bs w p a fuel hbs hok hfuel]
  obtain ⟨lg, h1, h2⟩ := fasta_file_is_agp_applied hbs hw file idx resOf a.scaffolds hok
  rw [h1]
  simp only [Except.map, h2]

/-- the hypotheses are satisfiable: the fixture of `Proofs/C03Example.lean` (`x:1-4(+) gap(2) x:6-10(-)` over a 3-line record, and the
    same scaffold reversed), `buffer_size = 3`, line length 4, fuel 4; the translated source run on it; and what the theorem says it
    returns (`AACC NN TAACN`, then its reverse complement) -/
example : (∀ sc ∈ [StreamExample.exScaffold, StreamExample.exScaffold.reverse], ∀ r ∈ sc.rows,
    RowOK StreamExample.exFile StreamExample.exIdx StreamExample.exResOf r) ∧ (3 : Int).toNat < 4 := by
  refine ⟨?_, by decide⟩
  intro sc hsc
  simp only [List.mem_cons, List.not_mem_nil, or_false] at hsc
  rcases hsc with rfl | rfl
  · exact StreamExample.exRowsOK
  · intro r hr
    have hrows : StreamExample.exScaffold.reverse.rows =
        [.frag { name := "x".toList, start := 6, stop := 10, strand := 1 }, .gap { length := 2, gapType := [] },
         .frag { name := "x".toList, start := 1, stop := 4, strand := -1 }] := by decide
    rw [hrows] at hr
    simp only [List.mem_cons, List.not_mem_nil, or_false] at hr
    rcases hr with rfl | rfl | rfl
    · exact StreamExample.exFragOK _ rfl (by decide) (by decide) (by decide)
    · trivial
    · exact StreamExample.exFragOK _ rfl (by decide) (by decide) (by decide)
example : Gen.Imp.FastaStream_write_assembly 4
    { name := "asm".toList, scaffolds := [StreamExample.exScaffold, StreamExample.exScaffold.reverse] }
    (C13.srcGapIter 3) (srcSeqIterT StreamExample.exFile StreamExample.exIdx 3 (fun _ _ _ => 0)) 4 Gen.gapCharacter
    = .ok (strToBytes ">s\nAACC\nNNTA\nACN\n>s\nNGTT\nANNG\nGTT\n".toList) := by rfl
example : ([StreamExample.exScaffold, StreamExample.exScaffold.reverse].map (fun sc => [62] ++ strToBytes sc.name ++ [10]
      ++ ((linesOf (4 : Int).toNat (rowsBody StreamExample.exResOf sc.rows)).map (· ++ [10])).flatten)).flatten
    = strToBytes ">s\nAACC\nNNTA\nACN\n>s\nNGTT\nANNG\nGTT\n".toList := by decide +kernel

end AgpTpf.C03
