/-
  C14 — Reversal and reverse-complement are involutions that commute with output.

  * complement table (`IUPAC_COMPLEMENT`, fasta/simple.py; model `comp` over the table regenerated from the source):
    an involution on all 256 byte values, exactly the IUPAC pairs, case-preserving;
  * `reverse_complement` twice is the identity on every byte string;
  * `Scaffold.reverse` (assembly/scaffold.py, `Fragment.reverse`): twice gives back the rows; once preserves length,
    gap rows, contig names/intervals/tags, inverts the row order and negates every strand;
  * streaming (`FastaStream.write_scaffold`, fasta/stream.py) a reversed scaffold writes the record whose sequence is
    the reverse complement of the sequence of the original record — for scaffolds whose strands are `+`/`-`.
    For an unknown strand (`?`, 0) this is FALSE of the code (known finding F9): see `stream_reverse_unknown_strand_counterexample`.

  Helper lemmas: AgpTpf/Proofs/C14.lean, C03Stream.lean (stream specification), C03Seq.lean, C03Wrap.lean, C03Chunks.lean.
-/
import AgpTpf.Proofs.C14
import AgpTpf.Proofs.C03Example
namespace AgpTpf.C14
open AgpTpf AgpTpf.StreamProofs AgpTpf.WrapProofs AgpTpf.SeqProofs AgpTpf.StreamExample

/-! ### the complement table, exhaustively over all 256 byte values -/

/-- the table has one entry per byte value and maps bytes to bytes -/
theorem comp_table_length : Gen.complementTable.length = 256 := C14Proofs.table_length
theorem comp_lt_256 : ∀ b, b < 256 → comp b < 256 := C14Proofs.comp_lt_256

/-- complementing twice returns every byte -/
theorem comp_involutive : ∀ b, b < 256 → comp (comp b) = b := C14Proofs.comp_comp_256

/-- the table is exactly `bytes.maketrans(iupacFrom, iupacTo)`: the 30 IUPAC letters go to their partners … -/
theorem comp_iupac : ∀ i, i < 30 → comp (Gen.iupacFrom.getD i 0) = Gen.iupacTo.getD i 0 := by decide +kernel
/-- … and every other byte is left alone -/
theorem comp_other : ∀ b, b < 256 → b ∉ Gen.iupacFrom → comp b = b := by decide +kernel

/-- case-preserving: upper case stays upper case, lower stays lower, and the two halves of the table agree -/
theorem comp_case : ∀ b, b < 256 →
    ((65 ≤ b ∧ b ≤ 90) ↔ (65 ≤ comp b ∧ comp b ≤ 90)) ∧ ((97 ≤ b ∧ b ≤ 122) ↔ (97 ≤ comp b ∧ comp b ≤ 122)) := by
  decide +kernel
theorem comp_lower_upper : ∀ b, b < 256 → 65 ≤ b → b ≤ 90 → comp (b + 32) = comp b + 32 := by decide +kernel

/-! ### reverse complement of byte strings -/

theorem reverseComplement_length (s : Bytes) : (reverseComplement s).length = s.length := by
  simp [reverseComplement]

/-- reverse-complementing any byte string twice returns it unchanged (the hypothesis "all bytes" is not even
    needed in the model: values ≥ 256 are left alone by `comp`). -/
theorem revcomp_revcomp_all (s : Bytes) : reverseComplement (reverseComplement s) = s :=
  C14Proofs.revcomp_revcomp s

theorem revcomp_revcomp (s : Bytes) (_ : ∀ b ∈ s, b < 256) : reverseComplement (reverseComplement s) = s :=
  C14Proofs.revcomp_revcomp s

/-- it is the reverse of the string, complemented byte by byte: byte `i` of the result is the complement of byte
    `n-1-i` of the input -/
theorem reverseComplement_get (s : Bytes) (i : Nat) (h : i < s.length) :
    (reverseComplement s)[i]? = (s[s.length - 1 - i]?).map comp := by
  simp only [reverseComplement, List.getElem?_map, List.getElem?_reverse h]

example : reverseComplement [65, 67, 110, 82, 116] = [97, 89, 110, 71, 84] := by decide  -- ACnRt ↦ aYnGT
example : (∀ b ∈ [65, 67, 110, 82, 116], b < 256) := by decide

/-! ### `Scaffold.reverse` -/

/-- reversing twice gives back the original rows (and the name) -/
theorem reverse_reverse (s : Scaffold) : (s.reverse).reverse.rows = s.rows := by
  simp only [Scaffold.reverse, List.map_reverse, List.reverse_reverse, List.map_map]
  have : Row.reverse ∘ Row.reverse = id := by funext r; exact C14Proofs.row_reverse_reverse r
  rw [this, List.map_id]

theorem reverse_reverse_name (s : Scaffold) : (s.reverse).reverse.name = s.name := rfl

/-- what reversal does to one row: gap rows are untouched; a fragment keeps identity, name, interval and tags
    and its strand is negated (`-1 * strand`; `+ ↦ -`, `- ↦ +`, unknown `0 ↦ 0`). -/
theorem row_reverse_gap (g : Gap) : (Row.gap g).reverse = Row.gap g := rfl
theorem row_reverse_frag (f : Fragment) :
    (Row.frag f).reverse = Row.frag { f with strand := - f.strand } := by
  simp only [Row.reverse, Fragment.reverse, Row.frag.injEq, Fragment.mk.injEq, true_and, and_true]
  omega

/-- one reversal preserves the number of rows … -/
theorem reverse_rows_length (s : Scaffold) : s.reverse.rows.length = s.rows.length := by
  simp [Scaffold.reverse]

/-- … inverts the row order: row `i` of the result is the reversed row `n-1-i` of the original … -/
theorem reverse_rows_get (s : Scaffold) (i : Nat) (h : i < s.rows.length) :
    s.reverse.rows[i]? = (s.rows[s.rows.length - 1 - i]?).map Row.reverse := by
  simp only [Scaffold.reverse, List.getElem?_map, List.getElem?_reverse h]

/-- … preserves the scaffold length … -/
theorem reverse_length (s : Scaffold) : s.reverse.length = s.length := by
  simp only [Scaffold.length, Scaffold.reverse]
  exact C14Proofs.rowsLength_reverse s.rows

/-- … and every row length, gap-ness, and the name, original name and original tags of the scaffold. -/
theorem row_reverse_length (r : Row) : r.reverse.length = r.length := C14Proofs.row_reverse_length r
theorem row_reverse_isGap (r : Row) : r.reverse.isGap = r.isGap := by cases r <;> rfl
theorem reverse_keeps (s : Scaffold) :
    s.reverse.name = s.name ∧ s.reverse.originalName = s.originalName ∧ s.reverse.originalTags = s.originalTags :=
  ⟨rfl, rfl, rfl⟩

/-- summary in one statement (`reverse_preserves`): same length, same number of rows, and for every position `i`
    the row at `i` in the reversed scaffold is row `n-1-i` of the original with: gap rows identical; fragments with
    identical name, start, end, tags and the strand negated. -/
theorem reverse_preserves (s : Scaffold) :
    rowsLength s.reverse.rows = rowsLength s.rows ∧ s.reverse.rows.length = s.rows.length ∧
    ∀ i, i < s.rows.length →
      match s.rows[s.rows.length - 1 - i]?, s.reverse.rows[i]? with
      | some (.gap g), some r' => r' = .gap g
      | some (.frag f), some r' => ∃ f', r' = .frag f' ∧ f'.name = f.name ∧ f'.start = f.start ∧ f'.stop = f.stop ∧
          f'.tags = f.tags ∧ f'.oid = f.oid ∧ f'.strand = - f.strand
      | _, _ => False := by
  refine ⟨C14Proofs.rowsLength_reverse s.rows, reverse_rows_length s, ?_⟩
  intro i hi
  rw [reverse_rows_get s i hi]
  have hj : s.rows.length - 1 - i < s.rows.length := by omega
  rw [List.getElem?_eq_getElem hj]
  cases s.rows[s.rows.length - 1 - i] with
  | gap g => simp [Row.reverse]
  | frag f => simp [row_reverse_frag]

example : (Scaffold.reverse { name := "s".toList, rows :=
      [.frag { name := "a".toList, start := 1, stop := 4, strand := 1 }, .gap { length := 7, gapType := [] },
       .frag { name := "b".toList, start := 3, stop := 9, strand := -1 }] }).rows
    = [.frag { name := "b".toList, start := 3, stop := 9, strand := 1 }, .gap { length := 7, gapType := [] },
       .frag { name := "a".toList, start := 1, stop := 4, strand := -1 }] := by decide

/-! ### streaming a reversed scaffold

  Vocabulary (defined in Proofs/C03Stream.lean, C03Seq.lean, C03Wrap.lean):
  * `resOf name` — the residues of the input FASTA record `name`;  `RowOK file idx resOf row` — a fragment row names
    an index entry whose offsets describe where `resOf name` lies in `file` (`LaidOut`: residue `L*rpl + c` is the
    file byte at `fileOffset + mll*L + c`) and `1 ≤ start ≤ end ≤ length`; gap rows are always OK;
  * `rowsBody resOf rows` — concatenation in row order of `resOf name [start-1 : end]` (reverse-complemented iff
    strand = -1) and `gap.length` gap characters;
  * `recordBytes w name body` — `>name\n` followed by `body` in lines of `w` bytes, each ended by `\n`
    (`wrapBody`, closed form `wrapBody_eq_lines` in C03). -/

/-- Streaming a reversed scaffold writes exactly the record whose sequence is the case-preserving IUPAC reverse
    complement of the sequence streamed for the original — for every indexed FASTA file, every buffer size and line
    width, every scaffold whose fragment strands are `+` or `-`. Both calls succeed. -/
theorem stream_reverse {bs w : Int} (hbs : 1 ≤ bs) (hw : 1 ≤ w) (file : Bytes) (idx : List (Str × FastaInfo))
    (resOf : Str → Bytes) (sc : Scaffold) (hok : ∀ r ∈ sc.rows, RowOK file idx resOf r)
    (hstrand : ∀ f, Row.frag f ∈ sc.rows → f.strand = 1 ∨ f.strand = -1) :
    ∃ lg lg', streamScaffold file idx bs w sc = .ok lg ∧ streamScaffold file idx bs w sc.reverse = .ok lg' ∧
      lg.out = recordBytes w sc.name (rowsBody resOf sc.rows) ∧
      lg'.out = recordBytes w sc.name (reverseComplement (rowsBody resOf sc.rows)) := by
  obtain ⟨lg, h1, h2, -, -⟩ := scaffold_spec hbs hw file idx resOf sc hok
  have hok' : ∀ r ∈ sc.reverse.rows, RowOK file idx resOf r := by
    intro r hr
    simp only [Scaffold.reverse, List.mem_map, List.mem_reverse] at hr
    obtain ⟨r0, hr0, rfl⟩ := hr
    exact C14Proofs.rowOK_reverse r0 (hok r0 hr0)
  obtain ⟨lg', h1', h2', -, -⟩ := scaffold_spec hbs hw file idx resOf sc.reverse hok'
  refine ⟨lg, lg', h1, h1', h2, ?_⟩
  rw [h2']
  show recordBytes w sc.name (rowsBody resOf ((sc.rows.reverse).map Row.reverse)) = _
  rw [C14Proofs.rowsBody_reverse resOf sc.rows hstrand]

/-- the sequence-level statement alone, and its involution -/
theorem body_reverse (resOf : Str → Bytes) (sc : Scaffold)
    (hstrand : ∀ f, Row.frag f ∈ sc.rows → f.strand = 1 ∨ f.strand = -1) :
    rowsBody resOf sc.reverse.rows = reverseComplement (rowsBody resOf sc.rows) :=
  C14Proofs.rowsBody_reverse resOf sc.rows hstrand

/-! #### a concrete instance (hypotheses satisfiable, output as expected) and the unknown-strand counterexample -/

/- fixtures (Proofs/C03Example.lean): `exFile` = `>x\nAACC\nNNGT\nTAC\n`, record `x` = AACCNNGTTAC indexed as
   `exIdx` (offset 3, 4 residues per line, 5 bytes per line), `exScaffold` = `x:1-4(+) gap(2) x:6-10(-)`. -/
example : ∀ r ∈ exScaffold.rows, RowOK exFile exIdx exResOf r := exRowsOK

example : ∀ f, Row.frag f ∈ exScaffold.rows → f.strand = 1 ∨ f.strand = -1 := by
  intro f hf
  simp only [exScaffold, List.mem_cons, Row.frag.injEq, List.not_mem_nil, or_false, reduceCtorEq, false_or] at hf
  rcases hf with rfl | rfl <;> decide

/-- the model run on the instance, buffer size 3, line width 4:  AACCNNTAACN  and its reverse complement NGTTANNGGTT -/
example : (streamScaffold exFile exIdx 3 4 exScaffold).toOption.map (·.out)
    = some [62, 115, 10, 65, 65, 67, 67, 10, 78, 78, 84, 65, 10, 65, 67, 78, 10] := by decide +kernel
example : (streamScaffold exFile exIdx 3 4 exScaffold.reverse).toOption.map (·.out)
    = some [62, 115, 10, 78, 71, 84, 84, 10, 65, 78, 78, 71, 10, 71, 84, 84, 10] := by decide +kernel

/-- FALSE for unknown strands (known finding F9, `Scaffold.reverse` keeps strand 0 and strand 0 streams forward):
    scaffold `x:1-4(?) gap(1) x:6-10(+)` over AACCNNGTTAC streams AACC N NGTTA; reversed it streams TAACN N AACC,
    but the reverse complement of the original stream is TAACN N GGTT.  (`exUnknown`: Proofs/C03Example.lean) -/
theorem stream_reverse_unknown_strand_counterexample :
    (∀ r ∈ exUnknown.rows, RowOK exFile exIdx exResOf r) ∧
    (streamScaffold exFile exIdx 3 60 exUnknown).toOption.map (·.out)
      = some ([62, 115, 10] ++ [65, 65, 67, 67, 78, 78, 71, 84, 84, 65] ++ [10]) ∧
    (streamScaffold exFile exIdx 3 60 exUnknown.reverse).toOption.map (·.out)
      = some ([62, 115, 10] ++ [84, 65, 65, 67, 78, 78, 65, 65, 67, 67] ++ [10]) ∧
    reverseComplement [65, 65, 67, 67, 78, 78, 71, 84, 84, 65] = [84, 65, 65, 67, 78, 78, 71, 71, 84, 84] ∧
    rowsBody exResOf exUnknown.reverse.rows ≠ reverseComplement (rowsBody exResOf exUnknown.rows) := by
  refine ⟨?_, by decide +kernel, by decide +kernel, by decide +kernel, by decide +kernel⟩
  intro r hr
  simp only [exUnknown, List.mem_cons, List.not_mem_nil, or_false] at hr
  rcases hr with rfl | rfl | rfl
  · exact exFragOK _ rfl (by decide) (by decide) (by decide)
  · trivial
  · exact exFragOK _ rfl (by decide) (by decide) (by decide)

end AgpTpf.C14
