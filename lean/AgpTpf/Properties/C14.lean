/- C14 — statements under construction -/
import AgpTpf.Model.Fasta
namespace AgpTpf.C14
open AgpTpf
theorem reverseComplement_length (s : Bytes) : (reverseComplement s).length = s.length := by
  simp [reverseComplement]
end AgpTpf.C14
