/-
  C03 — FASTA output is exactly the output AGP applied to the input FASTA.

  Model: `streamAssembly` / `streamScaffold` / `streamRow` / `writeChunk` / `sequenceBytes` (Model/Fasta.lean) for
  `FastaStream.write_assembly`, `write_scaffold`, the chunk iterators and `FastaIndex.sequence_bytes`
  (fasta/stream.py, fasta/index.py).

  Proved here, for EVERY file, index, assembly, buffer size `bs ≥ 1` and line length `w ≥ 1`:
  * `sequence_bytes_slice` — random access returns exactly `residues[start-1 : end]` of a laid-out record;
  * `writer_*` — the `while True: chunk.read(want)` loop is a byte-wise line wrapper; it composes over chunks, so the
    bytes written do not depend on how the sequence was cut into chunks;
  * `wrap_lines` — the wrapped body is the body cut into lines of exactly `w` bytes (last one 1..w), each ended by LF:
    no empty line, no over-long line;
  * `fasta_record_is_agp_applied` / `fasta_file_is_agp_applied` — every record written equals `>name\n` + the wrapped
    concatenation, in row order, of the input intervals named by the rows (reverse-complemented for minus rows) with
    every gap rendered as that many `N`; records come in scaffold order, one per scaffold; the calls never fail;
  * `record_length_eq_agp_length` — the record's sequence length is the scaffold length the AGP writer reports
    (`Scaffold.length` = Σ row lengths), for non-negative gap lengths.
  Not proved here (outside the files of this task): uniqueness of record names (a property of the assembly's scaffold
  names, C05/C06), the text of the AGP file written beside the FASTA (Model/Outputs.lean), and the CLI end to end.

  Helper lemmas: AgpTpf/Proofs/C03Chunks.lean, C03Wrap.lean, C03Seq.lean, C03Stream.lean; fixtures C03Example.lean.
-/
import AgpTpf.Proofs.C03Stream
import AgpTpf.Proofs.C03Example
namespace AgpTpf.C03
open AgpTpf AgpTpf.ChunkProofs AgpTpf.WrapProofs AgpTpf.SeqProofs AgpTpf.StreamProofs AgpTpf.StreamExample

/-! ### random access: `sequence_bytes`

  `LaidOut file off R M res` (Proofs/C03Seq.lean): residue `L * R + c` (column `c < R` of line `L`) of the record is
  the file byte at `off + M * L + c` — `R` residues per line, lines `M` bytes apart. -/

/-- `sequence_bytes(info, start, end)` (1-based, closed; here `start = s + 1`, `end = e`) on a laid-out record
    succeeds and returns exactly `res[s:e]`; every single `read` it issues asks for at most `min(rpl, e - s)` bytes. -/
theorem sequence_bytes_slice {file res : Bytes} {off R M : Nat} (info : FastaInfo)
    (hoff : info.fileOffset = off) (hrpl : info.rpl = R) (hmll : info.mll = M)
    (hR : 1 ≤ R) (hM : R ≤ M) (h : LaidOut file off R M res)
    (s e : Nat) (hs : s < e) (he : e ≤ res.length) :
    ∃ rl, sequenceBytes file info ((s : Int) + 1) (e : Int) = .ok rl ∧ rl.data = (res.drop s).take (e - s) ∧
      ∀ r ∈ rl.reads, 0 ≤ r ∧ r ≤ (R : Int) ∧ r ≤ ((e - s : Nat) : Int) :=
  sequenceBytes_slice info hoff hrpl hmll hR hM h s e hs he

/-- the layout hypothesis holds for every record rendered the way FASTA writers do: after any prefix `pre` (header
    line, earlier records), lines of `R` residues each followed by a terminator `term` (LF, CR LF, …), the last line
    possibly shorter; anything may follow. -/
theorem rendered_record_laidOut (R : Nat) (hR : 1 ≤ R) (pre term post res : Bytes) :
    LaidOut (pre ++ (renderBody R term res ++ post)) pre.length R (R + term.length) res :=
  laidOut_render R hR pre term post res

example : LaidOut exFile 3 4 5 exRes := exLaidOut
example : (sequenceBytes exFile exInfo 3 10).toOption.map (·.data) = some [67, 67, 78, 78, 71, 84, 84, 65] := by
  decide +kernel

/-! ### the line wrapper -/

/-- The `while True: seq = chunk.read(want)` loop of `write_scaffold` for one chunk (`writeChunk`, with the fuel
    `streamRow` gives it) is the byte-at-a-time wrapper `wrapGo`: a newline is written exactly when a line reaches
    `w` bytes. Invariant `1 ≤ want ≤ w`. -/
theorem writer_is_wrapper (w want : Int) (chunk : Bytes) (h1 : 1 ≤ want) (h2 : want ≤ w) :
    writeChunk w (chunk.length + 1) want chunk = wrapGo w want chunk :=
  writeChunk_eq_wrapGo w _ want chunk h1 h2 (Nat.le_refl _)

/-- the `want` left after a chunk: the column advances by the chunk length modulo `w` -/
theorem writer_want (w want : Int) (chunk : Bytes) (hw : 1 ≤ w) (h1 : 1 ≤ want) (h2 : want ≤ w) :
    (writeChunk w (chunk.length + 1) want chunk).2 = w - ((w - want + chunk.length) % w) := by
  rw [writer_is_wrapper w want chunk h1 h2, wrapGo_want w hw chunk want h1 h2]

theorem writer_want_range (w want : Int) (chunk : Bytes) (hw : 1 ≤ w) (h1 : 1 ≤ want) (h2 : want ≤ w) :
    1 ≤ (writeChunk w (chunk.length + 1) want chunk).2 ∧ (writeChunk w (chunk.length + 1) want chunk).2 ≤ w := by
  rw [writer_is_wrapper w want chunk h1 h2]
  exact wrapGo_want_range w hw chunk want h1 h2

/-- writing `c₁` and then `c₂` (from the `want` the first call left) writes the same bytes and leaves the same
    `want` as writing `c₁ ++ c₂` in one go -/
theorem writer_append (w want : Int) (c₁ c₂ : Bytes) (hw : 1 ≤ w) (h1 : 1 ≤ want) (h2 : want ≤ w) :
    writeChunk w ((c₁ ++ c₂).length + 1) want (c₁ ++ c₂)
      = ((writeChunk w (c₁.length + 1) want c₁).1
            ++ (writeChunk w (c₂.length + 1) (writeChunk w (c₁.length + 1) want c₁).2 c₂).1,
         (writeChunk w (c₂.length + 1) (writeChunk w (c₁.length + 1) want c₁).2 c₂).2) := by
  have hr := writer_want_range w want c₁ hw h1 h2
  rw [writer_is_wrapper w want (c₁ ++ c₂) h1 h2, writer_is_wrapper w _ c₂ hr.1 hr.2,
    writer_is_wrapper w want c₁ h1 h2, wrapGo_append]

/-- buffer-size independence of the writer (`writeAll w want cs`, Proofs/C03Wrap.lean: `writeChunk` applied to the
    chunks `cs` one after the other, as `write_scaffold` does): writing chunks `c₁,…,c_n` one after the other gives the same bytes (and
    the same final state) as writing their concatenation at once … -/
theorem writer_chunks_eq_concat (w : Int) (hw : 1 ≤ w) : ∀ (cs : List Bytes) (want : Int), 1 ≤ want → want ≤ w →
    writeAll w want cs = writeChunk w (cs.flatten.length + 1) want cs.flatten
  | [], want, h1, h2 => by
    have := writer_is_wrapper w want [] h1 h2
    simp only [List.length_nil, Nat.zero_add] at this
    simp [writeAll, this, wrapGo]
  | c :: cs, want, h1, h2 => by
    have hr := writer_want_range w want c hw h1 h2
    rw [List.flatten_cons, writer_append w want c cs.flatten hw h1 h2, writeAll,
      writer_chunks_eq_concat w hw cs _ hr.1 hr.2]

/-- … hence any two ways of cutting the same bytes into chunks are written identically -/
theorem writer_chunking_irrelevant (w : Int) (hw : 1 ≤ w) (cs ds : List Bytes) (h : cs.flatten = ds.flatten)
    (want : Int) (h1 : 1 ≤ want) (h2 : want ≤ w) : writeAll w want cs = writeAll w want ds := by
  rw [writer_chunks_eq_concat w hw cs want h1 h2, writer_chunks_eq_concat w hw ds want h1 h2, h]

example : writeAll 4 4 [[1, 2, 3], [4, 5, 6], [7]] = ([1, 2, 3, 4, 10, 5, 6, 7], 1) := by decide
example : writeAll 4 4 [[1], [2, 3, 4, 5, 6, 7], []] = ([1, 2, 3, 4, 10, 5, 6, 7], 1) := by decide
example : writeChunk 4 8 4 [1, 2, 3, 4, 5, 6, 7] = ([1, 2, 3, 4, 10, 5, 6, 7], 1) := by decide
example : writeChunk 4 9 4 [1, 2, 3, 4, 5, 6, 7, 8] = ([1, 2, 3, 4, 10, 5, 6, 7, 8, 10], 4) := by decide

/-- What `write_scaffold` writes after the header line for a body `s`: the wrapper from a fresh line plus the final
    newline when the last line is incomplete (`wrapBody`).  `linesOf w s`: `s` cut into consecutive slices of `w`
    bytes, the last one 1..w bytes, none for an empty body (Proofs/C03Wrap.lean). -/
theorem wrap_lines (w : Nat) (hw : 1 ≤ w) (s : Bytes) :
    -- the model's writer, spelled out
    (if (writeChunk (w : Int) (s.length + 1) w s).2 ≠ (w : Int) then (writeChunk (w : Int) (s.length + 1) w s).1 ++ [10]
      else (writeChunk (w : Int) (s.length + 1) w s).1) = wrapBody (w : Int) s ∧
    -- is every line followed by LF
    wrapBody (w : Int) s = ((linesOf w s).map (· ++ [10])).flatten ∧
    -- the lines are the body
    (linesOf w s).flatten = s ∧
    -- no empty line, no over-long line
    (∀ l ∈ linesOf w s, 1 ≤ l.length ∧ l.length ≤ w) ∧
    -- all but the last exactly `w`
    (∀ l ∈ (linesOf w s).dropLast, l.length = w) ∧
    -- ⌈|s| / w⌉ lines
    (linesOf w s).length = (s.length + w - 1) / w := by
  refine ⟨?_, wrapBody_eq_lines w hw s, linesOf_flatten w s, linesOf_len w hw s, linesOf_full w hw s,
    linesOf_count w hw s⟩
  rw [writer_is_wrapper (w : Int) w s (by omega) (by omega)]
  rfl

/-- for a body without LF bytes, splitting the written text at LF (the model's binary line reader `bLines`) gives
    back exactly those lines -/
theorem wrap_lines_split (w : Nat) (hw : 1 ≤ w) (s : Bytes) (h10 : ∀ b ∈ s, b ≠ 10) :
    bLines (wrapBody (w : Int) s) = (linesOf w s).map (· ++ [10]) := by
  rw [wrapBody_eq_lines w hw s]
  exact bLines_lines _ (fun l hl b hb => h10 b (mem_linesOf w s l hl b hb))

example : wrapBody 4 [65, 67, 71, 84, 65, 67, 71] = [65, 67, 71, 84, 10, 65, 67, 71, 10] := by decide
example : wrapBody 4 [65, 67, 71, 84, 65, 67, 71, 84] = [65, 67, 71, 84, 10, 65, 67, 71, 84, 10] := by decide
example : wrapBody 4 [] = [] := by decide

/-! ### records and files

  `rowsBody resOf rows` (Proofs/C03Stream.lean) is "the AGP applied to the FASTA": for each row in order, a fragment
  row contributes `slice (resOf name) start end` = residues `start..end` (1-based, closed) of the input record —
  `reverseComplement` of it iff strand = -1 —, a gap row contributes `gap.length` copies of the gap character `N`.
  `RowOK file idx resOf row`: a fragment row names an index entry whose offsets lay `resOf name` out in `file`
  and `1 ≤ start ≤ end ≤ |resOf name|`; a gap row is always OK. -/

theorem gap_character_is_N : gapByte = 78 := by decide

/-- every record: header `>name\n`, then the AGP applied to the FASTA, wrapped at `w`. Never fails. -/
theorem fasta_record_is_agp_applied {bs w : Int} (hbs : 1 ≤ bs) (hw : 1 ≤ w) (file : Bytes)
    (idx : List (Str × FastaInfo)) (resOf : Str → Bytes) (sc : Scaffold)
    (hok : ∀ r ∈ sc.rows, RowOK file idx resOf r) :
    ∃ lg, streamScaffold file idx bs w sc = .ok lg ∧
      lg.out = [62] ++ strToBytes sc.name ++ [10]
                ++ ((linesOf w.toNat (rowsBody resOf sc.rows)).map (· ++ [10])).flatten := by
  obtain ⟨lg, h1, h2, -, -⟩ := scaffold_spec hbs hw file idx resOf sc hok
  refine ⟨lg, h1, ?_⟩
  rw [h2, recordBytes]
  have : w = ((w.toNat : Nat) : Int) := by omega
  rw [this, wrapBody_eq_lines w.toNat (by omega), Int.toNat_natCast]

/-- the whole file: the records of the scaffolds, in scaffold order, one per scaffold, nothing else. Never fails. -/
theorem fasta_file_is_agp_applied {bs w : Int} (hbs : 1 ≤ bs) (hw : 1 ≤ w) (file : Bytes)
    (idx : List (Str × FastaInfo)) (resOf : Str → Bytes) (scs : List Scaffold)
    (hok : ∀ sc ∈ scs, ∀ r ∈ sc.rows, RowOK file idx resOf r) :
    ∃ lg, streamAssembly file idx bs w scs = .ok lg ∧
      lg.out = (scs.map (fun sc => recordBytes w sc.name (rowsBody resOf sc.rows))).flatten := by
  obtain ⟨lg, h1, h2, -, -⟩ := assembly_spec hbs hw file idx resOf scs { want := w } hok (by simp) (by simp)
  exact ⟨lg, h1, by simpa using h2⟩

theorem recordBytes_eq (w : Int) (name : Str) (body : Bytes) :
    recordBytes w name body = [62] ++ strToBytes name ++ [10] ++ wrapBody w body := rfl

/-- the sequence length of a record is the AGP object length of its scaffold (Σ row lengths) — for gap rows of
    non-negative length (a negative gap length would be written as no bytes but counted negatively). -/
theorem record_length_eq_agp_length (file : Bytes) (idx : List (Str × FastaInfo)) (resOf : Str → Bytes) :
    ∀ (rows : List Row), (∀ r ∈ rows, RowOK file idx resOf r) → (∀ g, Row.gap g ∈ rows → 0 ≤ g.length) →
      ((rowsBody resOf rows).length : Int) = rowsLength rows
  | [], _, _ => by simp [rowsBody, rowsLength, sumInts]
  | r :: rest, hok, hg => by
    have ih := record_length_eq_agp_length file idx resOf rest (fun r' h => hok r' (by simp [h]))
      (fun g h => hg g (by simp [h]))
    have hr : ((rowBody resOf r).length : Int) = r.length := by
      cases r with
      | gap g =>
        have := hg g (by simp)
        simp only [rowBody, List.length_replicate, Row.length]; omega
      | frag f =>
        obtain ⟨info, -, -, h0, h1, h2⟩ := hok (.frag f) (by simp)
        have := slice_length (resOf f.name) f.start f.stop h0 h1 h2
        simp only [rowBody, Row.length, Fragment.length]
        split
        · simp only [reverseComplement, List.length_map, List.length_reverse]; omega
        · omega
    unfold rowsBody rowsLength at *
    simp only [List.map_cons, List.flatten_cons, List.length_append, sumInts, Int.natCast_add, ih, hr]

/-! ### non-vacuity: the fixture file, scaffold `x:1-4(+) gap(2) x:6-10(-)`, buffer size 3, line width 4 -/

example : ∀ r ∈ exScaffold.rows, RowOK exFile exIdx exResOf r := exRowsOK
example : rowsBody exResOf exScaffold.rows = [65, 65, 67, 67, 78, 78, 84, 65, 65, 67, 78] := by decide  -- AACC NN TAACN
example : (streamScaffold exFile exIdx 3 4 exScaffold).toOption.map (·.out)
    = some [62, 115, 10, 65, 65, 67, 67, 10, 78, 78, 84, 65, 10, 65, 67, 78, 10] := by decide +kernel
example : (streamAssembly exFile exIdx 3 4 [exScaffold, exScaffold.reverse]).toOption.map (·.out)
    = some ([62, 115, 10, 65, 65, 67, 67, 10, 78, 78, 84, 65, 10, 65, 67, 78, 10]
         ++ [62, 115, 10, 78, 71, 84, 84, 10, 65, 78, 78, 71, 10, 71, 84, 84, 10]) := by decide +kernel
/-- a fragment outside the indexed sequence makes the real call fail or misread; the hypothesis excludes it -/
example : ¬ RowOK exFile exIdx exResOf (.frag { name := "x".toList, start := 6, stop := 12, strand := 1 }) := by
  rintro ⟨info, -, -, -, -, h⟩
  revert h
  decide

end AgpTpf.C03
