/-
  C06 / C05 — T1c tie: the model's `formatAgp` IS the source's `format_agp` (assembly/format.py) as translated by
  `harness/translate_imp.py` into `Gen.Imp.format_agp_imp`.

  The model produces the list of written lines, the translated source the text written to `file`
  (every `file.write(...)` appended); the tie is "text = concatenation of the lines", with the same exception
  (`IndexError` from `STRAND_STR[row.strand]`) otherwise.  Loop lemmas: Proofs/ImpFormat.lean.
-/
import AgpTpf.Proofs.ImpFormat
import AgpTpf.Properties.C06
namespace AgpTpf.C06
open AgpTpf AgpTpf.C05

/-- the text the source's `format_agp` writes is the concatenation of the model's lines (same exception otherwise) -/
theorem format_agp_is_source (a : Assembly) :
    Gen.Imp.format_agp_imp a.header a.scaffolds = (formatAgp a).map List.flatten := by
  unfold Gen.Imp.format_agp_imp formatAgp
  dsimp only
  -- `for line in asm.header`
  rw [forIn_append_line (fun line => Gen.agpHeaderPrefix ++ line ++ ['\n'])]
  rotate_left
  · intro line file; simp [Gen.agpHeaderPrefix]
  simp only [bind, Except.bind]
  -- `for scffld in asm.scaffolds`
  rw [forIn_append_lines (fun s : Scaffold => formatAgpRows s.name 0 0 s.rows)]
  rotate_left
  · intro s file
    -- `for i, row in enumerate(scffld.rows)`
    -- the loop state packs `file` and `p` in the translator's canonical (sorted-by-name) order; the other order is
    -- tried too, so that the proof does not depend on which it is
    first
      | rw [forIn_rows_model (fun p file => (file, p)) s.name]
      | rw [forIn_rows_model (fun p file => (p, file)) s.name]
    · cases formatAgpRows s.name 0 0 s.rows <;> rfl
    · intro i row p file
      cases row with
      | gap g =>
        simp [agpRowCols, PyRt.asGap, Row.isGap, Row.length, Except.map, lineOfCols,
          Gen.agpGapCol5, Gen.agpGapLinkage, Gen.agpGapEvidence]
      | frag f =>
        simp [agpRowCols, PyRt.asFrag, Row.isGap, Except.map, lineOfCols, strandStr,
          Gen.agpFragCol5, Gen.agpStrandStr]
        generalize pyGet _ f.strand = ss
        cases ss <;> cases f.tags <;> simp
  cases List.mapM (fun s : Scaffold => formatAgpRows s.name 0 0 s.rows) a.scaffolds <;>
    simp [Except.map, pure, Except.pure]

set_option maxRecDepth 8000 in
/-- the generated function, run: header line, gap row, `-1 ↦ "-"`, tags appended, second scaffold restarts at 1 -/
example : Gen.Imp.format_agp_imp demo.header demo.scaffolds = .ok
    ("# hdr\n".toList ++
     "scaffold_1\t1\t1000000000000\t1\tW\tctg:1\t1\t1000000000000\t+\tPainted\n".toList ++
     "scaffold_1\t1000000000001\t1000000000200\t2\tU\t200\tscaffold\tyes\tproximity_ligation\n".toList ++
     "scaffold_1\t1000000000201\t1000000000205\t3\tW\tctg2\t5\t9\t-\tX\tY\n".toList ++
     "scaffold_2\t1\t10\t1\tW\tctg3\t11\t20\t?\n".toList) := by rfl

/-- …and the exception: `STRAND_STR[3]` is an IndexError in the source, after a scaffold that was written fine
    (indices -3 … 2 are all accepted by the tuple lookup, in the source and in the model alike) -/
example : Gen.Imp.format_agp_imp [] [{ name := "a".toList, rows := [.gap { length := 3, gapType := "contig".toList }] },
      { name := "b".toList, rows := [.frag { name := "c".toList, start := 1, stop := 2, strand := 3 }] }] =
    .error .index := by rfl

/-- Corollary (C06 for the SOURCE): for fragments as `mkFragment` admits them (strand ∈ {-1,0,1}) the source's
    `format_agp` does not raise, and the text it writes is the header lines followed, scaffold by scaffold, by the
    tab-joined column lists `bodies`, which tile each object from 1 to the scaffold's length, parts from 1. -/
theorem format_agp_source_valid (a : Assembly) (hs : ∀ s ∈ a.scaffolds, ∀ r ∈ s.rows, StrandOk r) :
    ∃ bodies : List (List (List Str)),
      Gen.Imp.format_agp_imp a.header a.scaffolds =
        .ok (a.header.map (fun h => Gen.agpHeaderPrefix ++ h ++ ['\n']) ++
              (bodies.map (List.map lineOfCols)).flatten).flatten ∧
      Forall2 (fun (s : Scaffold) colss => colss.length = s.rows.length ∧
                  ValidAgpLines false s.name 0 0 colss s.length) a.scaffolds bodies := by
  obtain ⟨bodies, h, hv⟩ := formatAgp_valid a hs
  exact ⟨bodies, by rw [format_agp_is_source, h]; rfl, hv⟩

/-- …and strictly valid (`start ≤ end` on every line, every gap line names its type) when all rows have positive
    length (`format_agp_valid_strict` / `formatAgp_valid_strict` carried over to the source). -/
theorem format_agp_source_valid_strict (a : Assembly) (hs : ∀ s ∈ a.scaffolds, ∀ r ∈ s.rows, StrandOk r)
    (hp : ∀ s ∈ a.scaffolds, ∀ r ∈ s.rows, RowStrict r) :
    ∃ bodies : List (List (List Str)),
      Gen.Imp.format_agp_imp a.header a.scaffolds =
        .ok (a.header.map (fun h => Gen.agpHeaderPrefix ++ h ++ ['\n']) ++
              (bodies.map (List.map lineOfCols)).flatten).flatten ∧
      Forall2 (fun (s : Scaffold) colss => colss.length = s.rows.length ∧
                  ValidAgpLines true s.name 0 0 colss s.length) a.scaffolds bodies := by
  obtain ⟨bodies, h, hv⟩ := formatAgp_valid_bodies true a hs (fun _ => hp)
  exact ⟨bodies, by rw [format_agp_is_source, h]; rfl, hv⟩

/-- hypotheses satisfiable: the two-scaffold `demo` of `Properties/C06.lean` -/
example : (∀ s ∈ demo.scaffolds, ∀ r ∈ s.rows, StrandOk r) ∧ (∀ s ∈ demo.scaffolds, ∀ r ∈ s.rows, RowStrict r) := by
  decide

end AgpTpf.C06
