/-
  C18 over the SOURCE: "the reported overhangs and bait overlaps equal the plain interval arithmetic between span,
  first/last row and bait" — stated for the five derived figures AS TRANSLATED from the current
  /repo/src/tola/assembly/overlap_result.py (`Gen/Kernels.lean`), for all integers.
-/
import AgpTpf.Properties.C18
import AgpTpf.Proofs.Kernels
namespace AgpTpf.C18
open AgpTpf

/-- `OverlapResult.length / start_overhang / end_overhang` of the source = span arithmetic -/
theorem source_span_figures (bs be s e : Int) :
    Gen.K.OverlapResult_length (self_start := s) (self_end := e) = e - s + 1 ∧
    Gen.K.OverlapResult_start_overhang (self_bait_start := bs) (self_start := s) = bs - s ∧
    Gen.K.OverlapResult_end_overhang (self_bait_end := be) (self_end := e) = e - be := by
  unfold Gen.K.OverlapResult_length Gen.K.OverlapResult_start_overhang Gen.K.OverlapResult_end_overhang
  refine ⟨by omega, by omega, by omega⟩

/-- the source's `start_row_bait_overlap` = size of `[bait.start, bait.end] ∩ [start, start + len(first row) − 1]`
    (0 when they do not meet) -/
theorem source_start_row_bait_overlap (bs be s l0 : Int) :
    Gen.K.OverlapResult_start_row_bait_overlap (self_bait_start := bs) (self_bait_end := be) (self_start := s)
        (self_rows_0_length := l0) = max 0 (min be (s + l0 - 1) - max bs s + 1) := by
  unfold Gen.K.OverlapResult_start_row_bait_overlap
  simp only [decide_eq_true_eq]
  split <;> omega

/-- the source's `end_row_bait_overlap` = size of `[bait.start, bait.end] ∩ [end − len(last row) + 1, end]` -/
theorem source_end_row_bait_overlap (bs be e ll : Int) :
    Gen.K.OverlapResult_end_row_bait_overlap (self_bait_start := bs) (self_bait_end := be) (self_end := e)
        (self_rows_m1_length := ll) = max 0 (min be e - max bs (e - ll + 1) + 1) := by
  unfold Gen.K.OverlapResult_end_row_bait_overlap
  simp only [decide_eq_true_eq]
  split <;> omega

/-- … and the model's figures are these translated functions applied to the result's fields (`Proofs/Kernels.lean`),
    so every theorem of `C18.lean` about `startOverhang`, `endOverhang`, `length`, `startRowBaitOverlap`,
    `endRowBaitOverlap` is a theorem about the source's arithmetic -/
theorem model_figures_are_source (o : OverlapResult) :
    o.length = Gen.K.OverlapResult_length (self_end := o.stop) (self_start := o.start) ∧
    o.startOverhang = Gen.K.OverlapResult_start_overhang (self_bait_start := o.bait.start) (self_start := o.start) ∧
    o.endOverhang = Gen.K.OverlapResult_end_overhang (self_bait_end := o.bait.stop) (self_end := o.stop) ∧
    o.startRowBaitOverlap = (pyGet o.rows 0).map (fun r0 =>
      Gen.K.OverlapResult_start_row_bait_overlap (self_bait_start := o.bait.start) (self_bait_end := o.bait.stop)
        (self_start := o.start) (self_rows_0_length := r0.length)) ∧
    o.endRowBaitOverlap = (pyGet o.rows (-1)).map (fun rl =>
      Gen.K.OverlapResult_end_row_bait_overlap (self_bait_start := o.bait.start) (self_bait_end := o.bait.stop)
        (self_end := o.stop) (self_rows_m1_length := rl.length)) :=
  ⟨Kernels.overlap_length_eq o, Kernels.start_overhang_eq o, Kernels.end_overhang_eq o,
   Kernels.start_row_bait_overlap_eq o, Kernels.end_row_bait_overlap_eq o⟩

example : Gen.K.OverlapResult_start_row_bait_overlap (self_bait_start := 4) (self_bait_end := 33) (self_start := 1)
    (self_rows_0_length := 10) = 7 := by decide

end AgpTpf.C18
