/-
  C07, SECOND sentence — "every gap row is either the input gap that separates the same two neighbouring contigs in the
  input (same length and type) or the configured join gap, and a junction between contigs that were not neighbours in the
  input always uses the join gap" — end to end over `remap`, for ALL Pretext files (model after change f6b).
  Helpers: Proofs/C07GapA.lean (runs of gap rows, list lemmas, C18 content invariant on runs), C07GapB.lean (`missingRows`,
  `add_missing_scaffolds_from_input`), C07GapC.lean (fused scaffolds); the pipeline invariant is that of C07ChainB/C.

  Vocabulary.  `gapRuns rows` lists every `(a, G, b)`: fragment row `a`, then exactly the gap rows `G` (possibly none), then
  the next fragment row `b` (`gap_run_iff`: `rows = … ++ a :: G ++ b :: …`).  `InputRun input (a, G, b)`: some input scaffold
  has a run `(a0, G0, b0)` with the same two facing contig ends `(name, coordinate, head/tail)` and `G = G0`, or the same
  two ends in the other order and `G = G0.reverse` (the pair is traversed in reverse).  `G = []` is the gapless case of
  `remap_adjacent_only_from_input`, so G2 below subsumes the first clause.

  PROVED (hypotheses: input Fragment objects pairwise distinct, `joinGap = some g`, `remap … = .ok (outs, stats)`), for ALL
  Pretext files — no side condition on the map (model after fix 9be92a2 in /repo):
    G1 `remap_gap_rows_from_input_or_join`   every gap row of every output scaffold is the join gap `g` or a gap row of an
                                             input scaffold.                                              FULL STRENGTH
    G2 `remap_gap_runs`                      every run `(a, G, b)` of every output scaffold: `G = [g]`, or `InputRun input (a, G, b)`
                                             (the same two facing contig ends are consecutive in one input scaffold and `G` is
                                             exactly the gap rows the input has between them).            FULL STRENGTH
       `remap_non_neighbours_join_gap`       a junction between contigs that were not neighbours in the input carries exactly `[g]`.
  HISTORY: before fix 9be92a2 G2 was FALSE of model and code for maps that left two contigs over on both sides of a placed
  one (`a g5 b g7 c`, only `b` painted, gave `a g7 c`); that theorem (`remap_gap_runs_unrestricted_false`) was the finding
  the proof work produced; the repaired behaviour is `former_counterexample_uses_join_gap` below.
-/
import AgpTpf.Proofs.C07GapC
namespace AgpTpf.C07
open AgpTpf
open AgpTpf.C11 (End leftFacing rightFacing facingEnds SameAdj)

/-! ## vocabulary, spelled out -/

/-- `(a, G, b)` is a run of `rows` iff `rows = … a, (the gap rows G), b …` -/
theorem gap_run_iff (rows : List Row) (a b : Fragment) (G : List Gap) :
    (a, G, b) ∈ gapRuns rows ↔ ∃ pre post, rows = pre ++ .frag a :: (G.map Row.gap ++ .frag b :: post) :=
  mem_gapRuns_iff rows a b G

/-- runs without gap rows are exactly the gapless adjacencies of the first clause -/
theorem gap_run_nil_iff (rows : List Row) (a b : Fragment) : (a, [], b) ∈ gapRuns rows ↔ (a, b) ∈ adjPairs rows :=
  gapRuns_nil_iff_adjPairs rows a b

/-- `InputRun`, spelled out -/
theorem inputRun_iff (input : List Scaffold) (a b : Fragment) (G : List Gap) :
    InputRun input (a, G, b) ↔
      ∃ sc ∈ input, ∃ a0 G0 b0, (a0, G0, b0) ∈ gapRuns sc.rows ∧
        ((leftFacing a = leftFacing a0 ∧ rightFacing b = rightFacing b0 ∧ G = G0) ∨
         (leftFacing a = rightFacing b0 ∧ rightFacing b = leftFacing a0 ∧ G = G0.reverse)) := by
  unfold InputRun RunMatch facingEnds
  constructor
  · rintro ⟨sc, hsc, ⟨a0, G0, b0⟩, hq, hm⟩
    refine ⟨sc, hsc, a0, G0, b0, hq, ?_⟩
    rcases hm with ⟨e, e'⟩ | ⟨e, e'⟩
    · simp only [Prod.mk.injEq] at e; exact Or.inl ⟨e.1, e.2, e'⟩
    · simp only [Prod.swap, Prod.mk.injEq] at e; exact Or.inr ⟨e.1, e.2, e'⟩
  · rintro ⟨sc, hsc, a0, G0, b0, hq, hm⟩
    refine ⟨sc, hsc, (a0, G0, b0), hq, ?_⟩
    rcases hm with ⟨e1, e2, e3⟩ | ⟨e1, e2, e3⟩
    · exact Or.inl ⟨by simp [e1, e2], e3⟩
    · exact Or.inr ⟨by simp [Prod.swap, e1, e2], e3⟩

/-! ## G1 -/

/-- G1: whenever `remap` completes (join gap `g` configured, distinct input Fragment objects), every gap row of every
    scaffold of every output assembly is the join gap or a gap row (same length and type) of an input scaffold. -/
theorem remap_gap_rows_from_input_or_join (input ptx : List Scaffold) (prefix_ : Str) (g : Gap) (err : Int)
    (outs : List OutAsm) (stats : Stats)
    (hnd : ((input.flatMap Scaffold.fragments).map (·.oid)).Nodup)
    (h : remap input ptx prefix_ (some g) err = .ok (outs, stats)) :
    ∀ a ∈ outs, ∀ s ∈ a.scaffolds, ∀ x, Row.gap x ∈ s.rows → x = g ∨ ∃ sc ∈ input, Row.gap x ∈ sc.rows := by
  unfold remap at h
  simp only [bind, Except.bind] at h
  split at h
  · cases h
  · next b hb =>
    obtain ⟨hc, _⟩ := remapToInput_cinv input ptx prefix_ (some g) err b hnd hb
    have hex := remapToInput_extraGaps input ptx prefix_ (some g) err b hb
    intro a ha s hs x hx
    rcases assembliesFused_rows input b outs stats h a ha s hs with e | ⟨s0, hs0, e⟩
    · rw [e] at hx; cases hx
    · rw [e] at hx
      exact fused_gap_rows input _ g b hc hex s0 hs0 x hx

/-! ## G2 -/

/-- G2, for ALL inputs and Pretext files: for every maximal run of gap rows `G` between two consecutive fragments `a`, `b`
    of an output scaffold: either `G = [g]` (the join gap), or the facing ends of `a` and `b` are the facing ends of two
    consecutive fragments of one input scaffold and `G` is exactly the gap rows the input has between them (in reverse
    order if the pair is traversed in reverse). -/
theorem remap_gap_runs (input ptx : List Scaffold) (prefix_ : Str) (g : Gap) (err : Int)
    (outs : List OutAsm) (stats : Stats)
    (hnd : ((input.flatMap Scaffold.fragments).map (·.oid)).Nodup)
    (h : remap input ptx prefix_ (some g) err = .ok (outs, stats)) :
    ∀ a ∈ outs, ∀ s ∈ a.scaffolds, ∀ t ∈ gapRuns s.rows, t.2.1 = [g] ∨ InputRun input t := by
  unfold remap at h
  simp only [bind, Except.bind] at h
  split at h
  · cases h
  · next b hb =>
    obtain ⟨hc, _⟩ := remapToInput_cinv input ptx prefix_ (some g) err b hnd hb
    have hex := remapToInput_extraGaps input ptx prefix_ (some g) err b hb
    have hntg := remapToInput_ntg input ptx prefix_ (some g) err b hb
    have hstr := input_run_strands_of_stats input outs b.cuts stats (assembliesFused_stats input b outs stats h)
    intro a ha s hs t ht
    rcases assembliesFused_rows input b outs stats h a ha s hs with e | ⟨s0, hs0, e⟩
    · rw [e] at ht; cases ht
    · rw [e] at ht
      exact fused_gap_runs input _ g b hc hex hntg hstr s0 hs0 t ht

/-- corollary ("a junction between contigs that were not neighbours in the input always uses the join gap"):
    a run whose two fragments are not an input run carries exactly `[g]` -/
theorem remap_non_neighbours_join_gap (input ptx : List Scaffold) (prefix_ : Str) (g : Gap) (err : Int)
    (outs : List OutAsm) (stats : Stats)
    (hnd : ((input.flatMap Scaffold.fragments).map (·.oid)).Nodup)
    (h : remap input ptx prefix_ (some g) err = .ok (outs, stats)) :
    ∀ a ∈ outs, ∀ s ∈ a.scaffolds, ∀ x y G, (x, G, y) ∈ gapRuns s.rows → ¬ InputRun input (x, G, y) → G = [g] := by
  intro a ha s hs x y G ht hn
  rcases remap_gap_runs input ptx prefix_ g err outs stats hnd h a ha s hs _ ht with h1 | h2
  · exact h1
  · exact absurd h2 hn

/-! ## non-vacuity -/

private def c1 : Fragment := { oid := 1, name := ['a'], start := 1, stop := 10, strand := 1 }
private def c2 : Fragment := { oid := 2, name := ['b'], start := 1, stop := 10, strand := 1 }
private def c3 : Fragment := { oid := 3, name := ['c'], start := 1, stop := 10, strand := 1 }
private def c4 : Fragment := { oid := 4, name := ['d'], start := 1, stop := 10, strand := 1 }
private def gu : Gap := { length := 5, gapType := ['u'] }
private def gv : Gap := { length := 7, gapType := ['v'] }
private def gw : Gap := { length := 3, gapType := ['w'] }
private def jg : Gap := { length := 200, gapType := "scaffold".toList }
/-- S = a (1-10)  gap u (11-15)  gap v (16-22)  b (23-32)  gap w (33-35)  c (36-45);   T = d -/
private def inS : Scaffold := { name := ['S'], rows := [.frag c1, .gap gu, .gap gv, .frag c2, .gap gw, .frag c3] }
private def inT : Scaffold := { name := ['T'], rows := [.frag c4] }
/-- painted scaffold P1 = S:1-32 on the MINUS strand, then T: a…b reversed (gap rows in reverse order), join gap, d; c left over -/
private def ptxA : Scaffold :=
  { name := ['P','1'], rows := [.frag { oid := 10, name := ['S'], start := 1, stop := 32, strand := -1, tags := [sPainted] },
                                 .frag { oid := 11, name := ['T'], start := 1, stop := 10, strand := 1, tags := [sPainted] }] }
/-- unpainted scaffold P1 = S:1-32: the trailing contig c is left over and re-joined behind its input gap row w -/
private def ptxB : Scaffold :=
  { name := ['P','1'], rows := [.frag { oid := 10, name := ['S'], start := 1, stop := 32, strand := 1 }] }
private def c1m : Fragment := { c1 with strand := -1 }
private def c2m : Fragment := { c2 with strand := -1 }

example : (([inS, inT].flatMap Scaffold.fragments).map (·.oid)).Nodup := by decide
example : (remap [inS, inT] [ptxA] [] (some jg) 1).toOption.map (fun r => r.1.map (fun a => a.scaffolds.map (·.rows))) =
    some [[[.frag c2m, .gap gv, .gap gu, .frag c1m, .gap jg, .frag c4], [.frag c3]]] := by decide +kernel
example : (remap [inS, inT] [ptxB] [] (some jg) 1).toOption.map (fun r => r.1.map (fun a => a.scaffolds.map (·.rows))) =
    some [[[.frag c1, .gap gu, .gap gv, .frag c2, .gap gw, .frag c3], [.frag c4]]] := by decide +kernel
/-- the runs of the first output: the input run (a, [u, v], b) read in reverse, and a join between non-neighbours -/
example : gapRuns [.frag c2m, .gap gv, .gap gu, .frag c1m, .gap jg, .frag c4] = [(c2m, [gv, gu], c1m), (c1m, [jg], c4)] ∧
    gapRuns inS.rows = [(c1, [gu, gv], c2), (c2, [gw], c3)] ∧
    InputRun [inS, inT] (c2m, [gv, gu], c1m) ∧ ¬ InputRun [inS, inT] (c2m, [gu, gv], c1m) ∧
    ¬ InputRun [inS, inT] (c1m, [jg], c4) ∧ InputRun [inS, inT] (c2, [gw], c3) := by decide
/-- every gap row of the outputs is the join gap or an input gap row -/
example : ∀ x ∈ [gv, gu, jg, gw], x = jg ∨ ∃ sc ∈ [inS, inT], Row.gap x ∈ sc.rows := by decide

/-! ## the former counter-example (before fix 9be92a2 the left-over scaffold was `a, gap v, c`) -/

private def inX : Scaffold := { name := ['S'], rows := [.frag c1, .gap gu, .frag c2, .gap gv, .frag c3] }
/-- the map paints only b (S:16-25): a and c are left over on both sides of a found contig -/
private def ptxX : Scaffold :=
  { name := ['P','1'], rows := [.frag { oid := 10, name := ['S'], start := 16, stop := 25, strand := 1, tags := [sPainted] }] }

/-- through the whole of `remap`: a and c, which were not neighbours, are joined by the join gap -/
theorem former_counterexample_uses_join_gap :
    (remap [inX] [ptxX] [] (some jg) 1).toOption.map (fun r => r.1.map (fun a => a.scaffolds.map (·.rows))) =
      some [[[.frag c2], [.frag c1, .gap jg, .frag c3]]] := by decide +kernel

example : gapRuns [.frag c1, .gap jg, .frag c3] = [(c1, [jg], c3)] ∧ ¬ InputRun [inX] (c1, [jg], c3) ∧
    gapRuns inX.rows = [(c1, [gu], c2), (c2, [gv], c3)] := by decide

end AgpTpf.C07
