/-
  C10 (T1c, phase 2) — `ChrNamer.__init__`, `ChrNamer.add_scaffold`, `ChrNamer.add_chr_prefix` and `ChrNamer.name_chromosomes` AS TRANSLATED
  FROM THE PYTHON SOURCE (`Gen/Imp2.lean`) against the naming block of the model's `assembliesFused` (`Model/Remap.lean`).

  Model side.  `ImpNameChr.nameChromosomes fs haps entries prefix_` is that block verbatim (`if haps.isEmpty … buildGroups … groupsHaveErrors …
  groupFirstLength … stableSort (≥) … nameGroup`), `ImpNameChr.fusedStep` / `fusedSplit` the fold before it, `ImpNameChr.fusedRest` the code
  after it; `assembliesFused_is_block` says the model function IS their composition (W11-E rewrites with it).

  Built on W11-A (`C10ImpGroup`: `length_of_first_haplotype` = `groupFirstLength`, `name_chromosome` = `nameGroup`) and W11-B (`C10ImpBuild`:
  `build_groups` = `buildGroups` + `groupsHaveErrors`).  Their well-formedness hypotheses on the groups (non-empty original names, at most
  1114047 names per haplotype) are DERIVED here from `buildGroups` itself (`ImpNameChr.buildGroups_groupOk`: every group it returns has
  non-empty original names and at most `entries.length` of them per haplotype).

  What the tie of `name_chromosomes` needs (all facts `__init__` / `add_scaffold` establish: `ImpNameChr.NamerWf`, kept by `add_scaffold`)
  * `(hs.map (·.1)).Nodup` — `haplotypes_seen` is a dictionary;
  * every haplotype text of `self.scaffolds` is a key of `haplotypes_seen` (difference (b) of `C10ImpBuild`: AttributeError vs a new key);
  * `hs ≠ [] → entries ≠ []`.  WITHOUT it the two sides DIFFER (`name_chromosomes_no_entries_differs`): the source builds one ChrGroup
    without scaffolds, `check_groups` marks nothing, and the sort key `length_of_first_haplotype` raises ValueError; the model raises
    ChrNamerError.  Unreachable: `add_scaffold` fills both attributes at once.
  * `entries.length ≤ 1114047`: `multi_chr_list` calls `chr(ord("A") + k)`; a haplotype (not the first one: two names there are a
    ChrNamerError) that collected more than 0x110000 − 65 original names in one group makes the source raise ValueError where the model
    carries on (`C10ImpGroup.multi_chr_list_too_many`).
  NO hypothesis on the scaffold references (both sides read / write the arena with the same default for a reference out of range), none on
  the values of `haplotypes_seen` (never read), none on `self.groups` / `heap_g` on entry (`self.groups = []` is the first statement).
  The sort keys are computed on the arena BEFORE any renaming on both sides; the renaming threads the arena through the groups in sorted
  order with `chr_n = 1, 2, …` (`enumerate` + `i + 1` vs `List.range … |>.zip` + `p.1 + 1`).
  Proofs: `AgpTpf/Proofs/ImpNameChr.lean`.
-/
import AgpTpf.Proofs.ImpNameChr
namespace AgpTpf.C10
open AgpTpf AgpTpf.ImpNameChr

/-! ### the input the `example`s run on: five rank-1 scaffolds (one of them an unloc of `S3`) in two haplotypes, one rank-2 scaffold -/

def ncHap1 : Str := ['H', 'a', 'p', '1']
def ncHap2 : Str := ['H', 'a', 'p', '2']
def ncPre : Str := ['S', 'U', '_']
def ncS (n o : Str) (len : Int) (rank : Int := 1) : Scaffold :=
  { name := n, originalName := some o, rank := rank,
    rows := [.frag { oid := 1, name := ['c'], start := 1, stop := len, strand := 1 }] }
def ncHeapB : List Scaffold :=
  [ncS ['S', '1'] ['S', '1'] 100, ncS ['S', '2'] ['S', '2'] 50, ncS ['S', '3'] ['S', '3'] 300, ncS ['S', '4'] ['S', '4'] 20,
   ncS ['S', '3', '_', 'u', '1'] ['S', '3'] 10, ncS ['X'] ['X'] 7 2]
def ncHs : List (Str × Bool) := [(ncHap1, true), (ncHap2, true)]
def ncEntries : List (Str × Nat) := [(ncHap1, 0), (ncHap2, 1), (ncHap1, 2), (ncHap1, 4), (ncHap2, 3)]

/-! ### 1. the naming block inside `assembliesFused` -/

/-- `assembliesFused` = the fold over the fused scaffolds (`fusedSplit`: assemblies, `chr_namer.scaffolds`, keys of
    `chr_namer.haplotypes_seen`, arena), then `nameChromosomes` on what it collected, then smart sort + statistics (`fusedRest`) -/
theorem assembliesFused_is_block (input : List Scaffold) (b : Build) :
    assembliesFused input b =
      (nameChromosomes (fusedSplit b).2.2.2 (fusedSplit b).2.2.1 (fusedSplit b).2.1 b.namer.autosomePrefix >>= fun fs =>
        fusedRest input b (fusedSplit b).1 fs) :=
  assembliesFused_eq input b

/-- the block on the running example: the second group is the longer one (300 > 100), so IT becomes `SU_1` -/
example : (nameChromosomes ncHeapB (ncHs.map (·.1)) ncEntries ncPre).map (·.map (·.name)) =
    .ok [ncPre ++ ['2'], ncPre ++ ['2'], ncPre ++ ['1'], ncPre ++ ['1'], ncPre ++ ['1', '_', 'u', '1'], ['X']] := by decide

/-! ### 2. `ChrNamer.__init__` -/

theorem chrnamer_init_is_source (p : Str) : Gen.Imp.ChrNamer___init__ p = .ok (p, [], [], none) :=
  init_eq p

/-- … which establishes the invariant of the pair (`haplotypes_seen`, `scaffolds`) -/
theorem chrnamer_init_wf : NamerWf [] [] := namerWf_init

example : Gen.Imp.ChrNamer___init__ ncPre = .ok (ncPre, [], [], none) := rfl

/-! ### 3. `ChrNamer.add_scaffold` -/

/-- for EVERY input; `PyRt.optStrText` (`str(hap)`, "None" for None) is the model's `pyStrOpt` -/
theorem chrnamer_add_scaffold_is_source (scs : List (Str × Nat)) (hs : List (Str × Bool)) (hap : Option Str) (sid : Nat) :
    Gen.Imp.ChrNamer_add_scaffold scs hs hap sid = .ok (scs ++ [(pyStrOpt hap, sid)], dSet hs (pyStrOpt hap) true) := by
  rw [add_scaffold_eq, optStrText_eq]

/-- the keys of `haplotypes_seen[h] = True` are the model's `sAdd haps h` — for EVERY association list (no hypothesis needed) -/
theorem haplotypes_seen_keys (hs : List (Str × Bool)) (h : Str) : (dSet hs h true).map (·.1) = sAdd (hs.map (·.1)) h :=
  dSet_keys_sAdd hs h true

/-- … and for a dictionary all of whose values are `True` the whole dictionary is determined by the model's set -/
theorem haplotypes_seen_all_true (keys : List Str) (h : Str) :
    dSet (keys.map (fun k => (k, true))) h true = (sAdd keys h).map (fun k => (k, true)) :=
  dSet_true keys h

/-- `add_scaffold` keeps the invariant `NamerWf` (keys of `haplotypes_seen` = haplotype texts of `scaffolds` in first-occurrence order,
    all values `True`), which gives every hypothesis `name_chromosomes_is_source` has on `haplotypes_seen` / `scaffolds` -/
theorem chrnamer_add_scaffold_keeps_wf (scs : List (Str × Nat)) (hs : List (Str × Bool)) (hap : Option Str) (sid : Nat)
    (hw : NamerWf hs scs) :
    ∃ scs' hs', Gen.Imp.ChrNamer_add_scaffold scs hs hap sid = .ok (scs', hs') ∧ NamerWf hs' scs' ∧
      scs' = scs ++ [(pyStrOpt hap, sid)] ∧ hs'.map (·.1) = sAdd (hs.map (·.1)) (pyStrOpt hap) :=
  ⟨_, _, chrnamer_add_scaffold_is_source scs hs hap sid, namerWf_add hs scs _ sid hw, rfl, dSet_keys_sAdd hs _ true⟩

theorem namerWf_gives {hs : List (Str × Bool)} {entries : List (Str × Nat)} (hw : NamerWf hs entries) :
    (hs.map (·.1)).Nodup ∧ (hs ≠ [] → entries ≠ []) ∧ (∀ e ∈ entries, e.1 ∈ hs.map (·.1)) ∧
      hs = ((entries.map (·.1)).foldl sAdd []).map (fun k => (k, true)) :=
  ⟨hw.nodup, hw.entries_ne, hw.known, hw.eq⟩

/-- in the fold of `assembliesFused`: a rank-1 scaffold gets exactly these two updates (with `hap = asmKey s`: tag, else haplotype, else
    None), the arena is untouched -/
theorem fused_rank1_is_add_scaffold (prefix_ : Str) (asms : List (Option Str × Bool × List Nat)) (entries : List (Str × Nat))
    (haps : List Str) (fs : List Scaffold) (sid : Nat) (h1 : (fs.getD sid default).rank = 1) :
    (fusedStep prefix_ (asms, entries, haps, fs) sid).2 =
      (entries ++ [(pyStrOpt (asmKey (fs.getD sid default)), sid)], sAdd haps (pyStrOpt (asmKey (fs.getD sid default))), fs) :=
  fusedStep_rank1 prefix_ asms entries haps fs sid h1

example : Gen.Imp.ChrNamer_add_scaffold [(ncHap1, 0)] [(ncHap1, true)] (some ncHap2) 1 =
    .ok ([(ncHap1, 0), (ncHap2, 1)], [(ncHap1, true), (ncHap2, true)]) := rfl
example : Gen.Imp.ChrNamer_add_scaffold [(ncHap1, 0), (ncHap2, 1)] ncHs (some ncHap1) 2 =
    .ok ([(ncHap1, 0), (ncHap2, 1), (ncHap1, 2)], ncHs) := rfl
/-- an untagged scaffold: the text "None" -/
example : Gen.Imp.ChrNamer_add_scaffold [] [] none 3 = .ok ([(['N', 'o', 'n', 'e'], 3)], [(['N', 'o', 'n', 'e'], true)]) := rfl
/-- the running example satisfies the invariant -/
example : NamerWf ncHs ncEntries := ⟨by decide, by decide⟩

/-! ### 4. `ChrNamer.add_chr_prefix` -/

/-- for EVERY reference and prefix: `ImpNameChr.addPrefix p fs sid` is, verbatim, the rank-2 branch of the model's fold
    (`let s := fs.getD sid default; if p.isPrefixOf s.name then fs else setAt fs sid { s with name := p ++ s.name }`) -/
theorem add_chr_prefix_is_source (heap_b : List Scaffold) (sid : Nat) (p : Str) :
    Gen.Imp.ChrNamer_add_chr_prefix heap_b sid p =
      .ok (let s := heap_b.getD sid default
           if p.isPrefixOf s.name then heap_b else setAt heap_b sid { s with name := p ++ s.name }) :=
  add_chr_prefix_eq heap_b sid p

/-- a reference outside the arena: nothing happens on either side (the source tests the default object's name "" and `bsSet` ignores the
    write; the model's `setAt` is `List.set`) -/
theorem add_chr_prefix_out_of_range (heap_b : List Scaffold) (sid : Nat) (p : Str) (h : heap_b.length ≤ sid) :
    Gen.Imp.ChrNamer_add_chr_prefix heap_b sid p = .ok heap_b := by
  rw [add_chr_prefix_eq, addPrefix_out_of_range p heap_b sid h]

/-- in the fold of `assembliesFused`: a rank-2 scaffold gets exactly this, the ChrNamer input is untouched -/
theorem fused_rank2_is_add_chr_prefix (prefix_ : Str) (asms : List (Option Str × Bool × List Nat)) (entries : List (Str × Nat))
    (haps : List Str) (fs : List Scaffold) (sid : Nat) (h2 : (fs.getD sid default).rank = 2) :
    ∃ fs', Gen.Imp.ChrNamer_add_chr_prefix fs sid prefix_ = .ok fs' ∧
      (fusedStep prefix_ (asms, entries, haps, fs) sid).2 = (entries, haps, fs') :=
  ⟨_, add_chr_prefix_eq fs sid prefix_, fusedStep_rank2 prefix_ asms entries haps fs sid h2⟩

example : (Gen.Imp.ChrNamer_add_chr_prefix ncHeapB 5 ncPre).map (·.map (·.name)) =
    .ok [['S', '1'], ['S', '2'], ['S', '3'], ['S', '4'], ['S', '3', '_', 'u', '1'], ncPre ++ ['X']] := by decide
/-- the prefix is there already: unchanged -/
example : Gen.Imp.ChrNamer_add_chr_prefix ncHeapB 2 ['S'] = .ok ncHeapB := by decide
/-- out of range: unchanged -/
example : Gen.Imp.ChrNamer_add_chr_prefix ncHeapB 9 ncPre = .ok ncHeapB := by decide

/-! ### 5. `ChrNamer.name_chromosomes` -/

/-- results AND exception classes (ValueError / KeyError / IndexError out of `build_groups`, ChrNamerError, ValueError out of the sort
    key), for every arena `heap_g` and every `self.groups` on entry -/
theorem name_chromosomes_is_source (heap_b : List Scaffold) (heap_g : List PyRt.GData) (groups : Option (List Nat))
    (hs : List (Str × Bool)) (entries : List (Str × Nat)) (prefix_ : Str)
    (hnd : (hs.map (·.1)).Nodup) (hent : hs ≠ [] → entries ≠ []) (hkeys : ∀ e ∈ entries, e.1 ∈ hs.map (·.1))
    (hcount : entries.length ≤ 1114047) :
    (Gen.Imp.ChrNamer_name_chromosomes heap_b heap_g groups hs entries prefix_).map (·.1) =
      nameChromosomes heap_b (hs.map (·.1)) entries prefix_ :=
  name_chromosomes_tie heap_b heap_g groups hs entries prefix_ hnd hent hkeys hcount

/-- the same under the invariant that `__init__` establishes and `add_scaffold` keeps -/
theorem name_chromosomes_is_source_of_wf (heap_b : List Scaffold) (heap_g : List PyRt.GData) (groups : Option (List Nat))
    (hs : List (Str × Bool)) (entries : List (Str × Nat)) (prefix_ : Str) (hw : NamerWf hs entries)
    (hcount : entries.length ≤ 1114047) :
    (Gen.Imp.ChrNamer_name_chromosomes heap_b heap_g groups hs entries prefix_).map (·.1) =
      nameChromosomes heap_b (hs.map (·.1)) entries prefix_ :=
  name_chromosomes_tie heap_b heap_g groups hs entries prefix_ hw.nodup hw.entries_ne hw.known hcount

/-- no autosome was added: the source returns at once, EVERYTHING unchanged (`self.groups` stays what it was) -/
theorem name_chromosomes_nothing_to_name (heap_b : List Scaffold) (heap_g : List PyRt.GData) (groups : Option (List Nat))
    (entries : List (Str × Nat)) (prefix_ : Str) :
    Gen.Imp.ChrNamer_name_chromosomes heap_b heap_g groups [] entries prefix_ = .ok (heap_b, heap_g, groups) ∧
    nameChromosomes heap_b [] entries prefix_ = .ok heap_b :=
  ⟨name_chromosomes_empty heap_b heap_g groups entries prefix_, rfl⟩

/-- THE DIFFERENCE: `self.scaffolds = []` with a non-empty `haplotypes_seen` — source ValueError (the sort key of the one group without
    scaffolds, which `check_groups` let through), model ChrNamerError -/
theorem name_chromosomes_no_entries_differs (heap_b : List Scaffold) (heap_g : List PyRt.GData) (groups : Option (List Nat))
    (hs : List (Str × Bool)) (prefix_ : Str) (hne : hs ≠ []) (hnd : (hs.map (·.1)).Nodup) :
    Gen.Imp.ChrNamer_name_chromosomes heap_b heap_g groups hs [] prefix_ = .error .value ∧
    nameChromosomes heap_b (hs.map (·.1)) [] prefix_ = .error .chrNamer :=
  name_chromosomes_no_entries heap_b heap_g groups hs prefix_ hne hnd

/-- the hypotheses hold of the running example -/
example : (ncHs.map (·.1)).Nodup ∧ (ncHs ≠ [] → ncEntries ≠ []) ∧ (∀ e ∈ ncEntries, e.1 ∈ ncHs.map (·.1)) ∧ ncEntries.length ≤ 1114047 := by
  decide
/-- two groups; the second is the longer one and is named first (`self.groups` comes back as `[1, 0]`); the unloc keeps its suffix; the
    rank-2 scaffold is not touched; the arena of groups (which already held one object) is extended -/
example : (Gen.Imp.ChrNamer_name_chromosomes ncHeapB [[]] none ncHs ncEntries ncPre).map (fun r => (r.1.map (·.name), r.2)) =
    .ok ([ncPre ++ ['2'], ncPre ++ ['2'], ncPre ++ ['1'], ncPre ++ ['1'], ncPre ++ ['1', '_', 'u', '1'], ['X']],
      [[], [(ncHap1, [(some ['S', '1'], [0])]), (ncHap2, [(some ['S', '2'], [1])])],
       [(ncHap1, [(some ['S', '3'], [2, 4])]), (ncHap2, [(some ['S', '4'], [3])])]],
      some [2, 1]) := rfl
/-- ChrNamerError: two consecutive Hap1 scaffolds with different original names -/
example : Gen.Imp.ChrNamer_name_chromosomes ncHeapB [] none ncHs [(ncHap1, 0), (ncHap1, 2)] ncPre = .error .chrNamer ∧
    nameChromosomes ncHeapB (ncHs.map (·.1)) [(ncHap1, 0), (ncHap1, 2)] ncPre = .error .chrNamer := ⟨rfl, rfl⟩
/-- ValueError out of `build_groups`: a reference to a scaffold without `original_name` (here: outside the arena) -/
example : Gen.Imp.ChrNamer_name_chromosomes ncHeapB [] none ncHs [(ncHap1, 0), (ncHap2, 9)] ncPre = .error .value ∧
    nameChromosomes ncHeapB (ncHs.map (·.1)) [(ncHap1, 0), (ncHap2, 9)] ncPre = .error .value := ⟨rfl, rfl⟩
/-- THE DIFFERENCE on the running example -/
example : Gen.Imp.ChrNamer_name_chromosomes ncHeapB [] none ncHs [] ncPre = .error .value ∧
    nameChromosomes ncHeapB (ncHs.map (·.1)) [] ncPre = .error .chrNamer := ⟨rfl, rfl⟩
/-- why `hkeys` (difference (b) of `C10ImpBuild`): a haplotype text that is not a key — AttributeError vs ChrNamerError -/
example : Gen.Imp.ChrNamer_name_chromosomes ncHeapB [] none [(ncHap1, true)] [(ncHap2, 0)] ncPre = .error .attribute ∧
    nameChromosomes ncHeapB [ncHap1] [(ncHap2, 0)] ncPre = .error .chrNamer := ⟨rfl, rfl⟩

end AgpTpf.C10
