/-
  C18 — Overlap results keep span and content consistent under every edit sequence.

  Python: `OverlapResult` (src/tola/assembly/overlap_result.py), obtained from
  `IndexedAssembly.find_overlaps` (indexed_assembly.py).  Model: `AgpTpf/Model/Lookup.lean`.

  The invariant `Inv src o` (defined in `AgpTpf/Proofs/C18.lean`, restated in full by `inv_iff` and in index form by
  `inv_index_form` below) has four parts:
    (1) `span`          : `o.stop - o.start + 1 = rowsLength o.rows`
    (2) `noTerminalGap` : `o.rows = []`, or the first and the last row are fragments
    (3)+(4) `content`   : `Content src o` — the rows are a contiguous run of the source scaffold `src`; the inner rows
                          are the source rows themselves; only the terminal fragments may have been shortened, and
                          only at their outer end (both ends when a single row is left); `o.start` / `o.stop` are the
                          scaffold coordinates, computed from `src`, of what is left (strand-aware, `Short`)
    (+) `distinct`      : the Fragment objects in `o.rows` are pairwise distinct objects (distinct `oid`s).

  Why (+) is there: `trim_fragment` finds its row by object identity (`rows[0] is trim`, `rows[-1] is trim`).  If the
  SAME Fragment object is both the first and the last row of a result with ≥ 2 rows, `trim_fragment(rows[0])` moves
  `start`, leaves row 0 untouched and cuts the last row at both ends: (3)/(4) are then false (see `dup_object_breaks_content`
  below; reproduced on the real code: rows [F,G,F], F = a:1-10(+), G = b:1-5, bait 3..23 ⇒ start 3, end 23, rows
  [a:1-10, b:1-5, a:3-8]).  So the property needs "a scaffold does not contain the same Fragment object twice", which is
  hypothesis `(ids src).Nodup` of `inv_lookup`, and new fragments must get fresh object ids (as `Fragment(...)` does).
-/
import AgpTpf.Proofs.C18
namespace AgpTpf.C18
open AgpTpf OverlapResult

/-! ## The invariant, spelled out -/

/-- `Short r s dl dr`: row `r` is the source fragment `s` with `dl` scaffold positions removed at its scaffold-left
    side and `dr` at its scaffold-right side; plus strand: left = `fragment.start`; any other strand (−1 and, as the code
    treats it, 0): left = `fragment.end`.  Name and strand are kept. -/
theorem short_iff (r s : Row) (dl dr : Int) :
    Short r s dl dr ↔
      ∃ f g, r = .frag f ∧ s = .frag g ∧ f.name = g.name ∧ f.strand = g.strand ∧
        (if g.strand = 1 then f.start = g.start + dl ∧ f.stop = g.stop - dr
         else f.start = g.start + dr ∧ f.stop = g.stop - dl) := Iff.rfl

/-- a shortened row covers a sub-interval of the source fragment's interval (for `dl, dr ≥ 0`) and is shorter by `dl + dr` -/
theorem short_contained {r s : Row} {dl dr : Int} (h : Short r s dl dr) (h0 : 0 ≤ dl) (h1 : 0 ≤ dr) :
    ∃ f g, r = .frag f ∧ s = .frag g ∧ g.start ≤ f.start ∧ f.stop ≤ g.stop ∧ r.length = s.length - dl - dr := by
  have hl := h.length
  obtain ⟨f, g, rfl, rfl, _, _, hc⟩ := h
  refine ⟨f, g, rfl, rfl, ?_, ?_, hl⟩ <;> (split at hc <;> omega)

/-- the content part of the invariant in full -/
theorem content_iff (src : List Row) (o : OverlapResult) :
    Content src o ↔
      (o.rows = [] ∧ o.stop = o.start - 1) ∨
      (∃ (A B : List Row) (s r : Row) (dl dr : Int),
        src = A ++ s :: B ∧ o.rows = [r] ∧ Short r s dl dr ∧ 0 ≤ dl ∧ 0 ≤ dr ∧
        o.start = 1 + rowsLength A + dl ∧ o.stop = rowsLength A + s.length - dr) ∨
      (∃ (A B mid : List Row) (s0 s1 r0 r1 : Row) (dl dr : Int),
        src = A ++ s0 :: mid ++ s1 :: B ∧ o.rows = r0 :: mid ++ [r1] ∧ Short r0 s0 dl 0 ∧ Short r1 s1 0 dr ∧
        0 ≤ dl ∧ 0 ≤ dr ∧
        o.start = 1 + rowsLength A + dl ∧
        o.stop = rowsLength A + s0.length + rowsLength mid + s1.length - dr) := by
  constructor
  · intro h
    cases h with
    | empty h1 h2 => exact Or.inl ⟨h1, h2⟩
    | one A B s r dl dr a b c d e f g => exact Or.inr (Or.inl ⟨A, B, s, r, dl, dr, a, b, c, d, e, f, g⟩)
    | many A B mid s0 s1 r0 r1 dl dr a b c d e f g h =>
      exact Or.inr (Or.inr ⟨A, B, mid, s0, s1, r0, r1, dl, dr, a, b, c, d, e, f, g, h⟩)
  · rintro (⟨h1, h2⟩ | ⟨A, B, s, r, dl, dr, a, b, c, d, e, f, g⟩ | ⟨A, B, mid, s0, s1, r0, r1, dl, dr, a, b, c, d, e, f, g, h⟩)
    · exact Content.empty h1 h2
    · exact Content.one A B s r dl dr a b c d e f g
    · exact Content.many A B mid s0 s1 r0 r1 dl dr a b c d e f g h

theorem inv_iff (src : List Row) (o : OverlapResult) :
    Inv src o ↔
      o.stop - o.start + 1 = rowsLength o.rows ∧
      (o.rows = [] ∨ ((∃ f t, o.rows = .frag f :: t) ∧ (∃ f t, o.rows = t ++ [.frag f]))) ∧
      Content src o ∧
      ((fragmentsOf o.rows).map (·.oid)).Nodup :=
  ⟨fun h => ⟨h.span, h.noTerminalGap, h.content, h.distinct⟩, fun ⟨a, b, c, d⟩ => ⟨a, b, c, d⟩⟩

/-- (1) and (2) are consequences of (3)+(4): -/
theorem content_span {src o} (h : Content src o) : o.stop - o.start + 1 = rowsLength o.rows := h.span
theorem content_noTerminalGap {src o} (h : Content src o) : NoTerminalGap o.rows := h.noTerminalGap

/-- Index form of (3)+(4): there are `i`, `n` with `n` rows left; every non-terminal row `k` is `src[i+k]`; the first /
    last row is `src[i]` / `src[i+n-1]` shortened only at its outer end (at both ends when `n = 1`); `start` / `stop` are
    prefix sums of `src` corrected by the shortening. -/
theorem content_index_form {src o} (h : Content src o) (hne : o.rows ≠ []) :
    ∃ (i n : Nat) (dl dr : Int),
      o.rows.length = n ∧ 0 < n ∧ i + n ≤ src.length ∧ 0 ≤ dl ∧ 0 ≤ dr ∧
      (∀ k, 0 < k → k + 1 < n → o.rows[k]? = src[i + k]?) ∧
      (∃ r s, o.rows[0]? = some r ∧ src[i]? = some s ∧ Short r s dl (if n = 1 then dr else 0)) ∧
      (∃ r s, o.rows[n - 1]? = some r ∧ src[i + n - 1]? = some s ∧ Short r s (if n = 1 then dl else 0) dr) ∧
      o.start = 1 + rowsLength (src.take i) + dl ∧
      o.stop = rowsLength (src.take (i + n)) - dr := by
  cases h with
  | empty h1 _ => exact absurd h1 hne
  | one A B s r dl dr hs hr hsh h0 h1 hst hen =>
    refine ⟨A.length, 1, dl, dr, by simp [hr], by omega, by simp [hs], h0, h1, ?_, ⟨r, s, by simp [hr], by simp [hs], by simpa using hsh⟩,
      ⟨r, s, by simp [hr], by simp [hs], by simpa using hsh⟩, ?_, ?_⟩
    · intro k hk hk'; omega
    · rw [hs]; simpa using hst
    · have : src = (A ++ [s]) ++ B := by simp [hs]
      rw [this, List.take_left' (by simp)]
      simp only [rowsLength_append, rowsLength_cons, rowsLength_nil]; omega
  | many A B mid s0 s1 r0 r1 dl dr hs hr hs0 hs1 h0 h1 hst hen =>
    have hs' : src = A ++ (s0 :: (mid ++ s1 :: B)) := by simp [hs]
    have hr' : o.rows = r0 :: (mid ++ [r1]) := by simp [hr]
    refine ⟨A.length, mid.length + 2, dl, dr, by simp [hr], by omega, by simp [hs], h0, h1, ?_,
      ⟨r0, s0, by simp [hr], by simp [hs'], by simpa using hs0⟩, ⟨r1, s1, ?_, ?_, by simpa using hs1⟩, ?_, ?_⟩
    · intro k hk hk'
      obtain ⟨k, rfl⟩ : ∃ k', k = k' + 1 := ⟨k - 1, by omega⟩
      have hk2 : k < mid.length := by omega
      rw [hr', hs', List.getElem?_append_right (by omega)]
      have : A.length + (k + 1) - A.length = k + 1 := by omega
      rw [this, List.getElem?_cons_succ, List.getElem?_cons_succ, List.getElem?_append_left hk2,
        List.getElem?_append_left hk2]
    · rw [hr']; simp
    · rw [hs', List.getElem?_append_right (by omega)]
      have : A.length + (mid.length + 2) - 1 - A.length = mid.length + 1 := by omega
      rw [this]; simp
    · rw [hs']; simpa using hst
    · have : src = (A ++ s0 :: mid ++ [s1]) ++ B := by simp [hs]
      rw [this, List.take_left' (by simp)]
      simp only [rowsLength_append, rowsLength_cons, rowsLength_nil]; omega

theorem inv_index_form {src o} (h : Inv src o) (hne : o.rows ≠ []) :
    ∃ (i n : Nat) (dl dr : Int),
      o.rows.length = n ∧ 0 < n ∧ i + n ≤ src.length ∧ 0 ≤ dl ∧ 0 ≤ dr ∧
      (∀ k, 0 < k → k + 1 < n → o.rows[k]? = src[i + k]?) ∧
      (∃ r s, o.rows[0]? = some r ∧ src[i]? = some s ∧ Short r s dl (if n = 1 then dr else 0)) ∧
      (∃ r s, o.rows[n - 1]? = some r ∧ src[i + n - 1]? = some s ∧ Short r s (if n = 1 then dl else 0) dr) ∧
      o.start = 1 + rowsLength (src.take i) + dl ∧
      o.stop = rowsLength (src.take (i + n)) - dr :=
  content_index_form h.content hne

/-! ## Established by the lookup -/

/-- Every result of `find_overlaps` satisfies the invariant — for every scaffold and every bait, with no condition on
    lengths or coordinates; only: no Fragment object occurs twice in the scaffold. -/
theorem inv_lookup {src : List Row} {bait : Fragment} {o : OverlapResult}
    (hd : (ids src).Nodup) (h : findOverlaps src bait = .ok (some o)) : Inv src o :=
  inv_lookup' hd h

/-- a fresh lookup result has unshortened rows: it is exactly a slice of the source, `start`/`stop` are prefix sums -/
theorem lookup_slice {src : List Row} {bait : Fragment} {o : OverlapResult}
    (h : findOverlaps src bait = .ok (some o)) :
    ∃ i j : Nat, i ≤ j ∧ j < src.length ∧ o.rows = (src.drop i).take (j + 1 - i) ∧
      o.start = 1 + rowsLength (src.take i) ∧ o.stop = rowsLength (src.take (j + 1)) ∧ o.bait = bait := by
  obtain ⟨i, j, a, b, _, _, c, d, e, f⟩ := findOverlaps_spec h
  exact ⟨i, j, a, b, c, d, e, f⟩

/-! ## Preserved by every operation -/

/-- `needsId op`: the operation creates a new Fragment object (`trim_fragment`). -/
theorem needsId_iff (op : OvOp) : needsId op = true ↔ ∃ ks ke, op = .trimFirst ks ke ∨ op = .trimLast ks ke := by
  cases op <;> simp [needsId]

/-- One accepted operation preserves the invariant.  For the two `trim_fragment` operations the object id of the
    Fragment they create must be fresh with respect to the rows of the result. -/
theorem inv_step {src : List Row} {o o' : OverlapResult} {op : OvOp} {oid : Nat} (hI : Inv src o)
    (hfresh : needsId op = true → oid ∉ ids o.rows) (h : applyOp o op oid = .ok o') : Inv src o' :=
  inv_step' hI hfresh h

/-- the three operations that never create objects need no side condition -/
theorem inv_step_discardStart {src o o'} (hI : Inv src o) (h : discardStart o = .ok o') : Inv src o' :=
  inv_discardStart hI h
theorem inv_step_discardEnd {src o o'} (hI : Inv src o) (h : discardEnd o = .ok o') : Inv src o' :=
  inv_discardEnd hI h
theorem inv_step_trimLarge {src o o'} {e : Int} (hI : Inv src o) (h : trimLargeOverhangs o e = .ok o') : Inv src o' :=
  inv_trimLarge hI h
/-- `trim_fragment(trim, …)` called directly with the first or the last row -/
theorem inv_step_trimFragment_first {src o o'} {f new : Fragment} {t : List Row} {ks ke : Bool} {oid : Nat}
    (hI : Inv src o) (hr : o.rows = .frag f :: t) (hfresh : oid ∉ ids o.rows)
    (h : trimFragment o f ks ke oid = .ok (o', new)) : Inv src o' :=
  inv_trimFragment_first hI hr hfresh h
theorem inv_step_trimFragment_last {src o o'} {f new : Fragment} {t : List Row} {ks ke : Bool} {oid : Nat}
    (hI : Inv src o) (hr : o.rows = t ++ [.frag f]) (hfresh : oid ∉ ids o.rows)
    (h : trimFragment o f ks ke oid = .ok (o', new)) : Inv src o' :=
  inv_trimFragment_last hI hr hfresh h

/-- `runOps o ops`: apply the operations in order (each paired with the id of the object it may create); the first
    rejected operation ends the run. -/
theorem runOps_nil (o : OverlapResult) : runOps o [] = .ok o := rfl
theorem runOps_cons (o : OverlapResult) (op : OvOp) (oid : Nat) (rest : List (OvOp × Nat)) :
    runOps o ((op, oid) :: rest) = (applyOp o op oid >>= fun o1 => runOps o1 rest) := rfl

/-- Any finite sequence of accepted operations preserves the invariant (new objects get pairwise distinct ids that
    are not ids of rows of the starting result). -/
theorem inv_ops {src : List Row} (ops : List (OvOp × Nat)) {o o' : OverlapResult} (hI : Inv src o)
    (hnd : (ops.map (·.2)).Nodup) (hfresh : ∀ x ∈ ops.map (·.2), x ∉ ids o.rows)
    (h : runOps o ops = .ok o') : Inv src o' :=
  inv_ops' ops hI hnd hfresh h

/-- lookup followed by any accepted edit sequence -/
theorem inv_lookup_ops {src : List Row} {bait : Fragment} (ops : List (OvOp × Nat)) {o o' : OverlapResult}
    (hd : (ids src).Nodup) (hl : findOverlaps src bait = .ok (some o))
    (hnd : (ops.map (·.2)).Nodup) (hfresh : ∀ x ∈ ops.map (·.2), x ∉ ids src)
    (h : runOps o ops = .ok o') :
    Inv src o' ∧ o'.stop - o'.start + 1 = rowsLength o'.rows ∧ NoTerminalGap o'.rows := by
  have hI := inv_lookup hd hl
  have hsub : ∀ x ∈ ids o.rows, x ∈ ids src := by
    obtain ⟨i, j, _, _, hr, _⟩ := lookup_slice hl
    intro x hx
    have hs : src = src.take i ++ o.rows ++ src.drop (i + (j + 1 - i)) := by
      rw [hr, List.append_assoc, ← List.drop_drop, List.take_append_drop, List.take_append_drop]
    rw [hs, ids_append, ids_append]
    simp [hx]
  have := inv_ops ops hI hnd (fun x hx hx' => hfresh x hx (hsub x hx')) h
  exact ⟨this, this.span, this.noTerminalGap⟩

/-! ## Derived figures = plain interval arithmetic -/

theorem startOverhang_eq (o : OverlapResult) : o.startOverhang = o.bait.start - o.start := rfl
theorem endOverhang_eq (o : OverlapResult) : o.endOverhang = o.stop - o.bait.stop := rfl
theorem length_eq (o : OverlapResult) : o.length = o.stop - o.start + 1 := rfl

/-- `start_row_bait_overlap` = size of `[bait.start, bait.stop] ∩ [start, start + len(first row) − 1]` -/
theorem startRowBaitOverlap_eq {o : OverlapResult} {n : Int} (h : startRowBaitOverlap o = .ok n) :
    ∃ r t, o.rows = r :: t ∧
      n = max 0 (min o.bait.stop (o.start + r.length - 1) - max o.bait.start o.start + 1) := by
  unfold startRowBaitOverlap at h
  cases hp : pyGet o.rows 0 with
  | error e => rw [hp] at h; cases h
  | ok r =>
    rw [hp] at h
    obtain ⟨t, ht⟩ := pyGet_zero_ok hp
    simp only [bind, Except.bind, pure, Except.pure, Except.ok.injEq] at h
    refine ⟨r, t, ht, ?_⟩
    subst h
    split <;> omega

theorem startRowBaitOverlap_ok {o : OverlapResult} {r : Row} {t : List Row} (hr : o.rows = r :: t) :
    startRowBaitOverlap o =
      .ok (max 0 (min o.bait.stop (o.start + r.length - 1) - max o.bait.start o.start + 1)) := by
  unfold startRowBaitOverlap
  rw [hr, pyGet_zero_cons]
  simp only [bind, Except.bind, pure, Except.pure, Except.ok.injEq]
  split <;> omega

/-- `end_row_bait_overlap` = size of `[bait.start, bait.stop] ∩ [stop − len(last row) + 1, stop]` -/
theorem endRowBaitOverlap_eq {o : OverlapResult} {n : Int} (h : endRowBaitOverlap o = .ok n) :
    ∃ r t, o.rows = t ++ [r] ∧
      n = max 0 (min o.bait.stop o.stop - max o.bait.start (o.stop - r.length + 1) + 1) := by
  unfold endRowBaitOverlap at h
  cases hp : pyGet o.rows (-1) with
  | error e => rw [hp] at h; cases h
  | ok r =>
    rw [hp] at h
    obtain ⟨t, ht⟩ := pyGet_neg_one_ok hp
    simp only [bind, Except.bind, pure, Except.pure, Except.ok.injEq] at h
    refine ⟨r, t, ht, ?_⟩
    subst h
    split <;> omega

theorem endRowBaitOverlap_ok {o : OverlapResult} {r : Row} {t : List Row} (hr : o.rows = t ++ [r]) :
    endRowBaitOverlap o =
      .ok (max 0 (min o.bait.stop o.stop - max o.bait.start (o.stop - r.length + 1) + 1)) := by
  unfold endRowBaitOverlap
  rw [hr, pyGet_neg_one_concat]
  simp only [bind, Except.bind, pure, Except.pure, Except.ok.injEq]
  split <;> omega

theorem popLeadingGaps_snd (l : List Row) (st : Int) : (popLeadingGaps l st).2 = st + leadingGapLength l := by
  fun_induction popLeadingGaps l st with
  | case1 g r st ih => rw [ih]; simp only [leadingGapLength]; omega
  | case2 rows st h =>
    cases rows with
    | nil => simp [leadingGapLength]
    | cons r t =>
      cases r with
      | frag f => simp [leadingGapLength]
      | gap g => exact absurd rfl (h g t)

/-- `overhang_if_start_removed()` is the start overhang that `discard_start()` would produce -/
theorem overhangIfStartRemoved_eq {o : OverlapResult} {x : Int} (h : overhangIfStartRemoved o = .ok x) :
    ∃ o', discardStart o = .ok o' ∧ x = o'.startOverhang := by
  unfold overhangIfStartRemoved at h
  unfold discardStart
  split at h
  · cases h
  · rename_i d r hr
    simp only [Except.ok.injEq] at h
    refine ⟨_, rfl, ?_⟩
    simp only [startOverhang, popLeadingGaps_snd]
    omega

/-- `overhang_if_end_removed()` is the end overhang that `discard_end()` would produce -/
theorem overhangIfEndRemoved_eq {o : OverlapResult} {x : Int} (h : overhangIfEndRemoved o = .ok x) :
    ∃ o', discardEnd o = .ok o' ∧ x = o'.endOverhang := by
  unfold overhangIfEndRemoved at h
  unfold discardEnd
  split at h
  · cases h
  · rename_i d r hr
    simp only [Except.ok.injEq] at h
    refine ⟨_, rfl, ?_⟩
    simp only [endOverhang, popLeadingGaps_snd]
    omega

/-! ## Rejections -/

theorem discardStart_empty {o : OverlapResult} (h : o.rows = []) : discardStart o = .error .index := by
  unfold discardStart; rw [h]
theorem discardEnd_empty {o : OverlapResult} (h : o.rows = []) : discardEnd o = .error .index := by
  unfold discardEnd; rw [h]; rfl
/-- the discards are rejected ONLY on an empty result -/
theorem discardStart_ok_iff (o : OverlapResult) : (∃ o', discardStart o = .ok o') ↔ o.rows ≠ [] := by
  constructor
  · rintro ⟨o', h⟩ he; rw [discardStart_empty he] at h; cases h
  · intro h
    unfold discardStart
    split
    · rename_i he; exact absurd he h
    · exact ⟨_, rfl⟩
theorem discardEnd_ok_iff (o : OverlapResult) : (∃ o', discardEnd o = .ok o') ↔ o.rows ≠ [] := by
  constructor
  · rintro ⟨o', h⟩ he; rw [discardEnd_empty he] at h; cases h
  · intro h
    unfold discardEnd
    split
    · rename_i he; exact absurd (by simpa using he) h
    · exact ⟨_, rfl⟩

/-- `trim_fragment` of a fragment that is neither the first nor the last row: ValueError -/
theorem trimFragment_reject {o : OverlapResult} {f : Fragment} {r0 r1 : Row} {t t' : List Row} (ks ke : Bool) (oid : Nat)
    (h0 : o.rows = r0 :: t) (h1 : o.rows = t' ++ [r1]) (n0 : rowIs r0 f = false) (n1 : rowIs r1 f = false) :
    trimFragment o f ks ke oid = .error .value := by
  have hs := firstIs_cons o f r0 t h0
  have he : ∀ x, lastIs { o with start := x } f = .ok false := fun x => by
    rw [← n1]; exact lastIs_concat _ f r1 t' h1
  rw [n0] at hs
  unfold trimFragment
  simp [hs, he, bind, Except.bind]
/-- … and on an empty result: IndexError -/
theorem trimFragment_empty {o : OverlapResult} (f : Fragment) (ks ke : Bool) (oid : Nat) (h : o.rows = []) :
    trimFragment o f ks ke oid = .error .index := by
  unfold trimFragment firstIs
  rw [h, pyGet_nil]; rfl

/-! ## Non-vacuity: a concrete scaffold, baits, operation sequences (all checked by evaluation) -/

def fr (oid : Nat) (n : String) (s e st : Int) : Row :=
  .frag { oid := oid, name := n.toList, start := s, stop := e, strand := st }
def gp (n : Int) : Row := .gap ⟨n, "scaffold".toList⟩
def mkBait (s e : Int) : Fragment :=
  { name := "s".toList, start := s, stop := e, strand := 1, tags := ["Painted".toList, "Hap1".toList] }
def cutTags : List Str := [Gen.cutTag, "Hap1".toList]

/-- rows: a:11-20(+) at 1..10, gap 11..15, b:1-10(−) at 16..25, gap 26..30, c:101-120(+) at 31..50 -/
def src5 : List Row := [fr 1 "a" 11 20 1, gp 5, fr 2 "b" 1 10 (-1), gp 5, fr 3 "c" 101 120 1]
def o5 : OverlapResult := { bait := mkBait 4 33, start := 1, stop := 50, rows := src5, name := "matches".toList }

example : (ids src5).Nodup := by decide
theorem lookup5 : findOverlaps src5 (mkBait 4 33) = .ok (some o5) := by decide +kernel
example : Inv src5 o5 := inv_lookup (by decide) lookup5

/-- cut both terminal fragments to the bait: a:11-20 → a:14-20, c:101-120 → c:101-103; span 4..33 -/
def o5a : OverlapResult :=
  { o5 with start := 4, stop := 33,
            rows := [.frag { oid := 10, name := "a".toList, start := 14, stop := 20, strand := 1, tags := cutTags },
                     gp 5, fr 2 "b" 1 10 (-1), gp 5,
                     .frag { oid := 11, name := "c".toList, start := 101, stop := 103, strand := 1, tags := cutTags }] }
theorem run5a : runOps o5 [(.trimFirst false false, 10), (.trimLast false false, 11)] = .ok o5a := by decide
example : Inv src5 o5a ∧ o5a.stop - o5a.start + 1 = rowsLength o5a.rows ∧ NoTerminalGap o5a.rows :=
  inv_lookup_ops _ (by decide) lookup5 (by decide) (by decide) run5a
example : Inv src5 o5a := inv_ops _ (inv_lookup (by decide) lookup5) (by decide) (by decide) run5a

/-- `trim_large_overhangs(5)` on the lookup for bait 9..33 discards at both ends (and the gaps next to them) -/
def o5b0 : OverlapResult := { o5 with bait := mkBait 9 33 }
def o5b : OverlapResult := { o5b0 with start := 16, stop := 25, rows := [fr 2 "b" 1 10 (-1)] }
theorem lookup5b : findOverlaps src5 (mkBait 9 33) = .ok (some o5b0) := by decide +kernel
theorem run5b : runOps o5b0 [(.trimLarge 5, 20)] = .ok o5b := by decide
example : Inv src5 o5b := inv_ops _ (inv_lookup (by decide) lookup5b) (by decide) (by decide) run5b
example : applyOp o5b0 (.trimLarge 5) 0 = .ok o5b := by decide
example : Inv src5 o5b := inv_step (inv_lookup (by decide) lookup5b) (by decide) (show applyOp o5b0 (.trimLarge 5) 0 = .ok o5b by decide)

/-- a minus-strand first row is cut at its `end`: b:1-10(−) → b:1-8(−); then the last row is discarded -/
def o5c0 : OverlapResult :=
  { o5 with bait := mkBait 18 50, start := 16, rows := [fr 2 "b" 1 10 (-1), gp 5, fr 3 "c" 101 120 1] }
def o5c : OverlapResult :=
  { o5c0 with start := 18, stop := 25,
              rows := [.frag { oid := 30, name := "b".toList, start := 1, stop := 8, strand := -1, tags := cutTags }] }
theorem lookup5c : findOverlaps src5 (mkBait 18 50) = .ok (some o5c0) := by decide +kernel
theorem run5c : runOps o5c0 [(.trimFirst false false, 30), (.discardEnd, 31)] = .ok o5c := by decide
example : Inv src5 o5c := inv_ops _ (inv_lookup (by decide) lookup5c) (by decide) (by decide) run5c

/-- discarding everything, then once more: IndexError -/
example : runOps o5 [(.discardStart, 40), (.discardEnd, 41), (.discardStart, 42)] =
    .ok { o5 with start := 26, stop := 25, rows := [] } := by decide
example : runOps o5 [(.discardStart, 40), (.discardEnd, 41), (.discardStart, 42), (.discardEnd, 43)] = .error .index := by
  decide
/-- trimming a fragment that is not terminal: ValueError -/
example : trimFragment o5 { oid := 2, name := "b".toList, start := 1, stop := 10, strand := -1 } false false 50 = .error .value :=
  trimFragment_reject false false 50 (r0 := fr 1 "a" 11 20 1) (r1 := fr 3 "c" 101 120 1)
    (t := [gp 5, fr 2 "b" 1 10 (-1), gp 5, fr 3 "c" 101 120 1]) (t' := [fr 1 "a" 11 20 1, gp 5, fr 2 "b" 1 10 (-1), gp 5])
    rfl rfl (by decide) (by decide)
/-- a trim that would leave nothing of the fragment (the bait starts beyond the first row 1..10): rejected with
    ValueError by `Fragment.__init__` (`start > end`) -/
example : applyOp { o5 with bait := mkBait 12 33 } (.trimFirst false false) 60 = .error .value := by decide

/-- derived figures on the example -/
example : startRowBaitOverlap o5 = .ok 7 := by decide
example : endRowBaitOverlap o5 = .ok 3 := by decide
example : overhangIfStartRemoved o5 = .ok (-12) := by decide
example : overhangIfEndRemoved o5 = .ok (-8) := by decide
example : ∃ o', discardStart o5 = .ok o' ∧ (-12 : Int) = o'.startOverhang := overhangIfStartRemoved_eq (by decide)
example : ∃ o', discardEnd o5 = .ok o' ∧ (-8 : Int) = o'.endOverhang := overhangIfEndRemoved_eq (by decide)

/-! ## Why distinct objects are required: the same Fragment object as first and last row -/

/-- F = a:1-10(+) (object 1) is both row 0 and row 2. -/
def srcDup : List Row := [fr 1 "a" 1 10 1, fr 2 "b" 1 5 1, fr 1 "a" 1 10 1]
def baitDup : Fragment := { name := "s".toList, start := 3, stop := 23, strand := 1 }
def oDup : OverlapResult := { bait := baitDup, start := 1, stop := 25, rows := srcDup, name := "matches".toList }
/-- after `trim_fragment(rows[0])`: `start` moved to 3 but row 0 is still a:1-10, and the LAST row was cut at both ends -/
def oDup' : OverlapResult :=
  { oDup with start := 3, stop := 23,
              rows := [fr 1 "a" 1 10 1, fr 2 "b" 1 5 1,
                       .frag { oid := 9, name := "a".toList, start := 3, stop := 8, strand := 1, tags := [Gen.cutTag] }] }
theorem lookupDup : findOverlaps srcDup baitDup = .ok (some oDup) := by decide +kernel
theorem stepDup : applyOp oDup (.trimFirst false false) 9 = .ok oDup' := by decide
/-- the span arithmetic (1) survives, the content (3)/(4) does not -/
theorem dup_object_breaks_content :
    oDup'.stop - oDup'.start + 1 = rowsLength oDup'.rows ∧ ¬ Content srcDup oDup' := by
  refine ⟨by decide, fun h => ?_⟩
  obtain ⟨i, n, dl, dr, hn, _, hb, _, _, _, ⟨r, s, hr0, hs0, hsh⟩, _, hst, _⟩ := content_index_form h (by decide)
  have hn3 : n = 3 := by rw [← hn]; rfl
  subst hn3
  have hi : i = 0 := by simp [srcDup] at hb; omega
  subst hi
  have hr : r = fr 1 "a" 1 10 1 := by simpa [oDup'] using hr0.symm
  have hs : s = fr 1 "a" 1 10 1 := by simpa [srcDup] using hs0.symm
  subst hr hs
  have hdl : dl = 2 := by
    have : oDup'.start = 3 := rfl
    rw [this] at hst; simp [rowsLength_nil] at hst; omega
  obtain ⟨f, g, hf, hg, _, _, hc⟩ := hsh
  simp only [fr, Row.frag.injEq] at hf hg
  subst hf hg
  simp at hc
  omega
end AgpTpf.C18
