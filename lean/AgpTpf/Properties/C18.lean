/- C18 — statements under construction -/
import AgpTpf.Model.Lookup
namespace AgpTpf.C18
open AgpTpf
theorem popLeadingGaps_span (rows : List Row) (st : Int) :
    (OverlapResult.popLeadingGaps rows st).2 + rowsLength (OverlapResult.popLeadingGaps rows st).1 = st + rowsLength rows := by
  induction rows generalizing st with
  | nil => simp [OverlapResult.popLeadingGaps]
  | cons r rs ih =>
    cases r with
    | frag f => simp [OverlapResult.popLeadingGaps]
    | gap g =>
      simp only [OverlapResult.popLeadingGaps]
      rw [ih]
      simp [rowsLength, sumInts, Row.length]
      omega
end AgpTpf.C18
