/-
  C10 — Chromosome, unloc and haplotig names are unique and ranked by size.

  PROVED HERE (each at full strength for the model function named):
    * `rename_by_size`            [ScaffoldNamer.rename_by_size]   the names of the scaffolds in `ids` are permuted among
                                   them; the k-th name (in the original hand-out order) goes to the k-th longest, ties in
                                   hand-out order (stable); nothing else in the store changes.
    * `haplotig_names`            [label_scaffold / haplotig_name] along ANY sequence of make_scaffold_name / label_scaffold
                                   calls the Haplotig pieces are named H_(c+1), H_(c+2), … without holes, `c` the counter
                                   at the start (0 for a fresh namer), and are recorded in `haplotigScaffolds` in that order;
                                   hence pairwise different (`haplotig_names_nodup`, `unloc_names_nodup`).
    * `unloc_names`               [label_scaffold / unloc_name]    between two make_scaffold_name calls the Unloc pieces are
                                   named <current>_unloc_1..m; `make_scaffold_name_resets` restarts the counter.
    * `chromosome_name_csv`       [chromosome_name_csv]            one line per rank-1/2 scaffold, in order;
                                   `localised = false` exactly when the Pretext scaffold name was already seen.

  The trace theorems are about the namer operations; that `findAssemblyOverlaps` / `processBait` drive the namer only
  through these two operations is by inspection of the model, not a theorem here.
  NOT PROVED (so C10 as a whole is PARTIAL): uniqueness of ALL scaffold names inside each output assembly, the
  `<prefix>1..n` numbering by `buildGroups` / `nameGroup` / the stable sort of groups in `assembliesFused`, and the
  autosomes-first `smartSort` order.  The full statement of C10 is in /verif/lean/tasks/C09.md.
-/
import AgpTpf.Model.Remap
import AgpTpf.Proofs.C10
import AgpTpf.Proofs.C10Csv
import AgpTpf.Proofs.C10Rename
namespace AgpTpf.C10
open AgpTpf

/-! ## `rename_by_size` -/

def lenOf (st : List Res) (i : Nat) : Int := (st.getD i default).o.length
def nameOf (st : List Res) (i : Nat) : Str := (st.getD i default).o.name

theorem rename_by_size_nil (store : List Res) : renameBySize store [] = store := rfl

/-- `bs` is `ids` sorted longest first (stable).  After `renameBySize`, the scaffold `bs[k]` carries the name that
    `ids[k]` had before; all names stay within `ids`; lengths and every other field of every store entry are unchanged. -/
theorem rename_by_size (store : List Res) (ids : List Nat) (hne : ids ≠ []) (hnd : ids.Nodup)
    (hlt : ∀ i ∈ ids, i < store.length) :
    let st' := renameBySize store ids
    let bs := sortByIntKeyDesc (lenOf store) ids
    bs.Perm ids ∧
    bs.Pairwise (fun a b => lenOf store a ≥ lenOf store b) ∧
    (∀ L : Int, bs.filter (fun i => lenOf store i = L) = ids.filter (fun i => lenOf store i = L)) ∧
    bs.map (nameOf st') = ids.map (nameOf store) ∧
    (bs.map (lenOf st')).Pairwise (· ≥ ·) ∧
    (ids.map (nameOf st')).Perm (ids.map (nameOf store)) ∧
    st'.length = store.length ∧
    (∀ j, j ∉ ids → st'.getD j default = store.getD j default) ∧
    (∀ j, ∃ x, st'.getD j default = withName (store.getD j default) x) ∧
    (∀ j, lenOf st' j = lenOf store j) := by
  intro st' bs
  have hperm : bs.Perm ids := stableSort_perm _ ids
  have hsorted : bs.Pairwise (fun a b => lenOf store a ≥ lenOf store b) := by
    have := stableSort_sorted (fun a b : Nat => decide (lenOf store a ≥ lenOf store b))
      (by intro a b; simp only [decide_eq_true_eq]; omega)
      (by intro a b c; simp only [decide_eq_true_eq]; omega) ids
    exact this.imp (fun h => by simpa using h)
  have hstable : ∀ L : Int, bs.filter (fun i => lenOf store i = L) = ids.filter (fun i => lenOf store i = L) := by
    intro L
    exact stableSort_filter _ _ (by intro x y hx hy; simp only [decide_eq_true_eq] at hx hy ⊢; omega) ids
  have hst' : st' = (bs.zip (ids.map (nameOf store))).foldl setName store := renameBySize_eq store ids hne
  have hlen : bs.length = (ids.map (nameOf store)).length := by rw [List.length_map]; exact hperm.length_eq
  have hfst : (bs.zip (ids.map (nameOf store))).map (·.1) = bs := List.map_fst_zip (Nat.le_of_eq hlen)
  have hbnd : bs.Nodup := hperm.nodup_iff.2 hnd
  obtain ⟨a1, a2, a3, a4⟩ := assignNames (bs.zip (ids.map (nameOf store))) store (by rw [hfst]; exact hbnd)
  rw [← hst'] at a1 a2 a3 a4
  rw [hfst] at a2
  have hlenOf : ∀ j, lenOf st' j = lenOf store j := by
    intro j; obtain ⟨x, hx⟩ := a4 j; unfold lenOf; rw [hx]; rfl
  have hnames : bs.map (nameOf st') = ids.map (nameOf store) := by
    apply map_eq_of_zip _ _ _ hlen
    intro p hp
    have hp1 : p.1 ∈ ids := hperm.mem_iff.1 ((List.of_mem_zip hp).1)
    unfold nameOf
    rw [a3 p hp (hlt p.1 hp1)]; rfl
  refine ⟨hperm, hsorted, hstable, hnames, ?_, ?_, a1, ?_, a4, hlenOf⟩
  · rw [List.pairwise_map]
    exact hsorted.imp (fun h => by rw [hlenOf, hlenOf]; exact h)
  · rw [← hnames]; exact (hperm.map _).symm
  · intro j hj; exact a2 j (fun h => hj (hperm.mem_iff.1 h))

/-! ## haplotig and unloc names -/

/-- **Haplotig names are H_(c+1) … H_(c+m) without holes**, whatever sequence of `make_scaffold_name` and
    `label_scaffold` calls is run (`outs` lists the `label_scaffold` results in call order; `isHapPiece` = the piece is
    tagged Haplotig and not FalseDuplicate, i.e. takes the `haplotig_name()` branch). -/
theorem haplotig_names (evs : List Ev) (n n' : Namer) (outs : List (Nat × Fragment × OverlapResult))
    (h : runEvs n evs = .ok (n', outs)) :
    let hs := outs.filter (fun p => isHapPiece p.2.1)
    hs.map (·.2.2.name) = (List.range' (n.haplotigN + 1) hs.length).map hapName ∧
    n'.haplotigN = n.haplotigN + hs.length ∧
    n'.haplotigScaffolds = n.haplotigScaffolds ++ hs.map (·.1) :=
  runEvs_haplotig evs n n' outs h

/-- **Unloc names are <current>_unloc_(c+1) … (c+m)** along the `label_scaffold` calls made for one Pretext scaffold. -/
theorem unloc_names (evs : List Ev) (hl : ∀ ev ∈ evs, ev.isLabel = true) (n n' : Namer)
    (outs : List (Nat × Fragment × OverlapResult)) (h : runEvs n evs = .ok (n', outs)) :
    let us := outs.filter (fun p => isUnlocPiece p.2.1)
    us.map (·.2.2.name) = (List.range' (n.unlocN + 1) us.length).map (unlocName n.currentScaffoldName) ∧
    n'.unlocN = n.unlocN + us.length ∧
    n'.unlocScaffolds = n.unlocScaffolds ++ us.map (·.1) ∧
    n'.currentScaffoldName = n.currentScaffoldName :=
  runEvs_unloc evs hl n n' outs h

/-- `make_scaffold_name` restarts the unloc counter (so numbering is 1..m per Pretext scaffold) and does not touch the
    haplotig counter, the haplotig list or the autosome prefix. -/
theorem make_scaffold_name_resets (n n' : Namer) (scName : Str) (rows : List Row) (tags : List Str)
    (h : makeScaffoldName n scName rows tags = .ok n') :
    n'.unlocN = 0 ∧ n'.unlocScaffolds = [] ∧ n'.haplotigN = n.haplotigN ∧
    n'.haplotigScaffolds = n.haplotigScaffolds ∧ n'.autosomePrefix = n.autosomePrefix := by
  obtain ⟨⟨a, b, c⟩, d, e⟩ := makeScaffoldName_counters n n' scName rows tags h
  exact ⟨d, e, a, b, c⟩

/-- every other piece keeps the current scaffold name -/
theorem plain_piece_name (n n' : Namer) (o o' : OverlapResult) (sid : Nat) (frag : Fragment) (scTags : List Str)
    (orig : Str) (h : labelScaffold n o sid frag scTags orig = .ok (n', o'))
    (h1 : isHapPiece frag = false) (h2 : isUnlocPiece frag = false) :
    o'.name = n.currentScaffoldName.getD sNone :=
  (label_counters n n' o o' sid frag scTags orig h).2.2.2.2 h1 h2

/-- decimal rendering is injective, hence so are the generated names -/
theorem natToStr_inj (a b : Nat) (h : natToStr a = natToStr b) : a = b := by
  have ha := @Nat.ofDigitChars_ten_toDigits a
  have hb := @Nat.ofDigitChars_ten_toDigits b
  unfold natToStr at h
  rw [h] at ha
  exact ha.symm.trans hb

theorem hapName_inj (a b : Nat) (h : hapName a = hapName b) : a = b := by
  unfold hapName at h
  exact natToStr_inj a b (List.append_cancel_left h)

theorem unlocName_inj (cur : Option Str) (a b : Nat) (h : unlocName cur a = unlocName cur b) : a = b := by
  unfold unlocName at h
  exact natToStr_inj a b (List.append_cancel_left h)

/-- **Haplotig names are pairwise different** (before and — by `rename_by_size`, a permutation — after renaming). -/
theorem haplotig_names_nodup (evs : List Ev) (n n' : Namer) (outs : List (Nat × Fragment × OverlapResult))
    (h : runEvs n evs = .ok (n', outs)) :
    ((outs.filter (fun p => isHapPiece p.2.1)).map (·.2.2.name)).Nodup := by
  rw [(haplotig_names evs n n' outs h).1]
  exact List.Pairwise.map hapName (fun a b hne hab => hne (hapName_inj a b hab)) List.nodup_range'

/-- **Unloc names of one Pretext scaffold are pairwise different.** -/
theorem unloc_names_nodup (evs : List Ev) (hl : ∀ ev ∈ evs, ev.isLabel = true) (n n' : Namer)
    (outs : List (Nat × Fragment × OverlapResult)) (h : runEvs n evs = .ok (n', outs)) :
    ((outs.filter (fun p => isUnlocPiece p.2.1)).map (·.2.2.name)).Nodup := by
  rw [(unloc_names evs hl n n' outs h).1]
  exact List.Pairwise.map _ (fun a b hne hab => hne (unlocName_inj _ a b hab)) List.nodup_range'

/-! ## `chromosome_name_csv` -/

theorem csvSpec_length (prefix_ : Str) : ∀ (l earlier : List Scaffold),
    (csvSpec prefix_ earlier l).length = l.length ∧ (csvSpec prefix_ earlier l).map (·.1) = l.map (·.name) := by
  intro l
  induction l with
  | nil => intro _; exact ⟨rfl, rfl⟩
  | cons s r ih =>
    intro earlier
    obtain ⟨h1, h2⟩ := ih (earlier ++ [s])
    refine ⟨by simp [csvSpec, h1], ?_⟩
    simp only [csvSpec, List.map_cons, h2]
    congr 1
    unfold csvLine; split <;> rfl

theorem csvSpec_append (prefix_ : Str) : ∀ (pre earlier : List Scaffold) (s : Scaffold) (post : List Scaffold),
    csvSpec prefix_ earlier (pre ++ s :: post) =
      csvSpec prefix_ earlier pre ++ csvLine prefix_ (earlier ++ pre) s :: csvSpec prefix_ (earlier ++ pre ++ [s]) post := by
  intro pre
  induction pre with
  | nil => intro earlier s post; simp [csvSpec]
  | cons a r ih =>
    intro earlier s post
    simp only [List.cons_append, csvSpec]
    rw [ih (earlier ++ [a]) s post]
    simp [List.append_assoc]

theorem csvLine_localised (prefix_ : Str) (earlier : List Scaffold) (s : Scaffold) :
    ((csvLine prefix_ earlier s).2.2 = false ↔
      (truthy s.originalName = true ∧ ∃ e ∈ earlier, e.originalName = s.originalName)) ∧
    ((csvLine prefix_ earlier s).2.2 = true → (csvLine prefix_ earlier s).2.1 = replaceFirst prefix_ [] s.name) := by
  unfold csvLine earlierSame
  by_cases ht : truthy s.originalName = true
  · simp only [if_pos ht]
    cases hf : earlier.find? (fun e => e.originalName = s.originalName) with
    | some e =>
      have hm := List.mem_of_find?_eq_some hf
      have he := List.find?_some hf
      simp only [decide_eq_true_eq] at he
      exact ⟨⟨fun _ => ⟨ht, e, hm, he⟩, fun _ => rfl⟩, fun h => (by cases h)⟩
    | none =>
      refine ⟨⟨fun h => (by cases h), ?_⟩, fun _ => rfl⟩
      rintro ⟨_, e, hm, he⟩
      have := List.find?_eq_none.1 hf e hm
      simp [he] at this
  · simp only [if_neg ht]
    exact ⟨⟨fun h => (by cases h), fun h => absurd h.1 ht⟩, fun _ => trivial⟩

/-- **The chromosome-list CSV.**  With `rs` the rank-1/2 scaffolds of the assembly in order:
    one line per element of `rs`, first column its name; the line of `s` (preceded by `pre` in `rs`) is
    `csvLine prefix pre s`, whose `localised` flag is `false` exactly when `s` has a (truthy) Pretext-scaffold name that
    an earlier rank-1/2 scaffold also has — and then the chromosome name is that of the FIRST such scaffold — and
    otherwise the chromosome name is the scaffold's own name with the first occurrence of the prefix removed. -/
theorem chromosome_name_csv (prefix_ : Str) (scs : List Scaffold) :
    let rs := scs.filter isChrRank
    let csv := chromosomeNameCsv prefix_ scs
    csv.length = rs.length ∧ csv.map (·.1) = rs.map (·.name) ∧
    ∀ pre s post, rs = pre ++ s :: post →
      csv[pre.length]? = some (csvLine prefix_ pre s) ∧
      ((csvLine prefix_ pre s).2.2 = false ↔
        (truthy s.originalName = true ∧ ∃ e ∈ pre, e.originalName = s.originalName)) ∧
      ((csvLine prefix_ pre s).2.2 = true → (csvLine prefix_ pre s).2.1 = replaceFirst prefix_ [] s.name) ∧
      ((csvLine prefix_ pre s).2.2 = false →
        ∃ e, pre.find? (fun e => e.originalName = s.originalName) = some e ∧
          (csvLine prefix_ pre s).2.1 = replaceFirst prefix_ [] e.name) := by
  intro rs csv
  have hcsv : csv = csvSpec prefix_ [] rs := chromosomeNameCsv_spec prefix_ scs
  obtain ⟨h1, h2⟩ := csvSpec_length prefix_ rs []
  refine ⟨by rw [hcsv, h1], by rw [hcsv, h2], ?_⟩
  intro pre s post hrs
  obtain ⟨l1, l2⟩ := csvLine_localised prefix_ pre s
  refine ⟨?_, l1, l2, ?_⟩
  · rw [hcsv, hrs, csvSpec_append, List.nil_append]
    have hl : (csvSpec prefix_ [] pre).length = pre.length := (csvSpec_length prefix_ pre []).1
    rw [List.getElem?_append_right (by omega), hl, Nat.sub_self]
    rfl
  · intro hfalse
    unfold csvLine at hfalse ⊢
    unfold earlierSame at hfalse ⊢
    by_cases ht : truthy s.originalName = true
    · simp only [if_pos ht] at hfalse ⊢
      cases hf : pre.find? (fun e => e.originalName = s.originalName) with
      | some e => exact ⟨e, rfl, rfl⟩
      | none => rw [hf] at hfalse; cases hfalse
    · simp only [if_neg ht] at hfalse; cases hfalse

/-! ### non-vacuity -/

def mkRes (nm : Str) (start stop : Int) : Res :=
  { o := { bait := { name := ['c'], start := start, stop := stop, strand := 1 }, start := start, stop := stop,
           rows := [], name := nm }, added := true }

/-- three haplotigs of lengths 10, 30, 30 named H_1, H_2, H_3: afterwards H_1, H_2 are the two long ones (in their
    original order) and H_3 is the short one; the entry outside `ids` is untouched -/
example :
    (renameBySize [mkRes ['H','_','1'] 1 10, mkRes ['x'] 1 99, mkRes ['H','_','2'] 1 30, mkRes ['H','_','3'] 101 130]
        [0, 2, 3]).map (fun r => (r.o.name, r.o.length)) =
      [(['H','_','3'], 10), (['x'], 99), (['H','_','1'], 30), (['H','_','2'], 30)] := by decide

example : [0, 2, 3] ≠ [] ∧ [0, 2, 3].Nodup ∧ ∀ i ∈ [0, 2, 3], i < 4 := by decide

def hapFrag : Fragment := { name := ['c'], start := 1, stop := 9, strand := 1, tags := [sHaplotig] }
def unlocFrag : Fragment := { name := ['c'], start := 1, stop := 9, strand := 1, tags := [sUnloc] }
def plainFrag : Fragment := { name := ['c'], start := 1, stop := 9, strand := 1, tags := [sPainted] }
def someO : OverlapResult := { bait := plainFrag, start := 1, stop := 9, rows := [] }
def n0 : Namer := { autosomePrefix := ['S','U','P','E','R','_'] }
def ctg : Row := .frag { name := ['c','t','g','1'], start := 1, stop := 100, strand := 1 }

/-- a trace with two Pretext scaffolds, haplotigs in both and unlocs in the first: names as stated -/
example :
    (runEvs n0
      [.name ['S','1'] [ctg] [sPainted], .label someO 0 hapFrag [sPainted] ['S','1'],
       .label someO 1 unlocFrag [sPainted] ['S','1'], .label someO 2 plainFrag [sPainted] ['S','1'],
       .label someO 3 unlocFrag [sPainted] ['S','1'],
       .name ['S','2'] [ctg] [sPainted], .label someO 4 hapFrag [sPainted] ['S','2']]).toOption.map
      (fun p => (p.1.haplotigN, p.1.haplotigScaffolds, p.2.map (·.2.2.name))) =
    some (2, [0, 4], [['H','_','1'], "S1_unloc_1".toList, ['S','1'], "S1_unloc_2".toList, ['H','_','2']]) := by decide

/-- CSV: chromosome, its unloc (same Pretext scaffold → `localised = false`, chromosome name of the chromosome),
    an unplaced scaffold (no line), a second chromosome -/
example :
    chromosomeNameCsv ['S','_']
      [{ name := "S_1".toList, rank := 1, originalName := some ['A'] },
       { name := "S_1_unloc_1".toList, rank := 1, originalName := some ['A'] },
       { name := "scaffold_9".toList, rank := 3, originalName := some ['B'] },
       { name := "S_X".toList, rank := 2, originalName := some ['C'] }] =
      [("S_1".toList, "1".toList, true), ("S_1_unloc_1".toList, "1".toList, false), ("S_X".toList, "X".toList, true)] := by
  decide

end AgpTpf.C10
