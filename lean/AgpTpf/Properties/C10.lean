/-
  C10 — Chromosome, unloc and haplotig names are unique and ranked by size.

  PROVED HERE (each at full strength for the model function named):
    * `rename_by_size`            [ScaffoldNamer.rename_by_size]   the names of the scaffolds in `ids` are permuted among
                                   them; the k-th name (in the original hand-out order) goes to the k-th longest, ties in
                                   hand-out order (stable); nothing else in the store changes.
    * `haplotig_names`            [label_scaffold / haplotig_name] along ANY sequence of make_scaffold_name / label_scaffold
                                   calls the Haplotig pieces are named H_(c+1), H_(c+2), … without holes, `c` the counter
                                   at the start (0 for a fresh namer), and are recorded in `haplotigScaffolds` in that order;
                                   hence pairwise different (`haplotig_names_nodup`, `unloc_names_nodup`).
    * `unloc_names`               [label_scaffold / unloc_name]    between two make_scaffold_name calls the Unloc pieces are
                                   named <current>_unloc_1..m; `make_scaffold_name_resets` restarts the counter.
    * `chromosome_name_csv`       [chromosome_name_csv]            one line per rank-1/2 scaffold, in order;
                                   `localised = false` exactly when the Pretext scaffold name was already seen.

  The trace theorems are about the namer operations; that `findAssemblyOverlaps` / `processBait` drive the namer only
  through these two operations is by inspection of the model, not a theorem here.
  NOT PROVED (so C10 as a whole is PARTIAL): uniqueness of ALL scaffold names inside each output assembly, the
  `<prefix>1..n` numbering by `buildGroups` / `nameGroup` / the stable sort of groups in `assembliesFused`, and the
  autosomes-first `smartSort` order.  The full statement of C10 is in /verif/lean/tasks/C09.md.

  ADDED (wave 2, sections "single-haplotype chromosome numbering" at the end of this file; helpers in
  Proofs/C10Groups*.lean) — for ONE haplotype key in `haplotypes_seen`:
    * `replace_all_head`, `replace_all_absent`, `name_group_single`   [str.replace / ChrGroup.name_chromosome]
    * `build_groups_single`                                            [ChrNamer.build_groups]
    * `numbering_single`, `assemblies_fused_single`                    [ChrNamer.name_chromosomes inside
                                                                        assemblies_with_scaffolds_fused]
    * `generated_names_unique`, `chr_numbers_nodup`, `names_unique_autosomes`
    * `output_order`, `unloc_directly_after`                           [smart_sort_scaffolds on every output assembly]
  FINDING recorded there: `name.replace(orig, chr)` replaces EVERY occurrence of the Pretext scaffold name, so the
  "<chr>_unloc_<k>" shape needs the side condition that the Pretext name does not occur inside "_unloc_<k>"
  (counterexample `name_group_replace_counterexample`: Pretext scaffold called "c").
  STILL NOT PROVED: the two-haplotype grouping (Singleton tag, consecutive-haplotype errors, A/B/C suffixes) — stated as
  a commented goal at the end; uniqueness across rank-2 / rank-3 / haplotig names inside one assembly.
-/
import AgpTpf.Model.Remap
import AgpTpf.Proofs.C10
import AgpTpf.Proofs.C10Csv
import AgpTpf.Proofs.C10Rename
import AgpTpf.Proofs.C10Groups
import AgpTpf.Proofs.C10GroupsBuild
import AgpTpf.Proofs.C10GroupsNumber
import AgpTpf.Proofs.C10GroupsNames
import AgpTpf.Proofs.C10GroupsOut
import AgpTpf.Properties.C20
namespace AgpTpf.C10
open AgpTpf

/-! ## `rename_by_size` -/

def lenOf (st : List Res) (i : Nat) : Int := (st.getD i default).o.length
def nameOf (st : List Res) (i : Nat) : Str := (st.getD i default).o.name

theorem rename_by_size_nil (store : List Res) : renameBySize store [] = store := rfl

/-- `bs` is `ids` sorted longest first (stable).  After `renameBySize`, the scaffold `bs[k]` carries the name that
    `ids[k]` had before; all names stay within `ids`; lengths and every other field of every store entry are unchanged. -/
theorem rename_by_size (store : List Res) (ids : List Nat) (hne : ids ≠ []) (hnd : ids.Nodup)
    (hlt : ∀ i ∈ ids, i < store.length) :
    let st' := renameBySize store ids
    let bs := sortByIntKeyDesc (lenOf store) ids
    bs.Perm ids ∧
    bs.Pairwise (fun a b => lenOf store a ≥ lenOf store b) ∧
    (∀ L : Int, bs.filter (fun i => lenOf store i = L) = ids.filter (fun i => lenOf store i = L)) ∧
    bs.map (nameOf st') = ids.map (nameOf store) ∧
    (bs.map (lenOf st')).Pairwise (· ≥ ·) ∧
    (ids.map (nameOf st')).Perm (ids.map (nameOf store)) ∧
    st'.length = store.length ∧
    (∀ j, j ∉ ids → st'.getD j default = store.getD j default) ∧
    (∀ j, ∃ x, st'.getD j default = withName (store.getD j default) x) ∧
    (∀ j, lenOf st' j = lenOf store j) := by
  intro st' bs
  have hperm : bs.Perm ids := stableSort_perm _ ids
  have hsorted : bs.Pairwise (fun a b => lenOf store a ≥ lenOf store b) := by
    have := stableSort_sorted (fun a b : Nat => decide (lenOf store a ≥ lenOf store b))
      (by intro a b; simp only [decide_eq_true_eq]; omega)
      (by intro a b c; simp only [decide_eq_true_eq]; omega) ids
    exact this.imp (fun h => by simpa using h)
  have hstable : ∀ L : Int, bs.filter (fun i => lenOf store i = L) = ids.filter (fun i => lenOf store i = L) := by
    intro L
    exact stableSort_filter _ _ (by intro x y hx hy; simp only [decide_eq_true_eq] at hx hy ⊢; omega) ids
  have hst' : st' = (bs.zip (ids.map (nameOf store))).foldl setName store := renameBySize_eq store ids hne
  have hlen : bs.length = (ids.map (nameOf store)).length := by rw [List.length_map]; exact hperm.length_eq
  have hfst : (bs.zip (ids.map (nameOf store))).map (·.1) = bs := List.map_fst_zip (Nat.le_of_eq hlen)
  have hbnd : bs.Nodup := hperm.nodup_iff.2 hnd
  obtain ⟨a1, a2, a3, a4⟩ := assignNames (bs.zip (ids.map (nameOf store))) store (by rw [hfst]; exact hbnd)
  rw [← hst'] at a1 a2 a3 a4
  rw [hfst] at a2
  have hlenOf : ∀ j, lenOf st' j = lenOf store j := by
    intro j; obtain ⟨x, hx⟩ := a4 j; unfold lenOf; rw [hx]; rfl
  have hnames : bs.map (nameOf st') = ids.map (nameOf store) := by
    apply map_eq_of_zip _ _ _ hlen
    intro p hp
    have hp1 : p.1 ∈ ids := hperm.mem_iff.1 ((List.of_mem_zip hp).1)
    unfold nameOf
    rw [a3 p hp (hlt p.1 hp1)]; rfl
  refine ⟨hperm, hsorted, hstable, hnames, ?_, ?_, a1, ?_, a4, hlenOf⟩
  · rw [List.pairwise_map]
    exact hsorted.imp (fun h => by rw [hlenOf, hlenOf]; exact h)
  · rw [← hnames]; exact (hperm.map _).symm
  · intro j hj; exact a2 j (fun h => hj (hperm.mem_iff.1 h))

/-! ## haplotig and unloc names -/

/-- **Haplotig names are H_(c+1) … H_(c+m) without holes**, whatever sequence of `make_scaffold_name` and
    `label_scaffold` calls is run (`outs` lists the `label_scaffold` results in call order; `isHapPiece` = the piece is
    tagged Haplotig and not FalseDuplicate, i.e. takes the `haplotig_name()` branch). -/
theorem haplotig_names (evs : List Ev) (n n' : Namer) (outs : List (Nat × Fragment × OverlapResult))
    (h : runEvs n evs = .ok (n', outs)) :
    let hs := outs.filter (fun p => isHapPiece p.2.1)
    hs.map (·.2.2.name) = (List.range' (n.haplotigN + 1) hs.length).map hapName ∧
    n'.haplotigN = n.haplotigN + hs.length ∧
    n'.haplotigScaffolds = n.haplotigScaffolds ++ hs.map (·.1) :=
  runEvs_haplotig evs n n' outs h

/-- **Unloc names are <current>_unloc_(c+1) … (c+m)** along the `label_scaffold` calls made for one Pretext scaffold. -/
theorem unloc_names (evs : List Ev) (hl : ∀ ev ∈ evs, ev.isLabel = true) (n n' : Namer)
    (outs : List (Nat × Fragment × OverlapResult)) (h : runEvs n evs = .ok (n', outs)) :
    let us := outs.filter (fun p => isUnlocPiece p.2.1)
    us.map (·.2.2.name) = (List.range' (n.unlocN + 1) us.length).map (unlocName n.currentScaffoldName) ∧
    n'.unlocN = n.unlocN + us.length ∧
    n'.unlocScaffolds = n.unlocScaffolds ++ us.map (·.1) ∧
    n'.currentScaffoldName = n.currentScaffoldName :=
  runEvs_unloc evs hl n n' outs h

/-- `make_scaffold_name` restarts the unloc counter (so numbering is 1..m per Pretext scaffold) and does not touch the
    haplotig counter, the haplotig list or the autosome prefix. -/
theorem make_scaffold_name_resets (n n' : Namer) (scName : Str) (rows : List Row) (tags : List Str)
    (h : makeScaffoldName n scName rows tags = .ok n') :
    n'.unlocN = 0 ∧ n'.unlocScaffolds = [] ∧ n'.haplotigN = n.haplotigN ∧
    n'.haplotigScaffolds = n.haplotigScaffolds ∧ n'.autosomePrefix = n.autosomePrefix := by
  obtain ⟨⟨a, b, c⟩, d, e⟩ := makeScaffoldName_counters n n' scName rows tags h
  exact ⟨d, e, a, b, c⟩

/-- every other piece keeps the current scaffold name -/
theorem plain_piece_name (n n' : Namer) (o o' : OverlapResult) (sid : Nat) (frag : Fragment) (scTags : List Str)
    (orig : Str) (h : labelScaffold n o sid frag scTags orig = .ok (n', o'))
    (h1 : isHapPiece frag = false) (h2 : isUnlocPiece frag = false) :
    o'.name = n.currentScaffoldName.getD sNone :=
  (label_counters n n' o o' sid frag scTags orig h).2.2.2.2 h1 h2

/-- decimal rendering is injective, hence so are the generated names -/
theorem natToStr_inj (a b : Nat) (h : natToStr a = natToStr b) : a = b := by
  have ha := @Nat.ofDigitChars_ten_toDigits a
  have hb := @Nat.ofDigitChars_ten_toDigits b
  unfold natToStr at h
  rw [h] at ha
  exact ha.symm.trans hb

theorem hapName_inj (a b : Nat) (h : hapName a = hapName b) : a = b := by
  unfold hapName at h
  exact natToStr_inj a b (List.append_cancel_left h)

theorem unlocName_inj (cur : Option Str) (a b : Nat) (h : unlocName cur a = unlocName cur b) : a = b := by
  unfold unlocName at h
  exact natToStr_inj a b (List.append_cancel_left h)

/-- **Haplotig names are pairwise different** (before and — by `rename_by_size`, a permutation — after renaming). -/
theorem haplotig_names_nodup (evs : List Ev) (n n' : Namer) (outs : List (Nat × Fragment × OverlapResult))
    (h : runEvs n evs = .ok (n', outs)) :
    ((outs.filter (fun p => isHapPiece p.2.1)).map (·.2.2.name)).Nodup := by
  rw [(haplotig_names evs n n' outs h).1]
  exact List.Pairwise.map hapName (fun a b hne hab => hne (hapName_inj a b hab)) List.nodup_range'

/-- **Unloc names of one Pretext scaffold are pairwise different.** -/
theorem unloc_names_nodup (evs : List Ev) (hl : ∀ ev ∈ evs, ev.isLabel = true) (n n' : Namer)
    (outs : List (Nat × Fragment × OverlapResult)) (h : runEvs n evs = .ok (n', outs)) :
    ((outs.filter (fun p => isUnlocPiece p.2.1)).map (·.2.2.name)).Nodup := by
  rw [(unloc_names evs hl n n' outs h).1]
  exact List.Pairwise.map _ (fun a b hne hab => hne (unlocName_inj _ a b hab)) List.nodup_range'

/-! ## `chromosome_name_csv` -/

theorem csvSpec_length (prefix_ : Str) : ∀ (l earlier : List Scaffold),
    (csvSpec prefix_ earlier l).length = l.length ∧ (csvSpec prefix_ earlier l).map (·.1) = l.map (·.name) := by
  intro l
  induction l with
  | nil => intro _; exact ⟨rfl, rfl⟩
  | cons s r ih =>
    intro earlier
    obtain ⟨h1, h2⟩ := ih (earlier ++ [s])
    refine ⟨by simp [csvSpec, h1], ?_⟩
    simp only [csvSpec, List.map_cons, h2]
    congr 1
    unfold csvLine; split <;> rfl

theorem csvSpec_append (prefix_ : Str) : ∀ (pre earlier : List Scaffold) (s : Scaffold) (post : List Scaffold),
    csvSpec prefix_ earlier (pre ++ s :: post) =
      csvSpec prefix_ earlier pre ++ csvLine prefix_ (earlier ++ pre) s :: csvSpec prefix_ (earlier ++ pre ++ [s]) post := by
  intro pre
  induction pre with
  | nil => intro earlier s post; simp [csvSpec]
  | cons a r ih =>
    intro earlier s post
    simp only [List.cons_append, csvSpec]
    rw [ih (earlier ++ [a]) s post]
    simp [List.append_assoc]

theorem csvLine_localised (prefix_ : Str) (earlier : List Scaffold) (s : Scaffold) :
    ((csvLine prefix_ earlier s).2.2 = false ↔
      (truthy s.originalName = true ∧ ∃ e ∈ earlier, e.originalName = s.originalName)) ∧
    ((csvLine prefix_ earlier s).2.2 = true → (csvLine prefix_ earlier s).2.1 = replaceFirst prefix_ [] s.name) := by
  unfold csvLine earlierSame
  by_cases ht : truthy s.originalName = true
  · simp only [if_pos ht]
    cases hf : earlier.find? (fun e => e.originalName = s.originalName) with
    | some e =>
      have hm := List.mem_of_find?_eq_some hf
      have he := List.find?_some hf
      simp only [decide_eq_true_eq] at he
      exact ⟨⟨fun _ => ⟨ht, e, hm, he⟩, fun _ => rfl⟩, fun h => (by cases h)⟩
    | none =>
      refine ⟨⟨fun h => (by cases h), ?_⟩, fun _ => rfl⟩
      rintro ⟨_, e, hm, he⟩
      have := List.find?_eq_none.1 hf e hm
      simp [he] at this
  · simp only [if_neg ht]
    exact ⟨⟨fun h => (by cases h), fun h => absurd h.1 ht⟩, fun _ => trivial⟩

/-- **The chromosome-list CSV.**  With `rs` the rank-1/2 scaffolds of the assembly in order:
    one line per element of `rs`, first column its name; the line of `s` (preceded by `pre` in `rs`) is
    `csvLine prefix pre s`, whose `localised` flag is `false` exactly when `s` has a (truthy) Pretext-scaffold name that
    an earlier rank-1/2 scaffold also has — and then the chromosome name is that of the FIRST such scaffold — and
    otherwise the chromosome name is the scaffold's own name with the first occurrence of the prefix removed. -/
theorem chromosome_name_csv (prefix_ : Str) (scs : List Scaffold) :
    let rs := scs.filter isChrRank
    let csv := chromosomeNameCsv prefix_ scs
    csv.length = rs.length ∧ csv.map (·.1) = rs.map (·.name) ∧
    ∀ pre s post, rs = pre ++ s :: post →
      csv[pre.length]? = some (csvLine prefix_ pre s) ∧
      ((csvLine prefix_ pre s).2.2 = false ↔
        (truthy s.originalName = true ∧ ∃ e ∈ pre, e.originalName = s.originalName)) ∧
      ((csvLine prefix_ pre s).2.2 = true → (csvLine prefix_ pre s).2.1 = replaceFirst prefix_ [] s.name) ∧
      ((csvLine prefix_ pre s).2.2 = false →
        ∃ e, pre.find? (fun e => e.originalName = s.originalName) = some e ∧
          (csvLine prefix_ pre s).2.1 = replaceFirst prefix_ [] e.name) := by
  intro rs csv
  have hcsv : csv = csvSpec prefix_ [] rs := chromosomeNameCsv_spec prefix_ scs
  obtain ⟨h1, h2⟩ := csvSpec_length prefix_ rs []
  refine ⟨by rw [hcsv, h1], by rw [hcsv, h2], ?_⟩
  intro pre s post hrs
  obtain ⟨l1, l2⟩ := csvLine_localised prefix_ pre s
  refine ⟨?_, l1, l2, ?_⟩
  · rw [hcsv, hrs, csvSpec_append, List.nil_append]
    have hl : (csvSpec prefix_ [] pre).length = pre.length := (csvSpec_length prefix_ pre []).1
    rw [List.getElem?_append_right (by omega), hl, Nat.sub_self]
    rfl
  · intro hfalse
    unfold csvLine at hfalse ⊢
    unfold earlierSame at hfalse ⊢
    by_cases ht : truthy s.originalName = true
    · simp only [if_pos ht] at hfalse ⊢
      cases hf : pre.find? (fun e => e.originalName = s.originalName) with
      | some e => exact ⟨e, rfl, rfl⟩
      | none => rw [hf] at hfalse; cases hfalse
    · simp only [if_neg ht] at hfalse; cases hfalse

/-! ### non-vacuity -/

def mkRes (nm : Str) (start stop : Int) : Res :=
  { o := { bait := { name := ['c'], start := start, stop := stop, strand := 1 }, start := start, stop := stop,
           rows := [], name := nm }, added := true }

/-- three haplotigs of lengths 10, 30, 30 named H_1, H_2, H_3: afterwards H_1, H_2 are the two long ones (in their
    original order) and H_3 is the short one; the entry outside `ids` is untouched -/
example :
    (renameBySize [mkRes ['H','_','1'] 1 10, mkRes ['x'] 1 99, mkRes ['H','_','2'] 1 30, mkRes ['H','_','3'] 101 130]
        [0, 2, 3]).map (fun r => (r.o.name, r.o.length)) =
      [(['H','_','3'], 10), (['x'], 99), (['H','_','1'], 30), (['H','_','2'], 30)] := by decide

example : [0, 2, 3] ≠ [] ∧ [0, 2, 3].Nodup ∧ ∀ i ∈ [0, 2, 3], i < 4 := by decide

def hapFrag : Fragment := { name := ['c'], start := 1, stop := 9, strand := 1, tags := [sHaplotig] }
def unlocFrag : Fragment := { name := ['c'], start := 1, stop := 9, strand := 1, tags := [sUnloc] }
def plainFrag : Fragment := { name := ['c'], start := 1, stop := 9, strand := 1, tags := [sPainted] }
def someO : OverlapResult := { bait := plainFrag, start := 1, stop := 9, rows := [] }
def n0 : Namer := { autosomePrefix := ['S','U','P','E','R','_'] }
def ctg : Row := .frag { name := ['c','t','g','1'], start := 1, stop := 100, strand := 1 }

/-- a trace with two Pretext scaffolds, haplotigs in both and unlocs in the first: names as stated -/
example :
    (runEvs n0
      [.name ['S','1'] [ctg] [sPainted], .label someO 0 hapFrag [sPainted] ['S','1'],
       .label someO 1 unlocFrag [sPainted] ['S','1'], .label someO 2 plainFrag [sPainted] ['S','1'],
       .label someO 3 unlocFrag [sPainted] ['S','1'],
       .name ['S','2'] [ctg] [sPainted], .label someO 4 hapFrag [sPainted] ['S','2']]).toOption.map
      (fun p => (p.1.haplotigN, p.1.haplotigScaffolds, p.2.map (·.2.2.name))) =
    some (2, [0, 4], [['H','_','1'], "S1_unloc_1".toList, ['S','1'], "S1_unloc_2".toList, ['H','_','2']]) := by decide

/-- CSV: chromosome, its unloc (same Pretext scaffold → `localised = false`, chromosome name of the chromosome),
    an unplaced scaffold (no line), a second chromosome -/
example :
    chromosomeNameCsv ['S','_']
      [{ name := "S_1".toList, rank := 1, originalName := some ['A'] },
       { name := "S_1_unloc_1".toList, rank := 1, originalName := some ['A'] },
       { name := "scaffold_9".toList, rank := 3, originalName := some ['B'] },
       { name := "S_X".toList, rank := 2, originalName := some ['C'] }] =
      [("S_1".toList, "1".toList, true), ("S_1_unloc_1".toList, "1".toList, false), ("S_X".toList, "X".toList, true)] := by
  decide


/-! # Single-haplotype chromosome numbering (`ChrGroup`, `ChrNamer`)

Everything below is for ONE haplotype key `h` in `haplotypes_seen` (`haps = [h]`), the case of an ordinary
single-haplotype curation.  Vocabulary (definitions in `Proofs/C10Groups*.lean`):
  * `origOf fs sid`       Pretext scaffold name (`original_name`) of the fused scaffold `sid`, `[]` if absent
  * `origPairs fs es`     the `ChrNamer.scaffolds` list as `(original_name, id)` pairs
  * `Run = Str × List Nat`, `groupRuns`  decomposition into maximal runs of equal names (`groupRuns_spec`)
  * `mkGroup h (o, ids) = [(h, [(o, ids)])]`   the `ChrGroup.data` dict `{h: {o: ids}}`
  * `runLength fs r`      summed `fragments_length` of the scaffolds of a run (chromosome + its unlocs)
  * `sortedRuns fs rs`    `rs` stably sorted by `runLength`, longest first
  * `nameChromosomes`     the `name_chromosomes` block of `assembliesFused`, verbatim (`finishAssemblies_eq_name`)
  * `occursIn old s`      Python `old in s` (`occurs_in_iff`)
-/

/-! ## G2  `str.replace` and `ChrGroup.name_chromosome` on a one-name group -/

theorem occurs_in_iff (old s : Str) : occursIn old s = true ↔ ∃ pre post, s = pre ++ old ++ post := occursIn_iff old s

/-- `(old ++ rest).replace(old, new) = new ++ rest.replace(old, new)` (non-empty `old`) -/
theorem replace_all_head (old new rest : Str) (hne : old ≠ []) (fuel : Nat) :
    replaceAll old new (fuel + 1) (old ++ rest) = new ++ replaceAll old new fuel rest :=
  replaceAll_prefix old new hne fuel rest

/-- `s.replace(old, new) = s` when `old` does not occur in `s` -/
theorem replace_all_absent (old new s : Str) (fuel : Nat) (h : occursIn old s = false) :
    replaceAll old new fuel s = s := replaceAll_noOcc old new fuel s h

/-- the fuel the model passes (`len(name) + 1`) is enough: any two sufficient amounts give the same result -/
theorem replace_all_fuel (old new s : Str) (fuel fuel' : Nat) (h : s.length ≤ fuel) (h' : s.length ≤ fuel') :
    replaceAll old new fuel s = replaceAll old new fuel' s := replaceAll_fuel old new fuel fuel' s h h'

example : replaceAll "ab".toList "X".toList 8 "abcabab".toList = "XcXX".toList := by decide
example : occursIn "ab".toList "ba".toList = false ∧ occursIn "ab".toList "cab".toList = true := by decide

/-- **G2.**  `name_chromosome(prefix, n)` on the group `{h: {orig: ids}}`: exactly the scaffolds `ids` are touched; in
    each of them every occurrence of `orig` in the name is replaced by `prefix ++ str(n)` and no other attribute
    changes; a scaffold called `orig` becomes `prefix ++ str(n)`; a scaffold called `orig ++ suf` in whose `suf` the
    Pretext name does not occur again becomes `prefix ++ str(n) ++ suf`. -/
theorem name_group_single (fs : List Scaffold) (h orig : Str) (ids : List Nat) (prefix_ : Str) (n : Nat)
    (hnd : ids.Nodup) :
    let fs' := nameGroup fs [(h, [(orig, ids)])] prefix_ n
    let chr := prefix_ ++ natToStr n
    fs'.length = fs.length ∧
    (∀ j, j ∉ ids → fs'.getD j default = fs.getD j default) ∧
    (∀ j ∈ ids, fs'.getD j default =
      { fs.getD j default with
        name := replaceAll orig chr ((fs.getD j default).name.length + 1) (fs.getD j default).name }) ∧
    (orig ≠ [] → ∀ j ∈ ids, (fs.getD j default).name = orig → (fs'.getD j default).name = chr) ∧
    (orig ≠ [] → ∀ j ∈ ids, ∀ suf, (fs.getD j default).name = orig ++ suf → occursIn orig suf = false →
      (fs'.getD j default).name = chr ++ suf) := by
  intro fs' chr
  have hfs' : fs' = ids.foldl (renameAt orig chr) fs := nameGroup_single_eq fs h orig ids prefix_ n
  obtain ⟨a, b, c⟩ := foldl_renameAt orig chr ids fs hnd
  rw [← hfs'] at a b c
  refine ⟨a, b, c, ?_, ?_⟩
  · intro hne j hj hn
    rw [c j hj]; unfold renameScaffold; simp only; rw [hn]
    exact replaceAll_self orig chr hne _
  · intro hne j hj suf hn ho
    rw [c j hj]; unfold renameScaffold; simp only; rw [hn]
    exact replaceAll_prefix_noOcc orig chr hne _ suf ho

/-- without `ids.Nodup` (an id listed twice is renamed twice) the frame part still holds -/
theorem name_group_single_frame (fs : List Scaffold) (h orig : Str) (ids : List Nat) (prefix_ : Str) (n : Nat) :
    let fs' := nameGroup fs [(h, [(orig, ids)])] prefix_ n
    fs'.length = fs.length ∧ (∀ j, j ∉ ids → fs'.getD j default = fs.getD j default) := by
  intro fs'
  have hfs' : fs' = ids.foldl (renameAt orig (prefix_ ++ natToStr n)) fs := nameGroup_single_eq fs h orig ids prefix_ n
  rw [hfs']
  exact foldl_renameAt_frame orig _ ids fs

/-- the unloc shape: `orig ++ "_unloc_" ++ str(k)` becomes `prefix ++ str(n) ++ "_unloc_" ++ str(k)` provided the
    Pretext name has a character that is neither a digit nor one of `_ u n l o c` (true of every `Scaffold_<i>`). -/
theorem name_group_single_unloc (fs : List Scaffold) (h orig : Str) (ids : List Nat) (prefix_ : Str) (n k : Nat)
    (hnd : ids.Nodup) (c : Char) (hc : c ∈ orig) (hd : isDigit c = false) (hu : c ∉ ['_', 'u', 'n', 'l', 'o', 'c'])
    (j : Nat) (hj : j ∈ ids) (hn : (fs.getD j default).name = orig ++ "_unloc_".toList ++ natToStr k) :
    ((nameGroup fs [(h, [(orig, ids)])] prefix_ n).getD j default).name
      = prefix_ ++ natToStr n ++ "_unloc_".toList ++ natToStr k := by
  have hne : orig ≠ [] := by intro e; rw [e] at hc; cases hc
  have := (name_group_single fs h orig ids prefix_ n hnd).2.2.2.2 hne j hj (unlocSuffix k)
    (by rw [hn, List.append_assoc]; rfl) (not_occurs_unloc orig k c hc hd hu)
  rw [this]; simp [unlocSuffix]

/-- non-vacuity of G2: chromosome, its unloc, an untouched scaffold -/
example :
    (nameGroup [{ name := "Scaffold_7".toList }, { name := "other".toList }, { name := "Scaffold_7_unloc_1".toList }]
        [("None".toList, [("Scaffold_7".toList, [0, 2])])] "SUPER_".toList 3).map (·.name)
      = ["SUPER_3".toList, "other".toList, "SUPER_3_unloc_1".toList] := by decide
example : 'S' ∈ "Scaffold_7".toList ∧ isDigit 'S' = false ∧ 'S' ∉ ['_', 'u', 'n', 'l', 'o', 'c'] ∧ [0, 2].Nodup := by
  decide

/-- **FINDING (the side condition of the unloc shape cannot be dropped).**  `str.replace` replaces every occurrence:
    a Pretext scaffold called `c` with one unloc `c_unloc_1` is named `SUPER_1` / `SUPER_1_unloSUPER_1_1`, not
    `SUPER_1_unloc_1`.  (Pretext itself calls its scaffolds `Scaffold_<n>`, for which `name_group_single_unloc`
    applies; the model — like the Python — accepts any name.) -/
theorem name_group_replace_counterexample :
    (nameGroup [{ name := "c".toList }, { name := "c_unloc_1".toList }]
        [("None".toList, [("c".toList, [0, 1])])] "SUPER_".toList 1).map (·.name)
      = ["SUPER_1".toList, "SUPER_1_unloSUPER_1_1".toList] := by decide

/-! ## G1  `ChrNamer.build_groups` with one haplotype -/

example (h o : Str) (ids : List Nat) : mkGroup h (o, ids) = [(h, [(o, ids)])] := rfl

/-- what `groupRuns` means: concatenating the runs gives the list back, no run is empty, neighbouring runs have
    different names — i.e. the runs are the maximal blocks of equal names -/
theorem group_runs_spec (l : List (Str × Nat)) :
    flattenRuns (groupRuns l) = l ∧ (∀ r ∈ groupRuns l, r.2 ≠ []) ∧ AdjDistinct (groupRuns l) := groupRuns_spec l

/-- **G1.**  With `haplotypes_seen = [h]` and a non-empty scaffold list all under `h`:
    if every scaffold has a non-empty `original_name`, `build_groups` returns — in order — one group
    `{h: {orig: ids}}` per maximal run of consecutive scaffolds with the same `original_name` (a chromosome followed by
    its unlocs), and `check_groups` finds no error; if some scaffold has an empty or absent `original_name`, it raises
    `ValueError`.  (The two cases are exhaustive, so it fails exactly in the second.) -/
theorem build_groups_single (fs : List Scaffold) (h : Str) (entries : List (Str × Nat)) (hne : entries ≠ [])
    (hh : ∀ e ∈ entries, e.1 = h) :
    ((∀ e ∈ entries, truthy (fs.getD e.2 default).originalName = true) →
        buildGroups fs [h] entries = .ok ((groupRuns (origPairs fs entries)).map (mkGroup h)) ∧
        groupsHaveErrors ((groupRuns (origPairs fs entries)).map (mkGroup h)) = false) ∧
    ((∃ e ∈ entries, truthy (fs.getD e.2 default).originalName = false) →
        buildGroups fs [h] entries = .error .value) :=
  ⟨fun hg => ⟨buildGroups_single_ok fs h entries hne hh hg, groupsHaveErrors_single h _⟩,
   fun hb => buildGroups_single_bad fs h entries hh hb⟩

theorem build_groups_single_fails_iff (fs : List Scaffold) (h : Str) (entries : List (Str × Nat)) (hne : entries ≠ [])
    (hh : ∀ e ∈ entries, e.1 = h) :
    (∃ err, buildGroups fs [h] entries = .error err) ↔
      ∃ e ∈ entries, truthy (fs.getD e.2 default).originalName = false := by
  constructor
  · rintro ⟨err, herr⟩
    by_cases hb : ∃ e ∈ entries, truthy (fs.getD e.2 default).originalName = false
    · exact hb
    · have hg : ∀ e ∈ entries, truthy (fs.getD e.2 default).originalName = true := by
        intro e he
        cases ht : truthy (fs.getD e.2 default).originalName with
        | true => rfl
        | false => exact absurd ⟨e, he, ht⟩ hb
      rw [buildGroups_single_ok fs h entries hne hh hg] at herr; cases herr
  · intro hb; exact ⟨_, buildGroups_single_bad fs h entries hh hb⟩

/-- four fused scaffolds: chromosome A (100 bp), its unloc (50 bp), chromosome B (300 bp), chromosome C (120 bp) -/
def exFs : List Scaffold :=
  [{ name := "Scaffold_1".toList, rank := 1, originalName := some "Scaffold_1".toList,
     rows := [.frag { name := "a".toList, start := 1, stop := 100, strand := 1 }] },
   { name := "Scaffold_1_unloc_1".toList, rank := 1, originalName := some "Scaffold_1".toList,
     rows := [.frag { name := "b".toList, start := 1, stop := 50, strand := 1 }] },
   { name := "Scaffold_2".toList, rank := 1, originalName := some "Scaffold_2".toList,
     rows := [.frag { name := "c".toList, start := 1, stop := 300, strand := 1 }] },
   { name := "Scaffold_3".toList, rank := 1, originalName := some "Scaffold_3".toList,
     rows := [.frag { name := "d".toList, start := 1, stop := 120, strand := 1 }] }]
def exEntries : List (Str × Nat) := [(sNone, 0), (sNone, 1), (sNone, 2), (sNone, 3)]

example : buildGroups exFs [sNone] exEntries =
    .ok [[(sNone, [("Scaffold_1".toList, [0, 1])])], [(sNone, [("Scaffold_2".toList, [2])])],
         [(sNone, [("Scaffold_3".toList, [3])])]] := by rfl
example : exEntries ≠ [] ∧ (∀ e ∈ exEntries, e.1 = sNone) ∧
    (∀ e ∈ exEntries, truthy (exFs.getD e.2 default).originalName = true) ∧ (exEntries.map (·.2)).Nodup := by decide
example : (match buildGroups [{ name := "x".toList, rank := 1 }] [sNone] [(sNone, 0)] with
    | .error e => some e | .ok _ => none) = some Err.value := by decide

/-! ## G3  numbering 1..n by size -/

/-- **G3.**  `name_chromosomes` with one haplotype never fails once every scaffold has an `original_name`, and:
    the runs (chromosome + unlocs) are put in `sorted` order = non-increasing total fragments length, runs of equal
    length staying in Pretext order (stable); the run at position `k` (0-based) gets the number `k+1` — so the numbers
    used are exactly `1..n`, `n` the number of runs, each run being non-empty —: in every scaffold of that run the
    Pretext name is replaced by `prefix ++ str(k+1)`; every `ChrNamer` scaffold lies in one of the runs, under its own
    Pretext name; scaffolds not handed to `ChrNamer` are untouched. -/
theorem numbering_single (prefix_ : Str) (fs : List Scaffold) (h : Str) (entries : List (Str × Nat))
    (hne : entries ≠ []) (hh : ∀ e ∈ entries, e.1 = h)
    (hg : ∀ e ∈ entries, truthy (fs.getD e.2 default).originalName = true) (hnd : (entries.map (·.2)).Nodup) :
    let runs := groupRuns (origPairs fs entries)
    let sorted := sortedRuns fs runs
    ∃ fs', nameChromosomes prefix_ fs [h] entries = .ok fs' ∧
      sorted.Perm runs ∧
      sorted.Pairwise (fun a b => runLength fs a ≥ runLength fs b) ∧
      (∀ L : Int, sorted.filter (fun r => runLength fs r = L) = runs.filter (fun r => runLength fs r = L)) ∧
      (∀ r ∈ sorted, r.2 ≠ []) ∧
      fs'.length = fs.length ∧
      (∀ j, j ∉ entries.map (·.2) → fs'.getD j default = fs.getD j default) ∧
      (∀ k (hk : k < sorted.length), ∀ j ∈ sorted[k].2,
        fs'.getD j default =
          { fs.getD j default with
            name := replaceAll sorted[k].1 (prefix_ ++ natToStr (k + 1)) ((fs.getD j default).name.length + 1)
                      (fs.getD j default).name }) ∧
      (∀ e ∈ entries, ∃ k, ∃ hk : k < sorted.length, e.2 ∈ sorted[k].2 ∧ sorted[k].1 = origOf fs e.2) := by
  intro runs sorted
  refine ⟨_, nameChromosomes_single prefix_ fs h entries hne hh hg, sortedRuns_perm fs runs, sortedRuns_sorted fs runs,
    sortedRuns_stable fs runs, ?_, ?_⟩
  · intro r hr
    exact (groupRuns_spec _).2.1 r ((sortedRuns_perm fs runs).mem_iff.1 hr)
  · obtain ⟨a, b, c⟩ := numbering_core prefix_ fs entries hnd
    refine ⟨a, b, c, ?_⟩
    intro e he
    obtain ⟨r, hr, hr1, hr2⟩ := runs_cover fs entries e he
    have hrs : r ∈ sorted := (sortedRuns_perm fs _).mem_iff.2 hr
    obtain ⟨k, hk, hkr⟩ := List.mem_iff_getElem.1 hrs
    exact ⟨k, hk, by rw [hkr]; exact hr2, by rw [hkr]; exact hr1⟩

/-- the example: Scaffold_2 (300 bp) becomes SUPER_1; Scaffold_1 WITH its unloc (100 + 50 bp) SUPER_2 / SUPER_2_unloc_1;
    Scaffold_3 (120 bp, longer than Scaffold_1 alone) SUPER_3 -/
example : (nameChromosomes "SUPER_".toList exFs [sNone] exEntries).toOption.map (fun fs => fs.map (·.name)) =
    some ["SUPER_2".toList, "SUPER_2_unloc_1".toList, "SUPER_1".toList, "SUPER_3".toList] := by decide +kernel
example : sortedRuns exFs (groupRuns (origPairs exFs exEntries)) =
    [("Scaffold_2".toList, [2]), ("Scaffold_1".toList, [0, 1]), ("Scaffold_3".toList, [3])] := by decide +kernel

/-- **G3 inside `assemblies_with_scaffolds_fused`.**  If the split loop saw exactly one haplotype key `h` among the
    painted (rank 1) scaffolds and each of them has an `original_name`, then `assembliesFused` is: number the runs as in
    `numbering_single`, then sort / count (`outsTail`).  The side conditions of `numbering_single` (entries non-empty,
    all under `h`, ids pairwise different) are facts about the split loop, proved here (`splitLoop_entries`). -/
theorem assemblies_fused_single (input : List Scaffold) (b : Build) (asms : C09.Asms) (entries : List (Str × Nat))
    (h : Str) (fs : List Scaffold)
    (hsplit : C09.splitLoop b.namer.autosomePrefix (fuseByName b) = (asms, entries, [h], fs))
    (hg : ∀ e ∈ entries, truthy (fs.getD e.2 default).originalName = true) :
    entries ≠ [] ∧ (∀ e ∈ entries, e.1 = h) ∧ (entries.map (·.2)).Nodup ∧
    assembliesFused input b =
      C09.outsTail input b asms
        (nameRuns b.namer.autosomePrefix
          ((List.range (sortedRuns fs (groupRuns (origPairs fs entries))).length).zip
            (sortedRuns fs (groupRuns (origPairs fs entries)))) fs) := by
  have hinv := splitLoop_entries b.namer.autosomePrefix (fuseByName b)
  rw [hsplit] at hinv
  obtain ⟨i1, i2, i3⟩ := hinv
  have hh : ∀ e ∈ entries, e.1 = h := fun e he => by simpa using i2 e he
  -- `haps` is only ever extended together with `entries`
  have hne : entries ≠ [] := by
    intro hnil
    have hloop : ∀ (l : List Nat) (acc : C09.SplitSt), (acc.2.1 = [] → acc.2.2.1 = []) →
        ((l.foldl (C09.splitStep b.namer.autosomePrefix) acc).2.1 = [] →
          (l.foldl (C09.splitStep b.namer.autosomePrefix) acc).2.2.1 = []) := by
      intro l
      induction l with
      | nil => intro acc h; exact h
      | cons sid r ih =>
        intro acc hacc
        simp only [List.foldl_cons]
        apply ih
        rcases splitStep_entries b.namer.autosomePrefix acc sid with ⟨e1, e2⟩ | ⟨h', e1, _⟩
        · rw [e1, e2]; exact hacc
        · rw [e1]; intro hc; simp at hc
    have := hloop (List.range (fuseByName b).length) ([], [], [], fuseByName b) (fun _ => rfl)
    unfold C09.splitLoop at hsplit
    rw [hsplit] at this
    exact absurd (this hnil) (by simp)
  refine ⟨hne, hh, i1, ?_⟩
  rw [C09.assembliesFused_eq, hsplit, finishAssemblies_eq_name]
  simp only [List.isEmpty_cons, Bool.false_eq_true, if_false]
  rw [nameChromosomes_single _ fs h entries hne hh hg]
  rfl

/-! ## G4  the new names are unique -/

/-- `prefix ++ str(i)` is injective in `i` -/
theorem chr_name_injective (p : Str) (i j : Nat) (e : p ++ natToStr i = p ++ natToStr j) : i = j :=
  natToStr_inj i j (List.append_cancel_left e)

/-- the numbers `1..n` give `n` different chromosome names -/
theorem chr_numbers_nodup (p : Str) (n : Nat) : ((List.range n).map (fun k => p ++ natToStr (k + 1))).Nodup := by
  refine List.Pairwise.map _ ?_ List.nodup_range
  intro a b hne hab
  exact hne (by have := chr_name_injective p _ _ hab; omega)

/-- generated names are read back uniquely: `<prefix><i><s> = <prefix><j><s'>` forces `i = j` and `s = s'` whenever
    the remainders do not start with a digit (`[]` for a chromosome, `_unloc_<k>` for an unloc): so chromosomes of
    different groups, unlocs of different groups, and a chromosome and any unloc never share a name, and within a
    group `_unloc_<k>` = `_unloc_<k'>` only for `k = k'`. -/
theorem generated_names_unique (p s s' : Str) (i j : Nat) (hs : C20.NoDigitHead s) (hs' : C20.NoDigitHead s')
    (e : p ++ natToStr i ++ s = p ++ natToStr j ++ s') : i = j ∧ s = s' :=
  chr_name_inj p s s' i j hs hs' e

theorem unloc_suffix_facts (k k' : Nat) :
    unlocSuffix k = "_unloc_".toList ++ natToStr k ∧ C20.NoDigitHead (unlocSuffix k) ∧ unlocSuffix k ≠ [] ∧
    (unlocSuffix k = unlocSuffix k' → k = k') :=
  ⟨rfl, noDigitHd_unloc k, by simp [unlocSuffix], unlocSuffix_inj k k'⟩

/-- **G4.**  Let every `ChrNamer` scaffold be called `<its Pretext name> ++ suf` with `suf` empty or not starting with
    a digit and not containing the Pretext name again (`PieceShape`: the chromosome itself and `_unloc_<k>` pieces —
    this is what `unloc_names` / `plain_piece_name` above establish for `label_scaffold`), and let two different
    scaffolds of the same Pretext scaffold have different names (`unloc_names_nodup`).  Then after `name_chromosomes`
    all of them carry pairwise different names, each of the form `prefix ++ str(k+1) ++ suf`. -/
theorem names_unique_autosomes (prefix_ : Str) (fs : List Scaffold) (h : Str) (entries : List (Str × Nat))
    (hne : entries ≠ []) (hh : ∀ e ∈ entries, e.1 = h)
    (hg : ∀ e ∈ entries, truthy (fs.getD e.2 default).originalName = true) (hnd : (entries.map (·.2)).Nodup)
    (hshape : ∀ e ∈ entries, PieceShape fs e.2)
    (hdist : ∀ e ∈ entries, ∀ e' ∈ entries, e.2 ≠ e'.2 → origOf fs e.2 = origOf fs e'.2 →
      (fs.getD e.2 default).name ≠ (fs.getD e'.2 default).name) :
    ∃ fs', nameChromosomes prefix_ fs [h] entries = .ok fs' ∧
      (entries.map (fun e => (fs'.getD e.2 default).name)).Nodup ∧
      (∀ e ∈ entries, ∀ suf, (fs.getD e.2 default).name = origOf fs e.2 ++ suf → occursIn (origOf fs e.2) suf = false →
        ∃ k, k < (groupRuns (origPairs fs entries)).length ∧
          fs'.getD e.2 default = { fs.getD e.2 default with name := prefix_ ++ natToStr (k + 1) ++ suf }) := by
  refine ⟨_, nameChromosomes_single prefix_ fs h entries hne hh hg,
    new_names_nodup prefix_ fs entries hnd hg hshape hdist, ?_⟩
  intro e he suf hn ho
  obtain ⟨k, hk, _, _, hfs⟩ := entry_new_name prefix_ fs entries hnd hg e he suf hn ho
  exact ⟨k, by rw [← (sortedRuns_perm fs _).length_eq]; exact hk, hfs⟩

/-- the hypotheses of G4 on the example -/
example : (∀ e ∈ exEntries, PieceShape exFs e.2) := by
  intro e he
  simp only [exEntries, List.mem_cons, List.not_mem_nil, or_false] at he
  rcases he with rfl | rfl | rfl | rfl
  · exact ⟨[], by decide, noDigitHd_nil, by decide⟩
  · exact ⟨unlocSuffix 1, by decide, noDigitHd_unloc 1, by decide⟩
  · exact ⟨[], by decide, noDigitHd_nil, by decide⟩
  · exact ⟨[], by decide, noDigitHd_nil, by decide⟩
example : ∀ e ∈ exEntries, ∀ e' ∈ exEntries, e.2 ≠ e'.2 → origOf exFs e.2 = origOf exFs e'.2 →
    (exFs.getD e.2 default).name ≠ (exFs.getD e'.2 default).name := by decide

/-! ## G5  order of the scaffolds inside every output assembly -/

/-- **G5.**  Every assembly returned by `assemblies_with_scaffolds_fused` lists its scaffolds in `smart_sort_scaffolds`
    order: ranks non-decreasing (1 autosomes, 2 named chromosomes, 3 unplaced) and, inside one rank, non-decreasing
    natural key of the name. -/
theorem output_order (input : List Scaffold) (b : Build) (outs : List OutAsm) (stats : Stats)
    (h : assembliesFused input b = .ok (outs, stats)) :
    ∀ o ∈ outs,
      o.scaffolds.Pairwise (fun x y => x.rank ≤ y.rank) ∧
      o.scaffolds.Pairwise (fun x y => x.rank = y.rank → keyLe (C20.keyOf x.name) (C20.keyOf y.name) = true) := by
  rw [C09.assembliesFused_eq] at h
  generalize C09.splitLoop b.namer.autosomePrefix (fuseByName b) = st at h
  obtain ⟨asms, entries, haps, fs⟩ := st
  obtain ⟨fs', _, htail⟩ := finishAssemblies_named input b asms entries haps fs _ h
  intro o ho
  obtain ⟨a, _, _, _, hsc⟩ := outsTail_mem input b asms fs' outs stats htail o ho
  have hs : smartSort (a.2.2.map (fun sid => fs'.getD sid default)) = .ok o.scaffolds := by
    rw [hsc]; exact C20.smartSort_total _
  exact ⟨C20.rank_first _ _ hs, C20.smartSort_sorted_within_rank _ _ hs⟩

/-- in such an assembly a scaffold with a strictly smaller natural key and the same rank stands strictly earlier -/
theorem output_position (input : List Scaffold) (b : Build) (outs : List OutAsm) (stats : Stats)
    (h : assembliesFused input b = .ok (outs, stats)) (o : OutAsm) (ho : o ∈ outs)
    (i j : Nat) (hi : i < o.scaffolds.length) (hj : j < o.scaffolds.length)
    (hr : o.scaffolds[i].rank = o.scaffolds[j].rank)
    (hlt : C20.keyLt (C20.keyOf o.scaffolds[i].name) (C20.keyOf o.scaffolds[j].name)) : i < j :=
  sorted_position o.scaffolds (output_order input b outs stats h o ho).2 i j hi hj hr hlt

/-- **G5, names of the shape produced by G2/G3.**  With a prefix satisfying `C20.PrefixOk` (e.g. `SUPER_`): if an
    output assembly contains, with equal rank, chromosome `prefix n` at position `i`, its unloc
    `prefix n _unloc_ k` at position `j` and a later chromosome `prefix n'` (`n < n'`) at position `l`, then
    `i < j < l`: the unlocs of an autosome come after it and before the next autosome. -/
theorem unloc_directly_after (input : List Scaffold) (b : Build) (outs : List OutAsm) (stats : Stats)
    (h : assembliesFused input b = .ok (outs, stats)) (o : OutAsm) (ho : o ∈ outs) (p : Str) (hp : C20.PrefixOk p)
    (n n' k : Nat) (hn : n < n') (i j l : Nat) (hi : i < o.scaffolds.length) (hj : j < o.scaffolds.length)
    (hl : l < o.scaffolds.length)
    (hri : o.scaffolds[i].rank = o.scaffolds[j].rank) (hrl : o.scaffolds[j].rank = o.scaffolds[l].rank)
    (ni : o.scaffolds[i].name = p ++ natToStr n)
    (nj : o.scaffolds[j].name = p ++ natToStr n ++ C20.unlocInfix ++ natToStr k)
    (nl : o.scaffolds[l].name = p ++ natToStr n') : i < j ∧ j < l := by
  obtain ⟨h1, h2⟩ := C20.unloc_between p n n' k hp hn
  exact ⟨output_position input b outs stats h o ho i j hi hj hri (by rw [ni, nj]; exact h1),
         output_position input b outs stats h o ho j l hj hl hrl (by rw [nj, nl]; exact h2)⟩

/-- the unlocs of one chromosome stand in the order of their own numbers -/
theorem unlocs_in_order (input : List Scaffold) (b : Build) (outs : List OutAsm) (stats : Stats)
    (h : assembliesFused input b = .ok (outs, stats)) (o : OutAsm) (ho : o ∈ outs) (p : Str)
    (n k k' : Nat) (hk : k < k') (i j : Nat) (hi : i < o.scaffolds.length) (hj : j < o.scaffolds.length)
    (hr : o.scaffolds[i].rank = o.scaffolds[j].rank)
    (ni : o.scaffolds[i].name = p ++ natToStr n ++ C20.unlocInfix ++ natToStr k)
    (nj : o.scaffolds[j].name = p ++ natToStr n ++ C20.unlocInfix ++ natToStr k') : i < j :=
  output_position input b outs stats h o ho i j hi hj hr (by rw [ni, nj]; exact C20.unloc_order p n k k' hk)

/-! ## non-vacuity: `assemblies_with_scaffolds_fused` end to end -/

def exFrag (nm : Str) (stop : Int) : Fragment := { name := nm, start := 1, stop := stop, strand := 1 }
def exPiece (nm orig ctg : Str) (len : Int) : Res :=
  { o := { bait := exFrag orig len, start := 1, stop := len, rows := [.frag (exFrag ctg len)], name := nm, rank := 1,
           originalName := some orig, originalTags := some [sPainted] }, added := true }
/-- Pretext scaffolds Scaffold_1 (100 bp) with one unloc (50 bp), Scaffold_2 (300 bp), Scaffold_3 (120 bp), all painted -/
def exBuild : Build :=
  { namer := { autosomePrefix := "SUPER_".toList },
    store := [exPiece "Scaffold_1".toList "Scaffold_1".toList "ctgA".toList 100,
              exPiece "Scaffold_1_unloc_1".toList "Scaffold_1".toList "ctgB".toList 50,
              exPiece "Scaffold_2".toList "Scaffold_2".toList "ctgC".toList 300,
              exPiece "Scaffold_3".toList "Scaffold_3".toList "ctgD".toList 120],
    nextOid := 0, joinGap := none, err := 1 }

/-- the largest Pretext scaffold becomes SUPER_1; Scaffold_1 counts with its unloc (150 bp > 120 bp) and becomes SUPER_2,
    its unloc follows it directly and precedes SUPER_3 -/
example : (assembliesFused [] exBuild).toOption.map
      (fun r => r.1.map (fun a => (a.key, a.scaffolds.map (fun s => (s.name, s.fragmentsLength))))) =
    some [(none, [("SUPER_1".toList, 300), ("SUPER_2".toList, 100), ("SUPER_2_unloc_1".toList, 50),
                  ("SUPER_3".toList, 120)])] := by
  decide +kernel
example : (assembliesFused [] exBuild).toOption.map (fun r => r.1.map (fun a => a.scaffolds.map (·.rank))) =
    some [[1, 1, 1, 1]] := by decide +kernel

/-- … which is the situation of `unloc_directly_after` with `n = 2`, `k = 1`, `n' = 3` at positions 1, 2, 3 -/
example : "SUPER_2".toList = "SUPER_".toList ++ natToStr 2 ∧
    "SUPER_2_unloc_1".toList = "SUPER_".toList ++ natToStr 2 ++ C20.unlocInfix ++ natToStr 1 ∧
    "SUPER_3".toList = "SUPER_".toList ++ natToStr 3 := by decide

/-- the split loop of the example has the single haplotype key `"None"` (hypothesis of `assemblies_fused_single`) -/
example :
    let st := C09.splitLoop exBuild.namer.autosomePrefix (fuseByName exBuild)
    st = (st.1, st.2.1, [sNone], st.2.2.2) ∧
    ∀ e ∈ st.2.1, truthy (st.2.2.2.getD e.2 default).originalName = true := by decide +kernel

example : C20.PrefixOk "SUPER_".toList := by decide

/-! ## stated goal, NOT proved: two (or more) haplotypes

  With `haps = h₁ :: h₂ :: …` (`other_haplotypes` non-empty) `build_groups` opens a new group when
    (a) the incoming haplotype differs from the previous scaffold's and already has an entry in the current group, or
    (b) the haplotype is unchanged, the Pretext name changed, and the previous Pretext scaffold carries the
        `Singleton` tag;
  otherwise the scaffold joins the current group (so a group may hold several Pretext scaffolds per haplotype, which
  `name_chromosome` distinguishes by the suffixes A, B, C … from `multiChrList`).  `check_groups` then reports an
  error (`ChrNamerError`) exactly for a group whose FIRST haplotype has no scaffold (`<empty>`) or more than one
  Pretext scaffold (`<Consecutive h₁>`), and the groups are numbered by the length of the first haplotype's scaffold.

  theorem build_groups_multi (fs) (haps) (hlen : 2 ≤ haps.length) (entries) … :
      buildGroups fs haps entries = .ok (groupsSpec fs haps entries)        -- `groupsSpec` = rules (a), (b) above
  theorem groups_have_errors_iff (groups) :
      groupsHaveErrors groups = true ↔ ∃ g ∈ groups, ∃ h first rest, g = (h, first) :: rest ∧ first.length ≠ 1
  theorem numbering_multi … :  homologues grouped with the first haplotype's chromosome share its number, and the
      number is the rank of the FIRST haplotype's length (stable, descending).
-/

end AgpTpf.C10
