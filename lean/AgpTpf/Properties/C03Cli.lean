/-
  C03, last two sentences, END TO END for `pretext-to-asm --output x.fa`:
    "The record set and order equal the scaffold set and order, record names are unique within a file, and the AGP
     written beside the FASTA lists the same rows with the same lengths, so that each AGP object length equals the
     record length."

  Model (Proofs/C03CliFiles.lean): `writeAssemblyFasta` = the FASTA branch of `write_assembly` (open `{asm.name}{.curated}{suffix}`,
  `FastaStream.write_assembly`, `with_suffix(".agp")`, `format_agp` of the SAME assembly object), `writtenFiles` = the loop
  of `write_assemblies` over the dict values, `cliWrittenFiles` = `name_assemblies` (as a dict: `namedDict`) + `writtenFiles`.
  A written file is a pair (file NAME, `FileContent`): `.bytes` for the binary `.fa`, `.text lines` for the `.agp`.
  The assembly objects the CLI writes carry NO header lines (`cliHeader = []`: `Assembly(self.name, curated=…)`,
  `Assembly("merge")`), so the `.agp` beside the `.fa` starts directly with the first object line.

  Hypotheses, bundled in `FastaRun` (each field is a hypothesis of every theorem below):
    remapped   `remap input ptx prefix joinGap err = .ok (outs, stats)`        (any Pretext assembly, prefix, texel size)
    renamed    `nameAssemblies outs root version = .ok named`
    wf         `C01.WFInput input`                                              (C01's decidable well-formedness of the input)
    within     `InputWithin file idx resOf input`: every contig fragment of the input names an indexed record of the
               FASTA `file` (index `idx`, residues `resOf name`) and lies within it    ("any input whose rows lie within the records")
    strict     input rows are `StrandOk ∧ RowStrict` (as in `C06.written_agp_valid`; true of every FASTA-derived input:
               `C06.index_rows_strict`), `gapStrict` the same for the join gap (true of the CLI's `Gap(200, "scaffold")`:
               `C06.cli_join_gap_strict`)
    suffixOk   `SuffixOk .FASTA suffix` — what `parse_output_file` returns (`CliPlan.parseOutputFile_suffix`)
  `Properties/C03CliFasta.lean`-style discharge of `wf` / `within` / `strict` for an input read from a well-formed FASTA:
  see `fasta_input_run` at the end of this file (if present) — otherwise they are hypotheses.

  PROVED (no `_partial`):
    F0  `cli_written_files`                  the run writes exactly `(namedDict named).flatMap specFilesOf`: per named assembly,
                                             in dict order, `{name}{.curated}{suffix}` holding `fastaOf` (one `recordBytes`
                                             per scaffold) and right after it `{name}{.curated}.agp` holding `format_agp` of the
                                             same scaffolds; never fails; the file names are `CliPlan.assemblyFiles`.
    F1  `cli_fasta_records_are_scaffolds`    every written FASTA = per scaffold, in scaffold order, `>name LF` + the body
                                             (the AGP rows applied to the input FASTA) in lines of `w`; read back with a
                                             line reader (`fastaRecordNames`) the record names ARE the scaffold names in order
                                             (names without LF, input residues without `>` / LF).
    F2  `cli_fasta_record_names_unique`      … and pairwise different, under the hypotheses of `C10.remap_names_unique`
                                             + for the merged `all_haplotigs` file of the `Primary` branch: names do not
                                             repeat ACROSS the merged assemblies (`MergeDisjoint`; automatic when at most
                                             one assembly is merged: `mergeDisjoint_of_le_one`).
        FINDING `merged_all_haplotigs_duplicate_names`: without `MergeDisjoint` the statement is FALSE, of the model and of
                                             the real CLI (two `>SUPER_1` records in `x.1.all_haplotigs.curated.fa`).
    F3  `cli_agp_beside_fasta_same_rows`     the `.agp` beside each `.fa`: `format_agp` succeeds, no header line, the text is
                                             per scaffold of the SAME list the lines of `agpCols scaffold.rows` (one line per
                                             row, same names / coordinates / strands / gap lengths), tiling the object from 1,
                                             and the LAST END of each object = the residue count of the record in the `.fa`.
        `cli_agp_parses_back`                under `C05.WFAgp` (tabs etc.) `parse_agp` of that text gives back the scaffolds.
    F4  `cli_every_base_of_every_record`     across ALL FASTA files written: the fragment rows behind the records cover every
                                             base of every input contig fragment exactly once and nothing else
        `cli_record_holds_residue`           and base `x` of such a row IS byte `offset` of the record body: itself for a
                                             forward row, its complement for a minus row.
-/
import AgpTpf.Proofs.C03CliRecords
import AgpTpf.Properties.C10Unique
import AgpTpf.Properties.C09Route
import AgpTpf.Properties.C05
namespace AgpTpf.C03
open AgpTpf AgpTpf.StreamProofs AgpTpf.WrapProofs AgpTpf.CliNames AgpTpf.CliPlan AgpTpf.C05

/-- one `pretext-to-asm -a in.fa -p map.agp -o out.fa` run up to `write_assemblies` (see the file comment) -/
structure FastaRun (file : Bytes) (idx : List (Str × FastaInfo)) (resOf : Str → Bytes)
    (input ptx : List Scaffold) (prefix_ : Str) (joinGap : Option Gap) (err : Int)
    (outs : List OutAsm) (stats : Stats) (root version suffix : Str) (named : List NamedAsm) : Prop where
  remapped : remap input ptx prefix_ joinGap err = .ok (outs, stats)
  renamed : nameAssemblies outs root version = .ok named
  wf : C01.WFInput input
  within : InputWithin file idx resOf input
  strict : ∀ sc ∈ input, ∀ r ∈ sc.rows, C06.StrandOk r ∧ C06.RowStrict r
  gapStrict : ∀ g, joinGap = some g → C06.RowStrict (.gap g)
  suffixOk : SuffixOk .FASTA suffix

section
variable {file : Bytes} {idx : List (Str × FastaInfo)} {resOf : Str → Bytes}
  {input ptx : List Scaffold} {prefix_ : Str} {joinGap : Option Gap} {err : Int}
  {outs : List OutAsm} {stats : Stats} {root version suffix : Str} {named : List NamedAsm}

/-- every row of every scaffold of every named assembly lies within the input records and is strict -/
theorem FastaRun.rows (R : FastaRun file idx resOf input ptx prefix_ joinGap err outs stats root version suffix named) :
    ∀ n ∈ named, ∀ sc ∈ n.scaffolds, (∀ r ∈ sc.rows, RowOK file idx resOf r) ∧ C06.RowsGood sc.rows := by
  intro n hn sc hsc
  obtain ⟨a, ha, hsa⟩ := named_scaffold_origin outs root version named R.renamed n hn sc hsc
  exact ⟨remap_rows_ok file idx resOf input ptx prefix_ joinGap err outs stats R.wf R.remapped R.within a ha sc hsa,
    C06.remap_rows_strict input ptx prefix_ joinGap err outs stats R.strict R.gapStrict R.remapped a ha sc hsa⟩

theorem FastaRun.dictRows (R : FastaRun file idx resOf input ptx prefix_ joinGap err outs stats root version suffix named) :
    ∀ n ∈ namedDict named, ∀ sc ∈ n.scaffolds, (∀ r ∈ sc.rows, RowOK file idx resOf r) ∧ C06.RowsGood sc.rows :=
  fun n hn => R.rows n (namedDict_mem named n hn)

/-! ## F0  the files written -/

/-- **F0.**  The FASTA branch of `write_assemblies` never fails and writes, for every named assembly in dict order, the
    `.fa` file holding one record per scaffold and right after it the `.agp` file holding `format_agp` of the same
    scaffolds — nothing else; the file names are those of the output plan (`CliPlan.assemblyFiles`, C16). -/
theorem cli_written_files {bs w : Int} (hbs : 1 ≤ bs) (hw : 1 ≤ w)
    (R : FastaRun file idx resOf input ptx prefix_ joinGap err outs stats root version suffix named) :
    cliWrittenFiles file idx bs w outs root version suffix =
      .ok ((namedDict named).flatMap (specFilesOf w resOf suffix)) ∧
    assemblyFiles .FASTA suffix (namedDict named) =
      .ok (((namedDict named).flatMap (specFilesOf w resOf suffix)).map (·.1)) := by
  obtain ⟨c, x, e, hd, _⟩ := R.suffixOk
  subst e
  have hends : ∀ n ∈ namedDict named, EndsSY n.name :=
    fun n hn => named_ends outs root version named R.renamed n (namedDict_mem named n hn)
  constructor
  · unfold cliWrittenFiles
    rw [R.renamed]
    exact writtenFiles_spec hbs hw file idx resOf (c :: x) (by simp) hd (namedDict named)
      (fun n hn sc hsc => (R.dictRows n hn sc hsc).1) (fun n hn sc hsc => (R.dictRows n hn sc hsc).2) hends
  · rw [specFiles_names, assemblyFiles_ok .FASTA (c :: x) (by simp) hd (namedDict named) hends]

/-- the content of the two files of one assembly, spelled out -/
theorem spec_files_of (w : Int) (n : NamedAsm) :
    specFilesOf w resOf suffix n =
      [(n.name ++ (if n.curated then ".curated".toList else []) ++ suffix,
          .bytes ((n.scaffolds.map (fun sc => recordBytes w sc.name (rowsBody resOf sc.rows))).flatten)),
       (n.name ++ (if n.curated then ".curated".toList else []) ++ ".agp".toList, .text (agpLinesOf n))] := rfl

/-! ## F1  records = scaffolds, in order -/

/-- **F1.**  For every named assembly `n` (its FASTA file is `outputFileName n suffix`, content `fastaOf w resOf n.scaffolds`
    by F0):
    (a) the file is, scaffold by scaffold IN SCAFFOLD ORDER, the header line `>` + scaffold name + LF followed by the
        body `rowsBody resOf rows` — the scaffold's rows applied to the input FASTA — cut into lines of `w` bytes
        (last one 1..w), each ended by LF; one record per scaffold, nothing else;
    (b) read back line by line (`fastaRecordNames`: the lines that start with `>`), the record names are exactly the
        scaffold names, in order — for scaffold names without LF and input records without `>` / LF among their residues. -/
theorem cli_fasta_records_are_scaffolds {bs w : Int} (hbs : 1 ≤ bs) (hw : 1 ≤ w)
    (R : FastaRun file idx resOf input ptx prefix_ joinGap err outs stats root version suffix named) :
    cliWrittenFiles file idx bs w outs root version suffix =
      .ok ((namedDict named).flatMap (specFilesOf w resOf suffix)) ∧
    ∀ n ∈ namedDict named,
      fastaOf w resOf n.scaffolds =
        (n.scaffolds.map (fun sc => [62] ++ strToBytes sc.name ++ [10] ++
          ((linesOf w.toNat (rowsBody resOf sc.rows)).map (· ++ [10])).flatten)).flatten ∧
      ((∀ sc ∈ n.scaffolds, '\n' ∉ sc.name) → (∀ F ∈ C01.inputFrags input, CleanBytes (resOf F.name)) →
        fastaRecordNames (fastaOf w resOf n.scaffolds) = n.scaffolds.map (fun sc => strToBytes sc.name)) := by
  refine ⟨(cli_written_files hbs hw R).1, fun n hn => ⟨?_, ?_⟩⟩
  · unfold fastaOf
    congr 1
    apply List.map_congr_left
    intro sc _
    have hwn : w = ((w.toNat : Nat) : Int) := by omega
    rw [recordBytes_eq]
    conv => lhs; rw [hwn, wrapBody_eq_lines w.toNat (by omega)]
  · intro hnl hclean
    have hwn : w = ((w.toNat : Nat) : Int) := by omega
    rw [hwn]
    apply fastaRecordNames_fastaOf w.toNat (by omega) resOf n.scaffolds hnl
    intro sc hsc
    apply cleanBytes_rowsBody
    intro f hf
    obtain ⟨a, ha, hsa⟩ := named_scaffold_origin outs root version named R.renamed n (namedDict_mem named n hn) sc hsc
    obtain ⟨F, hF, hFn⟩ := remap_frag_origin input ptx prefix_ joinGap err outs stats R.wf R.remapped a ha sc hsa f hf
    rw [← hFn]; exact hclean F hF

/-! ## F2  record names are unique within a file -/

/-- the extra hypothesis for the merged `all_haplotigs` assembly of the `Primary` branch: the curated assemblies other
    than `Primary` — which `merge_assemblies` concatenates — have no scaffold name in common -/
def MergeDisjoint (outs : List OutAsm) : Prop :=
  (outs.filter (fun a => a.key ≠ some sPrimary ∧ a.curated)).Pairwise
    (fun a b => ∀ s ∈ a.scaffolds, ∀ t ∈ b.scaffolds, s.name ≠ t.name)

instance (outs : List OutAsm) : Decidable (MergeDisjoint outs) := by unfold MergeDisjoint; infer_instance

/-- nothing to check when at most one assembly is merged (the documented use: ONE other haplotype) -/
theorem mergeDisjoint_of_le_one (outs : List OutAsm)
    (h : (outs.filter (fun a => a.key ≠ some sPrimary ∧ a.curated)).length ≤ 1) : MergeDisjoint outs := by
  unfold MergeDisjoint
  generalize outs.filter (fun a => a.key ≠ some sPrimary ∧ a.curated) = l at h
  match l, h with
  | [], _ => exact List.Pairwise.nil
  | [a], _ => exact List.pairwise_singleton _ _
  | _ :: _ :: _, h => simp at h

/-- scaffold names are unique in every NAMED assembly when they are in every output assembly of `remap` -/
theorem named_names_unique (outs : List OutAsm) (root version : Str) (named : List NamedAsm)
    (hn : nameAssemblies outs root version = .ok named)
    (hu : ∀ a ∈ outs, (a.scaffolds.map (·.name)).Nodup) (hm : HasKey outs (some sPrimary) → MergeDisjoint outs) :
    ∀ n ∈ named, (n.scaffolds.map (·.name)).Nodup := by
  intro n hnm
  have ho := C09.name_assemblies_curated_origin outs root version named hn n hnm
  cases hc : n.curated with
  | false =>
    obtain ⟨a, ha, _, _, e⟩ := ho.1 hc
    rw [e]; exact hu a ha
  | true =>
    rcases ho.2 hc with ⟨a, ha, _, e⟩ | ⟨hp, _, e⟩ | ⟨_, _, _, a, ha, _, e⟩
    · rw [e]; exact hu a ha
    · rw [e]
      exact nodup_flatMap_names _ (fun a ha => hu a (List.mem_filter.mp ha).1) (hm hp)
    · rw [e]; exact hu a ha

/-- **F2.**  Under the hypotheses of `C10.remap_names_unique` (`NamesOutsideGenerated`, `TaggedOneHaplotype`) and, in the
    `Primary` branch, `MergeDisjoint`: in every written FASTA file the scaffold names — which by F1 are the record
    names, in order — are pairwise different; so are the record names read back from the file. -/
theorem cli_fasta_record_names_unique {w : Int} (hw : 1 ≤ w)
    (R : FastaRun file idx resOf input ptx prefix_ joinGap err outs stats root version suffix named)
    (H : C10.NamesOutsideGenerated input ptx prefix_) (HT : C10.TaggedOneHaplotype input ptx)
    (hm : HasKey outs (some sPrimary) → MergeDisjoint outs) :
    ∀ n ∈ namedDict named,
      (n.scaffolds.map (·.name)).Nodup ∧
      ((∀ sc ∈ n.scaffolds, '\n' ∉ sc.name) → (∀ F ∈ C01.inputFrags input, CleanBytes (resOf F.name)) →
        (fastaRecordNames (fastaOf w resOf n.scaffolds)).Nodup) := by
  intro n hn
  have hu := C10.remap_names_unique input ptx prefix_ joinGap err outs stats R.remapped H HT
  have hnd := named_names_unique outs root version named R.renamed hu hm n (namedDict_mem named n hn)
  refine ⟨hnd, fun hnl hclean => ?_⟩
  have := ((cli_fasta_records_are_scaffolds (bs := 1) (Int.le_refl 1) hw R).2 n hn).2 hnl hclean
  rw [this]
  have e : n.scaffolds.map (fun sc => strToBytes sc.name) = (n.scaffolds.map (·.name)).map strToBytes := by
    rw [List.map_map]; rfl
  rw [e]; exact nodup_map_strToBytes _ hnd

/-- the same with the other two forms of clause 7 of C10: haplotypes allowed on Contaminant / FalseDuplicate scaffolds
    when the name determines them -/
theorem cli_fasta_record_names_unique_named
    (R : FastaRun file idx resOf input ptx prefix_ joinGap err outs stats root version suffix named)
    (H : C10.NamesOutsideGenerated input ptx prefix_) (HN : C10.TaggedNamesGiveHaplotype input ptx)
    (hm : HasKey outs (some sPrimary) → MergeDisjoint outs) :
    ∀ n ∈ namedDict named, (n.scaffolds.map (·.name)).Nodup := fun n hn =>
  named_names_unique outs root version named R.renamed
    (C10.remap_names_unique_named input ptx prefix_ joinGap err outs stats R.remapped H HN) hm n
    (namedDict_mem named n hn)

/-! ## F3  the AGP beside the FASTA -/

/-- **F3.**  For every named assembly `n`: `format_agp` of the assembly object succeeds; the text written to
    `{name}{.curated}.agp` (`agpLinesOf n`, by F0) has no header line and is `AgpOf resOf n.scaffolds`: for the SAME scaffold list
    that was streamed to the `.fa`, in the same order, one line per row with the columns `agpCols` computes (object =
    scaffold name, component name / start / end / strand or gap length / type), tiling the object from 1 with parts
    1, 2, …, no empty span — and the LAST END of the object is the number of residues of the record written for that
    scaffold (`rowsBody resOf rows`).  So each AGP object length equals the record length. -/
theorem cli_agp_beside_fasta_same_rows
    (R : FastaRun file idx resOf input ptx prefix_ joinGap err outs stats root version suffix named) :
    ∀ n ∈ namedDict named,
      formatAgp { name := n.name, header := [], scaffolds := n.scaffolds, curated := n.curated } = .ok (agpLinesOf n) ∧
      AgpOf resOf n.scaffolds (agpLinesOf n) ∧
      ∀ sc ∈ n.scaffolds, ((rowsBody resOf sc.rows).length : Int) = sc.length := by
  intro n hn
  have h := agpLinesOf_spec file idx resOf n (fun sc hsc => (R.dictRows n hn sc hsc).1)
    (fun sc hsc => (R.dictRows n hn sc hsc).2)
  refine ⟨h.1, h.2, fun sc hsc => ?_⟩
  exact record_length_eq_agp_length file idx resOf sc.rows (R.dictRows n hn sc hsc).1
    (fun g hg => by have := ((R.dictRows n hn sc hsc).2 _ hg).2; simp only [C06.RowStrict] at this; omega)

/-- what `AgpOf` says, unfolded -/
theorem agpOf_iff (scs : List Scaffold) (txt : List Str) :
    AgpOf resOf scs txt ↔
      ∃ bodies : List (List (List Str)),
        txt = (bodies.map (List.map C06.lineOfCols)).flatten ∧
        Forall2 (fun (s : Scaffold) colss => C06.agpCols s.name 0 0 s.rows = .ok colss ∧ colss.length = s.rows.length ∧
                    C06.ValidAgpLines true s.name 0 0 colss ((rowsBody resOf s.rows).length : Int)) scs bodies := Iff.rfl

/-- … and the text parses back (`parse_agp`) to the same scaffolds — names, rows, coordinates, strands, tags, gap lengths
    and types (`canonAssembly`: everything but Python object identity) — whenever the assembly is `WFAgp` (no tab in a
    name / tag / gap type, names non-empty and not starting with `#`, consecutive scaffolds differently named — which F2
    gives —, no scaffold without rows): `C05.agp_roundtrip` for the written file. -/
theorem cli_agp_parses_back
    (R : FastaRun file idx resOf input ptx prefix_ joinGap err outs stats root version suffix named)
    (n : NamedAsm) (hn : n ∈ namedDict named) (hwfa : WFAgp (asmOfNamed n)) :
    parseAgp (agpLinesOf n) = .ok (canonAssembly (asmOfNamed n)) := by
  obtain ⟨lines, h1, h2⟩ := C05.agp_roundtrip (asmOfNamed n) hwfa
  have := (cli_agp_beside_fasta_same_rows R n hn).1
  change formatAgp (asmOfNamed n) = _ at this
  rw [this] at h1
  cases h1
  exact h2

/-! ## F4  every base of every input record, across all files -/

/-- the `(contig name, start, end)` triples of the fragment rows behind all records of all FASTA files -/
def writtenTriples (l : List NamedAsm) : List Key :=
  (l.flatMap (·.scaffolds)).flatMap (fun s => C01.keysOf s.rows)

/-- **F4.**  When no assembly is lost in the `name_assemblies` dict (no output key is literally `additional_haplotigs` /
    `all_haplotigs`: otherwise an assembly is replaced — finding recorded in `Properties/C16Plan.lean`):
    the dict holds every named assembly, and over ALL FASTA files written the fragment rows behind the records contain
    base `x` of contig `n` exactly as often as the input's contig fragments do: once for every base of every input
    fragment, never otherwise. -/
theorem cli_every_base_of_every_record
    (R : FastaRun file idx resOf input ptx prefix_ joinGap err outs stats root version suffix named)
    (hadd : ¬ HasKey outs (some "additional_haplotigs".toList)) (hall : ¬ HasKey outs (some "all_haplotigs".toList)) :
    namedDict named = named ∧
    (∀ n x, (writtenTriples (namedDict named)).countP (C01.coversK n x) =
        ((C01.inputFrags input).map Fragment.keyTuple).countP (C01.coversK n x)) ∧
    (∀ F ∈ C01.inputFrags input, ∀ x, F.start ≤ x → x ≤ F.stop →
        (writtenTriples (namedDict named)).countP (C01.coversK F.name x) = 1) ∧
    (∀ n x, (∀ F ∈ C01.inputFrags input, ¬ (F.name = n ∧ F.start ≤ x ∧ x ≤ F.stop)) →
        (writtenTriples (namedDict named)).countP (C01.coversK n x) = 0) := by
  obtain ⟨_, _, hkeys, _⟩ := C09.remap_routes_store input ptx prefix_ joinGap err outs stats R.remapped
  have hd : namedDict named = named :=
    namedDict_of_nodup named (C09.name_assemblies_keys_distinct outs root version named R.renamed hkeys hadd hall)
  have hperm : (writtenTriples named).Perm (C01.outputTriples outs) :=
    List.Perm.flatMap_right _ (C09.name_assemblies_conserves outs root version named R.renamed).1
  have hcount : ∀ n x, (writtenTriples named).countP (C01.coversK n x) =
      ((C01.inputFrags input).map Fragment.keyTuple).countP (C01.coversK n x) := by
    intro n x
    rw [hperm.countP_eq]
    exact (C01.remap_partitions input ptx prefix_ joinGap err outs stats R.wf R.remapped).1 n x
  rw [hd]
  refine ⟨rfl, hcount, ?_, ?_⟩
  · intro F hF x h1 h2
    rw [hperm.countP_eq]
    exact C01.remap_exactly_once input ptx prefix_ joinGap err outs stats R.wf R.remapped F hF x h1 h2
  · intro n x hno
    rw [hcount, List.countP_eq_zero]
    intro k hk
    obtain ⟨F, hF, rfl⟩ := List.mem_map.mp hk
    intro hc
    simp only [C01.coversK, decide_eq_true_eq] at hc
    exact hno F hF hc

/-- **F4, byte level.**  Take any record of any written FASTA: scaffold `sc` of the named assembly `n`, rows
    `pre ++ [f] ++ post` with `f` a fragment row.  Base `x` of `f` (`f.start ≤ x ≤ f.stop`, 1-based position in the input
    record called `f.name`) is the byte at offset `|body of pre| + offsetInRow f x` of the record's sequence — as itself when
    `f` is a forward row, as its IUPAC complement when `f` is a minus row.  (`offsetInRow f x` = `x - f.start`, resp.
    `f.stop - x`.)  Together with `cli_every_base_of_every_record`: every residue of every input record appears in
    exactly one record. -/
theorem cli_record_holds_residue
    (R : FastaRun file idx resOf input ptx prefix_ joinGap err outs stats root version suffix named)
    (n : NamedAsm) (hn : n ∈ namedDict named) (sc : Scaffold) (hsc : sc ∈ n.scaffolds)
    (pre post : List Row) (f : Fragment) (hrows : sc.rows = pre ++ Row.frag f :: post)
    (x : Int) (h1 : f.start ≤ x) (h2 : x ≤ f.stop) :
    (∃ F ∈ C01.inputFrags input, F.name = f.name ∧ F.start ≤ f.start ∧ f.stop ≤ F.stop) ∧
    1 ≤ x ∧ x ≤ (resOf f.name).length ∧
    (rowsBody resOf sc.rows)[(rowsBody resOf pre).length + offsetInRow f x]? =
      if f.strand = -1 then ((resOf f.name)[(x - 1).toNat]?).map comp else (resOf f.name)[(x - 1).toNat]? := by
  have hmem : Row.frag f ∈ sc.rows := by rw [hrows]; simp
  obtain ⟨info, _, _, a0, _, a3⟩ := (R.dictRows n hn sc hsc).1 _ hmem
  obtain ⟨a, ha, hsa⟩ := named_scaffold_origin outs root version named R.renamed n (namedDict_mem named n hn) sc hsc
  have hp := (C01.remap_partitions input ptx prefix_ joinGap err outs stats R.wf R.remapped).2
  have hm : f.keyTuple ∈ C01.outputTriples outs := by
    unfold C01.outputTriples
    refine List.mem_flatMap.mpr ⟨sc, List.mem_flatMap.mpr ⟨a, ha, hsa⟩, ?_⟩
    exact List.mem_map.mpr ⟨f, C01.mem_fragmentsOf.mpr hmem, rfl⟩
  obtain ⟨_, F, hF, hFn, b1, b2⟩ := hp _ hm
  refine ⟨⟨F, hF, hFn, b1, b2⟩, by omega, by omega, ?_⟩
  rw [hrows]
  exact rowsBody_residue resOf pre post f x a0 h1 h2 a3

end

end AgpTpf.C03
