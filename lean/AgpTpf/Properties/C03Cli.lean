/-
  C03, last two sentences, END TO END for `pretext-to-asm --output x.fa`:
    "The record set and order equal the scaffold set and order, record names are unique within a file, and the AGP
     written beside the FASTA lists the same rows with the same lengths, so that each AGP object length equals the
     record length."

  Model (Proofs/C03CliFiles.lean): `writeAssemblyFasta` = the FASTA branch of `write_assembly` (open
  `{asm.name}{.curated}{suffix}`, `FastaStream.write_assembly`, `with_suffix(".agp")`, `format_agp` of the SAME assembly
  object), `writtenFiles` = the loop of `write_assemblies` over the dict values, `cliWrittenFiles` = `name_assemblies` (as a
  dict: `namedDict`) + `writtenFiles`.  A written file is a pair (file NAME, `FileContent`): `.bytes` for the binary
  `.fa`, `.text lines` for the `.agp`.  The assembly objects the CLI writes carry NO header lines (`cliHeader = []`:
  `Assembly(self.name, curated=…)` in `assemblies_with_scaffolds_fused`, `Assembly("merge")` in `merge_assemblies`), so the
  `.agp` beside the `.fa` starts directly with the first object line.
  Restrictions of the model: names are written with `Char.toNat` per character (`str.encode()` is UTF-8: the same for
  ASCII names); file NAMES only (the directory is passed through); which files exist when an error is raised is not
  modelled (F0 shows there is none).

  Hypotheses, bundled in `FastaRun` (each field is a hypothesis of the theorems below):
    remapped   `remap input ptx prefix joinGap err = .ok (outs, stats)`     (any Pretext assembly, prefix, texel size)
    renamed    `nameAssemblies outs root version = .ok named`
    wf         `C01.WFInput input`                                           (C01's decidable well-formedness of the input)
    within     `InputWithin file idx resOf input`: every contig fragment of the input names an indexed record of the
               FASTA `file` (index `idx`, residues `resOf name`) and lies within it  ("any input whose rows lie within the records")
    strict     input rows are `StrandOk ∧ RowStrict` (as in `C06.written_agp_valid`), `gapStrict` the same for the join gap
    suffixOk   `SuffixOk .FASTA suffix` — what `parse_output_file` returns (`CliPlan.parseOutputFile_suffix`)
  ALL of `wf`, `within`, `strict`, `gapStrict` are DISCHARGED for the only input the FASTA branch can have — the assembly
  `index_fasta_file` derives from a well-formed FASTA (records with distinct names, uniform line width; LF / CRLF; any
  buffer size) and the CLI's join gap: `fasta_input_run`, `fasta_cli_end_to_end` (helper Proofs/C03CliFasta.lean).

  PROVED (all at full strength, no `_partial`):
    F0  `cli_written_files`                  the run writes exactly `(namedDict named).flatMap specFilesOf`: per named assembly,
                                             in dict order, `{name}{.curated}{suffix}` holding `fastaOf` (one `recordBytes`
                                             per scaffold) and right after it `{name}{.curated}.agp` holding `format_agp` of the
                                             same scaffolds; never fails; the file names are `CliPlan.assemblyFiles` (C16).
    F1  `cli_fasta_records_are_scaffolds`    every written FASTA = per scaffold, in scaffold order, `>name LF` + the body
                                             (the AGP rows applied to the input FASTA) in lines of `w`; read back with a
                                             line reader (`fastaRecordNames`) the record names ARE the scaffold names in order.
    F2  `cli_fasta_record_names_unique`      … and pairwise different, under the hypotheses of `C10.remap_names_unique`
        `…_named`                            + for the merged `all_haplotigs` file of the `Primary` branch: names do not
                                             repeat ACROSS the merged assemblies (`MergeDisjoint`; automatic when at most
                                             one assembly is merged: `mergeDisjoint_of_le_one`).
        FINDING `merged_all_haplotigs_duplicate_names`: without `MergeDisjoint` the statement is FALSE, of the model and of
                                             the real CLI (two `>SUPER_1` records in `x.1.all_haplotigs.curated.fa`, object
                                             `SUPER_1` twice in the `.agp`, the tool's own `FastaIndex` rejects the file).
    F3  `cli_agp_beside_fasta_same_rows`     the `.agp` beside each `.fa`: `format_agp` succeeds, no header line, the text is
                                             per scaffold of the SAME list the lines of `agpCols scaffold.rows` (one line per
                                             row: same names / coordinates / strands / gap lengths), tiling the object from 1,
                                             the LAST END of each object = the residue count of the record in the `.fa`
                                             = `Scaffold.length` ≥ 1; no scaffold without rows.
        `cli_agp_parses_back`                under `C05.WFAgp` (no tabs etc.) `parse_agp` of that text gives back the scaffolds.
    F4  `cli_every_base_of_every_record`     across ALL FASTA files written: the fragment rows behind the records cover every
                                             base of every input contig fragment exactly once and nothing else
        `cli_record_holds_residue`           and base `x` of such a row IS byte `offset` of the record body: itself for a
                                             forward row, its IUPAC complement for a minus row.
    F5  `cli_fasta_reindexes`                the tool's own indexer on a written FASTA (plain names): with pairwise different
                                             names it succeeds and lists the scaffold names in order with the AGP object
                                             lengths; with a repeated name it raises `ValueError`.
    non-vacuity: `exRecs` (2 records, LF + CRLF), `exMap` (one cut, one minus piece, one haplotig): `ex_run` (a `FastaRun`
    exists), `ex_written_files` (the four files, by `decide +kernel`; same records / rows / lengths as the real CLI wrote).
-/
import AgpTpf.Proofs.C03CliRecords
import AgpTpf.Proofs.C03CliFasta
import AgpTpf.Proofs.C03CliReindex
import AgpTpf.Properties.C10Unique
import AgpTpf.Properties.C09Route
import AgpTpf.Properties.C05
namespace AgpTpf.C03
open AgpTpf AgpTpf.StreamProofs AgpTpf.WrapProofs AgpTpf.CliNames AgpTpf.CliPlan AgpTpf.C05 AgpTpf.C04

/-- one `pretext-to-asm -a in.fa -p map.agp -o out.fa` run up to `write_assemblies` (see the file comment) -/
structure FastaRun (file : Bytes) (idx : List (Str × FastaInfo)) (resOf : Str → Bytes)
    (input ptx : List Scaffold) (prefix_ : Str) (joinGap : Option Gap) (err : Int)
    (outs : List OutAsm) (stats : Stats) (root version suffix : Str) (named : List NamedAsm) : Prop where
  remapped : remap input ptx prefix_ joinGap err = .ok (outs, stats)
  renamed : nameAssemblies outs root version = .ok named
  wf : C01.WFInput input
  within : InputWithin file idx resOf input
  strict : ∀ sc ∈ input, ∀ r ∈ sc.rows, C06.StrandOk r ∧ C06.RowStrict r
  gapStrict : ∀ g, joinGap = some g → C06.RowStrict (.gap g)
  suffixOk : SuffixOk .FASTA suffix

section
variable {file : Bytes} {idx : List (Str × FastaInfo)} {resOf : Str → Bytes}
  {input ptx : List Scaffold} {prefix_ : Str} {joinGap : Option Gap} {err : Int}
  {outs : List OutAsm} {stats : Stats} {root version suffix : Str} {named : List NamedAsm}

/-- every row of every scaffold of every named assembly lies within the input records and is strict -/
theorem FastaRun.rows (R : FastaRun file idx resOf input ptx prefix_ joinGap err outs stats root version suffix named) :
    ∀ n ∈ named, ∀ sc ∈ n.scaffolds, (∀ r ∈ sc.rows, RowOK file idx resOf r) ∧ C06.RowsGood sc.rows := by
  intro n hn sc hsc
  obtain ⟨a, ha, hsa⟩ := named_scaffold_origin outs root version named R.renamed n hn sc hsc
  exact ⟨remap_rows_ok file idx resOf input ptx prefix_ joinGap err outs stats R.wf R.remapped R.within a ha sc hsa,
    C06.remap_rows_strict input ptx prefix_ joinGap err outs stats R.strict R.gapStrict R.remapped a ha sc hsa⟩

theorem FastaRun.dictRows (R : FastaRun file idx resOf input ptx prefix_ joinGap err outs stats root version suffix named) :
    ∀ n ∈ namedDict named, ∀ sc ∈ n.scaffolds, (∀ r ∈ sc.rows, RowOK file idx resOf r) ∧ C06.RowsGood sc.rows :=
  fun n hn => R.rows n (namedDict_mem named n hn)

/-- the bodies of all records contain neither `>` nor LF when the input fragments address no such byte -/
theorem FastaRun.cleanBodies (R : FastaRun file idx resOf input ptx prefix_ joinGap err outs stats root version suffix named)
    (hclean : ∀ F ∈ C01.inputFrags input, CleanBytes (slice (resOf F.name) F.start F.stop)) :
    ∀ n ∈ namedDict named, ∀ sc ∈ n.scaffolds, CleanBytes (rowsBody resOf sc.rows) := by
  intro n hn sc hsc
  apply cleanBytes_rowsBody
  intro f hf
  obtain ⟨a, ha, hsa⟩ := named_scaffold_origin outs root version named R.renamed n (namedDict_mem named n hn) sc hsc
  obtain ⟨F, hF, hFn, b1, _, b3⟩ :=
    remap_frag_origin input ptx prefix_ joinGap err outs stats R.wf R.remapped a ha sc hsa f hf
  rw [← hFn]
  exact fun x hx => hclean F hF x (slice_subset _ _ _ _ _ b1 b3 x hx)

/-! ## F0  the files written -/

/-- **F0.**  The FASTA branch of `write_assemblies` never fails and writes, for every named assembly in dict order, the
    `.fa` file holding one record per scaffold and right after it the `.agp` file holding `format_agp` of the same
    scaffolds — nothing else; the file names are those of the output plan (`CliPlan.assemblyFiles`, C16). -/
theorem cli_written_files {bs w : Int} (hbs : 1 ≤ bs) (hw : 1 ≤ w)
    (R : FastaRun file idx resOf input ptx prefix_ joinGap err outs stats root version suffix named) :
    cliWrittenFiles file idx bs w outs root version suffix =
      .ok ((namedDict named).flatMap (specFilesOf w resOf suffix)) ∧
    assemblyFiles .FASTA suffix (namedDict named) =
      .ok (((namedDict named).flatMap (specFilesOf w resOf suffix)).map (·.1)) := by
  obtain ⟨c, x, e, hd, _⟩ := R.suffixOk
  subst e
  have hends : ∀ n ∈ namedDict named, EndsSY n.name :=
    fun n hn => named_ends outs root version named R.renamed n (namedDict_mem named n hn)
  constructor
  · unfold cliWrittenFiles
    rw [R.renamed]
    exact writtenFiles_spec hbs hw file idx resOf (c :: x) (by simp) hd (namedDict named)
      (fun n hn sc hsc => (R.dictRows n hn sc hsc).1) (fun n hn sc hsc => (R.dictRows n hn sc hsc).2) hends
  · rw [specFiles_names, assemblyFiles_ok .FASTA (c :: x) (by simp) hd (namedDict named) hends]

/-- the content of the two files of one assembly, spelled out -/
theorem spec_files_of (w : Int) (n : NamedAsm) :
    specFilesOf w resOf suffix n =
      [(n.name ++ (if n.curated then ".curated".toList else []) ++ suffix,
          .bytes ((n.scaffolds.map (fun sc => recordBytes w sc.name (rowsBody resOf sc.rows))).flatten)),
       (n.name ++ (if n.curated then ".curated".toList else []) ++ ".agp".toList, .text (agpLinesOf n))] := rfl

/-! ## F1  records = scaffolds, in order -/

/-- **F1.**  For every named assembly `n` (its FASTA file is `outputFileName n suffix`, content `fastaOf w resOf n.scaffolds`
    by F0):
    (a) the file is, scaffold by scaffold IN SCAFFOLD ORDER, the header line `>` + scaffold name + LF followed by the
        body `rowsBody resOf rows` — the scaffold's rows applied to the input FASTA — cut into lines of `w` bytes
        (last one 1..w), each ended by LF; one record per scaffold, nothing else;
    (b) read back line by line (`fastaRecordNames`: the lines that start with `>`), the record names are exactly the
        scaffold names, in order — for scaffold names without LF and input contig fragments that address no `>` / LF byte
        of their record (`CleanBytes (slice …)`; automatic for a FASTA-derived input, whose fragments are `ACGTacgt` runs:
        `fasta_input_run`). -/
theorem cli_fasta_records_are_scaffolds {bs w : Int} (hbs : 1 ≤ bs) (hw : 1 ≤ w)
    (R : FastaRun file idx resOf input ptx prefix_ joinGap err outs stats root version suffix named) :
    cliWrittenFiles file idx bs w outs root version suffix =
      .ok ((namedDict named).flatMap (specFilesOf w resOf suffix)) ∧
    ∀ n ∈ namedDict named,
      fastaOf w resOf n.scaffolds =
        (n.scaffolds.map (fun sc => [62] ++ strToBytes sc.name ++ [10] ++
          ((linesOf w.toNat (rowsBody resOf sc.rows)).map (· ++ [10])).flatten)).flatten ∧
      ((∀ sc ∈ n.scaffolds, '\n' ∉ sc.name) →
        (∀ F ∈ C01.inputFrags input, CleanBytes (slice (resOf F.name) F.start F.stop)) →
        fastaRecordNames (fastaOf w resOf n.scaffolds) = n.scaffolds.map (fun sc => strToBytes sc.name)) := by
  refine ⟨(cli_written_files hbs hw R).1, fun n hn => ⟨?_, ?_⟩⟩
  · unfold fastaOf
    congr 1
    apply List.map_congr_left
    intro sc _
    have hwn : w = ((w.toNat : Nat) : Int) := by omega
    rw [recordBytes_eq]
    conv => lhs; rw [hwn, wrapBody_eq_lines w.toNat (by omega)]
  · intro hnl hclean
    have hwn : w = ((w.toNat : Nat) : Int) := by omega
    rw [hwn]
    exact fastaRecordNames_fastaOf w.toNat (by omega) resOf n.scaffolds hnl (R.cleanBodies hclean n hn)

/-! ## F2  record names are unique within a file -/

/-- the extra hypothesis for the merged `all_haplotigs` assembly of the `Primary` branch: the curated assemblies other
    than `Primary` — which `merge_assemblies` concatenates — have no scaffold name in common -/
def MergeDisjoint (outs : List OutAsm) : Prop :=
  (outs.filter (fun a => a.key ≠ some sPrimary ∧ a.curated)).Pairwise
    (fun a b => ∀ s ∈ a.scaffolds, ∀ t ∈ b.scaffolds, s.name ≠ t.name)

instance (outs : List OutAsm) : Decidable (MergeDisjoint outs) := by unfold MergeDisjoint; infer_instance

/-- nothing to check when at most one assembly is merged (the documented use: ONE other haplotype) -/
theorem mergeDisjoint_of_le_one (outs : List OutAsm)
    (h : (outs.filter (fun a => a.key ≠ some sPrimary ∧ a.curated)).length ≤ 1) : MergeDisjoint outs := by
  unfold MergeDisjoint
  generalize outs.filter (fun a => a.key ≠ some sPrimary ∧ a.curated) = l at h
  match l, h with
  | [], _ => exact List.Pairwise.nil
  | [a], _ => exact List.pairwise_singleton _ _
  | _ :: _ :: _, h => simp at h

/-- scaffold names are unique in every NAMED assembly when they are in every output assembly of `remap` -/
theorem named_names_unique (outs : List OutAsm) (root version : Str) (named : List NamedAsm)
    (hn : nameAssemblies outs root version = .ok named)
    (hu : ∀ a ∈ outs, (a.scaffolds.map (·.name)).Nodup) (hm : HasKey outs (some sPrimary) → MergeDisjoint outs) :
    ∀ n ∈ named, (n.scaffolds.map (·.name)).Nodup := by
  intro n hnm
  have ho := C09.name_assemblies_curated_origin outs root version named hn n hnm
  cases hc : n.curated with
  | false =>
    obtain ⟨a, ha, _, _, e⟩ := ho.1 hc
    rw [e]; exact hu a ha
  | true =>
    rcases ho.2 hc with ⟨a, ha, _, e⟩ | ⟨hp, _, e⟩ | ⟨_, _, _, a, ha, _, e⟩
    · rw [e]; exact hu a ha
    · rw [e]
      exact nodup_flatMap_names _ (fun a ha => hu a (List.mem_filter.mp ha).1) (hm hp)
    · rw [e]; exact hu a ha

/-- **F2.**  Under the hypotheses of `C10.remap_names_unique` (`NamesOutsideGenerated`, `TaggedOneHaplotype`) and, in the
    `Primary` branch, `MergeDisjoint`: in every written FASTA file the scaffold names — which by F1 are the record
    names, in order — are pairwise different; so are the record names read back from the file. -/
theorem cli_fasta_record_names_unique {w : Int} (hw : 1 ≤ w)
    (R : FastaRun file idx resOf input ptx prefix_ joinGap err outs stats root version suffix named)
    (H : C10.NamesOutsideGenerated input ptx prefix_) (HT : C10.TaggedOneHaplotype input ptx)
    (hm : HasKey outs (some sPrimary) → MergeDisjoint outs) :
    ∀ n ∈ namedDict named,
      (n.scaffolds.map (·.name)).Nodup ∧
      ((∀ sc ∈ n.scaffolds, '\n' ∉ sc.name) →
        (∀ F ∈ C01.inputFrags input, CleanBytes (slice (resOf F.name) F.start F.stop)) →
        (fastaRecordNames (fastaOf w resOf n.scaffolds)).Nodup) := by
  intro n hn
  have hu := C10.remap_names_unique input ptx prefix_ joinGap err outs stats R.remapped H HT
  have hnd := named_names_unique outs root version named R.renamed hu hm n (namedDict_mem named n hn)
  refine ⟨hnd, fun hnl hclean => ?_⟩
  have := ((cli_fasta_records_are_scaffolds (bs := 1) (Int.le_refl 1) hw R).2 n hn).2 hnl hclean
  rw [this]
  have e : n.scaffolds.map (fun sc => strToBytes sc.name) = (n.scaffolds.map (·.name)).map strToBytes := by
    rw [List.map_map]; rfl
  rw [e]; exact nodup_map_strToBytes _ hnd

/-- the same with the other two forms of clause 7 of C10: haplotypes allowed on Contaminant / FalseDuplicate scaffolds
    when the name determines them -/
theorem cli_fasta_record_names_unique_named
    (R : FastaRun file idx resOf input ptx prefix_ joinGap err outs stats root version suffix named)
    (H : C10.NamesOutsideGenerated input ptx prefix_) (HN : C10.TaggedNamesGiveHaplotype input ptx)
    (hm : HasKey outs (some sPrimary) → MergeDisjoint outs) :
    ∀ n ∈ namedDict named, (n.scaffolds.map (·.name)).Nodup := fun n hn =>
  named_names_unique outs root version named R.renamed
    (C10.remap_names_unique_named input ptx prefix_ joinGap err outs stats R.remapped H HN) hm n
    (namedDict_mem named n hn)

/-! ## F3  the AGP beside the FASTA -/

/-- **F3.**  For every named assembly `n`: `format_agp` of the assembly object succeeds; the text written to
    `{name}{.curated}.agp` (`agpLinesOf n`, by F0) has no header line and is `AgpOf resOf n.scaffolds`: for the SAME scaffold list
    that was streamed to the `.fa`, in the same order, one line per row with the columns `agpCols` computes (object =
    scaffold name, component name / start / end / strand or gap length / type), tiling the object from 1 with parts
    1, 2, …, no empty span — and the LAST END of the object is the number of residues of the record written for that
    scaffold (`rowsBody resOf rows`).  So each AGP object length equals the record length; no scaffold is without rows,
    so every record has its AGP object (at least one line) and at least one residue. -/
theorem cli_agp_beside_fasta_same_rows
    (R : FastaRun file idx resOf input ptx prefix_ joinGap err outs stats root version suffix named) :
    ∀ n ∈ namedDict named,
      formatAgp { name := n.name, header := [], scaffolds := n.scaffolds, curated := n.curated } = .ok (agpLinesOf n) ∧
      AgpOf resOf n.scaffolds (agpLinesOf n) ∧
      ∀ sc ∈ n.scaffolds,
        ((rowsBody resOf sc.rows).length : Int) = sc.length ∧ sc.rows ≠ [] ∧ 1 ≤ sc.length := by
  intro n hn
  have h := agpLinesOf_spec file idx resOf n (fun sc hsc => (R.dictRows n hn sc hsc).1)
    (fun sc hsc => (R.dictRows n hn sc hsc).2)
  refine ⟨h.1, h.2, fun sc hsc => ?_⟩
  obtain ⟨a, ha, hsa⟩ := named_scaffold_origin outs root version named R.renamed n (namedDict_mem named n hn) sc hsc
  have hne := remap_rows_nonempty input ptx prefix_ joinGap err outs stats R.remapped a ha sc hsa
  refine ⟨?_, hne, rowsLength_pos sc.rows (fun r hr => ((R.dictRows n hn sc hsc).2 r hr).2) hne⟩
  exact record_length_eq_agp_length file idx resOf sc.rows (R.dictRows n hn sc hsc).1
    (fun g hg => by have := ((R.dictRows n hn sc hsc).2 _ hg).2; simp only [C06.RowStrict] at this; omega)

/-- what `AgpOf` says, unfolded -/
theorem agpOf_iff (scs : List Scaffold) (txt : List Str) :
    AgpOf resOf scs txt ↔
      ∃ bodies : List (List (List Str)),
        txt = (bodies.map (List.map C06.lineOfCols)).flatten ∧
        Forall2 (fun (s : Scaffold) colss => C06.agpCols s.name 0 0 s.rows = .ok colss ∧ colss.length = s.rows.length ∧
                    C06.ValidAgpLines true s.name 0 0 colss ((rowsBody resOf s.rows).length : Int)) scs bodies := Iff.rfl

/-- … and the text parses back (`parse_agp`) to the same scaffolds — names, rows, coordinates, strands, tags, gap lengths
    and types (`canonAssembly`: everything but Python object identity) — whenever the assembly is `WFAgp` (no tab in a
    name / tag / gap type, names non-empty and not starting with `#`, consecutive scaffolds differently named — which F2
    gives —, no scaffold without rows): `C05.agp_roundtrip` for the written file. -/
theorem cli_agp_parses_back
    (R : FastaRun file idx resOf input ptx prefix_ joinGap err outs stats root version suffix named)
    (n : NamedAsm) (hn : n ∈ namedDict named) (hwfa : WFAgp (asmOfNamed n)) :
    parseAgp (agpLinesOf n) = .ok (canonAssembly (asmOfNamed n)) := by
  obtain ⟨lines, h1, h2⟩ := C05.agp_roundtrip (asmOfNamed n) hwfa
  have := (cli_agp_beside_fasta_same_rows R n hn).1
  change formatAgp (asmOfNamed n) = _ at this
  rw [this] at h1
  cases h1
  exact h2

/-! ## F5  the written FASTA read back by the tool's own indexer -/

/-- **F5.**  `FastaIndex` (the model's `indexFasta`, any buffer size `bs'`) run on a written FASTA file whose scaffold
    names are plain (`PlainName`: non-empty, ASCII, no whitespace — what a header line carries unchanged):
    * if the names are pairwise different (F2) and there is at least one scaffold, indexing SUCCEEDS and the index lists,
      in order, exactly the scaffold names, each with the scaffold length the AGP beside the file ends the object at
      (`Scaffold.length`): record set, order and lengths as the tool itself reads them;
    * if two scaffolds share a name (the finding below), indexing FAILS with `ValueError` — the tool cannot read the
      file it wrote. -/
theorem cli_fasta_reindexes {w : Int} (hw : 1 ≤ w) (bs' : Int)
    (R : FastaRun file idx resOf input ptx prefix_ joinGap err outs stats root version suffix named)
    (hclean : ∀ F ∈ C01.inputFrags input, CleanBytes (slice (resOf F.name) F.start F.stop))
    (n : NamedAsm) (hn : n ∈ namedDict named) (hplain : ∀ sc ∈ n.scaffolds, PlainName sc.name) :
    (n.scaffolds ≠ [] → (n.scaffolds.map (·.name)).Nodup →
      ∃ st, indexFasta (bLines (fastaOf w resOf n.scaffolds)) bs' = .ok st ∧
        st.idx.map (fun e => (e.1, e.2.length)) = n.scaffolds.map (fun sc => (sc.name, sc.length))) ∧
    (¬ (n.scaffolds.map (·.name)).Nodup →
      indexFasta (bLines (fastaOf w resOf n.scaffolds)) bs' = .error .value) := by
  have hwn : w = ((w.toNat : Nat) : Int) := by omega
  have hb := R.cleanBodies hclean n hn
  constructor
  · intro hne hnd
    obtain ⟨st, e, hi⟩ := fastaOf_reindexes bs' w.toNat (by omega) resOf n.scaffolds hne hplain hnd hb
    rw [← hwn] at e
    refine ⟨st, e, ?_⟩
    rw [hi]
    apply List.map_congr_left
    intro sc hsc
    rw [((cli_agp_beside_fasta_same_rows R n hn).2.2 sc hsc).1]
  · intro hdup
    have := fastaOf_reindex_fails bs' w.toNat (by omega) resOf n.scaffolds hplain hdup hb
    rw [← hwn] at this
    exact this

/-! ## F4  every base of every input record, across all files -/

/-- the `(contig name, start, end)` triples of the fragment rows behind all records of all FASTA files -/
def writtenTriples (l : List NamedAsm) : List Key :=
  (l.flatMap (·.scaffolds)).flatMap (fun s => C01.keysOf s.rows)

/-- **F4.**  When no assembly is lost in the `name_assemblies` dict (no output key is literally `additional_haplotigs` /
    `all_haplotigs`: otherwise an assembly is replaced — finding recorded in `Properties/C16Plan.lean`):
    the dict holds every named assembly, and over ALL FASTA files written the fragment rows behind the records contain
    base `x` of contig `n` exactly as often as the input's contig fragments do: once for every base of every input
    fragment, never otherwise. -/
theorem cli_every_base_of_every_record
    (R : FastaRun file idx resOf input ptx prefix_ joinGap err outs stats root version suffix named)
    (hadd : ¬ HasKey outs (some "additional_haplotigs".toList)) (hall : ¬ HasKey outs (some "all_haplotigs".toList)) :
    namedDict named = named ∧
    (∀ n x, (writtenTriples (namedDict named)).countP (C01.coversK n x) =
        ((C01.inputFrags input).map Fragment.keyTuple).countP (C01.coversK n x)) ∧
    (∀ F ∈ C01.inputFrags input, ∀ x, F.start ≤ x → x ≤ F.stop →
        (writtenTriples (namedDict named)).countP (C01.coversK F.name x) = 1) ∧
    (∀ n x, (∀ F ∈ C01.inputFrags input, ¬ (F.name = n ∧ F.start ≤ x ∧ x ≤ F.stop)) →
        (writtenTriples (namedDict named)).countP (C01.coversK n x) = 0) := by
  obtain ⟨_, _, hkeys, _⟩ := C09.remap_routes_store input ptx prefix_ joinGap err outs stats R.remapped
  have hd : namedDict named = named :=
    namedDict_of_nodup named (C09.name_assemblies_keys_distinct outs root version named R.renamed hkeys hadd hall)
  have hperm : (writtenTriples named).Perm (C01.outputTriples outs) :=
    List.Perm.flatMap_right _ (C09.name_assemblies_conserves outs root version named R.renamed).1
  have hcount : ∀ n x, (writtenTriples named).countP (C01.coversK n x) =
      ((C01.inputFrags input).map Fragment.keyTuple).countP (C01.coversK n x) := by
    intro n x
    rw [hperm.countP_eq]
    exact (C01.remap_partitions input ptx prefix_ joinGap err outs stats R.wf R.remapped).1 n x
  rw [hd]
  refine ⟨rfl, hcount, ?_, ?_⟩
  · intro F hF x h1 h2
    rw [hperm.countP_eq]
    exact C01.remap_exactly_once input ptx prefix_ joinGap err outs stats R.wf R.remapped F hF x h1 h2
  · intro n x hno
    rw [hcount, List.countP_eq_zero]
    intro k hk
    obtain ⟨F, hF, rfl⟩ := List.mem_map.mp hk
    intro hc
    simp only [C01.coversK, decide_eq_true_eq] at hc
    exact hno F hF hc

/-- **F4, byte level.**  Take any record of any written FASTA: scaffold `sc` of the named assembly `n`, rows
    `pre ++ [f] ++ post` with `f` a fragment row.  Base `x` of `f` (`f.start ≤ x ≤ f.stop`, 1-based position in the input
    record called `f.name`) is the byte at offset `|body of pre| + offsetInRow f x` of the record's sequence — as itself when
    `f` is a forward row, as its IUPAC complement when `f` is a minus row.  (`offsetInRow f x` = `x - f.start`, resp.
    `f.stop - x`.)  Together with `cli_every_base_of_every_record`: every residue of every input record appears in
    exactly one record. -/
theorem cli_record_holds_residue
    (R : FastaRun file idx resOf input ptx prefix_ joinGap err outs stats root version suffix named)
    (n : NamedAsm) (hn : n ∈ namedDict named) (sc : Scaffold) (hsc : sc ∈ n.scaffolds)
    (pre post : List Row) (f : Fragment) (hrows : sc.rows = pre ++ Row.frag f :: post)
    (x : Int) (h1 : f.start ≤ x) (h2 : x ≤ f.stop) :
    (∃ F ∈ C01.inputFrags input, F.name = f.name ∧ F.start ≤ f.start ∧ f.stop ≤ F.stop) ∧
    1 ≤ x ∧ x ≤ (resOf f.name).length ∧
    (rowsBody resOf sc.rows)[(rowsBody resOf pre).length + offsetInRow f x]? =
      if f.strand = -1 then ((resOf f.name)[(x - 1).toNat]?).map comp else (resOf f.name)[(x - 1).toNat]? := by
  have hmem : Row.frag f ∈ sc.rows := by rw [hrows]; simp
  obtain ⟨info, _, _, a0, _, a3⟩ := (R.dictRows n hn sc hsc).1 _ hmem
  obtain ⟨a, ha, hsa⟩ := named_scaffold_origin outs root version named R.renamed n (namedDict_mem named n hn) sc hsc
  have hp := (C01.remap_partitions input ptx prefix_ joinGap err outs stats R.wf R.remapped).2
  have hm : f.keyTuple ∈ C01.outputTriples outs := by
    unfold C01.outputTriples
    refine List.mem_flatMap.mpr ⟨sc, List.mem_flatMap.mpr ⟨a, ha, hsa⟩, ?_⟩
    exact List.mem_map.mpr ⟨f, C01.mem_fragmentsOf.mpr hmem, rfl⟩
  obtain ⟨_, F, hF, hFn, b1, b2⟩ := hp _ hm
  refine ⟨⟨F, hF, hFn, b1, b2⟩, by omega, by omega, ?_⟩
  rw [hrows]
  exact rowsBody_residue resOf pre post f x a0 h1 h2 a3

end

/-! ## FASTA in: the input hypotheses discharged

  `pretext-to-asm` writes FASTA only when the input assembly was read from a FASTA (`if not fai: … sys.exit(1)`), so
  the input is always the assembly `index_fasta_file` derives.  For a file of well-formed records (`Rec.WF`, C04) with
  distinct names and a uniform line width per record (`Uniform`, what `sequence_bytes` needs, C04 `random_access`) that
  assembly satisfies `wf`, `within` and `strict` (Proofs/C03CliFasta.lean), and the join gap is the CLI's. -/

/-- `Gap(200, "scaffold")`, the `default_gap` of the CLI's `BuildAssembly` -/
def cliJoinGap : Gap := { length := Gen.joinGapLength, gapType := Gen.joinGapType }

/-- **FASTA in.**  Indexing succeeds (any buffer size) and EVERY completed run on the derived assembly — any Pretext
    assembly, prefix, texel size, output root / version, any suffix `parse_output_file` can return — is a `FastaRun`;
    moreover the derived fragments address only `ACGTacgt` bytes (hypothesis of F1 (b) / F2). -/
theorem fasta_input_run (bs : Int) (recs : List Rec) (hne : recs ≠ []) (hwf : ∀ r ∈ recs, r.WF)
    (hnd : (recs.map Rec.name).Nodup) (hu : ∀ r ∈ recs, ∃ w, Uniform w r.lines) :
    ∃ st, indexFasta (bLines (fileOf recs)) bs = .ok st ∧
      (∀ F ∈ C01.inputFrags st.scaffolds, CleanBytes (slice (resOfRecs recs F.name) F.start F.stop)) ∧
      ∀ (ptx : List Scaffold) (prefix_ : Str) (err : Int) (outs : List OutAsm) (stats : Stats)
        (root version suffix : Str) (named : List NamedAsm),
        remap st.scaffolds ptx prefix_ (some cliJoinGap) err = .ok (outs, stats) →
        nameAssemblies outs root version = .ok named → SuffixOk .FASTA suffix →
        FastaRun (fileOf recs) st.idx (resOfRecs recs) st.scaffolds ptx prefix_ (some cliJoinGap) err outs stats
          root version suffix named := by
  obtain ⟨st, e, h1, h2, h3, h4, _⟩ := fasta_input_ok bs recs hne hwf hnd hu
  refine ⟨st, e, h4, ?_⟩
  intro ptx prefix_ err outs stats root version suffix named hr hn hs
  exact ⟨hr, hn, h1, h2, h3, fun g hg => by cases hg; exact C06.cli_join_gap_strict, hs⟩

/-- **FASTA in, FASTA + AGP out** (F0, F1, F3 composed; no hypothesis on rows left).  For such a FASTA, any Pretext
    assembly, prefix and texel size, an `--output` name that `parse_output_file` accepts as FASTA: whenever remapping
    and `name_assemblies` complete, `write_assemblies` never fails and writes exactly, per named assembly in dict order,
    the `.fa` with one record per scaffold in scaffold order and beside it the header-less `.agp` of the same scaffolds
    whose objects end at the residue counts of the records; record names read back from the `.fa` are the scaffold names
    (when these contain no LF). -/
theorem fasta_cli_end_to_end (bs : Int) (recs : List Rec) (hne : recs ≠ []) (hwf : ∀ r ∈ recs, r.WF)
    (hnd : (recs.map Rec.name).Nodup) (hu : ∀ r ∈ recs, ∃ w, Uniform w r.lines) (hbs : 1 ≤ bs)
    {w : Int} (hw : 1 ≤ w) :
    ∃ st, indexFasta (bLines (fileOf recs)) bs = .ok st ∧
      ∀ (ptx : List Scaffold) (prefix_ : Str) (err : Int) (outs : List OutAsm) (stats : Stats)
        (outName root version suffix : Str) (named : List NamedAsm),
        remap st.scaffolds ptx prefix_ (some cliJoinGap) err = .ok (outs, stats) →
        parseOutputFile outName = .ok (.FASTA, root, version, suffix) →
        nameAssemblies outs root version = .ok named →
        cliWrittenFiles (fileOf recs) st.idx bs w outs root version suffix =
          .ok ((namedDict named).flatMap (specFilesOf w (resOfRecs recs) suffix)) ∧
        ∀ n ∈ namedDict named,
          ((∀ sc ∈ n.scaffolds, '\n' ∉ sc.name) →
            fastaRecordNames (fastaOf w (resOfRecs recs) n.scaffolds) = n.scaffolds.map (fun sc => strToBytes sc.name)) ∧
          formatAgp { name := n.name, header := [], scaffolds := n.scaffolds, curated := n.curated } = .ok (agpLinesOf n) ∧
          AgpOf (resOfRecs recs) n.scaffolds (agpLinesOf n) := by
  obtain ⟨st, e, hclean, hrun⟩ := fasta_input_run bs recs hne hwf hnd hu
  refine ⟨st, e, ?_⟩
  intro ptx prefix_ err outs stats outName root version suffix named hr hp hn
  have R := hrun ptx prefix_ err outs stats root version suffix named hr hn
    (parseOutputFile_suffix outName .FASTA root version suffix hp).1
  have h1 := cli_fasta_records_are_scaffolds hbs hw R
  refine ⟨h1.1, fun n hnm => ⟨fun hnl => (h1.2 n hnm).2 hnl hclean, ?_, ?_⟩⟩
  · exact (cli_agp_beside_fasta_same_rows R n hnm).1
  · exact (cli_agp_beside_fasta_same_rows R n hnm).2.1

/-! ## non-vacuity: a 2-record FASTA, a map with one cut and one haplotig

  `>a LF AACCGG LF TTACGA LF` and `>b desc CRLF GGGTTTAA CRLF`; Pretext: `Scaffold_1` = a:1-7 (+), `Scaffold_2` =
  a:8-12 (−) — the contig `a` is cut between bases 7 and 8 —, both painted; `Scaffold_3` = b:1-8 tagged `Haplotig`.
  Texel size 1, buffer size 3, line width 4, `--output x.fa`.
  REAL CLI (scratch run, line width 60): `x.1.primary.curated.fa` = `>SUPER_1 / AACCGGT / >SUPER_2 / TCGTA`,
  `x.1.primary.curated.agp` = the two lines below, `x.1.additional_haplotigs.curated.fa` = `>H_1 / GGGTTTAA`, `….agp` =
  `H_1 1 8 1 W b 1 8 +` — the same records, rows and lengths. -/

private def bytesOf (s : String) : Bytes := s.toList.map Char.toNat

def exRecA : Rec := { hdr := [97], le := [10], lines := [[65, 65, 67, 67, 71, 71], [84, 84, 65, 67, 71, 65]] }
def exRecB : Rec := { hdr := [98, 32, 100, 101, 115, 99], le := [13, 10], lines := [[71, 71, 71, 84, 84, 84, 65, 65]] }
def exRecs : List Rec := [exRecA, exRecB]
def exMap : List Scaffold :=
  [{ name := "Scaffold_1".toList,
     rows := [.frag { oid := 50, name := ['a'], start := 1, stop := 7, strand := 1, tags := [sPainted] }] },
   { name := "Scaffold_2".toList,
     rows := [.frag { oid := 51, name := ['a'], start := 8, stop := 12, strand := -1, tags := [sPainted] }] },
   { name := "Scaffold_3".toList,
     rows := [.frag { oid := 52, name := ['b'], start := 1, stop := 8, strand := 1, tags := [sHaplotig] }] }]

theorem exRecs_ok : exRecs ≠ [] ∧ (∀ r ∈ exRecs, r.WF) ∧ (exRecs.map Rec.name).Nodup ∧
    (∀ r ∈ exRecs, ∃ w, Uniform w r.lines) := by
  refine ⟨by simp [exRecs], ?_, by decide, ?_⟩
  · intro r hr
    simp only [exRecs, List.mem_cons, List.not_mem_nil, or_false] at hr
    rcases hr with rfl | rfl
    · exact ⟨Or.inl ⟨rfl, by decide⟩, by decide, by decide, by decide, by decide⟩
    · exact ⟨Or.inr rfl, by decide, by decide, by decide, by decide⟩
  · intro r hr
    simp only [exRecs, List.mem_cons, List.not_mem_nil, or_false] at hr
    rcases hr with rfl | rfl
    · exact ⟨6, Or.inr ⟨[[65, 65, 67, 67, 71, 71]], [84, 84, 65, 67, 71, 65], rfl, by decide, by decide, by decide⟩⟩
    · exact ⟨8, Or.inr ⟨[], [71, 71, 71, 84, 84, 84, 65, 65], rfl, by decide, by decide, by decide⟩⟩

/-- the whole run evaluated: index, remap, `name_assemblies`, `write_assemblies` — the four files written -/
theorem ex_written_files :
    (indexFasta (bLines (fileOf exRecs)) 3).toOption.bind (fun st =>
      (remap st.scaffolds exMap "SUPER_".toList (some cliJoinGap) 1).toOption.bind (fun r =>
        (cliWrittenFiles (fileOf exRecs) st.idx 3 4 r.1 ['x'] ['1'] ".fa".toList).toOption)) =
    some [("x.1.primary.curated.fa".toList, .bytes (bytesOf ">SUPER_1\nAACC\nGGT\n>SUPER_2\nTCGT\nA\n")),
          ("x.1.primary.curated.agp".toList,
             .text ["SUPER_1\t1\t7\t1\tW\ta\t1\t7\t+\tCut\n".toList, "SUPER_2\t1\t5\t1\tW\ta\t8\t12\t-\tCut\n".toList]),
          ("x.1.additional_haplotigs.curated.fa".toList, .bytes (bytesOf ">H_1\nGGGT\nTTAA\n")),
          ("x.1.additional_haplotigs.curated.agp".toList, .text ["H_1\t1\t8\t1\tW\tb\t1\t8\t+\n".toList])] := by
  decide +kernel

example : parseOutputFile "x.fa".toList = .ok (.FASTA, ['x'], ['1'], ".fa".toList) := by decide

/-- the hypotheses of all theorems above hold for this run: a `FastaRun` exists -/
theorem ex_run : ∃ st outs stats named,
    indexFasta (bLines (fileOf exRecs)) 3 = .ok st ∧
    FastaRun (fileOf exRecs) st.idx (resOfRecs exRecs) st.scaffolds exMap "SUPER_".toList (some cliJoinGap) 1 outs stats
      ['x'] ['1'] ".fa".toList named := by
  obtain ⟨h1, h2, h3, h4⟩ := exRecs_ok
  obtain ⟨st, e, _, hrun⟩ := fasta_input_run 3 exRecs h1 h2 h3 h4
  have hv := ex_written_files
  rw [e] at hv
  simp only [Except.toOption, Option.bind_some] at hv
  cases hr : remap st.scaffolds exMap "SUPER_".toList (some cliJoinGap) 1 with
  | error err => rw [hr] at hv; simp at hv
  | ok r =>
    rw [hr] at hv
    simp only [Option.bind_some] at hv
    cases hn : nameAssemblies r.1 ['x'] ['1'] with
    | error err =>
      unfold cliWrittenFiles at hv
      rw [hn] at hv
      simp [bind, Except.bind] at hv
    | ok named =>
      have hs : SuffixOk .FASTA ".fa".toList :=
        (parseOutputFile_suffix "x.fa".toList .FASTA ['x'] ['1'] ".fa".toList (by decide)).1
      have R := hrun exMap "SUPER_".toList 1 r.1 r.2 ['x'] ['1'] ".fa".toList named hr hn hs
      exact ⟨st, r.1, r.2, named, e, R⟩

/-- the name hypotheses of F2 hold for this run as well (on the derived assembly, written out) -/
def exInput : List Scaffold :=
  [{ name := ['a'], rows := [.frag { oid := 0, name := ['a'], start := 1, stop := 12, strand := 1 }] },
   { name := ['b'], rows := [.frag { oid := 1, name := ['b'], start := 1, stop := 8, strand := 1 }] }]

theorem ex_input : (indexFasta (bLines (fileOf exRecs)) 3).toOption.map (·.scaffolds) = some exInput := by
  decide +kernel

theorem ex_name_hypotheses :
    C10.NamesOutsideGenerated exInput exMap "SUPER_".toList ∧ C10.TaggedOneHaplotype exInput exMap := by
  rw [C10.namesOutsideGenerated_iff, C10.taggedOneHaplotype_iff]
  decide +kernel

theorem ex_keys : (remap exInput exMap "SUPER_".toList (some cliJoinGap) 1).toOption.map (fun r => r.1.map (·.key)) =
    some [none, some sHaplotig] := by decide +kernel

/-- F2 instantiated: all its hypotheses hold together for the example run (no `Primary` key: `MergeDisjoint` is not asked for) -/
theorem ex_names_unique : ∃ st outs stats named,
    indexFasta (bLines (fileOf exRecs)) 3 = .ok st ∧
    FastaRun (fileOf exRecs) st.idx (resOfRecs exRecs) st.scaffolds exMap "SUPER_".toList (some cliJoinGap) 1 outs stats
      ['x'] ['1'] ".fa".toList named ∧
    ∀ n ∈ namedDict named, (n.scaffolds.map (·.name)).Nodup := by
  obtain ⟨st, outs, stats, named, e, R⟩ := ex_run
  have hsc : st.scaffolds = exInput := by
    have := ex_input
    rw [e] at this
    simpa [Except.toOption] using this
  refine ⟨st, outs, stats, named, e, R, fun n hn => ?_⟩
  have H := ex_name_hypotheses
  rw [← hsc] at H
  refine (cli_fasta_record_names_unique (w := 4) (by decide) R H.1 H.2 ?_ n hn).1
  intro hp
  exfalso
  have hv := ex_keys
  have hr := R.remapped
  rw [hsc] at hr
  rw [hr] at hv
  simp only [Except.toOption, Option.map_some, Option.some.injEq] at hv
  obtain ⟨a, ha, hk⟩ := hp
  have hm : a.key ∈ outs.map (·.key) := List.mem_map_of_mem ha
  rw [hv, hk] at hm
  revert hm
  decide

example : PlainName "SUPER_1".toList ∧ PlainName "H_1".toList ∧ ¬ PlainName "a b".toList ∧ ¬ PlainName [] := by decide

/-- no `Primary` assembly in this run: `MergeDisjoint` is not asked for -/
example : (remap exInput exMap "SUPER_".toList (some cliJoinGap) 1).toOption.map
    (fun r => r.1.map (fun a => (a.key, a.scaffolds.map (·.name)))) =
    some [(none, ["SUPER_1".toList, "SUPER_2".toList]), (some sHaplotig, ["H_1".toList])] := by decide +kernel

/-! ## FINDING: `all_haplotigs` can hold two records with the same name

  F2 without `MergeDisjoint` is FALSE.  `name_assemblies`' `Primary` branch concatenates ALL other curated assemblies
  (`merge_assemblies`) into one `all_haplotigs` assembly; scaffold names are unique only WITHIN each of them (C10): every
  haplotype numbers its chromosomes `SUPER_1, SUPER_2, …` and homologous chromosomes share their name tag.  With two or
  more merged assemblies (a third haplotype, or painted scaffolds without haplotype next to a second haplotype) the
  merged FASTA gets several records called `SUPER_1`, and the AGP beside it lists the object `SUPER_1` twice, each time
  from position 1 / part 1 — which `parse_agp` reads back as ONE scaffold.

  Witness (three haplotypes named in the FASTA headers, `Scaffold_1` tagged `Primary`, all three painted):
  every other hypothesis of F2 holds.  REAL CLI (scratch run of `/venv/bin/pretext-to-asm -a in.fa -p ptx.agp -o x.fa` on
  exactly this input): exit 0, no warning, `x.1.all_haplotigs.curated.fa` = `>SUPER_1 / GGGTTTAAC / >SUPER_1 / TTGGCCAA`,
  `x.1.all_haplotigs.curated.agp` = the two lines below — the model's output up to the line width.  Also reproduced with
  two haplotypes + a painted scaffold without haplotype (`HAP1_…` Primary, `HAP2_…`, `scaffold_3`). -/

def dupRecs : List Rec :=
  [{ hdr := bytesOf "HAP1_SCAFFOLD_1", le := [10], lines := [bytesOf "ACGTACGTAC"] },
   { hdr := bytesOf "HAP2_SCAFFOLD_1", le := [10], lines := [bytesOf "GGGTTTAAC"] },
   { hdr := bytesOf "HAP3_SCAFFOLD_1", le := [10], lines := [bytesOf "TTGGCCAA"] }]

def dupInput : List Scaffold :=
  [{ name := "HAP1_SCAFFOLD_1".toList,
     rows := [.frag { oid := 0, name := "HAP1_SCAFFOLD_1".toList, start := 1, stop := 10, strand := 1 }] },
   { name := "HAP2_SCAFFOLD_1".toList,
     rows := [.frag { oid := 1, name := "HAP2_SCAFFOLD_1".toList, start := 1, stop := 9, strand := 1 }] },
   { name := "HAP3_SCAFFOLD_1".toList,
     rows := [.frag { oid := 2, name := "HAP3_SCAFFOLD_1".toList, start := 1, stop := 8, strand := 1 }] }]

def dupMap : List Scaffold :=
  [{ name := "Scaffold_1".toList,
     rows := [.frag { oid := 50, name := "HAP1_SCAFFOLD_1".toList, start := 1, stop := 10, strand := 1,
                      tags := [sPainted, sPrimary] }] },
   { name := "Scaffold_2".toList,
     rows := [.frag { oid := 51, name := "HAP2_SCAFFOLD_1".toList, start := 1, stop := 9, strand := 1, tags := [sPainted] }] },
   { name := "Scaffold_3".toList,
     rows := [.frag { oid := 52, name := "HAP3_SCAFFOLD_1".toList, start := 1, stop := 8, strand := 1, tags := [sPainted] }] }]

def dupAgpLines : List Str :=
  ["SUPER_1\t1\t9\t1\tW\tHAP2_SCAFFOLD_1\t1\t9\t+\n".toList, "SUPER_1\t1\t8\t1\tW\tHAP3_SCAFFOLD_1\t1\t8\t+\n".toList]

/-- **finding.**  (i) the files the run writes: `x.1.all_haplotigs.curated.fa` has two records `>SUPER_1`, the AGP beside
    it two objects `SUPER_1`; (ii) read back, the record names are `SUPER_1, SUPER_1`, and the tool's own `FastaIndex`
    rejects the file (`ValueError: More than one sequence named 'SUPER_1'`; real code: the same); (iii) `parse_agp` of the written
    AGP yields ONE scaffold `SUPER_1` with two rows; (iv) the input is the FASTA-derived assembly and satisfies `WFInput`,
    `NamesOutsideGenerated`, `TaggedOneHaplotype` — every hypothesis of F2 but `MergeDisjoint`, which fails. -/
theorem merged_all_haplotigs_duplicate_names :
    (indexFasta (bLines (fileOf dupRecs)) 3).toOption.bind (fun st =>
      (remap st.scaffolds dupMap "SUPER_".toList (some cliJoinGap) 1).toOption.bind (fun r =>
        (cliWrittenFiles (fileOf dupRecs) st.idx 3 4 r.1 ['x'] ['1'] ".fa".toList).toOption)) =
      some [("x.1.primary.curated.fa".toList, .bytes (bytesOf ">SUPER_1\nACGT\nACGT\nAC\n")),
            ("x.1.primary.curated.agp".toList, .text ["SUPER_1\t1\t10\t1\tW\tHAP1_SCAFFOLD_1\t1\t10\t+\n".toList]),
            ("x.1.all_haplotigs.curated.fa".toList, .bytes (bytesOf ">SUPER_1\nGGGT\nTTAA\nC\n>SUPER_1\nTTGG\nCCAA\n")),
            ("x.1.all_haplotigs.curated.agp".toList, .text dupAgpLines)] ∧
    fastaRecordNames (bytesOf ">SUPER_1\nGGGT\nTTAA\nC\n>SUPER_1\nTTGG\nCCAA\n") = [bytesOf "SUPER_1", bytesOf "SUPER_1"] ∧
    indexFasta (bLines (bytesOf ">SUPER_1\nGGGT\nTTAA\nC\n>SUPER_1\nTTGG\nCCAA\n")) 3 = .error .value ∧
    (parseAgp dupAgpLines).toOption.map (fun a => a.scaffolds.map (fun s => (s.name, s.rows.length))) =
      some [("SUPER_1".toList, 2)] ∧
    (indexFasta (bLines (fileOf dupRecs)) 3).toOption.map (·.scaffolds) = some dupInput ∧
    C01.WFInput dupInput ∧ C10.NamesOutsideGenerated dupInput dupMap "SUPER_".toList ∧
    C10.TaggedOneHaplotype dupInput dupMap ∧
    (remap dupInput dupMap "SUPER_".toList (some cliJoinGap) 1).toOption.map
        (fun r => r.1.map (fun a => (a.key, a.scaffolds.map (·.name)))) =
      some [(some sPrimary, ["SUPER_1".toList]), (some "HAP2".toList, ["SUPER_1".toList]),
            (some "HAP3".toList, ["SUPER_1".toList])] ∧
    (remap dupInput dupMap "SUPER_".toList (some cliJoinGap) 1).toOption.map (fun r => decide (MergeDisjoint r.1)) =
      some false := by
  refine ⟨by decide +kernel, by decide +kernel, by rfl, by decide +kernel, by decide +kernel, by decide +kernel, ?_, ?_,
    by decide +kernel, by decide +kernel⟩
  · rw [C10.namesOutsideGenerated_iff]; decide +kernel
  · rw [C10.taggedOneHaplotype_iff]; decide +kernel

/-- … while with ONE merged assembly (the documented use of the `Primary` tag) `MergeDisjoint` is automatic -/
example : MergeDisjoint [{ key := some sPrimary, curated := true, scaffolds := [{ name := "SUPER_1".toList }] },
                         { key := some "HAP2".toList, curated := true, scaffolds := [{ name := "SUPER_1".toList }] },
                         { key := some sContaminant, curated := false, scaffolds := [{ name := "c".toList }] }] :=
  mergeDisjoint_of_le_one _ (by decide)

end AgpTpf.C03
