/- C12 — placeholder while the proof is built (statement first) -/
import AgpTpf.Model.Lookup
namespace AgpTpf.C12
open AgpTpf
theorem cumEnds_length (acc : Int) (rows : List Row) : (cumEnds acc rows).length = rows.length := by
  induction rows generalizing acc with
  | nil => rfl
  | cons r rs ih => simp [cumEnds, ih]
end AgpTpf.C12
