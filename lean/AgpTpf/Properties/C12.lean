/-
  C12 — Overlap lookup equals a brute-force scan of the scaffold.

  `IndexedAssembly.find_overlaps` (indexed_assembly.py; model `findOverlaps` in Model/Lookup.lean: cumulative
  index, binary search, extension of the hit to both sides, stripping of leading/trailing gap rows) returns, for
  EVERY non-empty scaffold with non-negative row lengths and EVERY query, exactly what the independent
  brute-force specification `bruteForce` below returns — and never raises.

  Helper lemmas: AgpTpf/Proofs/C12.lean.
-/
import AgpTpf.Proofs.C12
namespace AgpTpf.C12
open AgpTpf

/-! ### the brute-force specification (independent of the index / search machinery) -/

/-- scaffold coordinates (1-based, closed) of row `k`: `(1 + Σ_{i<k} length, Σ_{i≤k} length)` -/
def rowSpan (rows : List Row) (k : Nat) : Int × Int :=
  (1 + rowsLength (rows.take k), rowsLength (rows.take (k + 1)))

/-- row `k` exists, is a FRAGMENT row and its span intersects the query `[a, b]` -/
def meets (rows : List Row) (a b : Int) (k : Nat) : Bool :=
  match rows[k]? with
  | some (.frag _) => decide ((rowSpan rows k).1 ≤ b ∧ a ≤ (rowSpan rows k).2)
  | _ => false

/-- all indices of rows meeting the query, ascending: a plain scan over the whole scaffold -/
def meeting (rows : List Row) (a b : Int) : List Nat :=
  (List.range rows.length).filter (meets rows a b)

/-- `none` when no fragment row meets the query; else, with `i` the least and `j` the greatest meeting index,
    the contiguous slice of rows `i..j` (gaps in between included) with the scaffold coordinates of its ends. -/
def bruteForce (rows : List Row) (bait : Fragment) : Option OverlapResult :=
  let hits := meeting rows bait.start bait.stop
  match hits.head?, hits.getLast? with
  | some i, some j =>
    some { bait := bait, start := (rowSpan rows i).1, stop := (rowSpan rows j).2,
           rows := (rows.drop i).take (j + 1 - i), name := "matches".toList }
  | _, _ => none

/-! ### what the specification says (sanity lemmas about `bruteForce` itself) -/

theorem meets_iff (rows : List Row) (a b : Int) (k : Nat) :
    meets rows a b k = true ↔
      ∃ f, rows[k]? = some (.frag f) ∧ (rowSpan rows k).1 ≤ b ∧ a ≤ (rowSpan rows k).2 := by
  unfold meets
  split
  · next f h => simp [h]
  · next h =>
    constructor
    · intro h'; cases h'
    · rintro ⟨f, hf, -⟩; exact absurd hf (h f)

theorem mem_meeting (rows : List Row) (a b : Int) (k : Nat) :
    k ∈ meeting rows a b ↔ meets rows a b k = true := by
  unfold meeting
  simp only [List.mem_filter, List.mem_range, and_iff_right_iff_imp]
  intro h
  obtain ⟨f, hf, -⟩ := (meets_iff rows a b k).1 h
  by_cases hk : k < rows.length
  · exact hk
  · rw [List.getElem?_eq_none (by omega)] at hf; cases hf

/-- `bruteForce` is `none` exactly when no fragment row meets the query. -/
theorem bruteForce_eq_none_iff (rows : List Row) (bait : Fragment) :
    bruteForce rows bait = none ↔ ∀ k, meets rows bait.start bait.stop k = false := by
  unfold bruteForce
  constructor
  · intro h k
    cases hm : meets rows bait.start bait.stop k with
    | false => rfl
    | true =>
      have hk := (mem_meeting rows _ _ k).2 hm
      cases hl : meeting rows bait.start bait.stop with
      | nil => rw [hl] at hk; cases hk
      | cons x xs =>
        rw [hl] at h
        have : (x :: xs).getLast? = some ((x :: xs).getLast (by simp)) := List.getLast?_eq_some_getLast _
        simp [this] at h
  · intro h
    have : meeting rows bait.start bait.stop = [] :=
      filter_range_eq_nil _ _ (fun k _ => h k)
    simp [this]

/-- When `bruteForce` returns a result it is the slice between the least and the greatest meeting row. -/
theorem bruteForce_eq_some (rows : List Row) (bait : Fragment) (o : OverlapResult)
    (h : bruteForce rows bait = some o) :
    ∃ i j, meets rows bait.start bait.stop i = true ∧ meets rows bait.start bait.stop j = true ∧
      (∀ k, meets rows bait.start bait.stop k = true → i ≤ k ∧ k ≤ j) ∧
      o = { bait := bait, start := (rowSpan rows i).1, stop := (rowSpan rows j).2,
            rows := (rows.drop i).take (j + 1 - i), name := "matches".toList } := by
  unfold bruteForce at h
  simp only at h
  split at h
  · next i j hi hj =>
    refine ⟨i, j, ?_, ?_, ?_, by simpa using h.symm⟩
    · exact (mem_meeting _ _ _ i).1 (List.mem_of_head? hi)
    · exact (mem_meeting _ _ _ j).1 (List.mem_of_getLast? hj)
    · intro k hk
      have hkm := (mem_meeting rows _ _ k).2 hk
      unfold meeting at hi hj hkm
      rw [List.head?_filter, List.find?_range_eq_some] at hi
      have hkn : k < rows.length := by simpa using (List.mem_filter.1 hkm).1
      constructor
      · by_cases hlt : k < i
        · have := hi.2.2 k hlt; simp [hk] at this
        · omega
      · -- greatest: by contradiction through the characterisation of the last hit
        by_cases hlt : j < k
        · exfalso
          have hjm : meets rows bait.start bait.stop j = true :=
            (mem_meeting _ _ _ j).1 (List.mem_of_getLast? hj)
          -- the last element of an ascending list is ≥ every element
          have hsorted : ((List.range rows.length).filter (meets rows bait.start bait.stop)).Pairwise (· < ·) :=
            List.Pairwise.filter _ List.pairwise_lt_range
          obtain ⟨ys, hys⟩ := List.getLast?_eq_some_iff.1 hj
          rw [hys] at hsorted hkm
          rw [List.pairwise_append] at hsorted
          rcases List.mem_append.1 hkm with hk1 | hk1
          · have := hsorted.2.2 k hk1 j (by simp); omega
          · simp at hk1; omega
        · omega
  · cases h

/-- the slice `i..j` really is rows `i, i+1, …, j` -/
theorem slice_getElem? (rows : List Row) (i j t : Nat) :
    ((rows.drop i).take (j + 1 - i))[t]? = if t < j + 1 - i then rows[i + t]? else none := by
  simp [List.getElem?_take, List.getElem?_drop]

/-! ### the property -/

theorem meets_eq (rows : List Row) (a b : Int) (k : Nat) :
    meets rows a b k = true ↔ fragAt rows k = true ∧ passes rows a b k := by
  unfold meets fragAt passes rowSpan pre
  split <;> simp_all

/-- **C12, full strength, with fewer hypotheses than asked for**: neither `1 ≤ a ≤ b` nor
    "fragments have length ≥ 1" is needed — only a non-empty scaffold (else the source raises ValueError)
    and non-negative row lengths (monotone index). -/
theorem find_overlaps_spec_strong (rows : List Row) (bait : Fragment) (hne : rows ≠ [])
    (hlen : ∀ r ∈ rows, 0 ≤ r.length) :
    findOverlaps rows bait = .ok (bruteForce rows bait) := by
  rcases findOverlaps_cases rows bait hne hlen with ⟨h, hno⟩ | ⟨i, j, hij, hj, h, hfi, hfj, hpi, hpj, hall⟩
  · rw [h]
    have : bruteForce rows bait = none := by
      rw [bruteForce_eq_none_iff]
      intro k
      cases hm : meets rows bait.start bait.stop k with
      | false => rfl
      | true =>
        obtain ⟨h1, h2⟩ := (meets_eq _ _ _ _).1 hm
        exact absurd h2 (hno k h1)
    rw [this]
  · rw [h]
    have hmi : meets rows bait.start bait.stop i = true := (meets_eq _ _ _ _).2 ⟨hfi, hpi⟩
    have hmj : meets rows bait.start bait.stop j = true := (meets_eq _ _ _ _).2 ⟨hfj, hpj⟩
    have hall' : ∀ k, meets rows bait.start bait.stop k = true → i ≤ k ∧ k ≤ j := by
      intro k hk
      obtain ⟨h1, h2⟩ := (meets_eq _ _ _ _).1 hk
      exact hall k h1 h2
    have hh : (meeting rows bait.start bait.stop).head? = some i :=
      head?_filter_range _ _ i (by omega) hmi (fun k _ hk => (hall' k hk).1)
    have hl : (meeting rows bait.start bait.stop).getLast? = some j :=
      getLast?_filter_range _ _ j hj hmj (fun k _ hk => (hall' k hk).2)
    unfold bruteForce
    simp only [hh, hl]
    rfl

/-- **C12 as stated in the task.** For every non-empty scaffold (any mixture of fragment and gap rows, gaps
    first / last / consecutive, zero-length gaps, 1-bp rows, single-row scaffolds) and every query `[a, b]`,
    `1 ≤ a ≤ b` (also ending or lying wholly beyond the scaffold end), the lookup does not raise and returns
    exactly the brute-force answer. -/
theorem find_overlaps_spec (rows : List Row) (bait : Fragment) (hne : rows ≠ [])
    (_hq : 1 ≤ bait.start ∧ bait.start ≤ bait.stop) (hlen : ∀ r ∈ rows, 0 ≤ r.length)
    (_hfrag : ∀ f, Row.frag f ∈ rows → 1 ≤ f.length) :
    findOverlaps rows bait = .ok (bruteForce rows bait) :=
  find_overlaps_spec_strong rows bait hne hlen

/-- "never fails" -/
theorem find_overlaps_never_fails (rows : List Row) (bait : Fragment) (hne : rows ≠ [])
    (hlen : ∀ r ∈ rows, 0 ≤ r.length) : ∀ e, findOverlaps rows bait ≠ .error e := by
  intro e h
  rw [find_overlaps_spec_strong rows bait hne hlen] at h
  cases h

/-- A query that touches no fragment row (only gaps — leading, trailing, inner — or nothing at all)
    returns `None`. -/
theorem find_overlaps_only_gaps (rows : List Row) (bait : Fragment) (hne : rows ≠ [])
    (hlen : ∀ r ∈ rows, 0 ≤ r.length)
    (h : ∀ k, meets rows bait.start bait.stop k = false) :
    findOverlaps rows bait = .ok none := by
  rw [find_overlaps_spec_strong rows bait hne hlen, (bruteForce_eq_none_iff rows bait).2 h]

/-- A query lying wholly beyond the scaffold end returns `None`. -/
theorem find_overlaps_beyond_end (rows : List Row) (bait : Fragment) (hne : rows ≠ [])
    (hlen : ∀ r ∈ rows, 0 ≤ r.length) (h : rowsLength rows < bait.start) :
    findOverlaps rows bait = .ok none := by
  apply find_overlaps_only_gaps rows bait hne hlen
  intro k
  cases hm : meets rows bait.start bait.stop k with
  | false => rfl
  | true =>
    obtain ⟨h1, h2⟩ := (meets_eq _ _ _ _).1 hm
    have hk := fragAt_lt rows k h1
    have := pre_mono rows hlen (k + 1) rows.length (by omega)
    have e : pre rows rows.length = rowsLength rows := by simp [pre]
    unfold passes at h2
    omega

/-- Shape of every returned result: the rows are not empty, begin and end with a fragment row (leading and
    trailing gaps are stripped), both end rows intersect the query, and the reported span is exactly as long
    as the returned rows. -/
theorem find_overlaps_result (rows : List Row) (bait : Fragment) (o : OverlapResult) (hne : rows ≠ [])
    (hlen : ∀ r ∈ rows, 0 ≤ r.length) (h : findOverlaps rows bait = .ok (some o)) :
    o.rows ≠ [] ∧ (∃ f, o.rows.head? = some (.frag f)) ∧ (∃ g, o.rows.getLast? = some (.frag g)) ∧
    o.stop - o.start + 1 = rowsLength o.rows ∧ o.bait = bait ∧
    o.start ≤ bait.stop ∧ bait.start ≤ o.stop := by
  rw [find_overlaps_spec_strong rows bait hne hlen] at h
  have h' : bruteForce rows bait = some o := by simpa using h
  obtain ⟨i, j, hi, hj, hall, rfl⟩ := bruteForce_eq_some rows bait o h'
  have hij : i ≤ j := (hall i hi).2
  obtain ⟨fi, hfi, hi1, hi2⟩ := (meets_iff _ _ _ _).1 hi
  obtain ⟨fj, hfj, hj1, hj2⟩ := (meets_iff _ _ _ _).1 hj
  have hjn : j < rows.length := by
    by_cases hk : j < rows.length
    · exact hk
    · rw [List.getElem?_eq_none (by omega)] at hfj; cases hfj
  have hlen' : ((rows.drop i).take (j + 1 - i)).length = j + 1 - i := by
    simp only [List.length_take, List.length_drop]; omega
  have hhead : ((rows.drop i).take (j + 1 - i)).head? = some (.frag fi) := by
    rw [List.head?_eq_getElem?, slice_getElem?]
    have : 0 < j + 1 - i := by omega
    simp [this, hfi]
  refine ⟨?_, ⟨fi, hhead⟩, ⟨fj, ?_⟩, ?_, rfl, ?_, ?_⟩
  · intro hnil
    have hnil' : (rows.drop i).take (j + 1 - i) = [] := hnil
    rw [hnil'] at hhead; cases hhead
  · show ((rows.drop i).take (j + 1 - i)).getLast? = _
    rw [List.getLast?_eq_getElem?, hlen', slice_getElem?]
    have h1 : j + 1 - i - 1 < j + 1 - i := by omega
    have h2 : i + (j + 1 - i - 1) = j := by omega
    simp only [h1, if_true, h2, hfj]
  · show rowsLength (rows.take (j + 1)) - (1 + rowsLength (rows.take i)) + 1
        = rowsLength ((rows.drop i).take (j + 1 - i))
    have e : j + 1 = i + (j + 1 - i) := by omega
    have : rows.take (j + 1) = rows.take i ++ (rows.drop i).take (j + 1 - i) := by
      rw [← List.take_add, ← e]
    rw [this, rowsLength_append]; omega
  · exact hi1
  · exact hj2

/-! ### hypotheses are satisfiable; concrete evaluations of both sides -/

def fr (n : String) (len : Int) : Row := .frag { name := n.toList, start := 1, stop := len, strand := 1 }
def gp (len : Int) : Row := .gap { length := len, gapType := "scaffold".toList }
def q (a b : Int) : Fragment := { name := "s".toList, start := a, stop := b, strand := 1 }

/-- leading gap (1-5), A (6-15), two consecutive gaps (16-18, 19-20), 1-bp B (21), a zero-length gap, C (22-26),
    trailing gap (27-30) -/
def demo : List Row := [gp 5, fr "A" 10, gp 3, gp 2, fr "B" 1, gp 0, fr "C" 5, gp 4]

example : demo ≠ [] ∧ (∀ r ∈ demo, 0 ≤ r.length) ∧ (∀ f, Row.frag f ∈ demo → 1 ≤ f.length) ∧
    (1 ≤ (q 17 40).start ∧ (q 17 40).start ≤ (q 17 40).stop) := by
  refine ⟨by decide, by decide, ?_, by decide⟩
  intro f hf
  simp only [demo, fr, gp, List.mem_cons, Row.frag.injEq, List.not_mem_nil, or_false, reduceCtorEq,
    false_or] at hf
  rcases hf with rfl | rfl | rfl <;> decide

/-- equality of lookup outcomes is decidable (only used to evaluate the examples below) -/
instance decEqOutcome : DecidableEq (R (Option OverlapResult))
  | .ok a, .ok b => if h : a = b then isTrue (by rw [h]) else isFalse (by intro h'; cases h'; exact h rfl)
  | .error a, .error b => if h : a = b then isTrue (by rw [h]) else isFalse (by intro h'; cases h'; exact h rfl)
  | .ok _, .error _ => isFalse (by intro h; cases h)
  | .error _, .ok _ => isFalse (by intro h; cases h)

-- the specification, evaluated
example : bruteForce demo (q 1 5) = none := by decide                      -- leading gap only
example : bruteForce demo (q 27 30) = none := by decide                    -- trailing gap only
example : bruteForce demo (q 16 20) = none := by decide                    -- inner consecutive gaps only
example : bruteForce demo (q 31 99) = none := by decide                    -- beyond the end
example : bruteForce demo (q 1 6) =
    some { bait := q 1 6, start := 6, stop := 15, rows := [fr "A" 10], name := "matches".toList } := by decide
example : bruteForce demo (q 17 40) =                                       -- starts in a gap, ends past the end
    some { bait := q 17 40, start := 21, stop := 26, rows := [fr "B" 1, gp 0, fr "C" 5],
           name := "matches".toList } := by decide
example : bruteForce demo (q 15 21) =
    some { bait := q 15 21, start := 6, stop := 21, rows := [fr "A" 10, gp 3, gp 2, fr "B" 1],
           name := "matches".toList } := by decide

-- the lookup, evaluated independently of the theorem, on the same queries
example : findOverlaps demo (q 1 5) = .ok none := by decide +kernel
example : findOverlaps demo (q 27 30) = .ok none := by decide +kernel
example : findOverlaps demo (q 16 20) = .ok none := by decide +kernel
example : findOverlaps demo (q 31 99) = .ok none := by decide +kernel
example : findOverlaps demo (q 1 6) = .ok (bruteForce demo (q 1 6)) := by decide +kernel
example : findOverlaps demo (q 17 40) = .ok (bruteForce demo (q 17 40)) := by decide +kernel
example : findOverlaps demo (q 15 21) = .ok (bruteForce demo (q 15 21)) := by decide +kernel
example : findOverlaps demo (q 21 21) = .ok (bruteForce demo (q 21 21)) := by decide +kernel
example : findOverlaps [gp 3] (q 1 2) = .ok (bruteForce [gp 3] (q 1 2)) := by decide +kernel
example : findOverlaps [fr "A" 1] (q 1 1) = .ok (bruteForce [fr "A" 1] (q 1 1)) := by decide +kernel
-- the empty scaffold raises ValueError as in the source (outside the theorem's hypotheses)
example : findOverlaps [] (q 1 2) = .error .value := by decide +kernel

end AgpTpf.C12
