/-
  C07 / T1c — the model's `Scaffold.appendRows` IS the source's `Scaffold.append_scaffold` (assembly/scaffold.py) as translated
  by `harness/translate_imp.py` into `Gen.Imp.Scaffold_append_scaffold`.  Helper lemma: Proofs/ImpSmall.lean.
-/
import AgpTpf.Gen.Imp
import AgpTpf.Proofs.ImpSmall
namespace AgpTpf.C07
open AgpTpf

/-- `append_scaffold` never raises, changes only `self.rows`, and the new rows are the model's `appendRows` -/
theorem append_scaffold_is_source (s othr : Scaffold) (gap : Option Gap) :
    Gen.Imp.Scaffold_append_scaffold s othr gap = .ok { s with rows := Scaffold.appendRows s.rows othr.rows gap } := by
  unfold Gen.Imp.Scaffold_append_scaffold
  cases gap with
  | none => rfl
  | some g =>
    rw [ImpSmall.appendRows_some]
    cases h : (!s.rows.isEmpty) <;> simp [bind, Except.bind]

/-- the generated function runs: a join gap goes between two non-empty scaffolds … -/
example :
    Gen.Imp.Scaffold_append_scaffold
      { name := ['a'], rows := [.frag { name := ['c'], start := 1, stop := 5, strand := 1 }], rank := 3 }
      { name := ['b'], rows := [.frag { name := ['d'], start := 2, stop := 9, strand := -1 }] }
      (some { length := 200, gapType := ['s'] })
    = .ok { name := ['a'], rank := 3,
            rows := [.frag { name := ['c'], start := 1, stop := 5, strand := 1 }, .gap { length := 200, gapType := ['s'] },
                     .frag { name := ['d'], start := 2, stop := 9, strand := -1 }] } := by rfl

/-- … and is dropped when `self` has no rows yet -/
example :
    Gen.Imp.Scaffold_append_scaffold { name := ['a'] }
      { name := ['b'], rows := [.frag { name := ['d'], start := 2, stop := 9, strand := -1 }] }
      (some { length := 200, gapType := ['s'] })
    = .ok { name := ['a'], rows := [.frag { name := ['d'], start := 2, stop := 9, strand := -1 }] } := by rfl

end AgpTpf.C07
