/-
  C07 / T1c — the model's `Scaffold.appendRows` IS the source's `Scaffold.append_scaffold` (assembly/scaffold.py) as translated
  by `harness/translate_imp.py` into `Gen.Imp.Scaffold_append_scaffold`.  Helper lemma: Proofs/ImpSmall.lean.

  `gap` is typed as Python uses it: whatever row object the caller passes (a Gap in `scaffolds_fused_by_name` before any left-over,
  possibly the re-bound loop variable afterwards), or None.
-/
import AgpTpf.Gen.Imp
import AgpTpf.Proofs.ImpSmall
namespace AgpTpf.C07
open AgpTpf

/-- `append_scaffold(othr, gap)` for an ARBITRARY row object `gap` (or None): never raises, changes only `self.rows`; the gap row goes
    in exactly when there is one and `self` already has rows; then come the rows of `othr` -/
theorem append_scaffold_is_source (s othr : Scaffold) (gap : Option Row) :
    Gen.Imp.Scaffold_append_scaffold s othr gap
      = .ok { s with rows := (match gap with
                              | some r => if s.rows.isEmpty then s.rows else s.rows ++ [r]
                              | none => s.rows) ++ othr.rows } := by
  unfold Gen.Imp.Scaffold_append_scaffold
  cases gap with
  | none => rfl
  | some r => cases h : s.rows.isEmpty <;> simp [bind, Except.bind]

/-- the corollary for a Gap (what the model's `appendRows` is about): the new rows are the model's `appendRows` -/
theorem append_scaffold_gap_is_source (s othr : Scaffold) (g : Option Gap) :
    Gen.Imp.Scaffold_append_scaffold s othr (g.map Row.gap) = .ok { s with rows := Scaffold.appendRows s.rows othr.rows g } := by
  rw [append_scaffold_is_source, ← ImpSmall.appendRowsRow_gap]
  cases g with
  | none => rfl
  | some g => exact congrArg (fun r => Except.ok { s with rows := r }) (ImpSmall.appendRowsRow_eq s.rows othr.rows (some (Row.gap g))).symm

/-- the generated function runs: a join gap goes between two non-empty scaffolds … -/
example :
    Gen.Imp.Scaffold_append_scaffold
      { name := ['a'], rows := [.frag { name := ['c'], start := 1, stop := 5, strand := 1 }], rank := 3 }
      { name := ['b'], rows := [.frag { name := ['d'], start := 2, stop := 9, strand := -1 }] }
      (some (.gap { length := 200, gapType := ['s'] }))
    = .ok { name := ['a'], rank := 3,
            rows := [.frag { name := ['c'], start := 1, stop := 5, strand := 1 }, .gap { length := 200, gapType := ['s'] },
                     .frag { name := ['d'], start := 2, stop := 9, strand := -1 }] } := by rfl

/-- … and is dropped when `self` has no rows yet … -/
example :
    Gen.Imp.Scaffold_append_scaffold { name := ['a'] }
      { name := ['b'], rows := [.frag { name := ['d'], start := 2, stop := 9, strand := -1 }] }
      (some (.gap { length := 200, gapType := ['s'] }))
    = .ok { name := ['a'], rows := [.frag { name := ['d'], start := 2, stop := 9, strand := -1 }] } := by rfl

/-- … and `gap` need not be a Gap: any row object is inserted as it is -/
example :
    Gen.Imp.Scaffold_append_scaffold
      { name := ['a'], rows := [.frag { name := ['c'], start := 1, stop := 5, strand := 1 }] }
      { name := ['b'], rows := [.frag { name := ['d'], start := 2, stop := 9, strand := -1 }] }
      (some (.frag { name := ['x'], start := 1, stop := 2, strand := 1 }))
    = .ok { name := ['a'],
            rows := [.frag { name := ['c'], start := 1, stop := 5, strand := 1 }, .frag { name := ['x'], start := 1, stop := 2, strand := 1 },
                     .frag { name := ['d'], start := 2, stop := 9, strand := -1 }] } := by rfl

end AgpTpf.C07
