/-
  C05 — T1c tie: the model's `parseAgp` / `parseTpf` ARE the source's `parse_agp` / `parse_tpf` (assembly/parser.py) as
  translated by `harness/translate_imp.py` into `Gen.Imp.parse_agp_imp` / `Gen.Imp.parse_tpf_imp`.

  The translated source keeps the Scaffold objects it creates in an arena and returns
  `(heap_sc, nextOid, asm_header, asm_scaffolds)`; `srcAssembly` reads the parsed assembly off these four components
  (header + the referenced scaffolds).  Both sides start object ids at 0 and return header + scaffolds, so the tie is an
  equation in `R Assembly`: same assembly (header, scaffold names, rows with their object ids), same exception class
  (IndexError for a missing column, AttributeError for a row before any scaffold exists, KeyError for an unknown strand,
  ValueError from `int()` / `Fragment.__init__` / the explicit `raise ValueError`s of `parse_tpf`) otherwise.
  The source's `str.maketrans` table (`lowercase_and_dash_to_underscore()`, a parameter of the translated function) is
  instantiated with the model's own per-character table `modelTrLower` (the extracted alphabets `Gen.lowerFrom/lowerTo`).

  Loop / arena lemmas: Proofs/ImpParse.lean.  The loop body is compared with the model's line reader by walking down the
  two programs in step (`stepSim_bind`: the same fallible operation on both sides, `stepSim_ite`: the same test,
  `stepSim_needObj`: attribute access on `scaffold`); no step mentions a generated sub-term.

  Corollaries: C05 for the SOURCE in both directions — the source's reader applied to the text the source's writer wrote
  (split into lines the way file iteration does) returns the assembly (`source_agp_roundtrip`, `source_tpf_roundtrip`).
-/
import AgpTpf.Proofs.ImpParse
import AgpTpf.Properties.C05
import AgpTpf.Properties.C05Imp
import AgpTpf.Properties.C06Imp
namespace AgpTpf.C05
open AgpTpf

/-- the assembly a run of the source's parser returns, from its four result components -/
def srcAssembly (r : List Scaffold × Nat × List Str × List Nat) : Assembly :=
  { header := r.2.2.1, scaffolds := r.2.2.2.map (fun i => r.1.getD i default) }

/-- the character map of the source's translation table, as the model has it: `translate Gen.lowerFrom Gen.lowerTo`
    (what `tpfGapTypeOfText` applies when the dictionary has no entry) is `List.map` of this function -/
def modelTrLower : Char → Char :=
  fun c => match dGet? (Gen.lowerFrom.zip Gen.lowerTo) c with | some d => d | none => c

/-- `modelTrLower` is the model's table: `tpfGapTypeOfText t` is `gap_type_dict.get(t, t.translate(tr))`, by unfolding -/
theorem modelTrLower_is_model (t : Str) :
    tpfGapTypeOfText t = (dGet? Gen.tpfGapParseDict t).getD (t.map modelTrLower) :=
  tpfGapTypeOfText_eq_getD t

/-- the table, run: upper-case letters to lower case, `-` to `_`, everything else unchanged -/
example : "SHORT-ARM z_9É".toList.map modelTrLower = "short_arm z_9É".toList := by decide

/-- `"##"`, `"#"` in `line.startswith(...)`: the model's character lists -/
private theorem lit_hash2 : ("##".toList : Str) = ['#', '#'] := rfl
private theorem lit_hash1 : ("#".toList : Str) = ['#'] := rfl

/-! ### the loop state of the two generated parsers

  `harness/translate_imp.py` carries the loop variables in a tuple ordered by the Lean text of their type, then by name.  `vars⟨…⟩` is that tuple with
  its components named in the order the PROOFS use (the argument order of `srcState` / `ArenaInv`); it is the only place
  in this file that knows the generated order — if the translator permutes the tuple, permute the right-hand side of the
  macro and the type `ParseVars`, nothing else. -/

/-- `vars⟨asm_header, scaffold_name, scaffold, heap_sc, asm_scaffolds, nextOid⟩`, as the generated code packs them:
    `(asm_scaffolds, heap_sc, asm_header, scaffold, nextOid, scaffold_name)`; a term and a pattern -/
local macro "vars⟨" hdr:term ", " nm:term ", " sc:term ", " heap:term ", " refs:term ", " oid:term "⟩" : term =>
  `(($refs, $heap, $hdr, $sc, $oid, $nm))

/-- the type of that tuple (both parsers carry the same variables) -/
abbrev ParseVars : Type := List Nat × List Scaffold × List Str × Option Nat × Nat × Str

/-- the loop invariant: the model's state is `srcState` of the source's variables, and the arena invariant holds -/
def ParseRel (s : ParseVars) (t : ParseState) : Prop :=
  match s with
  | vars⟨hdr, nm, sc, heap, refs, oid⟩ => t = srcState hdr nm sc heap oid ∧ ArenaInv sc heap refs

theorem parseRel_iff {hdr : List Str} {nm : Str} {sc : Option Nat} {heap : List Scaffold} {refs : List Nat} {oid : Nat}
    {t : ParseState} :
    ParseRel vars⟨hdr, nm, sc, heap, refs, oid⟩ t ↔ (t = srcState hdr nm sc heap oid ∧ ArenaInv sc heap refs) := Iff.rfl

theorem parseRel_mk {hdr : List Str} {nm : Str} {sc : Option Nat} {heap : List Scaffold} {refs : List Nat} {oid : Nat}
    (h : ArenaInv sc heap refs) : ParseRel vars⟨hdr, nm, sc, heap, refs, oid⟩ (srcState hdr nm sc heap oid) := ⟨rfl, h⟩

/-- the rest of an AGP row line once the current scaffold is settled (`hI`: the invariant for the variables as they are
    now): the two sides do the same lookups and conversions in the same order, then add the row to the same scaffold -/
local macro "agp_row_tail " hI:ident : tactic => `(tactic| (
  refine stepSim_bind fun f4 h4 => ?_
  simp only [ite_bind', bind_assoc, slice_from_9, srcState_nextOid]
  refine stepSim_ite Iff.rfl (fun hc => ?_) (fun hc => ?_)
  · -- a gap row
    refine stepSim_needObj _ _ _ _ _ fun r hr => ?_
    cases hr
    refine stepSim_bind fun f5 h5 => ?_
    refine stepSim_bind fun f6 h6 => ?_
    refine stepSim_bind fun len hlen => ?_
    rw [srcState_addRow_some _ _ _ _ _ _ _ $hI]
    exact stepSim_next (parseRel_mk (arenaInv_addRow $hI _ _))
  · -- a fragment row
    refine stepSim_needObj _ _ _ _ _ fun r hr => ?_
    cases hr
    refine stepSim_bind fun f5 h5 => ?_
    refine stepSim_bind fun f6 h6 => ?_
    refine stepSim_bind fun f7 h7 => ?_
    refine stepSim_bind fun f8 h8 => ?_
    refine stepSim_bind fun strand hstrand => ?_
    refine stepSim_bind fun s hs => ?_
    refine stepSim_bind fun e he => ?_
    refine stepSim_bind fun f hf => ?_
    rw [srcState_addRow_some _ _ _ _ _ _ _ $hI]
    exact stepSim_next (parseRel_mk (arenaInv_addRow $hI _ _))))

/-- the source's `parse_agp` is the model's `parseAgp`: same assembly, same exception class otherwise -/
theorem parse_agp_is_source (lines : List Str) :
    (Gen.Imp.parse_agp_imp 0 lines).map srcAssembly = parseAgp lines := by
  unfold Gen.Imp.parse_agp_imp parseAgp
  dsimp only
  -- the loop variables are packed as `vars⟨…⟩` (above)
  apply forIn_sim_finish (Rel := ParseRel) (step := parseAgpLine)
  · exact parseRel_mk arenaInv_init
  · -- one line
    intro line vars⟨hdr, nm, sc, heap, refs, oid⟩ t h
    obtain ⟨ht, hinv⟩ := parseRel_iff.mp h
    subst ht
    dsimp only at hinv ⊢
    unfold parseAgpLine
    simp only [lit_hash1, lit_hash2]
    by_cases hb : isBlankLine line = true
    · simp only [hb, if_true]; exact stepSim_next (parseRel_mk hinv)
    by_cases h2 : startsWith ['#', '#'] line = true
    · simp only [hb, h2, if_true, Bool.false_eq_true, if_false]; exact stepSim_next (parseRel_mk hinv)
    by_cases h1 : startsWith ['#'] line = true
    · simp only [hb, h2, h1, if_true, Bool.false_eq_true, if_false]
      cases headerText line with
      | none => exact stepSim_next (parseRel_mk hinv)
      | some h => exact stepSim_next (parseRel_mk hinv)
    simp only [hb, h2, h1, Bool.false_eq_true, if_false]
    generalize splitOnChar '\t' (rstripBy isSpace line) = fields
    refine stepSim_bind fun f0 h0 => ?_
    -- `if fields[0] != scaffold_name:` — either way the invariant holds for the variables as they are afterwards
    by_cases hn : f0 = nm
    · subst hn
      simp only [ne_eq, not_true_eq_false, decide_false, Bool.false_eq_true, if_false, bind_ok, srcState_switch_eq]
      agp_row_tail hinv
    · have hI := arenaInv_alloc hinv ({ name := f0 } : Scaffold)
      simp only [ne_eq, hn, not_false_eq_true, decide_true, if_true, h0, bind_ok, srcState_switch_ne _ _ _ _ _ _ hn]
      agp_row_tail hI
  · -- `return asm`
    intro vars⟨hdr, nm, sc, heap, refs, oid⟩ t h
    obtain ⟨ht, hinv⟩ := parseRel_iff.mp h
    subst ht
    dsimp only at hinv ⊢
    rw [hinv.1]
    simp only [srcAssembly, Except.map, map_getD_range]
    rfl

/-- a small AGP file: a `##` line, a header line, a blank line, a tagged fragment row, a gap row, a minus-strand row,
    a second scaffold with strand `?` and a stray tab at the end of the line -/
def agpDemoLines : List Str := pyLines (
  "## agp-version 2.1\n# DESCRIPTION: test\n\n" ++
  "s1\t1\t10\t1\tW\tctg1\t1\t10\t+\tPainted\tX\n" ++
  "s1\t11\t210\t2\tU\t200\tscaffold\tyes\tproximity_ligation\n" ++
  "s1\t211\t215\t3\tW\tctg2\t5\t9\t-\n" ++
  "s2\t1\t20\t1\tW\tctg3\t1\t20\t?\t\n").toList

set_option maxRecDepth 8000 in
/-- the generated function, run: the arena with two scaffolds, three object ids handed out, the header text, the
    references `[0, 1]` -/
example : Gen.Imp.parse_agp_imp 0 agpDemoLines = .ok
    ([{ name := "s1".toList, rows :=
          [.frag { oid := 0, name := "ctg1".toList, start := 1, stop := 10, strand := 1,
                   tags := ["Painted".toList, "X".toList] },
           .gap { length := 200, gapType := "scaffold".toList },
           .frag { oid := 1, name := "ctg2".toList, start := 5, stop := 9, strand := -1 }] },
      { name := "s2".toList, rows :=
          [.frag { oid := 2, name := "ctg3".toList, start := 1, stop := 20, strand := 0 }] }],
     3, ["DESCRIPTION: test".toList], [0, 1]) := by rfl

set_option maxRecDepth 8000 in
example : (Gen.Imp.parse_agp_imp 0 agpDemoLines).map srcAssembly = .ok
    { header := ["DESCRIPTION: test".toList],
      scaffolds :=
        [{ name := "s1".toList, rows :=
            [.frag { oid := 0, name := "ctg1".toList, start := 1, stop := 10, strand := 1,
                     tags := ["Painted".toList, "X".toList] },
             .gap { length := 200, gapType := "scaffold".toList },
             .frag { oid := 1, name := "ctg2".toList, start := 5, stop := 9, strand := -1 }] },
         { name := "s2".toList, rows :=
            [.frag { oid := 2, name := "ctg3".toList, start := 1, stop := 20, strand := 0 }] }] } := by rfl

/-- AttributeError: an empty first column equals the initial `scaffold_name`, so `scaffold` is still `None` -/
example : Gen.Imp.parse_agp_imp 0 ["\t1\t5\t1\tW\tc\t1\t5\t+\n".toList] = .error .attribute := by rfl
/-- … and it is raised before the columns are looked at (`scaffold.add_row` is evaluated first) -/
example : Gen.Imp.parse_agp_imp 0 ["\t1\t5\t1\tW\n".toList] = .error .attribute := by rfl
/-- KeyError: an unknown strand, after a scaffold that was read fine -/
example : Gen.Imp.parse_agp_imp 0 ["s\t1\t5\t1\tU\t5\tcontig\n".toList, "s\t1\t5\t1\tW\tc\t1\t5\tx\n".toList] =
    .error .key := by rfl
/-- IndexError: a missing column; ValueError: `int("9x")`, `start > end` -/
example : Gen.Imp.parse_agp_imp 0 ["s\t1\t5\t1\tW\tc\t5\n".toList] = .error .index := by rfl
example : Gen.Imp.parse_agp_imp 0 ["s\t1\t5\t1\tW\tc\t5\t9x\t+\n".toList] = .error .value := by rfl
example : Gen.Imp.parse_agp_imp 0 ["s\t1\t5\t1\tW\tc\t9\t5\t+\n".toList] = .error .value := by rfl

/-- the rest of a TPF fragment line once the current scaffold is settled -/
local macro "tpf_row_tail " hI:ident : tactic => `(tactic| (
  refine stepSim_bind fun f1 hf1 => ?_
  cases hm : tpfNameMatch f1 with
  | none => exact stepSim_error _
  | some m =>
    obtain ⟨name, d1, d2⟩ := m
    dsimp only
    simp only [srcState_nextOid]
    refine stepSim_needObj _ _ _ _ _ fun r hr => ?_
    cases hr
    refine stepSim_bind fun f3 h3 => ?_
    refine stepSim_bind fun strand hstrand => ?_
    refine stepSim_bind fun s hs => ?_
    refine stepSim_bind fun e he => ?_
    refine stepSim_bind fun f hf => ?_
    rw [srcState_addRow_some _ _ _ _ _ _ _ $hI]
    exact stepSim_next (parseRel_mk (arenaInv_addRow $hI _ _))))

/-- the source's `parse_tpf` is the model's `parseTpf`: same assembly, same exception class otherwise -/
theorem parse_tpf_is_source (lines : List Str) :
    (Gen.Imp.parse_tpf_imp 0 lines modelTrLower).map srcAssembly = parseTpf lines := by
  unfold Gen.Imp.parse_tpf_imp parseTpf
  dsimp only
  -- the loop variables are packed as `vars⟨…⟩` (above)
  apply forIn_sim_finish (Rel := ParseRel) (step := parseTpfLine)
  · exact parseRel_mk arenaInv_init
  · -- one line
    intro line vars⟨hdr, nm, sc, heap, refs, oid⟩ t h
    obtain ⟨ht, hinv⟩ := parseRel_iff.mp h
    subst ht
    dsimp only at hinv ⊢
    unfold parseTpfLine
    simp only [lit_hash1, isCrLf_eq_contains]
    by_cases hb : isBlankLine line = true
    · simp only [hb, if_true]; exact stepSim_next (parseRel_mk hinv)
    by_cases h1 : startsWith ['#'] line = true
    · simp only [hb, h1, if_true, Bool.false_eq_true, if_false]
      cases headerText line with
      | none => exact stepSim_next (parseRel_mk hinv)
      | some h => exact stepSim_next (parseRel_mk hinv)
    simp only [hb, h1, Bool.false_eq_true, if_false]
    generalize splitOnChar '\t' (rstripBy isCrLf line) = fields
    refine stepSim_bind fun f0 h0 => ?_
    refine stepSim_ite (by simp [Gen.tpfGapWord]) (fun hg => ?_) (fun hg => ?_)
    · -- a GAP line: `if scaffold:` (a reference is never falsy)
      cases sc with
      | none => exact stepSim_error _
      | some r =>
        dsimp only
        simp only [srcState_haveScaffold, Option.isSome_some, if_true]
        refine stepSim_bind fun f2 h2 => ?_
        refine stepSim_bind fun f1 hf1 => ?_
        simp only [hf1, bind_ok, tpfGapTypeOfText_eq_getD]
        refine stepSim_bind fun len hlen => ?_
        rw [srcState_addRow_some _ _ _ _ _ _ _ hinv]
        exact stepSim_next (parseRel_mk (arenaInv_addRow hinv _ _))
    · refine stepSim_ite (by simp; omega) (fun h4 => ?_) (fun h4 => ?_)
      · -- a fragment line; `if fields[2] != scaffold_name:` — either way the invariant holds afterwards
        refine stepSim_bind fun f2 h2 => ?_
        by_cases hn : f2 = nm
        · subst hn
          simp only [ne_eq, not_true_eq_false, decide_false, Bool.false_eq_true, if_false, bind_ok, srcState_switch_eq]
          tpf_row_tail hinv
        · have hI := arenaInv_alloc hinv ({ name := f2 } : Scaffold)
          simp only [ne_eq, hn, not_false_eq_true, decide_true, if_true, h2, bind_ok, srcState_switch_ne _ _ _ _ _ _ hn]
          tpf_row_tail hI
      · -- wrong field count
        exact stepSim_error _
  · -- `return asm`
    intro vars⟨hdr, nm, sc, heap, refs, oid⟩ t h
    obtain ⟨ht, hinv⟩ := parseRel_iff.mp h
    subst ht
    dsimp only at hinv ⊢
    rw [hinv.1]
    simp only [srcAssembly, Except.map, map_getD_range]
    rfl

/-- a small TPF file: header line, blank line, a name with a colon in it, a dictionary gap type, a translated gap type
    on a `\r\n` line, a minus-strand fragment, a second scaffold, no newline at the end of the file -/
def tpfDemoLines : List Str := pyLines (
  "## hdr\n\n" ++
  "?\tctg:1:1-10\ts1\tPLUS\n" ++
  "GAP\tTYPE-2\t200\n" ++
  "GAP\tSHORT-ARM\t7\r\n" ++
  "?\tctg2:5-9\ts1\tMINUS\n" ++
  "?\tctg3:11-20\ts2\tPLUS").toList

set_option maxRecDepth 8000 in
example : Gen.Imp.parse_tpf_imp 0 tpfDemoLines modelTrLower = .ok
    ([{ name := "s1".toList, rows :=
          [.frag { oid := 0, name := "ctg:1".toList, start := 1, stop := 10, strand := 1 },
           .gap { length := 200, gapType := "scaffold".toList },
           .gap { length := 7, gapType := "short_arm".toList },
           .frag { oid := 1, name := "ctg2".toList, start := 5, stop := 9, strand := -1 }] },
      { name := "s2".toList, rows :=
          [.frag { oid := 2, name := "ctg3".toList, start := 11, stop := 20, strand := 1 }] }],
     3, ["hdr".toList], [0, 1]) := by rfl

/-- ValueError: a GAP line before the first fragment; a wrong field count; a name that is not `name:start-end` -/
example : Gen.Imp.parse_tpf_imp 0 ["GAP\tTYPE-2\t200\n".toList] modelTrLower = .error .value := by rfl
example : Gen.Imp.parse_tpf_imp 0 ["?\tc:5-9\ts\n".toList] modelTrLower = .error .value := by rfl
example : Gen.Imp.parse_tpf_imp 0 ["?\tc:5_9\ts\tPLUS\n".toList] modelTrLower = .error .value := by rfl
/-- AttributeError: an empty scaffold column equals the initial `scaffold_name`, so `scaffold` is still `None` -/
example : Gen.Imp.parse_tpf_imp 0 ["?\tc:5-9\t\tPLUS\n".toList] modelTrLower = .error .attribute := by rfl
/-- KeyError: strand UNKNOWN (what `format_tpf` writes for strand 0), after a scaffold that was read fine -/
example : Gen.Imp.parse_tpf_imp 0 ["?\tc:5-9\ts\tPLUS\n".toList, "?\tc:5-9\ts\tUNKNOWN\n".toList] modelTrLower =
    .error .key := by rfl
/-- IndexError: a GAP line without a length column -/
example : Gen.Imp.parse_tpf_imp 0 ["?\tc:5-9\ts\tPLUS\n".toList, "GAP\tTYPE-2\n".toList] modelTrLower =
    .error .index := by rfl

/-! ## C05 for the SOURCE, both directions -/

/-- AGP: the source's `parse_agp`, applied to the lines of the text the source's `format_agp` wrote for a well-formed
    assembly, returns that assembly (everything but Python object identity, `canonAssembly`) -/
theorem source_agp_roundtrip (a : Assembly) (h : WFAgp a) (hnl : NoNewlines a) :
    ∃ text, Gen.Imp.format_agp_imp a.header a.scaffolds = .ok text ∧
      (Gen.Imp.parse_agp_imp 0 (pyLines text)).map srcAssembly = .ok (canonAssembly a) := by
  obtain ⟨lines, h1, _, h3⟩ := agp_roundtrip_text' a h hnl
  refine ⟨lines.flatten, ?_, ?_⟩
  · rw [C06.format_agp_is_source, h1]; rfl
  · rw [parse_agp_is_source]; exact h3

/-- …line by line, without the hypothesis on newlines: the source's reader on the LINES the model's writer produces,
    whose concatenation is the text the source's writer writes -/
theorem source_agp_roundtrip_lines (a : Assembly) (h : WFAgp a) :
    ∃ lines, Gen.Imp.format_agp_imp a.header a.scaffolds = .ok lines.flatten ∧
      (Gen.Imp.parse_agp_imp 0 lines).map srcAssembly = .ok (canonAssembly a) := by
  obtain ⟨lines, h1, h2⟩ := agp_roundtrip a h
  refine ⟨lines, ?_, ?_⟩
  · rw [C06.format_agp_is_source, h1]; rfl
  · rw [parse_agp_is_source]; exact h2

/-- TPF: the same, everything but the tags (which a TPF file does not carry) -/
theorem source_tpf_roundtrip (a : Assembly) (h : WFTpf a) (hnl : NoNewlines a) :
    ∃ text, Gen.Imp.format_tpf_imp a.header a.scaffolds modelTr = .ok text ∧
      (Gen.Imp.parse_tpf_imp 0 (pyLines text) modelTrLower).map srcAssembly =
        .ok (canonAssembly (dropTagsAssembly a)) := by
  obtain ⟨lines, h1, _, h3⟩ := tpf_roundtrip_text' a h hnl
  refine ⟨lines.flatten, ?_, ?_⟩
  · rw [format_tpf_is_source, h1]; rfl
  · rw [parse_tpf_is_source]; exact h3

theorem source_tpf_roundtrip_lines (a : Assembly) (h : WFTpf a) :
    ∃ lines, Gen.Imp.format_tpf_imp a.header a.scaffolds modelTr = .ok lines.flatten ∧
      (Gen.Imp.parse_tpf_imp 0 lines modelTrLower).map srcAssembly = .ok (canonAssembly (dropTagsAssembly a)) := by
  obtain ⟨lines, h1, h2⟩ := tpf_roundtrip a h
  refine ⟨lines, ?_, ?_⟩
  · rw [format_tpf_is_source, h1]; rfl
  · rw [parse_tpf_is_source]; exact h2

/-- the hypotheses are satisfiable: `demo` of `Properties/C05.lean` (two scaffolds, a gap, a minus strand, tags, a header) -/
example : WFAgp C05.demo ∧ WFTpf C05.demo ∧ NoNewlines C05.demo := by decide

end AgpTpf.C05
