/-
  C07 / C08 / T1c — the gap rows in front of a left-over contig: the model's `inputPredecessor` / `gapsBeforeLeftover`
  (Model/Remap.lean) ARE the source's `BuildAssembly.input_predecessor` / `BuildAssembly.gaps_before_leftover`
  (assembly/build_assembly.py) as translated by `harness/translate_imp.py` into `Gen.Imp`.  Helper lemmas: Proofs/ImpLeftover.lean.

  Conversions (Proofs/ImpLeftover.lean): the model keeps the predecessor as `(Fragment, List Gap)`; the source returns the row
  objects, `predToRows p = (Row.frag p.1, p.2.map Row.gap)`, and `gaps_before_leftover` takes the stored pair as it is (`prev.name`,
  `prev.strand`, `prev.start`, `prev.end` are attribute reads on a row object: AttributeError on a Gap).  `predOfRows` inverts
  `predToRows`; `gapsBeforeLeftoverRows` is `gaps_before_leftover` spelled out for an arbitrary stored pair.
-/
import AgpTpf.Gen.Imp
import AgpTpf.Proofs.ImpLeftover
namespace AgpTpf.C07
open AgpTpf ImpLeftover

/-- `input_predecessor(scffld, i)` for EVERY index `i ≥ 0` (no `i ≤ len` needed: beyond the end both sides walk back from the last
    row): the model's pair, with the fragment and the gaps as rows.  Never raises. -/
theorem input_predecessor_is_source (sc : Scaffold) (i : Nat) :
    Gen.Imp.BuildAssembly_input_predecessor sc (i : Int)
      = .ok ((inputPredecessor sc.rows i).map (fun p => (Row.frag p.1, p.2.map Row.gap))) := by
  unfold Gen.Imp.BuildAssembly_input_predecessor inputPredecessor
  by_cases h : i = 0
  · subst h; rfl
  · have h' : ((i : Int) ≠ 0) := by omega
    rw [if_pos (by simpa using h'), sliceRevFrom_pred sc.rows i h]
    refine forIn_walk_eq _ ?_ ?_ _ <;> intros <;> rfl

/-- negative `i` (never passed by the code: `i` is the index of a Fragment row): Python's slice counts `i - 1` from the end, so the
    source does what the model does at index `len + i` (at 0, i.e. `None`, when `-i ≥ len`) -/
theorem input_predecessor_is_source_neg (sc : Scaffold) (i : Int) (hi : i < 0) :
    Gen.Imp.BuildAssembly_input_predecessor sc i
      = .ok ((inputPredecessor sc.rows (i + (sc.rows.length : Int)).toNat).map (fun p => (Row.frag p.1, p.2.map Row.gap))) := by
  unfold Gen.Imp.BuildAssembly_input_predecessor inputPredecessor
  have h' : i ≠ 0 := by omega
  rw [if_pos (by simpa using h'), sliceRevFrom_pred_neg sc.rows i hi]
  refine forIn_walk_eq _ ?_ ?_ _ <;> intros <;> rfl

example :
    Gen.Imp.BuildAssembly_input_predecessor
      { name := ['s'], rows := [.frag { name := ['a'], start := 1, stop := 5, strand := 1 }, .gap { length := 7, gapType := ['u'] },
                                .gap { length := 200, gapType := ['s'] }, .frag { name := ['b'], start := 2, stop := 9, strand := -1 }] } 3
    = .ok (some (.frag { name := ['a'], start := 1, stop := 5, strand := 1 },
                 [.gap { length := 7, gapType := ['u'] }, .gap { length := 200, gapType := ['s'] }])) := by rfl

example :
    Gen.Imp.BuildAssembly_input_predecessor
      { name := ['s'], rows := [.gap { length := 7, gapType := ['u'] }, .frag { name := ['b'], start := 2, stop := 9, strand := -1 }] } 1
    = .ok none := by rfl

/-- a negative index: `rows[-2::-1]` of three rows starts at row 1 -/
example :
    Gen.Imp.BuildAssembly_input_predecessor
      { name := ['s'], rows := [.frag { name := ['a'], start := 1, stop := 5, strand := 1 }, .gap { length := 7, gapType := ['u'] },
                                .frag { name := ['b'], start := 2, stop := 9, strand := -1 }] } (-1)
    = .ok (some (.frag { name := ['a'], start := 1, stop := 5, strand := 1 }, [.gap { length := 7, gapType := ['u'] }])) := by rfl

/-- `gaps_before_leftover` on what `input_predecessor` stores (`predToRows p = (Row.frag p.1, p.2.map Row.gap)`: the predecessor ROW
    object and the gap rows): never raises; the model's rows -/
theorem gaps_before_leftover_is_source (built : Scaffold) (pred : Option (Fragment × List Gap)) (joinGap : Option Gap) :
    Gen.Imp.BuildAssembly_gaps_before_leftover built (pred.map (fun p => (Row.frag p.1, p.2.map Row.gap))) joinGap
      = .ok (gapsBeforeLeftover joinGap built.rows pred) := by
  unfold Gen.Imp.BuildAssembly_gaps_before_leftover gapsBeforeLeftover
  cases hb : built.rows.isEmpty with
  | true => simp
  | false =>
    cases pred with
    | none => cases joinGap <;> simp
    | some p =>
      cases hr : built.rows.reverse with
      | nil => simp at hr; simp [hr] at hb
      | cons x r =>
        simp only [Option.map_some]
        rw [show pyGet built.rows (-(1 : Int)) = .ok x from pyGet_neg_one _ x r hr]
        cases x with
        | gap g => cases joinGap <;> simp [bind, Except.bind, Row.isGap]
        | frag last =>
          cases joinGap <;>
          by_cases h1 : last.name = p.1.name <;> by_cases h2 : last.strand = p.1.strand <;>
            by_cases h3 : p.1.strand = -1 <;>
            by_cases h4 : last.start = p.1.start <;> by_cases h5 : last.stop = p.1.stop <;>
            simp [bind, Except.bind, Except.map, Row.isGap, PyRt.asFrag, h1, h2, h3, h4, h5] <;> simp_all

example :
    Gen.Imp.BuildAssembly_gaps_before_leftover
      { name := ['s'], rows := [.frag { name := ['a'], start := 1, stop := 5, strand := 1 }] }
      (some (.frag { name := ['a'], start := 1, stop := 5, strand := 1 }, [.gap { length := 7, gapType := ['u'] }]))
      (some { length := 200, gapType := ['s'] })
    = .ok [.gap { length := 7, gapType := ['u'] }] := by rfl

example :
    Gen.Imp.BuildAssembly_gaps_before_leftover
      { name := ['s'], rows := [.frag { name := ['a'], start := 1, stop := 4, strand := 1 }] }
      (some (.frag { name := ['a'], start := 1, stop := 5, strand := 1 }, [.gap { length := 7, gapType := ['u'] }]))
      (some { length := 200, gapType := ['s'] })
    = .ok [.gap { length := 200, gapType := ['s'] }] := by rfl

/-- `gaps_before_leftover` for ANY stored pair (`prev` any row object, `gaps` any rows) — `gapsBeforeLeftoverRows` of
    Proofs/ImpLeftover.lean spells the result out: `[]` when nothing is built yet; the default gap when nothing is stored or the last
    built row is a Gap; when the last built row is a Fragment, `prev.name` is read: AttributeError if `prev` is a Gap, otherwise the
    stored rows as they are when the end of `prev` is still there, else the default gap -/
theorem gaps_before_leftover_rows_is_source (built : Scaffold) (pred : Option (Row × List Row)) (joinGap : Option Gap) :
    Gen.Imp.BuildAssembly_gaps_before_leftover built pred joinGap = gapsBeforeLeftoverRows joinGap built.rows pred := by
  unfold Gen.Imp.BuildAssembly_gaps_before_leftover gapsBeforeLeftoverRows
  cases hb : built.rows.isEmpty with
  | true => simp
  | false =>
    cases pred with
    | none => cases joinGap <;> simp
    | some q =>
      obtain ⟨prev, gaps⟩ := q
      cases hr : built.rows.reverse with
      | nil => simp at hr; simp [hr] at hb
      | cons x r =>
        rw [show pyGet built.rows (-(1 : Int)) = .ok x from pyGet_neg_one _ x r hr]
        cases x with
        | gap g => cases joinGap <;> simp [bind, Except.bind, Row.isGap]
        | frag last =>
          cases prev with
          | gap g => simp [bind, Except.bind, Except.map, Row.isGap, PyRt.asFrag]
          | frag p =>
            cases joinGap <;>
            by_cases h1 : last.name = p.name <;> by_cases h2 : last.strand = p.strand <;>
              by_cases h3 : p.strand = -1 <;>
              by_cases h4 : last.start = p.start <;> by_cases h5 : last.stop = p.stop <;>
              simp [bind, Except.bind, Except.map, Row.isGap, PyRt.asFrag, h1, h2, h3, h4, h5] <;> simp_all

/-- the stored predecessor row is a Gap (never produced by `input_predecessor`): AttributeError (`prev.name`) EXACTLY when something is
    built and the last built row is a Fragment; otherwise the row is never looked at (`[]`, resp. the default gap) -/
theorem gaps_before_leftover_gap_predecessor (built : Scaffold) (g : Gap) (gaps : List Row) (joinGap : Option Gap) :
    Gen.Imp.BuildAssembly_gaps_before_leftover built (some (Row.gap g, gaps)) joinGap
      = match built.rows.reverse with
        | [] => .ok []
        | Row.frag _ :: _ => .error .attribute
        | Row.gap _ :: _ => .ok (joinGap.toList.map Row.gap) := by
  rw [gaps_before_leftover_rows_is_source]
  unfold gapsBeforeLeftoverRows
  cases hr : built.rows.reverse with
  | nil => simp at hr; simp [hr]
  | cons x r =>
    have hb : built.rows.isEmpty = false := by
      cases h : built.rows with
      | nil => simp [h] at hr
      | cons _ _ => rfl
    cases x <;> cases joinGap <;> simp [hb]

example :
    Gen.Imp.BuildAssembly_gaps_before_leftover
      { name := ['s'], rows := [.frag { name := ['a'], start := 1, stop := 4, strand := 1 }] }
      (some (.gap { length := 7, gapType := ['u'] }, [])) (some { length := 200, gapType := ['s'] })
    = .error .attribute := by rfl

example :
    Gen.Imp.BuildAssembly_gaps_before_leftover
      { name := ['s'], rows := [.frag { name := ['a'], start := 1, stop := 4, strand := 1 }, .gap { length := 3, gapType := ['u'] }] }
      (some (.gap { length := 7, gapType := ['u'] }, [])) (some { length := 200, gapType := ['s'] })
    = .ok [.gap { length := 200, gapType := ['s'] }] := by rfl

/-- the two compose: `scffld.input_predecessor = input_predecessor(input_scffld, i)`, handed to `gaps_before_leftover` AS IT IS STORED,
    gives the model's rows for the model's predecessor; never raises -/
theorem gaps_before_leftover_of_input_predecessor (sc built : Scaffold) (i : Nat) (joinGap : Option Gap) :
    (Gen.Imp.BuildAssembly_input_predecessor sc (i : Int) >>= fun q =>
        Gen.Imp.BuildAssembly_gaps_before_leftover built q joinGap)
      = .ok (gapsBeforeLeftover joinGap built.rows (inputPredecessor sc.rows i)) := by
  rw [input_predecessor_is_source]
  exact gaps_before_leftover_is_source built _ joinGap

example :
    (Gen.Imp.BuildAssembly_input_predecessor
      { name := ['s'], rows := [.frag { name := ['a'], start := 1, stop := 5, strand := -1 }, .gap { length := 7, gapType := ['u'] },
                                .frag { name := ['b'], start := 2, stop := 9, strand := 1 }] } 2 >>= fun q =>
      Gen.Imp.BuildAssembly_gaps_before_leftover
        { name := ['t'], rows := [.frag { name := ['c'], start := 1, stop := 3, strand := 1 },
                                  .frag { name := ['a'], start := 1, stop := 4, strand := -1 }] }
        q (some { length := 200, gapType := ['s'] }))
    = .ok [.gap { length := 7, gapType := ['u'] }] := by rfl

end AgpTpf.C07
