/-
  C01 / C02 / C07–C11 (T1c CAPSTONE) — the whole of phase 1 of the Python source, `BuildAssembly.remap_to_input_assembly`
  (assembly/build_assembly.py) as translated by `harness/translate_imp.py` into `Gen.Imp.BuildAssembly_remap_to_input_assembly`,
  REFINES the model's `remapToInput` (Model/Remap.lean).

  Source side (`AgpTpf/Gen/Imp.lean`): `ScaffoldNamer_rename_unlocs_by_size`, `ScaffoldNamer_rename_haplotigs_by_size`,
  `BuildAssembly_find_assembly_overlaps`, `BuildAssembly_cut_remaining_overhangs`, `BuildAssembly_remap_to_input_assembly` — each a
  COMPOSITION of translated kernels (the calls are calls of the other generated definitions), whose ties to the model are composed
  here: C09Imp (namer), C12Imp / C12ImpIndex (lookup in the indexed input), C01ImpFound (`store_fragments_found`,
  `discard_overhanging_fragments`), C01ImpCut (`cut_fragments`), C01ImpMissing (`add_missing_scaffolds_from_input`).
  Model side: `processBait`, `findAssemblyOverlaps`, `discardOverhanging`, `cutRemaining`, `renameBySize`, `addMissing`, `remapToInput`.

  The source state `(store, heap_ff, namer, found, multi)` stands for the model's `Build`: same store; `absNamer` reads the Python namer
  object as the model's `Namer`; `absFound heap_ff found` reads the values behind the references of `self.found_fragments`; the model's
  `multi` are the keys of `self.fragments_found_more_than_once`; under the invariants `WfNamer` (C09Imp) and `Coherent` (C01ImpFound).
  Order difference inside one Pretext fragment: the model labels and trims a result BEFORE it appends it to the store, the source
  allocates it first and labels / trims it in place — same final store (`ImpRemap.bait_found_ref`).

  Every tie has the form: match the model's result — `.error e`: the source raises `e`; `.ok b'`: the source returns the state that
  stands for `b'`.  The source either returns or raises, so this is "exactly when" (`remap_to_input_source_ok` reads it from the source's side).

  Proofs: `AgpTpf/Proofs/ImpRemap.lean`.
-/
import AgpTpf.Proofs.ImpRemap
import AgpTpf.Properties.C01
import AgpTpf.Properties.C02NoError
-- the `example`s compare nested tuples by `decide +kernel`: the default size limit of instance search is too small for their `DecidableEq`
set_option synthInstance.maxSize 100000
namespace AgpTpf.C01
open AgpTpf
open AgpTpf.C09 (absNamer WfNamer)
open AgpTpf.ImpMissing (loModel loSrc)

/-! ### the data of the end-to-end `example`: two input scaffolds `s1 = a(1-100) gap(10) b(1-50)`, `s2 = c(1-80, minus strand)`; a Pretext map
    with `Scaffold_1 = s1:1-60 (Painted)` and `Scaffold_2 = s1:61-100 (Painted), gap, s2:1-80` — the contig `a` is CUT at 60 | 61, the
    contig `b` is left UNPLACED -/

def rmA : Fragment := { oid := 1, name := ['a'], start := 1, stop := 100, strand := 1 }
def rmB : Fragment := { oid := 2, name := ['b'], start := 1, stop := 50, strand := 1 }
def rmC : Fragment := { oid := 3, name := ['c'], start := 1, stop := 80, strand := -1 }
def rmG10 : Gap := { length := 10, gapType := "scaffold".toList }
def rmG200 : Gap := { length := 200, gapType := "scaffold".toList }
def rmInput : List Scaffold :=
  [{ name := ['s', '1'], rows := [.frag rmA, .gap rmG10, .frag rmB] }, { name := ['s', '2'], rows := [.frag rmC] }]
def rmP1 : Fragment := { oid := 11, name := ['s', '1'], start := 1, stop := 60, strand := 1, tags := ["Painted".toList] }
def rmP2 : Fragment := { oid := 12, name := ['s', '1'], start := 61, stop := 100, strand := 1, tags := ["Painted".toList] }
def rmP3 : Fragment := { oid := 13, name := ['s', '2'], start := 1, stop := 80, strand := -1 }
def rmPtx : List Scaffold :=
  [{ name := "Scaffold_1".toList, rows := [.frag rmP1] }, { name := "Scaffold_2".toList, rows := [.frag rmP2, .gap rmG200, .frag rmP3] }]
def rmPrefix : Str := "SUPER_".toList
/-- the state after the first Pretext scaffold: one result holding `a` -/
def rmNamer1 : PyRt.SrcNamer :=
  { autosome_prefix := rmPrefix, current_scaffold_name := some "Scaffold_1".toList, current_rank := some 1 }
def rmRes (bait : Fragment) (s e : Int) (f : Fragment) (name : Str) : Res :=
  { o := { bait := bait, start := s, stop := e, rows := [.frag f], name := name, rank := 1, originalName := some name,
           originalTags := some ["Painted".toList] }, added := true }
/-- the store after `find_assembly_overlaps`: `a` is held by results 0 and 1 -/
def rmStore1 : List Res :=
  [rmRes rmP1 1 100 rmA "Scaffold_1".toList, rmRes rmP2 1 100 rmA "Scaffold_2".toList, rmRes rmP3 1 80 rmC "Scaffold_2".toList]
def rmHeap : List Found := [{ fragment := rmA, scaffolds := [0, 1] }, { fragment := rmC, scaffolds := [2] }]
def rmFound : List (Key × Nat) := [((['a'], 1, 100), 0), ((['c'], 1, 80), 1)]
def rmMulti : List (Key × Nat) := [((['a'], 1, 100), 0)]
/-- … and after `cut_remaining_overhangs`: two new objects, `a:1-60` and `a:61-100` -/
def rmStore2 : List Res :=
  [rmRes rmP1 1 60 { oid := 4, name := ['a'], start := 1, stop := 60, strand := 1, tags := ["Cut".toList] } "Scaffold_1".toList,
   rmRes rmP2 61 100 { oid := 5, name := ['a'], start := 61, stop := 100, strand := 1, tags := ["Cut".toList] } "Scaffold_2".toList,
   rmRes rmP3 1 80 rmC "Scaffold_2".toList]
def rmNamer2 : PyRt.SrcNamer := { rmNamer1 with current_scaffold_name := some "Scaffold_2".toList }

/-! ### 1. `rename_unlocs_by_size`, `rename_haplotigs_by_size` -/

theorem rename_unlocs_is_source (store : List Res) (s : PyRt.SrcNamer) :
    Gen.Imp.ScaffoldNamer_rename_unlocs_by_size store s = .ok (renameBySize store (absNamer s).unlocScaffolds) :=
  ImpRemap.rename_unlocs_eq store s

theorem rename_haplotigs_is_source (store : List Res) (s : PyRt.SrcNamer) :
    Gen.Imp.ScaffoldNamer_rename_haplotigs_by_size store s = .ok (renameBySize store (absNamer s).haplotigScaffolds) :=
  ImpRemap.rename_haplotigs_eq store s

/-- the names "Scaffold_1", "Scaffold_2", "Scaffold_2" of the results `[2, 0, 1]` go to them in order of decreasing length
    (100, 100, 80; stable): 0 ↦ the name of 2, 1 ↦ the name of 0, 2 ↦ the name of 1 -/
example : (Gen.Imp.ScaffoldNamer_rename_unlocs_by_size rmStore1 { rmNamer1 with unloc_scaffolds := [2, 0, 1] }).map
      (fun st => st.map (·.o.name)) = .ok ["Scaffold_2".toList, "Scaffold_1".toList, "Scaffold_2".toList] := by rfl
example : (Gen.Imp.ScaffoldNamer_rename_haplotigs_by_size rmStore1 { rmNamer1 with haplotig_scaffolds := [2, 0, 1] }).map
      (fun st => st.map (·.o.name)) = .ok ["Scaffold_2".toList, "Scaffold_1".toList, "Scaffold_2".toList] := by rfl

/-! ### 2. `find_assembly_overlaps` -/

/-- `input_asm.find_overlaps(bait)` as the model has it: the scaffold of the bait's name (ValueError when there is none), then the
    overlap search in it -/
def inputOverlaps (input : List Scaffold) (bait : Fragment) : R (Option OverlapResult) :=
  lookupScaffold input bait.name >>= fun sc => findOverlaps sc.rows bait

/-- `IndexedAssembly.__init__` (`for scffld in scaffolds: self.add_scaffold(scffld)`, from the empty dictionaries) with the SOURCE's
    `add_scaffold` does what the duplicate-name check at the head of `remapToInput` does: ValueError for a repeated name; otherwise the
    dictionaries hold every scaffold, and the index `buildIndex` of its rows, under its name -/
theorem index_input_is_source (input : List Scaffold) :
    input.foldlM (fun d sc => Gen.Imp.IndexedAssembly_add_scaffold d.1 d.2 sc) ([], [])
      = (input.foldlM (fun (seen : List Str) (s : Scaffold) =>
            if seen.contains s.name then (throw Err.value : R (List Str)) else pure (seen ++ [s.name])) []).map
          (fun _ => (input.map (fun sc => (sc.name, sc)), input.map (fun sc => (sc.name, buildIndex sc.rows)))) :=
  ImpRemap.indexInput_eq input

example : (rmInput.foldlM (fun d sc => Gen.Imp.IndexedAssembly_add_scaffold d.1 d.2 sc) ([], [])).map (·.2)
    = .ok [(['s', '1'], [100, 110, 160]), (['s', '2'], [80])] := by rfl
example : (rmInput ++ rmInput).foldlM (fun d sc => Gen.Imp.IndexedAssembly_add_scaffold d.1 d.2 sc) ([], []) = .error .value := by rfl

/-- the function handed to `find_assembly_overlaps` IS the source's `IndexedAssembly.find_overlaps` on those dictionaries
    (`scaffold_by_name` = the dictionary lookup that raises ValueError, `_scaffold_index.get` = the lookup that yields the falsy value),
    for every fuel above the longest input scaffold (`C12.find_overlaps_is_source`) -/
theorem input_find_overlaps_is_source (input : List Scaffold) (fuel : Nat) (hfuel : ∀ sc ∈ input, sc.rows.length + 1 < fuel)
    (bait : Fragment) :
    Gen.Imp.IndexedAssembly_find_overlaps fuel bait
        (fun n => match dGet? (input.map (fun sc => (sc.name, sc))) n with | some sc => .ok sc | none => .error .value)
        (fun n => (dGet? (input.map (fun sc => (sc.name, buildIndex sc.rows))) n).getD [])
      = inputOverlaps input bait :=
  ImpRemap.overlapsOf_is_source input fuel hfuel bait

example : ∀ sc ∈ rmInput, sc.rows.length + 1 < 5 := by decide
example : Gen.Imp.IndexedAssembly_find_overlaps 5 rmP2
      (fun n => match dGet? (rmInput.map (fun sc => (sc.name, sc))) n with | some sc => .ok sc | none => .error .value)
      (fun n => (dGet? (rmInput.map (fun sc => (sc.name, buildIndex sc.rows))) n).getD [])
    = .ok (some { bait := rmP2, start := 1, stop := 100, rows := [.frag rmA], name := "matches".toList }) := by decide +kernel

/-- from a source state that stands for the `Build` `b` — same store, `absNamer s = b.namer`, well-formed namer, coherent
    dictionaries, `b.found` the values behind `found`, `b.multi` the keys of `multi` —, with `input_asm.find_overlaps` the lookup in
    `input` and the error length of `b`: the source's `find_assembly_overlaps` raises exactly what `findAssemblyOverlaps input ptx b`
    raises, or returns a state that stands for the `Build` it returns (the invariants hold again; nothing else of `b` changes) -/
theorem find_assembly_overlaps_refines (input ptx : List Scaffold) (b : Build) (s : PyRt.SrcNamer) (heap : List Found)
    (found multi : List (Key × Nat)) (hn : absNamer s = b.namer) (hw : WfNamer s) (hc : Coherent heap found multi)
    (hf : b.found = absFound heap found) (hm : b.multi = multi.map (·.1)) :
    match findAssemblyOverlaps input ptx b with
    | .error e =>
        Gen.Imp.BuildAssembly_find_assembly_overlaps b.store heap s found multi ptx b.err (inputOverlaps input) = .error e
    | .ok b' => ∃ heap' s' found' multi',
        Gen.Imp.BuildAssembly_find_assembly_overlaps b.store heap s found multi ptx b.err (inputOverlaps input)
          = .ok (b'.store, heap', s', found', multi') ∧
        WfNamer s' ∧ Coherent heap' found' multi' ∧
        b' = { b with store := b'.store, namer := absNamer s', found := absFound heap' found', multi := multi'.map (·.1) } := by
  have hb : b = ImpRemap.mkBuild b b.store s heap found multi := by
    cases b; simp only [ImpRemap.mkBuild] at *; simp [hn, hf, hm]
  have h := ImpRemap.find_tie input ptx b (inputOverlaps input) (fun _ => rfl) b.store s heap found multi b ⟨hw, hc, hb⟩
  cases hfa : findAssemblyOverlaps input ptx b with
  | error e => rw [hfa] at h; exact h
  | ok b' =>
    rw [hfa] at h
    obtain ⟨⟨st', heap', s', found', multi'⟩, ht, hw', hc', hb'⟩ := h
    dsimp only at hw' hc' hb'
    refine ⟨heap', s', found', multi', ?_, hw', hc', ?_⟩
    · rw [ht, hb']; rfl
    · rw [hb']; rfl

/-- the hypotheses are met by the initial state -/
example : absNamer { autosome_prefix := rmPrefix } = ({ autosomePrefix := rmPrefix } : Namer) ∧
    WfNamer { autosome_prefix := rmPrefix } ∧ Coherent [] [] [] := ⟨rfl, by unfold WfNamer; decide, coherent_empty⟩
/-- the source on the example, from the empty state: three results, the contig `a` held by two of them (the same object in both
    dictionaries); and the model, evaluated independently -/
example : Gen.Imp.BuildAssembly_find_assembly_overlaps [] [] { autosome_prefix := rmPrefix } [] [] rmPtx 3 (inputOverlaps rmInput)
    = .ok (rmStore1, rmHeap, rmNamer2, rmFound, rmMulti) := by decide +kernel
example : (findAssemblyOverlaps rmInput rmPtx
      { namer := { autosomePrefix := rmPrefix }, nextOid := 4, joinGap := some rmG200, err := 3 }).map
        (fun b => (b.store, b.namer, b.found, b.multi))
    = .ok (rmStore1, absNamer rmNamer2, absFound rmHeap rmFound, rmMulti.map (·.1)) := by decide +kernel
/-- an unknown scaffold name in the Pretext map: ValueError on both sides -/
example : Gen.Imp.BuildAssembly_find_assembly_overlaps [] [] { autosome_prefix := rmPrefix } [] []
      [{ name := "Scaffold_1".toList, rows := [.frag { rmP1 with name := ['s', '9'] }] }] 3 (inputOverlaps rmInput) = .error .value := by decide +kernel

/-! ### 3. `cut_remaining_overhangs` -/

/-- from a coherent state that stands for `b`: the source's `cut_remaining_overhangs` raises exactly what `cutRemaining b` raises, or
    returns the store, object-id counter and cut counter of the `Build` it returns, the arena untouched and `multi` EMPTY; nothing
    else of `b` changes (`cut_fragments` of every entry is `cutFragments`: `cut_fragments_is_source`) -/
theorem cut_remaining_refines (b : Build) (heap : List Found) (found multi : List (Key × Nat))
    (hc : Coherent heap found multi) (hf : b.found = absFound heap found) (hm : b.multi = multi.map (·.1)) :
    match cutRemaining b with
    | .error e => Gen.Imp.BuildAssembly_cut_remaining_overhangs b.store b.nextOid heap multi b.cuts = .error e
    | .ok b' =>
        Gen.Imp.BuildAssembly_cut_remaining_overhangs b.store b.nextOid heap multi b.cuts
          = .ok (b'.store, b'.nextOid, heap, [], b'.cuts) ∧
        b' = { b with store := b'.store, nextOid := b'.nextOid, cuts := b'.cuts, multi := [] } := by
  have h := ImpRemap.cut_tie b heap found multi hc hf hm
  cases hcr : cutRemaining b with
  | error e => rw [hcr] at h; exact h
  | ok b' =>
    rw [hcr] at h
    obtain ⟨t, ht, rfl, hb'⟩ := h
    exact ⟨ht, hb'⟩

example : Coherent rmHeap rmFound rmMulti := by unfold Coherent; decide
example : Gen.Imp.BuildAssembly_cut_remaining_overhangs rmStore1 4 rmHeap rmMulti 0 = .ok (rmStore2, 6, rmHeap, [], 1) := by rfl
def rmBuild1 : Build :=
  { namer := absNamer rmNamer2, store := rmStore1, found := absFound rmHeap rmFound, multi := [(['a'], 1, 100)], nextOid := 4,
    joinGap := some rmG200, err := 3 }
example : (cutRemaining rmBuild1).map (fun b => (b.store, b.nextOid, b.cuts, b.multi)) = .ok (rmStore2, 6, 1, []) := by rfl

/-! ### 4. `remap_to_input_assembly` -/

/-- the state `remapToInput` starts from -/
def remapStart (input : List Scaffold) (prefix_ : Str) (joinGap : Option Gap) (err : Int) : Build :=
  { namer := { autosomePrefix := prefix_ },
    nextOid := (input.flatMap Scaffold.fragments).foldl (fun m f => max m (f.oid + 1)) 0, joinGap := joinGap, err := err }

/-- the duplicate-name check `remapToInput` performs first (in the source: `IndexedAssembly.add_scaffold`, `index_input_is_source`) -/
def inputNamesDistinct (input : List Scaffold) : Prop :=
  ∃ seen : List Str, input.foldlM (fun (seen : List Str) (s : Scaffold) =>
      if seen.contains s.name then (throw Err.value : R (List Str)) else pure (seen ++ [s.name])) [] = .ok seen

/-- … when it fails, `remapToInput` raises ValueError (and the source never gets an `IndexedAssembly` to call phase 1 with) -/
theorem remap_to_input_duplicate_name (input ptx : List Scaffold) (prefix_ : Str) (joinGap : Option Gap) (err : Int)
    (h : ¬ inputNamesDistinct input) : remapToInput input ptx prefix_ joinGap err = .error .value := by
  rw [ImpRemap.remapToInput_eq]
  have hstep : ∀ (rest : List Scaffold) (seen : List Str) (e : Err), rest.foldlM ImpRemap.dupStep seen = .error e → e = .value := by
    intro rest
    induction rest with
    | nil => intro seen e h; cases h
    | cons a rest ih =>
      intro seen e h
      rw [List.foldlM_cons] at h
      unfold ImpRemap.dupStep at h ih
      by_cases hc : seen.contains a.name = true
      · simp only [hc, if_true] at h; cases h; rfl
      · simp only [hc, if_false, Bool.false_eq_true] at h; exact ih _ e h
  cases hd : ImpRemap.dupCheck input with
  | ok seen => exact absurd ⟨seen, hd⟩ h
  | error e => rw [hstep input [] e hd]; rfl

/-- the fuel handed to `discard_overhanging_fragments` is `totalRows b₁.store + 2`, the fuel the MODEL uses, where `b₁` is the state
    after `findAssemblyOverlaps` — or ANY LARGER fuel, provided the model's loop did not run out of its own
    (`ImpRemap.discardOverhanging_mono`: `discardOverhanging` is insensitive to extra fuel unless its result is the out-of-fuel error;
    `C02.discardOverhanging_ok` of Properties/C02NoError.lean shows it does not run out for a well-formed input) -/
def RemapFuel (input ptx : List Scaffold) (prefix_ : Str) (joinGap : Option Gap) (err : Int) (fuel : Nat) : Prop :=
  ∀ b₁, findAssemblyOverlaps input ptx (remapStart input prefix_ joinGap err) = .ok b₁ →
    fuel = totalRows b₁.store + 2 ∨
    (totalRows b₁.store + 2 ≤ fuel ∧ discardOverhanging (totalRows b₁.store + 2) b₁ ≠ .error .other)

/-- for a well-formed input the model's loop does not run out of fuel (`C02.discard_overhanging_never_raises`), so EVERY fuel from
    the model's upwards will do -/
theorem remap_fuel_of_wf (input ptx : List Scaffold) (prefix_ : Str) (joinGap : Option Gap) (err : Int) (fuel : Nat)
    (hwf : WFInput input)
    (hge : ∀ b₁, findAssemblyOverlaps input ptx (remapStart input prefix_ joinGap err) = .ok b₁ → totalRows b₁.store + 2 ≤ fuel) :
    RemapFuel input ptx prefix_ joinGap err fuel := by
  intro b₁ h
  refine .inr ⟨hge b₁ h, ?_⟩
  obtain ⟨hm, -⟩ := reg_after_find input ptx _ b₁ ⟨rfl, rfl, rfl⟩ h
  obtain ⟨b', hb'⟩ := C02.discard_overhanging_never_raises hwf (totalRows b₁.store + 2) b₁ hm (by omega)
  rw [hb']
  intro hc; cases hc

/-- THE CAPSTONE.  For every input (with distinct scaffold names), Pretext assembly, prefix, default gap `g` and error length, and the
    model's fuel (or more, `RemapFuel`): started from the state of `BuildAssembly.__init__` — the namer of `ScaffoldNamer.__init__`,
    empty store / arena / dictionaries, the object-id counter where `remapToInput` puts it, no cuts —, the source's
    `remap_to_input_assembly` raises exactly the exception `remapToInput` raises, or returns
    `(store, nextOid, heap_lo, added_lo, heap_ff, s, found, multi, cuts)` where `remapToInput` returns the `Build` with that store,
    counter and cut count, the namer `absNamer s`, `found` the values behind the references, `extra` the left-over objects
    (`loModel`, which loses nothing: `loSrc (loModel x) = x`) — every one of them added, in order —, `multi` empty on both sides,
    `joinGap` and `err` as given -/
theorem remap_to_input_refines (input ptx : List Scaffold) (prefix_ : Str) (g : Gap) (err : Int) (fuel : Nat)
    (hdup : inputNamesDistinct input) (hfuel : RemapFuel input ptx prefix_ (some g) err fuel) :
    match remapToInput input ptx prefix_ (some g) err with
    | .error e =>
        Gen.Imp.BuildAssembly_remap_to_input_assembly fuel [] (remapStart input prefix_ (some g) err).nextOid [] { autosome_prefix := prefix_ }
          [] [] 0 ptx input err g (inputOverlaps input) = .error e
    | .ok b => ∃ heap_lo heap_ff s found,
        Gen.Imp.BuildAssembly_remap_to_input_assembly fuel [] (remapStart input prefix_ (some g) err).nextOid [] { autosome_prefix := prefix_ }
          [] [] 0 ptx input err g (inputOverlaps input)
          = .ok (b.store, b.nextOid, heap_lo, List.range heap_lo.length, heap_ff, s, found, [], b.cuts) ∧
        WfNamer s ∧ Coherent heap_ff found [] ∧ (∀ x ∈ heap_lo, loSrc (loModel x) = x) ∧
        b = { namer := absNamer s, store := b.store, found := absFound heap_ff found, multi := [], extra := heap_lo.map loModel,
              cuts := b.cuts, nextOid := b.nextOid, joinGap := some g, err := err } := by
  obtain ⟨seen, hseen⟩ := hdup
  have h := ImpRemap.phase1_tie input ptx (remapStart input prefix_ (some g) err) g rfl (inputOverlaps input) (fun _ => rfl)
    { autosome_prefix := prefix_ } [] [] [] ⟨⟨Int.le_refl 0, Int.le_refl 0⟩, coherent_empty, rfl⟩ fuel hfuel
  rw [ImpRemap.remapToInput_eq, show ImpRemap.initBuild input prefix_ (some g) err = remapStart input prefix_ (some g) err from rfl]
  have hseen' : ImpRemap.dupCheck input = .ok seen := hseen
  rw [hseen']
  simp only [ImpRemap.ok_bind]
  change ImpFound.Ref _ _ (ImpRemap.phase1 input ptx (remapStart input prefix_ (some g) err)) at h
  cases hp : ImpRemap.phase1 input ptx (remapStart input prefix_ (some g) err) with
  | error e => rw [hp] at h; exact h
  | ok b =>
    rw [hp] at h
    obtain ⟨t, ht, heap_lo, heap_ff, s, found, rfl, hw, hc, hl, hb⟩ := h
    exact ⟨heap_lo, heap_ff, s, found, ht, hw, hc, hl, by rw [hb]; simp [remapStart]⟩

/-- read from the source's side: whenever the source returns, the model returns the `Build` the result stands for -/
theorem remap_to_input_source_ok (input ptx : List Scaffold) (prefix_ : Str) (g : Gap) (err : Int) (fuel : Nat)
    (hdup : inputNamesDistinct input) (hfuel : RemapFuel input ptx prefix_ (some g) err fuel)
    (store : List Res) (nextOid : Nat) (heap_lo : List PyRt.Leftover) (added_lo : List Nat) (heap_ff : List Found) (s : PyRt.SrcNamer)
    (found multi : List (Key × Nat)) (cuts : Int)
    (h : Gen.Imp.BuildAssembly_remap_to_input_assembly fuel [] (remapStart input prefix_ (some g) err).nextOid [] { autosome_prefix := prefix_ }
          [] [] 0 ptx input err g (inputOverlaps input)
        = .ok (store, nextOid, heap_lo, added_lo, heap_ff, s, found, multi, cuts)) :
    added_lo = List.range heap_lo.length ∧ multi = [] ∧
    remapToInput input ptx prefix_ (some g) err
      = .ok { namer := absNamer s, store := store, found := absFound heap_ff found, multi := [], extra := heap_lo.map loModel,
              cuts := cuts, nextOid := nextOid, joinGap := some g, err := err } := by
  have hr := remap_to_input_refines input ptx prefix_ g err fuel hdup hfuel
  cases hm : remapToInput input ptx prefix_ (some g) err with
  | error e => rw [hm] at hr; simp only [] at hr; rw [hr] at h; cases h
  | ok b =>
    rw [hm] at hr
    obtain ⟨heap_lo', heap_ff', s', found', hsrc, -, -, -, hb⟩ := hr
    rw [hsrc] at h
    simp only [Except.ok.injEq, Prod.mk.injEq] at h
    obtain ⟨rfl, rfl, rfl, rfl, rfl, rfl, rfl, rfl, rfl⟩ := h
    exact ⟨rfl, rfl, by rw [hb]⟩

/-- the hypotheses are met by the example: distinct names; `findAssemblyOverlaps` leaves 3 rows in the store, so the fuel is 5 -/
example : inputNamesDistinct rmInput := ⟨[['s', '1'], ['s', '2']], by rfl⟩
example : RemapFuel rmInput rmPtx rmPrefix (some rmG200) 3 5 := by
  intro b₁ h
  have : (findAssemblyOverlaps rmInput rmPtx (remapStart rmInput rmPrefix (some rmG200) 3)).map (fun b => totalRows b.store + 2)
      = .ok 5 := by decide +kernel
  rw [h] at this
  simp only [Except.map, Except.ok.injEq] at this
  exact .inl this.symm

/-- … and, the input being well-formed, any larger fuel: 50 -/
example : RemapFuel rmInput rmPtx rmPrefix (some rmG200) 3 50 := by
  refine remap_fuel_of_wf _ _ _ _ _ _ (by decide) ?_
  intro b₁ h
  have : (findAssemblyOverlaps rmInput rmPtx (remapStart rmInput rmPrefix (some rmG200) 3)).map (fun b => totalRows b.store + 2)
      = .ok 5 := by decide +kernel
  rw [h] at this
  simp only [Except.map, Except.ok.injEq] at this
  omega
example : (Gen.Imp.BuildAssembly_remap_to_input_assembly 50 [] 4 [] { autosome_prefix := rmPrefix } [] [] 0 rmPtx rmInput 3 rmG200
      (inputOverlaps rmInput)).map (fun t => (t.1, t.2.1)) = .ok (rmStore2, 6) := by decide +kernel

/-- THE END-TO-END EXAMPLE, source side: the contig `a` is cut at 60 | 61 into two new objects (ids 4 and 5, tag "Cut", one cut
    counted, object-id counter at 6); the contig `b` is left over: one object, named after its input scaffold `s1`, rank 3, added, with
    its `input_predecessor` (`a` and the gap behind it); the namer last named that left-over scaffold -/
example : Gen.Imp.BuildAssembly_remap_to_input_assembly 5 [] (remapStart rmInput rmPrefix (some rmG200) 3).nextOid []
      { autosome_prefix := rmPrefix } [] [] 0 rmPtx rmInput 3 rmG200 (inputOverlaps rmInput)
    = .ok (rmStore2, 6,
        [({ name := ['s', '1'], rows := [.frag rmB], rank := 3 }, some (.frag rmA, [.gap rmG10]))], [0],
        rmHeap, { rmNamer2 with current_scaffold_name := some ['b'], current_rank := some 3 }, rmFound, [], 1) := by decide +kernel
/-- … and the model on the same input, evaluated independently: the `Build` that result stands for -/
example : remapToInput rmInput rmPtx rmPrefix (some rmG200) 3
    = .ok { namer := absNamer { rmNamer2 with current_scaffold_name := some ['b'], current_rank := some 3 }, store := rmStore2,
            found := absFound rmHeap rmFound, multi := [],
            extra := [({ name := ['s', '1'], rows := [.frag rmB], rank := 3 }, some (rmA, [rmG10]))],
            cuts := 1, nextOid := 6, joinGap := some rmG200, err := 3 } := by
  have h : (remapToInput rmInput rmPtx rmPrefix (some rmG200) 3).map
        (fun b => (b.namer, b.store, b.found, b.multi, b.extra, b.cuts, b.nextOid, b.joinGap, b.err))
      = .ok (absNamer { rmNamer2 with current_scaffold_name := some ['b'], current_rank := some 3 }, rmStore2,
             absFound rmHeap rmFound, [], [({ name := ['s', '1'], rows := [.frag rmB], rank := 3 }, some (rmA, [rmG10]))],
             1, 6, some rmG200, 3) := by decide +kernel
  cases hr : remapToInput rmInput rmPtx rmPrefix (some rmG200) 3 with
  | error e => rw [hr] at h; cases h
  | ok b =>
    rw [hr] at h
    simp only [Except.map, Except.ok.injEq, Prod.mk.injEq] at h
    obtain ⟨h1, h2, h3, h4, h5, h6, h7, h8, h9⟩ := h
    cases b
    simp only at h1 h2 h3 h4 h5 h6 h7 h8 h9
    subst h1 h2 h3 h4 h5 h6 h7 h8 h9
    rfl
/-- a Pretext fragment on a scaffold the input does not have: ValueError on both sides -/
example : Gen.Imp.BuildAssembly_remap_to_input_assembly 5 [] 4 [] { autosome_prefix := rmPrefix } [] [] 0
      [{ name := "Scaffold_1".toList, rows := [.frag { rmP1 with name := ['s', '9'] }] }] rmInput 3 rmG200 (inputOverlaps rmInput)
    = .error .value := by decide +kernel
example : (remapToInput rmInput [{ name := "Scaffold_1".toList, rows := [.frag { rmP1 with name := ['s', '9'] }] }] rmPrefix
      (some rmG200) 3).map (fun b => b.cuts) = .error .value := by decide +kernel

/-! ### the point of it all: `remap_partitions` for the state the SOURCE's phase 1 produces -/

/-- L4 (`C01.remap_partitions`) about the SOURCE: for a well-formed input, whenever the source's `remap_to_input_assembly` (phase 1, as
    translated) returns, and the model's phase 2 (`assembliesFused`) on the `Build` that result stands for returns the output assemblies
    `outs`: every base of every input contig lies in as many output fragments as input fragments (exactly one / none), and every output
    fragment is a non-empty sub-interval of an input fragment of the same contig -/
theorem source_remap_partitions (input ptx : List Scaffold) (prefix_ : Str) (g : Gap) (err : Int) (fuel : Nat)
    (hwf : WFInput input) (hdup : inputNamesDistinct input) (hfuel : RemapFuel input ptx prefix_ (some g) err fuel)
    (store : List Res) (nextOid : Nat) (heap_lo : List PyRt.Leftover) (added_lo : List Nat) (heap_ff : List Found) (s : PyRt.SrcNamer)
    (found multi : List (Key × Nat)) (cuts : Int)
    (h : Gen.Imp.BuildAssembly_remap_to_input_assembly fuel [] (remapStart input prefix_ (some g) err).nextOid [] { autosome_prefix := prefix_ }
          [] [] 0 ptx input err g (inputOverlaps input)
        = .ok (store, nextOid, heap_lo, added_lo, heap_ff, s, found, multi, cuts))
    (outs : List OutAsm) (stats : Stats)
    (h2 : assembliesFused input
        { namer := absNamer s, store := store, found := absFound heap_ff found, multi := [], extra := heap_lo.map loModel,
          cuts := cuts, nextOid := nextOid, joinGap := some g, err := err } = .ok (outs, stats)) :
    (∀ n x, (outputTriples outs).countP (coversK n x) = ((inputFrags input).map Fragment.keyTuple).countP (coversK n x)) ∧
    (∀ t ∈ outputTriples outs, t.2.1 ≤ t.2.2 ∧
      ∃ F ∈ inputFrags input, F.name = t.1 ∧ F.start ≤ t.2.1 ∧ t.2.2 ≤ F.stop) := by
  obtain ⟨-, -, hm⟩ := remap_to_input_source_ok input ptx prefix_ g err fuel hdup hfuel store nextOid heap_lo added_lo heap_ff s
    found multi cuts h
  refine remap_partitions input ptx prefix_ (some g) err outs stats hwf ?_
  unfold remap
  rw [hm]
  exact h2

end AgpTpf.C01
