/-
  C11, first clause, END TO END — "cuts = number of contig pieces in all output assemblies − number of input contigs":
  every contig that is cut into k pieces adds k − 1.

  PROVED, all at full strength (no `_partial` theorem in this file), for a well-formed input (`C01.WFInput`, exactly the
  hypothesis of `C01.remap_partitions`) and ANY Pretext assembly, prefix, join gap and texel size, whenever `remap` completes:

    `remap_cuts_count`        stats.cuts = #fragments over all scaffolds of all output assemblies − #fragments of the input
                              (an equation in `Int`: no truncated subtraction);
    `remap_cuts_nonneg`       0 ≤ stats.cuts, hence
    `remap_pieces_count`      #output fragments = #input fragments + stats.cuts.toNat   (the same equation in `Nat`);
    `remap_cuts_per_contig`   every input contig fragment `F` comes out as `piecesOf outs F ≥ 1` pieces (output fragments that
                              are sub-intervals of `F` on the same contig), every output fragment is a piece of exactly one
                              input fragment, and stats.cuts = Σ_F (piecesOf outs F − 1).

  How: `Proofs/C11ECount.lean`.  The registry invariant `Mid` of C01 holds when cutting starts; there
  Σ_{k ∈ multi} (holders k − 1) = #store rows + #unregistered input fragments − #input fragments (`mid_count`, a double
  count over the duplicate-free key list of the input); cutting adds exactly that sum to the counter
  (`C11.cut_remaining_counter`) and replaces rows one for one (`cutKeys_length`); the left-over scaffolds hold exactly the
  unregistered input fragments (`C01.addMissing_spec`); fusing/splitting/naming/sorting permute the triples
  (`C01.outputs_hold_store_and_leftovers`); `make_stats` passes the counter through.

  FINDING (why `WFInput` is needed, same root cause as in `Properties/C01.lean`): `remap_cuts_count_needs_wf` — an input that
  lists one contig interval twice completes without error with cuts = 0 but 1 output fragment for 2 input fragments
  (0 ≠ 1 − 2).  No statement was found false under `WFInput`.
-/
import AgpTpf.Properties.C01
import AgpTpf.Properties.C11
import AgpTpf.Proofs.C11ECount
namespace AgpTpf.C11
open AgpTpf

/-! ## the equation -/

/-- END TO END: for a well-formed input and any Pretext assembly, whenever `remap` completes, the cut counter reported in
    the statistics equals the number of contig fragments over all scaffolds of all output assemblies minus the number
    of contig fragments of the input. -/
theorem remap_cuts_count (input ptx : List Scaffold) (prefix_ : Str) (joinGap : Option Gap) (err : Int)
    (hwf : C01.WFInput input) (outs : List OutAsm) (stats : Stats)
    (h : remap input ptx prefix_ joinGap err = .ok (outs, stats)) :
    stats.cuts = (((outs.flatMap (·.scaffolds)).flatMap Scaffold.fragments).length : Int) -
      ((input.flatMap Scaffold.fragments).length : Int) := by
  obtain ⟨b, hb, hperm⟩ := C01.outputs_hold_store_and_leftovers input ptx prefix_ joinGap err outs stats h
  obtain ⟨b', hb', hfused⟩ := remap_split input ptx prefix_ joinGap err outs stats h
  rw [hb] at hb'
  cases hb'
  rw [remap_stats_cuts input b outs stats hfused, (remapToInput_cuts input ptx prefix_ joinGap err b hwf hb).1,
    ← length_flatMap_keysOf, hperm.length_eq, List.length_append, C01.storeKeys_eq, C01.extraKeys_eq,
    List.length_map, List.length_map]
  simp only [C01.inputFrags]
  omega

/-- the counter is never negative … -/
theorem remap_cuts_nonneg (input ptx : List Scaffold) (prefix_ : Str) (joinGap : Option Gap) (err : Int)
    (hwf : C01.WFInput input) (outs : List OutAsm) (stats : Stats)
    (h : remap input ptx prefix_ joinGap err = .ok (outs, stats)) : 0 ≤ stats.cuts := by
  obtain ⟨b, hb, hfused⟩ := remap_split input ptx prefix_ joinGap err outs stats h
  rw [remap_stats_cuts input b outs stats hfused]
  exact (remapToInput_cuts input ptx prefix_ joinGap err b hwf hb).2

/-- … so the same equation holds in `Nat`: remapping never loses a fragment, and makes exactly `cuts` more. -/
theorem remap_pieces_count (input ptx : List Scaffold) (prefix_ : Str) (joinGap : Option Gap) (err : Int)
    (hwf : C01.WFInput input) (outs : List OutAsm) (stats : Stats)
    (h : remap input ptx prefix_ joinGap err = .ok (outs, stats)) :
    ((outs.flatMap (·.scaffolds)).flatMap Scaffold.fragments).length =
      (input.flatMap Scaffold.fragments).length + stats.cuts.toNat := by
  have h1 := remap_cuts_count input ptx prefix_ joinGap err hwf outs stats h
  have h2 := remap_cuts_nonneg input ptx prefix_ joinGap err hwf outs stats h
  omega

/-! ## per contig: k pieces add k − 1 -/

/-- the output triple `t` is a piece of the input fragment `F`: same contig name, interval inside `F`'s -/
def isPiece (F : Fragment) (t : Key) : Bool := decide (t.1 = F.name ∧ F.start ≤ t.2.1 ∧ t.2.2 ≤ F.stop)

/-- number of output fragments (over all output assemblies) that are pieces of `F` -/
def piecesOf (outs : List OutAsm) (F : Fragment) : Nat := (C01.outputTriples outs).countP (isPiece F)

/-- Per contig: every input contig fragment comes out as at least one piece; every output fragment is a piece of exactly
    one input fragment (so the pieces of different contigs are disjoint collections and together are all output
    fragments); and the counter is the sum over the input contigs of (pieces − 1). -/
theorem remap_cuts_per_contig (input ptx : List Scaffold) (prefix_ : Str) (joinGap : Option Gap) (err : Int)
    (hwf : C01.WFInput input) (outs : List OutAsm) (stats : Stats)
    (h : remap input ptx prefix_ joinGap err = .ok (outs, stats)) :
    (∀ F ∈ C01.inputFrags input, 1 ≤ piecesOf outs F) ∧
    (∀ t ∈ C01.outputTriples outs, (C01.inputFrags input).countP (fun F => isPiece F t) = 1) ∧
    (((C01.outputTriples outs).length : Int) = sumInts ((C01.inputFrags input).map (fun F => (piecesOf outs F : Int)))) ∧
    stats.cuts = sumInts ((C01.inputFrags input).map (fun F => (piecesOf outs F : Int) - 1)) := by
  obtain ⟨hcount, hsub⟩ := C01.remap_partitions input ptx prefix_ joinGap err outs stats hwf h
  -- an output triple is a piece of exactly one input fragment
  have huniq : ∀ t ∈ C01.outputTriples outs, (C01.inputFrags input).countP (fun F => isPiece F t) = 1 := by
    intro t ht
    obtain ⟨hle, F0, hF0, hn0, hs0, he0⟩ := hsub t ht
    have hc0 : C01.covers t.1 t.2.1 F0 = true := by
      simp only [C01.covers, decide_eq_true_eq]; exact ⟨hn0, hs0, by omega⟩
    rw [← hwf.cover_count hF0 hc0]
    apply List.countP_congr
    intro F hF
    constructor
    · intro hp
      simp only [isPiece, decide_eq_true_eq] at hp
      simp only [C01.covers, decide_eq_true_eq]
      exact ⟨hp.1.symm, hp.2.1, by omega⟩
    · intro hc
      have := hwf.cover_unique hF hF0 hc hc0
      subst this
      simp only [isPiece, decide_eq_true_eq]
      exact ⟨hn0.symm, hs0, he0⟩
  have hsum : ((C01.outputTriples outs).length : Int) =
      sumInts ((C01.inputFrags input).map (fun F => (piecesOf outs F : Int))) := by
    refine length_eq_sum_countP (fun F t => isPiece F t) (C01.inputFrags input) (C01.outputTriples outs) ?_
    intro t ht
    rw [← countP_eq_sumInts, huniq t ht]; rfl
  refine ⟨?_, huniq, hsum, ?_⟩
  · intro F hF
    have hx := C01.remap_exactly_once input ptx prefix_ joinGap err outs stats hwf h F hF F.start
      (Int.le_refl _) (hwf.2.2.2.2 F hF)
    have hpos : 0 < (C01.outputTriples outs).countP (C01.coversK F.name F.start) := by omega
    obtain ⟨t, ht, hct⟩ := List.countP_pos_iff.mp hpos
    simp only [C01.coversK, decide_eq_true_eq] at hct
    obtain ⟨hle, F0, hF0, hn0, hs0, he0⟩ := hsub t ht
    have hcF : C01.covers F.name F.start F = true := by
      have := hwf.2.2.2.2 F hF
      simp [C01.covers, this]
    have hcF0 : C01.covers F.name F.start F0 = true := by
      simp only [C01.covers, decide_eq_true_eq]; exact ⟨hn0.trans hct.1, by omega, by omega⟩
    have := hwf.cover_unique hF0 hF hcF0 hcF
    subst this
    unfold piecesOf
    apply List.countP_pos_iff.mpr
    exact ⟨t, ht, by simp only [isPiece, decide_eq_true_eq]; exact ⟨hn0.symm, hs0, he0⟩⟩
  · have hmain := remap_cuts_count input ptx prefix_ joinGap err hwf outs stats h
    have hlen : (C01.outputTriples outs).length = ((outs.flatMap (·.scaffolds)).flatMap Scaffold.fragments).length :=
      length_flatMap_keysOf _
    have hlin := sumInts_map_lin3 (fun F => (piecesOf outs F : Int)) (fun _ => 0) (fun _ => 1) (C01.inputFrags input)
    rw [sumInts_map_zero, sumInts_map_one] at hlin
    have hfun : (fun F => (piecesOf outs F : Int) - 1) = (fun F => (piecesOf outs F : Int) + 0 - 1) := by
      funext F; omega
    rw [hfun, hlin, ← hsum, hmain, hlen]
    simp only [C01.inputFrags]
    omega

/-! ## non-vacuity: one contig cut in two, one (reverse strand) cut in three — cuts = 3

  Input scaffold `A` = c1:1-100(+), c2:1-100(−) (scaffold positions 1-100, 101-200), scaffold `B` = d1:1-50.
  Pretext pieces A:1-40, A:41-130, A:131-160, A:161-200 (texel size 5): `c1` is held by the first two pieces and is cut in
  two (1-40 | 41-100); `c2` is held by the last three and is cut in three (71-100 | 41-70 | 1-40: reverse strand);
  `d1` is left over.  6 output fragments − 3 input fragments = 3 cuts. -/

private def jg : Gap := { length := 200, gapType := "scaffold".toList }
private def ec1 : Fragment := { oid := 1, name := "c1".toList, start := 1, stop := 100, strand := 1 }
private def ec2 : Fragment := { oid := 2, name := "c2".toList, start := 1, stop := 100, strand := -1 }
private def ed1 : Fragment := { oid := 3, name := "d1".toList, start := 1, stop := 50, strand := 1 }
private def eIn : List Scaffold :=
  [{ name := ['A'], rows := [.frag ec1, .frag ec2] }, { name := ['B'], rows := [.frag ed1] }]
private def epf (oid : Nat) (s e : Int) : Row :=
  .frag { oid := oid, name := ['A'], start := s, stop := e, strand := 1, tags := [sPainted] }
private def ePtx : List Scaffold :=
  [{ name := "S1".toList, rows := [epf 10 1 40] }, { name := "S2".toList, rows := [epf 11 41 130] },
   { name := "S3".toList, rows := [epf 12 131 160] }, { name := "S4".toList, rows := [epf 13 161 200] }]

example : C01.WFInput eIn := by decide

/-- `remap` completes; the counter, the output triples -/
private theorem eRemap_values :
    (remap eIn ePtx [] (some jg) 5).toOption.map (fun r => (r.2.cuts, C01.outputTriples r.1)) =
      some (3, [("c1".toList, 41, 100), ("c2".toList, 71, 100), ("c1".toList, 1, 40), ("c2".toList, 1, 40),
                ("c2".toList, 41, 70), ("d1".toList, 1, 50)]) := by
  decide +kernel

/-- the instance of the theorems on this input: cuts = 3 = 6 − 3; `c1` comes out in 2 pieces, `c2` in 3, `d1` in 1 -/
example : ∃ outs stats, remap eIn ePtx [] (some jg) 5 = .ok (outs, stats) ∧
    stats.cuts = 3 ∧
    ((outs.flatMap (·.scaffolds)).flatMap Scaffold.fragments).length = 6 ∧ (eIn.flatMap Scaffold.fragments).length = 3 ∧
    stats.cuts = (((outs.flatMap (·.scaffolds)).flatMap Scaffold.fragments).length : Int) -
      ((eIn.flatMap Scaffold.fragments).length : Int) ∧
    piecesOf outs ec1 = 2 ∧ piecesOf outs ec2 = 3 ∧ piecesOf outs ed1 = 1 := by
  have hv := eRemap_values
  cases hr : remap eIn ePtx [] (some jg) 5 with
  | error e => rw [hr] at hv; simp [Except.toOption] at hv
  | ok r =>
    obtain ⟨outs, stats⟩ := r
    rw [hr] at hv
    simp only [Except.toOption, Option.map_some, Option.some.injEq, Prod.mk.injEq] at hv
    obtain ⟨hc, ht⟩ := hv
    have hlen : ((outs.flatMap (·.scaffolds)).flatMap Scaffold.fragments).length = 6 := by
      rw [← length_flatMap_keysOf]
      have : (C01.outputTriples outs).length = 6 := by rw [ht]; rfl
      exact this
    refine ⟨outs, stats, rfl, hc, hlen, by decide,
      remap_cuts_count eIn ePtx [] (some jg) 5 (by decide) outs stats hr, ?_, ?_, ?_⟩
    · unfold piecesOf; rw [ht]; decide
    · unfold piecesOf; rw [ht]; decide
    · unfold piecesOf; rw [ht]; decide

/-! ## FINDING: without `WFInput` the equation fails (silently)

  The registry of found contigs is keyed by `(name, start, end)`.  If the input lists the same contig interval twice
  (scaffolds `A` and `B` both consist of c:1-10, two different Fragment objects) and the Pretext assembly places only `A`,
  the copy in `B` counts as "found" and is neither placed nor left over.  `remap` completes without error, reports
  cuts = 0, and the outputs hold ONE fragment for TWO input fragments: 0 ≠ 1 − 2.  The input violates `WFInput`
  (duplicate key / overlapping fragments); no check in the code rejects it. -/

private def yIn : List Scaffold :=
  [{ name := ['A'], rows := [.frag { oid := 1, name := ['c'], start := 1, stop := 10, strand := 1 }] },
   { name := ['B'], rows := [.frag { oid := 2, name := ['c'], start := 1, stop := 10, strand := 1 }] }]
private def yPtx : List Scaffold := [{ name := "S1".toList, rows := [epf 10 1 10] }]

theorem remap_cuts_count_needs_wf :
    ¬ C01.WFInput yIn ∧
    (remap yIn yPtx [] (some jg) 5).toOption.map
        (fun r => (r.2.cuts, ((r.1.flatMap (·.scaffolds)).flatMap Scaffold.fragments).length)) = some (0, 1) ∧
    (yIn.flatMap Scaffold.fragments).length = 2 := by
  refine ⟨by decide, by decide +kernel, by decide⟩

end AgpTpf.C11
