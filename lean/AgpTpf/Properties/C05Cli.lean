/-
  C05 through the command: `asm-format` (Model/AsmFormat.lean: `asmFormat`, `asmFormatText`, `processFh`) round trips.

  A run is `asmFormat o files stdin` (`o` = the options, `files` = (name, lines) of the input files, `stdin` = the lines
  of STDIN, read only when there is no file); its result holds the text written to the output handle and the
  exception the run ended with.  The format decisions are hypotheses on the options and names:
      `inFmtOf o.inputFormat (some fileName) = .ok .AGP`   — `--input-format AGP`, or no option and any extension
                                                              other than `.tpf…` / `.fa…`
      `outFmtOf o.format o.outputFile = .ok .TPF`           — `--format TPF`, or no `--format` and `-o x.tpf…`
      `o.outputFile ≠ some fileName`                         — the output file is not the input file.  NEEDED: the
                                                              output is truncated before the input is read
                                                              (`in_place_run_loses_everything` below).
  Helper lemmas: Proofs/AsmFormat{Parse,Run,Cli}.lean; WF predicates: see Properties/C05.lean.
-/
import AgpTpf.Properties.C05
import AgpTpf.Proofs.AsmFormatCli
namespace AgpTpf.C05
open AgpTpf AgpTpf.C06 AgpTpf.AsmFormat

/-! ## AGP → AGP is the identity on written AGP -/

/-- `asm-format` AGP→AGP on what `format_agp` wrote for `a` writes exactly that, byte for byte, and raises nothing
    (whatever the other options: `--name`, `--qc-overlaps`). -/
theorem asm_format_agp_identity (a : Assembly) (h : WFAgp a) (o : AsmFormatOpts) (fileName : Str) (stdin : List Str)
    (hin : inFmtOf o.inputFormat (some fileName) = .ok .AGP)
    (hout : outFmtOf o.format o.outputFile = .ok .AGP)
    (hio : o.outputFile ≠ some fileName) :
    ∃ lines, formatAgp a = .ok lines ∧
      (asmFormat o [(fileName, lines)] stdin).written = lines.flatten ∧
      (asmFormat o [(fileName, lines)] stdin).error = none := by
  obtain ⟨lines, a', h1, h2, h3⟩ := agp_format_parse_format a h
  refine ⟨lines, h1, ?_⟩
  have hp : processFile o (outFmtSel o.format o.outputFile) (fileName, lines) =
      .ok (lines.flatten, if o.qcOverlaps then findOverlappingFragments { a' with name := fileAsmName o (fileName, lines) } else []) := by
    unfold processFile
    rw [processFh_ok_iff]
    refine ⟨_, ?_, rfl, ?_⟩
    · rw [fileLinesRead_of_ne o _ hio]
      show parseFh (inFmtSel o.inputFormat (some fileName)) _ lines = _
      rw [inFmtOf_ok hin]; exact parseFh_agp _ _ _ h2
    · rw [outFmtOf_ok hout]
      simp only [writeFh, formatAgp_name, h3]; rfl
  obtain ⟨e1, e2, _⟩ := asmFormat_single o (fileName, lines) stdin _ _ hp
  exact ⟨e1, e2⟩

/-- the same through STDIN (`asm-format < x.agp`, input format AGP by default or by option) -/
theorem asm_format_agp_identity_stdin (a : Assembly) (h : WFAgp a) (o : AsmFormatOpts)
    (hin : o.inputFormat = none ∨ o.inputFormat = some .AGP)
    (hout : outFmtOf o.format o.outputFile = .ok .AGP) :
    ∃ lines, formatAgp a = .ok lines ∧
      (asmFormat o [] lines).written = lines.flatten ∧ (asmFormat o [] lines).error = none := by
  obtain ⟨lines, a', h1, h2, h3⟩ := agp_format_parse_format a h
  refine ⟨lines, h1, ?_⟩
  have hf : stdinInFmt o = .AGP := by unfold stdinInFmt; rcases hin with e | e <;> rw [e]
  have hp : processFh (stdinInFmt o) (stdinAsmName o) lines (outFmtSel o.format o.outputFile) o.qcOverlaps =
      .ok (lines.flatten, if o.qcOverlaps then findOverlappingFragments { a' with name := stdinAsmName o } else []) := by
    rw [processFh_ok_iff]
    refine ⟨_, by rw [hf]; exact parseFh_agp _ _ _ h2, rfl, ?_⟩
    rw [outFmtOf_ok hout]
    simp only [writeFh, formatAgp_name, h3]; rfl
  obtain ⟨e1, e2, _⟩ := asmFormat_stdin_ok o lines _ _ hp
  exact ⟨e1, e2⟩

/-- …and on the file CONTENT (the text `format_agp` wrote), provided no name, tag or gap type holds a newline and the
    text holds no carriage return (input files are read with universal newlines). -/
theorem asm_format_agp_identity_text (a : Assembly) (h : WFAgp a) (hnl : NoNewlines a) (o : AsmFormatOpts)
    (fileName : Str) (stdin : Str)
    (hin : inFmtOf o.inputFormat (some fileName) = .ok .AGP)
    (hout : outFmtOf o.format o.outputFile = .ok .AGP)
    (hio : o.outputFile ≠ some fileName) :
    ∃ lines, formatAgp a = .ok lines ∧ ('\r' ∉ lines.flatten →
      (asmFormatText o [(fileName, lines.flatten)] stdin).written = lines.flatten ∧
      (asmFormatText o [(fileName, lines.flatten)] stdin).error = none) := by
  obtain ⟨lines, h1, h2⟩ := asm_format_agp_identity a h o fileName (stdinLines stdin) hin hout hio
  obtain ⟨lines', h1', hpy, _⟩ := agp_roundtrip_text' a h hnl
  rw [h1] at h1'; cases h1'
  refine ⟨lines, h1, fun hcr => ?_⟩
  unfold asmFormatText
  simp only [List.map_cons, List.map_nil, fileLines_of_noCR _ hcr, hpy]
  exact h2

/-! ## TPF → TPF is the identity on written TPF -/

theorem asm_format_tpf_identity (a : Assembly) (h : WFTpf a) (o : AsmFormatOpts) (fileName : Str) (stdin : List Str)
    (hin : inFmtOf o.inputFormat (some fileName) = .ok .TPF)
    (hout : outFmtOf o.format o.outputFile = .ok .TPF)
    (hio : o.outputFile ≠ some fileName) :
    ∃ lines, formatTpf a = .ok lines ∧
      (asmFormat o [(fileName, lines)] stdin).written = lines.flatten ∧
      (asmFormat o [(fileName, lines)] stdin).error = none := by
  obtain ⟨lines, a', h1, h2, h3⟩ := tpf_format_parse_format a h
  refine ⟨lines, h1, ?_⟩
  have hp : processFile o (outFmtSel o.format o.outputFile) (fileName, lines) =
      .ok (lines.flatten, if o.qcOverlaps then findOverlappingFragments { a' with name := fileAsmName o (fileName, lines) } else []) := by
    unfold processFile
    rw [processFh_ok_iff]
    refine ⟨_, ?_, rfl, ?_⟩
    · rw [fileLinesRead_of_ne o _ hio]
      show parseFh (inFmtSel o.inputFormat (some fileName)) _ lines = _
      rw [inFmtOf_ok hin]; exact parseFh_tpf _ _ _ h2
    · rw [outFmtOf_ok hout]
      simp only [writeFh, formatTpf_name, h3]; rfl
  obtain ⟨e1, e2, _⟩ := asmFormat_single o (fileName, lines) stdin _ _ hp
  exact ⟨e1, e2⟩

/-! ## AGP → TPF → AGP drops the tags and nothing else -/

/-- one conversion run: input lines `inLines` in format `fi` (decided by option or extension), output format `fo`;
    if the reader returns `a'` and the writer for `fo` gives `outLines` for it, the run writes exactly those. -/
private theorem convert_run (o : AsmFormatOpts) (n : Str) (stdin : List Str) (fi : Fmt) (fo : OutFmt)
    (inLines outLines : List Str) (a' : Assembly)
    (hin : inFmtOf o.inputFormat (some n) = .ok fi) (hout : outFmtOf o.format o.outputFile = .ok fo)
    (hio : o.outputFile ≠ some n)
    (hparse : parseFh fi (fileAsmName o (n, inLines)) inLines = .ok { a' with name := fileAsmName o (n, inLines) })
    (hwrite : writeFh { a' with name := fileAsmName o (n, inLines) } (some fo) = .ok outLines.flatten) :
    (asmFormat o [(n, inLines)] stdin).written = outLines.flatten ∧ (asmFormat o [(n, inLines)] stdin).error = none := by
  have hp : processFile o (outFmtSel o.format o.outputFile) (n, inLines) =
      .ok (outLines.flatten, if o.qcOverlaps then findOverlappingFragments { a' with name := fileAsmName o (n, inLines) } else []) := by
    unfold processFile
    rw [processFh_ok_iff]
    refine ⟨_, ?_, rfl, ?_⟩
    · rw [fileLinesRead_of_ne o _ hio]
      show parseFh (inFmtSel o.inputFormat (some n)) _ inLines = _
      rw [inFmtOf_ok hin]; exact hparse
    · rw [outFmtOf_ok hout]; exact hwrite
  obtain ⟨e1, e2, _⟩ := asmFormat_single o (n, inLines) stdin _ _ hp
  exact ⟨e1, e2⟩

/-- Two runs: `asm-format x.agp -o y.tpf` on the AGP written for `a`, then `asm-format y.tpf -o z.agp` on what the
    first run wrote (its lines `tpf`).  The second run writes exactly the AGP of `a` without its tags. -/
theorem asm_format_agp_tpf_agp (a : Assembly) (h1 : WFAgp a) (h2 : WFTpf a)
    (o1 o2 : AsmFormatOpts) (n1 n2 : Str) (stdin1 stdin2 : List Str)
    (hin1 : inFmtOf o1.inputFormat (some n1) = .ok .AGP) (hout1 : outFmtOf o1.format o1.outputFile = .ok .TPF)
    (hio1 : o1.outputFile ≠ some n1)
    (hin2 : inFmtOf o2.inputFormat (some n2) = .ok .TPF) (hout2 : outFmtOf o2.format o2.outputFile = .ok .AGP)
    (hio2 : o2.outputFile ≠ some n2) :
    ∃ agp1 tpf agp2,
      formatAgp a = .ok agp1 ∧ formatTpf a = .ok tpf ∧ formatAgp (dropTagsAssembly a) = .ok agp2 ∧
      (asmFormat o1 [(n1, agp1)] stdin1).written = tpf.flatten ∧ (asmFormat o1 [(n1, agp1)] stdin1).error = none ∧
      (asmFormat o2 [(n2, tpf)] stdin2).written = agp2.flatten ∧ (asmFormat o2 [(n2, tpf)] stdin2).error = none := by
  obtain ⟨agp1, a1, tpf, a2, agp2, e1, e2, e3, e4, e5, e6, e7, _, e9⟩ := agp_to_tpf_and_back a h1 h2
  have etpf : formatTpf a = .ok tpf := by rw [← formatTpf_canon, ← e3]; exact e4
  obtain ⟨r1, r2⟩ := convert_run o1 n1 stdin1 .AGP .TPF agp1 tpf a1 hin1 hout1 hio1 (parseFh_agp _ _ _ e2)
    (by simp only [writeFh, formatTpf_name, e4]; rfl)
  obtain ⟨r3, r4⟩ := convert_run o2 n2 stdin2 .TPF .AGP tpf agp2 a2 hin2 hout2 hio2 (parseFh_tpf _ _ _ e5)
    (by simp only [writeFh, formatAgp_name, e7]; rfl)
  exact ⟨agp1, tpf, agp2, e1, etpf, e9, r1, r2, r3, r4⟩

/-- the same chain on file CONTENTS: the second run reads the text the first run wrote (no newline inside any name,
    tag or gap type; no carriage return in the two texts). -/
theorem asm_format_agp_tpf_agp_text (a : Assembly) (h1 : WFAgp a) (h2 : WFTpf a) (hnl : NoNewlines a)
    (o1 o2 : AsmFormatOpts) (n1 n2 : Str) (stdin1 stdin2 : Str)
    (hin1 : inFmtOf o1.inputFormat (some n1) = .ok .AGP) (hout1 : outFmtOf o1.format o1.outputFile = .ok .TPF)
    (hio1 : o1.outputFile ≠ some n1)
    (hin2 : inFmtOf o2.inputFormat (some n2) = .ok .TPF) (hout2 : outFmtOf o2.format o2.outputFile = .ok .AGP)
    (hio2 : o2.outputFile ≠ some n2) :
    ∃ agp1 tpf agp2,
      formatAgp a = .ok agp1 ∧ formatTpf a = .ok tpf ∧ formatAgp (dropTagsAssembly a) = .ok agp2 ∧
      ('\r' ∉ agp1.flatten → '\r' ∉ tpf.flatten →
        (asmFormatText o1 [(n1, agp1.flatten)] stdin1).error = none ∧
        (asmFormatText o2 [(n2, (asmFormatText o1 [(n1, agp1.flatten)] stdin1).written)] stdin2).written = agp2.flatten ∧
        (asmFormatText o2 [(n2, (asmFormatText o1 [(n1, agp1.flatten)] stdin1).written)] stdin2).error = none) := by
  obtain ⟨agp1, tpf, agp2, e1, e2, e3, r1, r2, r3, r4⟩ :=
    asm_format_agp_tpf_agp a h1 h2 o1 o2 n1 n2 (stdinLines stdin1) (stdinLines stdin2) hin1 hout1 hio1 hin2 hout2 hio2
  obtain ⟨agp1', e1', hpy1, _⟩ := agp_roundtrip_text' a h1 hnl
  rw [e1] at e1'; cases e1'
  obtain ⟨tpf', e2', hpy2, _⟩ := tpf_roundtrip_text' a h2 hnl
  rw [e2] at e2'; cases e2'
  refine ⟨agp1, tpf, agp2, e1, e2, e3, fun hc1 hc2 => ?_⟩
  have run1 : asmFormatText o1 [(n1, agp1.flatten)] stdin1 = asmFormat o1 [(n1, agp1)] (stdinLines stdin1) := by
    unfold asmFormatText
    simp only [List.map_cons, List.map_nil, fileLines_of_noCR _ hc1, hpy1]
  rw [run1, r1]
  have run2 : asmFormatText o2 [(n2, tpf.flatten)] stdin2 = asmFormat o2 [(n2, tpf)] (stdinLines stdin2) := by
    unfold asmFormatText
    simp only [List.map_cons, List.map_nil, fileLines_of_noCR _ hc2, hpy2]
  rw [run2]
  exact ⟨r2, r3, r4⟩

/-! ## TPF → AGP → TPF is the identity on written TPF (a TPF carries no tags) -/

theorem asm_format_tpf_agp_tpf (a : Assembly) (h1 : WFAgp a) (h2 : WFTpf a)
    (o1 o2 : AsmFormatOpts) (n1 n2 : Str) (stdin1 stdin2 : List Str)
    (hin1 : inFmtOf o1.inputFormat (some n1) = .ok .TPF) (hout1 : outFmtOf o1.format o1.outputFile = .ok .AGP)
    (hio1 : o1.outputFile ≠ some n1)
    (hin2 : inFmtOf o2.inputFormat (some n2) = .ok .AGP) (hout2 : outFmtOf o2.format o2.outputFile = .ok .TPF)
    (hio2 : o2.outputFile ≠ some n2) :
    ∃ tpf agp,
      formatTpf a = .ok tpf ∧ formatAgp (dropTagsAssembly a) = .ok agp ∧
      (asmFormat o1 [(n1, tpf)] stdin1).written = agp.flatten ∧ (asmFormat o1 [(n1, tpf)] stdin1).error = none ∧
      (asmFormat o2 [(n2, agp)] stdin2).written = tpf.flatten ∧ (asmFormat o2 [(n2, agp)] stdin2).error = none := by
  obtain ⟨tpf, t1, t2⟩ := tpf_roundtrip a h2
  obtain ⟨agp, g1, g2⟩ := agp_roundtrip (dropTagsAssembly a) h1.dropTags
  have g1' : formatAgp (canonAssembly (dropTagsAssembly a)) = .ok agp := by rw [formatAgp_canon]; exact g1
  have t1' : formatTpf (canonAssembly (dropTagsAssembly a)) = .ok tpf := by
    rw [formatTpf_canon, formatTpf_dropTags]; exact t1
  obtain ⟨r1, r2⟩ := convert_run o1 n1 stdin1 .TPF .AGP tpf agp _ hin1 hout1 hio1 (parseFh_tpf _ _ _ t2)
    (by simp only [writeFh, formatAgp_name, g1']; rfl)
  obtain ⟨r3, r4⟩ := convert_run o2 n2 stdin2 .AGP .TPF agp tpf _ hin2 hout2 hio2 (parseFh_agp _ _ _ g2)
    (by simp only [writeFh, formatTpf_name, t1']; rfl)
  exact ⟨tpf, agp, t1, g1, r1, r2, r3, r4⟩

/-! ## every data line gives exactly one row, or the run fails -/

/-- ONE `process_fh` (any input, well-formed or not; input format AGP or TPF, any output format): if it does not
    raise, the assembly it parsed has exactly one row per non-blank, non-`#` input line — none skipped, none merged —
    and for AGP / TPF output the text consists of one line per header text plus exactly one line per such input line. -/
theorem asm_format_line_or_error (inFmt : Fmt) (asmName : Str) (lines : List Str) (outFmt : Option OutFmt) (qc : Bool)
    (text : Str) (pairs : List OvPair) (h : processFh inFmt asmName lines outFmt qc = .ok (text, pairs)) :
    ∃ asm, parseFh inFmt asmName lines = .ok asm ∧
      asmRows asm = (lines.filter isDataLine).length ∧
      (outFmt = some .AGP ∨ outFmt = some .TPF →
        ∃ outLines : List Str, text = outLines.flatten ∧
          outLines.length = asm.header.length + (lines.filter isDataLine).length) := by
  obtain ⟨asm, hp, _, hw⟩ := (processFh_ok_iff _ _ _ _ _ _ _).1 h
  refine ⟨asm, hp, parseFh_rows hp, ?_⟩
  rintro (rfl | rfl)
  · simp only [writeFh, bind, Except.bind] at hw
    cases hf : formatAgp asm with
    | error e => rw [hf] at hw; cases hw
    | ok ls =>
      rw [hf] at hw; cases hw
      exact ⟨ls, rfl, by rw [formatAgp_length asm ls hf, parseFh_rows hp]⟩
  · simp only [writeFh, bind, Except.bind] at hw
    cases hf : formatTpf asm with
    | error e => rw [hf] at hw; cases hw
    | ok ls =>
      rw [hf] at hw; cases hw
      exact ⟨ls, rfl, by rw [formatTpf_length asm ls hf, parseFh_rows hp]⟩

/-- The whole run over several files: if it ends without exception, the text written is the concatenation, file by
    file, of texts with one line per header text and one line per data line of that file (as read: the file that is
    the output file is read as empty). -/
theorem asm_format_line_or_error_files (o : AsmFormatOpts) (f : Str × List Str) (rest : List (Str × List Str))
    (stdin : List Str) (hout : outFmtOf o.format o.outputFile = .ok .AGP ∨ outFmtOf o.format o.outputFile = .ok .TPF)
    (h : (asmFormat o (f :: rest) stdin).error = none) :
    ∃ outs : List (List Str),
      (asmFormat o (f :: rest) stdin).written = (outs.map List.flatten).flatten ∧
      Forall2 (fun (file : Str × List Str) (outLines : List Str) =>
        ∃ asm, parseFh (fileInFmt o file) (fileAsmName o file) (fileLinesRead o file) = .ok asm ∧
          outLines.length = asm.header.length + ((fileLinesRead o file).filter isDataLine).length) (f :: rest) outs := by
  rw [asmFormat_files] at h ⊢
  obtain ⟨k, outs, h1, h2, _, h4⟩ := asmFormatLoop_spec o (outFmtSel o.format o.outputFile) (f :: rest) {}
  have hk : k = (f :: rest).length := by
    rcases h4 with ⟨hk, _, _⟩ | ⟨g, e, _, _, he⟩
    · exact hk
    · rw [he] at h; cases h
  rw [hk, List.take_length] at h1
  rw [h2]
  have hw : ({} : AsmFormatResult).written = [] := rfl
  rw [hw, List.nil_append]
  have hof : outFmtSel o.format o.outputFile = some .AGP ∨ outFmtSel o.format o.outputFile = some .TPF := by
    rcases hout with e | e
    · exact Or.inl (outFmtOf_ok e)
    · exact Or.inr (outFmtOf_ok e)
  clear h2 hk h h4
  generalize f :: rest = files at h1
  induction files generalizing outs with
  | nil => cases outs with | nil => exact ⟨[], rfl, trivial⟩ | cons _ _ => exact h1.elim
  | cons file t ih =>
    cases outs with
    | nil => exact h1.elim
    | cons out ot =>
      obtain ⟨text, pairs⟩ := out
      obtain ⟨hfile, hrest⟩ := h1
      obtain ⟨outs', e', hf'⟩ := ih ot hrest
      obtain ⟨asm, hp, _, hlines⟩ := asm_format_line_or_error _ _ _ _ _ _ _ hfile
      obtain ⟨outLines, et, hl⟩ := hlines hof
      refine ⟨outLines :: outs', ?_, ⟨asm, hp, hl⟩, hf'⟩
      simp only [List.map_cons, List.flatten_cons] at e' ⊢
      rw [e', et]

/-- corrupted lines end the run instead of being skipped: the 8-column line of `bad.agp` (real run: exit status 1,
    `ValueError("Error processing file 'bad.agp'")` from `IndexError`) — and what the earlier file gave stays -/
example : asmFormat {} [("bad.agp".toList, ["s1\t1\t5\t1\tW\tc\t1\t5\n".toList])] [] = { error := some .value } := by
  decide +kernel

/-! ## the hypotheses can be met -/

example : inFmtOf none (some "x.agp".toList) = .ok .AGP ∧ outFmtOf none (some "y.tpf".toList) = .ok .TPF ∧
    (some "y.tpf".toList : Option Str) ≠ some "x.agp".toList ∧
    inFmtOf none (some "y.tpf".toList) = .ok .TPF ∧ outFmtOf none (some "z.agp".toList) = .ok .AGP ∧
    (some "z.agp".toList : Option Str) ≠ some "y.tpf".toList ∧
    inFmtOf (some .AGP) (some "x.txt".toList) = .ok .AGP ∧ outFmtOf (some .AGP) none = .ok .AGP ∧
    (none : Option Str) ≠ some "x.txt".toList := by decide
example : WFAgp demo ∧ WFTpf demo ∧ NoNewlines demo := by decide
/-- the demo assembly through the real decisions: `asm-format x.agp -o y.tpf`, then `asm-format y.tpf -o z.agp` -/
example : ∃ agp1 tpf agp2, formatAgp demo = .ok agp1 ∧ formatTpf demo = .ok tpf ∧
    formatAgp (dropTagsAssembly demo) = .ok agp2 ∧ '\r' ∉ agp1.flatten ∧ '\r' ∉ tpf.flatten ∧
    asmFormat { outputFile := some "y.tpf".toList } [("x.agp".toList, agp1)] [] = { written := tpf.flatten } ∧
    asmFormat { outputFile := some "z.agp".toList } [("y.tpf".toList, tpf)] [] = { written := agp2.flatten } :=
  ⟨_, _, _, rfl, rfl, rfl, by decide +kernel, by decide +kernel, by decide +kernel, by decide +kernel⟩
example : processFh .AGP ['a'] ["# hdr\n".toList, "\n".toList, "s\t1\t5\t1\tW\tc\t1\t5\t+\n".toList] (some .TPF) false =
    .ok ("## hdr\n?\tc:1-5\ts\tPLUS\n".toList, []) := by decide +kernel

/-- a two-file run that ends without exception (hypothesis of `asm_format_line_or_error_files`) -/
example : outFmtOf none none = .ok .AGP ∧
    (asmFormat {} [("a.agp".toList, ["# h\n".toList, "s\t1\t5\t1\tW\tc\t1\t5\t+\n".toList]),
                   ("b.tpf".toList, ["?\tc:1-5\ts1\tPLUS\n".toList, "\n".toList, "GAP\tTYPE-2\t3\n".toList])] []).error = none := by
  decide +kernel

/-! ## Findings -/

/-- FINDING (real run: `asm-format ip.agp -o ip.agp` exits 0 and leaves `ip.agp` EMPTY): reformatting a file in
    place destroys it — the output file is opened with "w" before the input is read.  So `hio` above is needed. -/
theorem in_place_run_loses_everything (o : AsmFormatOpts) (fileName : Str) (lines stdin : List Str)
    (hin : inFmtOf o.inputFormat (some fileName) = .ok .AGP)
    (hout : outFmtOf o.format o.outputFile = .ok .AGP)
    (hio : o.outputFile = some fileName) :
    (asmFormat o [(fileName, lines)] stdin).written = [] ∧ (asmFormat o [(fileName, lines)] stdin).error = none := by
  have hp : processFile o (outFmtSel o.format o.outputFile) (fileName, lines) = .ok ([], []) := by
    unfold processFile
    rw [fileLinesRead_of_eq o _ hio]
    show processFh (inFmtSel o.inputFormat (some fileName)) _ [] _ _ = _
    rw [inFmtOf_ok hin, outFmtOf_ok hout]
    cases o.qcOverlaps <;> rfl
  obtain ⟨e1, e2, _⟩ := asmFormat_single o (fileName, lines) stdin _ _ hp
  exact ⟨e1, e2⟩

/-- FINDING (real runs: `asm-format cr.agp` fails, `asm-format < cr.agp` succeeds and prints two rows): a carriage
    return inside a field survives STDIN but cuts the line when the same bytes come from a file argument, so the
    no-`'\r'` condition of the text-level theorems is needed.  Here the contig name `c\rd`, which `WFAgp` allows. -/
example :
    let a : Assembly := { scaffolds := [{ name := "s1".toList, rows := [.frag { name := "c\rd".toList, start := 1, stop := 5, strand := 1 }] }] }
    WFAgp a ∧ NoNewlines a ∧ ∃ lines, formatAgp a = .ok lines ∧
      asmFormatText {} [] lines.flatten = { written := lines.flatten } ∧
      asmFormatText {} [("x.agp".toList, lines.flatten)] [] = { error := some .value } :=
  ⟨by decide, by decide, _, rfl, by decide +kernel, by decide +kernel⟩

end AgpTpf.C05
