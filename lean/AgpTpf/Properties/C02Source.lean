/-
  C02 over the SOURCE: the GUARDS of the remapping heuristics — the thresholds the 3·err margin rests on — AS TRANSLATED from the
  current source (`Gen/Kernels.lean`, regenerated on every run by harness/translate_kernels.py):
    * the four `if` tests of `OverlapResult.trim_large_overhangs`      (`…_trim_large_overhangs_test0..3`),
    * `OverhangPremise.improves`                                       (`OverhangPremise_improves`, with the −3 × err_length guard),
    * the five `if` tests of `OverhangResolver.make_fixes`             (`…_make_fixes_test0..4`: two-premise rule, general rule).
  Each theorem says that the guard the MODEL uses (`EarlyKeep`, `StartGuard`, `EndGuard`, `Premise.improves`, the conditions of
  `fixOne`) is the translated test applied to the model's figures — so the mechanism theorems of `C02.lean` (M2–M5) are theorems
  about the comparisons the code makes now: `>` vs `≥`, `<` vs `≤`, `and` vs `or`, the factor −3, which operand is compared.
-/
import AgpTpf.Properties.C02
import AgpTpf.Proofs.Kernels
namespace AgpTpf.C02
open AgpTpf

/-! ## `trim_large_overhangs` -/

/-- early return: `len(self.rows) == 1 and self.bait.length > err_length` -/
theorem early_keep_is_source_test (o : OverlapResult) (err : Int) :
    EarlyKeep o err ↔ Gen.K.OverlapResult_trim_large_overhangs_test0 (err_length := err)
      (len_self_rows := (o.rows.length : Int)) (self_bait_length := o.bait.length) = true := by
  unfold EarlyKeep Gen.K.OverlapResult_trim_large_overhangs_test0
  simp only [Bool.and_eq_true, decide_eq_true_eq]
  constructor
  · rintro ⟨h1, h2⟩; exact ⟨by omega, h2⟩
  · rintro ⟨h1, h2⟩; exact ⟨by omega, h2⟩

/-- `self.start_overhang > err_length and self.start_row_bait_overlap < err_length` (the overlap is only evaluated when the first
    comparison holds: `and` short-circuits; on a non-empty result it always has a value) -/
theorem start_guard_is_source_test (o : OverlapResult) (err ov : Int) (hov : o.startRowBaitOverlap = .ok ov) :
    StartGuard o err ↔ Gen.K.OverlapResult_trim_large_overhangs_test1 (err_length := err)
      (self_start_overhang := o.startOverhang) (self_start_row_bait_overlap := ov) = true := by
  unfold StartGuard Gen.K.OverlapResult_trim_large_overhangs_test1
  simp only [Bool.and_eq_true, decide_eq_true_eq, hov, Except.ok.injEq]
  constructor
  · rintro ⟨h1, v, rfl, h2⟩; exact ⟨h1, h2⟩
  · rintro ⟨h1, h2⟩; exact ⟨h1, ov, rfl, h2⟩

/-- `if not self.rows: return` -/
theorem emptied_is_source_test (o : OverlapResult) :
    o.rows = [] ↔ Gen.K.OverlapResult_trim_large_overhangs_test2 (len_self_rows := (o.rows.length : Int)) = true := by
  unfold Gen.K.OverlapResult_trim_large_overhangs_test2
  simp only [decide_eq_true_eq]
  constructor
  · intro h; rw [h]; rfl
  · intro h; exact List.eq_nil_of_length_eq_zero (by omega)

/-- `self.end_overhang > err_length and self.end_row_bait_overlap < err_length` -/
theorem end_guard_is_source_test (o : OverlapResult) (err ov : Int) (hov : o.endRowBaitOverlap = .ok ov) :
    EndGuard o err ↔ Gen.K.OverlapResult_trim_large_overhangs_test3 (err_length := err)
      (self_end_overhang := o.endOverhang) (self_end_row_bait_overlap := ov) = true := by
  unfold EndGuard Gen.K.OverlapResult_trim_large_overhangs_test3
  simp only [Bool.and_eq_true, decide_eq_true_eq, hov, Except.ok.injEq]
  constructor
  · rintro ⟨h1, v, rfl, h2⟩; exact ⟨h1, h2⟩
  · rintro ⟨h1, h2⟩; exact ⟨h1, ov, rfl, h2⟩

/-! ## `OverhangPremise.improves` -/

/-- the model's `improves` is the translated function applied to: the number of rows of the premise's result, the error delta
    `|overhang if applied| − |current overhang|`, the overhang if applied, and `err_length` -/
theorem improves_is_source (p : Premise) (store : List Res) (err a : Int) (ha : p.overhangIfApplied store = .ok a) :
    p.improves store err = .ok (Gen.K.OverhangPremise_improves (err_length := err)
      (len_self_scaffold_rows := ((getRes store p.sid).rows.length : Int))
      (self_overhang_error_delta_if_applied := iabs a - iabs (Premise.currentOverhang p store))
      (self_overhang_if_applied := a)) := by
  rw [improves_eq ha, improves_guard_factor]
  congr 1
  unfold Gen.K.OverhangPremise_improves
  by_cases h1 : (getRes store p.sid).rows.length = 1
  · simp [h1]
  · have h1' : ¬ (((getRes store p.sid).rows.length : Int) = 1) := by omega
    by_cases h2 : iabs a - iabs (Premise.currentOverhang p store) < 0 <;> by_cases h3 : a > -3 * err <;> simp [h1, h1', h2, h3]

/-! ## `OverhangResolver.make_fixes` -/

/-- the two-premise rule fires iff test0 ∧ test1 of the source; it removes the FIRST premise's row iff test2 -/
theorem two_premise_tests (n : Nat) (fo so err : Int) :
    (n = 2 ↔ Gen.K.OverhangResolver_make_fixes_test0 (len_prem_list := (n : Int)) = true) ∧
    ((fo < err ∧ so < err) ↔ Gen.K.OverhangResolver_make_fixes_test1 (frst_bait_overlap := fo) (scnd_bait_overlap := so)
        (self_error_length := err) = true) ∧
    (fo < so ↔ Gen.K.OverhangResolver_make_fixes_test2 (frst_bait_overlap := fo) (scnd_bait_overlap := so) = true) ∧
    (n > 1 ↔ Gen.K.OverhangResolver_make_fixes_test3 (len_prem_list := (n : Int)) = true) := by
  unfold Gen.K.OverhangResolver_make_fixes_test0 Gen.K.OverhangResolver_make_fixes_test1
    Gen.K.OverhangResolver_make_fixes_test2 Gen.K.OverhangResolver_make_fixes_test3
  simp only [decide_eq_true_eq, Bool.and_eq_true]
  refine ⟨by omega, by trivial, by trivial, by omega⟩

/-- the general rule applies the best premise iff `bst.improves(err) and nxt.makes_worse(err)` (`makes_worse = not improves`) -/
theorem general_rule_test (bi ni : Bool) :
    (bi = true ∧ ni = false) ↔ Gen.K.OverhangResolver_make_fixes_test4 (b_bst_improves := bi) (b_nxt_makes_worse := !ni) = true := by
  unfold Gen.K.OverhangResolver_make_fixes_test4
  cases bi <;> cases ni <;> simp

/-- `fixOne` on two premises, phrased with the source's tests (the model's `fixOne` is `two_premise_rule` / `general_rule` of
    `C02.lean`; here only the conditions): with bait overlaps `fo`, `so` the two-premise rule applies `frst` iff test1 ∧ test2,
    `scnd` iff test1 ∧ ¬ test2, and falls through to the general rule iff ¬ test1 -/
theorem two_premise_decision (fo so err : Int) :
    let t1 := Gen.K.OverhangResolver_make_fixes_test1 (frst_bait_overlap := fo) (scnd_bait_overlap := so) (self_error_length := err)
    let t2 := Gen.K.OverhangResolver_make_fixes_test2 (frst_bait_overlap := fo) (scnd_bait_overlap := so)
    ((t1 = true ∧ t2 = true) ↔ (fo < err ∧ so < err ∧ fo < so)) ∧
    ((t1 = true ∧ t2 = false) ↔ (fo < err ∧ so < err ∧ ¬ fo < so)) ∧
    (t1 = false ↔ ¬ (fo < err ∧ so < err)) := by
  unfold Gen.K.OverhangResolver_make_fixes_test1 Gen.K.OverhangResolver_make_fixes_test2
  simp only [Bool.and_eq_true, decide_eq_true_eq, decide_eq_false_iff_not, Bool.and_eq_false_iff]
  refine ⟨by constructor <;> (intro h; omega), by constructor <;> (intro h; omega), by constructor <;> (intro h; omega)⟩

/-- non-vacuity: the translated guards evaluated on literals -/
example : Gen.K.OverhangPremise_improves (err_length := 10) (len_self_scaffold_rows := 3)
    (self_overhang_error_delta_if_applied := -5) (self_overhang_if_applied := -29) = true ∧
  Gen.K.OverhangPremise_improves (err_length := 10) (len_self_scaffold_rows := 3)
    (self_overhang_error_delta_if_applied := -5) (self_overhang_if_applied := -30) = false ∧
  Gen.K.OverlapResult_trim_large_overhangs_test1 (err_length := 10) (self_start_overhang := 11) (self_start_row_bait_overlap := 9) = true ∧
  Gen.K.OverlapResult_trim_large_overhangs_test1 (err_length := 10) (self_start_overhang := 10) (self_start_row_bait_overlap := 9) = false := by
  decide

end AgpTpf.C02
