/-
  C10 (T1c, phase 2) — the `ChrGroup` methods of `assembly/build_utils.py` as translated ARE the model's group functions.

  Source side: `Gen.Imp.ChrGroup___init__`, `ChrGroup_haplotype_dict`, `ChrGroup_add_scaffold_to_haplotype`,
  `ChrGroup_original_tags_of_haplotype_scaffold`, `ChrGroup_length_of_first_haplotype`, `ChrGroup_multi_chr_list`,
  `ChrGroup_max_hap_set_count`, `ChrGroup_name_chromosome` in `AgpTpf/Gen/Imp2.lean` (each with the Python text it came from).
  Model side (`Model/Remap.lean`): `newGroup`, `groupAdd`, `groupFirstLength`, `multiChrList`, `nameGroup`, and the inline use of
  `originalTags` in `buildGroups`.

  The source's `ChrGroup.data : PyRt.GData` has `Option Str` keys (what `Scaffold.original_name` holds); the model's `GroupData` has `Str` keys.
  `ImpChrGroup.absG` maps `some k ↦ k` (and a None key to `""`, unreachable); `ImpChrGroup.KeysSome` = no key is None;
  `ImpChrGroup.KeysNonEmpty` = every key is a non-empty string (what `build_groups` guarantees before it stores anything).
  Scaffold references are indices into `heap_b`; the model's `fs.getD i default` and the source's `PyRt.bsGet heap_b i` are the same
  function (`ImpChrGroup.bsGet_eq_getD`, by `rfl`), so NO theorem below needs the references to be in range.

  Where the two sides differ (all on inputs the callers never produce) — each with a theorem or an `example` below:
    * `__init__` with a repeated haplotype: the source overwrites (one key), `newGroup` keeps both entries;
    * `add_scaffold_to_haplotype` with an unknown haplotype: source AttributeError, `groupAdd` creates the key;
    * `multi_chr_list` / `name_chromosome` with more than 1114047 (= 0x110000 − ord "A") names: source ValueError from `chr`, model carries on;
    * `name_chromosome` with an EMPTY original name: `str.replace("", x)` inserts `x` around every character, `replaceAll` is the identity;
      with a None original name (and a scaffold under it): source TypeError; with `chr_n < 0`: `str(-3) = "-3"`, the model takes a `Nat`;
    * `original_tags_of_haplotype_scaffold` with an unknown haplotype: source TypeError (`None[...]`), model KeyError (it defaults to `{}`).
  Proofs: `AgpTpf/Proofs/ImpChrGroup.lean`.
-/
import AgpTpf.Proofs.ImpChrGroup
namespace AgpTpf.C10
open AgpTpf AgpTpf.ImpChrGroup

/-! ### the input the `example`s run on: three fused scaffolds, two of them from Pretext scaffold `S_10`, and two groups -/

def gH1 : Str := ['H', 'a', 'p', '1']
def gH2 : Str := ['H', 'a', 'p', '2']
def gO10 : Str := ['S', '_', '1', '0']
def gO11 : Str := ['S', '_', '1', '1']
def gPre : Str := ['S', 'U', '_']
def gHeap : List Scaffold :=
  [ { name := gO10, originalName := some gO10, originalTags := some [sSingleton],
      rows := [.frag { oid := 1, name := ['c', '1'], start := 1, stop := 100, strand := 1 }] },
    { name := gO10 ++ ['_', 'u', '1'], originalName := some gO10,
      rows := [.frag { oid := 2, name := ['c', '2'], start := 1, stop := 50, strand := 1 }, .gap ⟨200, ['s']⟩] },
    { name := gO11, originalName := some gO11,
      rows := [.frag { oid := 3, name := ['c', '3'], start := 11, stop := 17, strand := -1 }] } ]
/-- two original names in the first haplotype (what `check_groups` reports as an error) -/
def gData2 : PyRt.GData := [(gH1, [(some gO10, [0, 1]), (some gO11, [2])]), (gH2, [])]
/-- one original name per haplotype -/
def gData1 : PyRt.GData := [(gH1, [(some gO10, [0, 1])]), (gH2, [(some gO11, [2])])]

example : KeysNonEmpty gData2 ∧ KeysNonEmpty gData1 := ⟨keysNonEmpty_of_B _ (by decide), keysNonEmpty_of_B _ (by decide)⟩
example : ∀ kv ∈ gData2, (kv.2.length : Int) ≤ 1114047 := by decide

/-! ### 1. `ChrGroup.__init__` -/

/-- for EVERY list of haplotypes: the keys in first-occurrence order (`data[hap] = {}` overwrites), each with an empty dictionary -/
theorem chrgroup_init_is_source (haps : List (Str × Bool)) :
    Gen.Imp.ChrGroup___init__ haps = .ok (((haps.map (·.1)).foldl sAdd []).map (fun h => (h, []))) := by
  rw [init_nf, initData_eq]

/-- modulo `absG` this is the model's `newGroup` of the de-duplicated haplotypes, and the invariants hold -/
theorem chrgroup_init_is_newGroup (haps : List (Str × Bool)) :
    ∃ d, Gen.Imp.ChrGroup___init__ haps = .ok d ∧ absG d = newGroup ((haps.map (·.1)).foldl sAdd []) ∧ KeysNonEmpty d :=
  ⟨_, chrgroup_init_is_source haps, absG_emptyVals _, keysNonEmpty_emptyVals _⟩

/-- distinct haplotype texts (the caller passes the keys of a dictionary): literally `newGroup` of them -/
theorem chrgroup_init_is_source_nodup (haps : List (Str × Bool)) (h : (haps.map (·.1)).Nodup) :
    Gen.Imp.ChrGroup___init__ haps = .ok (haps.map (fun kv => (kv.1, []))) ∧
    absG (haps.map (fun kv => (kv.1, []))) = newGroup (haps.map (·.1)) := by
  have e : (haps.map (·.1)).foldl sAdd [] = haps.map (·.1) := by
    rw [foldl_sAdd_nodup _ [] (by simpa using h)]; rfl
  constructor
  · rw [chrgroup_init_is_source, e, List.map_map]; rfl
  · have := absG_emptyVals (haps.map (·.1))
    rwa [List.map_map] at this

example : Gen.Imp.ChrGroup___init__ [(gH1, true), (gH2, true)] = .ok [(gH1, []), (gH2, [])] := rfl
/-- a repeated haplotype: the source has ONE key, `newGroup` would have two entries -/
example : Gen.Imp.ChrGroup___init__ [(gH1, true), (gH2, true), (gH1, false)] = .ok [(gH1, []), (gH2, [])] ∧
    newGroup [gH1, gH2, gH1] = [(gH1, []), (gH2, []), (gH1, [])] := ⟨rfl, rfl⟩

/-- `haplotype_dict` = `dict.get`; under the abstraction the model's `dGet?` -/
theorem haplotype_dict_is_source (hap : Str) (data : PyRt.GData) :
    Gen.Imp.ChrGroup_haplotype_dict hap data = .ok (dGet? data hap) ∧ (dGet? data hap).map absHapSet = dGet? (absG data) hap :=
  ⟨rfl, (dGet?_absG data hap).symm⟩

example : Gen.Imp.ChrGroup_haplotype_dict gH2 gData1 = .ok (some [(some gO11, [2])]) := by decide

/-! ### 2. `ChrGroup.multi_chr_list` -/

/-- up to 1114047 names (`chr(ord("A") + k)` exists for every `k` below that): the model's list.  Covers `n ≤ 0`: both sides `[]`. -/
theorem multi_chr_list_is_source (name : Str) (n : Int) (h : n ≤ 1114047) :
    Gen.Imp.ChrGroup_multi_chr_list name n = .ok (multiChrList name n.toNat) :=
  multi_chr_list_tie name n h

/-- beyond: the loop reaches `chr(0x110000)` — ValueError (the model has no such case: `multiChrList` is total) -/
theorem multi_chr_list_too_many (name : Str) (n : Int) (h : 1114047 < n) :
    Gen.Imp.ChrGroup_multi_chr_list name n = .error .value :=
  multi_chr_list_error name n h

/-- a count `≤ 0`: the empty list on both sides -/
theorem multi_chr_list_nonpos (name : Str) (n : Int) (h : n ≤ 0) : Gen.Imp.ChrGroup_multi_chr_list name n = .ok [] := by
  rw [multi_chr_list_is_source name n (by omega)]
  have : n.toNat = 0 := by omega
  rw [this]; rfl

example : Gen.Imp.ChrGroup_multi_chr_list (gPre ++ ['3']) 3 =
    .ok [gPre ++ ['3', 'A'], gPre ++ ['3', 'B'], gPre ++ ['3', 'C']] := by decide
example : Gen.Imp.ChrGroup_multi_chr_list (gPre ++ ['3']) 1 = .ok [gPre ++ ['3']] := by decide
example : Gen.Imp.ChrGroup_multi_chr_list (gPre ++ ['3']) (-2) = .ok [] := by decide

/-! ### 3. `ChrGroup.add_scaffold_to_haplotype` -/

/-- a known haplotype, a scaffold whose `original_name` is a string: the model's `groupAdd`, and `KeysSome` is kept -/
theorem add_scaffold_to_haplotype_is_source (heap_b : List Scaffold) (data : PyRt.GData) (hap orig : Str) (sid : Nat)
    (horig : (PyRt.bsGet heap_b sid).originalName = some orig) (hk : KeysSome data) (hh : dHas data hap = true) :
    ∃ d', Gen.Imp.ChrGroup_add_scaffold_to_haplotype heap_b data hap sid = .ok d' ∧
      absG d' = groupAdd (absG data) hap orig sid ∧ KeysSome d' := by
  obtain ⟨hs, hhs⟩ := dHas_true _ _ hh
  refine ⟨appended data hap hs (some orig) sid, ?_, absG_appended _ _ _ _ _ hk hhs, keysSome_appended _ _ _ _ _ hk hhs⟩
  rw [add_scaffold_nf, horig, gdataAppend_known _ _ _ _ _ hhs]

/-- … and a NON-EMPTY `original_name` keeps `KeysNonEmpty` (the invariant `name_chromosome` needs) -/
theorem add_scaffold_to_haplotype_keeps_nonempty (heap_b : List Scaffold) (data : PyRt.GData) (hap : Str) (c : Char) (r : Str) (sid : Nat)
    (horig : (PyRt.bsGet heap_b sid).originalName = some (c :: r)) (hk : KeysNonEmpty data) (hh : dHas data hap = true) :
    ∃ d', Gen.Imp.ChrGroup_add_scaffold_to_haplotype heap_b data hap sid = .ok d' ∧
      absG d' = groupAdd (absG data) hap (c :: r) sid ∧ KeysNonEmpty d' := by
  obtain ⟨hs, hhs⟩ := dHas_true _ _ hh
  refine ⟨appended data hap hs (some (c :: r)) sid, ?_, absG_appended _ _ _ _ _ hk.keysSome hhs, keysNonEmpty_appended _ _ _ _ _ _ hk hhs⟩
  rw [add_scaffold_nf, horig, gdataAppend_known _ _ _ _ _ hhs]

/-- an unknown haplotype: `self.data.get(hap)` is None — AttributeError; the model's `groupAdd` silently creates the key
    (`build_groups` only passes haplotypes the group was created with) -/
theorem add_scaffold_to_haplotype_unknown (heap_b : List Scaffold) (data : PyRt.GData) (hap orig : Str) (sid : Nat)
    (hh : dHas data hap = false) :
    Gen.Imp.ChrGroup_add_scaffold_to_haplotype heap_b data hap sid = .error .attribute ∧
    groupAdd (absG data) hap orig sid = absG data ++ [(hap, [(orig, [sid])])] := by
  have hn := dHas_false _ _ hh
  exact ⟨by rw [add_scaffold_nf, gdataAppend_unknown _ _ _ _ hn], groupAdd_unknown _ _ _ _ hn⟩

example : Gen.Imp.ChrGroup_add_scaffold_to_haplotype gHeap [(gH1, [(some gO10, [0])]), (gH2, [])] gH1 1 =
    .ok [(gH1, [(some gO10, [0, 1])]), (gH2, [])] := rfl
example : Gen.Imp.ChrGroup_add_scaffold_to_haplotype gHeap [(gH1, [(some gO10, [0])]), (gH2, [])] gH2 2 =
    .ok [(gH1, [(some gO10, [0])]), (gH2, [(some gO11, [2])])] := rfl
example : (PyRt.bsGet gHeap 1).originalName = some gO10 ∧ KeysSome [(gH1, [(some gO10, [0])]), (gH2, [])] ∧
    dHas [(gH1, [(some gO10, [0])]), (gH2, ([] : PyRt.HapSet))] gH1 = true :=
  ⟨by decide, (keysNonEmpty_of_B _ (by decide)).keysSome, by decide⟩
example : Gen.Imp.ChrGroup_add_scaffold_to_haplotype gHeap [(gH1, [(some gO10, [0])])] gH2 2 = .error .attribute ∧
    groupAdd (absG [(gH1, [(some gO10, [0])])]) gH2 gO11 2 = [(gH1, [(gO10, [0])]), (gH2, [(gO11, [2])])] := ⟨rfl, rfl⟩

/-! ### 4. `ChrGroup.length_of_first_haplotype` -/

/-- for EVERY arena and EVERY `data` (None keys, references outside the arena included): the same value and the same exception class —
    ValueError for an empty `data`, an empty first haplotype, and a first haplotype with two or more original names -/
theorem length_of_first_haplotype_is_source (heap_b : List Scaffold) (data : PyRt.GData) :
    Gen.Imp.ChrGroup_length_of_first_haplotype heap_b data = groupFirstLength heap_b (absG data) :=
  length_of_first_tie heap_b data

example : Gen.Imp.ChrGroup_length_of_first_haplotype gHeap gData1 = .ok 150 := by decide
example : Gen.Imp.ChrGroup_length_of_first_haplotype gHeap gData2 = .error .value := by decide
example : Gen.Imp.ChrGroup_length_of_first_haplotype gHeap [] = .error .value ∧
    Gen.Imp.ChrGroup_length_of_first_haplotype gHeap [(gH1, [])] = .error .value := by decide

/-! ### 5. `ChrGroup.name_chromosome` -/

/-- `0 ≤ chr_n`; every original name that has a scaffold under it is a non-empty string (`HapNamed`, implied by `KeysNonEmpty`);
    no haplotype has more than 1114047 original names.  References may point outside the arena (no-op on both sides).
    `chr_names.pop(0)` never fails: `multi_chr_list` returns exactly `len(hap_set)` names (`ImpChrGroup.foldlM_renameEntry`). -/
theorem name_chromosome_is_source (heap_b : List Scaffold) (pre : Str) (n : Int) (data : PyRt.GData) (hn : 0 ≤ n)
    (hnamed : ∀ kv ∈ data, HapNamed kv.2) (hb : ∀ kv ∈ data, (kv.2.length : Int) ≤ 1114047) :
    Gen.Imp.ChrGroup_name_chromosome heap_b pre n data = .ok (nameGroup heap_b (absG data) pre n.toNat) :=
  name_chromosome_tie heap_b pre n data hn hnamed hb

/-- the same under the invariant of `build_groups` -/
theorem name_chromosome_is_source_of_keysNonEmpty (heap_b : List Scaffold) (pre : Str) (n : Int) (data : PyRt.GData) (hn : 0 ≤ n)
    (hk : KeysNonEmpty data) (hb : ∀ kv ∈ data, (kv.2.length : Int) ≤ 1114047) :
    Gen.Imp.ChrGroup_name_chromosome heap_b pre n data = .ok (nameGroup heap_b (absG data) pre n.toNat) :=
  name_chromosome_tie heap_b pre n data hn hk.named hb

example : (Gen.Imp.ChrGroup_name_chromosome gHeap gPre 3 gData2).map (·.map (·.name)) =
    .ok [gPre ++ ['3', 'A'], gPre ++ ['3', 'A', '_', 'u', '1'], gPre ++ ['3', 'B']] := by decide
example : (Gen.Imp.ChrGroup_name_chromosome gHeap gPre 3 gData1).map (·.map (·.name)) =
    .ok [gPre ++ ['3'], gPre ++ ['3', '_', 'u', '1'], gPre ++ ['3']] := by decide
/-- an EMPTY original name: Python's `"S_10".replace("", "SU_3")` inserts the new text around every character; `replaceAll` is the identity -/
example : (Gen.Imp.ChrGroup_name_chromosome gHeap gPre 3 [(gH1, [(some [], [2])])]).map (·.map (·.name)) =
      .ok [gO10, gO10 ++ ['_', 'u', '1'], gPre ++ ['3', 'S'] ++ gPre ++ ['3', '_'] ++ gPre ++ ['3', '1'] ++ gPre ++ ['3', '1'] ++ gPre ++ ['3']] ∧
    (nameGroup gHeap (absG [(gH1, [(some [], [2])])]) gPre 3).map (·.name) = [gO10, gO10 ++ ['_', 'u', '1'], gO11] := by decide
/-- a None original name with a scaffold under it: TypeError in the source -/
example : Gen.Imp.ChrGroup_name_chromosome gHeap gPre 3 [(gH1, [(none, [0])])] = .error .type := by decide
/-- a negative `chr_n`: `str(-3)` is "-3"; the model's counter is a `Nat` -/
example : (Gen.Imp.ChrGroup_name_chromosome gHeap gPre (-3) [(gH2, [(some gO11, [2])])]).map (·.map (·.name)) =
      .ok [gO10, gO10 ++ ['_', 'u', '1'], gPre ++ ['-', '3']] ∧
    (nameGroup gHeap (absG [(gH2, [(some gO11, [2])])]) gPre (-3 : Int).toNat).map (·.name) = [gO10, gO10 ++ ['_', 'u', '1'], gPre ++ ['0']] := by
  decide

/-! ### 6. `ChrGroup.original_tags_of_haplotype_scaffold` -/

/-- `ImpChrGroup.origTagsModel fs hd lo` is, verbatim, what `buildGroups` computes inline with `hd = (dGet? st.cur hap).getD []` and
    `lo = st.lastOrig.getD []`; `ImpChrGroup.origTagsModel_bind` rewrites that inline `match` (with its continuation) into
    `origTagsModel … >>= k`.  For a known haplotype (`buildGroups` is in the branch `¬ hd.isEmpty`: `ImpChrGroup.dHas_of_absG_ne`) and string
    keys the source call is that computation: same value, KeyError for an absent name, IndexError for an empty list. -/
theorem original_tags_is_source (heap_b : List Scaffold) (hap lo : Str) (data : PyRt.GData) (hk : KeysSome data)
    (hh : dHas data hap = true) :
    Gen.Imp.ChrGroup_original_tags_of_haplotype_scaffold heap_b hap (some lo) data =
      origTagsModel heap_b ((dGet? (absG data) hap).getD []) lo :=
  original_tags_tie heap_b hap lo data hk hh

/-- with `last_orig` as the Python variable holds it (None before the first scaffold; the model reads `lastOrig.getD []`): under
    `KeysNonEmpty` neither None nor "" is a key, KeyError on both sides -/
theorem original_tags_is_source_opt (heap_b : List Scaffold) (hap : Str) (last : Option Str) (data : PyRt.GData) (hk : KeysNonEmpty data)
    (hh : dHas data hap = true) :
    Gen.Imp.ChrGroup_original_tags_of_haplotype_scaffold heap_b hap last data =
      origTagsModel heap_b ((dGet? (absG data) hap).getD []) (last.getD []) :=
  original_tags_tie_opt heap_b hap last data hk hh

/-- the inline code of `buildGroups` IS `origTagsModel` (for any continuation `k`) -/
theorem original_tags_model_inline {β : Type} (fs : List Scaffold) (hd : List (Str × List Nat)) (lo : Str) (k : List Str → R β) :
    (match dGet? hd lo with
     | none => (throw Err.key : R β)
     | some ids => do
       let first ← pyGet ids 0
       k (((fs.getD first default).originalTags).getD [])) = origTagsModel fs hd lo >>= k :=
  origTagsModel_bind fs hd lo k

/-- an unknown haplotype: the source raises TypeError (`None[scffld_name]`), the model (which defaults to `{}`) KeyError -/
theorem original_tags_unknown_haplotype (heap_b : List Scaffold) (hap : Str) (last : Option Str) (lo : Str) (data : PyRt.GData)
    (hh : dHas data hap = false) :
    Gen.Imp.ChrGroup_original_tags_of_haplotype_scaffold heap_b hap last data = .error .type ∧
    origTagsModel heap_b ((dGet? (absG data) hap).getD []) lo = .error .key :=
  original_tags_unknown heap_b hap last lo data hh

example : Gen.Imp.ChrGroup_original_tags_of_haplotype_scaffold gHeap gH1 (some gO10) gData2 = .ok [sSingleton] := by decide
example : Gen.Imp.ChrGroup_original_tags_of_haplotype_scaffold gHeap gH1 (some gO11) gData2 = .ok [] := by decide
/-- absent name: KeyError; None: KeyError; empty list: IndexError; unknown haplotype: TypeError -/
example : Gen.Imp.ChrGroup_original_tags_of_haplotype_scaffold gHeap gH1 (some gH1) gData2 = .error .key ∧
    Gen.Imp.ChrGroup_original_tags_of_haplotype_scaffold gHeap gH1 none gData2 = .error .key ∧
    Gen.Imp.ChrGroup_original_tags_of_haplotype_scaffold gHeap gH1 (some gO10) [(gH1, [(some gO10, [])])] = .error .index ∧
    Gen.Imp.ChrGroup_original_tags_of_haplotype_scaffold gHeap gO10 (some gO10) gData2 = .error .type := by decide

/-! ### 7. `ChrGroup.max_hap_set_count` -/

/-- `max()` of an empty sequence: ValueError -/
theorem max_hap_set_count_is_source_empty : Gen.Imp.ChrGroup_max_hap_set_count [] = .error .value :=
  max_hap_set_count_empty

/-- otherwise the maximum of the numbers of original names per haplotype: an upper bound that is attained
    (`absG` keeps these numbers: `ImpChrGroup.absHapSet_length`) -/
theorem max_hap_set_count_is_source (data : PyRt.GData) (hne : data ≠ []) :
    ∃ m : Int, Gen.Imp.ChrGroup_max_hap_set_count data = .ok m ∧ (∀ kv ∈ data, (kv.2.length : Int) ≤ m) ∧
      ∃ kv ∈ data, (kv.2.length : Int) = m :=
  max_hap_set_count_spec data hne

example : Gen.Imp.ChrGroup_max_hap_set_count gData2 = .ok 2 := by decide
example : Gen.Imp.ChrGroup_max_hap_set_count gData1 = .ok 1 := by decide

end AgpTpf.C10
