/-
  C13 over the SOURCE: the chunk arithmetic of `FastaIndex.fwd_chunks`, `rev_chunks`, `get_gap_iter` AS TRANSLATED from the
  current /repo/src/tola/fasta/index.py (`Gen/Kernels.lean`): the intervals requested from `sequence_bytes`, resp. the number of
  gap characters per chunk, for every buffer size ≥ 1 — chunks of at most `buffer_size` residues that tile the fragment / gap.
-/
import AgpTpf.Properties.C13
import AgpTpf.Proofs.Kernels
namespace AgpTpf.C13
open AgpTpf AgpTpf.ChunkProofs AgpTpf.WrapProofs AgpTpf.SeqProofs AgpTpf.StreamProofs

/-- the source's `fwd_chunks` requests consecutive closed intervals, first starting at `start`, last ending at `end`,
    each 1..buffer_size long -/
theorem source_fwd_chunks_tiles (start stop bs : Int) (hbs : 1 ≤ bs) (h : start ≤ stop) :
    Tiles bs start stop (Gen.K.FastaIndex_fwd_chunks (start := start) (end_v := stop) (self_buffer_size := bs)) := by
  rw [← Kernels.fwd_chunks_eq]; exact fwd_chunks_tiles start stop bs hbs h

theorem source_fwd_chunks_bounded (start stop bs : Int) (hbs : 1 ≤ bs) (h : start ≤ stop) :
    ∀ c ∈ Gen.K.FastaIndex_fwd_chunks (start := start) (end_v := stop) (self_buffer_size := bs),
      1 ≤ c.2 - c.1 + 1 ∧ c.2 - c.1 + 1 ≤ bs ∧ start ≤ c.1 ∧ c.2 ≤ stop := by
  rw [← Kernels.fwd_chunks_eq]; exact (fwd_chunks_tile start stop bs hbs h).2.2.2.2.1

/-- the source's `rev_chunks` visits exactly the forward chunks, last to first -/
theorem source_rev_chunks_reverse (start stop bs : Int) (hbs : 1 ≤ bs) (h : start ≤ stop) :
    Gen.K.FastaIndex_rev_chunks (start := start) (end_v := stop) (self_buffer_size := bs) =
      (Gen.K.FastaIndex_fwd_chunks (start := start) (end_v := stop) (self_buffer_size := bs)).reverse := by
  rw [← Kernels.fwd_chunks_eq, ← Kernels.rev_chunks_eq]; exact rev_chunks_reverse start stop bs hbs h

/-- the source's `get_gap_iter`: every chunk has 0..buffer_size characters and together they have `max 0 length` -/
theorem source_gap_chunks (len bs : Int) (hbs : 1 ≤ bs) :
    sumInts ((Gen.K.FastaIndex_get_gap_iter (gap_length := len) (self_buffer_size := bs)).map (max 0)) = max 0 len ∧
    ∀ c ∈ (Gen.K.FastaIndex_get_gap_iter (gap_length := len) (self_buffer_size := bs)).map (max 0), 0 ≤ c ∧ c ≤ bs := by
  rw [← Kernels.gap_chunks_eq]; exact gap_chunks len bs hbs

example : Gen.K.FastaIndex_fwd_chunks (start := 5) (end_v := 14) (self_buffer_size := 3) = [(5, 7), (8, 10), (11, 13), (14, 14)] := by decide
example : Gen.K.FastaIndex_get_gap_iter (gap_length := 7) (self_buffer_size := 3) = [3, 3, 1] := by decide

end AgpTpf.C13
