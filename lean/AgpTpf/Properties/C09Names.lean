/-
  C09 (part) — "Pieces tagged Haplotig, Contaminant or FalseDuplicate are written to the haplotig, contaminant or
  false-duplicate assembly … everything else goes to the primary assembly": the assembly key → FILE NAME table of
  `name_assemblies` (pretext_to_asm.py) and the file stem of `write_assemblies`.

  Model: Model/Cli.lean (`nameAssemblies`, `outputFileName`), input `OutAsm` (key, curated, scaffolds) as produced by
  `assembliesFused` (keys: C09.assembly_key*).  Helpers: Proofs/CliNames.lean.

  The three branches as pure functions (defined in CliNames, characterised below by the `*_table` theorems):
    singleName   root v a        single-haplotype branch  (a `none` key, no `Primary` key)
    primaryName  root v a        `Primary` branch, assemblies that keep their own file; `mergedPart` = the `all_haplotigs` one
    multiName    root v a        multi-haplotype branch   (neither key)
  `HasKey asms k`  :=  ∃ a ∈ asms, a.key = k.

   A1 `name_single_haplotype` (+ `single_name_table`, `primary_file_name`, `contaminants_file_name`, …)
   A2 `name_primary_branch` (+ `primary_name_table`, `merged_part_table`, `name_primary_branch_perm`,
      `name_primary_branch_fails_iff`)
   A3 `name_multi_haplotype` (+ `multi_name_table`, `name_multi_haplotype_all_some`)
   A4 `name_assemblies_conserves`, `name_assemblies_curated_origin`, `name_assemblies_keys_distinct`
-/
import AgpTpf.Proofs.CliNames
namespace AgpTpf.C09
open AgpTpf AgpTpf.CliNames

/-! ## A1  single-haplotype branch -/

/-- **A1** a `none` key present, no `Primary` key: never fails, the result lists the assemblies in the same order,
    each renamed by `singleName` (table below).  (Needs no distinctness of keys.) -/
theorem name_single_haplotype (asms : List OutAsm) (root v : Str)
    (hp : ¬ HasKey asms (some sPrimary)) (hn : HasKey asms none) :
    nameAssemblies asms root v = .ok (asms.map (singleName root v)) :=
  nameAssemblies_single asms root v hp hn

/-- the table of the single-haplotype branch: scaffolds untouched;
    `None` ↦ key `None`, `root.v.primary`, curated kept;
    `Haplotig` ↦ key `additional_haplotigs`, `root.v.additional_haplotigs`, curated := True;
    other `k` ↦ key `k`, `root.v.<lower k>s`, curated kept. -/
theorem single_name_table (root v : Str) (a : OutAsm) :
    (singleName root v a).scaffolds = a.scaffolds ∧
    (a.key = none →
      (singleName root v a).key = none ∧ (singleName root v a).name = root ++ '.' :: (v ++ ".primary".toList) ∧
      (singleName root v a).curated = a.curated) ∧
    (a.key = some sHaplotig →
      (singleName root v a).key = some "additional_haplotigs".toList ∧
      (singleName root v a).name = root ++ '.' :: (v ++ ".additional_haplotigs".toList) ∧
      (singleName root v a).curated = true) ∧
    (∀ k, a.key = some k → k ≠ sHaplotig →
      (singleName root v a).key = some k ∧
      (singleName root v a).name = root ++ '.' :: (v ++ '.' :: (lowerStr k ++ ['s'])) ∧
      (singleName root v a).curated = a.curated) := by
  refine ⟨singleName_scaffolds root v a, ?_, ?_, ?_⟩
  · intro h; unfold singleName; rw [h]; exact ⟨rfl, rfl, rfl⟩
  · intro h; unfold singleName; rw [h]; exact ⟨rfl, rfl, rfl⟩
  · intro k h hk
    have e : singleName root v a = { key := some k, name := dotJoin [root, v, lowerStr k ++ ['s']], curated := a.curated, scaffolds := a.scaffolds } := by
      unfold singleName; rw [h]; exact if_neg hk
    rw [e]; exact ⟨rfl, rfl, rfl⟩

/-- file written for the primary assembly (key `None`; it is curated: `C09.assembly_key_primary`) -/
theorem primary_file_name (root v suffix : Str) (a : OutAsm) (hk : a.key = none) (hc : a.curated = true) :
    outputFileName (singleName root v a) suffix = root ++ '.' :: (v ++ ".primary.curated".toList ++ suffix) := by
  obtain ⟨_, h, _⟩ := single_name_table root v a
  obtain ⟨_, hn, hcur⟩ := h hk
  unfold outputFileName; rw [hn, hcur, hc]; simp

/-- `Haplotig`-tagged pieces: `root.v.additional_haplotigs.curated<suffix>` whatever the input flag was -/
theorem additional_haplotigs_file_name (root v suffix : Str) (a : OutAsm) (hk : a.key = some sHaplotig) :
    outputFileName (singleName root v a) suffix =
      root ++ '.' :: (v ++ ".additional_haplotigs.curated".toList ++ suffix) := by
  obtain ⟨_, _, h, _⟩ := single_name_table root v a
  obtain ⟨_, hn, hcur⟩ := h hk
  unfold outputFileName; rw [hn, hcur]; simp

/-- `Contaminant` / `FalseDuplicate`-tagged pieces (not curated): `root.v.contaminants<suffix>`,
    `root.v.falseduplicates<suffix>` -/
theorem contaminants_file_name (root v suffix : Str) (a : OutAsm) (hk : a.key = some sContaminant)
    (hc : a.curated = false) :
    outputFileName (singleName root v a) suffix = root ++ '.' :: (v ++ ".contaminants".toList ++ suffix) := by
  obtain ⟨_, _, _, h⟩ := single_name_table root v a
  obtain ⟨_, hn, hcur⟩ := h sContaminant hk (by decide)
  unfold outputFileName; rw [hn, hcur, hc]
  have : lowerStr sContaminant ++ ['s'] = "contaminants".toList := by decide
  rw [this]; simp

theorem false_duplicates_file_name (root v suffix : Str) (a : OutAsm) (hk : a.key = some sFalseDuplicate)
    (hc : a.curated = false) :
    outputFileName (singleName root v a) suffix = root ++ '.' :: (v ++ ".falseduplicates".toList ++ suffix) := by
  obtain ⟨_, _, _, h⟩ := single_name_table root v a
  obtain ⟨_, hn, hcur⟩ := h sFalseDuplicate hk (by decide)
  unfold outputFileName; rw [hn, hcur, hc]
  have : lowerStr sFalseDuplicate ++ ['s'] = "falseduplicates".toList := by decide
  rw [this]; simp

/-- non-vacuity: primary + haplotigs + contaminants, `root = "xyz"`, `v = "1"` -/
def sc (n : String) : Scaffold := { name := n.toList }
def singleDemo : List OutAsm :=
  [{ key := none, curated := true, scaffolds := [sc "S1", sc "S2"] },
   { key := some sHaplotig, curated := false, scaffolds := [sc "H_1"] },
   { key := some sContaminant, curated := false, scaffolds := [sc "c1"] }]
example : ¬ HasKey singleDemo (some sPrimary) ∧ HasKey singleDemo none := by decide
example : (nameAssemblies singleDemo "xyz".toList "1".toList).map (·.map (fun n => (n.key, outputFileName n ".fa".toList, n.scaffolds.length))) =
    .ok [(none, "xyz.1.primary.curated.fa".toList, 2),
         (some "additional_haplotigs".toList, "xyz.1.additional_haplotigs.curated.fa".toList, 1),
         (some sContaminant, "xyz.1.contaminants.fa".toList, 1)] := by rfl

/-! ## A3  multi-haplotype branch -/

/-- **A3** neither a `Primary` nor a `None` key: never fails (the `None.lower()` AttributeError is unreachable here),
    same order, each renamed by `multiName`. -/
theorem name_multi_haplotype (asms : List OutAsm) (root v : Str)
    (hp : ¬ HasKey asms (some sPrimary)) (hn : ¬ HasKey asms none) :
    nameAssemblies asms root v = .ok (asms.map (multiName root v)) :=
  nameAssemblies_multi asms root v hp hn

/-- in this branch every key is `some` -/
theorem name_multi_haplotype_all_some (asms : List OutAsm) (hn : ¬ HasKey asms none) :
    ∀ a ∈ asms, ∃ k, a.key = some k := by
  intro a ha
  cases hk : a.key with
  | none => exact absurd ⟨a, ha, hk⟩ hn
  | some k => exact ⟨k, rfl⟩

/-- table: curated `k` ↦ `root.<lower k>.v.primary`, non-curated `k` ↦ `root.v.<lower k>s`; key, flag and scaffolds kept -/
theorem multi_name_table (root v : Str) (a : OutAsm) (k : Str) (hk : a.key = some k) :
    (multiName root v a).scaffolds = a.scaffolds ∧ (multiName root v a).key = some k ∧
    (multiName root v a).curated = a.curated ∧
    (a.curated = true → (multiName root v a).name = root ++ '.' :: (lowerStr k ++ '.' :: (v ++ ".primary".toList))) ∧
    (a.curated = false → (multiName root v a).name = root ++ '.' :: (v ++ '.' :: (lowerStr k ++ ['s']))) := by
  refine ⟨multiName_scaffolds root v a, ?_⟩
  unfold multiName; rw [hk]
  cases hc : a.curated
  · exact ⟨rfl, rfl, fun h => (by cases h), fun _ => rfl⟩
  · exact ⟨rfl, rfl, fun _ => rfl, fun h => (by cases h)⟩

def sHap1 : Str := "Hap1".toList
def sHap2 : Str := "Hap2".toList
def multiDemo : List OutAsm :=
  [{ key := some sHap1, curated := true, scaffolds := [sc "S1"] },
   { key := some sHap2, curated := true, scaffolds := [sc "S2"] },
   { key := some sContaminant, curated := false, scaffolds := [sc "c1"] }]
example : ¬ HasKey multiDemo (some sPrimary) ∧ ¬ HasKey multiDemo none := by decide
example : (nameAssemblies multiDemo "xyz".toList "1".toList).map (·.map (fun n => (n.key, outputFileName n ".fa".toList, n.scaffolds.length))) =
    .ok [(some sHap1, "xyz.hap1.1.primary.curated.fa".toList, 1),
         (some sHap2, "xyz.hap2.1.primary.curated.fa".toList, 1),
         (some sContaminant, "xyz.1.contaminants.fa".toList, 1)] := by rfl

/-! ## A2  `Primary` branch -/

/-- **A2** a `Primary` key present and no non-curated assembly keyed `None` (none exists: `None` is curated,
    `C09.assembly_key_primary`): never fails; first the assemblies that keep their own file, in order
    (`primaryName`), then — iff there is any other curated assembly — ONE merged assembly `all_haplotigs`. -/
theorem name_primary_branch (asms : List OutAsm) (root v : Str)
    (hp : HasKey asms (some sPrimary)) (hc : ∀ a ∈ asms, a.key = none → a.curated = true) :
    nameAssemblies asms root v = .ok (asms.filterMap (primaryName root v) ++ mergedPart root v asms) :=
  nameAssemblies_primary asms root v hp hc

/-- table: `Primary` ↦ `root.v.primary` (curated kept); other curated ↦ no file of its own; non-curated `k` ↦
    `root.v.<lower k>s` -/
theorem primary_name_table (root v : Str) (a : OutAsm) :
    (a.key = some sPrimary → primaryName root v a =
        some { key := some sPrimary, name := root ++ '.' :: (v ++ ".primary".toList), curated := a.curated,
               scaffolds := a.scaffolds }) ∧
    (a.key ≠ some sPrimary → a.curated = true → primaryName root v a = none) ∧
    (∀ k, a.key = some k → k ≠ sPrimary → a.curated = false → primaryName root v a =
        some { key := some k, name := root ++ '.' :: (v ++ '.' :: (lowerStr k ++ ['s'])), curated := false,
               scaffolds := a.scaffolds }) := by
  refine ⟨?_, ?_, ?_⟩
  · intro h; unfold primaryName; rw [if_pos h]; rfl
  · intro h hc; unfold primaryName; rw [if_neg h, if_pos hc]
  · intro k h hk hc; unfold primaryName
    rw [if_neg (by rw [h]; intro h'; cases h'; exact hk rfl), if_neg (by simp [hc])]; simp only [h]; rfl

/-- the merged assembly: all curated assemblies other than `Primary`, scaffolds concatenated in dict order -/
theorem merged_part_table (root v : Str) (asms : List OutAsm) :
    let os := asms.filter (fun a => a.key ≠ some sPrimary ∧ a.curated)
    (os = [] → mergedPart root v asms = []) ∧
    (os ≠ [] → mergedPart root v asms =
      [{ key := some "all_haplotigs".toList, name := root ++ '.' :: (v ++ ".all_haplotigs".toList), curated := true,
         scaffolds := os.flatMap (·.scaffolds) }]) := by
  intro os
  have : os = others asms := rfl
  rw [this]
  unfold mergedPart
  constructor
  · intro h; rw [h]; rfl
  · intro h
    have hne : (others asms).isEmpty = false := by
      cases ho : others asms with
      | nil => exact absurd ho h
      | cons x xs => rfl
    rw [hne]; rfl

/-- no scaffold is lost or duplicated by the merge -/
theorem name_primary_branch_perm (asms : List OutAsm) (root v : Str)
    (hc : ∀ a ∈ asms, a.key = none → a.curated = true) :
    (allNamedScaffolds (asms.filterMap (primaryName root v) ++ mergedPart root v asms)).Perm (allScaffolds asms) :=
  primary_perm root v asms hc

/-- the branch fails exactly when a NON-curated assembly keyed `None` exists (`None.lower()`), with AttributeError -/
theorem name_primary_branch_fails_iff (asms : List OutAsm) (root v : Str) (hp : HasKey asms (some sPrimary)) (e : Err) :
    nameAssemblies asms root v = .error e ↔ e = .attribute ∧ ∃ a ∈ asms, a.key = none ∧ a.curated = false := by
  by_cases hc : ∃ a ∈ asms, a.key = none ∧ a.curated = false
  · rw [nameAssemblies_primary_fails asms root v hp hc]
    constructor
    · intro h; cases h; exact ⟨rfl, hc⟩
    · intro h; rw [h.1]
  · have hc' : ∀ a ∈ asms, a.key = none → a.curated = true := by
      intro a ha hk
      cases hcur : a.curated with
      | true => rfl
      | false => exact absurd ⟨a, ha, hk, hcur⟩ hc
    rw [nameAssemblies_primary asms root v hp hc']
    constructor
    · intro h; cases h
    · intro h; exact absurd h.2 hc

def primaryDemo : List OutAsm :=
  [{ key := some sPrimary, curated := true, scaffolds := [sc "S1"] },
   { key := some sHap2, curated := true, scaffolds := [sc "S2"] },
   { key := some sContaminant, curated := false, scaffolds := [sc "c1"] },
   { key := none, curated := true, scaffolds := [sc "u1"] }]
example : HasKey primaryDemo (some sPrimary) ∧ ∀ a ∈ primaryDemo, a.key = none → a.curated = true := by decide
example : (nameAssemblies primaryDemo "xyz".toList "1".toList).map (·.map (fun n => (n.key, outputFileName n ".fa".toList, n.scaffolds.map (·.name)))) =
    .ok [(some sPrimary, "xyz.1.primary.curated.fa".toList, ["S1".toList]),
         (some sContaminant, "xyz.1.contaminants.fa".toList, ["c1".toList]),
         (some "all_haplotigs".toList, "xyz.1.all_haplotigs.curated.fa".toList, ["S2".toList, "u1".toList])] := by rfl
/-- nothing to merge: no `all_haplotigs` assembly -/
example : (nameAssemblies (primaryDemo.take 1) "xyz".toList "1".toList).map (·.map (·.key)) = .ok [some sPrimary] := by rfl
/-- the failing case -/
example : nameAssemblies [{ key := some sPrimary, curated := true, scaffolds := [] }, { key := none, curated := false, scaffolds := [] }]
    "xyz".toList "1".toList = .error .attribute := by rfl

/-! ## A4  conservation -/

/-- **A4a** in all branches: if `name_assemblies` returns, the scaffolds of the result are those of the input
    (as a multiset; in the two non-`Primary` branches even as a list). -/
theorem name_assemblies_conserves (asms : List OutAsm) (root v : Str) (l : List NamedAsm)
    (h : nameAssemblies asms root v = .ok l) :
    (allNamedScaffolds l).Perm (allScaffolds asms) ∧
    (¬ HasKey asms (some sPrimary) → allNamedScaffolds l = allScaffolds asms) := by
  by_cases hp : HasKey asms (some sPrimary)
  · have hc : ∀ a ∈ asms, a.key = none → a.curated = true := by
      intro a ha hk
      cases hcur : a.curated with
      | true => rfl
      | false => rw [nameAssemblies_primary_fails asms root v hp ⟨a, ha, hk, hcur⟩] at h; cases h
    rw [nameAssemblies_primary asms root v hp hc] at h
    cases h
    exact ⟨primary_perm root v asms hc, fun h' => absurd hp h'⟩
  · have : allNamedScaffolds l = allScaffolds asms := by
      by_cases hn : HasKey asms none
      · rw [nameAssemblies_single asms root v hp hn] at h; cases h
        exact flatMap_map_scaffolds _ _ (singleName_scaffolds root v)
      · rw [nameAssemblies_multi asms root v hp hn] at h; cases h
        exact flatMap_map_scaffolds _ _ (multiName_scaffolds root v)
    exact ⟨by rw [this], fun _ => this⟩

/-- **A4b** where the content of each written assembly comes from, exactly:
    * a NON-curated output is one non-curated input assembly, key and scaffolds unchanged;
    * a curated output is (i) one curated input assembly (scaffolds unchanged), or
      (ii) in the `Primary` branch the merged `all_haplotigs` = all curated non-`Primary` input assemblies, or
      (iii) — the only place where tagged, non-curated material becomes "curated" — in the single-haplotype branch
      the `Haplotig` input assembly, renamed `additional_haplotigs`. -/
theorem name_assemblies_curated_origin (asms : List OutAsm) (root v : Str) (l : List NamedAsm)
    (h : nameAssemblies asms root v = .ok l) :
    ∀ n ∈ l,
      (n.curated = false → ∃ a ∈ asms, a.curated = false ∧ a.key = n.key ∧ n.scaffolds = a.scaffolds) ∧
      (n.curated = true →
        (∃ a ∈ asms, a.curated = true ∧ n.scaffolds = a.scaffolds) ∨
        (HasKey asms (some sPrimary) ∧ n.key = some "all_haplotigs".toList ∧
          n.scaffolds = (asms.filter (fun a => a.key ≠ some sPrimary ∧ a.curated)).flatMap (·.scaffolds)) ∨
        (¬ HasKey asms (some sPrimary) ∧ HasKey asms none ∧ n.key = some "additional_haplotigs".toList ∧
          ∃ a ∈ asms, a.key = some sHaplotig ∧ n.scaffolds = a.scaffolds)) := by
  intro n hn
  by_cases hp : HasKey asms (some sPrimary)
  · have hc : ∀ a ∈ asms, a.key = none → a.curated = true := by
      intro a ha hk
      cases hcur : a.curated with
      | true => rfl
      | false => rw [nameAssemblies_primary_fails asms root v hp ⟨a, ha, hk, hcur⟩] at h; cases h
    rw [nameAssemblies_primary asms root v hp hc] at h
    cases h
    rcases List.mem_append.1 hn with hn | hn
    · obtain ⟨a, ha, hna⟩ := List.mem_filterMap.1 hn
      obtain ⟨t1, t2, t3⟩ := primary_name_table root v a
      by_cases hk : a.key = some sPrimary
      · rw [t1 hk] at hna; cases hna
        exact ⟨fun hcur => ⟨a, ha, hcur, hk, rfl⟩, fun hcur => .inl ⟨a, ha, hcur, rfl⟩⟩
      · cases hcur : a.curated with
        | true => rw [t2 hk hcur] at hna; cases hna
        | false =>
          cases hkk : a.key with
          | none => rw [hc a ha hkk] at hcur; cases hcur
          | some k =>
            rw [t3 k hkk (by intro h'; rw [h'] at hkk; exact hk hkk) hcur] at hna; cases hna
            exact ⟨fun _ => ⟨a, ha, hcur, hkk, rfl⟩, fun h' => by cases h'⟩
    · unfold mergedPart at hn
      split at hn
      · cases hn
      · rw [List.mem_singleton] at hn; subst hn
        exact ⟨fun h' => (by cases h'), fun _ => .inr (.inl ⟨hp, rfl, rfl⟩)⟩
  · by_cases hnk : HasKey asms none
    · rw [nameAssemblies_single asms root v hp hnk] at h; cases h
      obtain ⟨a, ha, rfl⟩ := List.mem_map.1 hn
      obtain ⟨ts, t1, t2, t3⟩ := single_name_table root v a
      cases hk : a.key with
      | none =>
        obtain ⟨e1, _, e3⟩ := t1 hk
        exact ⟨fun hcur => ⟨a, ha, by rw [← e3]; exact hcur, by rw [e1, hk], ts⟩,
               fun hcur => .inl ⟨a, ha, by rw [← e3]; exact hcur, ts⟩⟩
      | some k =>
        by_cases hh : k = sHaplotig
        · subst hh
          obtain ⟨e1, _, e3⟩ := t2 hk
          exact ⟨fun hcur => (by rw [e3] at hcur; cases hcur),
                 fun _ => .inr (.inr ⟨hp, hnk, e1, a, ha, hk, ts⟩)⟩
        · obtain ⟨e1, _, e3⟩ := t3 k hk hh
          exact ⟨fun hcur => ⟨a, ha, by rw [← e3]; exact hcur, by rw [e1, hk], ts⟩,
                 fun hcur => .inl ⟨a, ha, by rw [← e3]; exact hcur, ts⟩⟩
    · rw [nameAssemblies_multi asms root v hp hnk] at h; cases h
      obtain ⟨a, ha, rfl⟩ := List.mem_map.1 hn
      obtain ⟨k, hk⟩ := name_multi_haplotype_all_some asms hnk a ha
      obtain ⟨ts, e1, e3, _, _⟩ := multi_name_table root v a k hk
      exact ⟨fun hcur => ⟨a, ha, by rw [← e3]; exact hcur, by rw [e1, hk], ts⟩,
             fun hcur => .inl ⟨a, ha, by rw [← e3]; exact hcur, ts⟩⟩

/-- scaffold-level corollary: a scaffold in a curated output assembly comes from a curated input assembly, EXCEPT
    the documented `Haplotig ↦ additional_haplotigs` of the single-haplotype branch. -/
theorem name_assemblies_no_tagged_in_curated (asms : List OutAsm) (root v : Str) (l : List NamedAsm)
    (h : nameAssemblies asms root v = .ok l) (n : NamedAsm) (hn : n ∈ l) (hcur : n.curated = true)
    (s : Scaffold) (hs : s ∈ n.scaffolds) :
    (∃ a ∈ asms, a.curated = true ∧ s ∈ a.scaffolds) ∨
    (¬ HasKey asms (some sPrimary) ∧ HasKey asms none ∧ n.key = some "additional_haplotigs".toList ∧
      ∃ a ∈ asms, a.key = some sHaplotig ∧ s ∈ a.scaffolds) := by
  rcases (name_assemblies_curated_origin asms root v l h n hn).2 hcur with ⟨a, ha, hc, e⟩ | ⟨_, _, e⟩ | ⟨h1, h2, h3, a, ha, hk, e⟩
  · exact .inl ⟨a, ha, hc, e ▸ hs⟩
  · rw [e] at hs
    obtain ⟨a, ha, hsa⟩ := List.mem_flatMap.1 hs
    obtain ⟨ha1, ha2⟩ := List.mem_filter.1 ha
    exact .inl ⟨a, ha1, by simpa using (of_decide_eq_true ha2).2, hsa⟩
  · exact .inr ⟨h1, h2, h3, a, ha, hk, e ▸ hs⟩

/-- **keys of the result** — the result is a `dict` in Python: with pairwise different input keys the output keys are
    pairwise different PROVIDED no input assembly is already keyed `additional_haplotigs` / `all_haplotigs`
    (the key the branch invents).  Otherwise the model's list has that key twice — the Python dict then silently keeps
    only one of the two assemblies (see the `example` below). -/
theorem name_assemblies_keys_distinct (asms : List OutAsm) (root v : Str) (l : List NamedAsm)
    (h : nameAssemblies asms root v = .ok l) (hd : (asms.map (·.key)).Pairwise (· ≠ ·))
    (h1 : ¬ HasKey asms (some "additional_haplotigs".toList)) (h2 : ¬ HasKey asms (some "all_haplotigs".toList)) :
    (l.map (·.key)).Pairwise (· ≠ ·) := by
  by_cases hp : HasKey asms (some sPrimary)
  · have hc : ∀ a ∈ asms, a.key = none → a.curated = true := by
      intro a ha hk
      cases hcur : a.curated with
      | true => rfl
      | false => rw [nameAssemblies_primary_fails asms root v hp ⟨a, ha, hk, hcur⟩] at h; cases h
    rw [nameAssemblies_primary asms root v hp hc] at h
    cases h
    have hkeep : ∀ n ∈ asms.filterMap (primaryName root v), HasKey asms n.key := by
      intro n hn
      obtain ⟨a, ha, hna⟩ := List.mem_filterMap.1 hn
      refine ⟨a, ha, ?_⟩
      unfold primaryName at hna
      split at hna
      · rename_i hk; cases hna; exact hk
      · split at hna
        · cases hna
        · split at hna
          · rename_i hk; cases hna; exact hk
          · cases hna
    have hsub : ((asms.filterMap (primaryName root v)).map (·.key)).Sublist (asms.map (·.key)) := by
      clear hkeep hd h1 h2 hp hc
      induction asms with
      | nil => exact List.Sublist.slnil
      | cons x xs ih =>
        rw [List.filterMap_cons]
        cases hx : primaryName root v x with
        | none => exact List.Sublist.cons _ ih
        | some n =>
          have : n.key = x.key := by
            unfold primaryName at hx
            split at hx
            · rename_i hk; cases hx; exact hk.symm
            · split at hx
              · cases hx
              · split at hx
                · rename_i hk; cases hx; exact hk.symm
                · cases hx
          simp only [List.map_cons, this]
          exact List.Sublist.cons_cons _ ih
    rw [List.map_append, List.pairwise_append]
    refine ⟨hd.sublist hsub, ?_, ?_⟩
    · unfold mergedPart; split <;> simp
    · intro k hk k' hk'
      obtain ⟨n, hn, rfl⟩ := List.mem_map.1 hk
      unfold mergedPart at hk'
      split at hk'
      · cases hk'
      · simp only [List.map_cons, List.map_nil, List.mem_singleton] at hk'
        subst hk'
        intro heq
        exact h2 (by have := hkeep n hn; rw [heq] at this; exact this)
  · by_cases hnk : HasKey asms none
    · rw [nameAssemblies_single asms root v hp hnk] at h; cases h
      rw [List.map_map]
      -- `singleName` changes the key only for `Haplotig`, to a key that no input has
      have key_eq : ∀ a, (singleName root v a).key = if a.key = some sHaplotig then some "additional_haplotigs".toList else a.key := by
        intro a
        obtain ⟨_, t1, t2, t3⟩ := single_name_table root v a
        by_cases hk : a.key = some sHaplotig
        · rw [if_pos hk]; exact (t2 hk).1
        · rw [if_neg hk]
          cases hkk : a.key with
          | none => exact (t1 hkk).1
          | some k => exact (t3 k hkk (by intro h'; rw [h'] at hkk; exact hk hkk)).1
      clear hp hnk h2
      induction asms with
      | nil => exact List.Pairwise.nil
      | cons x xs ih =>
        rw [List.map_cons, List.pairwise_cons] at hd ⊢
        refine ⟨?_, ih hd.2 (fun ⟨a, ha, hk⟩ => h1 ⟨a, by simp [ha], hk⟩)⟩
        intro k hk
        obtain ⟨y, hy, rfl⟩ := List.mem_map.1 hk
        have hxy : x.key ≠ y.key := hd.1 _ (List.mem_map.2 ⟨y, hy, rfl⟩)
        simp only [Function.comp, key_eq]
        by_cases hxk : x.key = some sHaplotig
        · have hyk : y.key ≠ some sHaplotig := fun h' => hxy (hxk.trans h'.symm)
          rw [if_pos hxk, if_neg hyk]
          intro heq; exact h1 ⟨y, by simp [hy], heq.symm⟩
        · rw [if_neg hxk]
          by_cases hyk : y.key = some sHaplotig
          · rw [if_pos hyk]; intro heq; exact h1 ⟨x, by simp, heq⟩
          · rw [if_neg hyk]; exact hxy
    · rw [nameAssemblies_multi asms root v hp hnk] at h; cases h
      rw [List.map_map]
      have : ((fun n : NamedAsm => n.key) ∘ multiName root v) = fun a => a.key := by
        funext a
        simp only [Function.comp]
        unfold multiName
        split
        · rename_i hk; exact hk.symm
        · rename_i k hk; split <;> exact hk.symm
      -- only valid on the members, but `multiName` keeps the key of every assembly
      rw [this]; exact hd

/-- the side condition is needed: a haplotype/tag literally named `additional_haplotigs` next to `Haplotig`
    gives two assemblies with the same key (in Python the second assignment to `ret_asm[new_key]` replaces the first) -/
example : (nameAssemblies
      [{ key := none, curated := true, scaffolds := [sc "S1"] },
       { key := some "additional_haplotigs".toList, curated := true, scaffolds := [sc "x"] },
       { key := some sHaplotig, curated := false, scaffolds := [sc "H_1"] }] "xyz".toList "1".toList).map (·.map (·.key)) =
    .ok [none, some "additional_haplotigs".toList, some "additional_haplotigs".toList] := by rfl

example : (singleDemo.map (·.key)).Pairwise (· ≠ ·) ∧ ¬ HasKey singleDemo (some "additional_haplotigs".toList) ∧
    ¬ HasKey singleDemo (some "all_haplotigs".toList) := by decide

end AgpTpf.C09
