/-
  C19 over the SOURCE: the interval-predicate algebra, stated for the four predicates AS TRANSLATED from the current
  /repo/src/tola/assembly/fragment.py (`Gen/Kernels.lean`, regenerated on every run by harness/translate_kernels.py),
  not for the hand-written model.  `Proofs/Kernels.lean` proves model = translation; here the algebra is transported.
  A semantic change of `overlaps`, `overlap_length`, `abuts` or `gap_between` breaks these proofs for every input at once.
-/
import AgpTpf.Properties.C19
import AgpTpf.Proofs.Kernels
namespace AgpTpf.C19
open AgpTpf

/-- `Fragment.overlaps(self=a, othr=b)` as the source has it now -/
def srcOverlaps (a b : Fragment) : Bool :=
  Gen.K.Fragment_overlaps (self_name := a.name) (self_start := a.start) (self_end := a.stop)
    (othr_name := b.name) (othr_start := b.start) (othr_end := b.stop)
def srcOverlapLength (a b : Fragment) : Option Int :=
  Gen.K.Fragment_overlap_length (self_name := a.name) (self_start := a.start) (self_end := a.stop)
    (othr_name := b.name) (othr_start := b.start) (othr_end := b.stop)
def srcAbuts (a b : Fragment) : Bool :=
  Gen.K.Fragment_abuts (self_name := a.name) (self_start := a.start) (self_end := a.stop)
    (othr_name := b.name) (othr_start := b.start) (othr_end := b.stop)
def srcGapBetween (a b : Fragment) : Option Int :=
  Gen.K.Fragment_gap_between (self_name := a.name) (self_start := a.start) (self_end := a.stop)
    (othr_name := b.name) (othr_start := b.start) (othr_end := b.stop)

theorem src_overlaps (a b : Fragment) : srcOverlaps a b = a.overlaps b := (Kernels.fragment_overlaps_eq a b).symm
theorem src_overlap_length (a b : Fragment) : srcOverlapLength a b = a.overlapLength b :=
  (Kernels.fragment_overlap_length_eq a b).symm
theorem src_abuts (a b : Fragment) : srcAbuts a b = a.abuts b := (Kernels.fragment_abuts_eq a b).symm
theorem src_gap_between (a b : Fragment) : srcGapBetween a b = a.gapBetween b := (Kernels.fragment_gap_between_eq a b).symm

/-- the source's `overlaps` holds iff the two fragments name the same contig and share a base -/
theorem source_overlaps_iff_share_base (a b : Fragment) (ha : Valid a) (hb : Valid b) :
    srcOverlaps a b = true ↔ (a.name = b.name ∧ ∃ x, Covers a x ∧ Covers b x) := by
  rw [src_overlaps]; exact overlaps_iff_share_base a b ha hb

theorem source_overlaps_symm (a b : Fragment) : srcOverlaps a b = srcOverlaps b a := by
  rw [src_overlaps, src_overlaps]; exact overlaps_symm a b

theorem source_overlap_length_is_intersection_size (a b : Fragment) (n : Int) (h : srcOverlapLength a b = some n) :
    a.name = b.name ∧ 1 ≤ n ∧ ∃ lo, ∀ x, (Covers a x ∧ Covers b x) ↔ (lo ≤ x ∧ x < lo + n) := by
  rw [src_overlap_length] at h; exact overlap_length_is_intersection_size a b n h

theorem source_overlaps_iff_overlap_length (a b : Fragment) (ha : Valid a) (hb : Valid b) :
    srcOverlaps a b = true ↔ (srcOverlapLength a b).isSome = true := by
  rw [src_overlaps, src_overlap_length]; exact overlaps_iff_overlap_length a b ha hb

theorem source_abuts_iff_gap_zero (a b : Fragment) (ha : Valid a) (hb : Valid b) :
    srcAbuts a b = true ↔ srcGapBetween a b = some 0 := by
  rw [src_abuts, src_gap_between]; exact abuts_iff_gap_zero a b ha hb

/-- exactly one of overlap / abut / positive gap — for the source's predicates -/
theorem source_trichotomy (a b : Fragment) (ha : Valid a) (hb : Valid b) (hn : a.name = b.name) :
    (srcOverlaps a b = true ∧ srcAbuts a b = false ∧ srcGapBetween a b = none) ∨
    (srcOverlaps a b = false ∧ srcAbuts a b = true ∧ srcGapBetween a b = some 0) ∨
    (srcOverlaps a b = false ∧ srcAbuts a b = false ∧ ∃ g, 0 < g ∧ srcGapBetween a b = some g) := by
  rw [src_overlaps, src_abuts, src_gap_between]; exact trichotomy a b ha hb hn

/-- non-vacuity (evaluates the TRANSLATED code) -/
example : srcOverlaps { name := ['a'], start := 1, stop := 5, strand := 1 } { name := ['a'], start := 5, stop := 9, strand := 1 } = true ∧
    srcOverlapLength { name := ['a'], start := 1, stop := 5, strand := 1 } { name := ['a'], start := 5, stop := 9, strand := 1 } = some 1 ∧
    srcAbuts { name := ['a'], start := 1, stop := 5, strand := 1 } { name := ['a'], start := 6, stop := 9, strand := 1 } = true ∧
    srcGapBetween { name := ['a'], start := 1, stop := 5, strand := 1 } { name := ['a'], start := 10, stop := 12, strand := 1 } = some 4 := by
  decide

end AgpTpf.C19
