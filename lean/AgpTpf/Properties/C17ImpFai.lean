/-
  T1c / C17 — the `.fai` cache as the SOURCE has it: `FastaInfo.fai_row` and `FastaIndex.load_index` as translated from the Python
  (`Gen/Imp3.lean`) ARE the model's `faiRow` and `loadIndex` (`Model/Cli.lean`) — for ALL inputs: same index, same exception class
  (`ValueError` for a line without exactly five tab-separated fields — `PyRt.unpackN 5` against the model's five-element `match` — or
  with a non-integer number, the four `int(…)` evaluated in the same order), the error of the FIRST bad line.  A second `load_index`
  on a loaded index is `IndexUsageError`.  Composed with the model's round trip (`C17Warm.load_index_roundtrip*`): what the
  translated `fai_row` writes, the translated `load_index` reads back.  Helper lemmas: `Proofs/ImpFileIO.lean`.
-/
import AgpTpf.Proofs.ImpFileIO
import AgpTpf.Properties.C17Warm
namespace AgpTpf.C17
open AgpTpf AgpTpf.ImpFileIO

/-- 1. `fai_row`: the translated source never raises and returns the model's row -/
theorem fai_row_is_source (i : FastaInfo) (name : Str) : Gen.Imp.FastaInfo_fai_row i name = .ok (faiRow (name, i)) :=
  faiRowSrc_eq i name

example : Gen.Imp.FastaInfo_fai_row { length := 10, fileOffset := 3, rpl := 4, mll := 5 } "chr 1".toList =
    .ok "chr 1\t10\t3\t4\t5\n".toList := by rfl
example : Gen.Imp.FastaInfo_fai_row { length := -10, fileOffset := 0, rpl := 60, mll := 62 } [] =
    .ok "\t-10\t0\t60\t62\n".toList := by rfl

/-- 2. `load_index` on a fresh index (`self.index` empty) IS the model's `loadIndex`: results, exception classes, and which line's
    error comes first -/
theorem load_index_is_source (lines : List Str) : Gen.Imp.FastaIndex_load_index [] lines = loadIndex lines :=
  loadIndexSrc_eq lines

/-- two good lines -/
example : Gen.Imp.FastaIndex_load_index [] ["a\t10\t3\t4\t5\n".toList, "b\t4\t19\t4\t5\n".toList] =
    .ok [(['a'], { length := 10, fileOffset := 3, rpl := 4, mll := 5 }),
         (['b'], { length := 4, fileOffset := 19, rpl := 4, mll := 5 })] := by rfl
/-- a 4-field line: `ValueError` (not enough values to unpack) -/
example : Gen.Imp.FastaIndex_load_index [] ["a\t10\t3\t4\t5\n".toList, "b\t4\t19\t4\n".toList] = .error .value := by rfl
/-- a 6-field line (a tab in the name) -/
example : Gen.Imp.FastaIndex_load_index [] ["a\tb\t10\t3\t4\t5\n".toList] = .error .value := by rfl
/-- a non-numeric field: `ValueError` (invalid literal for int()) -/
example : Gen.Imp.FastaIndex_load_index [] ["a\t10\t3\tx\t5\n".toList, "b\t4\t19\t4\t5\n".toList] = .error .value := by rfl
/-- a repeated name: the later row wins, at the first position; what `int()` accepts (blanks, sign, underscore) is accepted -/
example : Gen.Imp.FastaIndex_load_index [] ["a\t10\t3\t4\t5\n".toList, "a\t 1_1\t+7\t4 \t5".toList] =
    .ok [(['a'], { length := 11, fileOffset := 7, rpl := 4, mll := 5 })] := by rfl

/-- … and on an index that is already loaded: `IndexUsageError`, whatever the file holds -/
theorem load_index_twice (idx : List (Str × FastaInfo)) (h : idx ≠ []) (lines : List Str) :
    Gen.Imp.FastaIndex_load_index idx lines = .error .usage :=
  loadIndexSrc_twice idx h lines

example : Gen.Imp.FastaIndex_load_index [(['a'], { length := 10, fileOffset := 3, rpl := 4, mll := 5 })]
    ["b\t4\t19\t4\t5\n".toList] = .error .usage := by rfl
example : [((['a'] : Str), ({ length := 10, fileOffset := 3, rpl := 4, mll := 5 } : FastaInfo))] ≠ [] := by decide

/-- one bad line anywhere (wrong number of columns or a non-integer number: `loadIndexLine` raises) fails the whole translated
    `load_index` with `ValueError` (the model's `load_index_rejects`, now about the source) -/
theorem load_index_source_rejects (lines : List Str) (l : Str) (hl : l ∈ lines) (e : Err) (he : loadIndexLine l = .error e) :
    Gen.Imp.FastaIndex_load_index [] lines = .error .value := by
  rw [load_index_is_source]; exact load_index_rejects lines l hl e he

example : "b\t4\t19\t4\n".toList ∈ ["a\t10\t3\t4\t5\n".toList, "b\t4\t19\t4\n".toList] ∧
    loadIndexLine "b\t4\t19\t4\n".toList = .error .value := ⟨by simp, by rfl⟩

/-- 3. THE SOURCE-LEVEL CACHE ROUND TRIP: the rows the translated `fai_row` writes for an index with pairwise different, TAB-free names
    are read back by the translated `load_index` as exactly that index — same entries, same order, same numbers (the model's
    `load_index_roundtrip`, now a statement about the two translated source functions). -/
theorem load_index_roundtrip_is_source (entries : List (Str × FastaInfo))
    (hok : ∀ e ∈ entries, '\t' ∉ e.1) (hd : (entries.map Prod.fst).Pairwise (· ≠ ·)) :
    (entries.mapM (fun r => Gen.Imp.FastaInfo_fai_row r.2 r.1) >>= fun rows => Gen.Imp.FastaIndex_load_index [] rows) =
      .ok entries := by
  rw [mapM_faiRowSrc]
  show Gen.Imp.FastaIndex_load_index [] (entries.map faiRow) = _
  rw [load_index_is_source, load_index_roundtrip entries hok hd]

/-- … and through the TEXT of the file (`write_index` concatenates the rows, `for line in idx` cuts the text at the newlines): names
    without tab and newline (`NameOk`) -/
theorem load_index_roundtrip_text_is_source (entries : List (Str × FastaInfo))
    (hok : ∀ e ∈ entries, CliFai.NameOk e.1) (hd : (entries.map Prod.fst).Pairwise (· ≠ ·)) :
    (entries.mapM (fun r => Gen.Imp.FastaInfo_fai_row r.2 r.1) >>= fun rows =>
      Gen.Imp.FastaIndex_load_index [] (pyLines rows.flatten)) = .ok entries := by
  rw [mapM_faiRowSrc]
  show Gen.Imp.FastaIndex_load_index [] (pyLines (entries.map faiRow).flatten) = _
  rw [load_index_is_source, (load_index_roundtrip_text entries hok hd).2]

/-- the hypotheses are satisfiable (`twoEntries` of `C17Warm`: names `a`, `b`), and the composition runs -/
example : (∀ e ∈ twoEntries, CliFai.NameOk e.1) ∧ (∀ e ∈ twoEntries, '\t' ∉ e.1) ∧ (twoEntries.map Prod.fst).Pairwise (· ≠ ·) := by decide
example : (twoEntries.mapM (fun r => Gen.Imp.FastaInfo_fai_row r.2 r.1) >>= fun rows =>
    Gen.Imp.FastaIndex_load_index [] (pyLines rows.flatten)) = .ok twoEntries := by rfl
/-- both hypotheses are needed, at the source level too: a tab in a name (six columns: `ValueError`); a repeated name (one entry) -/
example : ([("a\tb".toList, (⟨6, 4, 4, 6⟩ : FastaInfo))].mapM (fun r => Gen.Imp.FastaInfo_fai_row r.2 r.1) >>= fun rows =>
    Gen.Imp.FastaIndex_load_index [] rows) = .error .value := by rfl
example : ([(['a'], (⟨6, 4, 4, 6⟩ : FastaInfo)), (['a'], ⟨7, 20, 4, 6⟩)].mapM (fun r => Gen.Imp.FastaInfo_fai_row r.2 r.1) >>= fun rows =>
    Gen.Imp.FastaIndex_load_index [] rows) = .ok [(['a'], ⟨7, 20, 4, 6⟩)] := by rfl

end AgpTpf.C17
