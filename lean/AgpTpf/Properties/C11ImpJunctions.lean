/-
  C11 / T1c — the junction sets of the INPUT assembly: the model's `Scaffold.junctionSet` (Model/Basic.lean) and `junctionsByPrefix` /
  `asmPrefixOfName` (Model/Remap.lean) against the source's `Scaffold.fragment_junction_set` (assembly/scaffold.py: an ITERATOR walked
  with `next()` / `except StopIteration` inside `while True`) and `Assembly.fragment_junctions_by_asm_prefix` (assembly/assembly.py:
  `re.match(r"([A-Za-z]+\d+)_", …)`, `.lower()`, `setdefault(…).update(…)`) as translated by `harness/translate_imp.py` into `Gen.Imp`
  (Gen/Imp3.lean).  Helper lemmas: Proofs/ImpJunctions.lean.

  The `while True` loop is `PyRt.whileLoop` with explicit fuel: one pass per fragment after the first, and one more for the pass in which
  `next(itr)` raises StopIteration — `(Scaffold.fragments s).length` passes for a non-empty scaffold, none for an empty one.

  RESULTS
   1  `asm_prefix_match_is_model`              full strength, all names
   2  `scaffold_junction_set_is_source`        full strength (result, exception class, WHICH error comes first) for every
                                               `fuel ≥ (Scaffold.fragments s).length` (weaker than the `<` of the task; `…_lt` is the task's form)
      `scaffold_junction_set_fuel_too_small`   every smaller fuel: the first error among the first `fuel` junction tuples, else `Err.other` —
      `scaffold_junction_set_fuel_tight`       never `.ok`: the bound of 2 is exact for every scaffold whose junction set exists
   3  `junctions_by_prefix_is_source`          full strength for every `fuel ≥` the number of fragments of each scaffold
   4  `assembly_junction_set_closed`           `Assembly.fragment_junction_set` with the translated scaffold method in place of the oracle
      `make_stats_closed_partial`              `C11.make_stats_is_source_partial` (keys pairwise different — the full statement is false, see
      `make_stats_counts_closed`               C11Imp.lean) and `C11.make_stats_counts_is_source` (no hypothesis on the keys) with the translated
      `make_stats_closed_normal_form`          `fragment_junctions_by_asm_prefix` in place of the oracle `junctionsByPrefix input`
-/
import AgpTpf.Gen.Imp3
import AgpTpf.Proofs.ImpJunctions
import AgpTpf.Properties.C11Imp
namespace AgpTpf.C11
open AgpTpf ImpStats ImpJunctions

/-! ### the worked input: four scaffolds under the prefixes `hap1`, `hap2`, none, `hap1` again, and an empty one -/

def hA (strand : Int) : Fragment := { name := ['H', 'a', 'p', '1', '_', 'c', '1'], start := 1, stop := 10, strand := strand }
def hB (strand : Int) : Fragment := { name := ['H', 'a', 'p', '1', '_', 'c', '2'], start := 5, stop := 5, strand := strand }
def hA2 (strand : Int) : Fragment := { name := ['H', 'a', 'p', '1', '_', 'c', '1'], start := 11, stop := 20, strand := strand }
def hC (strand : Int) : Fragment := { name := ['h', 'A', 'P', '2', '_', 'x'], start := 1, stop := 7, strand := strand }
def hD (strand : Int) : Fragment := { name := ['c', 't', 'g', '_', '9'], start := 3, stop := 4, strand := strand }

/-- four fragments of mixed strands, with a gap -/
def scJ1 : Scaffold := { name := ['s', '1'], rows := [.frag (hA 1), gap100, .frag (hB (-1)), .frag (hA2 (-1)), gap100, .frag (hB 1)] }
def scJ2 : Scaffold := { name := ['s', '2'], rows := [.frag (hC 1), .frag (hC (-1))] }
def scJ3 : Scaffold := { name := ['s', '3'], rows := [.frag (hD (-1)), .frag (hA 1)] }
/-- prefix `hap1` again: one junction that `scJ1` has too (`c1 -|- c2`), one new -/
def scJ4 : Scaffold := { name := ['s', '4'], rows := [.frag (hA 1), .frag (hB (-1)), .frag (hD 1)] }
def scEmpty : Scaffold := { name := ['s', '0'], rows := [gap100] }
/-- a strand-0 fragment in second place -/
def scBad : Scaffold := { name := ['s', '5'], rows := [.frag (hA 1), .frag (hB 0), .frag (hA2 1)] }

/-! ## 1. the regex -/

/-- `m.group(1).lower() if m else None` for `m = re.match(r"([A-Za-z]+\d+)_", name)` is the model's `asmPrefixOfName` -/
theorem asm_prefix_match_is_model (name : Str) : (PyRt.asmPrefixMatch name).map lowerStr = asmPrefixOfName name :=
  asmPrefixMatch_lower name

example : PyRt.asmPrefixMatch (hC 1).name = some ['h', 'A', 'P', '2'] ∧ asmPrefixOfName (hC 1).name = some ['h', 'a', 'p', '2'] ∧
    PyRt.asmPrefixMatch (hD 1).name = none ∧ PyRt.asmPrefixMatch ['a', 'b', '_'] = none ∧ PyRt.asmPrefixMatch ['1', '2', '_'] = none := by
  decide

/-! ## 2. `Scaffold.fragment_junction_set` -/

/-- With one unit of fuel per fragment the source's iterator loop IS the model's `Scaffold.junctionSet`: the same set in the same
    insertion order, and when a junction tuple raises (a strand that is not ±1) the same exception for the same — first — pair: the
    model computes all tuples and then the set, the source adds them one by one, and `sAdd` cannot fail. -/
theorem scaffold_junction_set_is_source (s : Scaffold) (fuel : Nat) (h : (Scaffold.fragments s).length ≤ fuel) :
    Gen.Imp.Scaffold_fragment_junction_set fuel s = s.junctionSet :=
  scaffoldJunctionSetSrc_eq s fuel h

/-- the form asked for in the task (a stronger hypothesis) -/
theorem scaffold_junction_set_is_source_lt (s : Scaffold) (fuel : Nat) (h : (Scaffold.fragments s).length < fuel) :
    Gen.Imp.Scaffold_fragment_junction_set fuel s = s.junctionSet :=
  scaffoldJunctionSetSrc_eq s fuel (Nat.le_of_lt h)

example : (Scaffold.fragments scJ1).length ≤ 4 := by decide

/-- the generated function on four fragments (+ − − +, two gaps), with exactly 4 units of fuel -/
example : Gen.Imp.Scaffold_fragment_junction_set 4 scJ1
    = .ok [(.s (hA 1).name, .i 10, .i 5, .s (hB 1).name), (.s (hA 1).name, .i 20, .s (hB 1).name, .i 5),
           (.i 5, .s (hB 1).name, .s (hA 1).name, .i 11)] := by
  decide +kernel

/-- an empty scaffold (a gap only): the empty set, whatever the fuel — `next(itr)` raises at once -/
example : Gen.Imp.Scaffold_fragment_junction_set 0 scEmpty = .ok [] ∧ scEmpty.junctionSet = .ok [] := by decide +kernel

/-- a strand-0 fragment in second place: ValueError from the first junction tuple, on both sides -/
example : Gen.Imp.Scaffold_fragment_junction_set 3 scBad = .error .value ∧ scBad.junctionSet = .error .value := by decide +kernel

/-- Too little fuel: the source gets to the first `fuel` junction tuples (those of the first `fuel + 1` fragments); it raises the first
    error among them, and reports `Err.other` (out of fuel) when there is none. -/
theorem scaffold_junction_set_fuel_too_small (s : Scaffold) (fuel : Nat) (h : fuel < (Scaffold.fragments s).length) :
    Gen.Imp.Scaffold_fragment_junction_set fuel s
      = (junctionsOfFrags ((Scaffold.fragments s).take (fuel + 1)) >>= fun _ => .error .other) :=
  scaffoldJunctionSetSrc_short s fuel h

/-- … so it never returns a set: `(Scaffold.fragments s).length` is the least fuel with which the source returns what the model does,
    for every scaffold that has a junction set at all -/
theorem scaffold_junction_set_fuel_tight (s : Scaffold) (fuel : Nat) (h : fuel < (Scaffold.fragments s).length) (js : List Junction) :
    Gen.Imp.Scaffold_fragment_junction_set fuel s ≠ .ok js := by
  rw [scaffoldJunctionSetSrc_short s fuel h]
  cases junctionsOfFrags ((Scaffold.fragments s).take (fuel + 1)) <;> simp [bind, Except.bind]

/-- one unit short on `scJ1`: out of fuel; one unit on `scBad`: the ValueError is reached before the fuel runs out -/
example : Gen.Imp.Scaffold_fragment_junction_set 3 scJ1 = .error .other ∧
    Gen.Imp.Scaffold_fragment_junction_set 1 scBad = .error .value ∧
    Gen.Imp.Scaffold_fragment_junction_set 0 scBad = .error .other := by decide +kernel

/-! ## 3. `Assembly.fragment_junctions_by_asm_prefix` -/

/-- the source's loop over the scaffolds (skip an empty one; prefix of the FIRST fragment's name, lower-cased, or `None`;
    `setdefault(asm_name, set()).update(scffld.fragment_junction_set())`) is the model's `junctionsByPrefix` -/
theorem junctions_by_prefix_is_source (scs : List Scaffold) (fuel : Nat)
    (h : ∀ s ∈ scs, (Scaffold.fragments s).length ≤ fuel) :
    Gen.Imp.Assembly_fragment_junctions_by_asm_prefix fuel scs = junctionsByPrefix scs :=
  junctionsByPrefixSrc_eq scs fuel h

/-- the task's form -/
theorem junctions_by_prefix_is_source_lt (scs : List Scaffold) (fuel : Nat)
    (h : ∀ s ∈ scs, (Scaffold.fragments s).length < fuel) :
    Gen.Imp.Assembly_fragment_junctions_by_asm_prefix fuel scs = junctionsByPrefix scs :=
  junctionsByPrefixSrc_eq scs fuel (fun s hs => Nat.le_of_lt (h s hs))

def inJ : List Scaffold := [scJ1, scEmpty, scJ2, scJ3, scJ4]

example : ∀ s ∈ inJ, (Scaffold.fragments s).length ≤ 4 := by decide

/-- the generated function on it: keys in first-insertion order `hap1`, `hap2`, `None`; `scJ4` adds ONE junction to the set of `hap1`
    in place (its other junction is there already) -/
example : Gen.Imp.Assembly_fragment_junctions_by_asm_prefix 4 inJ
    = .ok [(some ['h', 'a', 'p', '1'],
             [(.s (hA 1).name, .i 10, .i 5, .s (hB 1).name), (.s (hA 1).name, .i 20, .s (hB 1).name, .i 5),
              (.i 5, .s (hB 1).name, .s (hA 1).name, .i 11), (.i 3, .s (hD 1).name, .s (hB 1).name, .i 5)]),
           (some ['h', 'a', 'p', '2'], [(.s (hC 1).name, .i 7, .i 7, .s (hC 1).name)]),
           (none, [(.i 3, .s (hD 1).name, .s (hA 1).name, .i 1)])] := by
  rfl

/-- a bad strand in any scaffold: ValueError; fuel for the longest scaffold but one: out of fuel -/
example : Gen.Imp.Assembly_fragment_junctions_by_asm_prefix 4 (inJ ++ [scBad]) = .error .value ∧
    Gen.Imp.Assembly_fragment_junctions_by_asm_prefix 3 inJ = .error .other := ⟨rfl, rfl⟩

/-! ## 4. the oracles of `C11Imp.lean` replaced by the translated source -/

/-- `Assembly.fragment_junction_set` (the loop `junctions |= scffld.fragment_junction_set()`) with the TRANSLATED scaffold method for the
    call: the model's `Assembly.junctionSet` -/
theorem assembly_junction_set_closed (scs : List Scaffold) (fuel : Nat)
    (h : ∀ s ∈ scs, (Scaffold.fragments s).length ≤ fuel) :
    Gen.Imp.Assembly_fragment_junction_set scs (Gen.Imp.Scaffold_fragment_junction_set fuel)
      = ({ scaffolds := scs } : Assembly).junctionSet := by
  rw [assembly_junction_set_source_loop, Assembly.junctionSet]
  exact foldlM_congr_mem _ _ scs (fun s hs acc => by rw [scaffoldJunctionSetSrc_eq s fuel (h s hs)]) []

example : (Gen.Imp.Assembly_fragment_junction_set inJ (Gen.Imp.Scaffold_fragment_junction_set 4)).map List.length = .ok 6 := by
  decide +kernel

/-- what the source's `make_stats` computes for ALL inputs (`C11.make_stats_source_normal_form`), the input junction sets computed by
    the translated `fragment_junctions_by_asm_prefix` -/
theorem make_stats_closed_normal_form (input : List Scaffold) (outs : List OutAsm) (b0 j0 : Int)
    (per0 : List (Str × List (Str × Int))) (fuel : Nat) (hf : ∀ s ∈ input, (Scaffold.fragments s).length ≤ fuel) :
    Gen.Imp.AssemblyStats_make_stats b0 j0 per0 (outs.map (fun a => (a.key, ({ scaffolds := a.scaffolds } : Assembly))))
        (Gen.Imp.Assembly_fragment_junctions_by_asm_prefix fuel input) =
      (junctionsByPrefix input >>= fun inSets =>
       outSetsOf outs >>= fun outSets =>
       let tb := sDiff (unionOf inSets) (unionOf outSets)
       let tj := sDiff (unionOf outSets) (unionOf inSets)
       .ok ((tb.length : Int), (tj.length : Int),
            (outSets.foldl (fun d p => dSet d p.1 p.2) []).foldl (perStepS inSets tb tj) per0)) := by
  rw [junctionsByPrefixSrc_eq input fuel hf]
  exact make_stats_source_normal_form input outs b0 j0 per0

/- FULL statement (FALSE — the counter-example of C11Imp.lean: keys None, "", None): the same without `hk`. -/
/-- `make_stats` on output assemblies with pairwise different keys, the input side computed by the translated source: exactly the
    model's `breaks`, `joins`, per-assembly numbers and exception class -/
theorem make_stats_closed_partial (input : List Scaffold) (outs : List OutAsm) (cuts b0 j0 : Int) (fuel : Nat)
    (hf : ∀ s ∈ input, (Scaffold.fragments s).length ≤ fuel) (hk : (outs.map (·.key)).Nodup) :
    Gen.Imp.AssemblyStats_make_stats b0 j0 [] (outs.map (fun a => (a.key, ({ scaffolds := a.scaffolds } : Assembly))))
        (Gen.Imp.Assembly_fragment_junctions_by_asm_prefix fuel input)
      = (makeStats input outs cuts).map (fun st => (st.breaks, st.joins, perToSrc st.perAssembly)) := by
  rw [junctionsByPrefixSrc_eq input fuel hf]
  exact make_stats_is_source_partial input outs cuts b0 j0 hk

/-- `breaks`, `joins` and the exception class: no hypothesis on the keys or on the incoming records -/
theorem make_stats_counts_closed (input : List Scaffold) (outs : List OutAsm) (cuts b0 j0 : Int)
    (per0 : List (Str × List (Str × Int))) (fuel : Nat) (hf : ∀ s ∈ input, (Scaffold.fragments s).length ≤ fuel) :
    (Gen.Imp.AssemblyStats_make_stats b0 j0 per0 (outs.map (fun a => (a.key, ({ scaffolds := a.scaffolds } : Assembly))))
        (Gen.Imp.Assembly_fragment_junctions_by_asm_prefix fuel input)).map (fun r => (r.1, r.2.1))
      = (makeStats input outs cuts).map (fun st => (st.breaks, st.joins)) := by
  rw [junctionsByPrefixSrc_eq input fuel hf]
  exact make_stats_counts_is_source input outs cuts b0 j0 per0

example : (∀ s ∈ inImp, (Scaffold.fragments s).length ≤ 2) ∧ (outImp.map (·.key)).Nodup := by decide

/-- the worked example of C11Imp.lean, no oracle left: breaks = 1, joins = 1, one record for "Primary" -/
example :
    Gen.Imp.AssemblyStats_make_stats 7 9 [] (outImp.map (fun a => (a.key, ({ scaffolds := a.scaffolds } : Assembly))))
        (Gen.Imp.Assembly_fragment_junctions_by_asm_prefix 2 inImp)
      = .ok (1, 1, [("Primary".toList, [("manual_breaks".toList, 1), ("manual_joins".toList, 1)])]) := by
  rfl

end AgpTpf.C11
