/-
  C02 / C07 / C08, spec side — "every edit script PretextView can produce" as a Lean object.

  Model: `Model/Pretext.lean` (`Script`, `wfScript`, `ptxOf`, `nullScript`; Python twin
  `/verif/harness/remap_lib.py::pretext_script`, `null_script`).  Helpers: `Proofs/C02S*.lean`.
  Texel size `β = p/q ≥ 1` (`q ≥ 1`, `p ≥ q`); `coord p q t = ⌊t·β⌋`; `errLen p q = 1 + ⌊β⌋`.

  PROVED (all at full strength for the stated hypotheses; no `_partial` theorem in this file)
    E   `err_len_of_header_text`    `errLen` IS what `errLengthOfText` computes from the decimal text of β (any exact
                                    way of writing β as a fraction); `err_len_of_integer_header`.
    S1  `script_pieces_tile`        the pieces of one input scaffold of a well-formed script, in scaffold order: not empty,
                                    sorted by start and pairwise disjoint, consecutive ones abut, the first starts at 1, the
                                    last ends at `⌊T·β⌋`; floor choice: `⌊T·β⌋ ≤ L < ⌊T·β⌋ + 1 + β` (so `L − ⌊T·β⌋ ≤ errLen`);
                                    ceiling choice: `L ≤ ⌊T·β⌋ < L + β` (so `⌊T·β⌋ − L < errLen`).
    S2  `script_piece_long`         every piece has at least `⌊β⌋ = errLen − 1` bases; when the scaffold is cut, or has at
                                    least 2 texels, at least `⌊2β⌋ ≥ 2·(errLen − 1) ≥ errLen` bases (sharp: `piece_long_sharp`).
    S3  `null_script_unedited`      the map of the null script IS `pieces.map Piece.ptx` and satisfies `C08.Unedited` at
                                    `errLen` whenever the INPUT side conditions hold (`NullInputOk`);
        `null_script_painted`       likewise `C08.PaintedOk` / `Piece.pptx` when everything is painted;
        `null_script_reproduces_input`   hence `C08.unedited_map_reproduces_input` is a theorem about every null script.
    S4  `aligned_script_is_Aligned` a well-formed script all of whose interior cuts fall BETWEEN contigs (at a contig
                                    boundary or inside a gap: `CleanScript`) gives a `C02.Aligned` map at `errLen`
                                    (unpainted), resp. `C02.AlignedP` (`aligned_painted_script_is_AlignedP`);
        `aligned_script_rearranges` hence `C02.aligned_map_rearranges` is a theorem about such scripts.
    S5  `script_claimed_iff`        the contig in row `k` of an input scaffold is claimed by (= returned by the lookup of)
                                    some piece of a well-formed script iff the scaffold is present and the contig begins
                                    at or before `⌊T·β⌋` — for floor AND ceiling choice;
        `script_leftovers_are_suffix`    the unclaimed contigs are the contigs of a SUFFIX of the scaffold's rows
                                    (`rows.drop (tailStart rows ⌊T·β⌋)`), all rows for an absent scaffold;
        `ceil_script_no_leftovers`  with the ceiling choice a present scaffold has no left-over at all.

    S4' `deep_script_is_DeepCut`    a well-formed, unpainted script whose interior cuts each fall between contigs OR deeper
                                    than `3·errLen` inside a contig (`DeepScript`; any number of cuts per contig) gives a map
                                    in the class `C02.DeepCutN` of `Properties/C02Deep.lean`;
        `deep_script_rearranges`    hence `C02.deep_map_rearranges` is a theorem about such scripts;
        `deep_script_site`          the cut sites, in script terms: two consecutive pieces of one input scaffold that both meet
                                    a contig form a `SiteOk` site of it.

  FOUND FALSE (statement of the task, kept as a finding): "every cut within `errLen` of a contig boundary ⇒ `Aligned`".
    `cut_near_boundary_not_aligned`: a cut 4 bases inside a contig (errLen = 9) gives a map that is NOT `Aligned` — the
    contig is looked up by both neighbouring pieces (`disjoint` fails) and sticks out of one of them by more than `errLen`
    (`startOk` fails).  `Aligned` needs cuts that no contig straddles; cuts a few bases inside a contig are handled by
    `trim_large_overhangs` (evaluated: `cut_near_boundary_still_remaps`) but are outside the class `Aligned`.
-/
import AgpTpf.Proofs.C02SCheck
import AgpTpf.Proofs.C02SLeft
import AgpTpf.Proofs.C02SErr
import AgpTpf.Proofs.C02SDeepE
import AgpTpf.Properties.C02Deep
import AgpTpf.Properties.C08
import AgpTpf.Properties.C02Aligned
namespace AgpTpf.C02
open AgpTpf AgpTpf.Pretext
open AgpTpf.C12 (rowSpan meets)

/-! ## E — the error length -/

/-- **`errLen` is what the remapper computes.**  If the header text `n.fr` (decimal digits) denotes `β = p/q` exactly —
    `p·10^k = (n·10^k + value(fr))·q`, `k = |fr|` — then `errLengthOfText` returns `errLen p q = 1 + ⌊p/q⌋`. -/
theorem err_len_of_header_text (p q n : Nat) (fr : Str) (hq : 0 < q) (hf : ∀ c ∈ fr, isDigit c = true)
    (hexact : p * 10 ^ fr.length = (n * 10 ^ fr.length + digitsVal 0 fr) * q) :
    errLengthOfText (natToStr n ++ '.' :: fr) = .ok ((errLen p q : Nat) : Int) :=
  errLen_of_text p q n fr hq hf hexact

theorem err_len_of_integer_header (n : Nat) : errLengthOfText (natToStr n) = .ok ((errLen n 1 : Nat) : Int) :=
  errLen_of_integer_text n

/-- β = 10.75 = 43/4: header text `10.750000`, error length 11 -/
example : errLengthOfText "10.750000".toList = .ok ((errLen 43 4 : Nat) : Int) := by decide
example : (43 : Nat) * 10 ^ "750000".toList.length = (10 * 10 ^ "750000".toList.length + digitsVal 0 "750000".toList) * 4 := by
  decide
example : errLen 43 4 = 11 ∧ coord 43 4 3 = 32 ∧ floorT 43 4 100 = 9 ∧ ceilT 43 4 100 = 10 := by decide

/-! ## S1 — the pieces of one scaffold tile `[1, ⌊T·β⌋]` -/

/-- **S1.**  `P` = the pieces of input scaffold `i` (length `L`, `T` texels) in scaffold order, `E = ⌊T·β⌋`. -/
theorem script_pieces_tile {input : List Scaffold} {s : Script} (hw : wfScript input s = true) {i : Nat}
    {sc : Scaffold} {c : ScafScript} (hsc : input[i]? = some sc) (hc : s.scafs[i]? = some c)
    (hp : c.present = true) :
    let P := c.spans s.p s.q
    let L := scafLen sc
    let E := coord s.p s.q c.T
    P ≠ [] ∧ (∀ x ∈ P, x.1 ≤ x.2) ∧
    P.Pairwise (fun x y => x.2 < y.1) ∧                                        -- sorted by start, pairwise disjoint
    (∀ n x y, P[n]? = some x → P[n + 1]? = some y → x.2 + 1 = y.1) ∧           -- consecutive pieces abut
    (∀ x, P.head? = some x → x.1 = 1) ∧ (∀ x, P.getLast? = some x → x.2 = E) ∧  -- from 1 to ⌊T·β⌋
    (c.T = floorT s.p s.q L ∨ c.T = ceilT s.p s.q L ∨ (floorT s.p s.q L = 0 ∧ c.T = 1)) ∧
    (floorT s.p s.q L = 0 → 1 ≤ L → ceilT s.p s.q L = 1) ∧                     -- the third case is the ceiling choice
    (c.T = floorT s.p s.q L → E ≤ L ∧ L * s.q < E * s.q + s.q + s.p ∧ L - E ≤ errLen s.p s.q) ∧
    (c.T = ceilT s.p s.q L → L ≤ E ∧ E * s.q < L * s.q + s.p ∧ E - L < errLen s.p s.q) := by
  intro P L E
  have hw' := wfScript_spec hw
  have hq := hw'.hq
  have hpq := hw'.hpq
  have hwf := hw'.scaf i sc c hsc hc
  have hinc := wf_inc hwf hp
  have hP : P = spansFrom s.p s.q 0 (c.cuts ++ [c.T]) := spans_present hp
  have habut : AbutFrom 1 E P := by
    have := spansFrom_abut s.p s.q 0 c.T c.cuts
    rw [coord_zero] at this
    rw [hP]; exact this
  refine ⟨?_, ?_, ?_, ?_, ?_, ?_, (wf_present hwf hp).1, ?_, ?_, ?_⟩
  · intro e
    have := congrArg List.length e
    rw [hP, spansFrom_length] at this
    simp at this
  · intro x hx
    rw [hP] at hx
    exact (spansFrom_bounds hq hpq hinc hx).2.1
  · rw [hP]; exact spansFrom_pairwise hq hpq hinc
  · intro n x y hx hy
    exact habut.next hx hy
  · intro x hx
    cases hl : P with
    | nil => rw [hl] at hx; cases hx
    | cons a r =>
      rw [hl] at hx habut
      cases hx
      exact habut.1
  · intro x hx
    exact habut.last hx
  · intro h0 hL
    exact ceilT_eq_one s.p s.q L hq hpq hL h0
  · intro e
    show coord s.p s.q c.T ≤ L ∧ L * s.q < coord s.p s.q c.T * s.q + s.q + s.p ∧ L - coord s.p s.q c.T ≤ errLen s.p s.q
    rw [e]
    exact ⟨coord_floorT_le s.p s.q L hq hpq, lt_coord_floorT s.p s.q L hq hpq, floorT_undershoot s.p s.q L hq hpq⟩
  · intro e
    show L ≤ coord s.p s.q c.T ∧ coord s.p s.q c.T * s.q < L * s.q + s.p ∧ coord s.p s.q c.T - L < errLen s.p s.q
    rw [e]
    exact ⟨le_coord_ceilT s.p s.q L hq hpq, coord_ceilT_lt s.p s.q L hq hpq, ceilT_overshoot s.p s.q L hq hpq⟩

/-! ## S2 — piece lengths -/

/-- **S2.**  Every piece has at least `errLen − 1 = ⌊β⌋` bases (a scaffold of ONE texel is shown as one piece).  When the
    scaffold is cut at all, or has at least two texels, every piece has at least `⌊2β⌋` bases, hence at least
    `2·(errLen − 1)` and at least `errLen`; and fewer than `d·β + 1` for a piece of `d` texels (`coord_diff_lt`). -/
theorem script_piece_long {input : List Scaffold} {s : Script} (hw : wfScript input s = true) {i : Nat}
    {sc : Scaffold} {c : ScafScript} (hsc : input[i]? = some sc) (hc : s.scafs[i]? = some c)
    (hp : c.present = true) :
    ∀ x ∈ c.spans s.p s.q,
      errLen s.p s.q - 1 ≤ x.2 + 1 - x.1 ∧
      ((c.cuts ≠ [] ∨ 2 ≤ c.T) →
        coord s.p s.q 2 ≤ x.2 + 1 - x.1 ∧ 2 * (errLen s.p s.q - 1) ≤ x.2 + 1 - x.1 ∧ errLen s.p s.q ≤ x.2 + 1 - x.1) := by
  intro x hx
  have hw' := wfScript_spec hw
  have hq := hw'.hq
  have hpq := hw'.hpq
  have hwf := hw'.scaf i sc c hsc hc
  rw [spans_present hp] at hx
  have hinc := wf_inc hwf hp
  have h1 : Steps 1 0 (c.cuts ++ [c.T]) := by
    have : ∀ (l : List Nat) (a : Nat), Inc a l → Steps 1 a l := by
      intro l
      induction l with
      | nil => intro a _; trivial
      | cons b r ih => intro a h; exact ⟨h.1, ih b h.2⟩
    exact this _ _ hinc
  have hc1 : coord s.p s.q 1 = errLen s.p s.q - 1 := by unfold coord errLen; simp
  refine ⟨by rw [← hc1]; exact spansFrom_long hq h1 hx, ?_⟩
  intro hor
  have h2 : Steps 2 0 (c.cuts ++ [c.T]) := by
    rcases (wf_present hwf hp).2.2 with e | h
    · rcases hor with h' | h'
      · exact absurd e h'
      · rw [e]; exact ⟨by omega, trivial⟩
    · exact h
  have hlong := spansFrom_long hq h2 hx
  have hm := mul_floor_le_coord s.p s.q 2 hq
  have he := errLen_ge_two s.p s.q hq hpq
  have : errLen s.p s.q - 1 = s.p / s.q := by unfold errLen; omega
  refine ⟨hlong, by omega, by omega⟩

/-! ## S3 — the null script -/

/-- **S3.**  The null script — no cuts, identity permutation, forward, one piece per Pretext scaffold, nothing painted —
    of any well-formed choice of texel counts: its map is literally the list of one-piece scaffolds `C08` is about, and it
    satisfies `C08.Unedited` at the error length `1 + ⌊β⌋`, whenever the side conditions of that predicate on the INPUT
    hold (`NullInputOk`: names and contig keys pairwise different; shown scaffolds well-formed, not haplotype-named, the
    map reaching into their last contig; absent scaffolds beginning and ending with a contig, untagged). -/
theorem null_script_unedited {input : List Scaffold} {p q : Nat} {Ts : List (Option Nat)}
    (hw : wfScript input (nullScript p q Ts false) = true) (hin : NullInputOk input p q Ts) :
    ptxOf input (nullScript p q Ts false) = (nullPieces input p q Ts).map C08.Piece.ptx ∧
    C08.Unedited input (nullPieces input p q Ts) (errLen p q : Int) := by
  have hw' := wfScript_spec hw
  exact ⟨ptxOf_null input p q Ts false (nullScript_length hw'), null_unedited hw' hin⟩

/-- **S3, painted**: `C08.PaintedOk`, provided no absent input scaffold is itself called `Scaffold_<n>`. -/
theorem null_script_painted {input : List Scaffold} {p q : Nat} {Ts : List (Option Nat)}
    (hw : wfScript input (nullScript p q Ts true) = true) (hin : NullInputOk input p q Ts)
    (hdis : ∀ sc, (sc, none) ∈ input.zip Ts → ∀ n, sc.name ≠ scaffoldName n) :
    ptxOf input (nullScript p q Ts true) = (nullPieces input p q Ts).map C08.Piece.pptx ∧
    C08.PaintedOk input (nullPieces input p q Ts) (errLen p q : Int) := by
  have hw' := wfScript_spec hw
  exact ⟨ptxOf_null input p q Ts true (nullScript_length hw'), null_paintedOk hw' hin hdis⟩

/-- the side condition "the map reaches into the last contig" holds whenever the last contig is at least `1 + β` long
    (floor or ceiling choice): `L − ⌊T·β⌋ < 1 + β ≤ |last contig|` -/
theorem reach_of_long_last_contig {p q : Nat} (hq : 1 ≤ q) (hpq : q ≤ p) {sc : Scaffold} {c : ScafScript}
    (hwf : c.wf p q (scafLen sc) = true) (hp : c.present = true) (hw : C08.WfRows sc.rows) {r : Row}
    (hr : sc.rows.getLast? = some r) (hlong : (q : Int) + p ≤ r.length * q) :
    C08.lastFragmentStart sc.rows ≤ (coord p q c.T : Int) := by
  rw [C08.lastFragmentStart_eq _ _ hr]
  have hL : 1 ≤ sc.length := hw.rowsLength_pos
  have hLn : ((scafLen sc : Nat) : Int) = sc.length := by unfold scafLen; omega
  have hL1 : 1 ≤ scafLen sc := by unfold scafLen; omega
  show sc.length - r.length + 1 ≤ _
  -- in every case `L·q < ⌊T·β⌋·q + q + p`
  have key : (scafLen sc) * q < coord p q c.T * q + q + p := by
    rcases (wf_present hwf hp).1 with e | e | ⟨e0, e1⟩
    · rw [e]; exact lt_coord_floorT p q _ hq hpq
    · rw [e]
      have := le_coord_ceilT p q (scafLen sc) hq hpq
      have := Nat.mul_le_mul_right q this
      omega
    · have hc := ceilT_eq_one p q (scafLen sc) hq hpq hL1 e0
      rw [e1, ← hc]
      have := le_coord_ceilT p q (scafLen sc) hq hpq
      have := Nat.mul_le_mul_right q this
      omega
  have key' : sc.length * q < (coord p q c.T : Int) * q + q + p := by
    rw [← hLn]; exact_mod_cast key
  -- (L − E)·q < q + p ≤ last·q  ⇒  L − E < last
  have hq0 : (0 : Int) < q := by omega
  have : (sc.length - (coord p q c.T : Int)) * q < r.length * q := by
    rw [Int.sub_mul]; omega
  have := Int.lt_of_mul_lt_mul_right this (by omega)
  omega

/-- **C08 for every null script**: `unedited_map_reproduces_input` applies to the map of any null script. -/
theorem null_script_reproduces_input {input : List Scaffold} {p q : Nat} {Ts : List (Option Nat)}
    (hw : wfScript input (nullScript p q Ts false) = true) (hin : NullInputOk input p q Ts) (prefix_ : Str)
    (joinGap : Option Gap) (hne : input ≠ [])
    (hstr : ∀ sc ∈ input, ∀ f ∈ sc.fragments, f.strand = 1 ∨ f.strand = -1) :
    ∃ scs stats, remap input (ptxOf input (nullScript p q Ts false)) prefix_ joinGap (errLen p q : Int) =
        .ok ([{ key := none, curated := true, scaffolds := scs }], stats) ∧
      (scs.map (fun s => (s.name, s.rows))).Perm (input.map (fun s => (s.name, s.rows))) ∧
      (∀ s ∈ scs, s.tag = none ∧ s.haplotype = none ∧ s.rank = 3) ∧
      stats.cuts = 0 ∧ stats.breaks = 0 ∧ stats.joins = 0 := by
  obtain ⟨e, hu⟩ := null_script_unedited hw hin
  obtain ⟨scs, stats, h1, -, h3, h4, -, h6, h7, h8⟩ :=
    C08.unedited_map_reproduces_input input _ prefix_ joinGap _ hu hne hstr
  exact ⟨scs, stats, by rw [e]; exact h1, h3, h4, h6, h7, h8⟩

/-! ## S4 — clean cuts give aligned maps -/

/-- **S4.**  A well-formed, unpainted script is `Aligned` at the error length `1 + ⌊β⌋` when
    * `CleanScript`: per present scaffold, no contig straddles an interior cut (the cut falls at a contig boundary or
      inside a gap), a contig straddling the END `⌊T·β⌋` of the last piece sticks out by at most `errLen`, and every
      piece touches a contig (a piece lying wholly inside a gap has no lookup result);
    * `InputOk`: scaffold names and contig keys pairwise different, no negative row length, contigs ≥ 1 bp;
    * `HeadsOk`: the input scaffold of the first piece of each Pretext scaffold is not named like a haplotype scaffold;
    * `TailOk`: the contigs the map cannot claim (S5: absent scaffolds, contigs beginning behind `⌊T·β⌋`) are untagged and
      not named like haplotype scaffolds.
    (Checkers: `cleanScriptB`, `inputOkB`, `headsOkB`, `tailOkB` with `…_of_check`.) -/
theorem aligned_script_is_Aligned {input : List Scaffold} {s : Script} (hw : wfScript input s = true)
    (hin : InputOk input) (hcl : CleanScript input s) (hh : HeadsOk input s) (ht : TailOk input s)
    (hup : ∀ g ∈ s.groups, g.painted = false) :
    Aligned input (ptxOf input s) (errLen s.p s.q : Int) :=
  script_aligned (wfScript_spec hw) hin hcl hh ht hup

/-- **S4, painted**: every Pretext scaffold painted ⇒ `AlignedP`. -/
theorem aligned_painted_script_is_AlignedP {input : List Scaffold} {s : Script} (hw : wfScript input s = true)
    (hin : InputOk input) (hcl : CleanScript input s) (hh : HeadsOk input s) (ht : TailOk input s)
    (hpt : ∀ g ∈ s.groups, g.painted = true) :
    AlignedP input (ptxOf input s) (errLen s.p s.q : Int) :=
  script_alignedP (wfScript_spec hw) hin hcl hh ht hpt

/-- the hypotheses, spelled out -/
theorem clean_script_def (input : List Scaffold) (s : Script) :
    CleanScript input s ↔
      ∀ (i : Nat) (sc : Scaffold) (c : ScafScript), input[i]? = some sc → s.scafs[i]? = some c → c.present = true →
        (∀ t ∈ c.cuts, ∀ k f, sc.rows[k]? = some (.frag f) →
          (rowSpan sc.rows k).2 ≤ (coord s.p s.q t : Int) ∨ (coord s.p s.q t : Int) < (rowSpan sc.rows k).1) ∧
        (∀ k f, sc.rows[k]? = some (.frag f) → (rowSpan sc.rows k).1 ≤ (coord s.p s.q c.T : Int) →
          (rowSpan sc.rows k).2 - (coord s.p s.q c.T : Int) ≤ (errLen s.p s.q : Int)) ∧
        (∀ ab ∈ c.spans s.p s.q, ∃ k, meets sc.rows ab.1 ab.2 k = true) := by
  constructor
  · intro h i sc c hi hc hp
    exact ⟨(h i sc c hi hc hp).cuts, (h i sc c hi hc hp).last, (h i sc c hi hc hp).touch⟩
  · intro h i sc c hi hc hp
    exact ⟨(h i sc c hi hc hp).1, (h i sc c hi hc hp).2.1, (h i sc c hi hc hp).2.2⟩

/-- in a clean script the lookups are even sharper than `Aligned` asks: no piece's result sticks out at its START at all,
    and at its END only the last piece of a scaffold can stick out (by at most `errLen`) -/
theorem clean_piece_overhangs {input : List Scaffold} {s : Script} (hw : wfScript input s = true)
    (hin : InputOk input) (hcl : CleanScript input s) {S : Scaffold} (hS : S ∈ ptxOf input s) {p : Fragment}
    (hp : p ∈ S.fragments) :
    (lookupPiece input p).isSome = true ∧ (pieceO input p).startOverhang ≤ 0 ∧
      (pieceO input p).endOverhang ≤ (errLen s.p s.q : Int) := by
  have hw' := wfScript_spec hw
  obtain ⟨g, n, hg, -, -, hfr⟩ := mem_ptxOf hS
  rw [hfr] at hp
  unfold groupFrags at hp
  obtain ⟨y, hy, hyp⟩ := List.mem_filterMap.1 hp
  have hbx : (g.painted, y) ∈ itemsT s := by
    unfold itemsT
    exact List.mem_flatMap.2 ⟨g, mem_of_getElem? hg, List.mem_map_of_mem hy⟩
  exact piece_lookup_ok hw' hin.toInputBase hcl hbx hyp

/-- **C02 for every clean script**: `aligned_map_rearranges` applies (`NoClash`: the output names — each Pretext scaffold
    is named after the input scaffold of its first piece — are pairwise different; see `same_first_scaffold_is_fused`). -/
theorem aligned_script_rearranges {input : List Scaffold} {s : Script} (hw : wfScript input s = true)
    (hin : InputOk input) (hcl : CleanScript input s) (hh : HeadsOk input s) (ht : TailOk input s)
    (hup : ∀ g ∈ s.groups, g.painted = false) (prefix_ : Str) (jg : Gap)
    (hnc : NoClash input (ptxOf input s) jg)
    (hstr : ∀ sc ∈ input, ∀ f ∈ sc.fragments, f.strand = 1 ∨ f.strand = -1) :
    ∃ stats, remap input (ptxOf input s) prefix_ (some jg) (errLen s.p s.q : Int) =
        .ok (primaryOnly (expectedScaffolds input (ptxOf input s) jg), stats) ∧ stats.cuts = 0 :=
  aligned_map_rearranges input _ prefix_ jg _ (aligned_script_is_Aligned hw hin hcl hh ht hup) hnc hstr

/-! ## S5 — which contigs are left over -/

/-- **S5, per contig.**  In a well-formed script (floor or ceiling choice alike) the contig in row `k` of input scaffold
    `i` is claimed — returned by the lookup of some piece of the map — iff the scaffold is present and the contig begins
    at or before `⌊T·β⌋`.  (Contigs of at least 1 bp; a 0 bp contig exactly at a cut is claimed by neither neighbour.) -/
theorem script_claimed_iff {input : List Scaffold} {s : Script} (hw : wfScript input s = true) (hin : InputOk input)
    {i : Nat} {sc : Scaffold} {c : ScafScript} (hsc : input[i]? = some sc) (hc : s.scafs[i]? = some c)
    {k : Nat} {f : Fragment} (hk : sc.rows[k]? = some (.frag f)) :
    f.keyTuple ∈ claimedKeys input (ptxOf input s) ↔
      c.present = true ∧ (rowSpan sc.rows k).1 ≤ (coord s.p s.q c.T : Int) :=
  claimed_iff (wfScript_spec hw) hin.toInputBase hsc hc hk
    (hin.fragPos sc (mem_of_getElem? hsc) f (frag_mem_fragments hk))

/-- "claimed" means: in the lookup result of a piece of the map -/
theorem claimed_keys_def (input ptx : List Scaffold) (key : Key) :
    key ∈ claimedKeys input ptx ↔
      ∃ S ∈ ptx, ∃ p ∈ S.fragments, ∃ f ∈ fragmentsOf (pieceO input p).rows, f.keyTuple = key := by
  unfold claimedKeys pieceKeys
  simp only [List.mem_flatMap, List.mem_map]

/-- **S5.**  The contigs of an input scaffold that no piece's lookup returns — what `add_missing_scaffolds_from_input`
    will output as the left-over scaffold (`leftover_exact`) — are exactly the contigs of a SUFFIX of the scaffold's rows:
    the rows from `tailStart rows ⌊T·β⌋` on (the first row beginning behind `⌊T·β⌋`), all rows for an absent scaffold. -/
theorem script_leftovers_are_suffix {input : List Scaffold} {s : Script} (hw : wfScript input s = true)
    (hin : InputOk input) {i : Nat} {sc : Scaffold} {c : ScafScript} (hsc : input[i]? = some sc)
    (hc : s.scafs[i]? = some c) :
    (fragmentsOf sc.rows).filter (fun f => !(claimedKeys input (ptxOf input s)).contains f.keyTuple) =
      fragmentsOf (sc.rows.drop (if c.present then tailStart sc.rows (coord s.p s.q c.T : Int) else 0)) :=
  leftovers_suffix (wfScript_spec hw) hin.toInputBase hin.fragPos hsc hc

/-- what `tailStart` is: rows before it begin at or before `E`, rows from it on begin behind `E` -/
theorem tail_start_spec (rows : List Row) (hlen : ∀ r ∈ rows, 0 ≤ r.length) (E : Int) (k : Nat) (hk : k < rows.length) :
    k < tailStart rows E ↔ (rowSpan rows k).1 ≤ E :=
  tailStart_spec rows hlen E k hk

/-- with the CEILING choice (`L ≤ ⌊T·β⌋`) a present scaffold has no left-over contig -/
theorem ceil_script_no_leftovers {input : List Scaffold} {s : Script} (hw : wfScript input s = true)
    (hin : InputOk input) {i : Nat} {sc : Scaffold} {c : ScafScript} (hsc : input[i]? = some sc)
    (hc : s.scafs[i]? = some c) (hp : c.present = true) (hceil : sc.length ≤ (coord s.p s.q c.T : Int)) :
    (fragmentsOf sc.rows).filter (fun f => !(claimedKeys input (ptxOf input s)).contains f.keyTuple) = [] := by
  rw [List.filter_eq_nil_iff]
  intro f hf
  obtain ⟨k, hk⟩ := List.mem_iff_getElem?.1 (mem_frags.1 hf)
  have hmem : sc ∈ input := mem_of_getElem? hsc
  have hlen := hin.lens sc hmem
  have hcl := (script_claimed_iff hw hin hsc hc hk).2 ⟨hp, by
    -- the row begins inside the scaffold
    have hkl : k < sc.rows.length := by
      by_cases h : k < sc.rows.length
      · exact h
      · rw [List.getElem?_eq_none (by omega)] at hk; cases hk
    have h1 := C12.pre_mono sc.rows hlen (k + 1) sc.rows.length (by omega)
    have h2 := rowSpan_len sc.rows k _ hk
    have h3 : C12.pre sc.rows sc.rows.length = sc.length := by simp [C12.pre, Scaffold.length]
    have h4 := hin.fragPos sc hmem f hf
    rw [rowSpan_snd] at h2
    simp only [Row.length] at h2
    omega⟩
  have : (claimedKeys input (ptxOf input s)).contains f.keyTuple = true := by simpa using hcl
  rw [this]; decide

/-! ## non-vacuity: the rearrangement of `C02Aligned`'s example as a script (texel 8 bp) -/

private def g10 : Gap := { length := 10, gapType := "scaffold".toList }
private def g5 : Gap := { length := 5, gapType := "scaffold".toList }
private def jg : Gap := { length := 200, gapType := "scaffold".toList }
private def a1 : Fragment := { oid := 1, name := "ctgA1".toList, start := 1, stop := 100, strand := 1 }
private def a2 : Fragment := { oid := 2, name := "ctgA2".toList, start := 1, stop := 50, strand := -1 }
private def a3 : Fragment := { oid := 3, name := "ctgA3".toList, start := 1, stop := 40, strand := 1 }
private def b1 : Fragment := { oid := 4, name := "ctgB1".toList, start := 1, stop := 80, strand := 1 }
private def b2 : Fragment := { oid := 5, name := "ctgB2".toList, start := 1, stop := 60, strand := 1 }
private def c1 : Fragment := { oid := 6, name := "ctgC1".toList, start := 1, stop := 3, strand := 1 }
/-- 210 bp: a1 1-100, gap, a2 111-160 (reverse contig), gap, a3 171-210 -/
private def sA : Scaffold := { name := "scaffold_1".toList, rows := [.frag a1, .gap g10, .frag a2, .gap g10, .frag a3] }
/-- 145 bp: b1 1-80, gap, b2 86-145 -/
private def sB : Scaffold := { name := "scaffold_2".toList, rows := [.frag b1, .gap g5, .frag b2] }
/-- 3 bp: below one texel, not in the map -/
private def sC : Scaffold := { name := "scaffold_3".toList, rows := [.frag c1] }
private def inp : List Scaffold := [sA, sB, sC]

/-- The edits of `C02Aligned`'s example (same input), as PretextView can really produce them at 8 bp per texel.
    [`C02Aligned`'s own coordinates — cuts at 104 and 82, ends 210 and 145 — are not texel multiples at ANY texel size for
    which the 3 bp scaffold is absent (searched all `p/q`, `q < 40`, `p < 40·q`), so that example is an `Aligned` map but
    not a PretextView script; here the ends are rounded as Pretext rounds them.]
    `scaffold_1`: 27 texels (ceiling, 216 ≥ 210), cut after texel 13 (104, inside the first gap);
    `scaffold_2`: 18 texels (floor, 144 < 145), cut after texel 10 (80, the contig boundary); `scaffold_3`: absent.
    `Scaffold_1` = tail of A reversed + head of B; `Scaffold_2` = tail of B + head of A. -/
private def scr : Script :=
  { p := 8, q := 1,
    scafs := [{ T := 27, cuts := [13] }, { T := 18, cuts := [10] }, { present := false }],
    groups := [{ items := [{ sc := 0, k := 1, minus := true }, { sc := 1, k := 0 }] },
               { items := [{ sc := 1, k := 1 }, { sc := 0, k := 0 }] }],
    gap := jg }

private def pc (n : Str) (s e st : Int) : Row := .frag { name := n, start := s, stop := e, strand := st }

example : wfScript inp scr = true := by decide
example : errLen scr.p scr.q = 9 := by decide
/-- the map of the script, evaluated -/
example : ptxOf inp scr =
    [{ name := "Scaffold_1".toList, rows := [pc sA.name 105 216 (-1), .gap jg, pc sB.name 1 80 1] },
     { name := "Scaffold_2".toList, rows := [pc sB.name 81 144 1, .gap jg, pc sA.name 1 104 1] }] := by decide
example : InputOk inp := inputOk_of_check (by decide)
example : CleanScript inp scr := cleanScript_of_check (by decide +kernel)
example : HeadsOk inp scr ∧ TailOk inp scr := ⟨headsOk_of_check (by decide +kernel), tailOk_of_check (by decide +kernel)⟩
example : ∀ g ∈ scr.groups, g.painted = false := by decide
example : NoClash inp (ptxOf inp scr) jg := by unfold NoClash; decide +kernel
example : ∀ sc ∈ inp, ∀ f ∈ sc.fragments, f.strand = 1 ∨ f.strand = -1 := by decide

/-- S1 / S2 on `scaffold_1`: pieces `[1,104]`, `[105,216]`; on `scaffold_2`: `[1,80]`, `[81,144]` -/
example : (scr.scafs.map (fun c => c.spans scr.p scr.q)) = [[(1, 104), (105, 216)], [(1, 80), (81, 144)], []] := by decide

/-- what the theorem gives: `Aligned`, independently re-checked by the Bool checker of `C02Aligned` -/
example : alignedB inp (ptxOf inp scr) 9 = true := by decide +kernel

/-- `remap` evaluated by the kernel, independently of the theorems: the specified output, no cuts -/
example : (remap inp (ptxOf inp scr) "SUPER_".toList (some jg) 9).toOption.map (·.1) =
    some (primaryOnly (expectedScaffolds inp (ptxOf inp scr) jg)) := by decide +kernel

example : (expectedScaffolds inp (ptxOf inp scr) jg).map (fun s => (s.name, s.rows)) =
    [(sA.name, [.frag a3.reverse, .gap g10, .frag a2.reverse, .gap jg, .frag b1]),
     (sB.name, [.frag b2, .gap jg, .frag a1]),
     (sC.name, [.frag c1])] := by decide +kernel

/-- S5 on the example: nothing of `scaffold_1` (ceiling) or `scaffold_2` (floor, but the last contig begins at 86 ≤ 144) is
    left over; all of the absent `scaffold_3` is -/
example : tailStart sA.rows 216 = 5 ∧ tailStart sB.rows 144 = 3 := by decide
example : inp.map (fun sc => (fragmentsOf sc.rows).filter
      (fun f => !(claimedKeys inp (ptxOf inp scr)).contains f.keyTuple)) = [[], [], [c1]] := by decide +kernel

/-- the same edits painted: `AlignedP` -/
private def scrP : Script := { scr with groups := scr.groups.map (fun g => { g with painted := true }) }
example : wfScript inp scrP = true ∧ (∀ g ∈ scrP.groups, g.painted = true) := by decide
example : CleanScript inp scrP ∧ HeadsOk inp scrP ∧ TailOk inp scrP :=
  ⟨cleanScript_of_check (by decide +kernel), headsOk_of_check (by decide +kernel), tailOk_of_check (by decide +kernel)⟩
example : alignedPB inp (ptxOf inp scrP) 9 = true := by decide +kernel

/-! ### a fractional texel size: β = 21/2 -/

/-- `scaffold_1` (210 bp) = exactly 20 texels of 10.5 bp, cut after texels 2 and 10; `scaffold_2` (145 bp): 13 texels
    (floor; 136), uncut; `scaffold_3` (3 bp) shown as ONE texel (`T = 1`, the case the generator allows).
    Default separator (`pretextGap`, 100 bp). -/
private def scrF : Script :=
  { p := 21, q := 2,
    scafs := [{ T := 20, cuts := [2, 10] }, { T := 13 }, { T := 1 }],
    groups := [{ items := [{ sc := 0, k := 2 }, { sc := 2, k := 0, minus := true }], painted := true },
               { items := [{ sc := 0, k := 0 }] },
               { items := [{ sc := 1, k := 0 }, { sc := 0, k := 1, minus := true }] }] }

example : wfScript inp scrF = true := by decide
example : errLen 21 2 = 11 ∧ errLengthOfText "10.5".toList = .ok 11 := by decide
example : (scrF.scafs.map (fun c => c.spans scrF.p scrF.q)) =
    [[(1, 21), (22, 105), (106, 210)], [(1, 136)], [(1, 10)]] := by decide
/-- S2 is sharp: the piece `[1, 21]` has exactly `⌊2β⌋ = 21` bases; the one-texel piece `[1, 10]` exactly `⌊β⌋ = errLen − 1` -/
theorem piece_long_sharp : coord 21 2 2 = 21 ∧ errLen 21 2 - 1 = 10 ∧
    (scrF.scafs.map (fun c => (c.spans scrF.p scrF.q).map (fun x => x.2 + 1 - x.1))) = [[21, 84, 105], [136], [10]] := by
  decide
private def pcP (n : Str) (s e st : Int) : Row := .frag { name := n, start := s, stop := e, strand := st, tags := [sPainted] }
example : ptxOf inp scrF =
    [{ name := "Scaffold_1".toList, rows := [pcP sA.name 106 210 1, .gap pretextGap, pcP sC.name 1 10 (-1)] },
     { name := "Scaffold_2".toList, rows := [pc sA.name 1 21 1] },
     { name := "Scaffold_3".toList, rows := [pc sB.name 1 136 1, .gap pretextGap, pc sA.name 22 105 (-1)] }] := by decide
/-- not a script: a piece used twice / a cut one texel from the end / a texel count that is neither floor nor ceiling -/
example : wfScript inp { scrF with groups := scrF.groups ++ [{ items := [{ sc := 1, k := 0 }] }] } = false ∧
    wfScript inp { scrF with scafs := [{ T := 20, cuts := [2, 19] }, { T := 13 }, { T := 1 }] } = false ∧
    wfScript inp { scrF with scafs := [{ T := 20, cuts := [2, 10] }, { T := 15 }, { T := 1 }] } = false := by decide

/-! ### the null script of `C08`'s example input (texel 8 bp) -/

private def d1 : Fragment := { oid := 1, name := "ctg1".toList, start := 1, stop := 100, strand := 1 }
private def d2 : Fragment := { oid := 2, name := "ctg2".toList, start := 1, stop := 55, strand := -1 }
private def d3 : Fragment := { oid := 3, name := "ctg3".toList, start := 1, stop := 3, strand := 1 }
private def d4 : Fragment := { oid := 4, name := "ctg4".toList, start := 1, stop := 20, strand := 1 }
private def d5 : Fragment := { oid := 5, name := "ctg5".toList, start := 1, stop := 2, strand := -1 }
private def gg1 : Gap := { length := 1, gapType := "contig".toList }
/-- 165 bp -/
private def t1 : Scaffold := { name := "scaffold_1".toList, rows := [.frag d1, .gap g10, .frag d2] }
/-- 7 bp: shorter than a texel, absent -/
private def t2 : Scaffold := { name := "scaffold_2".toList, rows := [.frag d3, .gap gg1, .gap gg1, .frag d5] }
/-- 20 bp -/
private def t3 : Scaffold := { name := "scaffold_10".toList, rows := [.frag d4] }
private def inpN : List Scaffold := [t1, t2, t3]
/-- `scaffold_1` rounded DOWN to 20 texels (160), `scaffold_2` absent, `scaffold_10` rounded UP to 3 texels (24) -/
private def TsN : List (Option Nat) := [some 20, none, some 3]

example : wfScript inpN (nullScript 8 1 TsN false) = true := by decide
example : NullInputOk inpN 8 1 TsN := nullInputOk_of_check (by decide +kernel)
example : ptxOf inpN (nullScript 8 1 TsN false) =
    [{ name := "Scaffold_1".toList, rows := [pc t1.name 1 160 1] },
     { name := "Scaffold_2".toList, rows := [pc t3.name 1 24 1] }] := by decide
example : (nullPieces inpN 8 1 TsN).map (fun p => (p.pname, p.sc.name, p.stop)) =
    [("Scaffold_1".toList, t1.name, 160), ("Scaffold_2".toList, t3.name, 24)] := by decide
example : inpN ≠ [] ∧ ∀ sc ∈ inpN, ∀ f ∈ sc.fragments, f.strand = 1 ∨ f.strand = -1 := by decide
/-- `remap` on it, evaluated independently of the theorems: the input comes back -/
example : (remap inpN (ptxOf inpN (nullScript 8 1 TsN false)) "SUPER_".toList (some jg) 9).toOption.map
      (fun r => r.1.map (fun a => a.scaffolds.map (fun s => (s.name, s.rows)))) =
    some [[(t1.name, t1.rows), (t2.name, t2.rows), (t3.name, t3.rows)]] := by decide +kernel
/-- painted: the extra hypothesis of `null_script_painted` -/
example : wfScript inpN (nullScript 8 1 TsN true) = true ∧
    ∀ sc, (sc, none) ∈ inpN.zip TsN → ∀ n, sc.name ≠ scaffoldName n := by
  refine ⟨by decide, ?_⟩
  intro sc h n e
  have hz : inpN.zip TsN = [(t1, some 20), (t2, none), (t3, some 3)] := rfl
  rw [hz] at h
  have h1 : ∀ m, (scaffoldName m).head? = some 'S' := fun _ => rfl
  have h2 : t2.name.head? = some 's' := by decide
  rcases List.mem_cons.1 h with h | h
  · cases (Prod.mk.inj h).2
  · rcases List.mem_cons.1 h with h | h
    · have hsc := (Prod.mk.inj h).1
      rw [← hsc, e, h1] at h2
      cases h2
    · rcases List.mem_cons.1 h with h | h
      · cases (Prod.mk.inj h).2
      · cases h
/-- `reach_of_long_last_contig` applies to `scaffold_1`: the last contig (55 bp) is longer than `1 + β = 9` -/
example : C08.lastFragmentStart t1.rows ≤ (coord 8 1 20 : Int) :=
  reach_of_long_last_contig (p := 8) (q := 1) (sc := t1) (c := { T := 20 }) (r := .frag d2) (by decide) (by decide)
    (by decide) rfl (C08.wfRows_of_check _ (by decide)) (by decide) (by decide)

/-! ## FINDING: "cut within `errLen` of a contig boundary ⇒ `Aligned`" is false -/

/-- one scaffold, 210 bp: w1 1-100, gap 101-110, w2 111-210 -/
private def w1 : Fragment := { oid := 1, name := "ctgW1".toList, start := 1, stop := 100, strand := 1 }
private def w2 : Fragment := { oid := 2, name := "ctgW2".toList, start := 1, stop := 100, strand := 1 }
private def sW : Scaffold := { name := "scaffold_1".toList, rows := [.frag w1, .gap g10, .frag w2] }
/-- texel 8 bp (`errLen = 9`), 26 texels (floor; 208), ONE cut after texel 12: 96 | 97 — FOUR bases inside `ctgW1`, well
    within `errLen` of the contig boundary 100 | 101.  Pieces `[1,96]`, `[97,208]`, each its own Pretext scaffold. -/
private def scrW : Script :=
  { p := 8, q := 1, scafs := [{ T := 26, cuts := [12] }],
    groups := [{ items := [{ sc := 0, k := 0 }] }, { items := [{ sc := 0, k := 1 }] }] }

example : wfScript [sW] scrW = true := by decide
example : InputOk [sW] ∧ HeadsOk [sW] scrW ∧ TailOk [sW] scrW :=
  ⟨inputOk_of_check (by decide), headsOk_of_check (by decide +kernel), tailOk_of_check (by decide +kernel)⟩
/-- the last piece ends 2 bases (`≤ errLen`) before the scaffold end, every piece touches a contig, and the only cut is
    within `errLen` of the contig boundary `100 | 101` … -/
example : (scrW.scafs.map (fun c => c.spans 8 1)) = [[(1, 96), (97, 208)]] ∧ (100 : Int) - 96 ≤ 9 ∧ (210 : Int) - 208 ≤ 9 := by
  decide

/-- … **but the map is not `Aligned`**: the lookup of the second piece `[97, 208]` returns `ctgW1` too (it shares bases
    97..100 with it) and sticks out by 96 > 9 bases at its start; and `ctgW1` is claimed by both pieces. -/
theorem cut_near_boundary_not_aligned : ¬ Aligned [sW] (ptxOf [sW] scrW) 9 := by
  intro h
  have hS : ({ name := "Scaffold_2".toList, rows := [pc sW.name 97 208 1] } : Scaffold) ∈ ptxOf [sW] scrW := by decide
  have hp := ((h.scaffolds _ hS).pieces { name := sW.name, start := 97, stop := 208, strand := 1 } (by decide)).startOk
  have e : (pieceO [sW] { name := sW.name, start := 97, stop := 208, strand := 1 }).startOverhang = 96 := by
    decide +kernel
  rw [e] at hp
  omega

example : ¬ (claimedKeys [sW] (ptxOf [sW] scrW)).Nodup := by decide +kernel
example : ¬ CleanScript [sW] scrW := by
  intro h
  have := (h 0 sW _ rfl rfl rfl).cuts 12 (by decide) 0 w1 rfl
  revert this
  decide +kernel

/-- The code copes: `trim_large_overhangs` drops `ctgW1` from the second piece (it shares 4 < 9 bases with it), nothing is
    cut, both contigs come out whole — each in the scaffold of the piece that holds most of it.  (Both Pretext scaffolds
    begin with a piece of `scaffold_1` and are unpainted, so they get the same name and are fused — `NoClash` fails as in
    `same_first_scaffold_is_fused`; the contig content is what matters here.) -/
theorem cut_near_boundary_still_remaps :
    (remap [sW] (ptxOf [sW] scrW) "SUPER_".toList (some jg) 9).toOption.map
      (fun r => (r.1.map (fun a => a.scaffolds.map (fun s => (s.name, s.rows))), r.2.cuts)) =
    some ([[(sW.name, [.frag w1, .gap jg, .frag w2])]], 0) := by decide +kernel

/-! ## S4' — cuts deep inside contigs -/

/-- **S4, deep cuts.**  A well-formed, unpainted script is in the class `DeepCutN` (at the error length `1 + ⌊β⌋`) when
    * `DeepScript`: per present scaffold, for every interior cut `c | c + 1` and every contig (spanning `[a, b]`): the
      contig does not straddle the cut, or the cut is deeper than `3·errLen` inside it on both sides
      (`3·errLen < c − a + 1` and `3·errLen < b − c`) — any number of cuts per contig; the end of the last piece and the
      "every piece touches a contig" clause as in `CleanScript`;
    * `InputOk`, `HeadsOk`, `TailOk` as for S4; no input scaffold holds the same Fragment object twice; input contigs are
      forward or reverse (`trim_fragment` needs a strand).
    (Checker: `deepScriptB`, `deepScript_of_check`.)  `CleanScript` is the special case without the third alternative
    (`CleanScript.deep`). -/
theorem deep_script_is_DeepCut {input : List Scaffold} {s : Script} (hw : wfScript input s = true)
    (hin : InputOk input) (hoid : ∀ sc ∈ input, (C18.ids sc.rows).Nodup)
    (hstr : ∀ sc ∈ input, ∀ f ∈ sc.fragments, f.strand = 1 ∨ f.strand = -1)
    (hd : DeepScript input s) (hh : HeadsOk input s) (ht : TailOk input s)
    (hup : ∀ g ∈ s.groups, g.painted = false) :
    DeepCutN input (ptxOf input s) (errLen s.p s.q : Int) :=
  script_deepCutN (wfScript_spec hw) hin hoid hstr hd hh ht hup

theorem deep_script_def (input : List Scaffold) (s : Script) :
    DeepScript input s ↔
      ∀ (i : Nat) (sc : Scaffold) (c : ScafScript), input[i]? = some sc → s.scafs[i]? = some c → c.present = true →
        (∀ t ∈ c.cuts, ∀ k f, sc.rows[k]? = some (.frag f) →
          (rowSpan sc.rows k).2 ≤ (coord s.p s.q t : Int) ∨ (coord s.p s.q t : Int) < (rowSpan sc.rows k).1 ∨
          (3 * (errLen s.p s.q : Int) < (coord s.p s.q t : Int) - (rowSpan sc.rows k).1 + 1 ∧
           3 * (errLen s.p s.q : Int) < (rowSpan sc.rows k).2 - (coord s.p s.q t : Int))) ∧
        (∀ k f, sc.rows[k]? = some (.frag f) → (rowSpan sc.rows k).1 ≤ (coord s.p s.q c.T : Int) →
          (rowSpan sc.rows k).2 - (coord s.p s.q c.T : Int) ≤ (errLen s.p s.q : Int)) ∧
        (∀ ab ∈ c.spans s.p s.q, ∃ k, meets sc.rows ab.1 ab.2 k = true) := by
  constructor
  · intro h i sc c hi hc hp
    exact ⟨(h i sc c hi hc hp).cuts, (h i sc c hi hc hp).last, (h i sc c hi hc hp).touch⟩
  · intro h i sc c hi hc hp
    exact ⟨(h i sc c hi hc hp).1, (h i sc c hi hc hp).2.1, (h i sc c hi hc hp).2.2⟩

/-- **C02 (deep cuts) for every such script**: `deep_map_rearranges` applies. -/
theorem deep_script_rearranges {input : List Scaffold} {s : Script} (hw : wfScript input s = true)
    (hin : InputOk input) (hoid : ∀ sc ∈ input, (C18.ids sc.rows).Nodup)
    (hstr : ∀ sc ∈ input, ∀ f ∈ sc.fragments, f.strand = 1 ∨ f.strand = -1)
    (hd : DeepScript input s) (hh : HeadsOk input s) (ht : TailOk input s)
    (hup : ∀ g ∈ s.groups, g.painted = false) (prefix_ : Str) (jg : Gap)
    (hnc : NoClashDeepN input (ptxOf input s) jg) :
    ∃ stats, remap input (ptxOf input s) prefix_ (some jg) (errLen s.p s.q : Int) =
        .ok (primaryOnly (expectedScaffoldsDeepN input (ptxOf input s) jg), stats) ∧
      stats.cuts = (incidencesN input (ptxOf input s) : Int) - ((sharedKeys input (ptxOf input s)).length : Int) :=
  deep_map_rearranges input _ prefix_ jg _ (deep_script_is_DeepCut hw hin hoid hstr hd hh ht hup) hnc hstr

/-- **the cut sites, in script terms.**  If the pieces at map positions `a` and `b` are pieces `aba`, `abb` of input
    scaffold `i`, `abb` beginning one base after `aba` ends, and both meet the contig `F` in row `r`, then `(a, b)` is a
    cut site of `F` in the sense of `SiteOk`: `F` is the last row of `a`'s lookup result and the first of `b`'s, at the
    same scaffold coordinates, each sharing more than `3·errLen` bases with it or lying wholly inside it. -/
theorem deep_script_site {input : List Scaffold} {s : Script} (hw : wfScript input s = true) (hin : InputOk input)
    (hd : DeepScript input s) {i : Nat} {sc : Scaffold} {c : ScafScript} (hsc : input[i]? = some sc)
    (hc : s.scafs[i]? = some c) {r : Nat} {F : Fragment} (hr : sc.rows[r]? = some (.frag F))
    (hstr : F.strand = 1 ∨ F.strand = -1) {a b : Nat} {bxa bxb : Bool × Placed} {aba abb : Nat × Nat}
    (ha : (itemsT s)[a]? = some bxa) (hai : bxa.2.sc = i) (haab : (c.spans s.p s.q)[bxa.2.k]? = some aba)
    (ham : meets sc.rows aba.1 aba.2 r = true)
    (hb : (itemsT s)[b]? = some bxb) (hbi : bxb.2.sc = i) (hbab : (c.spans s.p s.q)[bxb.2.k]? = some abb)
    (hbm : meets sc.rows abb.1 abb.2 r = true) (habut : aba.2 + 1 = abb.1) :
    SiteOk input (ptxOf input s) (errLen s.p s.q : Int) ⟨F.keyTuple, F, a, b⟩ :=
  site_ok (wfScript_spec hw) hin.toInputBase hd hsc hc hr hstr ha hai haab ham hb hbi hbab hbm habut

/-! ### non-vacuity: `C02Deep`'s example as a script (texel 8 bp; margin `3·errLen = 27`) -/

private def e2 : Fragment := { oid := 2, name := "ctgA2".toList, start := 1, stop := 80, strand := -1 }
/-- 240 bp: a1 1-100, gap, e2 111-190 (reverse contig), gap, a3 201-240 -/
private def sD : Scaffold := { name := "scaffold_1".toList, rows := [.frag a1, .gap g10, .frag e2, .gap g10, .frag a3] }
private def inpD : List Scaffold := [sD, sB]
/-- `scaffold_1` = exactly 30 texels, cut after texel 6 (48 | 49: inside the forward contig a1, 48 resp. 52 bases from its
    ends) and after texel 19 (152 | 153: inside the reverse contig at 111..190, 42 resp. 38 bases from its ends);
    `scaffold_2`: 18 texels (floor, 144), cut after texel 10 (80 | 81, the contig boundary).
    Same rearrangement as in `C02Deep`: the middle piece of `scaffold_1` reversed + head of `scaffold_2`;
    tail of `scaffold_2` + tail of `scaffold_1` + reversed head of `scaffold_1`.
    [`C02Deep`'s own cut 150 | 151 is not a texel boundary at 8 bp; 152 | 153 is.] -/
private def scrD : Script :=
  { p := 8, q := 1,
    scafs := [{ T := 30, cuts := [6, 19] }, { T := 18, cuts := [10] }],
    groups := [{ items := [{ sc := 0, k := 1, minus := true }, { sc := 1, k := 0 }] },
               { items := [{ sc := 1, k := 1 }, { sc := 0, k := 2 }, { sc := 0, k := 0, minus := true }] }],
    gap := jg }

example : wfScript inpD scrD = true := by decide
example : ptxOf inpD scrD =
    [{ name := "Scaffold_1".toList, rows := [pc sD.name 49 152 (-1), .gap jg, pc sB.name 1 80 1] },
     { name := "Scaffold_2".toList,
       rows := [pc sB.name 81 144 1, .gap jg, pc sD.name 153 240 1, .gap jg, pc sD.name 1 48 (-1)] }] := by decide
example : InputOk inpD := inputOk_of_check (by decide)
example : (∀ sc ∈ inpD, (C18.ids sc.rows).Nodup) ∧ ∀ sc ∈ inpD, ∀ f ∈ sc.fragments, f.strand = 1 ∨ f.strand = -1 := by
  decide
example : DeepScript inpD scrD := deepScript_of_check (by decide +kernel)
example : ¬ CleanScript inpD scrD := by
  intro h
  have := (h 0 sD _ rfl rfl rfl).cuts 6 (by decide) 0 a1 rfl
  revert this
  decide +kernel
example : HeadsOk inpD scrD ∧ TailOk inpD scrD := ⟨headsOk_of_check (by decide +kernel), tailOk_of_check (by decide +kernel)⟩
example : ∀ g ∈ scrD.groups, g.painted = false := by decide
example : NoClashDeepN inpD (ptxOf inpD scrD) jg := by unfold NoClashDeepN; decide +kernel
/-- what the theorem gives, independently re-checked by the Bool checker of `C02Deep` -/
example : deepCutNB inpD (ptxOf inpD scrD) 9 = true := by decide +kernel
/-- the chains: the reverse contig (pieces 0 and 3), the forward contig a1 (pieces 4 and 0) -/
example : (sitesN inpD (ptxOf inpD scrD)).map (fun x => (x.frag.name, x.chain)) =
    [(e2.name, [0, 3]), (a1.name, [4, 0])] := by decide +kernel
/-- `remap`, evaluated by the kernel independently of the theorems: the specified output, 2 cuts -/
example : (remap inpD (ptxOf inpD scrD) "SUPER_".toList (some jg) 9).toOption.map (·.1) =
    some (primaryOnly (expectedScaffoldsDeepN inpD (ptxOf inpD scrD) jg)) := by decide +kernel
example : (remap inpD (ptxOf inpD scrD) "SUPER_".toList (some jg) 9).toOption.map (fun r => r.2.cuts) = some 2 := by
  decide +kernel

/-! ### … and a contig cut TWICE (texel 2 bp; `errLen = 3`, margin 9) -/

/-- `scaffold_1` (240 bp = 120 texels) cut at 30 | 31 and 70 | 71 — both inside a1, the middle piece lies wholly inside it
    — and at 150 | 151 inside the reverse contig; `scaffold_2` (145 bp: 72 texels, floor, 144) uncut -/
private def scrD2 : Script :=
  { p := 2, q := 1,
    scafs := [{ T := 120, cuts := [15, 35, 75] }, { T := 72 }],
    groups := [{ items := [{ sc := 0, k := 1, minus := true }, { sc := 0, k := 3 }] },
               { items := [{ sc := 1, k := 0 }, { sc := 0, k := 2, minus := true }, { sc := 0, k := 0 }] }] }

example : wfScript inpD scrD2 = true := by decide
example : (scrD2.scafs.map (fun c => c.spans 2 1)) = [[(1, 30), (31, 70), (71, 150), (151, 240)], [(1, 144)]] := by decide
example : DeepScript inpD scrD2 ∧ HeadsOk inpD scrD2 ∧ TailOk inpD scrD2 :=
  ⟨deepScript_of_check (by decide +kernel), headsOk_of_check (by decide +kernel), tailOk_of_check (by decide +kernel)⟩
/-- a1 is held by the pieces at map positions 4 (1..30), 0 (31..70), 3 (71..150): one chain of three -/
example : (sitesN inpD (ptxOf inpD scrD2)).map (fun x => (x.frag.name, x.chain)) =
    [(a1.name, [4, 0, 3]), (e2.name, [3, 1])] := by decide +kernel
example : deepCutNB inpD (ptxOf inpD scrD2) 3 = true := by decide +kernel
example : (remap inpD (ptxOf inpD scrD2) "SUPER_".toList (some jg) 3).toOption.map (fun r => r.2.cuts) = some 3 := by
  decide +kernel

end AgpTpf.C02
