/-
  C06 through the command: every AGP text `asm-format` writes (Model/AsmFormat.lean) is coordinate-valid.

  `ValidAgp strict text objs` (Proofs/AsmFormatValid.lean): `text` is comment lines `# …` followed, object by object, by
  tab-joined newline-terminated lines that tile each object of `objs` = (name, length) from 1 to its length with part
  numbers 1, 2, … (`ValidAgpLines`, the predicate of Properties/C06.lean, numeric columns read back with `int()`);
  `strict`: also start ≤ end on every line and a non-empty gap type on every gap line.
  What the READERS guarantee for any input text that parses (Proofs/AsmFormatParse.lean, AsmFormatValid.lean):
      `RowsParsed`  every fragment has strand ∈ {0, 1, -1} and start ≤ end (`Fragment.__init__`),
      `HeaderOk`    every header text is one non-empty line,
  so the AGP and TPF writers cannot raise after a successful parse and the text is `ValidAgp false`.  What they do NOT
  guarantee is `GapsStrict`: gap lines with length ≤ 0 or an empty type are read and written back (finding below), so
  `ValidAgp true` needs that hypothesis.  Object names need not be pairwise different (findings below).
-/
import AgpTpf.Properties.C06
import AgpTpf.Proofs.AsmFormatValid
import AgpTpf.Proofs.AsmFormatCli
import AgpTpf.Proofs.AsmFormatNames
namespace AgpTpf.C06
open AgpTpf AgpTpf.C05 AgpTpf.AsmFormat

/-- after a successful parse, `process_fh` cannot raise for any of the four output formats -/
theorem asm_format_never_fails_after_parse (inFmt : Fmt) (asmName : Str) (lines : List Str) (asm : Assembly)
    (hp : parseFh inFmt asmName lines = .ok asm) (outFmt : OutFmt) (qc : Bool) :
    ∃ text, processFh inFmt asmName lines (some outFmt) qc =
      .ok (text, if qc then findOverlappingFragments asm else []) := by
  obtain ⟨text, hw⟩ := writeFh_parsed_ok hp outFmt
  exact ⟨text, (processFh_ok_iff _ _ _ _ _ _ _).2 ⟨asm, hp, rfl, hw⟩⟩

/-- the object names of the written AGP are the scaffold names, in order -/
theorem agpObjects_names (a : Assembly) : (agpObjects a).map (·.1) = scNames a.scaffolds := by
  simp [agpObjects, scNames, List.map_map, Function.comp_def]

/-- ONE `process_fh` with output format AGP that does not raise (input AGP or TPF, ANY input text): the text written
    is a valid AGP file whose objects are the scaffolds of the parsed assembly with their lengths; strictly valid as
    soon as every gap of the parsed assembly has a positive length and a type; and two objects that follow each other
    are differently named (`AdjDiff`; a name may still come back later, see the findings). -/
theorem asm_format_writes_valid_agp (inFmt : Fmt) (asmName : Str) (lines : List Str) (qc : Bool)
    (text : Str) (pairs : List OvPair) (h : processFh inFmt asmName lines (some .AGP) qc = .ok (text, pairs)) :
    ∃ asm, parseFh inFmt asmName lines = .ok asm ∧
      ValidAgp false text (agpObjects asm) ∧
      (GapsStrict asm → ValidAgp true text (agpObjects asm)) ∧
      AdjDiff ((agpObjects asm).map (·.1)) := by
  obtain ⟨asm, hp, _, hw⟩ := (processFh_ok_iff _ _ _ _ _ _ _).1 h
  have hrows := parseFh_rowsParsed hp
  have hhdr : ∀ x ∈ asm.header, '\n' ∉ x := fun x hx => C06.HeaderOk.no_nl (parseFh_headerOk hp x hx)
  have hs : ∀ s ∈ asm.scaffolds, ∀ r ∈ s.rows, StrandOk r := fun s hs r hr => (hrows s hs r hr).strandOk
  have htext : ∀ ls, formatAgp asm = .ok ls → text = ls.flatten := by
    intro ls hls
    simp only [writeFh, hls, bind, Except.bind, pure, Except.pure, Except.ok.injEq] at hw
    exact hw.symm
  refine ⟨asm, hp, ?_, ?_, ?_⟩
  · obtain ⟨ls, hls, hv⟩ := formatAgp_validAgp false asm hs (fun hf => Bool.noConfusion hf) hhdr
    rw [htext ls hls]; exact hv
  · intro hg
    obtain ⟨ls, hls, hv⟩ := formatAgp_validAgp true asm hs
      (fun _ s hs r hr => rowStrict_of_parsed (hrows s hs r hr) (hg s hs r hr)) hhdr
    rw [htext ls hls]; exact hv
  · rw [agpObjects_names]; exact parseFh_adjDiff hp

/-- The whole run with output format AGP, any number of input files, failing or not: what is on the output handle at
    the end is the concatenation of one valid AGP text per input file processed before the first failure (all of
    them when the run ends without exception) — valid PER FILE.  As one AGP file the concatenation holds the objects of
    all files in order, with the comment lines of later files in between; its object names are pairwise different
    only if the scaffold names are so across all the input files (`same_file_twice` below). -/
theorem asm_format_files_write_valid_agp (o : AsmFormatOpts) (f : Str × List Str) (rest : List (Str × List Str))
    (stdin : List Str) (hout : outFmtOf o.format o.outputFile = .ok .AGP) :
    ∃ (k : Nat) (texts : List Str),
      (asmFormat o (f :: rest) stdin).written = texts.flatten ∧
      Forall2 (fun (file : Str × List Str) (text : Str) =>
        ∃ asm, parseFh (fileInFmt o file) (fileAsmName o file) (fileLinesRead o file) = .ok asm ∧
          ValidAgp false text (agpObjects asm) ∧ (GapsStrict asm → ValidAgp true text (agpObjects asm)) ∧
          AdjDiff ((agpObjects asm).map (·.1)))
        ((f :: rest).take k) texts ∧
      ((asmFormat o (f :: rest) stdin).error = none → k = (f :: rest).length) := by
  rw [asmFormat_files]
  obtain ⟨k, outs, h1, h2, _, h4⟩ := asmFormatLoop_spec o (outFmtSel o.format o.outputFile) (f :: rest) {}
  refine ⟨k, outs.map (·.1), by rw [h2]; rfl, ?_, ?_⟩
  · rw [outFmtOf_ok hout] at h1
    generalize List.take k (f :: rest) = files at h1
    clear h2 h4
    induction files generalizing outs with
    | nil => cases outs with | nil => trivial | cons _ _ => exact h1.elim
    | cons file t ih =>
      cases outs with
      | nil => exact h1.elim
      | cons out ot =>
        obtain ⟨text, pairs⟩ := out
        exact ⟨asm_format_writes_valid_agp _ _ _ _ _ _ h1.1, ih ot h1.2⟩
  · intro hnone
    rcases h4 with ⟨hk, _, _⟩ | ⟨g, e, _, _, he⟩
    · exact hk
    · rw [he] at hnone; cases hnone

/-- the same for STDIN -/
theorem asm_format_stdin_writes_valid_agp (o : AsmFormatOpts) (stdin : List Str)
    (hout : outFmtOf o.format o.outputFile = .ok .AGP) (h : (asmFormat o [] stdin).error = none) :
    ∃ asm, parseFh (stdinInFmt o) (stdinAsmName o) stdin = .ok asm ∧
      ValidAgp false (asmFormat o [] stdin).written (agpObjects asm) ∧
      (GapsStrict asm → ValidAgp true (asmFormat o [] stdin).written (agpObjects asm)) ∧
      AdjDiff ((agpObjects asm).map (·.1)) := by
  cases hp : processFh (stdinInFmt o) (stdinAsmName o) stdin (outFmtSel o.format o.outputFile) o.qcOverlaps with
  | error e => rw [(asmFormat_stdin_error o stdin e hp).2] at h; cases h
  | ok r =>
    obtain ⟨text, pairs⟩ := r
    rw [(asmFormat_stdin_ok o stdin text pairs hp).1]
    rw [outFmtOf_ok hout] at hp
    exact asm_format_writes_valid_agp _ _ _ _ _ _ hp

/-! ## non-vacuity -/

private def lines1 : List Str :=
  ["# made by hand\n".toList, "s1\t1\t5\t1\tW\tc\t1\t5\t+\ts1\n".toList,
   "s1\t6\t8\t2\tU\t3\tscaffold\tyes\tproximity_ligation\n".toList,
   "s1\t9\t12\t3\tW\tc\t4\t7\t-\n".toList, "s2\t1\t3\t1\tW\tc\t5\t7\t?\n".toList]
private def tpf1 : List Str :=
  ["?\tc:1-5\ts1\tPLUS\n".toList, "GAP\tTYPE-2\t3\n".toList, "?\tc:4-7\ts1\tMINUS\n".toList]

private def asm1 : Assembly :=
  { name := ['a'], header := ["made by hand".toList],
    scaffolds := [
      { name := "s1".toList,
        rows := [.frag { oid := 0, name := ['c'], start := 1, stop := 5, strand := 1, tags := ["s1".toList] },
                 .gap { length := 3, gapType := "scaffold".toList },
                 .frag { oid := 1, name := ['c'], start := 4, stop := 7, strand := -1 }] },
      { name := "s2".toList, rows := [.frag { oid := 2, name := ['c'], start := 5, stop := 7, strand := 0 }] }] }
private def asm2 : Assembly :=
  { name := ['b'],
    scaffolds := [
      { name := "s1".toList,
        rows := [.frag { oid := 0, name := ['c'], start := 1, stop := 5, strand := 1 },
                 .gap { length := 3, gapType := "scaffold".toList },
                 .frag { oid := 1, name := ['c'], start := 4, stop := 7, strand := -1 }] }] }

example : processFh .AGP ['a'] lines1 (some .AGP) false = .ok (lines1.flatten, []) := by decide +kernel
example : parseFh .AGP ['a'] lines1 = .ok asm1 ∧ GapsStrict asm1 ∧
    agpObjects asm1 = [("s1".toList, 12), ("s2".toList, 3)] := by decide +kernel
example : parseFh .TPF ['b'] tpf1 = .ok asm2 ∧ GapsStrict asm2 ∧ agpObjects asm2 = [("s1".toList, 12)] := by
  decide +kernel
example : outFmtOf none (some "out.agp".toList) = .ok .AGP ∧ outFmtOf none none = .ok .AGP := by decide
example : (asmFormat {} [("a.agp".toList, lines1), ("b.tpf".toList, tpf1)] []).error = none := by decide +kernel

/-! ## Findings (each checked against the real command) -/

/-- FINDING (why `GapsStrict` is a hypothesis; real run `asm-format g0.agp` prints exactly this): gap lines of length
    0 and -5 and an empty gap type are accepted by the reader; the writer then emits `6 5` and `6 0` (end < start),
    and the fragment after the negative gap starts again at 1 — inside the first fragment's span. -/
example : processFh .AGP ['g'] ["s1\t1\t5\t1\tW\tc\t1\t5\t+\n".toList, "s1\t6\t5\t2\tU\t0\tscaffold\tyes\tx\n".toList,
      "s1\t6\t1\t3\tN\t-5\t\tyes\tx\n".toList, "s1\t6\t10\t4\tW\td\t1\t5\t+\n".toList] (some .AGP) false =
    .ok (("s1\t1\t5\t1\tW\tc\t1\t5\t+\n" ++ "s1\t6\t5\t2\tU\t0\tscaffold\tyes\tproximity_ligation\n" ++
          "s1\t6\t0\t3\tU\t-5\t\tyes\tproximity_ligation\n" ++ "s1\t1\t5\t4\tW\td\t1\t5\t+\n").toList, []) := by
  decide +kernel

/-- FINDING (object names; real run `asm-format nc.agp`): lines of one object that are not contiguous (`s1`, `s2`,
    `s1`) are read as THREE scaffolds, two of them named `s1`, and written as such: the output repeats the object
    `s1`, each copy tiled from 1.  `ValidAgp` holds (per scaffold), a one-record-per-object reading of AGP does not. -/
example : (parseFh .AGP ['n'] ["s1\t1\t5\t1\tW\tc\t1\t5\t+\n".toList, "s2\t1\t5\t1\tW\td\t1\t5\t+\n".toList,
      "s1\t1\t5\t1\tW\te\t1\t5\t+\n".toList]).map agpObjects =
    .ok [("s1".toList, 5), ("s2".toList, 5), ("s1".toList, 5)] := by decide +kernel

/-- FINDING (several input files; real run `asm-format a.agp a.agp`): the objects of every file are written one
    file after the other, whatever their names -/
theorem same_file_twice (o : AsmFormatOpts) (f : Str × List Str) (stdin : List Str) (text : Str) (pairs : List OvPair)
    (h : processFile o (outFmtSel o.format o.outputFile) f = .ok (text, pairs)) :
    (asmFormat o [f, f] stdin).written = text ++ text ∧ (asmFormat o [f, f] stdin).error = none := by
  rw [asmFormat_files]
  have := asmFormatLoop_all_ok o (outFmtSel o.format o.outputFile) [f, f] [(text, pairs), (text, pairs)]
    ⟨h, h, trivial⟩ {}
  simpa using this

/-- FINDING (real run: `h.tpf` = "?\tc:1-5\t#s\tPLUS", `asm-format h.tpf -o h.agp`, then `asm-format h.agp` prints only
    "# s\t1\t5\t1\tW\tc\t1\t5\t+"): a TPF scaffold name may start with '#'; the AGP written for it is `ValidAgp`, but its
    only line is a COMMENT to every AGP reader, including this one — reading it back gives no scaffold at all. -/
example : processFh .TPF ['h'] ["?\tc:1-5\t#s\tPLUS\n".toList] (some .AGP) false =
      .ok ("#s\t1\t5\t1\tW\tc\t1\t5\t+\n".toList, []) ∧
    processFh .AGP ['h'] ["#s\t1\t5\t1\tW\tc\t1\t5\t+\n".toList] (some .AGP) false =
      .ok ("# s\t1\t5\t1\tW\tc\t1\t5\t+\n".toList, []) := by
  decide +kernel

end AgpTpf.C06
