/-
  C14 / T1c — `Scaffold.reverse` (assembly/scaffold.py) as translated by `harness/translate_imp.py` into
  `Gen.Imp.Scaffold_reverse_imp` IS the model's `Scaffold.reverse` up to fresh object ids, and the C14 laws (double reversal,
  what one reversal preserves) hold of the SOURCE function.

  Vocabulary (Proofs/ImpReverse.lean):
  * `RowsValid s` — every fragment row of `s` has strand ∈ {0, 1, -1} and start ≤ end: what `Fragment.__init__` guarantees for every
    Fragment object that exists (`rowsValid_iff`); decidable.
  * `eraseOids s` — `s` with every fragment's `oid := 0`; `eraseOidRow` the same for one row.
  * `renumber n rows` — the fragment rows get the ids `n, n+1, …` in row order; `reverseFrom n s` = the model's `s.reverse` with its
    rows renumbered from `n`.
  The source's `frag.reverse()` builds a NEW Fragment (it takes the next free object id and goes through `Fragment.__init__` again);
  the model keeps the ids and never raises.
-/
import AgpTpf.Proofs.ImpReverse
import AgpTpf.Properties.C14
namespace AgpTpf.C14
open AgpTpf AgpTpf.ImpReverse

/-! ### 1. the tie -/

/-- for ALL inputs: with valid fragment rows the source returns the next free id and the model's reversed scaffold with the new
    fragments numbered `n, n+1, …` in the row order of the result; otherwise `Fragment.__init__` (called by `frag.reverse()` for the
    first invalid fragment met in reversed row order) raises ValueError — the model's total `Scaffold.reverse` returns a value there. -/
theorem scaffold_reverse_source_cases (s : Scaffold) (n : Nat) :
    Gen.Imp.Scaffold_reverse_imp n s =
      if RowsValid s then .ok (n + (Scaffold.fragments s).length, reverseFrom n s) else .error .value :=
  reverse_imp_cases n s

/-- the source's `reverse()` on a scaffold of constructed Fragment objects: it returns `r` with `r = s.reverse` up to object ids
    (everything else equal: name, original_name, original_tags kept, tag / haplotype / rank the constructor defaults on both sides),
    and the fragments of `r` carry the ids `n, n+1, …` in row order of `r`.  These two facts determine `r`
    (`ImpReverse.eq_of_eraseOids_of_oids`); explicitly `r = reverseFrom n s`. -/
theorem scaffold_reverse_is_source (s : Scaffold) (n : Nat) (h : RowsValid s) :
    ∃ r, Gen.Imp.Scaffold_reverse_imp n s = .ok (n + (Scaffold.fragments s).length, r) ∧
      eraseOids r = eraseOids s.reverse ∧
      (Scaffold.fragments r).map (·.oid) = List.range' n (Scaffold.fragments s).length ∧
      r = reverseFrom n s :=
  ⟨reverseFrom n s, by rw [scaffold_reverse_source_cases, if_pos h], eraseOids_reverseFrom n s, reverseFrom_oids n s, rfl⟩

/-- outside the hypothesis the source raises ValueError where the model returns a scaffold -/
theorem scaffold_reverse_invalid_raises (s : Scaffold) (n : Nat) (h : ¬ RowsValid s) :
    Gen.Imp.Scaffold_reverse_imp n s = .error .value := by
  rw [scaffold_reverse_source_cases, if_neg h]

/-- the source returns exactly on the valid scaffolds -/
theorem scaffold_reverse_ok_iff (s : Scaffold) (n : Nat) :
    (∃ p, Gen.Imp.Scaffold_reverse_imp n s = .ok p) ↔ RowsValid s := by
  rw [scaffold_reverse_source_cases]
  by_cases h : RowsValid s <;> simp [h]

/- fixture `exRev` (Proofs/ImpReverse.lean): `a:1-4(+) gap(7) b:3-9(-) gap(2) c:5-5(?)`, object ids 1, 2, 3, tag / haplotype / rank set -/
example : RowsValid exRev := by decide

/-- reversed once, next free id 10: rows in inverse order, strands negated (`?` stays `?`), new ids 10, 11, 12; tag, haplotype and
    rank are NOT carried over -/
example : Gen.Imp.Scaffold_reverse_imp 10 exRev = .ok (13,
    { name := ['s'], originalName := some ['o'], originalTags := some [['x']],
      rows := [.frag { oid := 10, name := ['c'], start := 5, stop := 5, strand := 0 }, .gap { length := 2, gapType := ['u'] },
               .frag { oid := 11, name := ['b'], start := 3, stop := 9, strand := 1 }, .gap { length := 7, gapType := ['g'] },
               .frag { oid := 12, name := ['a'], start := 1, stop := 4, strand := -1, tags := [['p']] }] }) := by rfl

/- fixture `exRevBad`: a fragment with strand 2 (only reachable by mutating a Fragment by hand): the source raises ValueError, the
   model does not -/
example : ¬ RowsValid exRevBad := by decide
example : Gen.Imp.Scaffold_reverse_imp 10 exRevBad = .error .value := by rfl
example : exRevBad.reverse.rows =
    [.frag { oid := 2, name := ['b'], start := 3, stop := 9, strand := -2 }, .gap { length := 7, gapType := ['g'] },
     .frag { oid := 1, name := ['a'], start := 1, stop := 4, strand := -1 }] := by decide
/-- likewise `start > end` -/
example : Gen.Imp.Scaffold_reverse_imp 0 { name := [], rows := [.frag { name := ['a'], start := 5, stop := 4, strand := 1 }] }
    = .error .value := by rfl

/-! ### 2. the C14 laws for the source -/

/-- reversing twice with the source function (the second call starts at the id the first one returned): both calls return; the
    result has the original rows up to object ids — explicitly the original rows renumbered from `n + k`, `k` the number of
    fragments —, the name, original_name and original_tags of `s`, and tag / haplotype / rank RESET to None / None / 0 (already by
    the first reversal: the constructor call passes only name, original_name, original_tags — exactly what the model's
    `Scaffold.reverse` does, so up to ids the result is the model's `s.reverse.reverse`). -/
theorem source_reverse_twice (s : Scaffold) (n : Nat) (h : RowsValid s) :
    ∃ r1 r2, Gen.Imp.Scaffold_reverse_imp n s = .ok (n + (Scaffold.fragments s).length, r1) ∧
      Gen.Imp.Scaffold_reverse_imp (n + (Scaffold.fragments s).length) r1
        = .ok (n + (Scaffold.fragments s).length + (Scaffold.fragments s).length, r2) ∧
      r2.rows.map eraseOidRow = s.rows.map eraseOidRow ∧
      eraseOids r2 = eraseOids { s with tag := none, haplotype := none, rank := 0 } ∧
      eraseOids r2 = eraseOids s.reverse.reverse ∧
      r2 = { name := s.name, rows := renumber (n + (Scaffold.fragments s).length) s.rows,
             originalName := s.originalName, originalTags := s.originalTags } ∧
      (Scaffold.fragments r2).map (·.oid) = List.range' (n + (Scaffold.fragments s).length) (Scaffold.fragments s).length ∧
      (r1.tag = none ∧ r1.haplotype = none ∧ r1.rank = 0) ∧ (r2.tag = none ∧ r2.haplotype = none ∧ r2.rank = 0) := by
  obtain ⟨r1, h1, he1, -, rfl⟩ := scaffold_reverse_is_source s n h
  have hv1 : RowsValid (reverseFrom n s) := (rowsValid_reverseFrom n s).2 h
  obtain ⟨r2, h2, he2, ho2, rfl⟩ := scaffold_reverse_is_source (reverseFrom n s) (n + (Scaffold.fragments s).length) hv1
  rw [reverseFrom_fragments_length] at h2 ho2
  -- up to ids, the second result is the model's double reversal (tie 1 twice + `eraseOids` commutes with the model's reversal)
  have hm : eraseOids (reverseFrom (n + (Scaffold.fragments s).length) (reverseFrom n s)) = eraseOids s.reverse.reverse := by
    rw [he2, eraseOids_reverse, he1, ← eraseOids_reverse]
  -- … whose rows are the original rows: the model theorem `reverse_reverse`
  have hrows : (reverseFrom (n + (Scaffold.fragments s).length) (reverseFrom n s)).rows.map eraseOidRow = s.rows.map eraseOidRow := by
    have := congrArg Scaffold.rows hm
    simp only [eraseOids] at this
    rw [this, reverse_reverse]
  refine ⟨_, _, h1, h2, hrows, ?_, hm, reverseFrom_reverseFrom _ _ s, ho2, ⟨rfl, rfl, rfl⟩, ⟨rfl, rfl, rfl⟩⟩
  rw [hm]
  simp only [eraseOids, reverse_reverse]
  rfl

/-- reversed twice, ids 10.. then 13..: the original rows with the ids 13, 14, 15, and tag / haplotype / rank gone -/
example : (Gen.Imp.Scaffold_reverse_imp 10 exRev >>= fun p => Gen.Imp.Scaffold_reverse_imp p.1 p.2) = .ok (16,
    { name := ['s'], originalName := some ['o'], originalTags := some [['x']],
      rows := [.frag { oid := 13, name := ['a'], start := 1, stop := 4, strand := 1, tags := [['p']] }, .gap { length := 7, gapType := ['g'] },
               .frag { oid := 14, name := ['b'], start := 3, stop := 9, strand := -1 }, .gap { length := 2, gapType := ['u'] },
               .frag { oid := 15, name := ['c'], start := 5, stop := 5, strand := 0 }] }) := by rfl

/-- whenever the source's `reverse()` returns (i.e. on every valid scaffold, `scaffold_reverse_ok_iff`): the next free id has advanced by
    the number of fragments; name, original_name, original_tags, length, fragments_length, the number of rows and of fragments are
    preserved; and for every position `i`, row `i` of the result is row `n-1-i` of the original with: gap rows identical; fragments
    with identical contig name, interval and tags, the strand negated, and the id `n + ` the number of fragment rows before
    position `i` in the result.  (Obtained from tie 1 and the model theorems `reverse_length`, `reverse_rows_length`, `reverse_preserves`.) -/
theorem source_reverse_preserves (s : Scaffold) (n m : Nat) (r : Scaffold) (h : Gen.Imp.Scaffold_reverse_imp n s = .ok (m, r)) :
    m = n + (Scaffold.fragments s).length ∧
    r.name = s.name ∧ r.originalName = s.originalName ∧ r.originalTags = s.originalTags ∧
    r.length = s.length ∧ r.fragmentsLength = s.fragmentsLength ∧
    r.rows.length = s.rows.length ∧ (Scaffold.fragments r).length = (Scaffold.fragments s).length ∧
    ∀ i, i < s.rows.length →
      match s.rows[s.rows.length - 1 - i]?, r.rows[i]? with
      | some (.gap g), some r' => r' = .gap g
      | some (.frag f), some r' => ∃ f', r' = .frag f' ∧ f'.name = f.name ∧ f'.start = f.start ∧ f'.stop = f.stop ∧
          f'.tags = f.tags ∧ f'.strand = - f.strand ∧ f'.oid = n + (fragmentsOf (r.rows.take i)).length
      | _, _ => False := by
  rw [scaffold_reverse_source_cases] at h
  by_cases hv : RowsValid s
  · rw [if_pos hv] at h
    simp only [Except.ok.injEq, Prod.mk.injEq] at h
    obtain ⟨rfl, rfl⟩ := h
    have he := eraseOids_reverseFrom n s
    refine ⟨rfl, rfl, rfl, rfl, ?_, ?_, ?_, reverseFrom_fragments_length n s, ?_⟩
    · rw [← length_eraseOids, he, length_eraseOids, reverse_length]
    · rw [← fragmentsLength_eraseOids, he, fragmentsLength_eraseOids, fragmentsLength_reverse]
    · show (renumber n s.reverse.rows).length = _
      rw [renumber_length, reverse_rows_length]
    · intro i hi
      have hp := (reverse_preserves s).2.2 i hi
      show match s.rows[s.rows.length - 1 - i]?, (renumber n s.reverse.rows)[i]? with
        | some (.gap g), some r' => r' = .gap g
        | some (.frag f), some r' => ∃ f', r' = .frag f' ∧ f'.name = f.name ∧ f'.start = f.start ∧ f'.stop = f.stop ∧
            f'.tags = f.tags ∧ f'.strand = - f.strand ∧ f'.oid = n + (fragmentsOf ((renumber n s.reverse.rows).take i)).length
        | _, _ => False
      rw [renumber_getElem?, renumber_take, fragmentsOf_renumber_length]
      revert hp
      cases s.rows[s.rows.length - 1 - i]? with
      | none => simp
      | some x =>
        cases s.reverse.rows[i]? with
        | none => cases x <;> simp
        | some y =>
          cases x with
          | gap g => intro hp; simp only at hp; subst hp; simp
          | frag f =>
            intro hp
            obtain ⟨f', rfl, h1, h2, h3, h4, -, h6⟩ := hp
            exact ⟨_, rfl, h1, h2, h3, h4, h6, rfl⟩
  · rw [if_neg hv] at h
    cases h

/-- the conclusions on the instance: lengths 4 + 7 + 7 + 2 + 1 and 4 + 7 + 1 before and after -/
example : ∃ m r, Gen.Imp.Scaffold_reverse_imp 10 exRev = .ok (m, r) ∧ r.length = 21 ∧ exRev.length = 21 ∧
    r.fragmentsLength = 12 ∧ exRev.fragmentsLength = 12 ∧ (Scaffold.fragments r).map (·.oid) = [10, 11, 12] ∧
    (Scaffold.fragments r).map (·.strand) = [0, 1, -1] ∧ (Scaffold.fragments exRev).map (·.strand) = [1, -1, 0] :=
  ⟨13, reverseFrom 10 exRev, by rfl, by decide +kernel, by decide +kernel, by decide +kernel, by decide +kernel, by decide +kernel,
    by decide +kernel, by decide +kernel⟩

end AgpTpf.C14
