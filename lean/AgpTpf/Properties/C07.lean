/-
  C07 — Every join carries a gap and retained neighbours keep their input gap.

  PROVED here (all-inputs clauses, each at full strength for its stage; no `_partial` theorems):
    `append_adjacent`            `append_scaffold(othr, gap)`: with a gap and a non-empty receiver the seam carries exactly that
                                 gap row and NO fragment–fragment adjacency is created; without a gap the only new adjacency
                                 is (last row, first row) when both are fragments.
    `gaps_before_leftover_nil_iff` / `gaps_before_leftover_source` / `gaps_before_leftover_eq`
                                 (model change f6b — renamed from `gap_before_leftover_*`: the separator is now a LIST of gap
                                 rows) the left-over join is gapless only when the last built row is the facing end of the
                                 recorded input predecessor and the input had no gap row there; every row returned is a gap
                                 row: the join gap or one of the recorded input gap rows.
    `input_predecessor_gaps` / `input_predecessor_no_gap`
                                 the recorded gaps are exactly the rows between the predecessor fragment and the left-over
                                 fragment (all gap rows); none recorded ⇒ the fragment row directly in front (input adjacency).
    `no_terminal_gaps_discard_start` / `_end`
                                 `discard_start`/`discard_end` pop all following gaps: never a gap as first/last row, the
                                 other end untouched, only gap rows and the one discarded row are removed.
    `to_scaffold_adjacent`       `to_scaffold` of a result keeps exactly the adjacencies of its rows (mirrored for a minus bait).
    `fuse_adjacent`              in every fused scaffold a gapless fragment–fragment adjacency is an adjacency inside one
                                 part, or a left-over seam whose two ends were adjacent in the input (or there is no join gap).
    `fuse_no_terminal_gaps`      if no part begins/ends with a gap, no fused scaffold does (and none is empty).
    `leftover_adjacent`          left-over scaffolds: adjacencies ⊆ input adjacencies; separators = input gap in front / join gap;
                                 no terminal gaps  (from C01 S4).
    `remap_no_terminal_gaps`     END TO END, all inputs: whenever `remap` completes, no scaffold of any output assembly begins or
                                 ends with a gap (invariant carried through find_overlaps, trim_large_overhangs, the resolver,
                                 cutting, left-overs, fusing and the final distribution/renaming/sorting).
  FIRST clause END TO END (wave 2, section "the first clause, end to end" at the bottom; helpers Proofs/C07ChainA–D):
    `slice_adjacent` (A1)        gapless adjacencies inside a contiguous slice of an input scaffold's rows are input adjacencies.
    `reverse_adjacent` (A3)      reversing a run (minus bait) maps every adjacency to the same UNORDERED pair of facing ends.
    `trim_keeps_inner_ends` (A2) after `remap_to_input_assembly` every stored result satisfies the C18 invariant w.r.t. ONE
                                 input scaffold (contiguous run; `discard_start/end` removed rows only at the ends;
                                 `trim_fragment` shortened terminal fragments only at their OUTER end), hence every adjacency
                                 inside it has the facing ends and strands of an adjacency of that input scaffold.
    `remap_adjacent_only_from_input` (A4)
                                 ALL Pretext files, join gap configured, input Fragment objects pairwise distinct: whenever
                                 `remap` completes, every gapless fragment–fragment adjacency of every scaffold of every
                                 output assembly is (as an unordered pair of contig ends (name, coordinate, head/tail)) an
                                 adjacency of the input.  No strand hypothesis: `remap` completing implies ±1 strands at
                                 every input adjacency (`make_stats` raises otherwise).
                                 (model change f6b: statements A1–A4 unchanged; only `leftover_from_input` now reads
                                 `e.2 = some (prev, [])` — the predecessor records the LIST of gap rows — and the helper
                                 `ExtraOK` / `fused_adjacent` (Proofs/C07ChainC/D) follow `gapsBeforeLeftover`.)
  STILL MISSING: the PretextView-only clause "a junction between non-neighbours always uses the join gap", which needs the
  generator model of PretextView maps (not part of the Lean model).
-/
import AgpTpf.Proofs.C07Lemmas
import AgpTpf.Proofs.C07Pipeline
import AgpTpf.Proofs.C07Leftover
import AgpTpf.Proofs.C07ChainD
namespace AgpTpf.C07
open AgpTpf
open AgpTpf.C01 (fuseByName_all adjPairs_appendRows noTerminalGap_appendRows missingRows_spec GapOK)

/-! ## `append_scaffold` -/

/-- With a gap and a non-empty receiver, the junction carries exactly the gap `g`, and the gapless adjacencies of the
    result are those of the two parts: none is created across the seam.  (With an empty receiver the result is `othr`.) -/
theorem append_adjacent (rows othr : List Row) (g : Gap) (hne : rows ≠ []) :
    Scaffold.appendRows rows othr (some g) = rows ++ [Row.gap g] ++ othr ∧
    adjPairs (Scaffold.appendRows rows othr (some g)) = adjPairs rows ++ adjPairs othr := by
  constructor
  · unfold Scaffold.appendRows
    simp only
    rw [if_neg]; simpa using hne
  · simpa using adjPairs_appendRows rows othr (some g)

theorem append_empty_receiver (othr : List Row) (g : Option Gap) : Scaffold.appendRows [] othr g = othr := by
  cases g <;> simp [Scaffold.appendRows]

/-- Without a gap the seam is gapless: the result is the concatenation, and the only new adjacency is
    (last row of `rows`, first row of `othr`) when both are fragments. -/
theorem append_adjacent_none (rows othr : List Row) :
    Scaffold.appendRows rows othr none = rows ++ othr ∧
    adjPairs (Scaffold.appendRows rows othr none) = adjPairs rows ++ seam rows othr ++ adjPairs othr :=
  ⟨rfl, adjPairs_appendRows rows othr none⟩

theorem mem_seam_iff (l r : List Row) (a b : Fragment) :
    (a, b) ∈ seam l r ↔ l.getLast? = some (.frag a) ∧ r.head? = some (.frag b) := by
  unfold seam
  split
  · next a' b' h1 h2 =>
    rw [h1, h2]; simp only [List.mem_cons, Prod.mk.injEq, List.not_mem_nil, or_false, Option.some.injEq, Row.frag.injEq]
    constructor <;> (rintro ⟨rfl, rfl⟩; exact ⟨rfl, rfl⟩)
  · next hno =>
    constructor
    · intro h; cases h
    · rintro ⟨h1, h2⟩; exact absurd h2 (hno a b h1)

private def f1 : Fragment := { oid := 1, name := ['a'], start := 1, stop := 10, strand := 1 }
private def f2 : Fragment := { oid := 2, name := ['a'], start := 11, stop := 20, strand := 1 }
private def f3 : Fragment := { oid := 3, name := ['b'], start := 1, stop := 5, strand := -1 }
private def jg : Gap := { length := 200, gapType := "scaffold".toList }
private def g7 : Gap := { length := 7, gapType := ['u'] }
example : adjPairs (Scaffold.appendRows [.frag f1, .frag f2] [.frag f3] (some jg)) = [(f1, f2)] ∧
    adjPairs (Scaffold.appendRows [.frag f1, .frag f2] [.frag f3] none) = [(f1, f2), (f2, f3)] := by decide

/-! ## `gaps_before_leftover` and `input_predecessor`
   (model change f6b: the separator in front of a left-over scaffold is a LIST of gap rows — all input gap rows between
   the left-over contig and its input predecessor, or the single join gap; theorems renamed `gap_…` → `gaps_…`) -/

/-- closed form of `gaps_before_leftover` -/
theorem gaps_before_leftover_eq (joinGap : Option Gap) (built : List Row) (pred : Option (Fragment × List Gap)) :
    gapsBeforeLeftover joinGap built pred =
      if built = [] then []
      else match pred, built.getLast? with
        | some (prev, gaps), some (.frag last) => if FacingEnd last prev then gaps.map Row.gap else joinRows joinGap
        | _, _ => joinRows joinGap :=
  gapsBeforeLeftover_eq joinGap built pred

/-- With a join gap configured (and something built already), a left-over scaffold is appended WITHOUT any separator
    row only when the last built row is the facing end of its recorded input predecessor and the input had no gap row
    between them. -/
theorem gaps_before_leftover_nil_iff (j : Gap) (built : List Row) (hne : built ≠ []) (pred : Option (Fragment × List Gap)) :
    gapsBeforeLeftover (some j) built pred = [] ↔
      ∃ prev last, pred = some (prev, []) ∧ built.getLast? = some (.frag last) ∧ FacingEnd last prev :=
  gapsBeforeLeftover_nil_iff j built hne pred

/-- every row it returns is a gap row: the join gap or one of the recorded input gap rows -/
theorem gaps_before_leftover_source (joinGap : Option Gap) (built : List Row) (pred : Option (Fragment × List Gap)) :
    ∀ x ∈ gapsBeforeLeftover joinGap built pred,
      ∃ g, x = Row.gap g ∧ (joinGap = some g ∨ ∃ prev gaps, pred = some (prev, gaps) ∧ g ∈ gaps) :=
  gapsBeforeLeftover_source joinGap built pred

/-- `input_predecessor(scaffold, i) = (f, gaps)`: `f` is a fragment row `j < i`, and `gaps` are exactly the rows strictly
    between `j` and `i` — all of them gap rows, in scaffold order: the input gaps separating the two neighbouring contigs. -/
theorem input_predecessor_gaps (rows : List Row) (i : Nat) (f : Fragment) (gaps : List Gap)
    (h : inputPredecessor rows i = some (f, gaps)) (hi : i ≤ rows.length) :
    ∃ j, j < i ∧ rows[j]? = some (.frag f) ∧ (rows.drop (j + 1)).take (i - (j + 1)) = gaps.map Row.gap :=
  inputPredecessor_spec rows i f gaps h hi

/-- `input_predecessor(scaffold, i)` records no gap only if the row directly in front of row `i` is that fragment:
    the two contigs were directly adjacent in the input. -/
theorem input_predecessor_no_gap (rows : List Row) (i : Nat) (f : Fragment)
    (h : inputPredecessor rows i = some (f, [])) (hi : i ≤ rows.length) :
    0 < i ∧ rows[i - 1]? = some (.frag f) :=
  inputPredecessor_none_gap rows i f h hi

example : gapsBeforeLeftover (some jg) [.frag f1] (some (f1, [])) = [] ∧
    gapsBeforeLeftover (some jg) [.frag f1] (some (f1, [g7, jg])) = [.gap g7, .gap jg] ∧
    gapsBeforeLeftover (some jg) [.frag f2] (some (f1, [])) = [.gap jg] ∧
    gapsBeforeLeftover (some jg) [.frag f1, .gap g7] (some (f1, [])) = [.gap jg] ∧
    gapsBeforeLeftover (some jg) [] (some (f1, [g7])) = [] ∧
    inputPredecessor [.frag f1, .frag f2] 1 = some (f1, []) ∧
    inputPredecessor [.frag f1, .gap g7, .gap jg, .frag f2] 3 = some (f1, [g7, jg]) := by decide

/-! ## `discard_start` / `discard_end` -/

/-- `discard_start`: the remaining rows are a proper suffix of the old rows that does not begin with a gap; everything
    removed after the first row is a gap; a non-gap last row stays the last row (or nothing is left). -/
theorem no_terminal_gaps_discard_start (o o' : OverlapResult) (h : o.discardStart = .ok o') :
    (∀ g, o'.rows.head? ≠ some (.gap g)) ∧
    o'.rows <:+ o.rows ∧ o'.rows.length < o.rows.length ∧
    (∀ x ∈ (o.rows.drop 1).take (o.rows.length - 1 - o'.rows.length), ∃ g, x = Row.gap g) ∧
    ((∀ g, o.rows.getLast? ≠ some (.gap g)) → ∀ g, o'.rows.getLast? ≠ some (.gap g)) := by
  obtain ⟨d, r, hr, hr'⟩ := discardStart_rows o o' h
  obtain ⟨p1, p2, p3⟩ := popLeadingGaps_spec r (o.start + d.length)
  rw [hr, hr']
  have hsuf : (OverlapResult.popLeadingGaps r (o.start + d.length)).1 <:+ d :: r := p2.trans (List.suffix_cons _ _)
  refine ⟨p1, hsuf, ?_, ?_, ?_⟩
  · have := p2.length_le; simp only [List.length_cons]; omega
  · simpa using p3
  · intro hlast g hg
    by_cases hne : (OverlapResult.popLeadingGaps r (o.start + d.length)).1 = []
    · rw [hne] at hg; cases hg
    · rw [suffix_getLast? hsuf hne] at hg; exact hlast g hg

/-- `discard_end`: the mirror image. -/
theorem no_terminal_gaps_discard_end (o o' : OverlapResult) (h : o.discardEnd = .ok o') :
    (∀ g, o'.rows.getLast? ≠ some (.gap g)) ∧
    o'.rows <+: o.rows ∧ o'.rows.length < o.rows.length ∧
    (∀ x ∈ (o.rows.drop o'.rows.length).take (o.rows.length - 1 - o'.rows.length), ∃ g, x = Row.gap g) ∧
    ((∀ g, o.rows.head? ≠ some (.gap g)) → ∀ g, o'.rows.head? ≠ some (.gap g)) := by
  obtain ⟨d, r, hr, hr'⟩ := discardEnd_rows o o' h
  obtain ⟨p1, p2, p3⟩ := popLeadingGaps_spec r d.length
  have hrows : o.rows = (d :: r).reverse := by rw [← hr, List.reverse_reverse]
  rw [hr', hrows]
  have hsuf : (OverlapResult.popLeadingGaps r d.length).1 <:+ d :: r := p2.trans (List.suffix_cons _ _)
  have hpre : (OverlapResult.popLeadingGaps r d.length).1.reverse <+: (d :: r).reverse := List.reverse_prefix.mpr hsuf
  refine ⟨?_, hpre, ?_, ?_, ?_⟩
  · intro g; rw [List.getLast?_reverse]; exact p1 g
  · have := p2.length_le; simp only [List.length_reverse, List.length_cons]; omega
  · -- the removed rows between the kept prefix and the discarded last row are the popped gaps
    revert p3 hpre hsuf p1
    generalize (OverlapResult.popLeadingGaps r d.length).1 = K at *
    intro p1 p3 _ _
    obtain ⟨pre, rfl⟩ := p2
    rw [take_sub_suffix] at p3
    exact discardEnd_removed d pre K p3
  · intro hhead g hg
    by_cases hne : (OverlapResult.popLeadingGaps r d.length).1.reverse = []
    · rw [hne] at hg; cases hg
    · rw [prefix_head? hpre hne] at hg; exact hhead g hg

/-! ## `to_scaffold` -/

/-- `OverlapResult.to_scaffold`: for a plus/unstranded bait the rows are unchanged; for a minus bait the adjacencies are
    exactly the mirrored ones (order and strands reversed): nothing is created or lost. -/
theorem to_scaffold_adjacent (o : OverlapResult) :
    adjPairs o.toScaffoldRows =
      if o.bait.strand = -1 then (adjPairs o.rows).reverse.map mirror else adjPairs o.rows := by
  unfold OverlapResult.toScaffoldRows
  split
  · exact adjPairs_reverse_map _
  · rfl

/-! ## fused scaffolds -/

/-- where a gapless fragment–fragment adjacency of a fused scaffold can come from -/
def AdjSrc (b : Build) (pr : Fragment × Fragment) : Prop :=
  (∃ r ∈ b.store, r.added = true ∧ pr ∈ adjPairs r.o.toScaffoldRows) ∨
  (∃ e ∈ b.extra, pr ∈ adjPairs e.1.rows) ∨
  b.joinGap = none ∨
  (∃ e ∈ b.extra, ∃ prev, e.2 = some (prev, []) ∧ FacingEnd pr.1 prev ∧ e.1.rows.head? = some (.frag pr.2))

/-- In every fused scaffold two fragments are directly adjacent (no gap row between them) only if they are adjacent
    inside one part (a stored result, as `to_scaffold` orients it, or a left-over scaffold), or the pair is the seam in
    front of a left-over scaffold whose recorded input predecessor had NO gap row and whose facing end is exactly the
    fragment before the seam — i.e. the two contig ends were directly adjacent in the input (`input_predecessor_no_gap`);
    the only other possibility is that no join gap is configured at all. -/
theorem fuse_adjacent (b : Build) : ∀ s ∈ fuseByName b, ∀ pr ∈ adjPairs s.rows, AdjSrc b pr := by
  intro s hs
  refine (fuseByName_all (fun rows => ∀ pr ∈ adjPairs rows, AdjSrc b pr) b ?_ ?_ s hs).1
  · intro r hr hadd _
    have part : ∀ pr ∈ adjPairs r.o.toScaffoldRows, AdjSrc b pr := fun pr hp => Or.inl ⟨r, hr, hadd, hp⟩
    refine ⟨fun pr hp => ?_, fun built _ hb pr hp => ?_⟩
    · rw [append_empty_receiver] at hp; exact part pr hp
    · rw [adjPairs_appendRows] at hp
      simp only [List.mem_append] at hp
      rcases hp with (hp | hp) | hp
      · exact hb pr hp
      · cases hj : b.joinGap with
        | none => exact Or.inr (Or.inr (Or.inl hj))
        | some j => rw [hj] at hp; cases hp
      · exact part pr hp
  · intro e he _
    have part : ∀ pr ∈ adjPairs e.1.rows, AdjSrc b pr := fun pr hp => Or.inr (Or.inl ⟨e, he, hp⟩)
    refine ⟨part, fun built hbne hb pr hp => ?_⟩
    rw [adjPairs_leftover_add] at hp
    simp only [List.mem_append] at hp
    rcases hp with (hp | hp) | hp
    · exact hb pr hp
    · split at hp
      · next hg =>
        cases hj : b.joinGap with
        | none => exact Or.inr (Or.inr (Or.inl hj))
        | some j =>
          rw [hj] at hg
          obtain ⟨prev, last, hpred, hlast, hface⟩ := (gapsBeforeLeftover_nil_iff j built hbne e.2).mp hg
          obtain ⟨a, c⟩ := pr
          obtain ⟨h1, h2⟩ := (mem_seam_iff _ _ _ _).mp hp
          rw [hlast] at h1
          cases h1
          exact Or.inr (Or.inr (Or.inr ⟨e, he, prev, hpred, hface, h2⟩))
      · cases hp
    · exact part pr hp

/-- If no stored result and no left-over scaffold begins or ends with a gap, then no fused scaffold begins or ends
    with a gap, and none is empty. -/
theorem fuse_no_terminal_gaps (b : Build)
    (hstore : ∀ r ∈ b.store, r.added = true → NoTerminalGap r.o.rows)
    (hextra : ∀ e ∈ b.extra, NoTerminalGap e.1.rows) :
    ∀ s ∈ fuseByName b, NoTerminalGap s.rows ∧ s.rows ≠ [] := by
  apply fuseByName_all NoTerminalGap
  · intro r hr hadd hne
    have h2 := noTerminalGap_toScaffoldRows _ (hstore r hr hadd)
    have hne' := C01.toScaffoldRows_ne_nil _ hne
    exact ⟨(noTerminalGap_appendRows _ _ _ (Or.inl rfl) h2 hne').1,
           fun built _ hb => (noTerminalGap_appendRows _ _ _ (Or.inr hb) h2 hne').1⟩
  · intro e he hne
    have h2 := hextra e he
    exact ⟨h2, fun built hbne hb => noTerminalGap_leftover_add built _ _ hb hbne h2 hne⟩

private def bx : Build :=
  { namer := { autosomePrefix := [] }, nextOid := 4, joinGap := some jg, err := 1,
    store := [ { o := { bait := f1, start := 1, stop := 10, rows := [.frag f1], name := ['S'] }, added := true } ],
    extra := [ ({ name := ['S'], rows := [.frag f2] }, some (f1, [])),
               ({ name := ['S'], rows := [.frag f3] }, none) ] }
/-- a left-over contig whose input predecessor is the last built row, with no input gap, is re-joined without a gap;
    an unrelated left-over is joined with the join gap -/
example : (fuseByName bx).map (·.rows) = [[.frag f1, .frag f2, .gap jg, .frag f3]] := by decide
example : (∀ r ∈ bx.store, r.added = true → NoTerminalGap r.o.rows) ∧ (∀ e ∈ bx.extra, NoTerminalGap e.1.rows) := by
  simp [bx, NoTerminalGap]

/-! ## left-over scaffolds -/

/-- The left-over scaffold `add_missing_scaffolds_from_input` builds from one input scaffold: fragments directly
    adjacent in it were directly adjacent rows of the input scaffold; every gap row is an input gap row out of the run
    of gap rows directly in front of the following left-over fragment (model change f6b: all of them are kept when only
    gaps separate two left-over contigs), or the join gap; it neither starts nor ends with a gap. -/
theorem leftover_adjacent (b : Build) (rows out : List Row) (first : Option Nat)
    (h : missingRows b rows = .ok (out, first)) :
    (∀ pr ∈ adjPairs out, pr ∈ adjPairs rows) ∧ (∀ g, Row.gap g ∈ out → GapOK b rows g) ∧ NoTerminalGap out := by
  obtain ⟨_, h2, h3, h4, h5, _⟩ := missingRows_spec b rows out first h
  exact ⟨h3, h2, h4, h5⟩

/-! ## end to end: no output scaffold begins or ends with a gap -/

/-- The invariant behind it: after `remap_to_input_assembly` no stored result and no left-over scaffold begins or ends
    with a gap (`find_overlaps` skips terminal gaps, `discard_start/end` pop them, `trim_fragment` writes a fragment,
    left-over scaffolds start and end with a fragment). -/
theorem remap_to_input_no_terminal_gaps (input ptx : List Scaffold) (prefix_ : Str) (joinGap : Option Gap) (err : Int)
    (b : Build) (h : remapToInput input ptx prefix_ joinGap err = .ok b) :
    (∀ r ∈ b.store, NoTerminalGap r.o.rows) ∧ (∀ e ∈ b.extra, NoTerminalGap e.1.rows) :=
  remapToInput_ntg input ptx prefix_ joinGap err b h

/-- C07, second clause, for ALL inputs on which remapping completes: no scaffold of any output assembly begins or
    ends with a gap row. -/
theorem remap_no_terminal_gaps (input ptx : List Scaffold) (prefix_ : Str) (joinGap : Option Gap) (err : Int)
    (outs : List OutAsm) (stats : Stats) (h : remap input ptx prefix_ joinGap err = .ok (outs, stats)) :
    ∀ a ∈ outs, ∀ s ∈ a.scaffolds, NoTerminalGap s.rows := by
  unfold remap at h
  simp only [bind, Except.bind] at h
  split at h
  · cases h
  · next b hb =>
    obtain ⟨hst, hex⟩ := remapToInput_ntg _ _ _ _ _ _ hb
    intro a ha s hs
    rcases assembliesFused_rows input b outs stats h a ha s hs with e | ⟨s0, hs0, e⟩
    · rw [e]; exact noTerminalGap_nil
    · rw [e]; exact (fuse_no_terminal_gaps b (fun r hr _ => hst r hr) hex s0 hs0).1

private def inA : Scaffold := { name := ['A'], rows := [.frag f1, .gap g7, .frag f2] }
private def inB : Scaffold := { name := ['B'], rows := [.frag { f3 with strand := 1 }] }
private def ptx1 : Scaffold :=
  { name := ['S','1'], rows := [.frag { oid := 10, name := ['A'], start := 1, stop := 27, strand := 1, tags := [sPainted] }] }
/-- remapping does complete on a small example (one painted Pretext scaffold covering scaffold A, B left over) -/
example : (remap [inA, inB] [ptx1] [] (some jg) 1).toOption.map (fun r => r.1.map (fun a => a.scaffolds.map (·.rows))) =
    some [[[.frag f1, .gap g7, .frag f2], [.frag { f3 with strand := 1 }]]] := by decide +kernel

/-! ## the first clause, end to end

  Contig ends are `(name, coordinate, isTail)` (`C11.End`); `facingEnds a b` are the two ends that face each other where
  fragment `a` is directly followed by fragment `b` (strand-aware; a cut piece's end is the piece's own coordinate);
  `inputAdj input` lists `facingEnds` of all directly adjacent fragment rows (NO gap row between) of the input scaffolds and
  `IsInputAdj input p` says that `p` is one of them as an UNORDERED pair.  With two same-named input fragments sharing an
  end coordinate the statement is about those value-level ends. -/
open AgpTpf.C11 (End leftFacing rightFacing facingEnds SameAdj)

/-- `IsInputAdj`, spelled out -/
theorem isInputAdj_iff (input : List Scaffold) (p : End × End) :
    IsInputAdj input p ↔
      ∃ sc ∈ input, ∃ a b, (a, b) ∈ adjPairs sc.rows ∧
        ((p.1 = leftFacing a ∧ p.2 = rightFacing b) ∨ (p.1 = rightFacing b ∧ p.2 = leftFacing a)) := by
  unfold IsInputAdj
  constructor
  · rintro ⟨q, hq, hs⟩
    obtain ⟨sc, hsc, a, b, hab, rfl⟩ := (mem_inputAdj input q).mp hq
    exact ⟨sc, hsc, a, b, hab, hs⟩
  · rintro ⟨sc, hsc, a, b, hab, hs⟩
    exact ⟨facingEnds a b, (mem_inputAdj input _).mpr ⟨sc, hsc, a, b, hab, rfl⟩, hs⟩

/-- A1: gapless adjacencies inside a contiguous slice `rows[i : i+n]` of an input scaffold's rows are adjacencies of
    that scaffold, hence input adjacencies. -/
theorem slice_adjacent (input : List Scaffold) (sc : Scaffold) (hsc : sc ∈ input) (i n : Nat) :
    ∀ pr ∈ adjPairs ((sc.rows.drop i).take n), pr ∈ adjPairs sc.rows ∧ IsInputAdj input (facingEnds pr.1 pr.2) :=
  fun pr hp => ⟨slice_adjacent_aux sc.rows i n pr hp, slice_adjacent_input input sc hsc i n pr hp⟩

/-- A3: reversing a run (order and strands — `to_scaffold` for a minus bait) turns each adjacency `(a, b)` into
    `(b.reverse, a.reverse)`, whose facing ends are the SAME unordered pair (strands ±1). -/
theorem reverse_adjacent (l : List Row) :
    ∀ pr ∈ adjPairs (l.reverse.map Row.reverse), ∃ q ∈ adjPairs l, pr = mirror q ∧
      (StrandPM q.1 → StrandPM q.2 → SameAdj (facingEnds pr.1 pr.2) (facingEnds q.1 q.2)) :=
  reverse_adjacent_aux l

/-- A2: throughout `remap_to_input_assembly` (lookup, `trim_large_overhangs`, the resolver's `discard_start/end`,
    `cut_fragments`' `trim_fragment`, renaming) every stored result keeps the C18 invariant with respect to ONE input
    scaffold — a contiguous run of its rows, rows removed only at the ends, terminal fragments shortened only at their
    OUTER end — so the end facing the inner neighbour is unchanged: every adjacency `(a, c)` inside a stored result has
    the facing ends and strands of an adjacency `(a0, c0)` of that input scaffold.
    Hypothesis: the input Fragment objects are pairwise distinct (`trim_fragment` finds its row by identity). -/
theorem trim_keeps_inner_ends (input ptx : List Scaffold) (prefix_ : Str) (joinGap : Option Gap) (err : Int) (b : Build)
    (hnd : ((input.flatMap Scaffold.fragments).map (·.oid)).Nodup)
    (h : remapToInput input ptx prefix_ joinGap err = .ok b) :
    ∀ r ∈ b.store, ∃ sc ∈ input, C18.Inv sc.rows r.o ∧
      ∀ a c, (a, c) ∈ adjPairs r.o.rows →
        ∃ a0 c0, (a0, c0) ∈ adjPairs sc.rows ∧ leftFacing a = leftFacing a0 ∧ rightFacing c = rightFacing c0 ∧
          a.strand = a0.strand ∧ c.strand = c0.strand := by
  intro r hr
  obtain ⟨sc, hsc, hI⟩ := ((remapToInput_cinv input ptx prefix_ joinGap err b hnd h).1.store r hr).inv
  exact ⟨sc, hsc, hI, trim_keeps_inner_ends_aux hI.content⟩

/-- … and the left-over scaffolds: adjacencies inside one are adjacencies of its input scaffold, and when the recorded
    input predecessor has no gap rows (`[]`, model change f6b: the predecessor now records the LIST of gap rows), (predecessor, first left-over fragment) is an adjacency of that input scaffold. -/
theorem leftover_from_input (input ptx : List Scaffold) (prefix_ : Str) (joinGap : Option Gap) (err : Int) (b : Build)
    (hnd : ((input.flatMap Scaffold.fragments).map (·.oid)).Nodup)
    (h : remapToInput input ptx prefix_ joinGap err = .ok b) :
    b.joinGap = joinGap ∧
    ∀ e ∈ b.extra, ∃ sc ∈ input, (∀ pr ∈ adjPairs e.1.rows, pr ∈ adjPairs sc.rows) ∧
      ∀ prev c, e.2 = some (prev, []) → e.1.rows.head? = some (.frag c) → (prev, c) ∈ adjPairs sc.rows :=
  ⟨(remapToInput_cinv input ptx prefix_ joinGap err b hnd h).1.jg, (remapToInput_cinv input ptx prefix_ joinGap err b hnd h).2⟩

/-- A4 — C07, first clause, for ALL inputs and ALL Pretext files on which remapping completes, with a join gap
    configured: in every scaffold of every output assembly two fragments are directly adjacent (no gap row between
    them) only if the same two contig ends were directly adjacent in the input assembly.
    Needed of the input: its Fragment objects are pairwise distinct (as objects read from a file are).  Combines A1–A3
    (via the C18 invariant), `fuse_adjacent`'s case analysis (a seam in front of a stored result always carries the join
    gap; a gapless seam in front of a left-over scaffold is the recorded input adjacency, `input_predecessor_no_gap`),
    `leftover_adjacent`, and `assembliesFused_rows` (distribution / naming / sorting do not touch rows). -/
theorem remap_adjacent_only_from_input (input ptx : List Scaffold) (prefix_ : Str) (g : Gap) (err : Int)
    (outs : List OutAsm) (stats : Stats)
    (hnd : ((input.flatMap Scaffold.fragments).map (·.oid)).Nodup)
    (h : remap input ptx prefix_ (some g) err = .ok (outs, stats)) :
    ∀ a ∈ outs, ∀ s ∈ a.scaffolds, ∀ pr ∈ adjPairs s.rows, IsInputAdj input (facingEnds pr.1 pr.2) := by
  unfold remap at h
  simp only [bind, Except.bind] at h
  split at h
  · cases h
  · next b hb =>
    obtain ⟨hc, hex⟩ := remapToInput_cinv input ptx prefix_ (some g) err b hnd hb
    have hstr := input_strands_of_stats input outs b.cuts stats (assembliesFused_stats input b outs stats h)
    intro a ha s hs pr hp
    rcases assembliesFused_rows input b outs stats h a ha s hs with e | ⟨s0, hs0, e⟩
    · rw [e] at hp; cases hp
    · rw [e] at hp
      exact fused_adjacent input _ g b hc hex hstr s0 hs0 pr hp

/-- the same, spelled out: the pair of facing ends of the output adjacency is the pair of facing ends of two fragment
    rows `a0 b0` that are directly adjacent in some input scaffold (in either order) -/
theorem remap_adjacent_only_from_input' (input ptx : List Scaffold) (prefix_ : Str) (g : Gap) (err : Int)
    (outs : List OutAsm) (stats : Stats)
    (hnd : ((input.flatMap Scaffold.fragments).map (·.oid)).Nodup)
    (h : remap input ptx prefix_ (some g) err = .ok (outs, stats)) :
    ∀ a ∈ outs, ∀ s ∈ a.scaffolds, ∀ x y, (x, y) ∈ adjPairs s.rows →
      ∃ sc ∈ input, ∃ a0 b0, (a0, b0) ∈ adjPairs sc.rows ∧
        ((leftFacing x = leftFacing a0 ∧ rightFacing y = rightFacing b0) ∨
         (leftFacing x = rightFacing b0 ∧ rightFacing y = leftFacing a0)) := by
  intro a ha s hs x y hxy
  exact (isInputAdj_iff input _).mp (remap_adjacent_only_from_input input ptx prefix_ g err outs stats hnd h a ha s hs _ hxy)

/-! non-vacuity: scaffold C = a(+) b(−) c(+) d(+), no gaps.  Pretext: S1 = C:6-24 on the MINUS strand (cuts a and c,
    reverses the run), S2 = C:1-5 and C:25-30 (the other halves of a and c, joined with the join gap); d is left over.
    The output adjacencies (c−,b+) and (b+,a−) are the input adjacencies (b,c) and (a,b) read from the other side. -/
private def h1 : Fragment := { oid := 1, name := ['a'], start := 1, stop := 10, strand := 1 }
private def h2 : Fragment := { oid := 2, name := ['b'], start := 1, stop := 10, strand := -1 }
private def h3 : Fragment := { oid := 3, name := ['c'], start := 1, stop := 10, strand := 1 }
private def h4 : Fragment := { oid := 4, name := ['d'], start := 1, stop := 10, strand := 1 }
private def inC : Scaffold := { name := ['C'], rows := [.frag h1, .frag h2, .frag h3, .frag h4] }
private def ptxC : Scaffold :=
  { name := ['S','1'], rows := [.frag { oid := 10, name := ['C'], start := 6, stop := 24, strand := -1, tags := [sPainted] }] }
private def ptxD : Scaffold :=
  { name := ['S','2'], rows := [.frag { oid := 11, name := ['C'], start := 1, stop := 5, strand := 1, tags := [sPainted] },
      .frag { oid := 12, name := ['C'], start := 25, stop := 30, strand := 1, tags := [sPainted] }] }
private def cutTags : List Str := [Gen.cutTag]
private def c7 : Fragment := { oid := 7, name := ['c'], start := 1, stop := 4, strand := -1, tags := cutTags }
private def b2 : Fragment := { h2 with strand := 1 }
private def a6 : Fragment := { oid := 6, name := ['a'], start := 6, stop := 10, strand := -1, tags := cutTags }
example : ((inC.fragments).map (·.oid)).Nodup := by decide
example : (remap [inC] [ptxC, ptxD] [] (some jg) 1).toOption.map (fun r => r.1.map (fun a => a.scaffolds.map (·.rows))) =
    some [[[.frag c7, .frag b2, .frag a6],
           [.frag { oid := 5, name := ['a'], start := 1, stop := 5, strand := 1, tags := cutTags }, .gap jg,
            .frag { oid := 8, name := ['c'], start := 5, stop := 10, strand := 1, tags := cutTags }],
           [.frag h4]]] := by decide +kernel
example : inputAdj [inC] = [((['a'], 10, true), (['b'], 10, true)), ((['b'], 1, false), (['c'], 1, false)),
    ((['c'], 10, true), (['d'], 1, false))] := by decide
example : facingEnds c7 b2 = ((['c'], 1, false), (['b'], 1, false)) ∧ IsInputAdj [inC] (facingEnds c7 b2) ∧
    facingEnds b2 a6 = ((['b'], 10, true), (['a'], 10, true)) ∧ IsInputAdj [inC] (facingEnds b2 a6) := by
  unfold IsInputAdj; decide
/-- the ends that were NOT adjacent in the input are not input adjacencies: the cut ends a:5|a:6 and a join a–c -/
example : ¬ IsInputAdj [inC] ((['a'], 5, true), (['c'], 5, false)) := by unfold IsInputAdj; decide

end AgpTpf.C07
