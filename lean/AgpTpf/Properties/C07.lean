/-
  C07 — Every join carries a gap and retained neighbours keep their input gap.

  PROVED here (all-inputs clauses, each at full strength for its stage; no `_partial` theorems):
    `append_adjacent`            `append_scaffold(othr, gap)`: with a gap and a non-empty receiver the seam carries exactly that
                                 gap row and NO fragment–fragment adjacency is created; without a gap the only new adjacency
                                 is (last row, first row) when both are fragments.
    `gap_before_leftover_none_iff` / `gap_before_leftover_source`
                                 the left-over join is gapless only when the last built row is the facing end of the recorded
                                 input predecessor and the input had no gap there; any gap returned is the join gap or the
                                 recorded input gap.
    `input_predecessor_no_gap`   a recorded predecessor without gap is the fragment row directly in front (input adjacency).
    `no_terminal_gaps_discard_start` / `_end`
                                 `discard_start`/`discard_end` pop all following gaps: never a gap as first/last row, the
                                 other end untouched, only gap rows and the one discarded row are removed.
    `to_scaffold_adjacent`       `to_scaffold` of a result keeps exactly the adjacencies of its rows (mirrored for a minus bait).
    `fuse_adjacent`              in every fused scaffold a gapless fragment–fragment adjacency is an adjacency inside one
                                 part, or a left-over seam whose two ends were adjacent in the input (or there is no join gap).
    `fuse_no_terminal_gaps`      if no part begins/ends with a gap, no fused scaffold does (and none is empty).
    `leftover_adjacent`          left-over scaffolds: adjacencies ⊆ input adjacencies; separators = input gap in front / join gap;
                                 no terminal gaps  (from C01 S4).
    `remap_no_terminal_gaps`     END TO END, all inputs: whenever `remap` completes, no scaffold of any output assembly begins or
                                 ends with a gap (invariant carried through find_overlaps, trim_large_overhangs, the resolver,
                                 cutting, left-overs, fusing and the final distribution/renaming/sorting).
  STILL MISSING for the end-to-end form of the FIRST clause (adjacency only if adjacent in the input) over `remap`:
  an invariant relating the rows of stored results to the input rows up to the coordinate changes `trim_fragment`
  makes (the stored rows are contiguous input slices: `C01.find_assembly_overlaps_registry`; the resolver only removes
  rows at the ends; cutting rewrites end fragments) — the per-stage statements above are what that proof would chain;
  and the PretextView-only clause "a junction between non-neighbours always uses the join gap", which needs the
  generator model of PretextView maps (not part of the Lean model).
-/
import AgpTpf.Proofs.C07Lemmas
import AgpTpf.Proofs.C07Pipeline
namespace AgpTpf.C07
open AgpTpf
open AgpTpf.C01 (fuseByName_all adjPairs_appendRows noTerminalGap_appendRows missingRows_spec GapOK)

/-! ## `append_scaffold` -/

/-- With a gap and a non-empty receiver, the junction carries exactly the gap `g`, and the gapless adjacencies of the
    result are those of the two parts: none is created across the seam.  (With an empty receiver the result is `othr`.) -/
theorem append_adjacent (rows othr : List Row) (g : Gap) (hne : rows ≠ []) :
    Scaffold.appendRows rows othr (some g) = rows ++ [Row.gap g] ++ othr ∧
    adjPairs (Scaffold.appendRows rows othr (some g)) = adjPairs rows ++ adjPairs othr := by
  constructor
  · unfold Scaffold.appendRows
    simp only
    rw [if_neg]; simpa using hne
  · simpa using adjPairs_appendRows rows othr (some g)

theorem append_empty_receiver (othr : List Row) (g : Option Gap) : Scaffold.appendRows [] othr g = othr := by
  cases g <;> simp [Scaffold.appendRows]

/-- Without a gap the seam is gapless: the result is the concatenation, and the only new adjacency is
    (last row of `rows`, first row of `othr`) when both are fragments. -/
theorem append_adjacent_none (rows othr : List Row) :
    Scaffold.appendRows rows othr none = rows ++ othr ∧
    adjPairs (Scaffold.appendRows rows othr none) = adjPairs rows ++ seam rows othr ++ adjPairs othr :=
  ⟨rfl, adjPairs_appendRows rows othr none⟩

theorem mem_seam_iff (l r : List Row) (a b : Fragment) :
    (a, b) ∈ seam l r ↔ l.getLast? = some (.frag a) ∧ r.head? = some (.frag b) := by
  unfold seam
  split
  · next a' b' h1 h2 =>
    rw [h1, h2]; simp only [List.mem_cons, Prod.mk.injEq, List.not_mem_nil, or_false, Option.some.injEq, Row.frag.injEq]
    constructor <;> (rintro ⟨rfl, rfl⟩; exact ⟨rfl, rfl⟩)
  · next hno =>
    constructor
    · intro h; cases h
    · rintro ⟨h1, h2⟩; exact absurd h2 (hno a b h1)

private def f1 : Fragment := { oid := 1, name := ['a'], start := 1, stop := 10, strand := 1 }
private def f2 : Fragment := { oid := 2, name := ['a'], start := 11, stop := 20, strand := 1 }
private def f3 : Fragment := { oid := 3, name := ['b'], start := 1, stop := 5, strand := -1 }
private def jg : Gap := { length := 200, gapType := "scaffold".toList }
private def g7 : Gap := { length := 7, gapType := ['u'] }
example : adjPairs (Scaffold.appendRows [.frag f1, .frag f2] [.frag f3] (some jg)) = [(f1, f2)] ∧
    adjPairs (Scaffold.appendRows [.frag f1, .frag f2] [.frag f3] none) = [(f1, f2), (f2, f3)] := by decide

/-! ## `gap_before_leftover` and `input_predecessor` -/

/-- closed form of `gap_before_leftover` -/
theorem gap_before_leftover_eq (joinGap : Option Gap) (built : List Row) (pred : Option (Fragment × Option Gap)) :
    gapBeforeLeftover joinGap built pred =
      match pred, built.getLast? with
      | some (prev, gap), some (.frag last) => if FacingEnd last prev then gap else joinGap
      | _, _ => joinGap :=
  gapBeforeLeftover_eq joinGap built pred

/-- With a join gap configured, a left-over scaffold is appended WITHOUT a gap only when the last built row is the
    facing end of its recorded input predecessor and the input had no gap between them. -/
theorem gap_before_leftover_none_iff (j : Gap) (built : List Row) (pred : Option (Fragment × Option Gap)) :
    gapBeforeLeftover (some j) built pred = none ↔
      ∃ prev last, pred = some (prev, none) ∧ built.getLast? = some (.frag last) ∧ FacingEnd last prev :=
  gapBeforeLeftover_none_iff j built pred

/-- any gap it returns is the join gap or the recorded input gap -/
theorem gap_before_leftover_source (joinGap : Option Gap) (built : List Row) (pred : Option (Fragment × Option Gap))
    (g : Gap) (h : gapBeforeLeftover joinGap built pred = some g) :
    joinGap = some g ∨ ∃ prev, pred = some (prev, some g) :=
  gapBeforeLeftover_source joinGap built pred g h

/-- `input_predecessor(scaffold, i)` records no gap only if the row directly in front of row `i` is that fragment:
    the two contigs were directly adjacent in the input. -/
theorem input_predecessor_no_gap (rows : List Row) (i : Nat) (f : Fragment)
    (h : inputPredecessor rows i = some (f, none)) (hi : i ≤ rows.length) :
    0 < i ∧ rows[i - 1]? = some (.frag f) :=
  inputPredecessor_none_gap rows i f h hi

example : gapBeforeLeftover (some jg) [.frag f1] (some (f1, none)) = none ∧
    gapBeforeLeftover (some jg) [.frag f1] (some (f1, some g7)) = some g7 ∧
    gapBeforeLeftover (some jg) [.frag f2] (some (f1, none)) = some jg ∧
    gapBeforeLeftover (some jg) [.frag f1, .gap g7] (some (f1, none)) = some jg ∧
    inputPredecessor [.frag f1, .frag f2] 1 = some (f1, none) ∧
    inputPredecessor [.frag f1, .gap g7, .frag f2] 2 = some (f1, some g7) := by decide

/-! ## `discard_start` / `discard_end` -/

/-- `discard_start`: the remaining rows are a proper suffix of the old rows that does not begin with a gap; everything
    removed after the first row is a gap; a non-gap last row stays the last row (or nothing is left). -/
theorem no_terminal_gaps_discard_start (o o' : OverlapResult) (h : o.discardStart = .ok o') :
    (∀ g, o'.rows.head? ≠ some (.gap g)) ∧
    o'.rows <:+ o.rows ∧ o'.rows.length < o.rows.length ∧
    (∀ x ∈ (o.rows.drop 1).take (o.rows.length - 1 - o'.rows.length), ∃ g, x = Row.gap g) ∧
    ((∀ g, o.rows.getLast? ≠ some (.gap g)) → ∀ g, o'.rows.getLast? ≠ some (.gap g)) := by
  obtain ⟨d, r, hr, hr'⟩ := discardStart_rows o o' h
  obtain ⟨p1, p2, p3⟩ := popLeadingGaps_spec r (o.start + d.length)
  rw [hr, hr']
  have hsuf : (OverlapResult.popLeadingGaps r (o.start + d.length)).1 <:+ d :: r := p2.trans (List.suffix_cons _ _)
  refine ⟨p1, hsuf, ?_, ?_, ?_⟩
  · have := p2.length_le; simp only [List.length_cons]; omega
  · simpa using p3
  · intro hlast g hg
    by_cases hne : (OverlapResult.popLeadingGaps r (o.start + d.length)).1 = []
    · rw [hne] at hg; cases hg
    · rw [suffix_getLast? hsuf hne] at hg; exact hlast g hg

/-- `discard_end`: the mirror image. -/
theorem no_terminal_gaps_discard_end (o o' : OverlapResult) (h : o.discardEnd = .ok o') :
    (∀ g, o'.rows.getLast? ≠ some (.gap g)) ∧
    o'.rows <+: o.rows ∧ o'.rows.length < o.rows.length ∧
    (∀ x ∈ (o.rows.drop o'.rows.length).take (o.rows.length - 1 - o'.rows.length), ∃ g, x = Row.gap g) ∧
    ((∀ g, o.rows.head? ≠ some (.gap g)) → ∀ g, o'.rows.head? ≠ some (.gap g)) := by
  obtain ⟨d, r, hr, hr'⟩ := discardEnd_rows o o' h
  obtain ⟨p1, p2, p3⟩ := popLeadingGaps_spec r d.length
  have hrows : o.rows = (d :: r).reverse := by rw [← hr, List.reverse_reverse]
  rw [hr', hrows]
  have hsuf : (OverlapResult.popLeadingGaps r d.length).1 <:+ d :: r := p2.trans (List.suffix_cons _ _)
  have hpre : (OverlapResult.popLeadingGaps r d.length).1.reverse <+: (d :: r).reverse := List.reverse_prefix.mpr hsuf
  refine ⟨?_, hpre, ?_, ?_, ?_⟩
  · intro g; rw [List.getLast?_reverse]; exact p1 g
  · have := p2.length_le; simp only [List.length_reverse, List.length_cons]; omega
  · -- the removed rows between the kept prefix and the discarded last row are the popped gaps
    revert p3 hpre hsuf p1
    generalize (OverlapResult.popLeadingGaps r d.length).1 = K at *
    intro p1 p3 _ _
    obtain ⟨pre, rfl⟩ := p2
    rw [take_sub_suffix] at p3
    exact discardEnd_removed d pre K p3
  · intro hhead g hg
    by_cases hne : (OverlapResult.popLeadingGaps r d.length).1.reverse = []
    · rw [hne] at hg; cases hg
    · rw [prefix_head? hpre hne] at hg; exact hhead g hg

/-! ## `to_scaffold` -/

/-- `OverlapResult.to_scaffold`: for a plus/unstranded bait the rows are unchanged; for a minus bait the adjacencies are
    exactly the mirrored ones (order and strands reversed): nothing is created or lost. -/
theorem to_scaffold_adjacent (o : OverlapResult) :
    adjPairs o.toScaffoldRows =
      if o.bait.strand = -1 then (adjPairs o.rows).reverse.map mirror else adjPairs o.rows := by
  unfold OverlapResult.toScaffoldRows
  split
  · exact adjPairs_reverse_map _
  · rfl

/-! ## fused scaffolds -/

/-- where a gapless fragment–fragment adjacency of a fused scaffold can come from -/
def AdjSrc (b : Build) (pr : Fragment × Fragment) : Prop :=
  (∃ r ∈ b.store, r.added = true ∧ pr ∈ adjPairs r.o.toScaffoldRows) ∨
  (∃ e ∈ b.extra, pr ∈ adjPairs e.1.rows) ∨
  b.joinGap = none ∨
  (∃ e ∈ b.extra, ∃ prev, e.2 = some (prev, none) ∧ FacingEnd pr.1 prev ∧ e.1.rows.head? = some (.frag pr.2))

/-- In every fused scaffold two fragments are directly adjacent (no gap row between them) only if they are adjacent
    inside one part (a stored result, as `to_scaffold` orients it, or a left-over scaffold), or the pair is the seam in
    front of a left-over scaffold whose recorded input predecessor had NO gap and whose facing end is exactly the fragment
    before the seam — i.e. the two contig ends were directly adjacent in the input (`input_predecessor_no_gap`);
    the only other possibility is that no join gap is configured at all. -/
theorem fuse_adjacent (b : Build) : ∀ s ∈ fuseByName b, ∀ pr ∈ adjPairs s.rows, AdjSrc b pr := by
  intro s hs
  refine (fuseByName_all (fun rows => ∀ pr ∈ adjPairs rows, AdjSrc b pr) b ?_ ?_ s hs).1
  · intro r hr hadd _
    have part : ∀ pr ∈ adjPairs r.o.toScaffoldRows, AdjSrc b pr := fun pr hp => Or.inl ⟨r, hr, hadd, hp⟩
    refine ⟨fun pr hp => ?_, fun built _ hb pr hp => ?_⟩
    · rw [append_empty_receiver] at hp; exact part pr hp
    · rw [adjPairs_appendRows] at hp
      simp only [List.mem_append] at hp
      rcases hp with (hp | hp) | hp
      · exact hb pr hp
      · cases hj : b.joinGap with
        | none => exact Or.inr (Or.inr (Or.inl hj))
        | some j => rw [hj] at hp; cases hp
      · exact part pr hp
  · intro e he _
    have part : ∀ pr ∈ adjPairs e.1.rows, AdjSrc b pr := fun pr hp => Or.inr (Or.inl ⟨e, he, hp⟩)
    refine ⟨fun pr hp => ?_, fun built _ hb pr hp => ?_⟩
    · rw [append_empty_receiver] at hp; exact part pr hp
    · rw [adjPairs_appendRows] at hp
      simp only [List.mem_append] at hp
      rcases hp with (hp | hp) | hp
      · exact hb pr hp
      · cases hg : gapBeforeLeftover b.joinGap built e.2 with
        | some g => rw [hg] at hp; cases hp
        | none =>
          rw [hg] at hp
          simp only at hp
          cases hj : b.joinGap with
          | none => exact Or.inr (Or.inr (Or.inl hj))
          | some j =>
            rw [hj] at hg
            obtain ⟨prev, last, hpred, hlast, hface⟩ := (gapBeforeLeftover_none_iff j built e.2).mp hg
            obtain ⟨a, c⟩ := pr
            obtain ⟨h1, h2⟩ := (mem_seam_iff _ _ _ _).mp hp
            rw [hlast] at h1
            cases h1
            exact Or.inr (Or.inr (Or.inr ⟨e, he, prev, hpred, hface, h2⟩))
      · exact part pr hp

/-- If no stored result and no left-over scaffold begins or ends with a gap, then no fused scaffold begins or ends
    with a gap, and none is empty. -/
theorem fuse_no_terminal_gaps (b : Build)
    (hstore : ∀ r ∈ b.store, r.added = true → NoTerminalGap r.o.rows)
    (hextra : ∀ e ∈ b.extra, NoTerminalGap e.1.rows) :
    ∀ s ∈ fuseByName b, NoTerminalGap s.rows ∧ s.rows ≠ [] := by
  apply fuseByName_all NoTerminalGap
  · intro r hr hadd hne
    have h2 := noTerminalGap_toScaffoldRows _ (hstore r hr hadd)
    have hne' := C01.toScaffoldRows_ne_nil _ hne
    exact ⟨(noTerminalGap_appendRows _ _ _ (Or.inl rfl) h2 hne').1,
           fun built _ hb => (noTerminalGap_appendRows _ _ _ (Or.inr hb) h2 hne').1⟩
  · intro e he hne
    have h2 := hextra e he
    exact ⟨(noTerminalGap_appendRows _ _ _ (Or.inl rfl) h2 hne).1,
           fun built _ hb => (noTerminalGap_appendRows _ _ _ (Or.inr hb) h2 hne).1⟩

private def bx : Build :=
  { namer := { autosomePrefix := [] }, nextOid := 4, joinGap := some jg, err := 1,
    store := [ { o := { bait := f1, start := 1, stop := 10, rows := [.frag f1], name := ['S'] }, added := true } ],
    extra := [ ({ name := ['S'], rows := [.frag f2] }, some (f1, none)),
               ({ name := ['S'], rows := [.frag f3] }, none) ] }
/-- a left-over contig whose input predecessor is the last built row, with no input gap, is re-joined without a gap;
    an unrelated left-over is joined with the join gap -/
example : (fuseByName bx).map (·.rows) = [[.frag f1, .frag f2, .gap jg, .frag f3]] := by decide
example : (∀ r ∈ bx.store, r.added = true → NoTerminalGap r.o.rows) ∧ (∀ e ∈ bx.extra, NoTerminalGap e.1.rows) := by
  simp [bx, NoTerminalGap]

/-! ## left-over scaffolds -/

/-- The left-over scaffold `add_missing_scaffolds_from_input` builds from one input scaffold: fragments directly
    adjacent in it were directly adjacent rows of the input scaffold; every gap row is the input gap row directly in
    front of the following left-over fragment, or the join gap; it neither starts nor ends with a gap. -/
theorem leftover_adjacent (b : Build) (rows out : List Row) (first : Option Nat)
    (h : missingRows b rows = .ok (out, first)) :
    (∀ pr ∈ adjPairs out, pr ∈ adjPairs rows) ∧ (∀ g, Row.gap g ∈ out → GapOK b rows g) ∧ NoTerminalGap out := by
  obtain ⟨_, h2, h3, h4, h5, _⟩ := missingRows_spec b rows out first h
  exact ⟨h3, h2, h4, h5⟩

/-! ## end to end: no output scaffold begins or ends with a gap -/

/-- The invariant behind it: after `remap_to_input_assembly` no stored result and no left-over scaffold begins or ends
    with a gap (`find_overlaps` skips terminal gaps, `discard_start/end` pop them, `trim_fragment` writes a fragment,
    left-over scaffolds start and end with a fragment). -/
theorem remap_to_input_no_terminal_gaps (input ptx : List Scaffold) (prefix_ : Str) (joinGap : Option Gap) (err : Int)
    (b : Build) (h : remapToInput input ptx prefix_ joinGap err = .ok b) :
    (∀ r ∈ b.store, NoTerminalGap r.o.rows) ∧ (∀ e ∈ b.extra, NoTerminalGap e.1.rows) :=
  remapToInput_ntg input ptx prefix_ joinGap err b h

/-- C07, second clause, for ALL inputs on which remapping completes: no scaffold of any output assembly begins or
    ends with a gap row. -/
theorem remap_no_terminal_gaps (input ptx : List Scaffold) (prefix_ : Str) (joinGap : Option Gap) (err : Int)
    (outs : List OutAsm) (stats : Stats) (h : remap input ptx prefix_ joinGap err = .ok (outs, stats)) :
    ∀ a ∈ outs, ∀ s ∈ a.scaffolds, NoTerminalGap s.rows := by
  unfold remap at h
  simp only [bind, Except.bind] at h
  split at h
  · cases h
  · next b hb =>
    obtain ⟨hst, hex⟩ := remapToInput_ntg _ _ _ _ _ _ hb
    intro a ha s hs
    rcases assembliesFused_rows input b outs stats h a ha s hs with e | ⟨s0, hs0, e⟩
    · rw [e]; exact noTerminalGap_nil
    · rw [e]; exact (fuse_no_terminal_gaps b (fun r hr _ => hst r hr) hex s0 hs0).1

private def inA : Scaffold := { name := ['A'], rows := [.frag f1, .gap g7, .frag f2] }
private def inB : Scaffold := { name := ['B'], rows := [.frag { f3 with strand := 1 }] }
private def ptx1 : Scaffold :=
  { name := ['S','1'], rows := [.frag { oid := 10, name := ['A'], start := 1, stop := 27, strand := 1, tags := [sPainted] }] }
/-- remapping does complete on a small example (one painted Pretext scaffold covering scaffold A, B left over) -/
example : (remap [inA, inB] [ptx1] [] (some jg) 1).toOption.map (fun r => r.1.map (fun a => a.scaffolds.map (·.rows))) =
    some [[[.frag f1, .gap g7, .frag f2], [.frag { f3 with strand := 1 }]]] := by decide +kernel

end AgpTpf.C07
