/-
  C14 / T1c — the model's `Fragment.reverse`, `Scaffold.reverse` and `OverlapResult.toScaffoldRows` ARE the source's
  `Fragment.reverse` (assembly/fragment.py) and `OverlapResult.to_scaffold` (assembly/overlap_result.py) as translated by
  `harness/translate_imp.py` into `Gen.Imp.Fragment_reverse` / `Gen.Imp.OverlapResult_to_scaffold`.
-/
import AgpTpf.Gen.Imp
namespace AgpTpf.C14
open AgpTpf

/-- the source's `reverse()` goes through `Fragment.__init__` again: it builds the model's reversed fragment (a NEW object)
    exactly when the checks of `__init__` hold for `self`, and raises ValueError otherwise — i.e. for a hand-mutated fragment
    with a strand outside {0, 1, -1} or `start > end`, where the model's total `Fragment.reverse` still returns a value. -/
theorem fragment_reverse_source_cases (f : Fragment) (newOid : Nat) :
    Gen.Imp.Fragment_reverse f newOid =
      if (f.strand = 0 ∨ f.strand = 1 ∨ f.strand = -1) ∧ f.start ≤ f.stop then .ok { f.reverse with oid := newOid }
      else .error .value := by
  unfold Gen.Imp.Fragment_reverse mkFragment Fragment.reverse
  simp only [bind, Except.bind]
  grind

/-- for a Fragment that passed `Fragment.__init__`'s checks the source's `reverse()` builds the model's reversed fragment (a NEW object) -/
theorem fragment_reverse_is_source (f : Fragment) (newOid : Nat) (hs : f.strand = 0 ∨ f.strand = 1 ∨ f.strand = -1) (hse : f.start ≤ f.stop) :
    Gen.Imp.Fragment_reverse f newOid = .ok { f.reverse with oid := newOid } := by
  rw [fragment_reverse_source_cases, if_pos ⟨hs, hse⟩]

/-- the hypotheses are met, and the generated function runs -/
example :
    Gen.Imp.Fragment_reverse { oid := 3, name := ['c'], start := 4, stop := 9, strand := 1, tags := [['t']] } 7
      = .ok { oid := 7, name := ['c'], start := 4, stop := 9, strand := -1, tags := [['t']] } := by rfl
example : ((1 : Int) = 0 ∨ (1 : Int) = 1 ∨ (1 : Int) = -1) ∧ (4 : Int) ≤ 9 := by decide
/-- outside the hypotheses the source raises where the model's `Fragment.reverse` returns a fragment -/
example : Gen.Imp.Fragment_reverse { name := ['c'], start := 4, stop := 9, strand := 2 } 7 = .error .value := by rfl
example : Gen.Imp.Fragment_reverse { name := ['c'], start := 9, stop := 4, strand := 1 } 7 = .error .value := by rfl

/-- `to_scaffold` never raises and its rows are the model's `toScaffoldRows` -/
theorem to_scaffold_is_source (o : OverlapResult) :
    (Gen.Imp.OverlapResult_to_scaffold o).map (·.rows) = .ok o.toScaffoldRows := by
  unfold Gen.Imp.OverlapResult_to_scaffold OverlapResult.toScaffoldRows Scaffold.reverse
  by_cases h : o.bait.strand = -1 <;> simp [h, Except.map]

/-- the whole result of `to_scaffold`: name / original_name / original_tags are those of `o`, rows as above, and
    tag / haplotype / rank are the defaults of a fresh `Scaffold` (the source does not copy them) -/
theorem to_scaffold_is_source_full (o : OverlapResult) :
    Gen.Imp.OverlapResult_to_scaffold o =
      .ok { name := o.name, rows := o.toScaffoldRows, originalName := o.originalName, originalTags := o.originalTags } := by
  unfold Gen.Imp.OverlapResult_to_scaffold OverlapResult.toScaffoldRows Scaffold.reverse
  by_cases h : o.bait.strand = -1 <;> simp [h]

/-- the generated function runs: a minus-strand bait reverses order and strands -/
example :
    Gen.Imp.OverlapResult_to_scaffold
      { bait := { name := ['b'], start := 1, stop := 20, strand := -1 }, start := 1, stop := 20, name := ['n'], rank := 2,
        originalName := some ['o'],
        rows := [.frag { name := ['c'], start := 1, stop := 5, strand := 1 }, .gap { length := 5, gapType := ['s'] },
                 .frag { name := ['d'], start := 11, stop := 20, strand := -1 }] }
    = .ok { name := ['n'], originalName := some ['o'],
            rows := [.frag { name := ['d'], start := 11, stop := 20, strand := 1 }, .gap { length := 5, gapType := ['s'] },
                     .frag { name := ['c'], start := 1, stop := 5, strand := -1 }] } := by rfl

end AgpTpf.C14
