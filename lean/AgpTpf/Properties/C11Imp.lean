/-
  C11 / T1c — the curation statistics: the model's `makeStats` / `Assembly.junctionSet` (Model/Remap.lean, Model/Basic.lean) against
  the source's `AssemblyStats.make_stats` (assembly/assembly_stats.py) and `Assembly.fragment_junction_set` (assembly/assembly.py)
  as translated by `harness/translate_imp.py` into `Gen.Imp`.  Helper lemmas: Proofs/ImpStats.lean.

  Conversions (Proofs/ImpStats.lean): the model's `perAssembly : List (Str × Int × Int)` is the source's `per_assembly_stats`
  under `perToSrc` (`(name, b, j) ↦ (name, [("manual_breaks", b), ("manual_joins", j)])`).  The source is run on
  `output_assemblies = [(a.key, Assembly(a.scaffolds)) for a in outs]` and
  `self.input_assembly.fragment_junctions_by_asm_prefix() = junctionsByPrefix input`; the incoming `self.breaks` / `self.joins`
  (`b0`, `j0`) are arbitrary (they are overwritten), the incoming `per_assembly_stats` is empty.  `cuts` is not touched by `make_stats`.

  RESULTS
   1  `assembly_junction_set_is_source`           full strength: the source's loop over `scffld.fragment_junction_set()` = `Assembly.junctionSet`
      `assembly_junction_set_source_loop`         (an earlier translator version dropped the RECEIVER of an opaque method call on a loop variable,
                                                  making the parameter a constant; this proof task exposed it, the translator was corrected)
   2  `make_stats_is_source_partial`              whole result (breaks, joins, per-assembly records, exception class) under
                                                  `outs` keys pairwise different — the FULL statement is FALSE of the model (counter-example
                                                  below: three assemblies with keys None, "", None), but a Python dict never has a repeated key
      `make_stats_counts_is_source`               breaks, joins and the exception class: full strength, NO hypothesis
      `make_stats_source_normal_form`             what the source computes for ALL inputs (the per-assembly loop runs over the dictionary)
   3  `make_stats_counts_source`                  `C11.make_stats_counts` for the numbers the SOURCE computes (no hypothesis on the keys)
-/
import AgpTpf.Gen.Imp
import AgpTpf.Proofs.ImpStats
import AgpTpf.Properties.C11
namespace AgpTpf.C11
open AgpTpf ImpStats

/-! ## 1. `Assembly.fragment_junction_set` -/

/-- the source's `Assembly.fragment_junction_set` (the loop `junctions |= scffld.fragment_junction_set()`) is the model's `Assembly.junctionSet`,
    with `Scaffold.junctionSet` for the per-scaffold call (the receiver of that call is the loop variable — an earlier version of the translator
    dropped the receiver of such a call and made the parameter a constant; the proof work exposed it and the translator now passes it) -/
theorem assembly_junction_set_is_source (a : Assembly) :
    Gen.Imp.Assembly_fragment_junction_set a.scaffolds Scaffold.junctionSet = a.junctionSet := by
  rw [assemblyJunctionSetSrc_eq, Assembly.junctionSet]

/-- … for every function standing for the call: the model's fold with that function -/
theorem assembly_junction_set_source_loop (scs : List Scaffold) (r : Scaffold → R (List Junction)) :
    Gen.Imp.Assembly_fragment_junction_set scs r
      = scs.foldlM (fun acc (sc : Scaffold) => do let js ← r sc; pure (sUnion acc js)) [] :=
  assemblyJunctionSetSrc_eq scs r

/-- the generated function run on two scaffolds with DIFFERENT junction sets: both sets are in the result -/
example : (Gen.Imp.Assembly_fragment_junction_set [scEx, scEx.reverse] Scaffold.junctionSet).isOk = true := by rfl

/-! ## 2. `AssemblyStats.make_stats` -/

/-- The source for ALL inputs, in the model's vocabulary: `junctionsByPrefix`, the `mapM` over the output assemblies (`outSetsOf`),
    the two unions and differences — exactly the model's stages — and then the per-assembly loop (`perStepS`, the model's step under
    `perToSrc`) over the DICTIONARY `output_junction_sets` built by storing the sets under their keys one by one. -/
theorem make_stats_source_normal_form (input : List Scaffold) (outs : List OutAsm) (b0 j0 : Int)
    (per0 : List (Str × List (Str × Int))) :
    Gen.Imp.AssemblyStats_make_stats b0 j0 per0 (outs.map (fun a => (a.key, ({ scaffolds := a.scaffolds } : Assembly))))
        (junctionsByPrefix input) =
      (junctionsByPrefix input >>= fun inSets =>
       outSetsOf outs >>= fun outSets =>
       let tb := sDiff (unionOf inSets) (unionOf outSets)
       let tj := sDiff (unionOf outSets) (unionOf inSets)
       .ok ((tb.length : Int), (tj.length : Int),
            (outSets.foldl (fun d p => dSet d p.1 p.2) []).foldl (perStepS inSets tb tj) per0)) :=
  makeStatsSrc_eq input outs b0 j0 per0

/- FULL statement (FALSE, see the counter-example below): the same without `hk`. -/
/-- `make_stats` on output assemblies with pairwise different keys (what a Python `dict` guarantees): the source returns exactly the
    model's `breaks`, `joins` and per-assembly numbers, and raises exactly when the model does, with the same exception class. -/
theorem make_stats_is_source_partial (input : List Scaffold) (outs : List OutAsm) (cuts b0 j0 : Int)
    (hk : (outs.map (·.key)).Nodup) :
    Gen.Imp.AssemblyStats_make_stats b0 j0 [] (outs.map (fun a => (a.key, ({ scaffolds := a.scaffolds } : Assembly))))
        (junctionsByPrefix input)
      = (makeStats input outs cuts).map (fun st => (st.breaks, st.joins, perToSrc st.perAssembly)) := by
  rw [makeStatsSrc_eq, makeStats_eq]
  cases junctionsByPrefix input with
  | error e => rfl
  | ok inSets =>
    cases h2 : outSetsOf outs with
    | error e => rfl
    | ok outSets =>
      simp only [bind, Except.bind, Except.map]
      rw [outDict_eq outs outSets h2 hk]
      exact congrArg (fun p => Except.ok (_, _, p)) (perLoop_eq inSets _ _ outSets [])

/-- `breaks`, `joins` and the exception class: for ALL inputs (repeated keys, any incoming `per_assembly_stats`) -/
theorem make_stats_counts_is_source (input : List Scaffold) (outs : List OutAsm) (cuts b0 j0 : Int)
    (per0 : List (Str × List (Str × Int))) :
    (Gen.Imp.AssemblyStats_make_stats b0 j0 per0 (outs.map (fun a => (a.key, ({ scaffolds := a.scaffolds } : Assembly))))
        (junctionsByPrefix input)).map (fun r => (r.1, r.2.1))
      = (makeStats input outs cuts).map (fun st => (st.breaks, st.joins)) := by
  rw [makeStatsSrc_eq, makeStats_eq]
  cases junctionsByPrefix input with
  | error e => rfl
  | ok inSets =>
    cases outSetsOf outs with
    | error e => rfl
    | ok outSets => rfl

/-! ### the worked example: input `a b` + `a2`; the output breaks `a|b` and joins `b|a2` -/

/-- input assembly: two scaffolds, one junction `a|b` -/
def inImp : List Scaffold :=
  [{ name := ['s', '1'], rows := [.frag (fA 1), gap100, .frag (fB 1)] },
   { name := ['s', '2'], rows := [.frag (fA2 1)] }]
/-- output: the primary assembly (key `None`) with `a` alone and the new scaffold `b a2`; a second assembly "Hap2" (no input
    junctions under the prefix `hap2`, so no record for it) -/
def outImp : List OutAsm :=
  [{ key := none, curated := true, scaffolds :=
      [{ name := ['r', '1'], rows := [.frag (fA 1)] },
       { name := ['r', '2'], rows := [.frag (fB 1), gap100, .frag (fA2 1)] }] },
   { key := some ['H', 'a', 'p', '2'], curated := true, scaffolds :=
      [{ name := ['h', '1'], rows := [.frag (fB (-1))] }] }]

example : (outImp.map (·.key)).Nodup := by decide

/-- the generated function run on it: breaks = 1, joins = 1, record for "Primary" (the incoming 7 / 9 are overwritten) -/
example :
    Gen.Imp.AssemblyStats_make_stats 7 9 [] (outImp.map (fun a => (a.key, ({ scaffolds := a.scaffolds } : Assembly))))
        (junctionsByPrefix inImp)
      = .ok (1, 1, [("Primary".toList, [("manual_breaks".toList, 1), ("manual_joins".toList, 1)])]) := by
  rfl

example : makeStats inImp outImp 3 = .ok { cuts := 3, breaks := 1, joins := 1, perAssembly := [(sPrimary, 1, 0 + 1)] } := by
  decide +kernel

/-- a strand 0 in an output scaffold: both sides raise `ValueError` -/
example :
    let bad : List OutAsm := [{ key := none, curated := true, scaffolds := [{ name := ['r'], rows := [.frag (fA 1), .frag (fB 0)] }] }]
    Gen.Imp.AssemblyStats_make_stats 0 0 [] (bad.map (fun a => (a.key, ({ scaffolds := a.scaffolds } : Assembly))))
        (junctionsByPrefix inImp) = .error .value ∧
    makeStats inImp bad 0 = .error .value :=
  ⟨rfl, rfl⟩

/-! ### the counter-example to the statement without `hk`

  Input: one scaffold `a b c d` (three junctions, all under the prefix `None`).  Output "assemblies" `(None, [a b])`, `("", [c d])`,
  `(None, [a d])` — the key `None` twice.  `None` and `""` both mean "Primary" (`name or "Primary"`) and both look up the input
  prefix `None` (`name.lower() if name else None`).
  * model (folds over the three entries in order, each overwriting the record "Primary"): the last writer is `(None, [a d])`:
    manual_breaks 1, manual_joins 1.
  * source (`output_junction_sets` is a dict: the second `None` overwrites the first IN PLACE, so the order of the items is
    `None ↦ [a d]`, `"" ↦ [c d]`): the last writer is `("", [c d])`: manual_breaks 1, manual_joins 0.
  `breaks = 1` (`b|c`) and `joins = 1` (`a|d`) agree, as `make_stats_counts_is_source` says they must. -/

def fN (n : Char) : Fragment := { name := [n], start := 1, stop := 10, strand := 1 }
def inDup : List Scaffold :=
  [{ name := ['s', '1'], rows := [.frag (fN 'a'), .frag (fN 'b'), .frag (fN 'c'), .frag (fN 'd')] }]
def outDup : List OutAsm :=
  [{ key := none, curated := true, scaffolds := [{ name := ['x'], rows := [.frag (fN 'a'), .frag (fN 'b')] }] },
   { key := some [], curated := true, scaffolds := [{ name := ['y'], rows := [.frag (fN 'c'), .frag (fN 'd')] }] },
   { key := none, curated := true, scaffolds := [{ name := ['z'], rows := [.frag (fN 'a'), .frag (fN 'd')] }] }]

example :
    Gen.Imp.AssemblyStats_make_stats 0 0 [] (outDup.map (fun a => (a.key, ({ scaffolds := a.scaffolds } : Assembly))))
        (junctionsByPrefix inDup) = .ok (1, 1, perToSrc [(sPrimary, 1, 0)]) ∧
    (makeStats inDup outDup 0).map (fun st => (st.breaks, st.joins, perToSrc st.perAssembly))
      = .ok (1, 1, perToSrc [(sPrimary, 1, 1)]) ∧
    ¬ (outDup.map (·.key)).Nodup :=
  ⟨rfl, rfl, by decide⟩

/-! ## 3. `C11.make_stats_counts` for the numbers the source computes -/

/-- Whenever the SOURCE's `make_stats` returns (any keys, any incoming counters and records), its `breaks` and `joins` are
    `|inputSet \ outputSet|` and `|outputSet \ inputSet|` for duplicate-free `inputSet` / `outputSet` whose members are exactly the
    junction tuples of consecutive fragment pairs of the input scaffolds / of the scaffolds of all output assemblies. -/
theorem make_stats_counts_source (input : List Scaffold) (outs : List OutAsm) (b0 j0 : Int)
    (per0 per : List (Str × List (Str × Int))) (b j : Int)
    (h : Gen.Imp.AssemblyStats_make_stats b0 j0 per0 (outs.map (fun a => (a.key, ({ scaffolds := a.scaffolds } : Assembly))))
        (junctionsByPrefix input) = .ok (b, j, per)) :
    ∃ inputSet outputSet : List Junction,
      inputSet.Nodup ∧ outputSet.Nodup ∧
      (∀ x, x ∈ inputSet ↔ JunctionIn input x) ∧
      (∀ x, x ∈ outputSet ↔ JunctionInOuts outs x) ∧
      b = ((sDiff inputSet outputSet).length : Int) ∧
      j = ((sDiff outputSet inputSet).length : Int) := by
  have hc := make_stats_counts_is_source input outs 0 b0 j0 per0
  rw [h] at hc
  cases hm : makeStats input outs 0 with
  | error e => rw [hm] at hc; simp [Except.map] at hc
  | ok st =>
    rw [hm] at hc
    simp only [Except.map, Except.ok.injEq, Prod.mk.injEq] at hc
    obtain ⟨I, O, hI, hO, mI, mO, -, hb, hj⟩ := make_stats_counts input outs 0 st hm
    exact ⟨I, O, hI, hO, mI, mO, by rw [hc.1, hb], by rw [hc.2, hj]⟩

example : ∃ b j per, Gen.Imp.AssemblyStats_make_stats 0 0 [] (outImp.map (fun a => (a.key, ({ scaffolds := a.scaffolds } : Assembly))))
    (junctionsByPrefix inImp) = .ok (b, j, per) :=
  ⟨1, 1, [("Primary".toList, [("manual_breaks".toList, 1), ("manual_joins".toList, 1)])], rfl⟩

end AgpTpf.C11
