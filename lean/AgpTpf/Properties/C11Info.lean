/-
  C11 (part) — `manual_haplotig_removals` in `<output>.info.yaml` (`write_info_yaml`) is the number of scaffolds in
  the haplotig file the same run writes.

  Model: Model/CliPlan.lean (`infoRecord`, `outputPlan`), Model/Cli.lean (`nameAssemblies`, `outputFileName`).
  `write_info_yaml` looks the assembly up under the key `"Haplotig"` in the dict BEFORE `name_assemblies` renames it;
  an `Assembly` object is always truthy (the class defines neither `__bool__` nor `__len__`), so the count is taken
  whenever the key is present.

   I1  `haplotig_removals_eq`     count = scaffolds of the `Haplotig` assembly = scaffolds of the assembly written to
                                  `root.version.additional_haplotigs.curated<suffix>` (single-haplotype branch) /
                                  `root.version.haplotigs<suffix>` (`Primary` and multi-haplotype branches), a planned file
       `haplotig_removals_zero`   no `Haplotig` key: 0
       `haplotig_file_unique`     (file-level hypotheses of C16 P1) no other assembly is written to that file
       `info_record_fields`       the other fields of the record
-/
import AgpTpf.Proofs.CliPlanInfo
import AgpTpf.Properties.C09Names
namespace AgpTpf.C11
open AgpTpf AgpTpf.CliNames AgpTpf.CliPlan

/-- every assembly of the dict gets its file in the plan -/
theorem planned_assembly_files (outName : Str) (writeLog : Bool) (named : List NamedAsm) (fmt : Fmt) (suffix prefix_ : Str)
    (plan : List Str) (hplan : outputPlan outName writeLog named fmt suffix prefix_ = .ok plan) :
    ∀ n ∈ named, outputFileName n suffix ∈ plan := by
  obtain ⟨log, files, rep, _, hfiles, _, rfl⟩ := outputPlan_ok _ _ _ _ _ _ _ hplan
  intro n hn
  have := assemblyFiles_mem fmt suffix named files hfiles n hn
  simp only [List.mem_append]
  exact .inl (.inl (.inr this))

/-- **I1** `outs` = the dict returned by the remap (pairwise different keys), `h` its assembly keyed `Haplotig`,
    not curated (it is keyed by a TAG: `C09.assembly_key`: the flag is `False` for a tag key).  Then `manual_haplotig_removals` is the number of
    scaffolds of `h`, and `name_assemblies` hands exactly these scaffolds to one named assembly `n`:
    * single-haplotype branch (a `None` key, no `Primary` key): key `additional_haplotigs`, file
      `root.version.additional_haplotigs.curated<suffix>`;
    * `Primary` branch and multi-haplotype branch: key `Haplotig` kept, file `root.version.haplotigs<suffix>`;
    and that file is one of the planned files of every plan built from `named`. -/
theorem haplotig_removals_eq (stats : Stats) (outs : List OutAsm) (root version suffix : Str) (named : List NamedAsm)
    (hn : nameAssemblies outs root version = .ok named)
    (hkeys : (outs.map (·.key)).Nodup)
    (h : OutAsm) (hh : h ∈ outs) (hk : h.key = some sHaplotig) (hc : h.curated = false) :
    (infoRecord stats outs).haplotigRemovals = (h.scaffolds.length : Int) ∧
    ∃ n ∈ named, n.scaffolds = h.scaffolds ∧
      (infoRecord stats outs).haplotigRemovals = (n.scaffolds.length : Int) ∧
      ((¬ HasKey outs (some sPrimary) ∧ HasKey outs none) →
        n.key = some "additional_haplotigs".toList ∧ n.curated = true ∧
        outputFileName n suffix = root ++ '.' :: (version ++ ".additional_haplotigs.curated".toList ++ suffix)) ∧
      (¬ (¬ HasKey outs (some sPrimary) ∧ HasKey outs none) →
        n.key = some sHaplotig ∧ n.curated = false ∧
        outputFileName n suffix = root ++ '.' :: (version ++ ".haplotigs".toList ++ suffix)) ∧
      (∀ outName writeLog fmt prefix_ plan,
        outputPlan outName writeLog named fmt suffix prefix_ = .ok plan → outputFileName n suffix ∈ plan) := by
  have hcount : (infoRecord stats outs).haplotigRemovals = (h.scaffolds.length : Int) := by
    unfold infoRecord
    simp only [find_haplotig outs hkeys h hh hk]
  refine ⟨hcount, ?_⟩
  have hlow : lowerStr sHaplotig ++ ['s'] = "haplotigs".toList := by decide
  have hnp : sHaplotig ≠ sPrimary := by decide
  rcases nameAssemblies_cases outs root version named hn with ⟨hp, e⟩ | ⟨hp, hnk, e⟩ | ⟨hp, hnk, e⟩
  · -- `Primary` branch
    obtain ⟨_, _, t3⟩ := C09.primary_name_table root version h
    have hpn := t3 sHaplotig hk hnp hc
    refine ⟨_, by rw [e]; exact List.mem_append_left _ (List.mem_filterMap.2 ⟨h, hh, hpn⟩), rfl, hcount, ?_, ?_, ?_⟩
    · intro hb; exact absurd hp hb.1
    · intro _
      refine ⟨rfl, rfl, ?_⟩
      unfold outputFileName
      simp [hlow]
    · intro outName writeLog fmt prefix_ plan hplan
      exact planned_assembly_files outName writeLog named fmt suffix prefix_ plan hplan _
        (by rw [e]; exact List.mem_append_left _ (List.mem_filterMap.2 ⟨h, hh, hpn⟩))
  · -- single-haplotype branch
    obtain ⟨ts, _, t2, _⟩ := C09.single_name_table root version h
    obtain ⟨e1, e2, e3⟩ := t2 hk
    have hmem : singleName root version h ∈ named := by rw [e]; exact List.mem_map.2 ⟨h, hh, rfl⟩
    refine ⟨singleName root version h, hmem, ts, by rw [ts]; exact hcount, ?_, ?_, ?_⟩
    · intro _
      refine ⟨e1, e3, ?_⟩
      unfold outputFileName
      rw [e2, e3]
      simp
    · intro hb; exact absurd ⟨hp, hnk⟩ hb
    · intro outName writeLog fmt prefix_ plan hplan
      exact planned_assembly_files outName writeLog named fmt suffix prefix_ plan hplan _ hmem
  · -- multi-haplotype branch
    obtain ⟨ts, e1, e3, _, e5⟩ := C09.multi_name_table root version h sHaplotig hk
    have hmem : multiName root version h ∈ named := by rw [e]; exact List.mem_map.2 ⟨h, hh, rfl⟩
    refine ⟨multiName root version h, hmem, ts, by rw [ts]; exact hcount, ?_, ?_, ?_⟩
    · intro hb; exact absurd hb.2 hnk
    · intro _
      refine ⟨e1, by rw [e3, hc], ?_⟩
      unfold outputFileName
      rw [e5 hc, e3, hc, hlow]
      simp
    · intro outName writeLog fmt prefix_ plan hplan
      exact planned_assembly_files outName writeLog named fmt suffix prefix_ plan hplan _ hmem

/-- no assembly keyed `Haplotig`: `manual_haplotig_removals: 0` -/
theorem haplotig_removals_zero (stats : Stats) (outs : List OutAsm) (hno : ¬ HasKey outs (some sHaplotig)) :
    (infoRecord stats outs).haplotigRemovals = 0 := by
  unfold infoRecord
  have : outs.find? (fun a => a.key = some sHaplotig) = none := by
    apply List.find?_eq_none.2
    intro a ha hk
    exact hno ⟨a, ha, by simpa using hk⟩
  simp only [this]

/-- under the file-level hypotheses of `C16.named_assembly_files_nodup` the haplotig file belongs to ONE named
    assembly: nothing else is written into it -/
theorem haplotig_file_unique (outs : List OutAsm) (root version suffix : Str) (named : List NamedAsm)
    (hn : nameAssemblies outs root version = .ok named)
    (hkeys : (outs.map (·.key)).Nodup)
    (hcase : outs.Pairwise (fun a b => a.key.map lowerStr = b.key.map lowerStr → a.curated ≠ b.curated))
    (hadd : ¬ HasKey outs (some sPrimary) → HasKey outs none → HasKey outs (some sHaplotig) →
      ∀ a ∈ outs, a.curated = true → a.key.map lowerStr ≠ some "additional_haplotig".toList)
    (n m : NamedAsm) (hnm : n ∈ named) (hm : m ∈ named) (hf : outputFileName m suffix = outputFileName n suffix) :
    m = n := by
  have hfs : FileSafe outs := by
    refine ⟨?_, hadd⟩
    unfold List.Nodup at hkeys
    rw [List.pairwise_map] at hkeys
    exact hkeys.and hcase
  have hst := named_stems_nodup outs root version named hn hfs
  have hnd := file_names_nodup suffix named (named_ends outs root version named hn) hst
  exact inj_of_nodup_map (fun x => outputFileName x suffix) named hnd m hm n hnm hf

/-- the rest of the record: the per-assembly table as it is; the two totals iff the table has more than one entry -/
theorem info_record_fields (stats : Stats) (outs : List OutAsm) :
    (infoRecord stats outs).assemblies = stats.perAssembly ∧
    (stats.perAssembly.length > 1 →
      (infoRecord stats outs).manualBreaks = some stats.breaks ∧ (infoRecord stats outs).manualJoins = some stats.joins) ∧
    (stats.perAssembly.length ≤ 1 →
      (infoRecord stats outs).manualBreaks = none ∧ (infoRecord stats outs).manualJoins = none) := by
  unfold infoRecord
  refine ⟨rfl, ?_, ?_⟩
  · intro h; simp [h]
  · intro h
    have : ¬ stats.perAssembly.length > 1 := by omega
    simp [this]

/-! ### non-vacuity; the hypothesis `hc` -/

private def sc (n : String) : Scaffold := { name := n.toList }
private def singleOuts : List OutAsm :=
  [{ key := none, curated := true, scaffolds := [sc "S1"] },
   { key := some sHaplotig, curated := false, scaffolds := [sc "H_1", sc "H_2"] }]
private def multiOuts : List OutAsm :=
  [{ key := some "Hap1".toList, curated := true, scaffolds := [sc "S1"] },
   { key := some "Hap2".toList, curated := true, scaffolds := [sc "S2"] },
   { key := some sHaplotig, curated := false, scaffolds := [sc "H_1", sc "H_2", sc "H_3"] }]
private def primaryOuts : List OutAsm :=
  [{ key := some sPrimary, curated := true, scaffolds := [sc "S1"] },
   { key := some "Hap2".toList, curated := true, scaffolds := [sc "S2"] },
   { key := some sHaplotig, curated := false, scaffolds := [sc "H_1"] }]

example : (singleOuts.map (·.key)).Nodup ∧ (multiOuts.map (·.key)).Nodup ∧ (primaryOuts.map (·.key)).Nodup := by decide
example : (infoRecord {} singleOuts).haplotigRemovals = 2 ∧ (infoRecord {} multiOuts).haplotigRemovals = 3 ∧
    (infoRecord {} primaryOuts).haplotigRemovals = 1 := by decide
example : (nameAssemblies singleOuts ['x'] ['1']).map (·.map (fun n => (outputFileName n ".fa".toList, n.scaffolds.length))) =
    .ok [("x.1.primary.curated.fa".toList, 1), ("x.1.additional_haplotigs.curated.fa".toList, 2)] := by rfl
example : (nameAssemblies multiOuts ['x'] ['1']).map (·.map (fun n => (outputFileName n ".fa".toList, n.scaffolds.length))) =
    .ok [("x.hap1.1.primary.curated.fa".toList, 1), ("x.hap2.1.primary.curated.fa".toList, 1), ("x.1.haplotigs.fa".toList, 3)] := by rfl
example : (nameAssemblies primaryOuts ['x'] ['1']).map (·.map (fun n => (outputFileName n ".fa".toList, n.scaffolds.length))) =
    .ok [("x.1.primary.curated.fa".toList, 1), ("x.1.haplotigs.fa".toList, 1), ("x.1.all_haplotigs.curated.fa".toList, 1)] := by rfl

/-- `hc` is needed: a CURATED assembly keyed `Haplotig` (never produced by `assemblies_with_scaffolds_fused`, where the
    key `Haplotig` is a tag) would be merged into `all_haplotigs` in the `Primary` branch: count 1, file with 2 scaffolds -/
example :
    let outs : List OutAsm :=
      [{ key := some sPrimary, curated := true, scaffolds := [sc "S1"] },
       { key := some "Hap2".toList, curated := true, scaffolds := [sc "S2"] },
       { key := some sHaplotig, curated := true, scaffolds := [sc "H_1"] }]
    (infoRecord {} outs).haplotigRemovals = 1 ∧
    (nameAssemblies outs ['x'] ['1']).map (·.map (fun n => (outputFileName n ".fa".toList, n.scaffolds.length))) =
      .ok [("x.1.primary.curated.fa".toList, 1), ("x.1.all_haplotigs.curated.fa".toList, 2)] := by
  exact ⟨by decide, rfl⟩

end AgpTpf.C11
