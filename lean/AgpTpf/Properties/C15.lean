/-
  C15 — A stale, partial or concurrently rewritten index cache is never silently used.

  Model: `Cache.State` / `applyOp` — the file system (FASTA content + mtime, `.fai`, `.agp`), a clock and any number of
  processes each inside one `FastaIndex.auto_load()` call, at file-operation granularity (`stepProc`, one step per
  stat / exists / read / open / flushed write / close / os.replace).  Environment operations: time passes, the FASTA is
  rewritten (only while no process is inside `auto_load`), either cache file is deleted, a process is spawned, a process
  is stepped, a process crashes (everything it has written so far persists).
  `State.atomic = true`: every cache file is written to a temporary file and moved into place with `os.replace`;
  `State.atomic = false`: the cache files are opened for writing in place (`path.open("w")`).

  `safe s`: every finished `auto_load` either failed loudly or returned exactly the index and assembly of the FASTA
  content that was current when it returned (loaded files complete and rendering that content, or built from it).
-/
import AgpTpf.Proofs.C15
import AgpTpf.Proofs.C15Solo
import AgpTpf.Gen.Fasta
namespace AgpTpf.C15
open AgpTpf.Cache

/-! ### Tie to the source (regenerated on every run by harness/extract_constants.py)
The safety theorem below is about the ATOMIC protocol; this guard fails to build when the source stops writing the
cache through a temporary file + `os.replace`. -/

/-- `FastaIndex.write_index` / `write_assembly` do not open the final cache names for writing and the class calls `os.replace`. -/
theorem source_protocol_is_atomic : Gen.cacheWritesAtomic = true := rfl
/-- the temporary file a writer fills is private to its process (its name contains `os.getpid()` and the final file's name): the model's
    premise that a file in progress is invisible to, and untouched by, every other process. -/
theorem source_tmp_is_private : Gen.cacheTmpPrivate = true := rfl
/- (the strictness of the freshness test in `check_for_index_files` — the comparison the model's `newer` implements — is tied semantically, not
   textually: `Properties/C15Imp.lean`, `check_for_index_files_is_source` / `check_for_index_files_is_model_test`, about the method as translated
   from the current source) -/

/-! ### Safety of the atomic protocol: every reachable state, any number of processes, steps, crashes, races -/

/-- MAIN THEOREM.  For every number of flush boundaries in the two cache files and EVERY sequence of operations
    (ticks, FASTA rewrites, cache-file deletions, spawns, steps of any process in any interleaving, crashes at any
    point), no finished `auto_load` has silently used a stale, partial or foreign cache. -/
theorem cache_safety (ft at_ : Nat) (ops : List Op) : safe (run (init true ft at_) ops) = true :=
  inv_safe _ (inv_run _ (inv_init ft at_) ops)

/-- `safe` spelled out for one process: what a finished load returned. -/
theorem cache_safety_loaded (ft at_ : Nat) (ops : List Op) (p : Nat) (a b : FileV) (c : Nat)
    (h : (run (init true ft at_) ops).procs[p]? = some (.done (.loaded a b) c)) :
    a.written = a.total ∧ b.written = b.total ∧ a.src = c ∧ b.src = c := by
  have hs := cache_safety ft at_ ops
  have := List.all_eq_true.1 hs _ (List.mem_of_getElem? h)
  simpa [goodResult, FileV.complete, and_assoc] using this

theorem cache_safety_indexed (ft at_ : Nat) (ops : List Op) (p : Nat) (c' c : Nat)
    (h : (run (init true ft at_) ops).procs[p]? = some (.done (.indexed c') c)) : c' = c := by
  have hs := cache_safety ft at_ ops
  have := List.all_eq_true.1 hs _ (List.mem_of_getElem? h)
  simpa [goodResult] using this

/-- A reader never observes a half-written cache file: in every reachable state of the atomic protocol each cache
    file that exists is complete and its mtime is not in the future. -/
theorem cache_files_complete (ft at_ : Nat) (ops : List Op) (v : FileV)
    (h : (run (init true ft at_) ops).fai = some v ∨ (run (init true ft at_) ops).agp = some v) :
    v.complete = true ∧ v.mtime ≤ (run (init true ft at_) ops).clock := by
  have hI := inv_run _ (inv_init ft at_) ops
  rcases h with h | h
  · have := hI.fai v h; simp [FileV.complete, this.1, this.2.2]
  · have := hI.agp v h; simp [FileV.complete, this.1, this.2.2]

/-- The freshness test is sound: in every reachable state a cache file that is strictly newer than the FASTA renders
    the FASTA's current content. -/
theorem newer_cache_is_current (ft at_ : Nat) (ops : List Op) (v : FileV)
    (h : (run (init true ft at_) ops).fai = some v ∨ (run (init true ft at_) ops).agp = some v)
    (hn : v.mtime > (run (init true ft at_) ops).fastaMtime) :
    v.src = (run (init true ft at_) ops).fastaContent := by
  have hI := inv_run _ (inv_init ft at_) ops
  rcases h with h | h
  · have := hI.fai v h; omega
  · have := hI.agp v h; omega

/-! ### The in-place protocol is NOT safe (why the fix was needed) -/

/-- `n` consecutive file operations of process `p` -/
def steps (p n : Nat) : List Op := List.replicate n (.step p)

/-- crash trace: process 0 indexes, is killed after the first flushed chunk of the `.agp` (9 file operations);
    process 1 then finds both cache files newer than the FASTA and loads the truncated `.agp`. -/
def crashTrace : List Op := [.spawn] ++ steps 0 9 ++ [.crash 0, .tick, .spawn] ++ steps 1 5

/-- race trace, no crash at all: process 1 runs its whole `auto_load` while process 0 is in the middle of writing. -/
def raceTrace : List Op := [.spawn, .spawn] ++ steps 0 9 ++ steps 1 5 ++ steps 0 3

theorem cache_unsafe_inplace : ∃ ops, safe (run (init false 2 2) ops) = false := ⟨crashTrace, by decide⟩

theorem cache_unsafe_inplace_race : safe (run (init false 2 2) raceTrace) = false := by decide

/-- what the reader got in the crash trace: a complete `.fai` and an `.agp` with 1 of 2 chunks, accepted as valid -/
example : (run (init false 2 2) crashTrace).procs[1]? =
    some (.done (.loaded ⟨0, 2, 2, 1⟩ ⟨0, 1, 2, 1⟩) 0) := by decide
/-- the same two traces under the atomic protocol (it needs 2 more file operations, the two `os.replace`) -/
example : (run (init true 2 2) crashTrace).procs[1]? = some (.writingFai 0 0 2) ∧
    (run (init true 2 2) crashTrace).agp = none := by decide  -- no `.agp` yet → the reader re-indexes
example : safe (run (init true 2 2) raceTrace) = true := by decide

/-! ### Missing or not strictly newer cache files are rebuilt, both together -/

/-- "not strictly newer" = missing, or mtime ≤ the FASTA's -/
theorem not_newer_iff (f : Option FileV) (m : Nat) :
    newer f m = false ↔ f = none ∨ ∃ v, f = some v ∧ v.mtime ≤ m := by
  cases f with
  | none => simp [newer]
  | some v => simp [newer]

/-- The decision, direct from `stepProc`: a missing / not strictly newer `.fai` sends the process to (re)indexing
    without looking at the `.agp`; so does a missing / not strictly newer `.agp`; only two strictly newer files lead to
    loading.  None of the checks changes the file system. -/
theorem stale_or_missing_decides (s : State) (m : Nat) :
    (newer s.fai m = false → stepProc s (.statted m) = (s, .index0)) ∧
    (newer s.fai m = true → stepProc s (.statted m) = (s, .faiOk m)) ∧
    (newer s.agp m = false → stepProc s (.faiOk m) = (s, .index0)) ∧
    (newer s.agp m = true → stepProc s (.faiOk m) = (s, .bothOk)) := by
  refine ⟨?_, ?_, ?_, ?_⟩ <;> intro h <;> simp [stepProc, h]

/-- Both rebuilt together (either protocol): a process that starts `auto_load` while the `.fai` or the `.agp` is
    missing or not strictly newer than the FASTA, and then runs undisturbed (at least `faiTotal + agpTotal + 10` of its
    file operations, the atomic protocol needs exactly that many), returns the index built from the current content
    and leaves BOTH cache files complete, rendering the current content and stamped with the current time — whatever
    the two files were before (one of them may have been perfectly fresh). -/
theorem stale_or_missing_rebuilds (s : State) (p n : Nat)
    (hp : s.procs[p]? = some .start)
    (hstale : newer s.fai s.fastaMtime = false ∨ newer s.agp s.fastaMtime = false)
    (hn : s.faiTotal + s.agpTotal + 10 ≤ n) :
    let s' := run s (steps p n)
    s'.procs[p]? = some (.done (.indexed s.fastaContent) s.fastaContent) ∧
    s'.fai = some { src := s.fastaContent, written := s.faiTotal, total := s.faiTotal, mtime := s.clock } ∧
    s'.agp = some { src := s.fastaContent, written := s.agpTotal, total := s.agpTotal, mtime := s.clock } ∧
    s'.fastaContent = s.fastaContent ∧ s'.fastaMtime = s.fastaMtime ∧ s'.clock = s.clock := by
  have h0 : SoloAt s p (s.faiTotal + s.agpTotal + 10) s := by
    refine ⟨rfl, rfl, rfl, rfl, rfl, rfl, .start, hp, ?_, Nat.le_refl _⟩
    simp only [soloQ]
    rcases hstale with h | h <;> simp [h]
  have h1 := solo_run s p _ s h0 n
  rw [Nat.sub_eq_zero_of_le hn] at h1
  exact solo_done s p _ h1

/-- the same from the decision point `index0` (what the task statement names) -/
theorem index0_rebuilds (s : State) (p n : Nat) (hp : s.procs[p]? = some .index0)
    (hn : s.faiTotal + s.agpTotal + 7 ≤ n) :
    let s' := run s (steps p n)
    s'.procs[p]? = some (.done (.indexed s.fastaContent) s.fastaContent) ∧
    s'.fai = some { src := s.fastaContent, written := s.faiTotal, total := s.faiTotal, mtime := s.clock } ∧
    s'.agp = some { src := s.fastaContent, written := s.agpTotal, total := s.agpTotal, mtime := s.clock } := by
  have h0 : SoloAt s p (s.faiTotal + s.agpTotal + 7) s :=
    ⟨rfl, rfl, rfl, rfl, rfl, rfl, .index0, hp, trivial, Nat.le_refl _⟩
  have h1 := solo_run s p _ s h0 n
  rw [Nat.sub_eq_zero_of_le hn] at h1
  have := solo_done s p _ h1
  exact ⟨this.1, this.2.1, this.2.2.1⟩

/-! ### Non-vacuity: concrete runs (atomic protocol, 2 flush boundaries per file) -/

/-- cold: no cache → indexes, writes both files -/
def cold : List Op := [.spawn] ++ steps 0 14
example : (run (init true 2 2) cold).procs = [.done (.indexed 0) 0] ∧
    (run (init true 2 2) cold).fai = some ⟨0, 2, 2, 1⟩ ∧ (run (init true 2 2) cold).agp = some ⟨0, 2, 2, 1⟩ := by
  decide
/-- hypotheses of `stale_or_missing_rebuilds` are satisfiable (this is the cold run) -/
example : let s := run (init true 2 2) [.spawn]
    s.procs[0]? = some .start ∧ (newer s.fai s.fastaMtime = false ∨ newer s.agp s.fastaMtime = false) ∧
    s.faiTotal + s.agpTotal + 10 ≤ 14 := by decide

/-- warm: a second process loads the cache written by the first -/
def warm : List Op := cold ++ [.spawn] ++ steps 1 5
example : (run (init true 2 2) warm).procs[1]? = some (.done (.loaded ⟨0, 2, 2, 1⟩ ⟨0, 2, 2, 1⟩) 0) := by decide

/-- stale: the FASTA is rewritten (new content 1, mtime 2) → the next load re-indexes and rewrites both files -/
def stale : List Op := cold ++ [.tick, .rewriteFasta, .tick, .spawn] ++ steps 1 14
example : (run (init true 2 2) stale).procs[1]? = some (.done (.indexed 1) 1) ∧
    (run (init true 2 2) stale).fai = some ⟨1, 2, 2, 3⟩ ∧ (run (init true 2 2) stale).agp = some ⟨1, 2, 2, 3⟩ := by
  decide
/-- same-mtime rewrite (no tick between writing the cache and rewriting the FASTA): "not strictly newer" → rebuilt -/
example : (run (init true 2 2) (cold ++ [.rewriteFasta, .spawn] ++ steps 1 14)).procs[1]? =
    some (.done (.indexed 1) 1) := by decide
/-- rewriteFasta is disabled while a process is inside `auto_load` -/
example : (run (init true 2 2) ([.spawn] ++ steps 0 5 ++ [.rewriteFasta])).fastaContent = 0 := by decide

/-- only the `.agp` deleted: both files are rebuilt (the `.fai` gets the new time 2 as well) -/
example : (run (init true 2 2) (cold ++ [.deleteAgp, .tick, .spawn] ++ steps 1 14)).fai = some ⟨0, 2, 2, 2⟩ ∧
    (run (init true 2 2) (cold ++ [.deleteAgp, .tick, .spawn] ++ steps 1 14)).agp = some ⟨0, 2, 2, 2⟩ := by decide

/-- interrupted: the indexing run is killed between the two `os.replace` (fresh `.fai`, no `.agp`) → a fresh load
    re-indexes -/
example : (run (init true 2 2) ([.spawn] ++ steps 0 9 ++ [.crash 0, .spawn] ++ steps 1 14)).procs =
    [.crashed, .done (.indexed 0) 0] := by decide

/-- the loud failure: the `.agp` is deleted between the freshness check and the read -/
example : (run (init true 2 2) (cold ++ [.spawn] ++ steps 1 4 ++ [.deleteAgp, .step 1])).procs[1]? =
    some (.done .failed 0) := by decide

/-- a race of three processes -/
example : safe (run (init true 2 2)
    ([.spawn, .spawn, .spawn] ++ steps 0 7 ++ steps 1 3 ++ steps 0 4 ++ steps 2 5 ++ steps 1 11 ++ steps 0 3)) = true := by
  decide

end AgpTpf.C15
