/- C15 — statements under construction -/
import AgpTpf.Model.Cache
import AgpTpf.Model.Outputs
import AgpTpf.Model.Remap
namespace AgpTpf.C15
theorem placeholder : True := trivial
end AgpTpf.C15
