/-
  C11 over the SOURCE: the orientation-aware encoding of a junction, `Fragment.junction_tuple`, AS TRANSLATED from the current
  /repo/src/tola/assembly/fragment.py (`Gen/Kernels.lean`; all four strand cases, both `sorted(...)` calls, the ValueError):
  reversal invariance ("reversing a whole scaffold, in input or output, changes neither count") and injectivity on adjacencies
  ("an adjacency being the unordered pair of the two facing contig ends") hold for the code as it is now, for all fragments.
-/
import AgpTpf.Properties.C11
import AgpTpf.Proofs.Kernels
namespace AgpTpf.C11
open AgpTpf

/-- `a.junction_tuple(b)` as the source has it now -/
def srcJunctionTuple (a b : Fragment) : R Junction :=
  Gen.K.Fragment_junction_tuple (self_name := a.name) (self_start := a.start) (self_end := a.stop) (self_strand := a.strand)
    (othr_name := b.name) (othr_start := b.start) (othr_end := b.stop) (othr_strand := b.strand)

theorem src_junction_tuple (a b : Fragment) : srcJunctionTuple a b = junctionTuple a b := (Kernels.junction_tuple_eq a b).symm

/-- reversing the scaffold maps the junction `a b` to `b.reverse a.reverse`: the source gives the same tuple (or the same
    ValueError), for every pair of fragments -/
theorem source_junction_tuple_reverse (a b : Fragment) : srcJunctionTuple b.reverse a.reverse = srcJunctionTuple a b := by
  rw [src_junction_tuple, src_junction_tuple]; exact junction_tuple_reverse_any a b

/-- two junctions get the same tuple from the source iff they are the same unordered pair of facing contig ends -/
theorem source_junction_tuple_eq_iff (a b c d : Fragment) (t t' : Junction)
    (h : srcJunctionTuple a b = .ok t) (h' : srcJunctionTuple c d = .ok t') :
    t = t' ↔ SameAdj (facingEnds a b) (facingEnds c d) := by
  rw [src_junction_tuple] at h h'; exact junction_tuple_eq_iff a b c d t t' h h'

/-- the source raises ValueError exactly when one of the two strands is not ±1 -/
theorem source_junction_tuple_ok_iff (a b : Fragment) :
    (∃ t, srcJunctionTuple a b = .ok t) ↔ ((a.strand = 1 ∨ a.strand = -1) ∧ (b.strand = 1 ∨ b.strand = -1)) := by
  rw [src_junction_tuple]; exact junctionTuple_ok_iff a b

example : srcJunctionTuple { name := ['a'], start := 1, stop := 10, strand := 1 } { name := ['b'], start := 5, stop := 5, strand := -1 } =
    .ok (.s ['a'], .i 10, .i 5, .s ['b']) ∧
  srcJunctionTuple { name := ['b'], start := 5, stop := 5, strand := 1 } { name := ['a'], start := 1, stop := 10, strand := -1 } =
    .ok (.s ['a'], .i 10, .i 5, .s ['b']) := by decide

end AgpTpf.C11
