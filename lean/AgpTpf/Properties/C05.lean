/-
  C05 — AGP and TPF parse/format round-trip without loss.

  Model: Model/Text.lean (`parseAgp`, `parseTpf`, `formatAgp`, `formatTpf`, line readers `parseAgpLine`,
  `parseTpfLine`), Model/Py.lean (`pyInt` = `int()`, `intToStr` = `str()`, `splitOnChar`, `joinWith`, `rstripBy`).
  Helper lemmas and the well-formedness predicates live in Proofs/C05*.lean:

    HeaderOk h        non-empty, no newline, and either does not start with '#' / whitespace or is a single such
                      character — exactly the texts `headerText` (the `[#\s]+(.+)` match) can return,
                      `header_text_wf`                                                    (C05Header)
    AgpScafNameOk n   non-empty, no tab, does not start with '#'                          (C05Agp)
    AgpRowOk r        gap: no tab in the gap type; fragment: no tab in name / tags, the LAST tag ends in a
                      non-whitespace character (only the last column meets `rstrip()`), start ≤ end,
                      strand ∈ {0, 1, -1}                                                 (C05Agp)
    NamesChain [] scs first scaffold name ≠ "", consecutive scaffolds differently named   (C05Fold)
    WFAgp a           all of the above + no scaffold without rows                        (C05File)
    TpfScafNameOk n   non-empty, no tab                                                   (C05Tpf)
    TpfRowOk r        gap: type without upper-case letter / '-' / tab and not "type_2" / "type_3" (`TpfGapType`);
                      fragment: name non-empty without tab/newline, 0 ≤ start ≤ end, strand ±1 (C05Tpf)
    WFTpf a           + every scaffold starts with a fragment (`FirstIsFrag`)            (C05TpfFile)
    NoNewlines a      no '\n' in any name, tag or gap type (needed only to go from the written TEXT back to
                      the written LINES, `pyLines`)
    canonAssembly a   `a` as a reader can rebuild it: header + scaffolds (name, rows), object ids 0,1,2,… in file
                      order (ids model Python object identity, no file carries them)
    dropTagsAssembly  all fragment tags removed

  Every clause of the WF predicates is NEEDED; the `example`s at the end are concrete failing inputs for each
  (findings).
-/
import AgpTpf.Proofs.C05Compose
namespace AgpTpf.C05
open AgpTpf AgpTpf.C06

/-! ## (a) `int(str(n)) == n` -/
theorem int_roundtrip (n : Int) : pyInt (intToStr n) = .ok n := pyInt_intToStr n

/-! ## (b) `"\t".join(fields).split("\t") == fields`, and `"\t".join(s.split("\t")) == s` for every text -/
theorem split_join (sep : Char) (fields : List Str) (hne : fields ≠ []) (h : ∀ f ∈ fields, sep ∉ f) :
    splitOnChar sep (joinWith sep fields) = fields := splitOnChar_joinWith sep fields hne h
theorem join_split (sep : Char) (s : Str) : joinWith sep (splitOnChar sep s) = s := joinWith_splitOnChar sep s

example : (["a".toList, [], "b c".toList] : List Str) ≠ [] ∧ ∀ f ∈ ["a".toList, [], "b c".toList], '\t' ∉ f := by decide

/-! ## (c) gap-type and strand tables -/
theorem tpf_gap_type_roundtrip (g : Str) (h : TpfGapType g) : tpfGapTypeOfText (tpfGapTypeToText g) = g :=
  tpfGapType_roundtrip g h
theorem tpf_gap_text_roundtrip (t : Str) (h : TpfGapText t) : tpfGapTypeToText (tpfGapTypeOfText t) = t :=
  tpfGapText_roundtrip t h
theorem tpf_gap_type_dictionary :
    tpfGapTypeToText "scaffold".toList = "TYPE-2".toList ∧ tpfGapTypeOfText "TYPE-2".toList = "scaffold".toList ∧
    tpfGapTypeToText "contig".toList = "TYPE-3".toList ∧ tpfGapTypeOfText "TYPE-3".toList = "contig".toList ∧
    tpfGapTypeToText "short_arm".toList = "SHORT-ARM".toList ∧ tpfGapTypeOfText "SHORT-ARM".toList = "short_arm".toList := by
  decide
example : TpfGapType "scaffold".toList ∧ TpfGapType "short_arm".toList ∧ TpfGapText "TYPE-2".toList ∧
    TpfGapText "SHORT-ARM".toList := by decide

theorem agp_strand_roundtrip (s : Int) (h : s = 0 ∨ s = 1 ∨ s = -1) :
    ∃ t, strandStr Gen.agpStrandStr s = .ok t ∧ lookupStr Gen.agpStrandDict t = .ok s := by
  obtain ⟨t, h1, h2, _⟩ := agpStrand_roundtrip s h; exact ⟨t, h1, h2⟩
theorem tpf_strand_roundtrip (s : Int) (h : s = 1 ∨ s = -1) :
    ∃ t, strandStr Gen.tpfStrandStr s = .ok t ∧ lookupStr Gen.tpfStrandDict t = .ok s := by
  obtain ⟨t, h1, h2, _⟩ := tpfStrand_roundtrip s h; exact ⟨t, h1, h2⟩

/-! ## (d) the TPF fragment name pattern: the LAST colon separates name and coordinates -/
theorem tpf_name_match (name : Str) (s e : Nat) (hn : name ≠ []) (hnl : '\n' ∉ name) :
    tpfNameMatch (name ++ [':'] ++ natToStr s ++ ['-'] ++ natToStr e) = some (name, natToStr s, natToStr e) :=
  tpfNameMatch_format name s e hn hnl
example : tpfNameMatch "a:1-2:b-c:10-20".toList = some ("a:1-2:b-c".toList, "10".toList, "20".toList) := by decide

/-! ## (e) line level -/

/-- the AGP reader's column split recovers exactly the written columns (this ties C06's column lists to the text) -/
theorem agp_line_columns (cols : List Str) (htab : ∀ c ∈ cols, '\t' ∉ c) (l : Str)
    (hl : cols.getLast? = some l) (hend : endsNonSpace l = true) :
    splitOnChar '\t' (rstripBy isSpace (lineOfCols cols)) = cols := agp_line_cols cols htab l hl hend

/-- an AGP line written for `row` (at any running position / part number) is read back as exactly that row,
    appended to scaffold `name` (opened if `name` differs from the current scaffold's). -/
theorem agp_line_parses_row (st : ParseState) (name : Str) (p i : Int) (row : Row) (cols : List Str)
    (hn : AgpScafNameOk name) (hr : AgpRowOk row) (hc : agpRowCols name p i row = .ok cols) :
    parseAgpLine st (lineOfCols cols) = addRowOid (st.switchScaffold name) row :=
  parseAgpLine_row st name p i row cols hn hr hc

theorem tpf_line_parses_gap (st : ParseState) (scName : Str) (g : Gap) (line : Str)
    (hr : TpfRowOk (.gap g)) (hh : st.haveScaffold = true) (hl : formatTpfRow scName (.gap g) = .ok line) :
    parseTpfLine st line = addRowOid st (.gap g) := parseTpfLine_gap st scName g line hr hh hl

theorem tpf_line_parses_frag (st : ParseState) (scName : Str) (f : Fragment) (line : Str)
    (hn : TpfScafNameOk scName) (hr : TpfRowOk (.frag f)) (hl : formatTpfRow scName (.frag f) = .ok line) :
    parseTpfLine st line = addRowOid (st.switchScaffold scName) (.frag { f with tags := [] }) :=
  parseTpfLine_frag st scName f line hn hr hl

/-- ANY line (well-formed or corrupted): blank and `#` lines leave the rows untouched, every other line raises
    or adds exactly one row, all earlier scaffolds and rows unchanged (`OneRowAdded`). -/
theorem agp_line_one_row_or_error' (st : ParseState) (line : Str) (st' : ParseState)
    (h : parseAgpLine st line = .ok st') :
    (isBlankLine line = true ∨ startsWith ['#'] line = true →
        st'.scaffolds = st.scaffolds ∧ st'.currentName = st.currentName ∧ st'.nextOid = st.nextOid) ∧
    (¬ (isBlankLine line = true ∨ startsWith ['#'] line = true) →
        OneRowAdded st st' ∧ totalRows st' = totalRows st + 1 ∧ st'.header = st.header) :=
  agp_line_one_row_or_error st line st' h

theorem tpf_line_one_row_or_error' (st : ParseState) (line : Str) (st' : ParseState)
    (h : parseTpfLine st line = .ok st') :
    (isBlankLine line = true ∨ startsWith ['#'] line = true →
        st'.scaffolds = st.scaffolds ∧ st'.currentName = st.currentName ∧ st'.nextOid = st.nextOid) ∧
    (¬ (isBlankLine line = true ∨ startsWith ['#'] line = true) →
        OneRowAdded st st' ∧ totalRows st' = totalRows st + 1 ∧ st'.header = st.header) :=
  tpf_line_one_row_or_error st line st' h

/-- corrupted lines are errors, not skipped: missing columns, bad strand, bad coordinate -/
example : parseAgpLine {} "s\t1\t5\t1\tW\tc\t5\n".toList = .error .index := by rfl
example : parseAgpLine {} "s\t1\t5\t1\tW\tc\t5\t9\tx\n".toList = .error .key := by rfl
example : parseAgpLine {} "s\t1\t5\t1\tW\tc\t5\t9x\t+\n".toList = .error .value := by rfl
example : parseAgpLine {} "s\t1\t5\t1\tW\tc\t9\t5\t+\n".toList = .error .value := by rfl
example : parseTpfLine {} "?\tc:5-9\ts\n".toList = .error .value := by rfl
example : parseTpfLine {} "?\tc:5-9\ts\tUNKNOWN\n".toList = .error .key := by rfl
example : parseTpfLine {} "?\tc:5_9\ts\tPLUS\n".toList = .error .value := by rfl

example : AgpScafNameOk "scaffold_1".toList ∧
    AgpRowOk (.frag { name := "ctg:1".toList, start := 5, stop := 9, strand := -1, tags := ["a b".toList, "c".toList] }) ∧
    AgpRowOk (.gap { length := 200, gapType := "scaffold".toList }) ∧
    TpfScafNameOk "#odd name".toList ∧
    TpfRowOk (.frag { name := "ctg:1-2".toList, start := 0, stop := 9, strand := -1, tags := ["lost".toList] }) ∧
    TpfRowOk (.gap { length := 200, gapType := "short_arm".toList }) := by decide
example : ∃ cols, agpRowCols "s".toList 5 1 (.frag { name := "c".toList, start := 5, stop := 9, strand := -1 }) = .ok cols :=
  ⟨_, rfl⟩

/-! ## (f) whole assemblies -/

/-- header lines: whatever the readers can put into `asm.header` is `HeaderOk`, and `HeaderOk` lines survive
    both writers (`# …` for AGP, `## …` for TPF) -/
theorem header_text_wf (l h : Str) (hh : headerText l = some h) : HeaderOk h := headerText_ok l h hh
theorem agp_header_line (st : ParseState) (h : Str) (hh : HeaderOk h) :
    parseAgpLine st (Gen.agpHeaderPrefix ++ h ++ ['\n']) = .ok { st with header := st.header ++ [h] } :=
  parseAgpLine_header st h hh
theorem tpf_header_line (st : ParseState) (h : Str) (hh : HeaderOk h) :
    parseTpfLine st (Gen.tpfHeaderPrefix ++ h ++ ['\n']) = .ok { st with header := st.header ++ [h] } :=
  parseTpfLine_header st h hh
example : HeaderOk "DESCRIPTION: x  ".toList ∧ HeaderOk "#".toList ∧ HeaderOk " ".toList := by decide

/-- AGP: format, then parse: the same header lines, scaffolds, rows, coordinates, strands, tags, gap lengths and
    gap types (everything but Python object identity, `canonAssembly`). -/
theorem agp_roundtrip (a : Assembly) (h : WFAgp a) :
    ∃ lines, formatAgp a = .ok lines ∧ parseAgp lines = .ok (canonAssembly a) := agp_roundtrip_lines a h

/-- …and the written TEXT, split into lines the way file iteration does, is those lines. -/
theorem agp_roundtrip_text' (a : Assembly) (h : WFAgp a) (hnl : NoNewlines a) :
    ∃ lines, formatAgp a = .ok lines ∧ pyLines lines.flatten = lines ∧
      parseAgp (pyLines lines.flatten) = .ok (canonAssembly a) := agp_roundtrip_text a h hnl

/-- an assembly already in reader form comes back identical -/
theorem agp_roundtrip_eq (a : Assembly) (h : WFAgp a) (hc : canonAssembly a = a) :
    ∃ lines, formatAgp a = .ok lines ∧ parseAgp lines = .ok a := by
  obtain ⟨lines, h1, h2⟩ := agp_roundtrip_lines a h; exact ⟨lines, h1, by rw [h2, hc]⟩

/-- re-formatting the parsed written AGP reproduces it byte for byte -/
theorem agp_format_parse_format (a : Assembly) (h : WFAgp a) :
    ∃ lines a', formatAgp a = .ok lines ∧ parseAgp lines = .ok a' ∧ formatAgp a' = .ok lines := by
  obtain ⟨lines, h1, h2⟩ := agp_roundtrip_lines a h
  exact ⟨lines, _, h1, h2, by rw [formatAgp_canon]; exact h1⟩

/-- TPF: format, then parse: everything but the tags. -/
theorem tpf_roundtrip (a : Assembly) (h : WFTpf a) :
    ∃ lines, formatTpf a = .ok lines ∧ parseTpf lines = .ok (canonAssembly (dropTagsAssembly a)) :=
  tpf_roundtrip_lines a h

theorem tpf_roundtrip_text' (a : Assembly) (h : WFTpf a) (hnl : NoNewlines a) :
    ∃ lines, formatTpf a = .ok lines ∧ pyLines lines.flatten = lines ∧
      parseTpf (pyLines lines.flatten) = .ok (canonAssembly (dropTagsAssembly a)) := tpf_roundtrip_text a h hnl

theorem tpf_format_parse_format (a : Assembly) (h : WFTpf a) :
    ∃ lines a', formatTpf a = .ok lines ∧ parseTpf lines = .ok a' ∧ formatTpf a' = .ok lines := by
  obtain ⟨lines, h1, h2⟩ := tpf_roundtrip_lines a h
  exact ⟨lines, _, h1, h2, by rw [formatTpf_canon, formatTpf_dropTags]; exact h1⟩

/-- AGP → TPF → AGP changes nothing except dropping the tags. -/
theorem agp_to_tpf_and_back (a : Assembly) (h1 : WFAgp a) (h2 : WFTpf a) :
    ∃ agp1 a1 tpf a2 agp2,
      formatAgp a = .ok agp1 ∧ parseAgp agp1 = .ok a1 ∧ a1 = canonAssembly a ∧
      formatTpf a1 = .ok tpf ∧ parseTpf tpf = .ok a2 ∧ a2 = canonAssembly (dropTagsAssembly a) ∧
      formatAgp a2 = .ok agp2 ∧ parseAgp agp2 = .ok a2 ∧
      formatAgp (dropTagsAssembly a) = .ok agp2 := agp_tpf_agp a h1 h2

/-! ## the hypotheses are satisfiable: two scaffolds, a gap, a minus strand, tags, a header, 10^12 coordinates -/
def demo : Assembly :=
  { header := ["DESCRIPTION: test".toList],
    scaffolds := [
      { name := "scaffold_1".toList,
        rows := [.frag { oid := 0, name := "ctg:1-5".toList, start := 1, stop := 1000000000000, strand := 1,
                         tags := ["Painted".toList, "X".toList] },
                 .gap { length := 200, gapType := "scaffold".toList },
                 .frag { oid := 1, name := "ctg 2".toList, start := 5, stop := 9, strand := -1 }] },
      { name := "scaffold_2".toList,
        rows := [.frag { oid := 2, name := "ctg3".toList, start := 0, stop := 20, strand := 1, tags := ["Hap2".toList] },
                 .gap { length := 10, gapType := "short_arm".toList }] }] }

example : WFAgp demo := by decide
example : WFTpf demo := by decide
example : NoNewlines demo := by decide
example : canonAssembly demo = demo := by decide
/-- strand `?` (0) is fine for AGP -/
example : WFAgp { scaffolds := [{ name := "s".toList, rows := [.frag { name := "c".toList, start := 1, stop := 2, strand := 0 }] }] } := by
  decide

/-! ## Findings: each WF clause is needed (concrete inputs that do NOT round trip) -/

/-- AGP, two consecutive scaffolds with the same name are MERGED by the reader -/
example : ∃ lines, formatAgp { scaffolds := [{ name := "s".toList, rows := [.gap { length := 1, gapType := "x".toList }] },
                                            { name := "s".toList, rows := [.gap { length := 2, gapType := "x".toList }] }] } = .ok lines ∧
    parseAgp lines = .ok { scaffolds := [{ name := "s".toList, rows := [.gap { length := 1, gapType := "x".toList },
                                                                          .gap { length := 2, gapType := "x".toList }] }] } :=
  ⟨_, rfl, rfl⟩

/-- AGP, a scaffold whose name starts with '#': its lines are read as comments, the scaffold silently vanishes
    (and its lines turn up as header text) -/
example : ∃ lines a', formatAgp { scaffolds := [{ name := "#s".toList, rows := [.gap { length := 1, gapType := "x".toList }] }] } = .ok lines ∧
    parseAgp lines = .ok a' ∧ a'.scaffolds = [] ∧ a'.header ≠ [] :=
  ⟨_, _, rfl, rfl, rfl, by decide⟩

/-- AGP, a last tag ending in whitespace (or empty) is stripped by `rstrip()` -/
example : ∃ lines, formatAgp { scaffolds := [{ name := "s".toList, rows := [.frag { name := "c".toList, start := 1, stop := 2, strand := 1, tags := ["t ".toList] }] }] } = .ok lines ∧
    parseAgp lines = .ok { scaffolds := [{ name := "s".toList, rows := [.frag { name := "c".toList, start := 1, stop := 2, strand := 1, tags := ["t".toList] }] }] } :=
  ⟨_, rfl, rfl⟩
example : ∃ lines, formatAgp { scaffolds := [{ name := "s".toList, rows := [.frag { name := "c".toList, start := 1, stop := 2, strand := 1, tags := [[]] }] }] } = .ok lines ∧
    parseAgp lines = .ok { scaffolds := [{ name := "s".toList, rows := [.frag { name := "c".toList, start := 1, stop := 2, strand := 1, tags := [] }] }] } :=
  ⟨_, rfl, rfl⟩

/-- AGP, an empty first scaffold name: AttributeError (`scaffold` is still `None`) -/
example : ∃ lines, formatAgp { scaffolds := [{ name := [], rows := [.gap { length := 1, gapType := "x".toList }] }] } = .ok lines ∧
    parseAgp lines = .error .attribute := ⟨_, rfl, rfl⟩

/-- AGP, an empty header line comes back as " "; a header starting with '#' loses the '#' -/
example : ∃ lines a', formatAgp { header := [[]] } = .ok lines ∧ parseAgp lines = .ok a' ∧ a'.header = [" ".toList] :=
  ⟨_, _, rfl, rfl, rfl⟩
example : ∃ lines a', formatAgp { header := ["#x".toList] } = .ok lines ∧ parseAgp lines = .ok a' ∧ a'.header = ["x".toList] :=
  ⟨_, _, rfl, rfl, rfl⟩

/-- TPF, a scaffold that starts with a gap: the gap is re-homed to the previous scaffold … -/
example : ∃ lines, formatTpf { scaffolds := [{ name := "s1".toList, rows := [.frag { name := "c".toList, start := 1, stop := 2, strand := 1 }] },
                                            { name := "s2".toList, rows := [.gap { length := 7, gapType := "scaffold".toList },
                                                                            .frag { name := "d".toList, start := 1, stop := 2, strand := 1 }] }] } = .ok lines ∧
    parseTpf lines = .ok { scaffolds := [{ name := "s1".toList, rows := [.frag { oid := 0, name := "c".toList, start := 1, stop := 2, strand := 1 },
                                                                          .gap { length := 7, gapType := "scaffold".toList }] },
                                          { name := "s2".toList, rows := [.frag { oid := 1, name := "d".toList, start := 1, stop := 2, strand := 1 }] }] } :=
  ⟨_, rfl, rfl⟩
/-- … or is an error when it is the first line -/
example : ∃ lines, formatTpf { scaffolds := [{ name := "s".toList, rows := [.gap { length := 7, gapType := "scaffold".toList }] }] } = .ok lines ∧
    parseTpf lines = .error .value := ⟨_, rfl, rfl⟩

/-- TPF, strand 0 is written as UNKNOWN, which the TPF reader rejects (KeyError) -/
example : ∃ lines, formatTpf { scaffolds := [{ name := "s".toList, rows := [.frag { name := "c".toList, start := 1, stop := 2, strand := 0 }] }] } = .ok lines ∧
    parseTpf lines = .error .key := ⟨_, rfl, rfl⟩

/-- TPF, gap types "type_2"/"type_3" come back as "scaffold"/"contig"; upper case / '-' come back lower-cased / '_' -/
example : tpfGapTypeOfText (tpfGapTypeToText "type_2".toList) = "scaffold".toList ∧
    tpfGapTypeOfText (tpfGapTypeToText "type_3".toList) = "contig".toList ∧
    tpfGapTypeOfText (tpfGapTypeToText "Short-Arm".toList) = "short_arm".toList := by decide

/-- TPF, a negative start is not `\d+`: ValueError -/
example : ∃ lines, formatTpf { scaffolds := [{ name := "s".toList, rows := [.frag { name := "c".toList, start := -1, stop := 2, strand := 1 }] }] } = .ok lines ∧
    parseTpf lines = .error .value := ⟨_, rfl, rfl⟩

end AgpTpf.C05
