/-
  C01 / T1c — the model's `qcPasses` IS the source's `BuildAssembly.qc_sub_fragments` (assembly/build_assembly.py) as translated
  by `harness/translate_imp.py` into `Gen.Imp.BuildAssembly_qc_sub_fragments`.  Loop lemmas: Proofs/ImpSmall.lean.
-/
import AgpTpf.Gen.Imp
import AgpTpf.Proofs.ImpSmall
namespace AgpTpf.C01
open AgpTpf

-- the `simp only` sets below name the facts about EVERY spelling of the loop's iterable; under one given spelling some are unused
set_option linter.unusedSimpArgs false in
/-- the cut QC of the source raises ValueError exactly when the model's `qcPasses` says no (messages are abstracted to "non-empty") -/
theorem qc_sub_fragments_is_source (orig : Fragment) (subs : List Fragment) :
    Gen.Imp.BuildAssembly_qc_sub_fragments subs orig = if qcPasses orig subs then .ok () else .error .value := by
  unfold Gen.Imp.BuildAssembly_qc_sub_fragments
  dsimp only
  rw [ImpSmall.lexLe2_key_eq_lexLe]
  -- first loop, in either spelling (`for i, frag_a in enumerate(srtd_frags[:-1]): frag_b = srtd_frags[i + 1]` or
  -- `for i in range(len(srtd_frags) - 1): frag_a = srtd_frags[i]; frag_b = srtd_frags[i + 1]`): the iterable has `len - 1` items and
  -- the k-th pass is `qcStep` on `srtd_frags[k]`, `srtd_frags[k + 1]`
  rw [ImpSmall.forIn_consPairs (stableSort lexLe subs) ImpSmall.qcStep]
  rotate_left
  · simp only [ImpSmall.length_enumerate, ImpSmall.length_slice_none_neg_one, ImpSmall.length_rangeUp, Int.ofNat_eq_natCast]
      <;> omega
  · intro k h1 h2 s
    rw [ImpSmall.QSt.eta s]
    simp (disch := omega) only [ImpSmall.getElem_enumerate, ImpSmall.getElem_slice_none_neg_one, ImpSmall.getElem_rangeUp,
      Int.zero_add, ImpSmall.pyGet_natCast, ImpSmall.pyGet_natCast_succ, ImpSmall.ok_bind, ImpSmall.ite_ok_bind]
    rfl
  obtain ⟨h1, h2, h3⟩ := ImpSmall.qc_loop_counts subs
  generalize List.foldl _ _ (ImpSmall.consPairs (stableSort lexLe subs)) = S at h1 h2 h3 ⊢
  rw [ImpSmall.QSt.eta S]
  generalize S.abut = ac at h1 ⊢
  generalize S.over = oc at h2 ⊢
  generalize S.pairs = pg at h3 ⊢
  simp only [ImpSmall.ok_bind, ImpSmall.ite_ok_bind]
  -- `for frag_a, frag_b, g in pairs_with_gaps: msg += …`
  rw [ImpSmall.forIn_pure (fun _ _ => true)]
  rotate_left
  · intro x s; rfl
  simp only [ImpSmall.ok_bind]
  rw [ImpSmall.foldl_const_true]
  -- the four conditions under which `msg` is non-empty are the four conjuncts of `qcPasses`
  have hE : pg.isEmpty = (pg.length == 0) := by cases pg <;> rfl
  rw [ImpSmall.qcPasses_eq, hE, h3, h1, h2]
  unfold PyRt.sum
  generalize ImpSmall.abutCount subs = A
  generalize ImpSmall.overCount subs = O
  generalize ImpSmall.gapCount subs = G
  have hT : List.map (fun (f : Fragment) => f.length) subs = List.map Fragment.length subs := rfl
  rw [hT]
  generalize sumInts (List.map Fragment.length subs) = T
  by_cases c1 : orig.length = T <;> by_cases c2 : O = 0 <;> by_cases c3 : (A : Int) = (subs.length : Int) - 1 <;>
    by_cases c4 : G = 0 <;> simp [c1, c2, c3, c4]

/-- the generated function runs: three abutting pieces of `c:1-30`, given out of order, pass … -/
example :
    Gen.Imp.BuildAssembly_qc_sub_fragments
      [{ name := ['c'], start := 11, stop := 20, strand := 1 }, { name := ['c'], start := 1, stop := 10, strand := 1 },
       { name := ['c'], start := 21, stop := 30, strand := -1 }]
      { name := ['c'], start := 1, stop := 30, strand := 1 } = .ok () := by rfl

/-- … a lost base (gap between the pieces), an overlap, a single piece that is too short and no pieces at all raise ValueError -/
example :
    Gen.Imp.BuildAssembly_qc_sub_fragments
      [{ name := ['c'], start := 1, stop := 10, strand := 1 }, { name := ['c'], start := 12, stop := 30, strand := 1 }]
      { name := ['c'], start := 1, stop := 30, strand := 1 } = .error .value := by rfl
example :
    Gen.Imp.BuildAssembly_qc_sub_fragments
      [{ name := ['c'], start := 1, stop := 10, strand := 1 }, { name := ['c'], start := 10, stop := 29, strand := 1 }]
      { name := ['c'], start := 1, stop := 30, strand := 1 } = .error .value := by rfl
example :
    Gen.Imp.BuildAssembly_qc_sub_fragments [{ name := ['c'], start := 1, stop := 10, strand := 1 }]
      { name := ['c'], start := 1, stop := 30, strand := 1 } = .error .value := by rfl
example :
    Gen.Imp.BuildAssembly_qc_sub_fragments [] { name := ['c'], start := 1, stop := 30, strand := 1 } = .error .value := by rfl

end AgpTpf.C01
