/-
  C04 — FASTA index and derived assembly describe the file exactly
  (fasta/index.py: `index_fasta_file` with its inner `process_seq_buffer` / `store_info`)

  Contents (all proved, no `sorry`):
   1  `bLines_flatten`, `bLines_flatten_open`            binary line iteration inverts concatenation of lines
   2  `acgtRuns_sorted`, `acgtRuns_cover`, `acgtRuns_maximal`   `re.finditer(rb"[ACGTacgt]+")` = the maximal ACGT runs
   3  `mergeRun_buffer_independent`, `processSeqBuffer_split`, `processSeqBuffer_pieces`
                                                          run detection does not depend on how residues are buffered
   4  `specRows_*`, `storeInfo_spec`                      the scaffold built from a record: complete in-order tiling,
                                                          maximal ACGT runs ↦ forward 1-based fragments, the rest ↦ gaps
   5  `indexFasta_spec`, `indexFasta_spec_open`, `indexFasta_single_LF`
                                                          the whole line loop, any number of records, LF / CRLF per record,
                                                          final newline present / absent, **every** buffer size
   6  `indexFasta_duplicate`, `indexFasta_empty`          rejections
   7  `random_access`                                     `sequence_bytes` through the computed index returns exactly the
                                                          requested residues (uniform line width, LF / CRLF)
   8  `specRows_render`                                   rendering the scaffold back from the residues reproduces the record
                                                          with only non-ACGT symbols replaced by `N`
-/
import AgpTpf.Model.Fasta
import AgpTpf.Proofs.C04Lines
import AgpTpf.Proofs.C04Runs
import AgpTpf.Proofs.C04Feed
import AgpTpf.Proofs.C04Rows
import AgpTpf.Proofs.C04Loop
import AgpTpf.Proofs.C04Access
import AgpTpf.Proofs.C04Render
namespace AgpTpf.C04
open AgpTpf

theorem reverseComplement_length (s : Bytes) : (reverseComplement s).length = s.length := by
  simp [reverseComplement]

/-! ## 1  `for line in fh` (binary mode) -/

/-- lines that each end in exactly one LF and contain no other LF are recovered exactly. -/
theorem bLines_flatten (lines : List Bytes) (h : ∀ l ∈ lines, IsLine l) : bLines lines.flatten = lines := by
  have := bLines_flatten_append lines [] h
  simpa [bLines] using this

/-- … also when the last line of the file has no terminator. -/
theorem bLines_flatten_open (lines : List Bytes) (last : Bytes) (h : ∀ l ∈ lines, IsLine l) (hl : IsOpenLine last) :
    bLines (lines.flatten ++ last) = lines ++ [last] := by
  rw [bLines_flatten_append lines last h, bLines_open last hl.1 hl.2]

example : ∀ l ∈ [[62, 97, 10], [65, 67, 13, 10]], IsLine l := by
  intro l hl
  simp only [List.mem_cons, List.not_mem_nil, or_false] at hl
  rcases hl with rfl | rfl
  · exact ⟨[62, 97], rfl, by decide⟩
  · exact ⟨[65, 67, 13], rfl, by decide⟩
example : IsOpenLine [65, 67] := ⟨by decide, by decide⟩

/-! ## 2  `re.finditer(rb"[ACGTacgt]+", seq_bytes)` -/

/-- (a) the runs are non-empty, inside the buffer, sorted, disjoint and non-adjacent. -/
theorem acgtRuns_sorted (bytes : Bytes) :
    (acgtRuns 0 none bytes).Pairwise (fun a b => a.2 < b.1) ∧
    ∀ r ∈ acgtRuns 0 none bytes, r.1 < r.2 ∧ r.2 ≤ bytes.length := by
  have h := (runsOf_runsIn bytes).pairwise
  exact ⟨h.1, fun r hr => ⟨(h.2 r hr).2.1, (h.2 r hr).2.2⟩⟩

/-- (b) a position is inside some run iff it holds one of `ACGTacgt`. -/
theorem acgtRuns_cover (bytes : Bytes) (p : Nat) :
    (∃ r ∈ acgtRuns 0 none bytes, r.1 ≤ p ∧ p < r.2) ↔ ∃ b, bytes[p]? = some b ∧ isACGT b = true := by
  have h := acgtRuns_covered bytes 0 none p (by simp)
  simp only [false_or, Nat.zero_le, true_and, Nat.sub_zero] at h
  rw [← Option.any_eq_true (p := isACGT), ← h]
  simp [covered]

theorem pairwise_trichotomy {α} {R : α → α → Prop} {l : List α} (h : l.Pairwise R) {a b : α} (ha : a ∈ l) (hb : b ∈ l) :
    a = b ∨ R a b ∨ R b a := by
  induction l with
  | nil => cases ha
  | cons x xs ih =>
    rw [List.pairwise_cons] at h
    rcases List.mem_cons.mp ha with rfl | ha' <;> rcases List.mem_cons.mp hb with rfl | hb'
    · exact Or.inl rfl
    · exact Or.inr (Or.inl (h.1 _ hb'))
    · exact Or.inr (Or.inr (h.1 _ ha'))
    · exact ih h.2 ha' hb'

/-- (c) every run is maximal: the bytes just before and just after it are not `ACGTacgt`. -/
theorem acgtRuns_maximal (bytes : Bytes) (r : Nat × Nat) (hr : r ∈ acgtRuns 0 none bytes) :
    (∀ b, bytes[r.2]? = some b → isACGT b = false) ∧
    (∀ b, 0 < r.1 → bytes[r.1 - 1]? = some b → isACGT b = false) := by
  obtain ⟨hp, hb⟩ := acgtRuns_sorted bytes
  constructor
  · intro b hbk
    cases hacgt : isACGT b with
    | false => rfl
    | true =>
      obtain ⟨r', hr', h1, h2⟩ := (acgtRuns_cover bytes r.2).mpr ⟨b, hbk, hacgt⟩
      have := hb r hr; have := hb r' hr'
      rcases pairwise_trichotomy hp hr hr' with heq | h | h
      · subst heq; omega
      · omega
      · omega
  · intro b hpos hbk
    cases hacgt : isACGT b with
    | false => rfl
    | true =>
      obtain ⟨r', hr', h1, h2⟩ := (acgtRuns_cover bytes (r.1 - 1)).mpr ⟨b, hbk, hacgt⟩
      have := hb r hr; have := hb r' hr'
      rcases pairwise_trichotomy hp hr hr' with heq | h | h
      · subst heq; omega
      · omega
      · omega

example : acgtRuns 0 none [78, 65, 67, 110, 103, 84, 78] = [(1, 3), (4, 6)] := by decide

/-! ## 3  buffer independence of `process_seq_buffer` -/

/-- On the triple `(region_start, region_end, seq_regions)`: processing `xs` at sequence length `L` and then `ys` at
    `L + len(xs)` equals processing `xs ++ ys` at `L` — for *every* incoming triple, including the `None`/`0`
    truthiness cases of `region_end` (a run that starts exactly at `region_end` is merged). This is stronger than
    equality after closing the open region. -/
theorem mergeRun_buffer_independent (L : Int) (xs ys : Bytes) (σ : Int × Option Int × List (Int × Int)) :
    (acgtRuns 0 none ys).foldl (mergeRun (L + xs.length)) ((acgtRuns 0 none xs).foldl (mergeRun L) σ) =
      (acgtRuns 0 none (xs ++ ys)).foldl (mergeRun L) σ :=
  foldl_mergeRun_append L xs ys σ

/-- the same on the whole indexer state (`feed st piece` = `process_seq_buffer()` with `piece` in the buffer). -/
theorem processSeqBuffer_split (st : IdxState) (xs ys : Bytes) :
    processSeqBuffer { processSeqBuffer { st with buffer := xs } with buffer := ys } =
      processSeqBuffer { st with buffer := xs ++ ys } :=
  feed_append st xs ys

/-- any split of the residues into consecutive buffers `p, q₁, q₂, …` gives the state of one single buffer. -/
theorem processSeqBuffer_pieces (st : IdxState) (p : Bytes) (ps : List Bytes) :
    ps.foldl (fun s piece => processSeqBuffer { s with buffer := piece }) (processSeqBuffer { st with buffer := p }) =
      processSeqBuffer { st with buffer := p ++ ps.flatten } :=
  feed_pieces st p ps

/-! ## 4  `store_info`: from the run list to the scaffold

  `specRows name oid res` is *by definition* the model's row construction (`regionRows` + trailing gap, see
  `specRows_eq_regionRows`) applied to the run list of the whole residue string `res`.  The theorems below say what
  these rows are. -/

theorem specRows_eq_regionRows (name : Str) (oid : Nat) (res : Bytes) :
    let regs := (acgtRuns 0 none res).map (fun r => ((r.1 : Int), (r.2 : Int)))
    let rr := regionRows name oid 0 regs
    specRows name oid res =
      (if (res.length : Int) - rr.2.2 ≠ 0
        then rr.1 ++ [Row.gap { length := (res.length : Int) - rr.2.2, gapType := Gen.fastaGapType }] else rr.1) := by
  have := (regionRows_eq name res.length (specRegions res) oid 0).2
  simp only [specRows, specRegions, castRuns, runsOf, gapRow] at this ⊢
  exact this.symm

/-- the rows tile the record completely: lengths add up to the record length … -/
theorem specRows_rowsLength (name : Str) (oid : Nat) (res : Bytes) :
    rowsLength (specRows name oid res) = res.length := specRows_length name oid res

/-- … position by position a fragment row covers exactly the `ACGTacgt` bytes and a gap row the others … -/
theorem specRows_rowsMask (name : Str) (oid : Nat) (res : Bytes) :
    rowsMask (specRows name oid res) = res.map isACGT := specRows_mask name oid res

/-- … rows lie end to end from offset 0; each fragment is `name:(offset+1)-(offset+len)` (1-based inclusive),
    strand `+1`, untagged, with consecutive fresh object ids; each gap has positive length and type `scaffold` … -/
theorem specRows_Tiled (name : Str) (oid : Nat) (res : Bytes) : Tiled name oid 0 (specRows name oid res) :=
  specRows_tiled name oid res

/-- … and no two fragments and no two gaps are neighbours, i.e. every row is a *maximal* run. -/
theorem specRows_Alternates (name : Str) (oid : Nat) (res : Bytes) : Alternates (specRows name oid res) :=
  specRows_alternates name oid res

/-- the fragments are exactly the runs of `acgtRuns`, shifted to 1-based inclusive coordinates. -/
theorem specRows_fragment_coords (name : Str) (oid : Nat) (res : Bytes) :
    (fragmentsOf (specRows name oid res)).map (fun f => (f.start, f.stop)) =
      (acgtRuns 0 none res).map (fun r => ((r.1 : Int) + 1, (r.2 : Int))) := specRows_fragments name oid res

example : specRows ['a'] 0 [78, 65, 67, 110, 103, 84, 78] =
    [gapRow 1, fragRow 0 ['a'] 1 3, gapRow 1, fragRow 1 ['a'] 4 6, gapRow 1] := by decide

/-- `store_info()` on a state that holds the record `res` in any buffered form (`InRec`: part already folded into
    the region triple, the rest still in `buffer`): appends the faidx entry and the scaffold `specRows`. -/
theorem storeInfo_spec (st : IdxState) (c : Cur) (h : InRec st c) (hnew : c.name ∉ c.idx.map Prod.fst) :
    ∃ st', storeInfo st = .ok st' ∧
      st'.idx = c.idx ++ [(c.name, { length := c.res.length, fileOffset := c.off, rpl := c.rpl, mll := c.rpl + c.leb })] ∧
      st'.scaffolds = c.scaffolds ++ [{ name := c.name, rows := specRows c.name c.nextOid c.res }] ∧
      st'.nextOid = c.nextOid + (acgtRuns 0 none c.res).length ∧ st'.buffer = [] := by
  have hd : dHas c.idx c.name = false := by
    cases hh : dHas c.idx c.name with
    | false => rfl
    | true => exact absurd ((dHas_iff _ _).mp hh) hnew
  obtain ⟨st', e, hb⟩ := storeInfo_ok h hd
  exact ⟨st', e, hb.idx, hb.scaffolds, hb.nextOid, hb.buffer⟩

/-- the simplest instance of `InRec`: right after the header with the whole record in the buffer. -/
example (res : Bytes) : InRec
    { name := some ['a'], rpl := some 4, lineEndBytes := 1, fileOffset := 3, buffer := res }
    { idx := [], scaffolds := [], nextOid := 0, name := ['a'], off := 3, rpl := 4, leb := 1, res := res, pos := 0 } :=
  ⟨rfl, rfl, rfl, rfl, rfl, rfl, rfl, rfl, by simp, rfl⟩

/-! ## 5  the line loop

  A file is a list of records `Rec` (header text after `>`, the record's line terminator, residue lines);
  `fileOf recs` is its byte string, `Rec.WF` says: terminator is LF (and the header does not end in CR) or CRLF,
  header has no LF and yields a non-empty ASCII name token, residue lines contain no LF and do not start with `>`.
  The expected result is the left fold `addRec` over the records:
    idx entry   `(name, {length = n, fileOffset = start + len(header line), rpl = first line length, mll = rpl + len(le)})`
    scaffold    `specRows name oid residues`   (section 4). -/

/-- **complete files** — any number of records, LF or CRLF per record, descriptions after the name, any residue
    symbols, any line lengths, and *every* buffer size `bs` (even `≤ 0`). -/
theorem indexFasta_spec (bs : Int) (recs : List Rec) (hne : recs ≠ []) (hwf : ∀ r ∈ recs, r.WF)
    (hnd : (recs.map Rec.name).Nodup) :
    ∃ st, indexFasta (bLines (fileOf recs)) bs = .ok st ∧
      st.idx = (recs.foldl addRec {}).idx ∧ st.scaffolds = (recs.foldl addRec {}).scaffolds :=
  indexFasta_fileOf bs recs hne hwf hnd

/-- **final line terminator missing** (`last.lines = ls ++ [l]`, `l` non-empty and unterminated): same result. -/
theorem indexFasta_spec_open (bs : Int) (init : List Rec) (last : Rec) (ls : List Bytes) (l : Bytes)
    (hwf : ∀ r ∈ init ++ [last], r.WF) (hnd : ((init ++ [last]).map Rec.name).Nodup)
    (hl : last.lines = ls ++ [l]) (hne : l ≠ []) :
    ∃ st, indexFasta (bLines (fileOpen init last ls l)) bs = .ok st ∧
      st.idx = ((init ++ [last]).foldl addRec {}).idx ∧
      st.scaffolds = ((init ++ [last]).foldl addRec {}).scaffolds :=
  indexFasta_fileOpen bs init last ls l hwf hnd hl hne

/-- the open-file hypotheses are satisfiable, and the theorem's prediction agrees with direct evaluation
    (and with CPython): `>a\r\nACGT\r\nNN\r\n>b x\r\nnnAC` (CRLF, two records, no final newline), buffer size 2 -/
example :
    let a : Rec := { hdr := [97], le := [13, 10], lines := [[65, 67, 71, 84], [78, 78]] }
    let b : Rec := { hdr := [98, 32, 120], le := [13, 10], lines := [[110, 110, 65, 67]] }
    fileOpen [a] b [] [110, 110, 65, 67] =
        [62, 97, 13, 10, 65, 67, 71, 84, 13, 10, 78, 78, 13, 10, 62, 98, 32, 120, 13, 10, 110, 110, 65, 67] ∧
    (indexFasta (bLines (fileOpen [a] b [] [110, 110, 65, 67])) 2).map (fun st => (st.idx, st.scaffolds)) =
      .ok (([a, b].foldl addRec {}).idx, ([a, b].foldl addRec {}).scaffolds) ∧
    ([a, b].foldl addRec {}).idx =
      [(['a'], { length := 6, fileOffset := 4, rpl := 4, mll := 6 }),
       (['b'], { length := 4, fileOffset := 20, rpl := 4, mll := 6 })] ∧
    ([a, b].foldl addRec {}).scaffolds =
      [{ name := ['a'], rows := [fragRow 0 ['a'] 0 4, gapRow 2] },
       { name := ['b'], rows := [gapRow 2, fragRow 1 ['b'] 2 4] }] := by
  refine ⟨by rfl, by rfl, by rfl, by rfl⟩

/-- `fileOpen` really is the complete file without its last terminator. -/
theorem fileOpen_spec (init : List Rec) (last : Rec) (ls : List Bytes) (l : Bytes) (h : last.lines = ls ++ [l]) :
    fileOpen init last ls l ++ last.le = fileOf (init ++ [last]) := fileOpen_append_le init last ls l h

/-- with uniform line width `w` (last line `1 … w` residues) the faidx quintuple is
    `(name, n, offset of first residue, min w n, min w n + len(terminator))`. -/
theorem info_uniform (r : Rec) (w : Nat) (start : Int) (hu : Uniform w r.lines) :
    r.info start =
      { length := (r.res.length : Nat), fileOffset := start + 1 + (r.hdr.length : Nat) + (r.le.length : Nat),
        rpl := ((min w r.res.length : Nat) : Int), mll := ((min w r.res.length : Nat) : Int) + (r.le.length : Nat) } := by
  have h := rplOf_uniform w r.lines hu
  simp only [Rec.info, Rec.rpl, h, Rec.res, Rec.hdrLine, List.length_cons, List.length_append, FastaInfo.mk.injEq,
    true_and, and_true]
  omega

/-- ONE record, LF line ends, uniform width `w`, every buffer size: the statement of goal 5 in plain terms. -/
theorem indexFasta_single_LF (bs : Int) (hdr : Bytes) (lines : List Bytes) (w : Nat)
    (h10 : 10 ∉ hdr) (hcr : hdr.getLast? ≠ some 13) (htok : tokOf hdr ≠ []) (hascii : ∀ b ∈ tokOf hdr, b < 128)
    (hlines : ∀ l ∈ lines, 10 ∉ l ∧ l.head? ≠ some 62) (hu : Uniform w lines) :
    ∃ st, indexFasta (bLines (62 :: hdr ++ [10] ++ (lines.map (· ++ [10])).flatten)) bs = .ok st ∧
      st.idx = [((tokOf hdr).map Char.ofNat,
                 { length := (lines.flatten.length : Nat), fileOffset := (hdr.length : Nat) + 2,
                   rpl := ((min w lines.flatten.length : Nat) : Int),
                   mll := ((min w lines.flatten.length : Nat) : Int) + 1 })] ∧
      st.scaffolds = [{ name := (tokOf hdr).map Char.ofNat,
                        rows := specRows ((tokOf hdr).map Char.ofNat) 0 lines.flatten }] := by
  let r : Rec := { hdr := hdr, le := [10], lines := lines }
  have hwf : r.WF := ⟨Or.inl ⟨rfl, hcr⟩, h10, htok, hascii, hlines⟩
  obtain ⟨st, e, hi, hs⟩ := indexFasta_spec bs [r] (by simp) (by simpa using hwf) (by simp)
  have hfile : fileOf [r] = 62 :: hdr ++ [10] ++ (lines.map (· ++ [10])).flatten := by
    simp [fileOf, Rec.bytes, Rec.fileLines, Rec.hdrLine, r]
  rw [hfile] at e
  refine ⟨st, e, ?_, ?_⟩
  · rw [hi]
    simp only [List.foldl_cons, List.foldl_nil, addRec, List.nil_append, info_uniform r w _ hu]
    simp only [Rec.name, Rec.tok, Rec.res, r, List.length_cons, List.length_nil, List.cons.injEq, Prod.mk.injEq,
      FastaInfo.mk.injEq, true_and, and_true]
    exact ⟨by simp [Out.pos]; omega, by simp⟩
  · rw [hs]; rfl

/-- the hypotheses are satisfiable: `>a desc\nACGTNN\nAC\n` (width 6) -/
example : (10 ∉ [97, 32, 100]) ∧ ([97, 32, 100] : Bytes).getLast? ≠ some 13 ∧ tokOf [97, 32, 100] = [97] ∧
    (∀ l ∈ [[65, 67, 71, 84, 78, 78], [65, 67]], 10 ∉ l ∧ l.head? ≠ some 62) ∧
    Uniform 6 [[65, 67, 71, 84, 78, 78], [65, 67]] :=
  ⟨by decide, by decide, by decide, by decide, Or.inr ⟨[[65, 67, 71, 84, 78, 78]], [65, 67], rfl, by decide, by decide, by decide⟩⟩

/-- two well-formed records, one LF and one CRLF -/
example : ∀ r ∈ [({ hdr := [97], le := [10], lines := [[65, 67], [71]] } : Rec),
                 { hdr := [98, 32, 120], le := [13, 10], lines := [[78, 78, 65]] }], r.WF := by
  intro r hr
  simp only [List.mem_cons, List.not_mem_nil, or_false] at hr
  rcases hr with rfl | rfl
  · exact ⟨Or.inl ⟨rfl, by decide⟩, by decide, by decide, by decide, by decide⟩
  · exact ⟨Or.inr rfl, by decide, by decide, by decide, by decide⟩

/-- non-vacuity / sanity: `>a\nACGTNN\nAC\n` with buffer size 3, evaluated by the kernel -/
example : (indexFasta (bLines [62, 97, 10, 65, 67, 71, 84, 78, 78, 10, 65, 67, 10]) 3).map
      (fun st => (st.idx, st.scaffolds)) =
    .ok ([(['a'], { length := 8, fileOffset := 3, rpl := 6, mll := 7 })],
         [{ name := ['a'], rows := [fragRow 0 ['a'] 0 4, gapRow 2, fragRow 1 ['a'] 6 8] }]) := by rfl

/-! ## 7  random access through the index -/

/-- For every record `r` (uniform line width `w`) of a well-formed file, at any place in the file, with any buffer
    size used for indexing: looking `r.name` up in the computed index and calling `sequence_bytes(info, s, e)`
    for `1 ≤ s ≤ e ≤ n` succeeds and returns exactly residues `s … e` (1-based, inclusive) of the record. -/
theorem random_access (bs : Int) (pre : List Rec) (r : Rec) (post : List Rec) (w : Nat)
    (hwf : ∀ x ∈ pre ++ r :: post, x.WF) (hnd : ((pre ++ r :: post).map Rec.name).Nodup)
    (hu : Uniform w r.lines) (s e : Nat) (hs : 1 ≤ s) (hse : s ≤ e) (hen : e ≤ r.res.length) :
    ∃ st info log, indexFasta (bLines (fileOf (pre ++ r :: post))) bs = .ok st ∧
      getInfo st.idx r.name = .ok info ∧
      sequenceBytes (fileOf (pre ++ r :: post)) info s e = .ok log ∧
      log.data = (r.res.drop (s - 1)).take (e + 1 - s) := by
  obtain ⟨st, e1, hi, _⟩ := indexFasta_spec bs (pre ++ r :: post) (by simp) hwf hnd
  obtain ⟨log, e2, hd⟩ := sequenceBytes_record pre r post w hu s e hs hse hen
  refine ⟨st, _, log, e1, ?_, e2, ?_⟩
  · rw [hi]; exact getInfo_expected pre r post hnd
  · rw [hd]; congr 1; omega

/-- concrete check: residues 3…7 of `>a\nACGTNN\nAC\n` through the index entry `(8, 3, 6, 7)` -/
example : (sequenceBytes [62, 97, 10, 65, 67, 71, 84, 78, 78, 10, 65, 67, 10]
      { length := 8, fileOffset := 3, rpl := 6, mll := 7 } 3 7).map (·.data) = .ok [71, 84, 78, 78, 65] := by rfl

/-! ## 8  rendering the scaffold back -/

/-- walking the rows of a record forward — the addressed residues for a fragment (what `random_access` returns),
    `len` gap characters for a gap — reproduces the record with every non-ACGT symbol replaced by `N` (78). -/
theorem specRows_render (name : Str) (oid : Nat) (res : Bytes) :
    renderRows res (specRows name oid res) = res.map (fun b => if isACGT b then b else 78) :=
  render_specRows name oid res

example : Gen.gapCharacter = [78] := rfl

/-! ## 6  rejections -/

/-- two records with the same name: `ValueError` (raised when the second of them is stored), whatever follows. -/
theorem indexFasta_duplicate (bs : Int) (recs : List Rec) (hwf : ∀ r ∈ recs, r.WF)
    (hdup : ¬ (recs.map Rec.name).Nodup) :
    indexFasta (bLines (fileOf recs)) bs = .error .value :=
  indexFasta_dup bs recs hwf hdup

example : ¬ (([({ hdr := [97], le := [10], lines := [[65]] } : Rec),
              { hdr := [97, 32, 120], le := [10], lines := [] }]).map Rec.name).Nodup := by decide

/-- a file without any line (no header at all): `ValueError`. -/
theorem indexFasta_empty (bs : Int) : indexFasta (bLines []) bs = .error .value := rfl

/-- outside the well-formed scope, as CPython behaves: a header-less file that is one unterminated line.
    With a buffer at least as long as the line nothing is processed and the empty index gives `ValueError`;
    with a smaller buffer `process_seq_buffer()` runs on `seq_length = None`: `TypeError`. -/
example : indexFasta (bLines [65, 67, 71, 84]) 100 = .error .value := rfl
example : indexFasta (bLines [65, 67, 71, 84]) 2 = .error .type := rfl

end AgpTpf.C04
