/-
  C01 / C02 / C11 — T1c: the model's `cutFragments` IS the source's `BuildAssembly.cut_fragments` (assembly/build_assembly.py) as
  translated by `harness/translate_imp.py` into `Gen.Imp.BuildAssembly_cut_fragments`, with the source's own
  `qc_sub_fragments` plugged in (tied to `qcPasses` in `Properties/C01Imp.lean`).  References to OverlapResults are store indices.
  Loop lemmas: Proofs/ImpCut.lean.
-/
import AgpTpf.Gen.Imp
import AgpTpf.Proofs.ImpCut
import AgpTpf.Properties.C01Imp
namespace AgpTpf.C01
open AgpTpf

/-- the model's `cutFragments` IS the source's `cut_fragments` (with the source's own QC plugged in) -/
theorem cut_fragments_is_source (b : Build) (fnd : Found) :
    Gen.Imp.BuildAssembly_cut_fragments b.store b.nextOid b.cuts fnd.fragment fnd.scaffolds
        (fun subs => Gen.Imp.BuildAssembly_qc_sub_fragments subs fnd.fragment)
      = (cutFragments b fnd).map (fun b' => (b'.store, b'.nextOid, b'.cuts)) := by
  rw [ImpCut.cutFragments_eq]
  unfold Gen.Imp.BuildAssembly_cut_fragments
  dsimp only
  -- `sorted(fnd.scaffolds, key=lambda s: s.fragment_start_if_trimmed(frgmnt))`
  simp only [ImpCut.bind_ok]
  rw [ImpCut.sortedByM_cutKey]
  cases fnd.scaffolds.mapM (ImpCut.cutKey b.store fnd.fragment) with
  | error e => rfl
  | ok keyed =>
    simp only [ImpCut.ok_map, ImpCut.ok_bind]
    generalize ImpCut.cutOrder keyed = ordered
    -- `for i, scffld in enumerate(ordered_scaffolds): …` is the model's `foldlM` of `cutStep`; the loop state is the three
    -- variables in the translator's order (by the text of their type, then by name) — the only place of this proof that names that order
    rw [ImpCut.cutLoop_is_forIn (fun subs store oid => (subs, store, oid)) fnd.fragment (ordered.length - 1) _ ordered ?_ b]
    · -- after the loop: the QC, the `cuts` counter
      cases hl : List.foldlM (ImpCut.cutStep fnd.fragment (ordered.length - 1)) (b, [], 0) ordered with
      | error e => rfl
      | ok a =>
        obtain ⟨b', subs, i⟩ := a
        have hc : b'.cuts = b.cuts := ImpCut.cutLoop_cuts b fnd.fragment _ ordered [] 0 _ hl
        simp only [ImpCut.ok_map, ImpCut.ok_bind, qc_sub_fragments_is_source, ImpCut.cutFinish, Int.ofNat_eq_natCast, hc]
        by_cases hq : qcPasses fnd.fragment subs = true <;> simp only [hq] <;> rfl
    · -- one pass
      intro hne i sid subs store oid
      simp only [Int.ofNat_eq_natCast, ImpCut.last_cast ordered hne, ImpCut.decide_cast_eq_zero, ImpCut.decide_cast_eq_cast,
        ImpCut.cutFlags]
      by_cases hs : fnd.fragment.strand = -1 <;> simp only [hs, decide_true, decide_false, if_true, if_false] <;> rfl

/-! the generated function runs: the contig `a:1-100` shared by two results (store indices 0 and 1, given in the order of the store,
    visited in the order of the contig), on either strand; a holder index outside the store; no holders at all; a contig of orientation `?` -/
def cutExBait (s e : Int) : Fragment := { name := ['s'], start := s, stop := e, strand := 1, tags := ["Painted".toList] }
def cutExFrag (st : Int) : Fragment := { oid := 1, name := ['a'], start := 1, stop := 100, strand := st }
def cutExRes (st s e : Int) : Res :=
  { o := { bait := cutExBait s e, start := 1, stop := 100, rows := [.frag (cutExFrag st)], name := "matches".toList }, added := true }
def cutExBuild (st : Int) (lo hi : Int × Int) : Build :=
  { namer := { autosomePrefix := [] }, nextOid := 20, joinGap := none, err := 3, cuts := 5,
    store := [cutExRes st lo.1 lo.2, cutExRes st hi.1 hi.2] }
def cutExRun (b : Build) (f : Fragment) (holders : List Nat) : R (List Res × Nat × Int) :=
  Gen.Imp.BuildAssembly_cut_fragments b.store b.nextOid b.cuts f holders
    (fun subs => Gen.Imp.BuildAssembly_qc_sub_fragments subs f)
/-- what is looked at in the result: the extents of the results, the pieces (start, end, object id) in them, the two counters -/
def cutExView (r : R (List Res × Nat × Int)) : Option (List (Int × Int) × List (Int × Int × Nat) × Nat × Int) :=
  r.toOption.map (fun (st, oid, cuts) =>
    (st.map (fun r => (r.o.start, r.o.stop)),
     st.flatMap (fun r => r.o.rows.filterMap (fun row => match row with
      | .frag g => some (g.start, g.stop, g.oid) | .gap _ => none)), oid, cuts))

/-- plus strand, the holder of scaffold positions 41..100 first in the store: it is visited second and gets the second new object -/
example : cutExView (cutExRun (cutExBuild 1 (41, 100) (1, 40)) (cutExFrag 1) [0, 1]) =
    some ([(41, 100), (1, 40)], [(41, 100, 21), (1, 40, 20)], 22, 6) := by decide +kernel
/-- minus strand: the holder of positions 41..100 has contig bases 1..60, is visited first, flags swapped -/
example : cutExView (cutExRun (cutExBuild (-1) (1, 40) (41, 100)) (cutExFrag (-1)) [0, 1]) =
    some ([(1, 40), (41, 100)], [(61, 100, 21), (1, 60, 20)], 22, 6) := by decide +kernel
/-- a holder index outside the store (the default result has no rows): the key pass raises IndexError; no holders: the QC raises;
    a contig of orientation `?` (strand 0): both holders keep the whole contig and the QC raises -/
example : cutExRun (cutExBuild 1 (41, 100) (1, 40)) (cutExFrag 1) [0, 7] = .error .index := by rfl
example : cutExRun (cutExBuild 0 (1, 40) (41, 100)) (cutExFrag 0) [0, 1] = .error .value := by rfl
example : cutExRun (cutExBuild 1 (41, 100) (1, 40)) (cutExFrag 1) [] = .error .value := by rfl
/-- the model on the first input, evaluated independently -/
example : (cutFragments (cutExBuild 1 (41, 100) (1, 40)) { fragment := cutExFrag 1, scaffolds := [0, 1] }).toOption.map
      (fun b' => (b'.nextOid, b'.cuts)) = some (22, 6) := by decide +kernel

/-- … and `cutFragments` changes nothing else of the build state -/
theorem cut_fragments_frame (b b' : Build) (fnd : Found) (h : cutFragments b fnd = .ok b') :
    b' = { b with store := b'.store, nextOid := b'.nextOid, cuts := b'.cuts } :=
  ImpCut.cutFragments_frame b b' fnd h

/-- the hypothesis is met (and the unchanged fields are there to be seen) -/
example : ∃ b', cutFragments (cutExBuild 1 (41, 100) (1, 40)) { fragment := cutExFrag 1, scaffolds := [0, 1] } = .ok b' ∧
    b'.err = 3 ∧ b'.joinGap = none ∧ b'.multi = [] := by
  have hs : (cutFragments (cutExBuild 1 (41, 100) (1, 40)) { fragment := cutExFrag 1, scaffolds := [0, 1] }).toOption.isSome
      = true := by decide +kernel
  cases h : cutFragments (cutExBuild 1 (41, 100) (1, 40)) { fragment := cutExFrag 1, scaffolds := [0, 1] } with
  | error e => rw [h] at hs; cases hs
  | ok b' =>
    have hf := cut_fragments_frame _ _ _ h
    exact ⟨b', rfl, by rw [hf]; rfl, by rw [hf]; rfl, by rw [hf]; rfl⟩

end AgpTpf.C01
