/-
  C01 / C02 / C11 — T1c: the model's `cutFragments` IS the source's `BuildAssembly.cut_fragments` (assembly/build_assembly.py) as
  translated by `harness/translate_imp.py` into `Gen.Imp.BuildAssembly_cut_fragments`, with the source's own
  `qc_sub_fragments` plugged in (tied to `qcPasses` in `Properties/C01Imp.lean`).  References to OverlapResults are store indices.
  Loop lemmas: Proofs/ImpCut.lean.
-/
import AgpTpf.Gen.Imp
import AgpTpf.Proofs.ImpCut
import AgpTpf.Properties.C01Imp
namespace AgpTpf.C01
open AgpTpf

/-- the model's `cutFragments` IS the source's `cut_fragments` (with the source's own QC plugged in) -/
theorem cut_fragments_is_source (b : Build) (fnd : Found) :
    Gen.Imp.BuildAssembly_cut_fragments b.store b.nextOid b.cuts fnd.fragment fnd.scaffolds
        (fun subs => Gen.Imp.BuildAssembly_qc_sub_fragments subs fnd.fragment)
      = (cutFragments b fnd).map (fun b' => (b'.store, b'.nextOid, b'.cuts)) := by
  rw [ImpCut.cutFragments_eq]
  unfold Gen.Imp.BuildAssembly_cut_fragments
  dsimp only
  -- `sorted(fnd.scaffolds, key=lambda s: s.fragment_start_if_trimmed(frgmnt))`
  simp only [ImpCut.bind_ok]
  rw [ImpCut.sortedByM_cutKey]
  cases fnd.scaffolds.mapM (ImpCut.cutKey b.store fnd.fragment) with
  | error e => rfl
  | ok keyed =>
    simp only [ImpCut.ok_map, ImpCut.ok_bind]
    generalize ImpCut.cutOrder keyed = ordered
    -- `for i, scffld in enumerate(ordered_scaffolds): …`
    trace_state
    sorry
