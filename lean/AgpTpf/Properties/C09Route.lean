/-
  C09 (geometry half) — tagged pieces are routed END TO END.

  `C09.lean` proves three separate links (`label_special`, `fuse_keeps_tag`, `assembly_key`).  This file chains them
  over `remap`: which output assembly the fragments that come from a given Pretext piece end up in.

    R1 `store_tag_created`, `store_tag_stable_*`, `store_tag_stable`
         the label fields (`tag, haplotype, rank, originalName, originalTags, bait`, and `added`) of a stored lookup
         result are the ones `label_scaffold` gave when `processBait` created it; no later stage changes them
         (`rename_by_size` changes `name` only, the resolver / cutting change `rows, start, stop` only).
    R2 `piece_tag`, `piece_tag_rule`
         the i-th stored result was created by the i-th Pretext fragment whose lookup finds something (file order);
         its tag is FalseDuplicate > Haplotig > Contaminant-or-Target-mode > none, where Target mode for a piece of
         Pretext scaffold `S` means: a STRICTLY EARLIER Pretext scaffold carries a Target tag and `S` carries none.
    R3 `remap_routes_store`   END TO END: every added stored result and every left-over scaffold lies (as a contiguous
         block of rows) in a scaffold of the output assembly keyed `routeKey tag haplotype`; output keys are pairwise
         different; every fragment of every output scaffold comes from exactly such a part, with the scaffold's own
         tag and haplotype.
    R4 `tagged_piece_never_curated`   under the F16 side condition (`NoTagWordHaplotype`), for a well-formed input:
         the fragments of a piece tagged FalseDuplicate / Haplotig / Contaminant (R2's precedence) lie in the assembly
         keyed by that word, which is not curated, and any output fragment sharing a base with them is in that same
         assembly.
       `shared_base_one_assembly`, `target_mode_piece`, `tagged_leftover_never_curated` complete R4.
    R5 `target_mode_leftovers`, `leftover_tags`, `haplotype_leftovers_partial` / `haplotype_leftovers_untagged`
       (+ `leftover_step_exists`).

    R6 (extra) `piece_haplotype`, `scaffold_haplotype_tag`, `scaffold_haplotype_prefix`, `scaffold_no_haplotype`:
       which haplotype the pieces of a Pretext scaffold carry (the other argument of `routeKey`).

  All statements are at full strength except `haplotype_leftovers_partial` (left-over contigs carrying a `Primary` tag
  are excluded — never the case for an input read from FASTA; see there).  No statement was found false; the
  known findings F10 (an unregistered name prefix invents a haplotype) and F16 (`curated` under a clash) are restated
  where they bite.
-/
import AgpTpf.Model.Remap
import AgpTpf.Properties.C01
import AgpTpf.Properties.C09
import AgpTpf.Proofs.C09RMain
import AgpTpf.Proofs.C09RHap
namespace AgpTpf.C09
open AgpTpf Dict

/-! ## R1 — fields fixed at creation -/

/-- `oFixed` (Proofs/C09RFixed.lean) is the tuple of label fields -/
theorem oFixed_eq_iff (o o' : OverlapResult) :
    oFixed o = oFixed o' ↔
      o.tag = o'.tag ∧ o.haplotype = o'.haplotype ∧ o.rank = o'.rank ∧ o.originalName = o'.originalName ∧
      o.originalTags = o'.originalTags ∧ o.bait = o'.bait := by
  simp [oFixed]

/-- `fixedOf r = (oFixed r.o, r.added)`; `fixedN r = (fixedOf r, r.o.name)` -/
theorem fixedOf_eq (r : Res) : fixedOf r = (oFixed r.o, r.added) ∧ fixedN r = (fixedOf r, r.o.name) := ⟨rfl, rfl⟩

/-- **Creation.**  `processBait` either leaves the store alone (lookup found nothing) or appends exactly one result, at
    index `sid = b.store.length`; its label fields and name are those `label_scaffold` returned for the fresh lookup
    result (`trim_large_overhangs`, which runs in between, does not touch them). -/
theorem store_tag_created (input : List Scaffold) (scTags : List Str) (orig : Str) (b b' : Build) (p : Fragment)
    (h : processBait input scTags orig b p = .ok b') :
    b'.store = b.store ∨
    ∃ sc o n' o' r, lookupScaffold input p.name = .ok sc ∧ findOverlaps sc.rows p = .ok (some o) ∧
      labelScaffold b.namer o b.store.length p scTags orig = .ok (n', o') ∧
      b'.store = b.store ++ [r] ∧ oFixed r.o = oFixed o' ∧ r.o.name = o'.name :=
  processBait_creates input scTags orig b b' p h

/-- the rest of `find_assembly_overlaps` (later fragments, later Pretext scaffolds, `rename_by_size` of unlocs) only
    appends to the list of label fields -/
theorem store_tag_stable_find (input ptx : List Scaffold) (b b' : Build)
    (h : findAssemblyOverlaps input ptx b = .ok b') : b.store.map fixedOf <+: b'.store.map fixedOf :=
  findAssemblyOverlaps_fixed_prefix input ptx b b' h

/-- `discard_overhanging_fragments` keeps label fields AND names -/
theorem store_tag_stable_discard (fuel : Nat) (b b' : Build) (h : discardOverhanging fuel b = .ok b') :
    b'.store.map fixedN = b.store.map fixedN ∧ b'.namer = b.namer :=
  ⟨(discardOverhanging_keeps fuel b b' h).1, (discardOverhanging_keeps fuel b b' h).2.1⟩

/-- cutting keeps label fields AND names -/
theorem store_tag_stable_cut (b b' : Build) (h : cutRemaining b = .ok b') :
    b'.store.map fixedN = b.store.map fixedN ∧ b'.namer = b.namer :=
  ⟨(cutRemaining_keeps b b' h).1, (cutRemaining_keeps b b' h).2.1⟩

/-- `rename_by_size` changes `name` only -/
theorem store_tag_stable_rename (store : List Res) (ids : List Nat) :
    (renameBySize store ids).map (fun r => (fixedOf r, r.o.rows, r.o.start, r.o.stop)) =
      store.map (fun r => (fixedOf r, r.o.rows, r.o.start, r.o.stop)) :=
  renameBySize_fixed store ids

/-- `add_missing` does not touch the store -/
theorem store_tag_stable_missing (input : List Scaffold) (b b' : Build) (h : addMissing input b = .ok b') :
    b'.store = b.store :=
  (addMissing_store input b b' h).1

/-- **R1, the whole of `remap_to_input_assembly`.**  With `b1 … b3` the builds after the search, the resolver and the
    cutting: the returned build has the same number of stored results as `b1`, and for every `sid` the fields
    `tag, haplotype, rank, originalName, originalTags, bait, added` of `b.store[sid]` are those of `b1.store[sid]` —
    which (`store_tag_created`, `store_tag_stable_find`) are the ones given at creation. -/
theorem store_tag_stable (input ptx : List Scaffold) (prefix_ : Str) (joinGap : Option Gap) (err : Int) (b : Build)
    (h : remapToInput input ptx prefix_ joinGap err = .ok b) :
    ∃ b1 b2 b3,
      findAssemblyOverlaps input ptx (startBuild input prefix_ joinGap err) = .ok b1 ∧
      discardOverhanging (totalRows b1.store + 2) b1 = .ok b2 ∧ cutRemaining b2 = .ok b3 ∧
      addMissing input { b3 with store := renameBySize b3.store b3.namer.haplotigScaffolds } = .ok b ∧
      b2.store.map fixedN = b1.store.map fixedN ∧ b3.store.map fixedN = b2.store.map fixedN ∧
      b.store.map fixedOf = b1.store.map fixedOf ∧
      (∀ (sid : Nat) (r : Res), b.store[sid]? = some r → ∃ r1, b1.store[sid]? = some r1 ∧ fixedOf r1 = fixedOf r) := by
  obtain ⟨b1, b2, b3, h1, h2, h3, h4⟩ := remapToInput_stages input ptx prefix_ joinGap err b h
  have k2 := discardOverhanging_keeps _ b1 b2 h2
  have k3 := cutRemaining_keeps b2 b3 h3
  have hall : b.store.map fixedOf = b1.store.map fixedOf := by
    rw [(addMissing_store input _ b h4).1]
    show (renameBySize b3.store b3.namer.haplotigScaffolds).map fixedOf = _
    rw [renameBySize_fixedOf]
    exact fixedOf_of_fixedN (k2.trans k3).1
  refine ⟨b1, b2, b3, h1, h2, h3, h4, k2.1, k3.1, hall, ?_⟩
  intro sid r hr
  exact getElem?_of_map_eq fixedOf fixedOf _ _ hall.symm sid r hr

/-! ## R2 — which piece created which stored result, and its tag -/

/-- the code's precedence, with Target mode spelled out: FalseDuplicate if the piece carries it; else Haplotig if it
    carries it; else Contaminant if it carries it, or if a strictly earlier Pretext scaffold has a Target tag (`seen`)
    and the piece's own scaffold `S` has none; else no tag.
    (`pieceTag seen S p` is DEFINED with the namer flag as the code has it: `tagRule (seen || hasTarget S) …` — the
    flag is set by a Target tag "in `S` itself or in an earlier Pretext scaffold", and the same tag exempts `S`.) -/
theorem piece_tag_rule (seen : Bool) (S : Scaffold) (p : Fragment) :
    pieceTag seen S p = tagRule (seen || hasTarget S) S.fragmentTags p ∧
    pieceTag seen S p =
      if p.tags.contains sFalseDuplicate then some sFalseDuplicate
      else if p.tags.contains sHaplotig then some sHaplotig
      else if p.tags.contains sContaminant ∨ (seen = true ∧ hasTarget S = false) then some sContaminant
      else none :=
  ⟨rfl, pieceTag_eq seen S p⟩

/-- **R2.**  For the build returned by `remap_to_input_assembly`:
    * the stored results correspond one to one, in order, to `pieces input false ptx` — the Pretext fragments whose
      lookup finds something, in file order; the `sid`-th result has the `sid`-th piece as bait, its Pretext scaffold's
      name and tag set as `originalName` / `originalTags`, and the tag `pieceTag`;
    * for a piece `(seen, S, p)`: `p` is a fragment of `S`, `S` is a scaffold of the Pretext assembly, and `seen` says
      exactly that one of the Pretext scaffolds BEFORE `S` in the file carries a Target tag. -/
theorem piece_tag (input ptx : List Scaffold) (prefix_ : Str) (joinGap : Option Gap) (err : Int) (b : Build)
    (h : remapToInput input ptx prefix_ joinGap err = .ok b) :
    b.store.map labelView = (pieces input false ptx).map pieceView ∧
    (∀ (sid : Nat) (c : Bool × Scaffold × Fragment), (pieces input false ptx)[sid]? = some c →
      ∃ r, b.store[sid]? = some r ∧ r.o.tag = pieceTag c.1 c.2.1 c.2.2 ∧ r.o.originalName = some c.2.1.name ∧
        r.o.originalTags = some c.2.1.fragmentTags ∧ r.o.bait = c.2.2) ∧
    (∀ c ∈ pieces input false ptx, ∃ pre post, ptx = pre ++ c.2.1 :: post ∧ c.1 = pre.any hasTarget ∧
      c.2.2 ∈ c.2.1.fragments ∧ hits input c.2.2 = true) := by
  obtain ⟨hview, _, _⟩ := build_tags input ptx prefix_ joinGap err b h
  refine ⟨hview, ?_, ?_⟩
  · intro sid c hc
    obtain ⟨r, hr, hv⟩ := getElem?_of_map_eq labelView pieceView _ _ hview sid c hc
    exact ⟨r, hr, congrArg (·.1) hv, congrArg (·.2.1) hv, congrArg (·.2.2.1) hv, congrArg (·.2.2.2) hv⟩
  · intro c hc
    obtain ⟨pre, post, e1, e2, e3, e4⟩ := pieces_mem input ptx false c hc
    exact ⟨pre, post, e1, by simpa using e2, e3, e4⟩

/-! ## R3 — end to end -/

/-- `routeKey tag hap`: the tag if truthy, else the haplotype if truthy, else `none` (primary assembly) -/
theorem routeKey_cases (tag hap : Option Str) :
    (truthy tag = true → routeKey tag hap = tag) ∧
    (¬ truthy tag = true → truthy hap = true → routeKey tag hap = hap) ∧
    (¬ truthy tag = true → ¬ truthy hap = true → routeKey tag hap = none) := by
  unfold routeKey
  exact ⟨fun h => by rw [if_pos h], fun h1 h2 => by rw [if_neg h1, if_pos h2], fun h1 h2 => by rw [if_neg h1, if_neg h2]⟩

/-- **R3, END TO END.**  Whenever `remap` completes, with `b` the build `remap_to_input_assembly` returned:
    * the keys of the output assemblies are pairwise different (so "the assembly keyed `k`" is unique);
    * every stored result that was added and still has rows lies, as a contiguous block of rows BY VALUE
      (`toScaffoldRows`: reversed and strand-flipped for a minus bait), in a scaffold — carrying the result's tag and
      haplotype — of the output assembly keyed `routeKey tag haplotype`;
    * the same for every left-over scaffold;
    * conversely every scaffold of every output assembly sits in the assembly keyed by `routeKey` of its own tag and
      haplotype, and every fragment row of it is a row of an added stored result or of a left-over scaffold with that
      same tag and haplotype. -/
theorem remap_routes_store (input ptx : List Scaffold) (prefix_ : Str) (joinGap : Option Gap) (err : Int)
    (outs : List OutAsm) (stats : Stats) (h : remap input ptx prefix_ joinGap err = .ok (outs, stats)) :
    ∃ b, remapToInput input ptx prefix_ joinGap err = .ok b ∧
      (outs.map (·.key)).Nodup ∧
      (∀ r ∈ b.store, r.added = true → r.o.rows ≠ [] →
        ∃ a ∈ outs, a.key = routeKey r.o.tag r.o.haplotype ∧
          ∃ s ∈ a.scaffolds, s.tag = r.o.tag ∧ s.haplotype = r.o.haplotype ∧ r.o.toScaffoldRows <:+: s.rows) ∧
      (∀ e ∈ b.extra, e.1.rows ≠ [] →
        ∃ a ∈ outs, a.key = routeKey e.1.tag e.1.haplotype ∧
          ∃ s ∈ a.scaffolds, s.tag = e.1.tag ∧ s.haplotype = e.1.haplotype ∧ e.1.rows <:+: s.rows) ∧
      (∀ a ∈ outs, ∀ s ∈ a.scaffolds, a.key = routeKey s.tag s.haplotype ∧
        ∀ f, Row.frag f ∈ s.rows →
          (∃ r ∈ b.store, r.added = true ∧ r.o.rows ≠ [] ∧ r.o.tag = s.tag ∧ r.o.haplotype = s.haplotype ∧
              Row.frag f ∈ r.o.toScaffoldRows) ∨
          (∃ e ∈ b.extra, e.1.rows ≠ [] ∧ e.1.tag = s.tag ∧ e.1.haplotype = s.haplotype ∧ Row.frag f ∈ e.1.rows)) := by
  obtain ⟨b, hb, haf⟩ := remap_split input ptx prefix_ joinGap err outs stats h
  exact ⟨b, hb, routes_of_build input b outs stats haf⟩

/-- uniqueness spelled out: two output assemblies with the same key are the same assembly -/
theorem output_key_unique (input ptx : List Scaffold) (prefix_ : Str) (joinGap : Option Gap) (err : Int)
    (outs : List OutAsm) (stats : Stats) (h : remap input ptx prefix_ joinGap err = .ok (outs, stats))
    (a a' : OutAsm) (ha : a ∈ outs) (ha' : a' ∈ outs) (hk : a.key = a'.key) : a = a' := by
  obtain ⟨_, _, hnd, _⟩ := remap_routes_store input ptx prefix_ joinGap err outs stats h
  exact eq_of_nodup_map (·.key) outs hnd a ha a' ha' hk

/-! ## R4 — a tagged piece is never written to a curated assembly -/

/-- `NoTagWordHaplotype b` (Proofs/C09RMain.lean), the F16 side condition: no untagged part of the build — stored
    result that was added and still has rows, or left-over scaffold — has "FalseDuplicate", "Haplotig" or
    "Contaminant" as its haplotype string. -/
theorem noTagWordHaplotype_iff (b : Build) :
    NoTagWordHaplotype b ↔
      (∀ r ∈ b.store, r.added = true → r.o.rows ≠ [] → ¬ truthy r.o.tag = true →
        r.o.haplotype ∉ [some sFalseDuplicate, some sHaplotig, some sContaminant]) ∧
      (∀ e ∈ b.extra, e.1.rows ≠ [] → ¬ truthy e.1.tag = true →
        e.1.haplotype ∉ [some sFalseDuplicate, some sHaplotig, some sContaminant]) := Iff.rfl

/-- the side condition is what `assembly_key_noclash` needs -/
theorem noClash_of_noTagWordHaplotype (input ptx : List Scaffold) (prefix_ : Str) (joinGap : Option Gap) (err : Int)
    (b : Build) (h : remapToInput input ptx prefix_ joinGap err = .ok b) (hn : NoTagWordHaplotype b) :
    NoClash (fuseByName b) :=
  noClash_of_build input ptx prefix_ joinGap err b h hn

/-- **R4.**  Well-formed input, `remap` completes, side condition F16 holds for the build.  Let the `sid`-th piece
    `c = (seen, S, p)` have a tag by R2's precedence (`pieceTag … ≠ none`: FalseDuplicate, Haplotig, Contaminant — the
    last also through Target mode).  If its stored result was added and still has rows, then there is an output
    assembly `a` keyed by exactly that tag word with `curated = false`, a scaffold of `a` holds the result's rows as a
    contiguous block, and for every fragment `f` of the result: any fragment of any scaffold of any output assembly
    `a'` that shares a base with `f` forces `a' = a` — the sequence is written to no other assembly, in particular to
    no curated one. -/
theorem tagged_piece_never_curated (input ptx : List Scaffold) (prefix_ : Str) (joinGap : Option Gap) (err : Int)
    (outs : List OutAsm) (stats : Stats) (hwf : C01.WFInput input)
    (h : remap input ptx prefix_ joinGap err = .ok (outs, stats)) :
    ∃ b, remapToInput input ptx prefix_ joinGap err = .ok b ∧
      (NoTagWordHaplotype b →
        ∀ (sid : Nat) (c : Bool × Scaffold × Fragment) (r : Res), (pieces input false ptx)[sid]? = some c → b.store[sid]? = some r →
          r.o.tag = pieceTag c.1 c.2.1 c.2.2 ∧ r.o.bait = c.2.2 ∧
          (pieceTag c.1 c.2.1 c.2.2 ≠ none → r.added = true → r.o.rows ≠ [] →
            ∃ a ∈ outs, a.key = pieceTag c.1 c.2.1 c.2.2 ∧ a.curated = false ∧
              (∃ s ∈ a.scaffolds, r.o.toScaffoldRows <:+: s.rows) ∧
              ∀ f, Row.frag f ∈ r.o.toScaffoldRows → f.start ≤ f.stop ∧
                ∀ a' ∈ outs, ∀ s' ∈ a'.scaffolds, ∀ f', Row.frag f' ∈ s'.rows → f'.name = f.name →
                  (∃ x, f.start ≤ x ∧ x ≤ f.stop ∧ f'.start ≤ x ∧ x ≤ f'.stop) → a' = a)) := by
  obtain ⟨b, hb, haf⟩ := remap_split input ptx prefix_ joinGap err outs stats h
  refine ⟨b, hb, ?_⟩
  intro hn sid c r hc hr
  obtain ⟨hview, _, _⟩ := build_tags input ptx prefix_ joinGap err b hb
  obtain ⟨r', hr', hv⟩ := getElem?_of_map_eq labelView pieceView _ _ hview sid c hc
  rw [hr] at hr'
  cases hr'
  have ht : r.o.tag = pieceTag c.1 c.2.1 c.2.2 := congrArg (·.1) hv
  have hbait : r.o.bait = c.2.2 := congrArg (·.2.2.2) hv
  refine ⟨ht, hbait, ?_⟩
  intro hne hadd hrows
  have htw : r.o.tag ∈ tagWords := by
    rcases tagWord_or_none_of_cases (pieceTag_cases c.1 c.2.1 c.2.2) with h0 | h0
    · exact absurd h0 hne
    · rw [ht]; exact h0
  have htr : truthy r.o.tag = true := truthy_of_tagWord htw
  have hnc := noClash_of_build input ptx prefix_ joinGap err b hb hn
  obtain ⟨a, ha, hk, hcur, s, hs, hinf⟩ :=
    tagged_route_of_build input b outs stats haf hnc r (List.mem_of_getElem? hr) hadd hrows htr
  refine ⟨a, ha, hk.trans ht, hcur, ⟨s, hs, hinf⟩, ?_⟩
  intro f hf
  have hfs : Row.frag f ∈ s.rows := hinf.subset hf
  have hkO : f.keyTuple ∈ C01.outputTriples outs := by
    rw [outputTriples_eq]
    exact List.mem_flatMap.mpr ⟨a, ha, List.mem_flatMap.mpr ⟨s, hs, mem_keysOf_of_frag _ _ hfs⟩⟩
  have hle : f.start ≤ f.stop := ((C01.remap_partitions input ptx prefix_ joinGap err outs stats hwf h).2 _ hkO).1
  refine ⟨hle, ?_⟩
  intro a' ha' s' hs' f' hf' hname ⟨x, hx1, hx2, hx3, hx4⟩
  exact (shared_base_same_assembly input ptx prefix_ joinGap err outs stats hwf h a a' ha ha' s s' hs hs' f f' hfs hf'
    hname.symm x ⟨hx1, hx2⟩ ⟨hx3, hx4⟩).symm

/-- **Uniqueness of location** (from `C01.remap_exactly_once`): for a well-formed input, two fragment rows of output
    scaffolds that share a base of the same contig are in the same output assembly. -/
theorem shared_base_one_assembly (input ptx : List Scaffold) (prefix_ : Str) (joinGap : Option Gap) (err : Int)
    (outs : List OutAsm) (stats : Stats) (hwf : C01.WFInput input)
    (h : remap input ptx prefix_ joinGap err = .ok (outs, stats))
    (a a' : OutAsm) (ha : a ∈ outs) (ha' : a' ∈ outs) (s s' : Scaffold) (hs : s ∈ a.scaffolds) (hs' : s' ∈ a'.scaffolds)
    (f f' : Fragment) (hf : Row.frag f ∈ s.rows) (hf' : Row.frag f' ∈ s'.rows)
    (hname : f.name = f'.name) (x : Int) (hx : f.start ≤ x ∧ x ≤ f.stop) (hx' : f'.start ≤ x ∧ x ≤ f'.stop) :
    a = a' :=
  shared_base_same_assembly input ptx prefix_ joinGap err outs stats hwf h a a' ha ha' s s' hs hs' f f' hf hf' hname x hx hx'

/-- a piece in Target mode always gets a tag — Contaminant unless it is itself FalseDuplicate or Haplotig — so R4
    applies to it: once a Target tag has been seen, no piece of a later Pretext scaffold without one reaches a curated
    assembly -/
theorem target_mode_piece (S : Scaffold) (p : Fragment) (h2 : hasTarget S = false) :
    pieceTag true S p ≠ none ∧
    (¬ p.tags.contains sFalseDuplicate = true → ¬ p.tags.contains sHaplotig = true →
      pieceTag true S p = some sContaminant) := by
  rw [pieceTag_eq]
  by_cases c1 : p.tags.contains sFalseDuplicate = true
  · rw [if_pos c1]; exact ⟨fun h => (by cases h), fun h => absurd c1 h⟩
  rw [if_neg c1]
  by_cases c2 : p.tags.contains sHaplotig = true
  · rw [if_pos c2]; exact ⟨fun h => (by cases h), fun _ h => absurd c2 h⟩
  rw [if_neg c2, if_pos (Or.inr ⟨rfl, h2⟩)]
  exact ⟨fun h => (by cases h), fun _ _ => rfl⟩

/-- **R4 for left-overs.**  Under the same hypotheses, a left-over scaffold with a tag (by `leftover_tags` that tag is
    Contaminant — Target mode) lies in the assembly keyed by the tag, which is not curated, and nowhere else. -/
theorem tagged_leftover_never_curated (input ptx : List Scaffold) (prefix_ : Str) (joinGap : Option Gap) (err : Int)
    (outs : List OutAsm) (stats : Stats) (hwf : C01.WFInput input)
    (h : remap input ptx prefix_ joinGap err = .ok (outs, stats)) :
    ∃ b, remapToInput input ptx prefix_ joinGap err = .ok b ∧
      (NoTagWordHaplotype b →
        ∀ e ∈ b.extra, truthy e.1.tag = true →
          e.1.tag = some sContaminant ∧
          ∃ a ∈ outs, a.key = some sContaminant ∧ a.curated = false ∧
            (∃ s ∈ a.scaffolds, e.1.rows <:+: s.rows) ∧
            ∀ f, Row.frag f ∈ e.1.rows → f.start ≤ f.stop ∧
              ∀ a' ∈ outs, ∀ s' ∈ a'.scaffolds, ∀ f', Row.frag f' ∈ s'.rows → f'.name = f.name →
                (∃ x, f.start ≤ x ∧ x ≤ f.stop ∧ f'.start ≤ x ∧ x ≤ f'.stop) → a' = a) := by
  obtain ⟨b, hb, haf⟩ := remap_split input ptx prefix_ joinGap err outs stats h
  refine ⟨b, hb, ?_⟩
  intro hn e he htr
  obtain ⟨b1, b4, _, h4, _, _, _, he4, _⟩ := remapToInput_summary input ptx prefix_ joinGap err b hb
  have hnc := noClash_of_build input ptx prefix_ joinGap err b hb hn
  rcases (addMissing_leftovers input b4 b h4).2 e he with h0 | ⟨sc, _, hok⟩
  · rw [he4] at h0; cases h0
  · have htag : e.1.tag = some sContaminant := by
      rcases hok.2.2.2.1 with h0 | ⟨h0, _⟩
      · rw [h0] at htr; cases htr
      · exact h0
    obtain ⟨a, ha, hk, hcur, s, hs, hinf⟩ := tagged_extra_route_of_build input b outs stats haf hnc e he hok.2.1 htr
    refine ⟨htag, a, ha, hk.trans htag, hcur, ⟨s, hs, hinf⟩, ?_⟩
    intro f hf
    have hfs : Row.frag f ∈ s.rows := hinf.subset hf
    refine ⟨output_fragment_valid input ptx prefix_ joinGap err outs stats hwf h a ha s hs f hfs, ?_⟩
    intro a' ha' s' hs' f' hf' hname ⟨x, hx1, hx2, hx3, hx4⟩
    exact (shared_base_same_assembly input ptx prefix_ joinGap err outs stats hwf h a a' ha ha' s s' hs hs' f f' hfs hf'
      hname.symm x ⟨hx1, hx2⟩ ⟨hx3, hx4⟩).symm

/-! ## R5 — left-over scaffolds -/

/-- every left-over scaffold comes from an input scaffold `sc`, is non-empty, has rank 3, and its tag is `none` or —
    only when `sc` carries no Target tag — Contaminant -/
theorem leftover_tags (input ptx : List Scaffold) (prefix_ : Str) (joinGap : Option Gap) (err : Int) (b : Build)
    (h : remapToInput input ptx prefix_ joinGap err = .ok b) :
    ∀ e ∈ b.extra, ∃ sc ∈ input, e.1.name = sc.name ∧ e.1.rows ≠ [] ∧ e.1.rank = 3 ∧
      (e.1.tag = none ∨ (e.1.tag = some sContaminant ∧ hasTarget sc = false)) := by
  obtain ⟨b1, b4, _, h4, _, _, _, he4, _⟩ := remapToInput_summary input ptx prefix_ joinGap err b h
  intro e he
  rcases (addMissing_leftovers input b4 b h4).2 e he with h0 | ⟨sc, hsc, hok⟩
  · rw [he4] at h0; cases h0
  · exact ⟨sc, hsc, hok.1, hok.2.1, hok.2.2.1, hok.2.2.2.1⟩

/-- **R5, Target mode.**  If some Pretext scaffold carries a Target tag (so `target_tags` is set at the end of the
    map), every left-over scaffold — all sequence absent from the map — of an input scaffold WITHOUT a Target tag has
    tag Contaminant and lies (as a block of rows) in a scaffold of the assembly keyed "Contaminant"; a left-over of an
    input scaffold that itself carries a Target tag stays untagged. -/
theorem target_mode_leftovers (input ptx : List Scaffold) (prefix_ : Str) (joinGap : Option Gap) (err : Int)
    (outs : List OutAsm) (stats : Stats) (h : remap input ptx prefix_ joinGap err = .ok (outs, stats))
    (hT : ptx.any hasTarget = true) :
    ∃ b, remapToInput input ptx prefix_ joinGap err = .ok b ∧
      ∀ e ∈ b.extra, ∃ sc ∈ input, e.1.name = sc.name ∧ e.1.rows ≠ [] ∧
        e.1.tag = (if hasTarget sc then none else some sContaminant) ∧
        (hasTarget sc = false →
          ∃ a ∈ outs, a.key = some sContaminant ∧
            ∃ s ∈ a.scaffolds, s.tag = some sContaminant ∧ e.1.rows <:+: s.rows) := by
  obtain ⟨b, hb, haf⟩ := remap_split input ptx prefix_ joinGap err outs stats h
  refine ⟨b, hb, ?_⟩
  obtain ⟨b1, b4, h1, h4, _, _, hn4, he4, _⟩ := remapToInput_summary input ptx prefix_ joinGap err b hb
  obtain ⟨_, htt, _⟩ := findAssemblyOverlaps_label input ptx _ b1 h1
  have ht4 : b4.namer.targetTags = true := by
    rw [hn4, htt, hT]; rfl
  obtain ⟨_, _, hex, _⟩ := routes_of_build input b outs stats haf
  intro e he
  rcases (addMissing_leftovers input b4 b h4).2 e he with h0 | ⟨sc, hsc, hok⟩
  · rw [he4] at h0; cases h0
  · have htag := hok.2.2.2.2 ht4
    refine ⟨sc, hsc, hok.1, hok.2.1, htag, ?_⟩
    intro hnt
    rw [hnt] at htag
    simp only [Bool.false_eq_true, if_false] at htag
    obtain ⟨a, ha, hk, s, hs, s1, _, s3⟩ := hex e he hok.2.1
    refine ⟨a, ha, ?_, s, hs, s1.trans htag, s3⟩
    rw [hk, htag]; rfl

/-- `add_missing` is a left fold of `addMissingStep` (the loop body, verbatim in Proofs/C09RFixed.lean) over the input
    scaffolds: for every input scaffold `sc` there is the build `b1` just before it and `b2` just after it -/
theorem leftover_step_exists (pre post : List Scaffold) (sc : Scaffold) (b b' : Build)
    (h : addMissing (pre ++ sc :: post) b = .ok b') :
    ∃ b1 b2, addMissing pre b = .ok b1 ∧ addMissingStep b1 sc = .ok b2 ∧ addMissing post b2 = .ok b' :=
  addMissing_split pre post sc b b' h

/-- `hapClassTag t`: `make_scaffold_name` takes tag `t` for a haplotype name -/
theorem hapClassTag_iff (t : Str) :
    hapClassTag t = true ↔
      t ≠ sPainted ∧ t ≠ sTarget ∧ t ≠ sPrimary ∧ isChrNameTag t = false ∧ Gen.otherKnownTags.contains t = false := by
  unfold hapClassTag
  simp only [Bool.and_eq_true, bne_iff_ne, ne_eq, Bool.not_eq_true']
  constructor
  · rintro ⟨⟨⟨⟨a, b⟩, c⟩, d⟩, e⟩; exact ⟨a, b, c, d, e⟩
  · rintro ⟨a, b, c, d, e⟩; exact ⟨⟨⟨⟨a, b⟩, c⟩, d⟩, e⟩

/-- **R5, haplotype by name prefix (PARTIAL: left-over contigs must not carry a `Primary` tag).**
    One step of `add_missing` for input scaffold `sc`, whose left-over rows are `rows ≠ []`, whose left-over contigs
    carry no haplotype-class tag (with one, the tag — not the name — gives the haplotype: the rule does not apply, by
    design) and no `Primary` tag, and whose first row's name matches `^([^_]+)_.+_\d+$` with group 1 = `g`:
    the left-over scaffold's haplotype is `leftoverHaplotype b.namer g`, i.e. with
    `v := registeredOr b.namer g` = the spelling registered for `lowerStr g` (case-insensitive lookup) if there is one,
    ELSE `g` ITSELF (finding F10: an unplaced scaffold named `Foo_x_1` invents a haplotype "Foo"), it is `some v` —
    or "Primary" when `v` is the primary haplotype; and after the step `lowerStr g` is registered with spelling `v`.
    Other tags on the left-over contigs (Painted, Target, chromosome names, Contaminant, …) are allowed.

    MISSING for the full statement: left-over contigs carrying a `Primary` tag while no primary haplotype is set yet.
    Then `make_scaffold_name` sets the primary haplotype to `getSetHaplotype v` in this very step and the result is
    "Primary"; proving that needs the registry invariant "every key of `haplotype_lc` is `lowerStr` of its value"
    threaded through the whole pipeline, which is not done here.  (Input read from FASTA has no tagged contigs.) -/
theorem haplotype_leftovers_partial (b b' : Build) (sc : Scaffold) (rows : List Row) (first : Option Nat) (nm g : Str)
    (hm : missingRows b sc.rows = .ok (rows, first)) (hne : rows ≠ [])
    (hh : ∀ t ∈ ({ name := sc.name, rows := rows } : Scaffold).fragmentTags, hapClassTag t = false)
    (hp : sPrimary ∉ ({ name := sc.name, rows := rows } : Scaffold).fragmentTags)
    (hfirst : firstRowName rows = .ok nm) (hg : hapPrefixOfName nm = some g)
    (h : addMissingStep b sc = .ok b') :
    ∃ e, b'.extra = b.extra ++ [e] ∧ e.1.name = sc.name ∧ e.1.rows = rows ∧
      e.1.haplotype = leftoverHaplotype b.namer g ∧
      dGet? b'.namer.haplotypeLc (lowerStr g) = some (registeredOr b.namer g) :=
  addMissingStep_nameprefix b b' sc rows first nm g hm hne hh hp hfirst hg h

/-- the usual case: the left-over contigs carry no tags at all -/
theorem haplotype_leftovers_untagged (b b' : Build) (sc : Scaffold) (rows : List Row) (first : Option Nat) (nm g : Str)
    (hm : missingRows b sc.rows = .ok (rows, first)) (hne : rows ≠ [])
    (hnt : ({ name := sc.name, rows := rows } : Scaffold).fragmentTags = [])
    (hfirst : firstRowName rows = .ok nm) (hg : hapPrefixOfName nm = some g)
    (h : addMissingStep b sc = .ok b') :
    ∃ e, b'.extra = b.extra ++ [e] ∧ e.1.name = sc.name ∧ e.1.rows = rows ∧
      e.1.haplotype = leftoverHaplotype b.namer g ∧
      dGet? b'.namer.haplotypeLc (lowerStr g) = some (registeredOr b.namer g) :=
  haplotype_leftovers_partial b b' sc rows first nm g hm hne (by rw [hnt]; intro t ht; cases ht)
    (by rw [hnt]; intro ht; cases ht) hfirst hg h

/-- the two definitions used above, spelled out -/
theorem leftoverHaplotype_eq (n : Namer) (g : Str) :
    registeredOr n g = (dGet? n.haplotypeLc (lowerStr g)).getD g ∧
    leftoverHaplotype n g =
      (if truthy n.primaryHaplotype ∧ some (registeredOr n g) = n.primaryHaplotype then some sPrimary
       else some (registeredOr n g)) := ⟨rfl, rfl⟩


/-! ## R6 (beyond the task list) — the haplotype half: "scaffolds carrying a haplotype tag … go to that haplotype's
      assembly; everything else goes to the primary assembly"

  R3 files a part under `routeKey tag haplotype`.  Which haplotype a stored result carries:
  `piece_haplotype` — the one `make_scaffold_name` computed for its Pretext scaffold `S` (kept to the end);
  `scaffold_haplotype_tag` / `scaffold_haplotype_prefix` / `scaffold_no_haplotype` — what `make_scaffold_name` computes. -/

/-- every spelling registered in the namer's case-insensitive haplotype dictionary is non-empty (holds for every namer
    the pipeline reaches: `piece_haplotype` provides it) -/
theorem namerOk_iff (n : Namer) : C17.NamerOk n ↔ ∀ kv ∈ n.haplotypeLc, kv.2 ≠ [] := Iff.rfl

/-- **The pieces of a Pretext scaffold carry its haplotype to the end.**  `findStep` is the loop body of
    `find_assembly_overlaps` (verbatim, Proofs/C09RHap.lean).  For the Pretext scaffold `S` at any position of the map,
    `bA` = the build when `S` is reached, `bB` = the build after it, `n` = the namer `make_scaffold_name` returns for `S`:
    the stored results created for `S` (`bA.store.length ≤ sid < bB.store.length`) have, in the build finally returned by
    `remap_to_input_assembly`, haplotype `n.currentHaplotype`. -/
theorem piece_haplotype (input pre post : List Scaffold) (S : Scaffold) (prefix_ : Str)
    (joinGap : Option Gap) (err : Int) (b : Build)
    (h : remapToInput input (pre ++ S :: post) prefix_ joinGap err = .ok b) :
    ∃ bA bB n, findAssemblyOverlaps input pre (startBuild input prefix_ joinGap err) = .ok bA ∧
      findStep input bA S = .ok bB ∧ C17.NamerOk bA.namer ∧
      makeScaffoldName bA.namer S.name S.rows S.fragmentTags = .ok n ∧
      bA.store.length ≤ bB.store.length ∧ bB.store.length ≤ b.store.length ∧
      ∀ (sid : Nat) (r : Res), bA.store.length ≤ sid → sid < bB.store.length → b.store[sid]? = some r →
        r.o.haplotype = n.currentHaplotype :=
  remapToInput_piece_haplotype input pre post S prefix_ joinGap err b h

/-- **A scaffold carrying one haplotype tag.**  `make_scaffold_name` on a tag set (in any listing order
    `pre ++ t :: post`) whose only haplotype-class tag is `t`, without a Primary tag: the current haplotype is
    `leftoverHaplotype n t` — the spelling already registered for `lowerStr t` (case-insensitive), else `t`; "Primary"
    if that is the primary haplotype — and `lowerStr t` is registered with that spelling afterwards.
    (Two different haplotype-class tags raise TaggingError; a Primary tag is `label`-independent and not covered.) -/
theorem scaffold_haplotype_tag (n n' : Namer) (scName : Str) (rows : List Row) (pre post : List Str) (t : Str)
    (hn : C17.NamerOk n) (ht : t ≠ []) (htc : hapClassTag t = true)
    (hh : ∀ x ∈ pre ++ post, hapClassTag x = false) (hp : sPrimary ∉ pre ++ post)
    (h : makeScaffoldName n scName rows (pre ++ t :: post) = .ok n') :
    n'.currentHaplotype = leftoverHaplotype n t ∧
    dGet? n'.haplotypeLc (lowerStr t) = some (registeredOr n t) :=
  makeScaffoldName_haptag n n' scName rows pre post t hn ht htc hh hp h

/-- no haplotype-class tag (and no Primary tag): the name-prefix rule, for Pretext and left-over scaffolds alike -/
theorem scaffold_haplotype_prefix (n n' : Namer) (scName nm g : Str) (rows : List Row) (tags : List Str)
    (hh : ∀ t ∈ tags, hapClassTag t = false) (hp : sPrimary ∉ tags)
    (hfirst : firstRowName rows = .ok nm) (hg : hapPrefixOfName nm = some g)
    (h : makeScaffoldName n scName rows tags = .ok n') :
    n'.currentHaplotype = leftoverHaplotype n g ∧
    dGet? n'.haplotypeLc (lowerStr g) = some (registeredOr n g) :=
  makeScaffoldName_nameprefix n n' scName nm g rows tags hh hp hfirst hg h

/-- … and when the first row's name has no `<hap>_…_<n>` shape either: no haplotype — by R3 the scaffold's untagged
    pieces go to the primary assembly -/
theorem scaffold_no_haplotype (n n' : Namer) (scName nm : Str) (rows : List Row) (tags : List Str)
    (hh : ∀ t ∈ tags, hapClassTag t = false) (hp : sPrimary ∉ tags)
    (hfirst : firstRowName rows = .ok nm) (hg : hapPrefixOfName nm = none)
    (h : makeScaffoldName n scName rows tags = .ok n') :
    n'.currentHaplotype = none ∧ routeKey none n'.currentHaplotype = none := by
  have := makeScaffoldName_nohap n n' scName nm rows tags hh hp hfirst hg h
  exact ⟨this, by rw [this]; rfl⟩

/-! ## non-vacuity

  Input: scaffold `A` = c1, c2, c3 (100 bp each, no gaps), `B` = d1, `C` = e1, and three scaffolds absent from the map:
  `D` = f1, `E` = hap2_ctg_7, `F` = Foo_ctg_1.
  Pretext map `xPtx`:  S1 (painted) = A:1-100, A:101-200 [Contaminant], A:201-300 — a Contaminant piece in the MIDDLE of
  a painted scaffold;  S2 = B:1-50 [Haplotig];  S3 (painted) = C:1-60 [Hap2] — a haplotype-tagged scaffold.
  Target-mode variant `xPtxT`: S3 carries `Target` instead of `Hap2` and comes FIRST. -/

private def xjg : Gap := { length := 200, gapType := "scaffold".toList }
private def xfr (oid : Nat) (nm : String) (e : Int) : Fragment := { oid := oid, name := nm.toList, start := 1, stop := e, strand := 1 }
private def xIn : List Scaffold :=
  [{ name := ['A'], rows := [.frag (xfr 1 "c1" 100), .frag (xfr 2 "c2" 100), .frag (xfr 3 "c3" 100)] },
   { name := ['B'], rows := [.frag (xfr 4 "d1" 50)] }, { name := ['C'], rows := [.frag (xfr 5 "e1" 60)] },
   { name := ['D'], rows := [.frag (xfr 6 "f1" 40)] }, { name := ['E'], rows := [.frag (xfr 7 "hap2_ctg_7" 30)] },
   { name := ['F'], rows := [.frag (xfr 8 "Foo_ctg_1" 20)] }]
private def xpf (oid : Nat) (nm : Str) (s e : Int) (tags : List Str) : Row :=
  .frag { oid := oid, name := nm, start := s, stop := e, strand := 1, tags := tags }
private def xS1 : Scaffold :=
  { name := "S1".toList, rows := [xpf 10 ['A'] 1 100 [sPainted], xpf 11 ['A'] 101 200 [sPainted, sContaminant],
                                  xpf 12 ['A'] 201 300 [sPainted]] }
private def xS2 : Scaffold := { name := "S2".toList, rows := [xpf 13 ['B'] 1 50 [sHaplotig]] }
private def xS3 : Scaffold := { name := "S3".toList, rows := [xpf 14 ['C'] 1 60 [sPainted, "Hap2".toList]] }
private def xS3T : Scaffold := { name := "S3".toList, rows := [xpf 14 ['C'] 1 60 [sPainted, sTarget]] }
private def xPtx : List Scaffold := [xS1, xS2, xS3]
private def xPtxT : List Scaffold := [xS3T, xS1, xS2]
private def xPre : Str := "SUPER_".toList

/-- key, `curated`, and per scaffold the contig names, of every output assembly -/
private def routeView (r : R (List OutAsm × Stats)) : Option (List (Option Str × Bool × List (List Str))) :=
  r.toOption.map (fun r => r.1.map (fun a => (a.key, a.curated, a.scaffolds.map (fun s => (fragmentsOf s.rows).map (·.name)))))

/-- where every contig goes: c2 (the Contaminant piece in the middle of S1) to "Contaminant", c1+c3 fused to primary,
    d1 to "Haplotig", e1 and the left-over `hap2_ctg_7` (case-insensitive prefix match) to "Hap2", the left-over
    `Foo_ctg_1` to an invented haplotype "Foo" (F10), the left-over f1 to primary -/
private theorem xRemap_view :
    routeView (remap xIn xPtx xPre (some xjg) 1) =
      some [(none, true, [["c1".toList, "c3".toList], ["f1".toList]]),
            (some sContaminant, false, [["c2".toList]]),
            (some sHaplotig, false, [["d1".toList]]),
            (some "Hap2".toList, true, [["e1".toList], ["hap2_ctg_7".toList]]),
            (some "Foo".toList, true, [["Foo_ctg_1".toList]])] := by decide +kernel

/-- Target-mode variant: S3 (Target) first → S1 wholly contaminant, the Haplotig piece still haplotig, ALL left-overs
    contaminant; only e1 is curated -/
private theorem xRemapT_view :
    routeView (remap xIn xPtxT xPre (some xjg) 1) =
      some [(none, true, [["e1".toList]]),
            (some sContaminant, false, [["f1".toList], ["hap2_ctg_7".toList], ["Foo_ctg_1".toList],
                                        ["c1".toList, "c2".toList, "c3".toList]]),
            (some sHaplotig, false, [["d1".toList]])] := by decide +kernel

/-- the pieces, their `seen` flag and their tags (R2) in both maps -/
example :
    (pieces xIn false xPtx).map (fun c => (c.1, c.2.1.name, c.2.2.oid, pieceTag c.1 c.2.1 c.2.2)) =
      [(false, "S1".toList, 10, none), (false, "S1".toList, 11, some sContaminant), (false, "S1".toList, 12, none),
       (false, "S2".toList, 13, some sHaplotig), (false, "S3".toList, 14, none)] ∧
    (pieces xIn false xPtxT).map (fun c => (c.1, c.2.1.name, c.2.2.oid, pieceTag c.1 c.2.1 c.2.2)) =
      [(false, "S3".toList, 14, none), (true, "S1".toList, 10, some sContaminant),
       (true, "S1".toList, 11, some sContaminant), (true, "S1".toList, 12, some sContaminant),
       (true, "S2".toList, 13, some sHaplotig)] := by
  constructor <;> decide +kernel

/-- the build of the first map: the side condition of R4 holds, all five stored results were added and have rows -/
private theorem xBuild_facts :
    (remapToInput xIn xPtx xPre (some xjg) 1).toOption.map
        (fun b => (decide (NoTagWordHaplotype b), b.store.map (fun r => (r.added, r.o.rows.isEmpty)))) =
      some (true, [(true, false), (true, false), (true, false), (true, false), (true, false)]) := by decide +kernel

/-- **R4 applied**: its hypotheses hold for the first map (well-formed input, completed remap, side condition), and for
    the Contaminant piece in the middle of S1 (piece 1) it yields a non-curated assembly keyed "Contaminant" -/
example : ∃ outs stats, remap xIn xPtx xPre (some xjg) 1 = .ok (outs, stats) ∧
    ∃ a ∈ outs, a.key = some sContaminant ∧ a.curated = false := by
  have hv := xRemap_view
  cases hr : remap xIn xPtx xPre (some xjg) 1 with
  | error e => rw [hr] at hv; simp [routeView, Except.toOption] at hv
  | ok res =>
    obtain ⟨outs, stats⟩ := res
    refine ⟨outs, stats, rfl, ?_⟩
    obtain ⟨b, hb, hall⟩ := tagged_piece_never_curated xIn xPtx xPre (some xjg) 1 outs stats (by decide) hr
    have hf := xBuild_facts
    rw [hb] at hf
    simp only [Except.toOption, Option.map_some, Option.some.injEq, Prod.mk.injEq] at hf
    obtain ⟨hn, hst⟩ := hf
    have hpc : (pieces xIn false xPtx)[1]? = some (false, xS1, match xpf 11 ['A'] 101 200 [sPainted, sContaminant] with
        | .frag f => f | .gap _ => default) := by decide +kernel
    obtain ⟨r, hr1, _⟩ := (piece_tag xIn xPtx xPre (some xjg) 1 b hb).2.1 1 _ hpc
    have hg : (b.store.map (fun r => (r.added, r.o.rows.isEmpty)))[1]? = some (true, false) := by rw [hst]; rfl
    rw [List.getElem?_map, hr1] at hg
    simp only [Option.map_some, Option.some.injEq, Prod.mk.injEq] at hg
    obtain ⟨_, _, hrt⟩ := hall (of_decide_eq_true hn) 1 _ r hpc hr1
    have htag : pieceTag false xS1 (match xpf 11 ['A'] 101 200 [sPainted, sContaminant] with
        | .frag f => f | .gap _ => default) = some sContaminant := by decide
    obtain ⟨a, ha, hk, hc, _⟩ := hrt (by rw [htag]; exact fun h => by cases h) hg.1 (by
      intro h0; rw [h0] at hg; simp at hg)
    exact ⟨a, ha, hk.trans htag, hc⟩

/-- **R5 applied**: in the Target-mode variant the hypothesis `ptx.any hasTarget` holds -/
example : xPtxT.any hasTarget = true ∧ xPtx.any hasTarget = false := by constructor <;> decide

/-- `haplotype_leftovers_untagged` / `_partial`: hypotheses satisfiable.  With "Hap2" registered (as S3's tag does), the left-over
    scaffold `E` = hap2_ctg_7 gets haplotype "Hap2" (case-insensitive); `F` = Foo_ctg_1, nothing registered, gets "Foo"
    (F10) — and registers it. -/
private def xb0 : Build :=
  { namer := { autosomePrefix := xPre, haplotypeLc := [("hap2".toList, "Hap2".toList)] }, nextOid := 9,
    joinGap := some xjg, err := 1 }
example :
    missingRows xb0 [.frag (xfr 7 "hap2_ctg_7" 30)] = .ok ([.frag (xfr 7 "hap2_ctg_7" 30)], some 0) ∧
    ({ name := ['E'], rows := [.frag (xfr 7 "hap2_ctg_7" 30)] } : Scaffold).fragmentTags = [] ∧
    firstRowName [.frag (xfr 7 "hap2_ctg_7" 30)] = .ok "hap2_ctg_7".toList ∧
    hapPrefixOfName "hap2_ctg_7".toList = some "hap2".toList ∧
    (addMissingStep xb0 { name := ['E'], rows := [.frag (xfr 7 "hap2_ctg_7" 30)] }).toOption.map
        (fun b => b.extra.map (fun e => e.1.haplotype)) = some [some "Hap2".toList] ∧
    leftoverHaplotype xb0.namer "hap2".toList = some "Hap2".toList ∧
    leftoverHaplotype xb0.namer "Foo".toList = some "Foo".toList ∧
    (addMissingStep xb0 { name := ['F'], rows := [.frag (xfr 8 "Foo_ctg_1" 20)] }).toOption.map
        (fun b => (b.extra.map (fun e => e.1.haplotype), b.namer.haplotypeLc)) =
      some ([some "Foo".toList], [("hap2".toList, "Hap2".toList), ("foo".toList, "Foo".toList)]) := by
  refine ⟨?_, ?_, ?_, ?_, ?_, ?_, ?_, ?_⟩ <;> decide +kernel

/-- R1 / R2 hypotheses: `remap_to_input_assembly` completes on both maps, with five stored results each -/
example : (remapToInput xIn xPtx xPre (some xjg) 1).toOption.map (fun b => b.store.length) = some 5 ∧
    (remapToInput xIn xPtxT xPre (some xjg) 1).toOption.map (fun b => (b.store.map (fun r => r.o.tag), b.extra.map (fun e => e.1.tag))) =
      some ([none, some sContaminant, some sContaminant, some sContaminant, some sHaplotig],
            [some sContaminant, some sContaminant, some sContaminant]) := by
  constructor <;> decide +kernel


/-- R6 hypotheses are satisfiable: S3's tag set is `[Painted, Hap2]`, `Hap2` its only haplotype-class tag; on a fresh
    namer `make_scaffold_name` then gives current haplotype "Hap2" -/
example :
    xS3.fragmentTags = [sPainted] ++ "Hap2".toList :: [] ∧ hapClassTag "Hap2".toList = true ∧
    hapClassTag sPainted = false ∧ C17.NamerOk { autosomePrefix := xPre } ∧
    (makeScaffoldName { autosomePrefix := xPre } xS3.name xS3.rows xS3.fragmentTags).toOption.map
      (fun n => (n.currentHaplotype, n.haplotypeLc)) = some (some "Hap2".toList, [("hap2".toList, "Hap2".toList)]) ∧
    leftoverHaplotype { autosomePrefix := xPre } "Hap2".toList = some "Hap2".toList := by
  refine ⟨by decide, by decide, by decide, fun kv h => (by cases h), by decide +kernel, by decide⟩

/-- `piece_haplotype` on the first map (`xPtx = [xS1, xS2] ++ xS3 :: []`): the stored result created for S3 is the last
    one, and it carries "Hap2" -/
example : (remapToInput xIn ([xS1, xS2] ++ xS3 :: []) xPre (some xjg) 1).toOption.map
    (fun b => b.store.map (fun r => r.o.haplotype)) = some [none, none, none, none, some "Hap2".toList] := by
  decide +kernel


/-- **R5 applied** to the Target-mode variant: all three left-over scaffolds are tagged Contaminant and lie in the
    assembly keyed "Contaminant" -/
example : ∃ outs stats, remap xIn xPtxT xPre (some xjg) 1 = .ok (outs, stats) ∧
    ∃ b, remapToInput xIn xPtxT xPre (some xjg) 1 = .ok b ∧ b.extra.length = 3 ∧
      ∀ e ∈ b.extra, e.1.tag = some sContaminant ∧
        ∃ a ∈ outs, a.key = some sContaminant ∧ ∃ s ∈ a.scaffolds, e.1.rows <:+: s.rows := by
  have hv := xRemapT_view
  cases hr : remap xIn xPtxT xPre (some xjg) 1 with
  | error e => rw [hr] at hv; simp [routeView, Except.toOption] at hv
  | ok res =>
    obtain ⟨outs, stats⟩ := res
    refine ⟨outs, stats, rfl, ?_⟩
    obtain ⟨b, hb, hall⟩ := target_mode_leftovers xIn xPtxT xPre (some xjg) 1 outs stats hr (by decide)
    have hlen : (remapToInput xIn xPtxT xPre (some xjg) 1).toOption.map (fun b => b.extra.length) = some 3 := by
      decide +kernel
    rw [hb] at hlen
    simp only [Except.toOption, Option.map_some, Option.some.injEq] at hlen
    refine ⟨b, hb, hlen, ?_⟩
    intro e he
    obtain ⟨sc, hsc, _, _, htag, hroute⟩ := hall e he
    have hnt : ∀ sc ∈ xIn, hasTarget sc = false := by decide
    rw [hnt sc hsc] at htag
    obtain ⟨a, ha, hk, s, hs, _, hinf⟩ := hroute (hnt sc hsc)
    exact ⟨htag, a, ha, hk, s, hs, hinf⟩


/-- hypotheses of `shared_base_one_assembly` / `tagged_leftover_never_curated`: the input is well-formed; in the
    Target-mode variant the side condition holds for the build and all three left-over scaffolds are tagged -/
example : C01.WFInput xIn ∧
    (remapToInput xIn xPtxT xPre (some xjg) 1).toOption.map
        (fun b => (decide (NoTagWordHaplotype b), b.extra.map (fun e => truthy e.1.tag))) =
      some (true, [true, true, true]) := by
  constructor
  · decide
  · decide +kernel

/-- `store_tag_created`: `processBait` completes on the first piece of S1 and appends one result to the empty store -/
example : (processBait xIn xS1.fragmentTags xS1.name (startBuild xIn xPre (some xjg) 1)
      (match xpf 10 ['A'] 1 100 [sPainted] with | .frag f => f | .gap _ => default)).toOption.map
    (fun b => b.store.map (fun r => (r.o.tag, r.o.rank, r.added))) = some [(none, 0, true)] := by decide +kernel

/-- `scaffold_no_haplotype` / `scaffold_haplotype_prefix`: S1's tag set has no haplotype-class and no Primary tag, its
    first row lies on input scaffold `A` (no haplotype prefix); a first row on `hap2_scaffold_3` would have prefix `hap2` -/
example : xS1.fragmentTags = [sPainted, sContaminant] ∧ (∀ t ∈ xS1.fragmentTags, hapClassTag t = false) ∧
    sPrimary ∉ xS1.fragmentTags ∧ firstRowName xS1.rows = .ok ['A'] ∧ hapPrefixOfName ['A'] = none ∧
    hapPrefixOfName "hap2_scaffold_3".toList = some "hap2".toList := by
  refine ⟨by decide, by decide, by decide, by decide, by decide, by decide⟩

end AgpTpf.C09
