/-
  C02, clause "… and pieces of one Pretext scaffold that share a destination follow each other in Pretext order" —
  for ALL maps for which `remap` succeeds (task W7-C02ORDER).

  Python: `BuildAssembly.scaffolds_fused_by_name`, `Scaffold.append_scaffold`, `gaps_before_leftover`,
  `assemblies_with_scaffolds_fused` (build_assembly.py).  Helpers: `Proofs/C02OFuse.lean`, `C02OOut.lean`, `C02OUnique.lean`.

  The argument: (1) `processBait` appends results to the store in Pretext order (`C09.piece_tag`: the `sid`-th stored
  result belongs to the `sid`-th piece of `C09.pieces`, file order of Pretext scaffolds, row order inside a scaffold);
  (2) `fuseByName` folds over the store IN ORDER and appends every added, non-empty result's `to_scaffold()` rows, after a
  join-gap row, to the scaffold of its key `(tag, haplotype, name)`; left-overs come after all store results;
  (3) `assembliesFused` distributes, renames (`name` only) and sorts scaffolds but never touches `rows`.

  PROVED, all at full strength (no `_partial` theorem in this file):

    O1  `fuse_rows_decomposition`   for EVERY build: the keys of the fused scaffolds are pairwise different, and every fused
          scaffold `s` has `s.rows = joinedRows joinGap (storeContributors b k) (extraContributors b k)`, `k` its own
          `(tag, haplotype, name)` — the contributors being the sub-list IN STORE ORDER of the results with `added`,
          `rows ≠ []` and key `k`, followed by the left-over scaffolds with key `k` in `extra` order; `joinedRows` is the
          explicit spec (`joinedRows_def`, `joinStore_def`, `joinExtra_def`, closed form of the store part:
          `joinStore_closed_form`).  Conversely every key with a contributor has its fused scaffold (`fuse_has_scaffold`).
    O2  `remap_pretext_order`       for EVERY map for which `remap` completes, no hypothesis on input or map: two store
          indices `i < j` whose results are added, non-empty and have the same key lie in ONE output scaffold `s` of the
          output assembly keyed `routeKey tag haplotype`, with `s.rows = A ++ rows_i ++ B ++ rows_j ++ C`; `s` is (up to its
          name) THE fused scaffold of that key, which is unique.
        `remap_pretext_order_pieces` the same indexed by the pieces of the Pretext map (`C09.pieces`).
        `remap_output_rows`         EVERY scaffold of EVERY output assembly has rows `joinedRows …` of ALL contributors of
          its key: the whole scaffold is the Pretext-ordered concatenation of its pieces (then its left-overs).
        `remap_outputs_are_fused`   all output scaffolds together are a permutation of the fused scaffolds up to names:
          nothing is duplicated or dropped by the later stages ("exactly one", structurally).
        `remap_pretext_order_unique`  for a well-formed input (`C01.WFInput`): that scaffold, in that assembly, is the ONLY
          place of the output holding a contig base of either piece ("exactly one", by content), and conversely two
          results that have a fragment each in one output scaffold have the same key (`same_destination_same_key`).
        `leftovers_come_last`       a left-over scaffold fused under the same key comes after every store result.
    O3  `core_order`                with the hypotheses of `remap_core_in_one_scaffold` (K3): two pieces `i < j` whose cores
          hold a contig base each have a home scaffold each (K3, unique); "same key", and "same home scaffold" are
          EQUIVALENT; and then the home scaffold's rows are `A ++ rows_i ++ B ++ rows_j ++ C`, the contig rows of core `i`
          inside `rows_i`, those of core `j` inside `rows_j`.

  FINDINGS: no statement was found false of the model.  Two remarks that matter for reading the clause:
    R1  "share a destination" must be read as "same `(tag, haplotype, name)` key of the stored results in the FINAL build"
        (after `rename_by_size`), not "same Pretext scaffold": pieces of ONE Pretext scaffold can have different keys (a
        tagged piece in the middle — Contaminant, Haplotig, FalseDuplicate, Unloc — is filed elsewhere), and pieces of
        DIFFERENT Pretext scaffolds can share a key (two unpainted Pretext scaffolds whose first rows name the same input
        scaffold): they too are concatenated in Pretext order (`two_pretext_scaffolds_one_destination` below).
    R2  without a join gap configured (`joinGap = none`) consecutive pieces are concatenated with no separator at all
        (`joinStore_closed_form`); that is the model's (and the code's) behaviour, not an ordering issue.
-/
import AgpTpf.Proofs.C02OUnique
import AgpTpf.Properties.C02Core
import AgpTpf.Properties.C09Route
namespace AgpTpf.C02
open AgpTpf OverlapResult
open AgpTpf.C01 (WFInput)
open AgpTpf.C09 (FKey triple noName routeKey)

/-! ## the notions, spelled out (definitions in `Proofs/C02OFuse.lean`, `Proofs/C02OUnique.lean`) -/

/-- `triple s` (C09): the key a scaffold is fused under -/
theorem triple_def (s : Scaffold) : triple s = (s.tag, s.haplotype, s.name) := rfl

/-- the contributors of key `k`: sub-lists of the store / of `extra`, in their order -/
theorem storeContributors_def (b : Build) (k : FKey) :
    storeContributors b k = b.store.filter (isStoreContributor k) ∧
    (storeContributors b k).Sublist b.store ∧
    ∀ r, isStoreContributor k r = true ↔ r.added = true ∧ r.o.rows ≠ [] ∧ (r.o.tag, r.o.haplotype, r.o.name) = k :=
  ⟨rfl, List.filter_sublist, isStoreContributor_iff k⟩

theorem extraContributors_def (b : Build) (k : FKey) :
    extraContributors b k = b.extra.filter (isExtraContributor k) ∧
    (extraContributors b k).Sublist b.extra ∧
    ∀ e, isExtraContributor k e = true ↔ e.1.rows ≠ [] ∧ (e.1.tag, e.1.haplotype, e.1.name) = k :=
  ⟨rfl, List.filter_sublist, isExtraContributor_iff k⟩

/-- the separator in front of a store result's rows: the join-gap row, if a join gap is configured and something has been
    built already (`Scaffold.append_scaffold`) -/
theorem storeSep_def (jg : Option Gap) (built othr : List Row) :
    storeSep jg built = (match jg with
      | some g => if built.isEmpty then [] else [Row.gap g]
      | none => []) ∧
    Scaffold.appendRows built othr jg = built ++ storeSep jg built ++ othr :=
  ⟨rfl, appendRows_eq_storeSep built othr jg⟩

theorem joinStore_def (jg : Option Gap) (built : List Row) (r : Res) (rs : List Res) :
    joinStore jg built [] = built ∧
    joinStore jg built (r :: rs) = joinStore jg (built ++ storeSep jg built ++ r.o.toScaffoldRows) rs := ⟨rfl, rfl⟩

theorem joinExtra_def (jg : Option Gap) (built : List Row) (e : Scaffold × Option (Fragment × List Gap))
    (es : List (Scaffold × Option (Fragment × List Gap))) :
    joinExtra jg built [] = built ∧
    joinExtra jg built (e :: es) = joinExtra jg (built ++ gapsBeforeLeftover jg built e.2 ++ e.1.rows) es := ⟨rfl, rfl⟩

/-- **the spec function**: store contributors first, then left-over contributors -/
theorem joinedRows_def (jg : Option Gap) (rs : List Res) (es : List (Scaffold × Option (Fragment × List Gap))) :
    joinedRows jg rs es = joinExtra jg (joinStore jg [] rs) es := rfl

/-- closed form of the store part (every contributor has rows): the first contributor's rows, then for each later
    contributor `joinGapRows jg` — the join-gap row if configured, nothing otherwise — and its rows -/
theorem joinStore_closed_form (jg : Option Gap) (r : Res) (rs : List Res) (h : r.o.rows ≠ []) :
    joinStore jg [] (r :: rs) = r.o.toScaffoldRows ++ rs.flatMap (fun x => joinGapRows jg ++ x.o.toScaffoldRows) ∧
    joinGapRows jg = (match jg with | some g => [Row.gap g] | none => []) :=
  ⟨joinStore_closed jg r rs (C01.toScaffoldRows_ne_nil _ h), rfl⟩

theorem onlyHome_iff (outs : List OutAsm) (a : OutAsm) (s : Scaffold) (T : List Row) :
    OnlyHome outs a s T ↔
      ∀ a' ∈ outs, ∀ s' ∈ a'.scaffolds, ∀ g f', Row.frag g ∈ T → Row.frag f' ∈ s'.rows →
        f'.name = g.name → (∃ y, g.start ≤ y ∧ y ≤ g.stop ∧ f'.start ≤ y ∧ y ≤ f'.stop) → a' = a ∧ s' = s := Iff.rfl

/-! ## O1 — the rows of a fused scaffold -/

/-- **O1.**  For EVERY build `b` (no hypothesis):
    * the fused scaffolds have pairwise different `(tag, haplotype, name)`;
    * every fused scaffold `s` has exactly the rows `joinedRows b.joinGap cs es`, where `cs = storeContributors b k` is the
      sub-list, IN STORE ORDER, of the stored results with `added`, `rows ≠ []` and key `k = (s.tag, s.haplotype, s.name)`,
      and `es = extraContributors b k` the left-over scaffolds with that key in `extra` order: the contributors' row lists
      (`to_scaffold()` rows, resp. the left-over's rows) joined by exactly the separators the model inserts — the join-gap
      row between store results when configured, `gaps_before_leftover` in front of a left-over;
    * `s` has at least one contributor. -/
theorem fuse_rows_decomposition (b : Build) :
    ((fuseByName b).map triple).Nodup ∧
    ∀ s ∈ fuseByName b,
      s.rows = joinedRows b.joinGap (storeContributors b (s.tag, s.haplotype, s.name))
                 (extraContributors b (s.tag, s.haplotype, s.name)) ∧
      (storeContributors b (s.tag, s.haplotype, s.name) ≠ [] ∨ extraContributors b (s.tag, s.haplotype, s.name) ≠ []) :=
  fuseByName_rows b

/-- … and conversely every key with at least one contributor has its fused scaffold (unique by O1) -/
theorem fuse_has_scaffold (b : Build) (k : FKey)
    (h : storeContributors b k ≠ [] ∨ extraContributors b k ≠ []) : ∃ s ∈ fuseByName b, triple s = k :=
  fuseByName_has b k h

/-- the order inside one fused scaffold, at build level: two contributors `i < j` of key `k` -/
theorem fuse_pretext_order (b : Build) (i j : Nat) (ri rj : Res) (hij : i < j)
    (hi : b.store[i]? = some ri) (hj : b.store[j]? = some rj) (k : FKey)
    (ci : isStoreContributor k ri = true) (cj : isStoreContributor k rj = true) :
    ∃ s ∈ fuseByName b, triple s = k ∧
      ∃ A B C, s.rows = A ++ ri.o.toScaffoldRows ++ B ++ rj.o.toScaffoldRows ++ C :=
  fuse_order b i j ri rj hij hi hj k ci cj

/-- left-overs come after all store results of their key -/
theorem leftovers_come_last (b : Build) (ri : Res) (e : Scaffold × Option (Fragment × List Gap))
    (hi : ri ∈ b.store) (he : e ∈ b.extra) (k : FKey)
    (ci : isStoreContributor k ri = true) (ce : isExtraContributor k e = true) :
    ∃ s ∈ fuseByName b, triple s = k ∧
      ∃ A B C, s.rows = A ++ ri.o.toScaffoldRows ++ B ++ e.1.rows ++ C :=
  fuse_store_before_extra b ri e hi he k ci ce

/-! ### O1, non-vacuity: three parts under one key, one part under another (C01's example extended) -/

private def ojg : Gap := { length := 200, gapType := "scaffold".toList }
private def ofa : Fragment := { oid := 1, name := ['a'], start := 1, stop := 10, strand := 1 }
private def ofb : Fragment := { oid := 2, name := ['b'], start := 1, stop := 20, strand := 1 }
private def ofc : Fragment := { oid := 3, name := ['c'], start := 1, stop := 5, strand := 1 }
private def ofd : Fragment := { oid := 4, name := ['d'], start := 1, stop := 7, strand := 1 }
private def obx : Build :=
  { namer := { autosomePrefix := [] }, nextOid := 5, joinGap := some ojg, err := 1,
    store := [ { o := { bait := { ofa with strand := -1 }, start := 1, stop := 10, rows := [.frag ofa], name := ['S'] }, added := true },
               { o := { bait := ofd, start := 1, stop := 7, rows := [.frag ofd], name := ['T'] }, added := true },
               { o := { bait := ofb, start := 1, stop := 20, rows := [.frag ofb], name := ['S'] }, added := true } ],
    extra := [ ({ name := ['S'], rows := [.frag ofc] }, none) ] }
/-- the contributors of key `(none, none, "S")`: results 0 and 2 (result 1 has another key), then the left-over; the spec
    function evaluated; and `fuseByName` agrees -/
example :
    (storeContributors obx (none, none, ['S'])).map (·.o.bait.name) = [['a'], ['b']] ∧
    (extraContributors obx (none, none, ['S'])).length = 1 ∧
    joinedRows obx.joinGap (storeContributors obx (none, none, ['S'])) (extraContributors obx (none, none, ['S'])) =
      [.frag ofa.reverse, .gap ojg, .frag ofb, .gap ojg, .frag ofc] ∧
    (fuseByName obx).map (fun s => (s.name, s.rows)) =
      [(['S'], [.frag ofa.reverse, .gap ojg, .frag ofb, .gap ojg, .frag ofc]), (['T'], [.frag ofd])] := by decide
/-- hypotheses of `fuse_pretext_order` / `leftovers_come_last` on this build -/
example : obx.store[0]? = some obx.store[0] ∧ obx.store[2]? = some obx.store[2] ∧
    isStoreContributor (none, none, ['S']) obx.store[0] = true ∧ isStoreContributor (none, none, ['S']) obx.store[2] = true ∧
    isExtraContributor (none, none, ['S']) ({ name := ['S'], rows := [.frag ofc] }, none) = true := by decide

/-! ## O2 — the output of `remap` -/

/-- **O2.**  EVERY map: `remap input ptx prefix joinGap err` completes with `(outs, stats)`; `b` is the build
    `remap_to_input_assembly` returned.  For any two store indices `i < j` whose results `ri`, `rj` were added, still have
    rows, and have the same key `(tag, haplotype, name)`:
    * there is the fused scaffold `s0` of that key — the only one (`∀ s1 …`);
    * `s0` sits, renamed at most (`noName s = noName s0`: all fields but `name` equal), as scaffold `s` in the output
      assembly `a` with key `routeKey tag haplotype` (the keys of `outs` are pairwise different: "the" assembly);
    * `s.rows = A ++ ri.o.toScaffoldRows ++ B ++ rj.o.toScaffoldRows ++ C`: every row of piece `i` comes before every row
      of piece `j`.
    Since store order is the order of `C09.pieces` (`remap_pretext_order_pieces`), this is the clause of C02 — for pieces
    of one Pretext scaffold, and more generally for any two pieces that end up in one scaffold. -/
theorem remap_pretext_order (input ptx : List Scaffold) (prefix_ : Str) (joinGap : Option Gap) (err : Int)
    (outs : List OutAsm) (stats : Stats) (h : remap input ptx prefix_ joinGap err = .ok (outs, stats)) :
    ∃ b, remapToInput input ptx prefix_ joinGap err = .ok b ∧ (outs.map (·.key)).Nodup ∧
      ∀ (i j : Nat) (ri rj : Res), i < j → b.store[i]? = some ri → b.store[j]? = some rj →
        ri.added = true → ri.o.rows ≠ [] → rj.added = true → rj.o.rows ≠ [] →
        (ri.o.tag, ri.o.haplotype, ri.o.name) = (rj.o.tag, rj.o.haplotype, rj.o.name) →
        ∃ s0 ∈ fuseByName b, triple s0 = (ri.o.tag, ri.o.haplotype, ri.o.name) ∧
          (∀ s1 ∈ fuseByName b, triple s1 = (ri.o.tag, ri.o.haplotype, ri.o.name) → s1 = s0) ∧
          ∃ a ∈ outs, a.key = routeKey ri.o.tag ri.o.haplotype ∧
            ∃ s ∈ a.scaffolds, noName s = noName s0 ∧ s.tag = ri.o.tag ∧ s.haplotype = ri.o.haplotype ∧
              ∃ A B C, s.rows = A ++ ri.o.toScaffoldRows ++ B ++ rj.o.toScaffoldRows ++ C := by
  obtain ⟨b, hb, haf⟩ := C09.remap_split input ptx prefix_ joinGap err outs stats h
  refine ⟨b, hb, (C09.assembliesFused_route input b outs stats haf).1, ?_⟩
  intro i j ri rj hij hi hj ai ni aj nj hk
  obtain ⟨s0, hs0, hk0, huniq, a, ha, hak, s, hs, hn, hdec⟩ :=
    output_order input b outs stats haf i j ri rj hij hi hj ai ni aj nj hk
  obtain ⟨_, f2, f3, _⟩ := C09.noName_fields hn
  refine ⟨s0, hs0, hk0, huniq, a, ha, hak, s, hs, hn, ?_, ?_, hdec⟩
  · rw [f2]; exact congrArg (·.1) hk0
  · rw [f3]; exact congrArg (·.2.1) hk0

/-- `noName` (C09): what the later stages never change -/
theorem noName_eq_iff (s s' : Scaffold) :
    noName s' = noName s →
      s'.rows = s.rows ∧ s'.tag = s.tag ∧ s'.haplotype = s.haplotype ∧ s'.rank = s.rank ∧
      s'.originalName = s.originalName ∧ s'.originalTags = s.originalTags :=
  C09.noName_fields

/-- **"exactly one", structurally (every map).**  All scaffolds of all output assemblies together are a permutation of
    a list `fs2` that equals the list of fused scaffolds field by field except for `name`: `assembliesFused` distributes,
    renames and sorts — no fused scaffold is written twice, dropped, split or merged.  Together with O1 (fused keys
    pairwise different) and O2 the scaffold holding two pieces of one key exists exactly once. -/
theorem remap_outputs_are_fused (input ptx : List Scaffold) (prefix_ : Str) (joinGap : Option Gap) (err : Int)
    (outs : List OutAsm) (stats : Stats) (h : remap input ptx prefix_ joinGap err = .ok (outs, stats)) :
    ∃ b, remapToInput input ptx prefix_ joinGap err = .ok b ∧
      ∃ fs2 : List Scaffold, fs2.map noName = (fuseByName b).map noName ∧ (outs.flatMap (·.scaffolds)).Perm fs2 := by
  obtain ⟨b, hb, haf⟩ := C09.remap_split input ptx prefix_ joinGap err outs stats h
  exact ⟨b, hb, outputs_perm input b outs stats haf⟩

/-- **Every output scaffold, completely (every map).**  Each scaffold `s` of each output assembly is (renamed at most) the
    fused scaffold of some key `k = (s.tag, s.haplotype, name before renaming)`, and its rows are EXACTLY
    `joinedRows joinGap (storeContributors b k) (extraContributors b k)`: ALL stored results with that key, in store order
    = Pretext order, joined by the join-gap row, then the left-overs with that key.  So not only do two pieces of one
    destination keep their order — the whole scaffold is the Pretext-ordered concatenation of its pieces. -/
theorem remap_output_rows (input ptx : List Scaffold) (prefix_ : Str) (joinGap : Option Gap) (err : Int)
    (outs : List OutAsm) (stats : Stats) (h : remap input ptx prefix_ joinGap err = .ok (outs, stats)) :
    ∃ b, remapToInput input ptx prefix_ joinGap err = .ok b ∧
      ∀ a ∈ outs, ∀ s ∈ a.scaffolds, a.key = routeKey s.tag s.haplotype ∧
        ∃ nm : Str, (∃ s0 ∈ fuseByName b, noName s = noName s0 ∧ s0.name = nm) ∧
          s.rows = joinedRows b.joinGap (storeContributors b (s.tag, s.haplotype, nm))
                     (extraContributors b (s.tag, s.haplotype, nm)) ∧
          (storeContributors b (s.tag, s.haplotype, nm) ≠ [] ∨ extraContributors b (s.tag, s.haplotype, nm) ≠ []) := by
  obtain ⟨b, hb, haf⟩ := C09.remap_split input ptx prefix_ joinGap err outs stats h
  refine ⟨b, hb, ?_⟩
  obtain ⟨_, _, hfrom⟩ := C09.assembliesFused_route input b outs stats haf
  intro a ha s hs
  obtain ⟨s0, hs0, hn, hk⟩ := hfrom a ha s hs
  obtain ⟨f1, f2, f3, _⟩ := C09.noName_fields hn
  obtain ⟨hr, hne⟩ := (fuseByName_rows b).2 s0 hs0
  refine ⟨by rw [hk, f2, f3], s0.name, ⟨s0, hs0, hn, rfl⟩, ?_, ?_⟩
  · rw [f1, f2, f3]; exact hr
  · rw [f2, f3]; exact hne

/-- **O2 by Pretext pieces.**  The `sid`-th stored result belongs to the `sid`-th piece `(seen, S, p)` of
    `C09.pieces input false ptx` — the Pretext fragments whose lookup finds something, Pretext scaffolds in file order,
    fragments in row order.  So for two pieces `ci` BEFORE `cj` in the Pretext map (`i < j`; in particular two pieces of
    one Pretext scaffold `S`, `ci.2.1 = cj.2.1 = S`) there are their stored results `ri`, `rj` (bait = the piece, original
    name = the Pretext scaffold's name), and if both were added, still have rows and share the key, O2's conclusion holds. -/
theorem remap_pretext_order_pieces (input ptx : List Scaffold) (prefix_ : Str) (joinGap : Option Gap) (err : Int)
    (outs : List OutAsm) (stats : Stats) (h : remap input ptx prefix_ joinGap err = .ok (outs, stats)) :
    ∃ b, remapToInput input ptx prefix_ joinGap err = .ok b ∧
      b.store.length = (C09.pieces input false ptx).length ∧
      ∀ (i j : Nat) (ci cj : Bool × Scaffold × Fragment), i < j →
        (C09.pieces input false ptx)[i]? = some ci → (C09.pieces input false ptx)[j]? = some cj →
        ∃ ri rj, b.store[i]? = some ri ∧ b.store[j]? = some rj ∧
          ri.o.bait = ci.2.2 ∧ rj.o.bait = cj.2.2 ∧
          ri.o.originalName = some ci.2.1.name ∧ rj.o.originalName = some cj.2.1.name ∧
          (ri.added = true → ri.o.rows ≠ [] → rj.added = true → rj.o.rows ≠ [] →
            (ri.o.tag, ri.o.haplotype, ri.o.name) = (rj.o.tag, rj.o.haplotype, rj.o.name) →
            ∃ a ∈ outs, a.key = routeKey ri.o.tag ri.o.haplotype ∧
              ∃ s ∈ a.scaffolds, s.tag = ri.o.tag ∧ s.haplotype = ri.o.haplotype ∧
                ∃ A B C, s.rows = A ++ ri.o.toScaffoldRows ++ B ++ rj.o.toScaffoldRows ++ C) := by
  obtain ⟨b, hb, _, hord⟩ := remap_pretext_order input ptx prefix_ joinGap err outs stats h
  obtain ⟨hview, hpiece, _⟩ := C09.piece_tag input ptx prefix_ joinGap err b hb
  refine ⟨b, hb, by simpa using congrArg List.length hview, ?_⟩
  intro i j ci cj hij hci hcj
  obtain ⟨ri, hri, _, oi, _, bi⟩ := hpiece i ci hci
  obtain ⟨rj, hrj, _, oj, _, bj⟩ := hpiece j cj hcj
  refine ⟨ri, rj, hri, hrj, bi, bj, oi, oj, ?_⟩
  intro ai ni aj nj hk
  obtain ⟨_, _, _, _, a, ha, hak, s, hs, _, t1, t2, hdec⟩ := hord i j ri rj hij hri hrj ai ni aj nj hk
  exact ⟨a, ha, hak, s, hs, t1, t2, hdec⟩

/-- **"exactly one", by content (well-formed input).**  With `C01.WFInput input` in addition: the scaffold `s` of
    assembly `a` that O2 provides is the ONLY place of the whole output holding a contig base of piece `i` or of piece
    `j` (`OnlyHome`, see `onlyHome_iff`): any fragment of any scaffold of any assembly that shares a base with a fragment
    row of either piece lies in `s`, in `a`. -/
theorem remap_pretext_order_unique (input ptx : List Scaffold) (prefix_ : Str) (joinGap : Option Gap) (err : Int)
    (outs : List OutAsm) (stats : Stats) (hwf : WFInput input)
    (h : remap input ptx prefix_ joinGap err = .ok (outs, stats)) :
    ∃ b, remapToInput input ptx prefix_ joinGap err = .ok b ∧
      ∀ (i j : Nat) (ri rj : Res), i < j → b.store[i]? = some ri → b.store[j]? = some rj →
        ri.added = true → ri.o.rows ≠ [] → rj.added = true → rj.o.rows ≠ [] →
        (ri.o.tag, ri.o.haplotype, ri.o.name) = (rj.o.tag, rj.o.haplotype, rj.o.name) →
        ∃ a ∈ outs, a.key = routeKey ri.o.tag ri.o.haplotype ∧
          ∃ s ∈ a.scaffolds, s.tag = ri.o.tag ∧ s.haplotype = ri.o.haplotype ∧
            (∃ A B C, s.rows = A ++ ri.o.toScaffoldRows ++ B ++ rj.o.toScaffoldRows ++ C) ∧
            OnlyHome outs a s ri.o.toScaffoldRows ∧ OnlyHome outs a s rj.o.toScaffoldRows := by
  obtain ⟨b, hb, _, hord⟩ := remap_pretext_order input ptx prefix_ joinGap err outs stats h
  refine ⟨b, hb, ?_⟩
  intro i j ri rj hij hi hj ai ni aj nj hk
  obtain ⟨_, _, _, _, a, ha, hak, s, hs, _, t1, t2, A, B, C, hdec⟩ := hord i j ri rj hij hi hj ai ni aj nj hk
  refine ⟨a, ha, hak, s, hs, t1, t2, ⟨A, B, C, hdec⟩, ?_, ?_⟩
  · exact order_unique input ptx prefix_ joinGap err outs stats hwf h a ha s hs _
      ⟨A, B ++ rj.o.toScaffoldRows ++ C, by rw [hdec]; simp only [List.append_assoc]⟩
  · exact order_unique input ptx prefix_ joinGap err outs stats hwf h a ha s hs _
      ⟨A ++ ri.o.toScaffoldRows ++ B, C, by rw [hdec]⟩

/-- **Same output scaffold ⇒ same key (well-formed input).**  The converse direction of "share a destination": if ONE
    output scaffold holds a fragment row of the (added, non-empty) stored result `ri` and one of `rj`, the two results have
    the same `(tag, haplotype, name)` — two different fused scaffolds are never merged or confused by renaming. -/
theorem same_destination_same_key (input ptx : List Scaffold) (prefix_ : Str) (joinGap : Option Gap) (err : Int)
    (outs : List OutAsm) (stats : Stats) (hwf : WFInput input)
    (h : remap input ptx prefix_ joinGap err = .ok (outs, stats)) :
    ∃ b, remapToInput input ptx prefix_ joinGap err = .ok b ∧
      ∀ ri ∈ b.store, ∀ rj ∈ b.store, ri.added = true → ri.o.rows ≠ [] → rj.added = true → rj.o.rows ≠ [] →
        ∀ a ∈ outs, ∀ s ∈ a.scaffolds, ∀ gi gj, Row.frag gi ∈ ri.o.toScaffoldRows → Row.frag gj ∈ rj.o.toScaffoldRows →
          Row.frag gi ∈ s.rows → Row.frag gj ∈ s.rows →
          (ri.o.tag, ri.o.haplotype, ri.o.name) = (rj.o.tag, rj.o.haplotype, rj.o.name) := by
  obtain ⟨b, hb, haf⟩ := C09.remap_split input ptx prefix_ joinGap err outs stats h
  refine ⟨b, hb, ?_⟩
  intro ri hi rj hj ai ni aj nj a ha s hs gi gj hgi hgj hsi hsj
  exact same_scaffold_same_key input ptx prefix_ joinGap err outs stats hwf h b haf ri rj hi hj ai ni aj nj a ha s hs
    gi gj hgi hgj hsi hsj

/-! ## O3 — the cores of two pieces, in Pretext order -/

/-- a contig row of the input scaffold that is kept in a result (`RowKept`, K2) shows up in `to_scaffold()` as a fragment
    with the same contig name, inside the original interval -/
theorem rowKept_in_toScaffoldRows {o : OverlapResult} {f : Fragment} {xs : Int} {L : List Row} {row : Row} {R : List Row}
    {dl dr : Int} (hk : RowKept o f xs L row R dl dr) :
    ∃ g, Row.frag g ∈ o.toScaffoldRows ∧ g.name = f.name ∧ f.start ≤ g.start ∧ g.stop ≤ f.stop := by
  obtain ⟨f1, g1, e1, e2, hn, _, hco⟩ := hk.short
  cases e2
  have hmem : Row.frag f1 ∈ o.rows := by rw [hk.rows, e1]; simp
  obtain ⟨g, hg, hkey⟩ := frag_mem_toScaffoldRows hmem
  simp only [Fragment.keyTuple, Prod.mk.injEq] at hkey
  have d1 := hk.dl0
  have d2 := hk.dr0
  refine ⟨g, hg, hkey.1.trans hn, ?_, ?_⟩
  · rw [hkey.2.1]; split at hco <;> omega
  · rw [hkey.2.2]; split at hco <;> omega

/-- **O3.**  Hypotheses of K3 (`remap_core_in_one_scaffold`): well-formed input without negative gap lengths, pairwise
    disjoint baits, `err ≥ 0`, `remap` completes.  Take two pieces `ci = (_, Si, pi)` BEFORE `cj = (_, Sj, pj)` of the
    Pretext map (`i < j` in `C09.pieces`; e.g. two pieces of ONE Pretext scaffold), with stored results `ri`, `rj` and
    input scaffolds `sci`, `scj`, and let the core of each hold a contig base (`xi`, `xj`).  Then
    * each piece has its home: output assemblies `ai`, `aj` and scaffolds `si`, `sj` holding `to_scaffold()` of the
      result as one block, the only place of the output with sequence of that piece (K3);
    * every contig row of `sci` with a base in the core of piece `i` is a fragment row of block `i` (same contig,
      inside the original interval — shortened only if terminal, outside the core: K2), and likewise for `j`;
    * the pieces share a destination — `(ai, si) = (aj, sj)` — IF AND ONLY IF the stored results have the same key
      `(tag, haplotype, name)`;
    * and then `si.rows = A ++ block i ++ B ++ block j ++ C`: the cores appear in Pretext order. -/
theorem core_order (input ptx : List Scaffold) (prefix_ : Str) (joinGap : Option Gap) (err : Int)
    (outs : List OutAsm) (stats : Stats)
    (hwf : WFInput input) (hnn : InputNonNeg input) (hdis : PtxDisjoint ptx) (herr : 0 ≤ err)
    (h : remap input ptx prefix_ joinGap err = .ok (outs, stats)) :
    ∃ b, remapToInput input ptx prefix_ joinGap err = .ok b ∧
      ∀ (i j : Nat) (ci cj : Bool × Scaffold × Fragment), i < j →
        (C09.pieces input false ptx)[i]? = some ci → (C09.pieces input false ptx)[j]? = some cj →
        ∃ ri rj sci scj, b.store[i]? = some ri ∧ b.store[j]? = some rj ∧ ri.o.bait = ci.2.2 ∧ rj.o.bait = cj.2.2 ∧
          sci ∈ input ∧ sci.name = ci.2.2.name ∧ scj ∈ input ∧ scj.name = cj.2.2.name ∧
          ∀ xi xj, ContigAt sci.rows xi → ci.2.2.start + 3 * err ≤ xi → xi ≤ ci.2.2.stop - 3 * err →
            ContigAt scj.rows xj → cj.2.2.start + 3 * err ≤ xj → xj ≤ cj.2.2.stop - 3 * err →
            ∃ ai ∈ outs, ∃ si ∈ ai.scaffolds, ∃ aj ∈ outs, ∃ sj ∈ aj.scaffolds,
              ai.key = routeKey ri.o.tag ri.o.haplotype ∧ aj.key = routeKey rj.o.tag rj.o.haplotype ∧
              ri.o.toScaffoldRows <:+: si.rows ∧ rj.o.toScaffoldRows <:+: sj.rows ∧
              OnlyHome outs ai si ri.o.toScaffoldRows ∧ OnlyHome outs aj sj rj.o.toScaffoldRows ∧
              (∀ (X Y : List Row) (f : Fragment) (x : Int), sci.rows = X ++ .frag f :: Y →
                rowsLength X < x → x ≤ rowsLength X + f.length → ci.2.2.start + 3 * err ≤ x → x ≤ ci.2.2.stop - 3 * err →
                ∃ g, Row.frag g ∈ ri.o.toScaffoldRows ∧ g.name = f.name ∧ f.start ≤ g.start ∧ g.stop ≤ f.stop) ∧
              (∀ (X Y : List Row) (f : Fragment) (x : Int), scj.rows = X ++ .frag f :: Y →
                rowsLength X < x → x ≤ rowsLength X + f.length → cj.2.2.start + 3 * err ≤ x → x ≤ cj.2.2.stop - 3 * err →
                ∃ g, Row.frag g ∈ rj.o.toScaffoldRows ∧ g.name = f.name ∧ f.start ≤ g.start ∧ g.stop ≤ f.stop) ∧
              ((ai = aj ∧ si = sj) ↔
                (ri.o.tag, ri.o.haplotype, ri.o.name) = (rj.o.tag, rj.o.haplotype, rj.o.name)) ∧
              ((ai = aj ∧ si = sj) →
                ∃ A B C, si.rows = A ++ ri.o.toScaffoldRows ++ B ++ rj.o.toScaffoldRows ++ C) := by
  obtain ⟨b, hb, haf⟩ := C09.remap_split input ptx prefix_ joinGap err outs stats h
  refine ⟨b, hb, ?_⟩
  obtain ⟨b3, hb3, hK3⟩ := remap_core_in_one_scaffold input ptx prefix_ joinGap err outs stats hwf hnn hdis herr h
  have e3 : b3 = b := Except.ok.inj (hb3.symm.trans hb)
  subst e3
  obtain ⟨_, hK2⟩ := remap_keeps_core input ptx prefix_ joinGap err b3 hwf hnn hdis herr hb
  intro i j ci cj hij hci hcj
  obtain ⟨ri, sci, hri, bi, hsci, nmi, hcorei⟩ := hK3 i ci hci
  obtain ⟨rj, scj, hrj, bj, hscj, nmj, hcorej⟩ := hK3 j cj hcj
  refine ⟨ri, rj, sci, scj, hri, hrj, bi, bj, hsci, nmi, hscj, nmj, ?_⟩
  intro xi xj hxi i1 i2 hxj j1 j2
  obtain ⟨nei, addi, ai, hai, kai, si, hsi, _, _, infi, _, uniqi⟩ := hcorei xi hxi i1 i2
  obtain ⟨nej, addj, aj, haj, kaj, sj, hsj, _, _, infj, _, uniqj⟩ := hcorej xj hxj j1 j2
  -- the row form (K2), with K2's input scaffold identified with K3's through the distinct scaffold names
  have rowsOf : ∀ (k : Nat) (c : Bool × Scaffold × Fragment) (r : Res) (sc : Scaffold),
      (C09.pieces input false ptx)[k]? = some c → b3.store[k]? = some r → sc ∈ input → sc.name = c.2.2.name →
      ∀ (X Y : List Row) (f : Fragment) (x : Int), sc.rows = X ++ .frag f :: Y →
        rowsLength X < x → x ≤ rowsLength X + f.length → c.2.2.start + 3 * err ≤ x → x ≤ c.2.2.stop - 3 * err →
        ∃ g, Row.frag g ∈ r.o.toScaffoldRows ∧ g.name = f.name ∧ f.start ≤ g.start ∧ g.stop ≤ f.stop := by
    intro k c r sc hc hr hsc hnm X Y f x hs x1 x2 c1 c2
    obtain ⟨r', sc', _, hr', _, hsc', hnm', _, _, _, hrow⟩ := hK2 k c hc
    have er : r' = r := Option.some.inj (hr'.symm.trans hr)
    have es : sc' = sc := C09.eq_of_nodup_map (·.name) input hwf.1 sc' hsc' sc hsc (hnm'.trans hnm.symm)
    subst er; subst es
    obtain ⟨L, row, R, dl, dr, hk⟩ := hrow X Y f x hs x1 x2 c1 c2
    exact rowKept_in_toScaffoldRows hk
  have rowi := rowsOf i ci ri sci hci hri hsci nmi
  have rowj := rowsOf j cj rj scj hcj hrj hscj nmj
  -- a fragment of each block
  obtain ⟨Xi, fi, Yi, hsi', q1, q2⟩ := (contigAt_iff_span (hnn sci hsci) xi).1 hxi
  obtain ⟨gi, hgi, _, _, _⟩ := rowi Xi Yi fi xi hsi' q1 q2 i1 i2
  obtain ⟨Xj, fj, Yj, hsj', p1, p2⟩ := (contigAt_iff_span (hnn scj hscj) xj).1 hxj
  obtain ⟨gj, hgj, _, _, _⟩ := rowj Xj Yj fj xj hsj' p1 p2 j1 j2
  have hord := output_order input b3 outs stats haf i j ri rj hij hri hrj addi nei addj nej
  -- same key ⇒ the scaffold of O2 is the home of both
  have fromKey : (ri.o.tag, ri.o.haplotype, ri.o.name) = (rj.o.tag, rj.o.haplotype, rj.o.name) →
      (ai = aj ∧ si = sj) ∧ ∃ A B C, si.rows = A ++ ri.o.toScaffoldRows ++ B ++ rj.o.toScaffoldRows ++ C := by
    intro hk
    obtain ⟨_, _, _, _, a, ha, _, s, hs, _, A, B, C, hdec⟩ := hord hk
    have mi : Row.frag gi ∈ s.rows := by
      rw [hdec]; simp only [List.mem_append]; exact Or.inl (Or.inl (Or.inl (Or.inr hgi)))
    have mj : Row.frag gj ∈ s.rows := by
      rw [hdec]; simp only [List.mem_append]; exact Or.inl (Or.inr hgj)
    have vi := C09.output_fragment_valid input ptx prefix_ joinGap err outs stats hwf h a ha s hs gi mi
    have vj := C09.output_fragment_valid input ptx prefix_ joinGap err outs stats hwf h a ha s hs gj mj
    obtain ⟨ea, es⟩ := uniqi a ha s hs gi gi hgi mi rfl ⟨gi.start, Int.le_refl _, vi, Int.le_refl _, vi⟩
    obtain ⟨ea', es'⟩ := uniqj a ha s hs gj gj hgj mj rfl ⟨gj.start, Int.le_refl _, vj, Int.le_refl _, vj⟩
    refine ⟨⟨ea.symm.trans ea', es.symm.trans es'⟩, A, B, C, ?_⟩
    rw [← es]; exact hdec
  have toKey : (ai = aj ∧ si = sj) →
      (ri.o.tag, ri.o.haplotype, ri.o.name) = (rj.o.tag, rj.o.haplotype, rj.o.name) := by
    rintro ⟨ea, es⟩
    exact same_scaffold_same_key input ptx prefix_ joinGap err outs stats hwf h b3 haf ri rj
      (List.mem_of_getElem? hri) (List.mem_of_getElem? hrj) addi nei addj nej ai hai si hsi gi gj hgi hgj
      (infi.subset hgi) (es ▸ infj.subset hgj)
  exact ⟨ai, hai, si, hsi, aj, haj, sj, hsj, kai, kaj, infi, infj, uniqi, uniqj, rowi, rowj,
    ⟨toKey, fun hk => (fromKey hk).1⟩, fun hsame => (fromKey (toKey hsame)).2⟩

/-! ## non-vacuity of O2 / O3: C02Deep's example map (pieces swapped and reversed; 2 + 3 pieces fused into two scaffolds)

  Input `scaffold_1` = a1 1-100, gap, a2 111-190 (reverse contig), gap, a3 201-240;  `scaffold_2` = b1 1-80, gap, b2 86-145.
  Pretext `Scaffold_1` = scaffold_1:49-150 (−), scaffold_2:1-82;  `Scaffold_2` = scaffold_2:83-145, scaffold_1:151-240,
  scaffold_1:1-48 (−).  Unpainted, untagged: the pieces of `Scaffold_1` get the key `(none, none, "scaffold_1")` (name of
  the first row), those of `Scaffold_2` the key `(none, none, "scaffold_2")`. -/

private def okjg : Gap := { length := 200, gapType := "scaffold".toList }
private def okpc (n : Str) (s e st : Int) : Row := .frag { name := n, start := s, stop := e, strand := st }
private def okg10 : Gap := { length := 10, gapType := "scaffold".toList }
private def okg5 : Gap := { length := 5, gapType := "scaffold".toList }
private def oka1 : Fragment := { oid := 1, name := "ctgA1".toList, start := 1, stop := 100, strand := 1 }
private def oka2 : Fragment := { oid := 2, name := "ctgA2".toList, start := 1, stop := 80, strand := -1 }
private def oka3 : Fragment := { oid := 3, name := "ctgA3".toList, start := 1, stop := 40, strand := 1 }
private def okb1 : Fragment := { oid := 4, name := "ctgB1".toList, start := 1, stop := 80, strand := 1 }
private def okb2 : Fragment := { oid := 5, name := "ctgB2".toList, start := 1, stop := 60, strand := 1 }
private def oksA : Scaffold := { name := "scaffold_1".toList, rows := [.frag oka1, .gap okg10, .frag oka2, .gap okg10, .frag oka3] }
private def oksB : Scaffold := { name := "scaffold_2".toList, rows := [.frag okb1, .gap okg5, .frag okb2] }
private def okinp : List Scaffold := [oksA, oksB]
private def okP1 : Scaffold :=
  { name := "Scaffold_1".toList, rows := [okpc oksA.name 49 150 (-1), .gap okjg, okpc oksB.name 1 82 1] }
private def okP2 : Scaffold :=
  { name := "Scaffold_2".toList,
    rows := [okpc oksB.name 83 145 1, .gap okjg, okpc oksA.name 151 240 1, .gap okjg, okpc oksA.name 1 48 (-1)] }
private def okptx : List Scaffold := [okP1, okP2]

/-- what O2's hypotheses are about: `added`, "no rows", and the key of every stored result -/
private def okview (b : Build) : List (Bool × Bool × Option Str × Option Str × Str) :=
  b.store.map (fun r => (r.added, r.o.rows.isEmpty, r.o.tag, r.o.haplotype, r.o.name))

private def okexpected : List (Bool × Bool × Option Str × Option Str × Str) :=
  [(true, false, none, none, "scaffold_1".toList), (true, false, none, none, "scaffold_1".toList),
   (true, false, none, none, "scaffold_2".toList), (true, false, none, none, "scaffold_2".toList),
   (true, false, none, none, "scaffold_2".toList)]

set_option synthInstance.maxSize 1024 in
private theorem okdeep_view9 : (remapToInput okinp okptx "SUPER_".toList (some okjg) 9).toOption.map okview = some okexpected := by
  decide +kernel

set_option synthInstance.maxSize 1024 in
private theorem okdeep_view5 : (remapToInput okinp okptx "SUPER_".toList (some okjg) 5).toOption.map okview = some okexpected := by
  decide +kernel

private theorem okdeep_runs : ((remap okinp okptx "SUPER_".toList (some okjg) 9).toOption.map (fun r => r.2.cuts) = some 2) ∧
    ((remap okinp okptx "SUPER_".toList (some okjg) 5).toOption.map (fun r => r.2.cuts) = some 2) := by
  constructor <;> decide +kernel

/-- reading one entry of the view -/
private theorem okview_entry (b : Build) (hv : okview b = okexpected) (i : Nat) (nm : Str)
    (hi : okexpected[i]? = some (true, false, none, none, nm)) :
    ∃ r, b.store[i]? = some r ∧ r.added = true ∧ r.o.rows ≠ [] ∧ (r.o.tag, r.o.haplotype, r.o.name) = (none, none, nm) := by
  have hv' : b.store.map (fun r => (r.added, r.o.rows.isEmpty, r.o.tag, r.o.haplotype, r.o.name)) = okexpected.map id := by
    rw [List.map_id]; exact hv
  obtain ⟨r, hr, e⟩ := C09.getElem?_of_map_eq _ id _ _ hv' i _ hi
  simp only [id, Prod.mk.injEq] at e
  refine ⟨r, hr, e.1, ?_, by rw [e.2.2.1, e.2.2.2.1, e.2.2.2.2]⟩
  intro h0; rw [h0] at e; simp at e

/-- **O2 instantiated** (texel 8 bp, `err = 9`, as in C02Deep): the first and the last piece of Pretext `Scaffold_2`
    (store indices 2 and 4; the piece in between, index 3, shares the key as well) lie in one scaffold of the primary
    assembly, the rows of piece 2 before the rows of piece 4.  All hypotheses of `remap_pretext_order` discharged. -/
example : ∃ outs stats b ri rj, remap okinp okptx "SUPER_".toList (some okjg) 9 = .ok (outs, stats) ∧
    remapToInput okinp okptx "SUPER_".toList (some okjg) 9 = .ok b ∧ b.store[2]? = some ri ∧ b.store[4]? = some rj ∧
    ∃ a ∈ outs, a.key = none ∧ ∃ s ∈ a.scaffolds,
      ∃ A B C, s.rows = A ++ ri.o.toScaffoldRows ++ B ++ rj.o.toScaffoldRows ++ C := by
  have hv := okdeep_runs.1
  cases hr : remap okinp okptx "SUPER_".toList (some okjg) 9 with
  | error e => rw [hr] at hv; simp [Except.toOption] at hv
  | ok res =>
    obtain ⟨outs, stats⟩ := res
    obtain ⟨b, hb, _, hord⟩ := remap_pretext_order okinp okptx _ _ 9 outs stats hr
    have hf := okdeep_view9
    rw [hb] at hf
    simp only [Except.toOption, Option.map_some, Option.some.injEq] at hf
    obtain ⟨ri, hri, ai, ni, ki⟩ := okview_entry b hf 2 "scaffold_2".toList rfl
    obtain ⟨rj, hrj, aj, nj, kj⟩ := okview_entry b hf 4 "scaffold_2".toList rfl
    obtain ⟨_, _, _, _, a, ha, hak, s, hs, _, _, _, hdec⟩ := hord 2 4 ri rj (by decide) hri hrj ai ni aj nj (ki.trans kj.symm)
    refine ⟨outs, stats, b, ri, rj, rfl, hb, hri, hrj, a, ha, ?_, s, hs, hdec⟩
    have e1 : ri.o.tag = none := congrArg (·.1) ki
    have e2 : ri.o.haplotype = none := congrArg (·.2.1) ki
    rw [hak, e1, e2]; rfl

/-- the two pieces of Pretext `Scaffold_1` (store indices 0 and 1) likewise -/
example : ∃ outs stats b ri rj, remap okinp okptx "SUPER_".toList (some okjg) 9 = .ok (outs, stats) ∧
    remapToInput okinp okptx "SUPER_".toList (some okjg) 9 = .ok b ∧ b.store[0]? = some ri ∧ b.store[1]? = some rj ∧
    ∃ a ∈ outs, ∃ s ∈ a.scaffolds, ∃ A B C, s.rows = A ++ ri.o.toScaffoldRows ++ B ++ rj.o.toScaffoldRows ++ C := by
  have hv := okdeep_runs.1
  cases hr : remap okinp okptx "SUPER_".toList (some okjg) 9 with
  | error e => rw [hr] at hv; simp [Except.toOption] at hv
  | ok res =>
    obtain ⟨outs, stats⟩ := res
    obtain ⟨b, hb, _, hord⟩ := remap_pretext_order okinp okptx _ _ 9 outs stats hr
    have hf := okdeep_view9
    rw [hb] at hf
    simp only [Except.toOption, Option.map_some, Option.some.injEq] at hf
    obtain ⟨ri, hri, ai, ni, ki⟩ := okview_entry b hf 0 "scaffold_1".toList rfl
    obtain ⟨rj, hrj, aj, nj, kj⟩ := okview_entry b hf 1 "scaffold_1".toList rfl
    obtain ⟨_, _, _, _, a, ha, _, s, hs, _, _, _, hdec⟩ := hord 0 1 ri rj (by decide) hri hrj ai ni aj nj (ki.trans kj.symm)
    exact ⟨outs, stats, b, ri, rj, rfl, hb, hri, hrj, a, ha, s, hs, hdec⟩

/-- **"exactly one" instantiated** (`remap_pretext_order_unique`; the input is well-formed): the scaffold holding pieces 0
    and 1 is the only place of the output with sequence of either -/
example : ∃ outs stats b ri rj, remap okinp okptx "SUPER_".toList (some okjg) 9 = .ok (outs, stats) ∧
    remapToInput okinp okptx "SUPER_".toList (some okjg) 9 = .ok b ∧ b.store[0]? = some ri ∧ b.store[1]? = some rj ∧
    ∃ a ∈ outs, ∃ s ∈ a.scaffolds, (∃ A B C, s.rows = A ++ ri.o.toScaffoldRows ++ B ++ rj.o.toScaffoldRows ++ C) ∧
      OnlyHome outs a s ri.o.toScaffoldRows ∧ OnlyHome outs a s rj.o.toScaffoldRows := by
  have hv := okdeep_runs.1
  cases hr : remap okinp okptx "SUPER_".toList (some okjg) 9 with
  | error e => rw [hr] at hv; simp [Except.toOption] at hv
  | ok res =>
    obtain ⟨outs, stats⟩ := res
    obtain ⟨b, hb, hord⟩ := remap_pretext_order_unique okinp okptx _ _ 9 outs stats (by decide) hr
    have hf := okdeep_view9
    rw [hb] at hf
    simp only [Except.toOption, Option.map_some, Option.some.injEq] at hf
    obtain ⟨ri, hri, ai, ni, ki⟩ := okview_entry b hf 0 "scaffold_1".toList rfl
    obtain ⟨rj, hrj, aj, nj, kj⟩ := okview_entry b hf 1 "scaffold_1".toList rfl
    obtain ⟨a, ha, _, s, hs, _, _, hdec, u1, u2⟩ := hord 0 1 ri rj (by decide) hri hrj ai ni aj nj (ki.trans kj.symm)
    exact ⟨outs, stats, b, ri, rj, rfl, hb, hri, hrj, a, ha, s, hs, hdec, u1, u2⟩

set_option synthInstance.maxSize 1024 in
/-- … and what the kernel computes for that map, independently of the theorems: in `scaffold_2` the rows of piece 2
    (`ctgB2`), then piece 3 (`ctgA2:1-40`, `ctgA3`), then piece 4 (`ctgA1:1-48`, reversed) — Pretext order -/
example : (remap okinp okptx "SUPER_".toList (some okjg) 9).toOption.map
      (fun r => r.1.map (fun a => (a.key, a.scaffolds.map (fun s => (s.name, C01.keysOf s.rows))))) =
    some [(none, [("scaffold_1".toList, [("ctgA2".toList, 41, 80), ("ctgA1".toList, 49, 100), ("ctgB1".toList, 1, 80)]),
                  ("scaffold_2".toList, [("ctgB2".toList, 1, 60), ("ctgA2".toList, 1, 40), ("ctgA3".toList, 1, 40),
                                         ("ctgA1".toList, 1, 48)])])] := by decide +kernel

/-- the hypotheses of O3 / `remap_pretext_order_unique` hold for this map (`err = 5`, margin 15, as in C02Core) -/
example : WFInput okinp ∧ InputNonNeg okinp ∧ PtxDisjoint okptx ∧ (0 : Int) ≤ 5 := by
  refine ⟨by decide, by decide, by decide, by decide⟩

private def okc2 : Bool × Scaffold × Fragment := (false, okP2, { name := oksB.name, start := 83, stop := 145, strand := 1 })
private def okc4 : Bool × Scaffold × Fragment := (false, okP2, { name := oksA.name, start := 1, stop := 48, strand := -1 })

set_option synthInstance.maxSize 1024 in
private theorem okpieces : (C09.pieces okinp false okptx)[2]? = some okc2 ∧ (C09.pieces okinp false okptx)[4]? = some okc4 := by
  constructor <;> decide +kernel

/-- **O3 instantiated** (`err = 5`): pieces 2 and 4 are two pieces of ONE Pretext scaffold (`Scaffold_2`); the core of
    piece 2 (`[98, 130]` of `scaffold_2`) holds base 100 of contig b2, the core of piece 4 (`[16, 33]` of `scaffold_1`)
    holds base 20 of contig a1; their keys agree, so by `core_order` they have ONE home scaffold, whose rows are
    `A ++ block 2 ++ B ++ block 4 ++ C`, each block being the only place of the output with that piece's sequence. -/
example : ∃ outs stats b ri rj, remap okinp okptx "SUPER_".toList (some okjg) 5 = .ok (outs, stats) ∧
    remapToInput okinp okptx "SUPER_".toList (some okjg) 5 = .ok b ∧ b.store[2]? = some ri ∧ b.store[4]? = some rj ∧
    ∃ a ∈ outs, ∃ s ∈ a.scaffolds, OnlyHome outs a s ri.o.toScaffoldRows ∧ OnlyHome outs a s rj.o.toScaffoldRows ∧
      ∃ A B C, s.rows = A ++ ri.o.toScaffoldRows ++ B ++ rj.o.toScaffoldRows ++ C := by
  have hv := okdeep_runs.2
  cases hr : remap okinp okptx "SUPER_".toList (some okjg) 5 with
  | error e => rw [hr] at hv; simp [Except.toOption] at hv
  | ok res =>
    obtain ⟨outs, stats⟩ := res
    obtain ⟨b, hb, hall⟩ := core_order okinp okptx _ _ 5 outs stats (by decide) (by decide) (by decide) (by decide) hr
    have hf := okdeep_view5
    rw [hb] at hf
    simp only [Except.toOption, Option.map_some, Option.some.injEq] at hf
    obtain ⟨ri', hri', _, _, ki⟩ := okview_entry b hf 2 "scaffold_2".toList rfl
    obtain ⟨rj', hrj', _, _, kj⟩ := okview_entry b hf 4 "scaffold_2".toList rfl
    obtain ⟨ri, rj, sci, scj, hri, hrj, _, _, hsci, nmi, hscj, nmj, hcore⟩ := hall 2 4 okc2 okc4 (by decide) okpieces.1 okpieces.2
    have ei : ri' = ri := Option.some.inj (hri'.symm.trans hri)
    have ej : rj' = rj := Option.some.inj (hrj'.symm.trans hrj)
    subst ei; subst ej
    have hB : ∀ sc ∈ okinp, sc.name = oksB.name → sc = oksB := by decide
    have hA : ∀ sc ∈ okinp, sc.name = oksA.name → sc = oksA := by decide
    have e1 : sci = oksB := hB sci hsci nmi
    have e2 : scj = oksA := hA scj hscj nmj
    subst e1; subst e2
    obtain ⟨ai, hai, si, hsi, aj, haj, sj, hsj, _, _, _, _, ui, uj, _, _, hiff, hordr⟩ :=
      hcore 100 20 ⟨by decide, okb2, by decide⟩ (by decide) (by decide) ⟨by decide, oka1, by decide⟩ (by decide) (by decide)
    obtain ⟨ea, es⟩ := hiff.2 (ki.trans kj.symm)
    subst ea; subst es
    exact ⟨outs, stats, b, ri', rj', rfl, hb, hri, hrj, ai, hai, si, hsi, ui, uj, hordr ⟨rfl, rfl⟩⟩

/-! ## remark R1: two DIFFERENT Pretext scaffolds, one destination

  Input `s` = c1 1-100, c2 101-200.  Pretext `P1` = s:101-200, `P2` = s:1-100, both unpainted and untagged: each takes the
  name of its first row's input scaffold, `s`, so both stored results have the key `(none, none, "s")` and are fused —
  in Pretext order (c2 first). -/

private def oc1 : Fragment := { oid := 1, name := "c1".toList, start := 1, stop := 100, strand := 1 }
private def oc2 : Fragment := { oid := 2, name := "c2".toList, start := 1, stop := 100, strand := 1 }
private def oin2 : List Scaffold := [{ name := "s".toList, rows := [.frag oc1, .frag oc2] }]
private def optx2 : List Scaffold :=
  [{ name := "P1".toList, rows := [okpc "s".toList 101 200 1] }, { name := "P2".toList, rows := [okpc "s".toList 1 100 1] }]

set_option synthInstance.maxSize 1024 in
theorem two_pretext_scaffolds_one_destination :
    (remapToInput oin2 optx2 [] (some okjg) 5).toOption.map
        (fun b => b.store.map (fun r => (r.added, r.o.originalName, r.o.tag, r.o.haplotype, r.o.name))) =
      some [(true, some "P1".toList, none, none, "s".toList), (true, some "P2".toList, none, none, "s".toList)] ∧
    (remap oin2 optx2 [] (some okjg) 5).toOption.map (fun r => r.1.map (fun a => (a.key, a.scaffolds.map (fun s => (s.name, s.rows))))) =
      some [(none, [("s".toList, [.frag oc2, .gap okjg, .frag oc1])])] := by
  constructor <;> decide +kernel

end AgpTpf.C02
