/-
  C09 — Tags route sequence to the documented destination assembly.

  Three links of the chain are proved here, each about the model function that mirrors the Python named in brackets:
    1 `label_special`      [ScaffoldNamer.label_scaffold]   which tag / rank a looked-up piece gets;
    2 `fuse_keeps_tag`     [scaffolds_fused_by_name]        fusing never merges pieces with different (tag, haplotype, name);
    3 `assembly_key`       [assemblies_with_scaffolds_fused, split loop] which output assembly a fused scaffold is put in,
                           and the exact rule for that assembly's `curated` flag.

  FINDING (3): the simple statement "a tagged scaffold lands in an assembly with `curated = false`" is FALSE of the
  model (and the code): `curated` is fixed by the FIRST scaffold that creates the dict entry, and the entry is keyed by
  the bare string.  An untagged scaffold whose *haplotype* is the string "Contaminant" (e.g. an unplaced input contig
  called `Contaminant_x_1`: `haplotype_from_first_row_name` invents the haplotype "Contaminant") creates the assembly
  keyed "Contaminant" with `curated = true`; every Contaminant-tagged scaffold after it lands in that same, curated,
  assembly (and the haplotype's scaffolds are written to the contaminant file).  See `curated_counterexample`.
-/
import AgpTpf.Model.Remap
import AgpTpf.Proofs.C09
import AgpTpf.Proofs.C09Fuse
import AgpTpf.Proofs.C09Split
namespace AgpTpf.C09
open AgpTpf Dict

/-! ## 1  `label_scaffold` -/

/-- Target mode applies to this piece: a Target tag has been seen and the current Pretext scaffold has none. -/
def targetMode (n : Namer) (scTags : List Str) : Prop := n.targetTags = true ∧ ¬ scTags.contains sTarget = true

/-- `label_scaffold` fails only for an Unloc piece (not FalseDuplicate, not Haplotig) in an unpainted scaffold, and then
    with ValueError. -/
theorem label_fails_iff (n : Namer) (o : OverlapResult) (sid : Nat) (frag : Fragment) (scTags : List Str) (orig : Str) :
    (∃ e, labelScaffold n o sid frag scTags orig = .error e) ↔
      (¬ frag.tags.contains sFalseDuplicate = true ∧ ¬ frag.tags.contains sHaplotig = true ∧
        frag.tags.contains sUnloc = true ∧ ¬ scTags.contains sPainted = true) := by
  rw [labelScaffold_eq]
  by_cases h1 : frag.tags.contains sFalseDuplicate = true
  · rw [if_pos h1]
    exact ⟨fun ⟨e, he⟩ => (by cases he), fun h => absurd h1 h.1⟩
  rw [if_neg h1]
  by_cases h2 : frag.tags.contains sHaplotig = true
  · rw [if_pos h2]
    exact ⟨fun ⟨e, he⟩ => (by cases he), fun h => absurd h2 h.2.1⟩
  rw [if_neg h2]
  by_cases h3 : frag.tags.contains sUnloc = true
  · rw [if_pos h3]
    by_cases h4 : ¬ scTags.contains sPainted = true
    · rw [if_pos h4]
      exact ⟨fun _ => ⟨h1, h2, h3, h4⟩, fun _ => ⟨_, rfl⟩⟩
    · rw [if_neg h4]
      exact ⟨fun ⟨e, he⟩ => (by cases he), fun h => absurd h.2.2.2 h4⟩
  · rw [if_neg h3]
    exact ⟨fun ⟨e, he⟩ => (by cases he), fun h => absurd h.2.2.1 h3⟩

/-- **Tag and rank given by `label_scaffold`**, with the code's precedence
    FalseDuplicate > Haplotig > (Contaminant tag or Target mode) > unchanged.
    Besides: the haplotype is always the namer's current one and the Pretext scaffold name / tags are recorded. -/
theorem label_special (n n' : Namer) (o o' : OverlapResult) (sid : Nat) (frag : Fragment) (scTags : List Str)
    (orig : Str) (h : labelScaffold n o sid frag scTags orig = .ok (n', o')) :
    (frag.tags.contains sFalseDuplicate = true → o'.tag = some sFalseDuplicate ∧ o'.rank = 3) ∧
    (¬ frag.tags.contains sFalseDuplicate = true → frag.tags.contains sHaplotig = true →
        o'.tag = some sHaplotig ∧ o'.rank = 3) ∧
    (¬ frag.tags.contains sFalseDuplicate = true → ¬ frag.tags.contains sHaplotig = true →
        (frag.tags.contains sContaminant = true ∨ targetMode n scTags) →
        o'.tag = some sContaminant ∧ o'.rank = 3) ∧
    (¬ frag.tags.contains sFalseDuplicate = true → ¬ frag.tags.contains sHaplotig = true →
        ¬ frag.tags.contains sContaminant = true → ¬ targetMode n scTags →
        o'.tag = o.tag ∧ o'.rank = n.currentRank) ∧
    o'.haplotype = n.currentHaplotype ∧ o'.originalName = some orig ∧ o'.originalTags = some scTags ∧
    o'.rows = o.rows ∧ o'.bait = o.bait := by
  rw [labelScaffold_eq] at h
  unfold targetMode
  by_cases h1 : frag.tags.contains sFalseDuplicate = true
  · simp only [if_pos h1] at h; cases h
    exact ⟨fun _ => ⟨rfl, rfl⟩, fun h => absurd h1 h, fun h => absurd h1 h, fun h => absurd h1 h,
      rfl, rfl, rfl, rfl, rfl⟩
  simp only [if_neg h1] at h
  by_cases h2 : frag.tags.contains sHaplotig = true
  · simp only [if_pos h2] at h; cases h
    exact ⟨fun h => absurd h h1, fun _ _ => ⟨rfl, rfl⟩, fun _ h => absurd h2 h, fun _ h => absurd h2 h,
      rfl, rfl, rfl, rfl, rfl⟩
  simp only [if_neg h2] at h
  have key : ∀ nm, (labelled n o nm (preTag n o frag scTags).1 (preTag n o frag scTags).2 scTags orig).tag =
        (preTag n o frag scTags).1 ∧
      (labelled n o nm (preTag n o frag scTags).1 (preTag n o frag scTags).2 scTags orig).rank =
        (preTag n o frag scTags).2 := fun nm => ⟨rfl, rfl⟩
  have hpre1 : (frag.tags.contains sContaminant = true ∨ (n.targetTags = true ∧ ¬ scTags.contains sTarget = true)) →
      preTag n o frag scTags = (some sContaminant, 3) := by
    intro hc; unfold preTag; rw [if_pos hc]
  have hpre2 : ¬ frag.tags.contains sContaminant = true → ¬ (n.targetTags = true ∧ ¬ scTags.contains sTarget = true) →
      preTag n o frag scTags = (o.tag, n.currentRank) := by
    intro hc ht; unfold preTag; rw [if_neg (by intro h; cases h <;> contradiction)]
  by_cases h3 : frag.tags.contains sUnloc = true
  · simp only [if_pos h3] at h
    by_cases h4 : ¬ scTags.contains sPainted = true
    · simp only [if_pos h4] at h; cases h
    · simp only [if_neg h4] at h; cases h
      refine ⟨fun h => absurd h h1, fun _ h => absurd h h2, ?_, ?_, rfl, rfl, rfl, rfl, rfl⟩
      · intro _ _ hc; rw [(key _).1, (key _).2, hpre1 hc]; exact ⟨rfl, rfl⟩
      · intro _ _ hc ht; rw [(key _).1, (key _).2, hpre2 hc ht]; exact ⟨rfl, rfl⟩
  · simp only [if_neg h3] at h; cases h
    refine ⟨fun h => absurd h h1, fun _ h => absurd h h2, ?_, ?_, rfl, rfl, rfl, rfl, rfl⟩
    · intro _ _ hc; rw [(key _).1, (key _).2, hpre1 hc]; exact ⟨rfl, rfl⟩
    · intro _ _ hc ht; rw [(key _).1, (key _).2, hpre2 hc ht]; exact ⟨rfl, rfl⟩

/-- In Target mode every piece is tagged: there is no way to reach a curated assembly. -/
theorem label_target_mode (n n' : Namer) (o o' : OverlapResult) (sid : Nat) (frag : Fragment) (scTags : List Str)
    (orig : Str) (ht : targetMode n scTags) (h : labelScaffold n o sid frag scTags orig = .ok (n', o')) :
    truthy o'.tag = true ∧ o'.rank = 3 := by
  obtain ⟨l1, l2, l3, _⟩ := label_special n n' o o' sid frag scTags orig h
  by_cases h1 : frag.tags.contains sFalseDuplicate = true
  · rw [(l1 h1).1, (l1 h1).2]; exact ⟨rfl, rfl⟩
  by_cases h2 : frag.tags.contains sHaplotig = true
  · rw [(l2 h1 h2).1, (l2 h1 h2).2]; exact ⟨rfl, rfl⟩
  · rw [(l3 h1 h2 (.inr ht)).1, (l3 h1 h2 (.inr ht)).2]; exact ⟨rfl, rfl⟩

/-- A fresh lookup result carries no tag, so outside the special cases `label_scaffold` leaves `tag = none`. -/
theorem find_overlaps_untagged (rows : List Row) (bait : Fragment) (o : OverlapResult)
    (h : findOverlaps rows bait = .ok (some o)) : o.tag = none ∧ o.bait = bait := by
  unfold findOverlaps at h
  split at h
  · cases h
  · simp only [] at h
    split at h
    · cases h
    · simp only [bind, Except.bind, pure, Except.pure] at h
      repeat' split at h
      all_goals first | (cases h; exact ⟨rfl, rfl⟩) | cases h

/-! ## 2  `scaffolds_fused_by_name` -/

/-- the (tag, haplotype, name) triple the fusing dict is keyed by -/
def triple (s : Scaffold) : FKey := (s.tag, s.haplotype, s.name)

/-- **Fusing keeps tags apart.**
    (a) every stored lookup result that was added and still has rows is found, as a contiguous block of rows (reversed
        and strand-flipped for a minus bait: `toScaffoldRows`), inside a fused scaffold with the same tag, haplotype
        and name;
    (b) the same for every left-over input scaffold appended by `add_missing`;
    (c) fused scaffolds have pairwise different (tag, haplotype, name) — so the scaffold in (a)/(b) is unique;
    (d) every fused scaffold has the triple of one of its members: its tag IS the tag of a member, and by (c) of all. -/
theorem fuse_keeps_tag (b : Build) :
    (∀ r ∈ b.store, r.added = true → r.o.rows ≠ [] →
        ∃ s ∈ fuseByName b, triple s = (r.o.tag, r.o.haplotype, r.o.name) ∧ r.o.toScaffoldRows <:+: s.rows) ∧
    (∀ e ∈ b.extra, e.1.rows ≠ [] →
        ∃ s ∈ fuseByName b, triple s = triple e.1 ∧ e.1.rows <:+: s.rows) ∧
    ((fuseByName b).map triple).Nodup ∧
    (∀ s ∈ fuseByName b,
        (∃ r ∈ b.store, r.added = true ∧ r.o.rows ≠ [] ∧ triple s = (r.o.tag, r.o.haplotype, r.o.name)) ∨
        (∃ e ∈ b.extra, e.1.rows ≠ [] ∧ triple s = triple e.1)) := by
  obtain ⟨hok, _, hholds, hkeys⟩ := fuseFold_spec (fuseItems b) (fuseItems_ok b) [] ⟨by simp, by simp⟩
  have hacc : ∀ p ∈ fuseAcc b, triple p.2 = p.1 := hok.1
  have found : ∀ it ∈ fuseItems b, ∃ s ∈ fuseByName b, triple s = it.key ∧ it.rows <:+: s.rows := by
    intro it hit
    obtain ⟨s, hs, hr⟩ := hholds it hit
    have hm : (it.key, s) ∈ fuseAcc b := dGet?_mem _ _ _ hs
    refine ⟨s, ?_, hacc _ hm, hr⟩
    rw [fuseByName_eq]; exact List.mem_map.2 ⟨_, hm, rfl⟩
  refine ⟨?_, ?_, ?_, ?_⟩
  · intro r hr ha hrows
    have hne : ¬ (¬ r.added = true ∨ r.o.rows.isEmpty = true) := by
      intro h; rcases h with h | h
      · exact h ha
      · exact hrows (by simpa using h)
    obtain ⟨it, hit, hk, hrw⟩ : ∃ it, itemOfRes b r = some it ∧ it.key = (r.o.tag, r.o.haplotype, r.o.name) ∧
        it.rows = r.o.toScaffoldRows := by
      unfold itemOfRes; rw [if_neg hne]; exact ⟨_, rfl, rfl, rfl⟩
    obtain ⟨s, hs, h1, h2⟩ := found it (List.mem_append.2 (.inl (List.mem_filterMap.2 ⟨r, hr, hit⟩)))
    exact ⟨s, hs, hk ▸ h1, hrw ▸ h2⟩
  · intro e he hrows
    have hne : ¬ e.1.rows.isEmpty = true := by intro h; exact hrows (by simpa using h)
    obtain ⟨it, hit, hk, hrw⟩ : ∃ it, itemOfExtra b e = some it ∧ it.key = triple e.1 ∧ it.rows = e.1.rows := by
      unfold itemOfExtra; rw [if_neg hne]; exact ⟨_, rfl, rfl, rfl⟩
    obtain ⟨s, hs, h1, h2⟩ := found it (List.mem_append.2 (.inr (List.mem_filterMap.2 ⟨e, he, hit⟩)))
    exact ⟨s, hs, hk ▸ h1, hrw ▸ h2⟩
  · rw [fuseByName_eq, List.map_map]
    have : (fuseAcc b).map (triple ∘ fun x => x.2) = (fuseAcc b).map (·.1) :=
      List.map_congr_left (fun p hp => hacc p hp)
    rw [this]; exact hok.2
  · intro s hs
    rw [fuseByName_eq] at hs
    obtain ⟨p, hp, rfl⟩ := List.mem_map.1 hs
    rcases hkeys p hp with h | ⟨it, hit, hk⟩
    · simp at h
    · rw [hacc p hp, ← hk]
      rcases List.mem_append.1 hit with hit | hit
      · obtain ⟨r, hr, hir⟩ := List.mem_filterMap.1 hit
        left
        unfold itemOfRes at hir
        split at hir
        · cases hir
        · rename_i hc
          cases hir
          refine ⟨r, hr, ?_, ?_, rfl⟩
          · cases hra : r.added
            · exact absurd (.inl (by simp [hra])) hc
            · rfl
          · intro h0; exact hc (.inr (by simp [h0]))
      · obtain ⟨e, he, hie⟩ := List.mem_filterMap.1 hit
        right
        unfold itemOfExtra at hie
        split at hie
        · cases hie
        · rename_i hc
          cases hie
          exact ⟨e, he, fun h0 => hc (by simp [h0]), rfl⟩

/-! ## 3  which output assembly -/

/-- `asmKey s = (key, curated)` as the split loop computes it for a fused scaffold `s`: tag if truthy (not curated), else
    haplotype if truthy, else `none` (both curated). -/
theorem asmKey_cases (s : Scaffold) :
    (truthy s.tag = true → asmKey s = (s.tag, false)) ∧
    (¬ truthy s.tag = true → truthy s.haplotype = true → asmKey s = (s.haplotype, true)) ∧
    (¬ truthy s.tag = true → ¬ truthy s.haplotype = true → asmKey s = (none, true)) := by
  unfold asmKey
  refine ⟨fun h => by rw [if_pos h], fun h1 h2 => by rw [if_neg h1, if_pos h2], fun h1 h2 => by rw [if_neg h1, if_neg h2]⟩

/-- the assemblies dict `assembliesFused` builds for the fused scaffolds `fs` -/
def asmsOf (prefix_ : Str) (fs : List Scaffold) : Asms := (splitLoop prefix_ fs).1

/-- `assembliesFused` is the split loop followed by naming / sorting / stats (definitional). -/
theorem assembliesFused_split (input : List Scaffold) (b : Build) :
    assembliesFused input b = finishAssemblies input b (splitLoop b.namer.autosomePrefix (fuseByName b)) := rfl

/-- The `OutAsm` list returned by `assembliesFused` has exactly the keys and `curated` flags of that dict, in order
    (so `assembly_key` speaks about the written assemblies). -/
theorem assembliesFused_keys (input : List Scaffold) (b : Build) (outs : List OutAsm) (stats : Stats)
    (h : assembliesFused input b = .ok (outs, stats)) :
    outs.map (fun a => (a.key, a.curated)) =
      (asmsOf b.namer.autosomePrefix (fuseByName b)).map (fun a => (a.1, a.2.1)) :=
  finishAssemblies_keys input b _ outs stats (assembliesFused_split input b ▸ h)

/-- **Exact routing statement.**  Scaffold number `sid` is listed in the assembly keyed `(asmKey s).1` and in no other;
    that assembly's member list is exactly the scaffolds with this key, in order; and its `curated` flag is
    `(asmKey first).2` of its FIRST member — not necessarily of `s`. -/
theorem assembly_key (prefix_ : Str) (fs : List Scaffold) (sid : Nat) (hsid : sid < fs.length) :
    ∃ c ids first,
      dGet? (asmsOf prefix_ fs) (asmKey (fs.getD sid default)).1 = some (c, ids) ∧
      ids = (List.range fs.length).filter (fun j => (asmKey (fs.getD j default)).1 = (asmKey (fs.getD sid default)).1) ∧
      sid ∈ ids ∧ ids.head? = some first ∧ first ≤ sid ∧
      (asmKey (fs.getD first default)).1 = (asmKey (fs.getD sid default)).1 ∧
      c = (asmKey (fs.getD first default)).2 ∧
      (∀ k' c' ids', dGet? (asmsOf prefix_ fs) k' = some (c', ids') → sid ∈ ids' →
          k' = (asmKey (fs.getD sid default)).1) ∧
      ((asmsOf prefix_ fs).map (·.1)).Nodup := by
  have hg := ginv_fold (fun j => (asmKey (fs.getD j default)).1) (fun j => (asmKey (fs.getD j default)).2)
    (List.range fs.length) [] [] ⟨by simp, by intro k c ids h; simp [dGet?] at h, by simp⟩
  have hasm : asmsOf prefix_ fs = (List.range fs.length).foldl
      (fun asms j => addAsm asms ((asmKey (fs.getD j default)).1, (asmKey (fs.getD j default)).2) j) [] :=
    splitLoop_asms prefix_ fs
  rw [← hasm, List.nil_append] at hg
  obtain ⟨h1, h2, h3⟩ := hg
  have hmem : sid ∈ List.range fs.length := List.mem_range.2 hsid
  have hsome := h3 sid hmem
  cases hd : dGet? (asmsOf prefix_ fs) (asmKey (fs.getD sid default)).1 with
  | none => rw [hd] at hsome; cases hsome
  | some w =>
    obtain ⟨c, ids⟩ := w
    obtain ⟨e1, e2⟩ := h2 _ c ids hd
    have hin : sid ∈ ids := by rw [e1]; exact List.mem_filter.2 ⟨hmem, by simp⟩
    cases hh : ids.head? with
    | none => rw [hh] at e2; cases e2
    | some first =>
      rw [hh] at e2
      have hfm : first ∈ ids := List.mem_of_mem_head? hh
      have hfk : (asmKey (fs.getD first default)).1 = (asmKey (fs.getD sid default)).1 := by
        rw [e1] at hfm; simpa using (List.mem_filter.1 hfm).2
      have hle : first ≤ sid := by
        -- `ids` is a sublist of `range n`, hence sorted; its head is its minimum
        have hsorted : ids.Pairwise (· < ·) := by
          rw [e1]; exact List.Pairwise.filter _ List.pairwise_lt_range
        cases ids with
        | nil => cases hin
        | cons a r =>
          simp at hh; subst hh
          rcases List.mem_cons.1 hin with h | h
          · omega
          · exact Nat.le_of_lt ((List.pairwise_cons.1 hsorted).1 sid h)
      refine ⟨c, ids, first, rfl, e1, hin, hh, hle, hfk, ?_, ?_, h1⟩
      · simpa using e2.symm
      · intro k' c' ids' hk' hin'
        obtain ⟨e1', _⟩ := h2 k' c' ids' hk'
        rw [e1'] at hin'
        have := (List.mem_filter.1 hin').2
        exact (of_decide_eq_true this).symm

/-- No clash between tag strings and haplotype strings among the fused scaffolds. -/
def NoClash (fs : List Scaffold) : Prop :=
  ∀ i j, i < fs.length → j < fs.length →
    truthy (fs.getD i default).tag = true → ¬ truthy (fs.getD j default).tag = true →
    (fs.getD j default).haplotype ≠ (fs.getD i default).tag

/-- **Routing as documented, under `NoClash`.**  A scaffold with a tag lands in the assembly keyed by the tag, which is
    not curated; an untagged one with a haplotype in the curated assembly keyed by the haplotype; the rest in the curated
    assembly keyed `none` (primary).  For the `none` assembly no side condition is needed (`assembly_key_primary`). -/
theorem assembly_key_noclash (prefix_ : Str) (fs : List Scaffold) (sid : Nat) (hsid : sid < fs.length)
    (hnc : NoClash fs) :
    let s := fs.getD sid default
    (truthy s.tag = true → ∃ ids, dGet? (asmsOf prefix_ fs) s.tag = some (false, ids) ∧ sid ∈ ids) ∧
    (¬ truthy s.tag = true → truthy s.haplotype = true →
        ∃ ids, dGet? (asmsOf prefix_ fs) s.haplotype = some (true, ids) ∧ sid ∈ ids) ∧
    (¬ truthy s.tag = true → ¬ truthy s.haplotype = true →
        ∃ ids, dGet? (asmsOf prefix_ fs) none = some (true, ids) ∧ sid ∈ ids) := by
  intro s
  obtain ⟨c, ids, first, hd, _, hin, hh, hle, hfk, hc, _, _⟩ := assembly_key prefix_ fs sid hsid
  have hflt : first < fs.length := Nat.lt_of_le_of_lt hle hsid
  obtain ⟨a1, a2, a3⟩ := asmKey_cases s
  obtain ⟨b1, b2, b3⟩ := asmKey_cases (fs.getD first default)
  refine ⟨?_, ?_, ?_⟩
  · intro ht
    have hk : (asmKey s).1 = s.tag := by rw [a1 ht]
    refine ⟨ids, ?_, hin⟩
    rw [← hk, hd]
    by_cases hft : truthy (fs.getD first default).tag = true
    · rw [hc, b1 hft]
    · exfalso
      by_cases hfh : truthy (fs.getD first default).haplotype = true
      · rw [b2 hft hfh] at hfk
        exact hnc sid first hsid hflt ht hft (hfk.trans hk)
      · rw [b3 hft hfh] at hfk
        have : none = s.tag := hfk.trans hk
        rw [← this] at ht; cases ht
  · intro ht hh'
    have hk : (asmKey s).1 = s.haplotype := by rw [a2 ht hh']
    refine ⟨ids, ?_, hin⟩
    rw [← hk, hd]
    by_cases hft : truthy (fs.getD first default).tag = true
    · exfalso
      rw [b1 hft] at hfk
      exact hnc first sid hflt hsid hft ht (hfk.trans hk).symm
    · by_cases hfh : truthy (fs.getD first default).haplotype = true
      · rw [hc, b2 hft hfh]
      · rw [hc, b3 hft hfh]
  · intro ht hh'
    have hk : (asmKey s).1 = none := by rw [a3 ht hh']
    refine ⟨ids, ?_, hin⟩
    rw [← hk, hd]
    by_cases hft : truthy (fs.getD first default).tag = true
    · exfalso
      rw [b1 hft] at hfk
      have : (fs.getD first default).tag = none := hfk.trans hk
      rw [this] at hft; cases hft
    · by_cases hfh : truthy (fs.getD first default).haplotype = true
      · rw [hc, b2 hft hfh]
      · rw [hc, b3 hft hfh]

/-- the primary assembly (key `none`) is always curated and never receives a tagged or haplotype-labelled scaffold -/
theorem assembly_key_primary (prefix_ : Str) (fs : List Scaffold) (c : Bool) (ids : List Nat)
    (h : dGet? (asmsOf prefix_ fs) none = some (c, ids)) :
    c = true ∧ ∀ sid ∈ ids, sid < fs.length ∧ ¬ truthy (fs.getD sid default).tag = true ∧
      ¬ truthy (fs.getD sid default).haplotype = true := by
  have hg := ginv_fold (fun j => (asmKey (fs.getD j default)).1) (fun j => (asmKey (fs.getD j default)).2)
    (List.range fs.length) [] [] ⟨by simp, by intro k c ids h; simp [dGet?] at h, by simp⟩
  have hasm : asmsOf prefix_ fs = (List.range fs.length).foldl
      (fun asms j => addAsm asms ((asmKey (fs.getD j default)).1, (asmKey (fs.getD j default)).2) j) [] :=
    splitLoop_asms prefix_ fs
  rw [← hasm, List.nil_append] at hg
  obtain ⟨e1, e2⟩ := hg.2.1 none c ids h
  have hall : ∀ sid ∈ ids, sid < fs.length ∧ ¬ truthy (fs.getD sid default).tag = true ∧
      ¬ truthy (fs.getD sid default).haplotype = true := by
    intro sid hs
    rw [e1] at hs
    obtain ⟨hr, hk⟩ := List.mem_filter.1 hs
    have hk : (asmKey (fs.getD sid default)).1 = none := by simpa using hk
    obtain ⟨a1, a2, _⟩ := asmKey_cases (fs.getD sid default)
    refine ⟨List.mem_range.1 hr, ?_, ?_⟩
    · intro ht; rw [a1 ht] at hk; simp only [] at hk; rw [hk] at ht; cases ht
    · intro hh
      by_cases ht : truthy (fs.getD sid default).tag = true
      · rw [a1 ht] at hk; simp only [] at hk; rw [hk] at ht; cases ht
      · rw [a2 ht hh] at hk; simp only [] at hk; rw [hk] at hh; cases hh
  refine ⟨?_, hall⟩
  cases hh : ids.head? with
  | none => rw [hh] at e2; cases e2
  | some first =>
    rw [hh] at e2
    obtain ⟨_, h1, h2⟩ := hall first (List.mem_of_mem_head? hh)
    have : some (asmKey (fs.getD first default)).2 = some c := by simpa using e2
    rw [(asmKey_cases _).2.2 h1 h2] at this
    cases this; rfl

/-! ### non-vacuity and the counterexample -/

def untaggedHapContaminant : Scaffold :=
  { name := ['C','o','n','t','a','m','i','n','a','n','t','_','x','_','1'], haplotype := some sContaminant, rank := 3 }
def taggedContaminant : Scaffold := { name := ['c','t','g','2'], tag := some sContaminant, rank := 3 }
def plainScaffold : Scaffold := { name := ['S','U','P','E','R','_','1'], rank := 1 }

/-- COUNTEREXAMPLE to "tagged ⇒ `curated = false`": the Contaminant-tagged scaffold (id 1) is put in an assembly with
    `curated = true`, created by the untagged scaffold (id 0) whose haplotype string is "Contaminant". -/
theorem curated_counterexample :
    asmsOf ['S','U','P','E','R','_'] [untaggedHapContaminant, taggedContaminant, plainScaffold] =
      [(some sContaminant, true, [0, 1]), (none, true, [2])] := by decide

/-- … and in the other order the haplotype's scaffold is filed under the non-curated contaminant assembly -/
example :
    asmsOf ['S','U','P','E','R','_'] [taggedContaminant, untaggedHapContaminant, plainScaffold] =
      [(some sContaminant, false, [0, 1]), (none, true, [2])] := by decide

/-- `NoClash` is satisfiable with all three kinds of scaffold present, and the routing is then as documented -/
example :
    NoClash [taggedContaminant, { plainScaffold with haplotype := some ['H','a','p','2'] }, plainScaffold] ∧
    asmsOf ['S','U','P','E','R','_']
        [taggedContaminant, { plainScaffold with haplotype := some ['H','a','p','2'] }, plainScaffold] =
      [(some sContaminant, false, [0]), (some ['H','a','p','2'], true, [1]), (none, true, [2])] := by
  refine ⟨?_, by decide⟩
  intro i j hi hj
  have hi' : i = 0 ∨ i = 1 ∨ i = 2 := by simp at hi; omega
  have hj' : j = 0 ∨ j = 1 ∨ j = 2 := by simp at hj; omega
  rcases hi' with rfl | rfl | rfl <;> rcases hj' with rfl | rfl | rfl <;> decide

/-- `label_special` / `label_target_mode` hypotheses are satisfiable: a Haplotig piece in Target mode -/
example :
    let n : Namer := { autosomePrefix := [], targetTags := true, currentScaffoldName := some ['S','1'], currentRank := 1 }
    let o : OverlapResult := { bait := { name := ['c'], start := 1, stop := 9, strand := 1 }, start := 1, stop := 9, rows := [] }
    let frag : Fragment := { name := ['c'], start := 1, stop := 9, strand := 1, tags := [sHaplotig, sContaminant] }
    targetMode n [sPainted] ∧
    (labelScaffold n o 0 frag [sPainted] ['S','1']).toOption.map (fun p => (p.2.tag, p.2.rank, p.2.name)) =
      some (some sHaplotig, 3, ['H','_','1']) := by
  refine ⟨⟨rfl, by decide⟩, by decide⟩

/-- `fuse_keeps_tag` on a concrete store: two added results with the same name but different tags stay apart -/
example :
    let f : Fragment := { name := ['c'], start := 1, stop := 9, strand := 1 }
    let o1 : OverlapResult := { bait := f, start := 1, stop := 9, rows := [.frag f], name := ['X'], tag := some sHaplotig }
    let o2 : OverlapResult := { bait := f, start := 1, stop := 9, rows := [.frag f], name := ['X'] }
    let b : Build := { namer := { autosomePrefix := [] }, store := [⟨o1, true⟩, ⟨o2, true⟩, ⟨o1, true⟩],
                       nextOid := 0, joinGap := none, err := 0 }
    (fuseByName b).map (fun s => (s.tag, s.rows.length)) = [(some sHaplotig, 2), (none, 1)] := by decide

end AgpTpf.C09
