/- C09 — statements under construction -/
import AgpTpf.Model.Remap
namespace AgpTpf.C09
open AgpTpf
theorem appendRows_nil (rows : List Row) (g : Option Gap) : Scaffold.appendRows [] rows g = rows := by
  cases g <;> simp [Scaffold.appendRows]
end AgpTpf.C09
