/- C06 — statements under construction -/
import AgpTpf.Model.Text
namespace AgpTpf.C06
open AgpTpf
theorem joinWith_single (sep : Char) (f : Str) : joinWith sep [f] = f := rfl
end AgpTpf.C06
