/-
  C06 — Every AGP the tools write is coordinate-valid.

  `formatAgp` / `formatAgpRows` (Model/Text.lean) is the only AGP writer in the model (asm-format, pretext-to-asm
  and the `.agp` cache all go through `format_agp`).  Validity is stated on the column lists that are joined by
  tabs into the written lines (`agpCols`, proved equal to what the model writes: `formatAgpRows_eq`) with every
  numeric column read back through `pyInt` (= Python `int()`), so the statement is about the written TEXT.
  C05 (`AgpTpf.C05.agp_line_cols`) shows that the AGP reader recovers exactly these columns from the line.

  Definitions are in Proofs/C06Cols.lean:
    `ValidAgpLine strict name p i e cols` — one line: object = name, start = p+1, end = e, part = i+1,
        sequence line: col5 = "W", `end - start = cmp_end - cmp_start`, strand column from the strand table;
        gap line: col5 = "U", exactly 9 columns, `end - start + 1 = gap length`, linkage "yes", evidence, a gap type;
        with `strict`: `start ≤ end` and gap type non-empty.
    `ValidAgpLines strict name p i colss last` — the lines chain: each start = previous end + 1, parts count up,
        final end = `last`.
  Not covered here: "the FASTA record's length when a FASTA is written with it" (Fasta/Cache models, property C04/C15).
-/
import AgpTpf.Proofs.C06Cols
import AgpTpf.Proofs.C05MapM
namespace AgpTpf.C06
open AgpTpf AgpTpf.C05

/-- the constants the validity predicate mentions are the AGP ones -/
theorem agp_constants :
    Gen.agpGapCol5 = "U".toList ∧ Gen.agpGapLinkage = "yes".toList ∧ Gen.agpGapEvidence ≠ [] ∧
    Gen.agpFragCol5 = "W".toList ∧ Gen.agpStrandStr = ["?".toList, "+".toList, "-".toList] := by decide

/-- One scaffold, started at any running position `p` / part number `i`: whenever `format_agp` writes
    the rows at all (no exception), the lines written are exactly the tab-joined column lists `colss`,
    one per row, and they tile the object from `p+1` to `p + length` with parts `i+1, i+2, …`. -/
theorem format_agp_valid_of_ok (name : Str) (p i : Int) (rows : List Row) (lines : List Str)
    (h : formatAgpRows name p i rows = .ok lines) :
    ∃ colss, lines = colss.map lineOfCols ∧ colss.length = rows.length ∧
      ValidAgpLines false name p i colss (p + rowsLength rows) := by
  rw [formatAgpRows_eq] at h
  cases hc : agpCols name p i rows with
  | error e => rw [hc] at h; cases h
  | ok colss =>
    rw [hc] at h; cases h
    have hw := (agpCols_ok_iff_strands name p i rows).1 ⟨colss, hc⟩
    obtain ⟨colss', hc', hlen, hv⟩ := agpCols_valid false name p i rows hw (fun h => Bool.noConfusion h)
    rw [hc] at hc'; cases hc'
    exact ⟨colss, rfl, hlen, hv⟩

/-- Fragments as `mkFragment` admits them (strand ∈ {-1,0,1}): formatting succeeds and is valid. -/
theorem format_agp_valid (name : Str) (p i : Int) (rows : List Row) (hs : ∀ r ∈ rows, StrandOk r) :
    ∃ colss, formatAgpRows name p i rows = .ok (colss.map lineOfCols) ∧ colss.length = rows.length ∧
      ValidAgpLines false name p i colss (p + rowsLength rows) := by
  obtain ⟨colss, hc, hlen, hv⟩ := agpCols_valid false name p i rows (fun r hr => (hs r hr).writable)
    (fun h => Bool.noConfusion h)
  exact ⟨colss, by rw [formatAgpRows_eq, hc]; rfl, hlen, hv⟩

/-- With positive lengths (fragments `start ≤ end`, gaps `length ≥ 1` with a non-empty type) additionally every
    line has `start ≤ end` — no empty or backwards span — and every gap line names its type. -/
theorem format_agp_valid_strict (name : Str) (p i : Int) (rows : List Row) (hs : ∀ r ∈ rows, StrandOk r)
    (hp : ∀ r ∈ rows, RowStrict r) :
    ∃ colss, formatAgpRows name p i rows = .ok (colss.map lineOfCols) ∧ colss.length = rows.length ∧
      ValidAgpLines true name p i colss (p + rowsLength rows) := by
  obtain ⟨colss, hc, hlen, hv⟩ := agpCols_valid true name p i rows (fun r hr => (hs r hr).writable) (fun _ => hp)
  exact ⟨colss, by rw [formatAgpRows_eq, hc]; rfl, hlen, hv⟩

/-- FINDING (why `strict` needs a hypothesis): a gap of length 0 is written with `end = start - 1`. -/
example : formatAgpRows "s".toList 0 0 [.gap { length := 0, gapType := "scaffold".toList }] =
    .ok ["s\t1\t0\t1\tU\t0\tscaffold\tyes\tproximity_ligation\n".toList] := by rfl

/-- The whole assembly: the written file is the header lines followed, scaffold by scaffold, by lines that tile
    each object from 1 (`p = 0`), parts from 1 (`i = 0`), up to the scaffold's length. -/
theorem formatAgp_valid (a : Assembly) (hs : ∀ s ∈ a.scaffolds, ∀ r ∈ s.rows, StrandOk r) :
    ∃ bodies : List (List (List Str)),
      formatAgp a = .ok (a.header.map (fun h => Gen.agpHeaderPrefix ++ h ++ ['\n']) ++
                          (bodies.map (List.map lineOfCols)).flatten) ∧
      Forall2 (fun (s : Scaffold) colss => colss.length = s.rows.length ∧
                  ValidAgpLines false s.name 0 0 colss s.length) a.scaffolds bodies := by
  have := mapM_ok_of_forall (fun s : Scaffold => formatAgpRows s.name 0 0 s.rows)
    (fun s ls => ∃ colss, ls = colss.map lineOfCols ∧ colss.length = s.rows.length ∧
        ValidAgpLines false s.name 0 0 colss s.length) a.scaffolds
    (by
      intro s hsm
      obtain ⟨colss, h1, h2, h3⟩ := format_agp_valid s.name 0 0 s.rows (hs s hsm)
      refine ⟨_, h1, colss, rfl, h2, ?_⟩
      simpa [Scaffold.length] using h3)
  obtain ⟨ls, hls, hall⟩ := this
  -- choose the column lists
  have hex : ∀ (scs : List Scaffold) (ls : List (List Str)),
      Forall2 (fun (s : Scaffold) ls => ∃ colss, ls = colss.map lineOfCols ∧ colss.length = s.rows.length ∧
        ValidAgpLines false s.name 0 0 colss s.length) scs ls →
      ∃ bodies : List (List (List Str)), ls = bodies.map (List.map lineOfCols) ∧
        Forall2 (fun (s : Scaffold) colss => colss.length = s.rows.length ∧
                  ValidAgpLines false s.name 0 0 colss s.length) scs bodies := by
    intro scs
    induction scs with
    | nil => intro ls h; cases ls with | nil => exact ⟨[], rfl, trivial⟩ | cons _ _ => exact h.elim
    | cons s t ih =>
      intro ls h
      cases ls with
      | nil => exact h.elim
      | cons l lt =>
        obtain ⟨⟨colss, e, h2, h3⟩, ht⟩ := h
        obtain ⟨bt, ebt, hbt⟩ := ih lt ht
        exact ⟨colss :: bt, by simp [e, ebt], ⟨h2, h3⟩, hbt⟩
  obtain ⟨bodies, eb, hb⟩ := hex _ _ hall
  refine ⟨bodies, ?_, hb⟩
  unfold formatAgp
  rw [hls, eb]; rfl

/-- …and strictly valid when all rows have positive length. -/
theorem formatAgp_valid_strict (a : Assembly) (hs : ∀ s ∈ a.scaffolds, ∀ r ∈ s.rows, StrandOk r)
    (hp : ∀ s ∈ a.scaffolds, ∀ r ∈ s.rows, RowStrict r) :
    ∃ lines, formatAgp a = .ok lines ∧
      ∀ s ∈ a.scaffolds, ∃ colss, formatAgpRows s.name 0 0 s.rows = .ok (colss.map lineOfCols) ∧
        colss.length = s.rows.length ∧ ValidAgpLines true s.name 0 0 colss s.length := by
  obtain ⟨bodies, h, _⟩ := formatAgp_valid a hs
  refine ⟨_, h, ?_⟩
  intro s hsm
  obtain ⟨colss, h1, h2, h3⟩ := format_agp_valid_strict s.name 0 0 s.rows (hs s hsm) (hp s hsm)
  exact ⟨colss, h1, h2, by simpa [Scaffold.length] using h3⟩

/-! Non-vacuity: a concrete two-scaffold assembly (gap, minus strand, unknown strand, tags). -/
def demo : Assembly :=
  { header := ["hdr".toList],
    scaffolds := [
      { name := "scaffold_1".toList,
        rows := [.frag { name := "ctg:1".toList, start := 1, stop := 1000000000000, strand := 1, tags := ["Painted".toList] },
                 .gap { length := 200, gapType := "scaffold".toList },
                 .frag { name := "ctg2".toList, start := 5, stop := 9, strand := -1, tags := ["X".toList, "Y".toList] }] },
      { name := "scaffold_2".toList,
        rows := [.frag { name := "ctg3".toList, start := 11, stop := 20, strand := 0 }] }] }

example : (∀ s ∈ demo.scaffolds, ∀ r ∈ s.rows, StrandOk r) ∧ (∀ s ∈ demo.scaffolds, ∀ r ∈ s.rows, RowStrict r) := by
  decide

example : formatAgpRows "s".toList 0 0 [.frag { name := "c".toList, start := 5, stop := 9, strand := -1 },
      .gap { length := 3, gapType := "scaffold".toList }] =
    .ok ["s\t1\t5\t1\tW\tc\t5\t9\t-\n".toList, "s\t6\t8\t2\tU\t3\tscaffold\tyes\tproximity_ligation\n".toList] := by
  rfl

end AgpTpf.C06
